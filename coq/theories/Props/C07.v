(* C07 — Spec importers never panic and valid captures always yield usable specs.

   State: the models describe /repo WITH fixes/C07-import-key-share-length.diff and
   fixes/C07-json-nil-members.diff; the statements below are the full ones. The code
   as shipped violates two of them; its witnesses are kept as C07_shipped_* (the
   [false] argument of import_hello / json_spec selects the shipped code). *)
From Coq Require Import String.
From UV Require Import Base.Common Model.Padding Model.Marshal.
From UV Require Import Model.Wire Model.Varint Model.Ext Model.FromRaw Model.Import Model.Json
  Model.SetVers Proofs.FromRawP Proofs.ImportP Proofs.JsonP Proofs.SetVersP.
Open Scope N_scope.
Open Scope list_scope.

(* FingerprintClientHello / RawClientHello / FromRaw: any bytes, any flags *)
Theorem C07_no_panic_from_raw : forall (blunt real : bool) (raw : bytes) (p : N),
  from_raw blunt real raw <> Panic p.
Proof. intros blunt real raw. apply np_neq. exact (from_raw_np blunt real raw). Qed.
Print Assumptions C07_no_panic_from_raw.

Theorem C07_no_panic_fingerprint : forall (f : fp_flags) (raw : bytes) (p : N),
  fingerprint f raw <> Panic p.
Proof. intros f raw. apply np_neq. exact (fingerprint_np f raw). Qed.
Print Assumptions C07_no_panic_fingerprint.

(* every extension's Write (on the value ExtensionFromID makes; both PSK choices) *)
Theorem C07_no_panic_ext_write : forall (id : N) (body : bytes) (p : N),
  ext_write id body <> Panic p /\ ext_write_realpsk id body <> Panic p.
Proof.
  intros id body p. split; revert p; apply np_neq; [exact (ext_write_np id body) | exact (ext_write_realpsk_np id body)].
Qed.
Print Assumptions C07_no_panic_ext_write.

(* ImportTLSClientHello(FromJSON): any map (the key_share slice obeys len <= cap, as every Go slice) *)
Theorem C07_no_panic_import : forall (vmin vmax : N) (m : imap) (p : N),
  imap_ok m -> import_hello true vmin vmax m <> Panic p.
Proof. intros vmin vmax m p Hok. revert p. apply np_neq. exact (import_hello_np vmin vmax m Hok). Qed.
Print Assumptions C07_no_panic_import.

(* ClientHelloSpec.UnmarshalJSON / Fingerprinter.UnmarshalJSONClientHello: any decoded document,
   whatever the dicttls tables contain *)
Theorem C07_no_panic_json : forall (d_suite d_comp d_ext d_group d_point d_sig d_certcomp d_pskmode : string -> option N)
  (always_pad : bool) (v : jval) (p : N),
  json_spec d_suite d_comp d_ext d_group d_point d_sig d_certcomp d_pskmode true v <> Panic p /\
  json_fingerprint d_suite d_comp d_ext d_group d_point d_sig d_certcomp d_pskmode true always_pad v <> Panic p.
Proof.
  intros. split; revert p; apply np_neq; [apply json_spec_np | apply json_fingerprint_np].
Qed.
Print Assumptions C07_no_panic_json.

(* Whatever FingerprintClientHello accepts (in particular every syntactically valid ClientHello it
   accepts) yields a spec whose extensions, after any in-place update that keeps each object's
   type (what ApplyPreset does), are marshalled by MarshalClientHello without a panic, for every
   header, allocator behaviour of bytes.Buffer and padding target. *)
Theorem C07_valid_usable : forall (f : fp_flags) (raw : bytes) (s : spec),
  fingerprint f raw = Ok s ->
  forall (es' : list ext), applied (sp_exts s) es' ->
  forall (bbs : N -> N) (h : hello_hdr) (padto : Z) (p : N),
  marshal_client_hello bbs h (map (aext_of padto) es') <> Panic p.
Proof. intros f raw s Hf es' Ha bbs h padto. apply np_neq. exact (usable f raw s es' bbs h padto Hf Ha). Qed.
Print Assumptions C07_valid_usable.

(* Read of every non-QUIC extension stays inside the buffer it is given (the fact usability rests on) *)
Theorem C07_read_within_buffer : forall (e : ext) (n : N) (b : bytes), ext_read e n = Ok b -> blen b <= n.
Proof. exact ext_read_le. Qed.
Print Assumptions C07_read_within_buffer.

(* Applying a spec starts with UConn.SetTLSVers(TLSVersMin, TLSVersMax, Extensions) and
   makeSupportedVersions: no version pair (in particular no record-layer version / legacy_version
   pair FromRaw stored, in either order) and no extension list makes them panic; an unusable
   range is an ordinary error or a (useless) wrapped list. *)
Theorem C07_no_panic_set_tls_vers : forall (minV maxV : N) (es : list ext) (p : N),
  set_tls_vers minV maxV es <> Panic p.
Proof. intros minV maxV es. apply np_neq. exact (set_tls_vers_np minV maxV es). Qed.
Print Assumptions C07_no_panic_set_tls_vers.

Theorem C07_valid_usable_versions : forall (f : fp_flags) (raw : bytes) (s : spec) (p : N),
  fingerprint f raw = Ok s -> spec_set_tls_vers s <> Panic p.
Proof. intros f raw s p _. apply C07_no_panic_set_tls_vers. Qed.
Print Assumptions C07_valid_usable_versions.

Theorem C07_supported_versions_ordered_range : forall mn mx l,
  769 <= mn <= 772 -> 769 <= mx <= 772 -> mn <= mx ->
  make_supported_versions mn mx = Ok l -> N.of_nat (length l) = mx - mn + 1.
Proof. exact make_supported_versions_len. Qed.
Print Assumptions C07_supported_versions_ordered_range.

(* ---- the code as shipped (findings F-07a, F-07b; replayed on the real code by the runner) ---- *)
Definition C07_import_full_shipped : Prop :=
  forall vmin vmax m p, imap_ok m -> import_hello false vmin vmax m <> Panic p.
Theorem C07_shipped_import_refuted : ~ C07_import_full_shipped.
Proof.
  intros H. apply (H 0 0 (f07a_map [0; 29; 0] 3) P_SLICE).
  - cbn. lia.
  - exact unfixed_import_panics_slice.
Qed.
Print Assumptions C07_shipped_import_refuted.

Theorem C07_shipped_import_holds_if : forall d cap, blen d <= cap -> blen d mod 4 = 0 ->
  forall p, key_share_fixed_data false d cap <> Panic p.
Proof. intros d cap H1 H2. apply np_neq. exact (unfixed_key_share_np d cap H1 H2). Qed.
Print Assumptions C07_shipped_import_holds_if.

Definition C07_json_full_shipped : Prop :=
  forall (d : string -> option N) v p, json_spec d d d d d d d d false v <> Panic p.
Theorem C07_shipped_json_refuted : ~ C07_json_full_shipped.
Proof. intros H. exact (H (fun _ => None) (JObj []) P_NIL eq_refl). Qed.
Print Assumptions C07_shipped_json_refuted.

Theorem C07_shipped_json_holds_if : forall u,
  ju_suites u <> None -> ju_comp u <> None -> ju_exts u <> None -> forall p, chsju_spec false u <> Panic p.
Proof. intros u H1 H2 H3. apply np_neq. exact (unfixed_chsju_spec_np u H1 H2 H3). Qed.
Print Assumptions C07_shipped_json_holds_if.

(* ---- hypotheses are satisfiable, on non-trivial inputs ---- *)
(* a record with a ClientHello: TLS 1.2, 2 suites (one GREASE), null compression,
   extensions: GREASE(empty), supported_groups [GREASE, x25519], padding(3 bytes), EMS *)
Definition ex_hello : bytes :=
  [22; 3; 1; 0; 74;  1; 0; 0; 70;  3; 3] ++ zbytes 32 ++ [0]
  ++ [0; 4; 10; 10; 19; 1] ++ [1; 0]
  ++ [0; 25] ++ [26; 26; 0; 0] ++ [0; 10; 0; 6; 0; 4; 42; 42; 0; 29] ++ [0; 21; 0; 3; 0; 0; 0] ++ [0; 23; 0; 0].

Example C07_ex_from_raw :
  fingerprint {| f_blunt := false; f_always_pad := true; f_real_psk := false |} ex_hello =
  Ok {| sp_suites := [2570; 4865]; sp_comp := [0];
        sp_exts := [EGREASE 2570 []; ESupportedCurves [2570; 29]; EPadding 0 false PadOther; EExtendedMasterSecret];
        sp_vmin := 769; sp_vmax := 771; sp_padto := Some 74%Z |}.
Proof. vm_compute. reflexivity. Qed.

(* `applied` holds for a genuinely updated list (GREASE value set, padding state recomputed) *)
Example C07_ex_applied :
  applied [EGREASE 2570 []; ESupportedCurves [2570; 29]; EPadding 0 false PadOther; EExtendedMasterSecret]
          [EGREASE 19018 []; ESupportedCurves [35466; 29]; EPadding 7 true PadOther; EExtendedMasterSecret].
Proof. repeat constructor. Qed.

Example C07_ex_imap_ok : imap_ok (f07a_map [10; 10; 0; 1; 0; 29; 0; 32] 8)
  /\ is_ok (import_hello true 0 0 (f07a_map [10; 10; 0; 1; 0; 29; 0; 32] 8)) = true.
Proof. split; [cbn; lia | vm_compute; reflexivity]. Qed.

(* the F-07a witness on the fixed code: refused with an error *)
Example C07_ex_f07a_fixed : import_hello true 0 0 (f07a_map [0; 29; 0] 3) = Err E_KEY_SHARE_LEN.
Proof. exact fixed_import_refuses. Qed.

(* the F-07b witnesses on the fixed code: an empty spec, no panic *)
Example C07_ex_f07b_fixed : forall d : string -> option N,
  json_spec d d d d d d d d true JNull =
    Ok {| sp_suites := []; sp_comp := []; sp_exts := []; sp_vmin := 0; sp_vmax := 0; sp_padto := None |}
  /\ is_ok (json_spec d d d d d d d d true (JObj [("cipher_suites"%string, JArr [])])) = true.
Proof. intros d. split; reflexivity. Qed.

Example C07_ex_shipped_holds_if_satisfiable :
  blen [10; 10; 0; 1] <= 4 /\ blen [10; 10; 0; 1] mod 4 = 0 /\
  key_share_fixed_data false [10; 10; 0; 1] 4 = Ok [0; 5; 10; 10; 0; 1; 0].
Proof. vm_compute. repeat split; intros; discriminate || reflexivity. Qed.

(* record-layer version 0x0303 above legacy_version 0x0301, no supported_versions: min > max.
   SetTLSVers does not panic; it installs a wrapped 65534-entry list (the build fails later with an error). *)
Example C07_ex_inverted_versions :
  match set_tls_vers 771 769 [] with Ok (mn, mx, sv) => (mn =? 771) && (mx =? 769) && (N.of_nat (length sv) =? 65535) | _ => false end = true
  /\ set_tls_vers 0 0 [ESupportedVersions [2570; 772; 771]] = Ok (771, 772, [772; 771])
  /\ set_tls_vers 768 771 [] = Err E_VERS_MIN.
Proof. repeat split; vm_compute; reflexivity. Qed.

(* C30 — the seeded PRNG is deterministic and its helpers stay in range.
   Determinism: every helper is a function of the SHAKE256 stream (the model
   functions take the stream as argument; the correspondence check confirms the
   code consumes exactly that stream). Range statements hold for EVERY stream,
   hence for every seed. "Differs across salts" is a statement about HKDF/SHAKE
   and is observed by the runner, not proved. *)
From UV Require Import Base.Common Model.Prng Proofs.PrngP.
From Coq Require Import QArith.
Open Scope N_scope.

Theorem C30_intn : forall fuel n s v r, intn fuel n s = Some (v, r) ->
  ((n <= 0)%Z -> v = 0%Z /\ r = s) /\ ((0 < n)%Z -> (0 <= v < n)%Z).
Proof. exact intn_spec. Qed.
Print Assumptions C30_intn.

Theorem C30_int63n : forall fuel n s v r, p_int63n fuel n s = Some (v, r) ->
  ((n <= 0)%Z -> v = 0%Z /\ r = s) /\ ((0 < n)%Z -> (0 <= v < n)%Z).
Proof. exact p_int63n_spec. Qed.
Print Assumptions C30_int63n.

Theorem C30_range : forall fuel mn mx s v r, is_int mn -> is_int mx -> range fuel mn mx s = Some (v, r) ->
  let lo := Z.max mn 0 in
  ((mx < lo)%Z -> v = lo) /\ ((lo <= mx)%Z -> (lo <= v <= mx)%Z).
Proof. exact range_spec. Qed.
Print Assumptions C30_range.

(* FlipWeightedCoin, for any float rounding satisfying the IEEE-754 laws listed
   as premises (monotone; 0, 1, 2^63, 2^-63 representable). *)
Definition rounding_laws (rnd : Q -> Q) : Prop :=
  (forall x y, (x <= y)%Q -> (rnd x <= rnd y)%Q) /\ (rnd 0 == 0)%Q /\ (rnd 1 == 1)%Q /\
  (rnd (inject_Z 9223372036854775808) == inject_Z 9223372036854775808)%Q /\
  (rnd (1 / inject_Z 9223372036854775808) == 1 / inject_Z 9223372036854775808)%Q /\
  (forall x y, (x == y)%Q -> (rnd x == rnd y)%Q).

Theorem C30_flip_le0 : forall rnd, rounding_laws rnd -> forall w i, i < 9223372036854775808 ->
  (match w with WFin q => (q <= 0)%Q | WInf neg => neg = true | WNaN => False end) ->
  flip_with rnd w i = false.
Proof. intros rnd (A & B & C & D & _ & _). exact (flip_le0 rnd A C D). Qed.
Print Assumptions C30_flip_le0.

(* true except when the 63-bit draw is exactly 0 (probability 2^-63) *)
Theorem C30_flip_ge1 : forall rnd, rounding_laws rnd -> forall w i,
  (match w with WFin q => (1 <= q)%Q | WInf neg => neg = false | WNaN => False end) ->
  flip_with rnd w i = negb (i =? 0).
Proof. intros rnd (A & B & C & D & E & F). exact (flip_ge1 rnd A B C E F). Qed.
Print Assumptions C30_flip_ge1.

Theorem C30_draw_63bit : forall s i r, int63 s = Some (i, r) -> i < 9223372036854775808.
Proof. exact int63_lt. Qed.

(* the laws are satisfiable, and the executable rounding used by the
   correspondence check meets the four point laws (monotonicity of rne is
   validated against Go's float64 on every run, not proved) *)
Example C30_laws_sat : rounding_laws (fun x => x).
Proof. repeat split; intros; try reflexivity; assumption. Qed.
Example C30_rne_points :
  (rne 0 == 0)%Q /\ (rne 1 == 1)%Q /\ (rne (inject_Z 9223372036854775808) == inject_Z 9223372036854775808)%Q /\
  (rne (1 / inject_Z 9223372036854775808) == 1 / inject_Z 9223372036854775808)%Q.
Proof. repeat split; vm_compute; reflexivity. Qed.
Example C30_ex_range : is_int (-3) /\ is_int 5. Proof. unfold is_int; lia. Qed.

(* C06 — Fingerprinting a ClientHello and re-applying it reproduces its shape.

   The hello is described by extension VALUES (Model/Ext.v); hello_record is its wire image
   (Model/Shape.v; each extension contributes exactly what its Read writes: C06_wire_is_read).
   FromRaw / FingerprintClientHello are the models of Model/FromRaw.v, tied to the code by the
   C06 and C07 runners on the bytes the code really produced. *)
From UV Require Import Base.Common Model.Wire Model.Varint Model.Ext Model.ExtSpec Model.FromRaw Model.Shape
  Proofs.WireP Proofs.ExtP Proofs.ShapeP.
Open Scope N_scope.
Open Scope list_scope.

(* what a hello puts on the wire for an extension is what the extension's Read writes *)
Theorem C06_wire_is_read : forall e, wf_ext e = true ->
  ext_read e (ext_len e) = Ok (ext_wire e) /\ blen (ext_wire e) = ext_len e.
Proof. intros e H. split; [exact (ext_wire_is_read e H) | exact (ext_wire_len e H)]. Qed.
Print Assumptions C06_wire_is_read.

(* Round trip: for every hello within the limits of its own length prefixes whose extensions are
   round-trippable (rt_ok: within wire limits, present, of a type FromRaw can rebuild), FromRaw
   returns exactly: legacy version, cipher suites with GREASE -> 0x0a0a, compression methods, and
   the extensions IN ORDER, each normalised (GREASE -> placeholder, key-share data dropped unless
   GREASE, SNI / ticket / renegotiation body dropped, PSK kept (fake) or emptied (real), ECH-GREASE
   bytes zeroed at equal sizes, padding policy := pad to the captured length). *)
Theorem C06_fp_roundtrip : forall (blunt real : bool) (h : hello), hello_ok h = true ->
  from_raw blunt real (hello_record h) = Ok (fp_spec real h).
Proof. exact from_raw_record. Qed.
Print Assumptions C06_fp_roundtrip.

(* ... hence through Fingerprinter.FingerprintClientHello without AlwaysAddPadding *)
Theorem C06_fp_roundtrip_fingerprinter : forall (blunt real : bool) (h : hello), hello_ok h = true ->
  fingerprint {| f_blunt := blunt; f_always_pad := false; f_real_psk := real |} (hello_record h) = Ok (fp_spec real h).
Proof. intros blunt real h H. unfold fingerprint. cbn [f_blunt f_real_psk f_always_pad]. rewrite (from_raw_record blunt real h H). reflexivity. Qed.
Print Assumptions C06_fp_roundtrip_fingerprinter.

(* Idempotence / shape: any two hellos of the same shape (in particular the captured hello and
   the one regenerated from its fingerprint with other per-connection material) fingerprint to
   specs with the same suites, compression methods, version bounds and extension list (up to the
   freshly drawn ECH-GREASE bytes); only the recorded padding target may differ. *)
Theorem C06_fp_idempotent : forall (blunt real : bool) (h1 h2 : hello),
  hello_ok h1 = true -> hello_ok h2 = true -> same_shape real h1 h2 ->
  exists s1 s2, from_raw blunt real (hello_record h1) = Ok s1 /\ from_raw blunt real (hello_record h2) = Ok s2
    /\ sp_suites s1 = sp_suites s2 /\ sp_comp s1 = sp_comp s2
    /\ sp_vmin s1 = sp_vmin s2 /\ sp_vmax s1 = sp_vmax s2
    /\ map ech_mask (sp_exts s1) = map ech_mask (sp_exts s2).
Proof.
  intros blunt real h1 h2 H1 H2 Hs. exists (fp_spec real h1), (fp_spec real h2).
  split; [exact (from_raw_record blunt real h1 H1)|]. split; [exact (from_raw_record blunt real h2 H2)|].
  exact (fp_spec_same_shape real h1 h2 Hs).
Qed.
Print Assumptions C06_fp_idempotent.

(* the normalisation is itself a fixed point (fingerprint of a fingerprint) *)
Theorem C06_norm_idempotent : forall e, ext_norm (ext_norm e) = ext_norm e.
Proof. exact norm_idem. Qed.
Print Assumptions C06_norm_idempotent.

(* Length: equal sizes of every per-connection part (random, session id, each extension's wire
   image, e.g. a server name of the same length) give records of equal total length. The padding
   extension's size is a function of the other sizes and the captured length (C05_fp_length,
   C05_fp_pads_to_captured_length). *)
Theorem C06_fp_length_eq : forall h1 h2, same_sizes h1 h2 -> blen (hello_record h1) = blen (hello_record h2).
Proof. exact hello_record_len. Qed.
Print Assumptions C06_fp_length_eq.

(* ---- satisfiable hypotheses on non-trivial hellos ---- *)
Definition ex_h (sni : bytes) (rnd : N) (grease : N) (key : bytes) : hello :=
  {| h_vers := 771; h_random := repeat rnd 32; h_sid := repeat 7 32;
     h_suites := [grease; 4865; 49195]; h_comp := [0];
     h_exts := [EGREASE grease []; ESNI sni; EExtendedMasterSecret; ESupportedCurves [grease; 29; 23];
                ESupportedVersions [grease; 772; 771]; EKeyShare [(grease, [0]); (29, key)];
                EPSKKeyExchangeModes [1]; EPadding 5 true PadBoring] |}.

Definition ex_h1 := ex_h [97; 46; 98; 99] 1 2570 (repeat 9 32).
Definition ex_h2 := ex_h [120; 121; 46; 122] 2 19018 (repeat 200 32).

Example C06_ex_hello_ok : hello_ok ex_h1 = true /\ hello_ok ex_h2 = true.
Proof. split; vm_compute; reflexivity. Qed.

Example C06_ex_same_shape : same_shape false ex_h1 ex_h2.
Proof.
  unfold same_shape. refine (conj _ (conj _ (conj _ (conj _ _)))).
  all: vm_compute. all: reflexivity.
Qed.

Example C06_ex_same_sizes : same_sizes ex_h1 ex_h2.
Proof.
  unfold same_sizes. refine (conj _ (conj _ (conj _ (conj _ _)))).
  1-4: (vm_compute; reflexivity).
  cbn [ex_h1 ex_h2 ex_h h_exts].
  repeat (apply Forall2_cons; [vm_compute; reflexivity|]).
  apply Forall2_nil.
Qed.

Example C06_ex_roundtrip :
  from_raw false false (hello_record ex_h1) =
  Ok {| sp_suites := [2570; 4865; 49195]; sp_comp := [0];
        sp_exts := [EGREASE 2570 []; ESNI []; EExtendedMasterSecret; ESupportedCurves [2570; 29; 23];
                    ESupportedVersions [2570; 772; 771]; EKeyShare [(2570, [0]); (29, [])];
                    EPSKKeyExchangeModes [1]; EPadding 0 false PadOther];
        sp_vmin := 0; sp_vmax := 0; sp_padto := Some (Z.of_N (blen (hello_record ex_h1)) - 5)%Z |}.
Proof. vm_compute. reflexivity. Qed.

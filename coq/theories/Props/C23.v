(* C23 — QUIC clients complete the handshake through the event API and never hang.

   Model/Quic.v is a transition system of the API caller and the handshake goroutine over the channels
   blockedc / signalc / cancelc. The goroutine's work is an arbitrary script (any number of waits, any events,
   success or failure, for BuildHandshakeState and for the handshake itself), so the statements below hold for
   every interleaving and every such script.

   STATE OF THE MODEL: [init true ...] is the code after fixes/C23-quic-build-error-closes-channels.diff (the early
   return of UConn.handshakeContext closes the QUIC channels); [init false ...] is the code as found. The
   property holds for the former (C23_progress) and is refuted for the latter (C23_progress_as_found_refuted,
   defect F-23), with the strongest condition under which the code as found is safe (C23_progress_as_found_holds_if).

   Caller discipline built into the model (step: LHandleData, LSetTP): HandleData, and SetTransportParameters
   after Start, are only called on a connection whose Start got past the MinVersion check. Outside it both
   block forever, in upstream crypto/tls as well (C23_ex_misuse_blocks); that is API misuse, not part of the property. *)
From UV Require Import Base.Common Model.Quic Proofs.QuicP Proofs.QuicEvP.

(* Start, HandleData, SetTransportParameters and Close never hang: in every reachable state in which the caller
   is inside an API call, some step other than a new call or a cancellation is enabled ... *)
Theorem C23_progress : forall mv tp b bok h hok s,
  reach (init true mv tp b bok h hok) s -> stuck s = false.
Proof.
  intros mv tp b bok h hok s R. apply not_stuck_inv. eapply Inv_reach; [|exact R]. split; reflexivity.
Qed.
Print Assumptions C23_progress.

(* ... and every such step strictly decreases a natural-number measure, so the call returns after at most
   [measure s] steps (each step being a terminating piece of Go code: the abstraction of the script). *)
Theorem C23_calls_terminate : forall s l s' r,
  internal l = true -> step s l = Some (s', r) -> (measure s' < measure s)%nat.
Proof. exact measure_step. Qed.
Print Assumptions C23_calls_terminate.

(* The same statement for the code as found. *)
Definition C23_progress_as_found_full : Prop := forall mv tp b bok h hok s,
  reach (init false mv tp b bok h hok) s -> stuck s = false.

(* F-23: BuildHandshakeState fails (e.g. no ServerName); the goroutine returns without closing blockedc; Start blocks. *)
Definition f23_witness : list label := [LStart; LGInit; LGEnd; LGEarly; LGRet].
Theorem C23_progress_as_found_refuted : ~ C23_progress_as_found_full.
Proof.
  intros H.
  destruct (run (init false true false [] false [] true) f23_witness) as [[s rs]|] eqn:E; [|vm_compute in E; discriminate].
  pose proof (H _ _ _ _ _ _ _ (run_reach _ _ _ _ E)) as K. vm_compute in E. inversion E; subst. vm_compute in K. discriminate.
Qed.
Print Assumptions C23_progress_as_found_refuted.

(* second witness of the same defect: HelloGolang waits for the transport parameters inside BuildHandshakeState;
   Close cancels that wait, the build fails, the goroutine leaves without closing, Close blocks. *)
Example C23_ex_f23_close_witness :
  match run (init false true false (golang_build false 1) true [] true)
            [LStart; LGInit; LGAct; LGAct; LSyncBlk; LNextEvent; LClose; LGCancelSeen; LGEarly; LGRet] with
  | Some (s, rs) => stuck s && list_eqb (fun a b => match a, b with RNil, RNil => true | REvent (Some ETPRequired), REvent (Some ETPRequired) => true | _, _ => false end)
                                       rs [RNil; REvent (Some ETPRequired)]
  | None => false
  end = true.
Proof. vm_compute. reflexivity. Qed.

(* strongest condition for the code as found: BuildHandshakeState cannot fail (reports success and never waits) *)
Theorem C23_progress_as_found_holds_if : forall mv tp h hok s,
  reach (init false mv tp [] true h hok) s -> stuck s = false.
Proof.
  intros mv tp h hok s R. apply not_stuck_inv. eapply Inv_reach; [|exact R]. split; reflexivity.
Qed.
Print Assumptions C23_progress_as_found_holds_if.

(* Event order (RFC 9001 4.1.4, 4.9, 5.7 and the property text), for the client's script — ClientHello, optional
   HelloRetryRequest round, handshake secrets write-then-read, peer transport parameters, client Finished,
   application write secret, HandshakeDone, application read secret — with any number of waits at every read,
   any failure point, HelloGolang's wait for transport parameters, whether or not the hello can be built:
   in every reachable state the events created so far satisfy order_ok (write secret before read secret per
   level, 1-RTT read secret only after HandshakeDone, CRYPTO data of a level only after its write secret, each
   secret / parameters / HandshakeDone at most once); once the handshake is complete they satisfy complete_ok
   (peer transport parameters exactly once, HandshakeDone exactly once, both read secrets delivered). *)
Theorem C23_event_order : forall ec mv tp0 tpb w bok hrr w0 w1 w2 w3 n cut s,
  reach (init ec mv tp0 (golang_build tpb w) bok
              (fst (client_hs hrr w0 w1 w2 w3 n cut)) (snd (client_hs hrr w0 w1 w2 w3 n cut))) s ->
  order_ok (rev (hist s)) = true /\ (complete s = true -> complete_ok (rev (hist s)) = true).
Proof.
  intros ec mv tp0 tpb w bok hrr w0 w1 w2 w3 n cut s R.
  destruct (EvInv_reach _ s (invb_init _ _ _ _ _ _ _) (client_EvInv ec mv tp0 tpb w bok hrr w0 w1 w2 w3 n cut) R) as [_ E].
  apply EvInv_hist; exact E.
Qed.
Print Assumptions C23_event_order.

(* The goroutine creates events only while the caller is blocked inside a call: with the caller idle (free to
   run NextEvent) no step other than a call changes the event queue. *)
Theorem C23_events_exclusive : forall ec mv tp b bok h hok s l s' r,
  reach (init ec mv tp b bok h hok) s -> c s = CIdle -> is_call l = false -> step s l = Some (s', r) ->
  queue s' = queue s /\ hist s' = hist s.
Proof.
  intros ec mv tp b bok h hok s l s' r R. apply idle_no_emit.
  assert (I : invb (init ec mv tp b bok h hok) = true) by reflexivity.
  clear -R I. induction R as [|s l s' r R IH S]; [exact I|]. eapply inv_step; eauto.
Qed.
Print Assumptions C23_events_exclusive.

(* Empty legacy session id and no compatibility CCS on a QUIC connection, for any random bytes and any number
   of sendDummyChangeCipherSpec calls (HelloRetryRequest and Finished paths). *)
Theorem C23_no_sid_no_ccs : forall rand32 sent calls,
  preset_session_id true rand32 = [] /\ ccs_written true sent calls = 0%nat.
Proof.
  intros rand32 sent calls. split; [reflexivity|]. revert sent. induction calls as [|n IH]; intros sent; [reflexivity|].
  cbn [ccs_written send_dummy_ccs]. rewrite IH. reflexivity.
Qed.
Print Assumptions C23_no_sid_no_ccs.

(* ---- non-vacuity ---- *)
(* a complete handshake in the model: Start, two HandleData calls, Close; all return nil; the events arrive in order *)
Example C23_ex_complete_run :
  match run (init true true true [] true (fst (client_hs false 1 0 1 0 0 None)) true)
            [LStart; LGInit; LGEnd; LGAct; LGAct; LSyncBlk; LNextEvent; LNextEvent;
             LHandleData; LSyncSig; LGAct; LGAct; LGAct; LSyncBlk; LNextEvent; LNextEvent; LNextEvent;
             LHandleData; LSyncSig; LGAct; LGAct; LGAct; LGEnd; LGClose1; LRecvClosed; LGClose2; LGRet; LLock;
             LClose; LRecvClosed] with
  | Some (s, rs) => complete s && complete_ok (rev (hist s)) && negb (in_call s)
                    && Nat.eqb (length (filter (fun r => match r with RNil => true | _ => false end) rs)) 4
  | None => false
  end = true.
Proof. vm_compute. reflexivity. Qed.

(* the unbuildable hello on the repaired code: Start returns an error, Close returns *)
Example C23_ex_build_failure_returns :
  match run (init true true false [] false [] true) [LStart; LGInit; LGEnd; LGEarly; LGClose1; LRecvClosed; LGClose2; LGRet; LClose; LRecvClosed] with
  | Some (s, [RErr; RErr]) => negb (stuck s) && negb (in_call s)
  | _ => false
  end = true.
Proof. vm_compute. reflexivity. Qed.

(* outside the caller discipline: HandleData on a connection that was never started blocks (no goroutine exists);
   expressed with the discipline check removed, i.e. the state the call would enter *)
Example C23_ex_misuse_blocks : stuck (set_c (init true true false [] true [] true) CHdSig) = true.
Proof. vm_compute. reflexivity. Qed.

Example C23_ex_ccs_tcp : ccs_written false false 2 = 1%nat /\ length (preset_session_id false (repeat 0 32)) = 32%nat.
Proof. split; reflexivity. Qed.

From UV Require Import Base.Common Model.Preset Model.ParrotSpec Gen.Parrots.
Theorem C03_table_wf : forallb wf_parrot Parrots.all = true.
Proof. vm_compute. reflexivity. Qed.
Print Assumptions C03_table_wf.

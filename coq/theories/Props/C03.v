(* C03 - predefined parrots send exactly the ClientHello their spec describes.

   STATE: the unchanged code satisfies the property on everything checked; no _refuted theorem.

   What is PROVED here (for every spec, every Config, every randomness, every swap list):
     C03_shuffle / C03_shuffle_total     the Chrome shuffle is a permutation that keeps GREASE, padding
                                         and pre_shared_key where they are, and cannot fail
     C03_generic_partial                 ApplyPreset's result - header fields and the extension VALUES
                                         encoded by the reference layouts (ExtSpec.ext_body), which by
                                         C03_wire_is_read (C08's layout theorem) are the bytes each
                                         extension's Read() emits - satisfies the property oracle
                                         ast_matches_specb against the spec it was built from
     C03_legacy_version, C03_compression_fixed
     C03_table_wf / C03_parrots          the regenerated table Gen/Parrots.v is well-formed (computation
                                         over the finite regenerated domain) and the generic theorems
                                         apply to every shipped parrot under every shuffle
   What is PARTIAL ("_partial"): the composition with the byte-level marshaller (Model/Marshal.v, C05) and
   the strict parser - "parse_hello (build ..) = ast_of .." - is not proved; it is evaluated on every CBuild
   correspondence case (real bytes = model bytes; strict parse of them = wire_of of the model's values; oracle
   accepts), and C03_ex_bytes shows the whole chain on one shipped parrot inside Coq. The shuffle-aware
   rearrangement used by the oracle for shuffling ids (ParrotSpec.arrange) is executable specification
   applied to real output (CHello cases), not related to C03_shuffle by a theorem. *)
From Coq Require Import Permutation.
From UV Require Import Base.Common Model.Wire.
From UV Require Model.Grease Model.Marshal.
From UV Require Import Model.Ext Model.ExtSpec Model.Shuffle Model.Preset Model.ParrotSpec.
From UV Require Import Proofs.PresetP.
From UV Require Gen.Parrots.

(* ---- the Chrome shuffle, for EVERY list of swap calls ---- *)
Theorem C03_shuffle : forall (A : Type) (fixed : A -> bool) (swaps : list (nat * nat)) (l l' : list A),
  shuffle fixed swaps l = Ok l' ->
  Permutation l l' /\
  (forall k x, nth_error l k = Some x -> fixed x = true -> nth_error l' k = Some x) /\
  (forall k y, nth_error l' k = Some y -> fixed y = true -> nth_error l k = Some y).
Proof. intros A fixed swaps l l' H. destruct (shuffle_ok fixed swaps l l' H) as [P [K1 K2]]. auto. Qed.
Print Assumptions C03_shuffle.

(* rand.Shuffle(len(exts), swap) only calls swap with indices inside the slice: no panic, always a result *)
Theorem C03_shuffle_total : forall (A : Type) (fixed : A -> bool) (swaps : list (nat * nat)) (l : list A),
  Forall (fun ij => (fst ij < length l)%nat /\ (snd ij < length l)%nat) swaps ->
  exists l', shuffle fixed swaps l = Ok l'.
Proof. intros. apply shuffle_total. assumption. Qed.
Print Assumptions C03_shuffle_total.

(* ---- ApplyPreset against the oracle, for EVERY spec ---- *)

(* wire_of is what the extensions' Read() methods emit (C08 layout theorem): type ‖ u16 length ‖ body, or nothing *)
Theorem C03_wire_is_read : forall e, wf_ext e = true ->
  ext_read e (ext_len e) =
    Ok (match wire_pair e with Some (id, b) => enc_u16 id ++ enc_u16lp b | None => [] end).
Proof. exact wire_pair_read. Qed.
Print Assumptions C03_wire_is_read.

(* Whatever the spec, the Config, the randomness (GREASE seed, random, session id, generated keys, ECH
   draws) and the padding decision taken later by the marshaller (pl, pw): if ApplyPreset succeeds and
   leaves extension values within wire limits, the hello made of its header fields and of the extensions
   as their codecs encode them carries legacy_version min(spec maximum, TLS 1.2), the spec's suites with
   GREASE slots, compression [0], and the spec's extension sequence with every body equal to the spec's
   rendering up to the per-connection holes. *)
Theorem C03_generic_partial : forall sp c fr h es name pl pw,
  apply_preset sp c fr = Ok (h, es) ->
  forallb wf_ext es = true ->
  sp_comp sp = [0] ->
  ast_matches_specb (ast_of h (map (set_pad pl pw) es))
                    {| p_name := name; p_spec := sp; p_shuffles := false |} c = true.
Proof. exact apply_preset_matches. Qed.
Print Assumptions C03_generic_partial.

Theorem C03_legacy_version : forall sp mn mx v,
  set_tls_vers sp = Ok (mn, mx) -> hello_vers mn mx = Ok v -> v = N.min (spec_max sp) 771.
Proof. exact legacy_version. Qed.
Print Assumptions C03_legacy_version.

(* ApplyPreset never reads p.CompressionMethods: the hello always carries [0]. (Every shipped parrot declares
   [0] - part of C03_table_wf - so C03 holds for them; a custom spec with other methods is C06's business.) *)
Theorem C03_compression_fixed : forall sp c fr h es, apply_preset sp c fr = Ok (h, es) -> Marshal.h_comp h = [0].
Proof. exact compression_not_copied. Qed.
Print Assumptions C03_compression_fixed.

(* The hello is a function of the spec, the SNI host and OmitEmptyPsk only: whatever the caller put into
   Config.MinVersion / MaxVersion / NextProtos (fields of cfg the model carries but never reads, because
   SetTLSVers overwrites the version range and the ALPN extension overwrites NextProtos), ApplyPreset gives the
   same header and extension values. The correspondence runs vary exactly these fields (CBuild: real bytes =
   build, which ignores them). *)
Theorem C03_config_independent : forall sp c c' fr,
  c_sni c = c_sni c' -> c_omit_psk c = c_omit_psk c' -> apply_preset sp c fr = apply_preset sp c' fr.
Proof. exact apply_preset_cfg. Qed.
Print Assumptions C03_config_independent.

(* ---- the regenerated table ---- *)
Theorem C03_table_wf : forallb wf_parrot Parrots.all = true.
Proof. vm_compute. reflexivity. Qed.
Print Assumptions C03_table_wf.

Definition with_exts (sp : spec) (es : list sext) : spec :=
  {| sp_min := sp_min sp; sp_max := sp_max sp; sp_suites := sp_suites sp; sp_comp := sp_comp sp; sp_exts := es |}.

(* Every shipped parrot, every rearrangement the shuffle can produce from its table entry (for the ids
   that do not shuffle: swaps = []), every Config and randomness: the rearrangement is a permutation
   with GREASE/padding/pre_shared_key in their slots, and the hello matches the spec so rearranged. *)
Theorem C03_parrots : forall p, In p Parrots.all ->
  forall swaps exts', shuffle fixedb swaps (sp_exts (p_spec p)) = Ok exts' ->
  (Permutation (sp_exts (p_spec p)) exts' /\
   (forall k x, nth_error (sp_exts (p_spec p)) k = Some x -> fixedb x = true -> nth_error exts' k = Some x) /\
   (forall k y, nth_error exts' k = Some y -> fixedb y = true -> nth_error (sp_exts (p_spec p)) k = Some y)) /\
  forall c fr h es pl pw,
    apply_preset (with_exts (p_spec p) exts') c fr = Ok (h, es) ->
    forallb wf_ext es = true ->
    ast_matches_specb (ast_of h (map (set_pad pl pw) es))
                      {| p_name := p_name p; p_spec := with_exts (p_spec p) exts'; p_shuffles := false |} c = true.
Proof.
  intros p Hin swaps exts' Hs. split; [exact (C03_shuffle _ _ _ _ _ Hs)|].
  intros c fr h es pl pw Ha Hw. apply (C03_generic_partial _ c fr); [exact Ha|exact Hw|].
  pose proof C03_table_wf as T. rewrite forallb_forall in T. specialize (T p Hin).
  unfold wf_parrot, wf_spec in T. rewrite !andb_true_iff in T.
  repeat match goal with H : _ /\ _ |- _ => destruct H end.
  match goal with H : bytes_eqb (sp_comp _) [0] = true |- _ => apply bytes_eqb_eq in H; exact H end.
Qed.
Print Assumptions C03_parrots.

(* ---- the hypotheses are satisfiable; concrete instances ---- *)
Definition ex_cfg : cfg := {| c_sni := [97; 46; 105; 111]; c_omit_psk := true;
                              c_min_version := 0; c_max_version := 769; c_next_protos := [[104; 50]] |}.
Definition ex_ech : ech_draw :=
  {| ed_cfg_idx := 0; ed_cfg_byte := 7; ed_suite_idx := 1; ed_enc := repeat 9 32;
     ed_plen_idx := 2; ed_payload := repeat 5 208 |}.
Definition ex_fresh : fresh :=
  {| f_random := repeat 1 32; f_grease := [16; 0; 32; 0; 48; 0; 48; 0; 64; 0]; f_sid := repeat 2 32;
     f_keys := [repeat 3 1216; repeat 4 32]; f_ech := [ex_ech] |}.

(* a shipped shuffling parrot (Chrome_133: two GREASE extensions, GREASE ECH, ML-KEM + X25519 shares): ApplyPreset succeeds
   within wire limits, i.e. the premises of C03_generic_partial / C03_parrots hold *)
Example C03_ex_premises :
  match apply_preset (p_spec Parrots.p_Chrome_133) ex_cfg ex_fresh with
  | Ok (h, es) => forallb wf_ext es && bytes_eqb (sp_comp (p_spec Parrots.p_Chrome_133)) [0]
  | _ => false
  end = true.
Proof. vm_compute. reflexivity. Qed.

(* the whole chain on that parrot inside Coq: build (ApplyPreset + marshal + Boring padding) gives bytes which
   the strict parser reads back and which the (shuffle-aware) oracle accepts *)
Example C03_ex_bytes :
  match build (p_spec Parrots.p_Chrome_133) ex_cfg ex_fresh with
  | Ok raw => match parse_hello raw with
              | Some a => ast_matches_specb a Parrots.p_Chrome_133 ex_cfg
                          && list_eqb (fun x y => (fst x =? fst y) && bytes_eqb (snd x) (snd y)) (a_exts a)
                               (match apply_preset (p_spec Parrots.p_Chrome_133) ex_cfg ex_fresh with
                                | Ok (_, es) => wire_of es | _ => [] end)
              | None => false
              end
  | _ => false
  end = true.
Proof. vm_compute. reflexivity. Qed.

(* the oracle is not vacuous: the same bytes are refused for another parrot, and with one extension body changed *)
Example C03_ex_oracle_rejects :
  match build (p_spec Parrots.p_Chrome_133) ex_cfg ex_fresh with
  | Ok raw => match parse_hello raw with
              | Some a =>
                  negb (ast_matches_specb a Parrots.p_Chrome_131 ex_cfg)
                  && negb (ast_matches_specb
                             {| a_vers := a_vers a; a_random := a_random a; a_sid := a_sid a; a_suites := a_suites a;
                                a_comp := a_comp a;
                                a_exts := map (fun w => if fst w =? ID_ALPN then (fst w, [0; 3; 2; 104; 50]) else w) (a_exts a) |}
                             Parrots.p_Chrome_133 ex_cfg)
                  && negb (ast_matches_specb
                             {| a_vers := a_vers a; a_random := a_random a; a_sid := a_sid a; a_suites := a_suites a;
                                a_comp := a_comp a; a_exts := rev (a_exts a) |}
                             Parrots.p_Chrome_133 ex_cfg)
              | None => false
              end
  | _ => false
  end = true.
Proof. vm_compute. reflexivity. Qed.

(* a shuffle that moves something and one blocked by a fixed entry *)
Example C03_ex_shuffle :
  shuffle (fun x : N => x =? 0) [(3, 1); (2, 0); (1, 2)]%nat [0; 5; 6; 7] = Ok [0; 6; 7; 5].
Proof. vm_compute. reflexivity. Qed.

(* a third GREASE extension is refused; an unsupported key-share group is refused *)
Example C03_ex_errors :
  is_ok (apply_preset {| sp_min := 771; sp_max := 772; sp_suites := [4865]; sp_comp := [0];
                         sp_exts := [SExt (EGREASE 0 []); SExt (EGREASE 0 []); SExt (EGREASE 0 [])] |} ex_cfg ex_fresh) = false
  /\ is_ok (apply_preset {| sp_min := 771; sp_max := 772; sp_suites := [4865]; sp_comp := [0];
                            sp_exts := [SExt (EKeyShare [(30, [])])] |} ex_cfg ex_fresh) = false.
Proof. split; vm_compute; reflexivity. Qed.

(* ======================================================================================================
   Composition with the byte-level marshaller and the strict parser (Proofs/ComposeC03.v, on top of
   Proofs/ComposeP.marshal_shape = C02's layout theorem with the extension block characterised exactly): item (a) of
   the "PARTIAL" note above is now a theorem. For every spec, Config and randomness: if [build] returns bytes, and the
   extension values ApplyPreset left are inside the C02 precondition (ChMarshal.wf_specb: wire limits, RFC minimum
   sizes, types pairwise distinct, pre_shared_key last) with totals that fit the length fields (spec_fitsb), then
   [parse_hello] reads those bytes back as exactly "header fields + extensions as their reference layouts encode
   them" (the padding extension in whatever state the marshaller's Update left it), and hence the PARSED hello
   satisfies the property oracle. Still premises: wf_specb / spec_fitsb of ApplyPreset's output (item (b); evaluated for
   Chrome_133 below and for every CBuild case on every run) and sp_comp = [0]. Item (c) (arrange vs C03_shuffle) is unchanged.
   ====================================================================================================== *)
From UV Require Model.ChMarshal Proofs.ComposeC03.

Theorem C03_build_parses : forall sp c fr h es raw,
  apply_preset sp c fr = Ok (h, es) -> build sp c fr = Ok raw ->
  ChMarshal.wf_specb h es = true -> ChMarshal.spec_fitsb 0%Z h es = true ->
  exists pl pw, parse_hello raw = Some (ast_of h (map (set_pad pl pw) es)).
Proof. exact ComposeC03.build_parses. Qed.
Print Assumptions C03_build_parses.

(* C03_generic_partial, stated over the parsed BYTES *)
Theorem C03_generic : forall sp c fr h es raw name,
  apply_preset sp c fr = Ok (h, es) -> build sp c fr = Ok raw ->
  ChMarshal.wf_specb h es = true -> ChMarshal.spec_fitsb 0%Z h es = true -> sp_comp sp = [0] ->
  exists a, parse_hello raw = Some a
            /\ ast_matches_specb a {| p_name := name; p_spec := sp; p_shuffles := false |} c = true.
Proof. exact ComposeC03.build_matches. Qed.
Print Assumptions C03_generic.

(* the premises hold for a shipped parrot with concrete randomness *)
Example C03_ex_generic_premises :
  match apply_preset (p_spec Parrots.p_Chrome_133) ex_cfg ex_fresh, build (p_spec Parrots.p_Chrome_133) ex_cfg ex_fresh with
  | Ok (h, es), Ok _ => ChMarshal.wf_specb h es && ChMarshal.spec_fitsb 0%Z h es
  | _, _ => false
  end = true.
Proof. vm_compute. reflexivity. Qed.

(* ======================================================================================================
   Item (b) of the "PARTIAL" note closed for the shipped parrots (Model/PresetOk.v, Proofs/PresetOkP.v / PresetOkS.v /
   PresetOkC.v; reading guide at the end of Props/C02.v): the premises wf_specb / spec_fitsb of C03_generic follow from a
   static predicate on the spec that holds for every table entry (C02_parrots_preset_ok, by computation over the
   regenerated table) and is invariant under the shuffle. What remains partial is item (c) only (arrange vs C03_shuffle).
   ====================================================================================================== *)
From UV Require Model.PresetOk Proofs.PresetOkC.

(* every shipped parrot, every rearrangement the shuffle can produce, every Config with an SNI name of at most 255 bytes and
   OmitEmptyPsk, every randomness for which ApplyPreset returns: the hello is built, the strict parser reads the BYTES
   back, and the parsed hello matches the (rearranged) spec *)
Theorem C03_parrots_full : forall p swaps exts', In p Parrots.all ->
  shuffle fixedb swaps (sp_exts (p_spec p)) = Ok exts' ->
  forall c fr h es, PresetOkC.parrot_class c ->
  apply_preset (with_exts (p_spec p) exts') c fr = Ok (h, es) ->
  exists raw a, build (with_exts (p_spec p) exts') c fr = Ok raw /\ parse_hello raw = Some a
    /\ ast_matches_specb a {| p_name := p_name p; p_spec := with_exts (p_spec p) exts'; p_shuffles := false |} c = true.
Proof. exact PresetOkC.parrot_matches. Qed.
Print Assumptions C03_parrots_full.

(* ======================================================================================================
   Item (c) of the "PARTIAL" note, soundness: the shuffle-aware oracle (shuffle_match: re-[arrange] the TABLE entry's
   extension list after the wire order, keep GREASE / padding / pre_shared_key in their slots, then compare in sequence)
   accepts every hello built from a rearrangement ShuffleChromeTLSExtensions can produce (C03_shuffle) - it raises no false
   alarm on a shuffling parrot, also when the SNI extension is left out (no DNS name) or padding / pre_shared_key are absent.
   (Proofs/ShuffleOracleP.v: shuffle_match_sound for every list whose non-fixed entries form one block; ShuffleOracleC.v: the
   table satisfies that and the id conditions, by computation.) Completeness (the oracle accepts ONLY such rearrangements) is
   not proved; C03_ex_oracle_rejects shows it is not vacuous.
   ====================================================================================================== *)
From UV Require Proofs.ShuffleOracleP Proofs.ShuffleOracleC.

Theorem C03_shuffle_oracle_sound : forall c l l' ws,
  ShuffleOracleP.contigb l = true -> NoDup (map sext_id (filter ShuffleOracleP.nonfixed l)) ->
  (forall s, In s (filter ShuffleOracleP.nonfixed l) -> ShuffleOracleP.fixed_id (sext_id s) = false) ->
  Permutation l l' -> ShuffleOracleP.kept l l' ->
  nodup_N (filter (fun i => negb (Grease.is_grease i)) (map fst ws)) = true ->
  nodup_N (map sext_id (filter ShuffleOracleP.nonfixed l)) = true ->
  seq_match c (expect_exts 0 l') ws = true -> shuffle_match c l ws = true.
Proof. exact ShuffleOracleP.shuffle_match_sound. Qed.
Print Assumptions C03_shuffle_oracle_sound.

(* every shipped parrot, every swap list, every Config in the class, every randomness: the oracle in SHUFFLE mode, applied
   with the table entry itself, accepts the parsed bytes of the hello *)
Theorem C03_parrots_shuffle_oracle : forall p swaps exts', In p Parrots.all ->
  shuffle fixedb swaps (sp_exts (p_spec p)) = Ok exts' ->
  forall c fr h es, PresetOkC.parrot_class c ->
  apply_preset (with_exts (p_spec p) exts') c fr = Ok (h, es) ->
  exists raw a, build (with_exts (p_spec p) exts') c fr = Ok raw /\ parse_hello raw = Some a
    /\ ast_matches_specb a {| p_name := p_name p; p_spec := p_spec p; p_shuffles := true |} c = true.
Proof. exact ShuffleOracleC.parrot_shuffle_oracle. Qed.
Print Assumptions C03_parrots_shuffle_oracle.

(* imported last, for the driver's closure scan only (lib/vcheck.py follows "Require Import" lines); nothing follows *)
From UV Require Import Proofs.ComposeP Proofs.ComposeC03.
From UV Require Import Model.PresetOk Proofs.PresetOkP Proofs.PresetOkS Proofs.PresetOkT Proofs.PresetOkC.
From UV Require Import Model.ParrotNeg Proofs.ParrotNegS Proofs.ShuffleOracleP Proofs.ShuffleOracleC.

(* C28 — GetOutKeystream returns the keystream of the next record.
   Model: Model/Keystream.v on the record layer of Model/Record.v. The AEAD is not modelled; its laws
   (prims_ok: stream form ciphertext = plaintext xor keystream(key, nonce) ++ tag, keystream independent of
   the requested length) are premises, so this is a partial proof. *)
From UV Require Import Base.Common Model.Record Model.Forge Model.Keystream
  Proofs.RecordP Proofs.RecordRT Proofs.RecordStream Proofs.KeystreamP.
Open Scope N_scope.

(* ks_next: in every state of the write side that a reader can follow — the state after the handshake and,
   by C28_history, after any history of writes — and for every n up to the number of plaintext bytes the next
   record will carry: the bytes returned by GetOutKeystream(n), XORed with the next n plaintext bytes written,
   are the n ciphertext bytes that follow the header and explicit nonce of the next application data record. *)
Theorem C28_ks_next : forall P, prims_ok P ->
  forall (c : conn) (rx : half) (ci : cipher) (b : bytes) (rnd : N -> bytes) (n : nat),
  wconn_ok c -> synced (cn_out c) rx -> aead_out c ci -> rnd_ok rnd ->
  h_seq (cn_out c) + len b < 18446744073709551616 ->
  (n <= N.to_nat (next_record_payload c b))%nat ->
  exists ks wire c2,
    get_out_keystream P c n = Ok (ks, c) /\
    conn_write P c b rnd = Ok (wire, len b, c2) /\
    firstn n (skipn (recordHeaderLen + explicit_nonce_len (cn_out c)) wire) = bxor (firstn n b) (firstn n ks).
Proof. intros P HP c rx ci b rnd n. exact (ks_next P HP c rx ci b rnd n). Qed.
Print Assumptions C28_ks_next.

(* ks_pure: the call leaves the connection exactly as it was (same cipher state, nonce mask restored, same
   sequence number), hence what is sent afterwards and whether the peer accepts it cannot depend on it. *)
Theorem C28_ks_pure : forall P (c : conn) (ci : cipher) (n : nat) (out : bytes) (c' : conn),
  aead_out c ci -> get_out_keystream P c n = Ok (out, c') -> c' = c.
Proof. exact ks_pure. Qed.
Print Assumptions C28_ks_pure.

(* the premises of C28_ks_next survive every Write: the statement holds at every sequence position *)
Theorem C28_history : forall P, prims_ok P ->
  forall (c : conn) (rx : half) (b : bytes) (rnd : N -> bytes),
  wconn_ok c -> synced (cn_out c) rx -> rnd_ok rnd -> h_seq (cn_out c) + len b < 18446744073709551616 ->
  exists wire c2 rx2, conn_write P c b rnd = Ok (wire, len b, c2) /\ wconn_ok c2 /\ synced (cn_out c2) rx2.
Proof.
  intros P HP c rx b rnd Hw Hs Hr Hq.
  destruct (conn_write_ok P HP c b rnd rx Hw Hs Hr Hq) as (recs & c2 & rx2 & A & _ & B & _ & C & _).
  eauto 6.
Qed.
Print Assumptions C28_history.

(* a connection without an AEAD gets an error, not bytes *)
Theorem C28_non_aead : forall P (c : conn) (n : nat) (ci : cipher),
  h_cipher (cn_out c) = Some ci -> c_kind ci = KCbc \/ c_kind ci = KStream ->
  get_out_keystream P c n = Err e_not_aead.
Proof. intros P c n ci H [K | K]; unfold get_out_keystream; rewrite H, K; reflexivity. Qed.

(* ---- non-vacuity ---- *)
Definition ex_conn (vers : N) (ci : cipher) (seq : N) : conn :=
  mkConn vers true 4865 half0 (mkHalf vers (Some ci) None seq None None []) [] [] 0 0 0 false.
Definition ex_gcm := mkCipher KAeadPrefix algGCM (zeros 16) [1; 2; 3; 4] false 0 0.
Definition ex_xor := mkCipher KAeadXor algCHACHA (zeros 32) [1; 2; 3; 4; 5; 6; 7; 8; 9; 10; 11; 12] false 0 0.

Example C28_ex_premises_gcm :
  wconn_ok (ex_conn V12 ex_gcm 7) /\ synced (cn_out (ex_conn V12 ex_gcm 7)) (cn_out (ex_conn V12 ex_gcm 7)) /\
  aead_out (ex_conn V12 ex_gcm 7) ex_gcm.
Proof.
  unfold wconn_ok, synced, half_wf, cipher_match, aead_out, vers_ok; cbn.
  repeat split; auto; try discriminate.
Qed.
Example C28_ex_premises_tls13 :
  wconn_ok (ex_conn V13 ex_xor 0) /\ synced (cn_out (ex_conn V13 ex_xor 0)) (cn_out (ex_conn V13 ex_xor 0)) /\
  aead_out (ex_conn V13 ex_xor 0) ex_xor.
Proof.
  unfold wconn_ok, synced, half_wf, cipher_match, aead_out, vers_ok; cbn.
  repeat split; auto; try discriminate.
Qed.
Example C28_ex_run :
  match get_out_keystream toy (ex_conn V12 ex_gcm 7) 5 with
  | Ok (ks, c) => (len ks =? 21) && (h_seq (cn_out c) =? 7)
  | _ => false
  end = true.
Proof. vm_compute. reflexivity. Qed.

(* C21 — Compressed server certificates are recovered exactly.
   STATE: the theorems about [decompress_cert] describe the code AFTER fixes/C21-decompress-readfull.diff
   (length cap + io.ReadFull + one-byte probe).  The code as found is [decompress_cert_v0]; the full
   statements FAIL for it (C21_v0_*_refuted, defects F-21a and F-21b) — their witnesses are replayed on the real
   code by the runner (corpus cases "v0-witness/..."), and only the conditional C21_v0_holds_if is true of it.
   The decompressor is an adversarial reader (out, chunks, end); certificateMsgTLS13.unmarshal is the
   quantified function parse_cert. *)
From UV Require Import Base.Common Model.Decompress Proofs.DecompressP.

(* utlsCompressedCertificateMsg: unmarshal (marshal m) = m, also with trailing bytes (which unmarshal ignores). *)
Theorem C21_cc_msg_roundtrip : forall m b, cc_alg m < 65536 -> cc_ulen m < 16777216 ->
  cc_marshal m = Ok b -> forall trailing, cc_unmarshal (b ++ trailing) = Some m.
Proof. exact cc_roundtrip. Qed.
Print Assumptions C21_cc_msg_roundtrip.

(* Any valid encoding — ANY chunking of the decompressed bytes into positive pieces, ending cleanly — of a
   message up to the handshake limit, under an advertised algorithm, is recovered exactly. *)
Theorem C21_cc_recover : forall C parse_cert ee adv alg out chunks,
  advertisedb adv alg = true -> known_alg alg = true -> good_reader out chunks ->
  dlen out <= maxHandshakeCertificateMsg ->
  decompress_cert C parse_cert ee adv alg (dlen out) true (mkR out chunks REof) =
    match parse_cert (header (dlen out) ++ out) with Some c => Ok c | None => Err alertUnexpectedMessage end.
Proof. exact cc_recover. Qed.
Print Assumptions C21_cc_recover.

(* decompressed output longer / shorter than declared => bad_certificate, for every chunking and ending *)
Theorem C21_cc_longer : forall C parse_cert ee adv alg declared out chunks e,
  good_reader out chunks -> declared < dlen out ->
  decompress_cert C parse_cert ee adv alg declared true (mkR out chunks e) = Err alertBadCertificate.
Proof. exact cc_longer. Qed.
Print Assumptions C21_cc_longer.
Theorem C21_cc_shorter : forall C parse_cert ee adv alg declared out chunks e,
  good_reader out chunks -> dlen out < declared ->
  decompress_cert C parse_cert ee adv alg declared true (mkR out chunks e) = Err alertBadCertificate.
Proof. exact cc_shorter. Qed.
Print Assumptions C21_cc_shorter.

Theorem C21_cc_unadvertised : forall C parse_cert ee adv alg declared open_ok r,
  advertisedb adv alg = false ->
  decompress_cert C parse_cert ee adv alg declared open_ok r = Err alertBadCertificate.
Proof. exact cc_unadvertised. Qed.
Print Assumptions C21_cc_unadvertised.

(* never a message other than the one compressed: acceptance forces advertised algorithm, declared = actual
   length within the limit, a clean end of stream, and the result is the parse of header ++ exactly those bytes *)
Theorem C21_cc_only_the_compressed : forall C parse_cert ee adv alg declared out chunks e c,
  good_reader out chunks ->
  decompress_cert C parse_cert ee adv alg declared true (mkR out chunks e) = Ok c ->
  advertisedb adv alg = true /\ declared = dlen out /\ e = REof /\ declared <= maxHandshakeCertificateMsg /\
  parse_cert (header declared ++ out) = Some c.
Proof. exact cc_only_the_compressed. Qed.
Print Assumptions C21_cc_only_the_compressed.

(* ---- decompressCert as it is after commit 4697a7d: zstd frames declaring Window_Size > 8 MiB are refused ----
   [decompress_cert_top] takes what the stream validly encodes (out, chunks) AND, for zstd, the (Window_Size,
   length) of every frame.  The full recovery statement now needs the premise "every declared window <= 8 MiB";
   without it it is refuted (a deliberate deviation, recorded as finding valid-stream-rejected/zstd-window-over-8MiB:
   the cap bounds what a hostile frame header can make the client allocate, property C33; RFC 8878 3.1.1.1.2
   recommends encoders not to exceed 8 MB, and a certificate message of <= 256 KiB never needs more). *)
Theorem C21_cc_recover_top : forall C parse_cert ee adv alg out chunks fs,
  advertisedb adv alg = true -> known_alg alg = true -> good_reader out chunks ->
  dlen out <= maxHandshakeCertificateMsg ->
  windows_ok alg fs ->      (* alg = zstd -> every frame declares Window_Size <= 8 MiB *)
  decompress_cert_top C parse_cert ee adv alg (dlen out) true fs (mkR out chunks REof) =
    match parse_cert (header (dlen out) ++ out) with Some c => Ok c | None => Err alertUnexpectedMessage end.
Proof. exact top_recover. Qed.
Print Assumptions C21_cc_recover_top.

Definition C21_cc_recover_top_full : Prop := forall C parse_cert ee adv alg out chunks fs,
  advertisedb adv alg = true -> known_alg alg = true -> good_reader out chunks ->
  dlen out <= maxHandshakeCertificateMsg ->
  decompress_cert_top C parse_cert ee adv alg (dlen out) true fs (mkR out chunks REof) =
    match parse_cert (header (dlen out) ++ out) with Some c => Ok c | None => Err alertUnexpectedMessage end.
(* witness: one valid zstd frame whose header names a 16 MiB window *)
Theorem C21_cc_recover_top_refuted : ~ C21_cc_recover_top_full.
Proof.
  intros H. specialize (H bytes (fun b => Some b) false [3] 3 [0;0;0;0] [4]%nat [(16777216, 4)] eq_refl eq_refl).
  assert (G : good_reader [0;0;0;0] [4]%nat) by (split; [repeat constructor | reflexivity]).
  specialize (H G). vm_compute in H. assert (L : 4 <= 262144) by lia. specialize (H L). discriminate.
Qed.
Print Assumptions C21_cc_recover_top_refuted.

Theorem C21_zstd_window_refused : forall C parse_cert ee adv declared out chunks e fs,
  good_reader out chunks -> Exists (fun f => maxCompressedCertZstdWindow < fst f) fs ->
  decompress_cert_top C parse_cert ee adv CertCompressionZstd declared true fs (mkR out chunks e) = Err alertBadCertificate.
Proof. exact top_window_refused. Qed.
Print Assumptions C21_zstd_window_refused.

(* the negative clauses hold unconditionally for the code as it is *)
Theorem C21_top_length_mismatch : forall C parse_cert ee adv alg declared out chunks e fs,
  good_reader out chunks -> declared <> dlen out ->
  decompress_cert_top C parse_cert ee adv alg declared true fs (mkR out chunks e) = Err alertBadCertificate.
Proof. exact top_mismatch. Qed.
Theorem C21_top_unadvertised : forall C parse_cert ee adv alg declared open_ok fs r,
  advertisedb adv alg = false ->
  decompress_cert_top C parse_cert ee adv alg declared open_ok fs r = Err alertBadCertificate.
Proof. exact top_unadvertised. Qed.
Theorem C21_top_only_the_compressed : forall C parse_cert ee adv alg declared out chunks e fs c,
  good_reader out chunks ->
  decompress_cert_top C parse_cert ee adv alg declared true fs (mkR out chunks e) = Ok c ->
  advertisedb adv alg = true /\ declared = dlen out /\ e = REof /\ declared <= maxHandshakeCertificateMsg /\
  parse_cert (header declared ++ out) = Some c.
Proof. exact top_only_the_compressed. Qed.
Print Assumptions C21_top_only_the_compressed.
Example C21_ex_windows_ok : windows_ok 3 [(8388608, 100); (1024, 5)] /\ windows_ok 1 [(16777216, 4)].
Proof.
  split; intros E; [|discriminate].
  unfold maxCompressedCertZstdWindow. constructor; [cbn [fst]; lia|]. constructor; [cbn [fst]; lia|]. constructor.
Qed.

(* "... and the handshake transcript verifies": the certificate flight — [CertificateRequest] followed by Certificate or
   CompressedCertificate — enters the client's transcript in exactly the order (and form) the server sent it, so both
   sides sign / MAC the same transcript.  The live handshake is observed by the runner (cases CFlight). *)
Theorem C21_flight_transcript_in_order : forall f, valid_flight f = true -> client_cert_flight f true = Ok f.
Proof. exact flight_transcript_in_order. Qed.
Print Assumptions C21_flight_transcript_in_order.
Theorem C21_flight_compressed_refused : forall f, valid_flight f = true -> In FCompressed f ->
  client_cert_flight f false = Err alertBadCertificate.
Proof. exact flight_compressed_refused. Qed.

(* ---- the code as found (single Read, no probe): the same statements are false ---- *)
Definition C21_v0_recover_full : Prop := forall C parse_cert ee adv alg out chunks,
  advertisedb adv alg = true -> known_alg alg = true -> good_reader out chunks ->
  dlen out <= maxHandshakeCertificateMsg ->
  decompress_cert_v0 C parse_cert ee adv alg (dlen out) true (mkR out chunks REof) =
    match parse_cert (header (dlen out) ++ out) with Some c => Ok c | None => Err alertUnexpectedMessage end.
(* F-21a: a valid stream delivered in two Reads is rejected *)
Theorem C21_v0_recover_refuted : ~ C21_v0_recover_full.
Proof.
  intros H. specialize (H bytes (fun b => Some b) false [2] 2 [0;0;0;0] [2;2]%nat eq_refl eq_refl).
  assert (G : good_reader [0;0;0;0] [2;2]%nat) by (split; [repeat constructor | reflexivity]).
  specialize (H G). vm_compute in H. assert (L : 4 <= 262144) by lia. specialize (H L). discriminate.
Qed.
Print Assumptions C21_v0_recover_refuted.

Definition C21_v0_longer_full : Prop := forall C parse_cert ee adv alg declared out chunks e,
  advertisedb adv alg = true -> good_reader out chunks -> declared < dlen out ->
  decompress_cert_v0 C parse_cert ee adv alg declared true (mkR out chunks e) = Err alertBadCertificate.
(* F-21b: output longer than declared is accepted (only `declared` bytes are ever requested) *)
Theorem C21_v0_longer_refuted : ~ C21_v0_longer_full.
Proof.
  intros H. specialize (H bytes (fun b => Some b) false [2] 2 2 [0;0;0;0] [4]%nat REof eq_refl).
  assert (G : good_reader [0;0;0;0] [4]%nat) by (split; [repeat constructor | reflexivity]).
  specialize (H G). vm_compute in H. assert (L : 2 < 4) by lia. specialize (H L). discriminate.
Qed.
Print Assumptions C21_v0_longer_refuted.

Theorem C21_v0_holds_if : forall C parse_cert ee adv alg out,
  advertisedb adv alg = true -> known_alg alg = true -> out <> [] ->
  decompress_cert_v0 C parse_cert ee adv alg (dlen out) true (mkR out [length out] REof) =
    match parse_cert (header (dlen out) ++ out) with Some c => Ok c | None => Err alertUnexpectedMessage end.
Proof. exact v0_holds_if. Qed.
Print Assumptions C21_v0_holds_if.

(* ---- non-vacuity ---- *)
Example C21_ex_good_reader : good_reader [0;0;0;3;0;0;0] [3;1;2;1]%nat /\ advertisedb [2;1;3] 1 = true /\ known_alg 1 = true.
Proof. repeat split; repeat constructor. Qed.
Example C21_ex_recover : decompress_cert bytes (fun b => Some b) true [2;1;3] 1 7 true (mkR [0;0;0;3;0;0;0] [3;1;2;1]%nat REof)
  = Ok [11;0;0;7;0;0;0;3;0;0;0].
Proof. vm_compute. reflexivity. Qed.
Example C21_ex_msg : cc_unmarshal (match cc_marshal (mkCC 2 1000 [9;8;7]) with Ok b => b | _ => [] end ++ [1]) = Some (mkCC 2 1000 [9;8;7]).
Proof. vm_compute. reflexivity. Qed.

(* C14 — Server certificates are verified exactly as the Config requests.

   State of these files: they describe the code WITH fixes/C14-ech-rejected-public-name applied (the
   ECH-rejected branch of verifyServerCertificate verifies against c.serverName, the outer public name).
   On the unfixed code C14_name fails in that branch: see C14_ex_former_witness.

   The theorems hold for ARBITRARY behaviour of crypto/x509: cert, pool, Certificate.Verify (x509_verify),
   VerifyHostname, NotAfter, the chain pre-checks AND the name that was put into SNI (name_in_sni: hostnameInSNI(ServerName),
   empty for an IP literal or a client without SNI extension, anything a custom spec wrote) are universally quantified:
   the verification name never depends on it outside the ECH-rejected branch.
   Level: proof of the decision logic (which options reach the verifier, when its verdict is honoured);
   partial with respect to X.509 itself, which is not modelled. *)
From UV Require Import Base.Common Model.Verify Proofs.VerifyP.
Open Scope Z_scope.

(* The verification name is the one the property prescribes, in every branch that verifies:
   ServerName by default, InsecureServerNameToVerify when set, none for "*", and the ECH public name
   when the ECH offer was rejected. *)
Theorem C14_name :
  forall (cert pool : Type) (not_after : cert -> Z) (name_in_sni : name)
         (cfg : config pool) (ech_public_name : name) (ech_accepted : bool) (leaf : cert),
  config_accepted cfg = true -> ech_public_name <> [] ->
  forall c, c = conn_at_verify name_in_sni cfg ech_public_name ech_accepted ->
  ech_rejected cfg c = true \/ InsecureSkipVerify cfg = false ->
  used_name cert pool not_after cfg c leaf = expected_name cfg c ech_public_name.
Proof. exact used_name_is_expected. Qed.
Print Assumptions C14_name.

(* InsecureSkipTimeVerify changes the time handed to the verifier (to the leaf's NotAfter) and nothing else:
   roots and name are untouched, and on a chain whose verification is time-independent the flag has no effect. *)
Theorem C14_time :
  forall (cert pool : Type) (not_after : cert -> Z) (cfg : config pool) (c : conn) (leaf : cert) (b : bool),
  let o := verify_opts cert pool not_after (set_skip_time b cfg) c leaf in
  let o0 := verify_opts cert pool not_after cfg c leaf in
  o_roots o = o_roots o0 /\ o_dns_name o = o_dns_name o0 /\
  o_time o = (if b then not_after leaf else cfg_time cfg).
Proof. exact skip_time_changes_only_time. Qed.
Print Assumptions C14_time.

Theorem C14_time_only :
  forall (cert pool : Type) (x509_verify : pool -> Z -> name -> list cert -> bool) (not_after : cert -> Z)
         (chain_parses : list cert -> bool) (leaf_key_supported : cert -> bool)
         (cfg : config pool) (c : conn) (chain : list cert) (b : bool),
  (forall r t t' n, x509_verify r t n chain = x509_verify r t' n chain) ->
  verify_server_certificate cert pool x509_verify not_after chain_parses leaf_key_supported (set_skip_time b cfg) c chain
  = verify_server_certificate cert pool x509_verify not_after chain_parses leaf_key_supported cfg c chain.
Proof. exact skip_time_only_through_time. Qed.
Print Assumptions C14_time_only.

(* The certificate passes verification exactly when InsecureSkipVerify is set (and ECH was not rejected) or
   Go's verifier accepts the chain against RootCAs, at the expected time, for the expected name
   (no user callbacks installed; the chain parses). *)
Theorem C14_decision :
  forall (cert pool : Type) (x509_verify : pool -> Z -> name -> list cert -> bool) (not_after : cert -> Z)
         (chain_parses : list cert -> bool) (leaf_key_supported : cert -> bool) (name_in_sni : name)
         (cfg : config pool) (ech_public_name : name) (ech_accepted : bool) (leaf : cert) (rest : list cert),
  config_accepted cfg = true -> ech_public_name <> [] ->
  chain_parses (leaf :: rest) = true -> leaf_key_supported leaf = true ->
  ech_rejection_verify cfg = None -> verify_callbacks_ok cfg = true ->
  forall c, c = conn_at_verify name_in_sni cfg ech_public_name ech_accepted ->
  (is_ok (verify_server_certificate cert pool x509_verify not_after chain_parses leaf_key_supported cfg c (leaf :: rest)) = true <->
   (ech_rejected cfg c = false /\ InsecureSkipVerify cfg = true) \/
   x509_verify (RootCAs cfg) (expected_time cert pool not_after cfg leaf)
               (dns_of_name (expected_name cfg c ech_public_name)) (leaf :: rest) = true).
Proof. exact decision. Qed.
Print Assumptions C14_decision.

(* The property as stated ("succeeds only if"), with no premise on callbacks or pre-checks (they can only refuse):
   a handshake that returns nil without InsecureSkipVerify had its chain accepted by the verifier for the
   expected name at the expected time. *)
Theorem C14_success_sound :
  forall (cert pool : Type) (x509_verify : pool -> Z -> name -> list cert -> bool) (not_after : cert -> Z)
         (chain_parses : list cert -> bool) (leaf_key_supported : cert -> bool) (name_in_sni : name)
         (cfg : config pool) (ech_public_name : name) (ech_accepted : bool) (chain : list cert),
  config_accepted cfg = true -> ech_public_name <> [] ->
  forall c, c = conn_at_verify name_in_sni cfg ech_public_name ech_accepted ->
  client_result cert pool x509_verify not_after chain_parses leaf_key_supported cfg c chain = HsOk ->
  InsecureSkipVerify cfg = false ->
  exists leaf rest, chain = leaf :: rest /\ ech_rejected cfg c = false /\
    x509_verify (RootCAs cfg) (expected_time cert pool not_after cfg leaf)
                (dns_of_name (expected_name cfg c ech_public_name)) chain = true.
Proof. exact result_ok_sound. Qed.
Print Assumptions C14_success_sound.

(* The same with Certificate.Verify split into chain verification and the name check (the structure of
   crypto/x509: an empty DNSName skips VerifyHostname): the leaf matches the verification name. *)
Theorem C14_success_name_matches :
  forall (cert pool : Type) (x509_verify : pool -> Z -> name -> list cert -> bool)
         (verify_hostname : cert -> name -> bool) (not_after : cert -> Z)
         (chain_parses : list cert -> bool) (leaf_key_supported : cert -> bool) (name_in_sni : name)
         (chain_verify : pool -> Z -> list cert -> bool),
  (forall r t n leaf rest,
     x509_verify r t n (leaf :: rest) = chain_verify r t (leaf :: rest) && (is_empty n || verify_hostname leaf n)) ->
  forall (cfg : config pool) (ech_public_name : name) (ech_accepted : bool) (chain : list cert),
  config_accepted cfg = true -> ech_public_name <> [] ->
  forall c, c = conn_at_verify name_in_sni cfg ech_public_name ech_accepted ->
  client_result cert pool x509_verify not_after chain_parses leaf_key_supported cfg c chain = HsOk ->
  InsecureSkipVerify cfg = false ->
  exists leaf rest, chain = leaf :: rest /\
    chain_verify (RootCAs cfg) (expected_time cert pool not_after cfg leaf) chain = true /\
    match expected_name cfg c ech_public_name with
    | Some n => n <> [] /\ verify_hostname leaf n = true
    | None => True
    end.
Proof. exact result_ok_property. Qed.
Print Assumptions C14_success_name_matches.

(* ECH: ECHRejectionError (with the retry configs) is returned only after the chain verified for the ECH
   public name, whatever ServerName / InsecureServerNameToVerify / InsecureSkipVerify say ... *)
Theorem C14_ech_rejected_sound :
  forall (cert pool : Type) (x509_verify : pool -> Z -> name -> list cert -> bool) (not_after : cert -> Z)
         (chain_parses : list cert -> bool) (leaf_key_supported : cert -> bool) (name_in_sni : name)
         (cfg : config pool) (ech_public_name : name) (ech_accepted : bool) (chain : list cert),
  config_accepted cfg = true -> ech_public_name <> [] -> ech_rejection_verify cfg = None ->
  forall c, c = conn_at_verify name_in_sni cfg ech_public_name ech_accepted ->
  client_result cert pool x509_verify not_after chain_parses leaf_key_supported cfg c chain = HsEchRejected ->
  exists leaf rest, chain = leaf :: rest /\ ech_config_list cfg = true /\ ech_accepted = false /\
    x509_verify (RootCAs cfg) (expected_time cert pool not_after cfg leaf) ech_public_name chain = true.
Proof. exact result_ech_rejected_sound. Qed.
Print Assumptions C14_ech_rejected_sound.

(* ... and conversely a chain that verifies for the expected name is never refused: the caller gets nil, or
   ECHRejectionError when the offer was rejected (this is the half that failed before the fix). *)
Theorem C14_complete :
  forall (cert pool : Type) (x509_verify : pool -> Z -> name -> list cert -> bool) (not_after : cert -> Z)
         (chain_parses : list cert -> bool) (leaf_key_supported : cert -> bool) (name_in_sni : name)
         (cfg : config pool) (ech_public_name : name) (ech_accepted : bool) (leaf : cert) (rest : list cert),
  config_accepted cfg = true -> ech_public_name <> [] ->
  chain_parses (leaf :: rest) = true -> leaf_key_supported leaf = true ->
  ech_rejection_verify cfg = None -> verify_callbacks_ok cfg = true ->
  forall c, c = conn_at_verify name_in_sni cfg ech_public_name ech_accepted ->
  x509_verify (RootCAs cfg) (expected_time cert pool not_after cfg leaf)
              (dns_of_name (expected_name cfg c ech_public_name)) (leaf :: rest) = true ->
  client_result cert pool x509_verify not_after chain_parses leaf_key_supported cfg c (leaf :: rest)
  = (if ech_rejected cfg c then HsEchRejected else HsOk).
Proof. exact result_complete. Qed.
Print Assumptions C14_complete.

(* Resumption: loadSession offers a cached session exactly when its leaf is unexpired at Config.Time (unless
   InsecureSkipTimeVerify) and, unless InsecureSkipVerify, it was verified when it was established and its
   leaf matches the CURRENT expected name. *)
Theorem C14_resumed :
  forall (cert pool : Type) (verify_hostname : cert -> name -> bool) (not_after : cert -> Z)
         (cfg : config pool) (s : session cert) (c : conn) (ech_public_name : name),
  config_accepted cfg = true -> ech_rejected cfg c = false ->
  (load_session_cert_checks cert pool verify_hostname not_after cfg s = true <->
   (InsecureSkipTimeVerify cfg = false -> cfg_time cfg <= not_after (s_leaf s)) /\
   (InsecureSkipVerify cfg = false ->
      s_has_verified_chains s = true /\
      match expected_name cfg c ech_public_name with
      | Some n => verify_hostname (s_leaf s) n = true
      | None => True
      end)).
Proof. exact resumed_checks. Qed.
Print Assumptions C14_resumed.

(* ---------------- non-vacuity: concrete, non-trivial instances of every premise ---------------- *)
Definition ex_S : name := [115; 46; 116]%N.   (* "s.t" *)
Definition ex_O : name := [111; 46; 116]%N.   (* "o.t" *)
Definition ex_P : name := [112; 46; 116]%N.   (* "p.t" *)
Definition ex_W : name := [119; 46; 116]%N.   (* "w.t": what went into SNI in the examples - unrelated to every other name *)
Definition ex_roots : tpool := [TRoot 1 0 1000].
Definition ex_cfg (inv : name) (sv st ech : bool) : config tpool := mkConfig ex_S inv sv st ex_roots 500 ech None true.
Definition ex_leaf (names : list name) : tcert := TCert names 400 600 1 0.

(* the witness of F-14: ECH rejected, client-facing server presents a certificate for the public name.
   The unfixed selection verifies against the secret name (refusing it); the fixed one against the public name. *)
Example C14_ex_former_witness :
  let cfg := ex_cfg [] false false true in
  let c := t_conn ex_W cfg ex_P false in
  used_name_unfixed tcert tpool t_na cfg c (ex_leaf [ex_P]) = Some ex_S /\
  expected_name cfg c ex_P = Some ex_P /\
  used_name tcert tpool t_na cfg c (ex_leaf [ex_P]) = Some ex_P /\
  t_result cfg c [ex_leaf [ex_P]] = HsEchRejected /\
  t_result cfg c [ex_leaf [ex_S]] = HsCertError.
Proof. vm_compute. repeat split. Qed.

(* the premises of C14_decision / C14_complete are satisfiable and the verdict is not constant *)
Example C14_ex_decision :
  let cfg := ex_cfg ex_O false false false in
  config_accepted cfg = true /\ ech_rejection_verify cfg = None /\ verify_callbacks_ok cfg = true /\
  t_result cfg (t_conn ex_W cfg ex_P false) [ex_leaf [ex_O]] = HsOk /\
  t_result cfg (t_conn ex_W cfg ex_P false) [ex_leaf [ex_S]] = HsCertError /\
  t_result (ex_cfg [42%N] false false false) (t_conn ex_W cfg ex_P false) [ex_leaf [ex_P]] = HsOk /\
  t_result (ex_cfg [] false false false) (t_conn ex_W cfg ex_P false) [TCert [ex_S] 400 600 2 0] = HsCertError /\
  t_result (ex_cfg [] true false false) (t_conn ex_W cfg ex_P false) [TCert [ex_P] 400 600 2 0] = HsOk.
Proof. vm_compute. repeat split. Qed.

(* the structural hypothesis of C14_success_name_matches holds for the concrete X.509 *)
Example C14_ex_structure : forall r t n leaf rest,
  toy_x509_verify r t n (leaf :: rest) = toy_chain_verify r t (leaf :: rest) && (is_empty n || toy_verify_hostname leaf n).
Proof. reflexivity. Qed.

(* the time-independence premise of C14_time_only is satisfiable (a leaf and root valid at every time the
   options can carry), and InsecureSkipTimeVerify does matter on an expired leaf *)
Example C14_ex_time :
  t_result (ex_cfg [] false false false) (t_conn ex_W (ex_cfg [] false false false) ex_P false) [TCert [ex_S] 100 200 1 0] = HsCertError /\
  t_result (ex_cfg [] false true false) (t_conn ex_W (ex_cfg [] false true false) ex_P false) [TCert [ex_S] 100 200 1 0] = HsOk /\
  t_result (ex_cfg [] false true false) (t_conn ex_W (ex_cfg [] false true false) ex_P false) [TCert [ex_O] 100 200 1 0] = HsCertError.
Proof. vm_compute. repeat split. Qed.

(* names that never reach SNI: an IP-literal ServerName (SNI empty) is still the verification name — a leaf without that
   IP SAN is refused, one with it accepted, brackets and a trailing dot are handled by VerifyHostname *)
Example C14_ex_ip_name :
  let ip := [49; 46; 50; 46; 51; 46; 52]%N in          (* "1.2.3.4" *)
  let cfg := mkConfig ip [] false false ex_roots 500 false None true in
  let c := t_conn [] cfg ex_P false in
  c_server_name c = [] /\
  used_name tcert tpool t_na cfg c (ex_leaf [ex_S]) = Some ip /\
  t_result cfg c [ex_leaf [ex_S]] = HsCertError /\
  t_result cfg c [ex_leaf [ip]] = HsOk /\
  t_result (mkConfig (91%N :: ip ++ [93%N]) [] false false ex_roots 500 false None true) c [ex_leaf [ip]] = HsOk /\
  t_result (mkConfig (ex_S ++ [46%N]) [] false false ex_roots 500 false None true) c [ex_leaf [ex_S]] = HsOk.
Proof. vm_compute. repeat split. Qed.

(* chains with an intermediate: trusted only through a root, and every certificate of the path must be valid at
   the verification time — with InsecureSkipTimeVerify that time is the leaf's NotAfter, so an intermediate that
   expires before the leaf is refused, and an untrusted root is refused whatever the flag says *)
Example C14_ex_intermediate :
  let leaf := TCert [ex_S] 400 600 7 0 in
  t_result (ex_cfg [] false false false) (t_conn ex_W (ex_cfg [] false false false) ex_P false) [leaf; TCert [] 300 700 1 7] = HsOk /\
  t_result (ex_cfg [] false true false) (t_conn ex_W (ex_cfg [] false true false) ex_P false) [leaf; TCert [] 300 700 1 7] = HsOk /\
  t_result (ex_cfg [] false false false) (t_conn ex_W (ex_cfg [] false false false) ex_P false) [leaf; TCert [] 300 550 1 7] = HsOk /\
  t_result (ex_cfg [] false true false) (t_conn ex_W (ex_cfg [] false true false) ex_P false) [leaf; TCert [] 300 550 1 7] = HsCertError /\
  t_result (ex_cfg [] false true false) (t_conn ex_W (ex_cfg [] false true false) ex_P false) [leaf; TCert [] 300 550 2 7] = HsCertError /\
  t_result (ex_cfg [] false false false) (t_conn ex_W (ex_cfg [] false false false) ex_P false) [leaf] = HsCertError.
Proof. vm_compute. repeat split. Qed.

(* resumption: offered for a matching unexpired verified leaf; not for a wrong name, an expired leaf, or a
   session that was established with InsecureSkipVerify *)
Example C14_ex_resumed :
  t_load_session (ex_cfg [] false false false) (mkSession (ex_leaf [ex_S]) true) = true /\
  t_load_session (ex_cfg ex_O false false false) (mkSession (ex_leaf [ex_S]) true) = false /\
  t_load_session (ex_cfg [42%N] false false false) (mkSession (ex_leaf [ex_P]) true) = true /\
  t_load_session (ex_cfg [] false false false) (mkSession (TCert [ex_S] 100 200 1 0) true) = false /\
  t_load_session (ex_cfg [] false true false) (mkSession (TCert [ex_S] 100 200 1 0) true) = true /\
  t_load_session (ex_cfg [] false false false) (mkSession (ex_leaf [ex_S]) false) = false.
Proof. vm_compute. repeat split. Qed.

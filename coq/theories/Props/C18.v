(* C18 — key shares are fresh, correctly sized, and backed by the matching private key.

   apply_preset (Model/KeyShare.v) is ApplyPreset's handling of the Config.Rand stream and of the
   KeyShareExtension: which bytes become the client random and the legacy session id, which shares
   are generated, which private keys are retained; client_secret is establishHandshakeKeys' shared
   secret for the server's selected group, server_flight a compliant peer that selected one of the
   client's shares. Key generation, Diffie-Hellman and ML-KEM are arbitrary functions satisfying
   [laws] (public key sizes, DH commutes, decapsulation inverts encapsulation, key generation
   consumes at least one byte); every theorem holds for EVERY such instance, every stream, every
   entry cursor and every key-share list.
   State of the files: they describe the tree WITH fixes/C18-keyshare-private-keys.diff applied
   ([fixed := true]); the pre-repair behaviour is the same model with [fixed := false] and the
   retention statement is refuted for it below (witness: the key shares of HelloFirefox_63..120). *)
From UV Require Import Base.Common Model.Negotiate Model.KeyShare Proofs.KeyShareP.

(* Each wire share: a GREASE entry keeps its data under the connection's GREASE group, a share with
   preset Data is sent unchanged, every other share carries a public key of exactly the size its
   group requires (32 / 65 / 97 / 133 / 1216 bytes). *)
Theorem C18_share_sizes :
  forall (priv dkey : Type) (rnd : N -> N) (ecdh_gen : N -> N -> priv * N) (pub : N -> priv -> bytes)
         (dh : N -> priv -> bytes -> option bytes) (kem_new : bytes -> dkey) (kem_ek : dkey -> bytes)
         (kem_decap : dkey -> bytes -> option bytes) (kem_encap : bytes -> bytes -> bytes * bytes),
    laws ecdh_gen pub dh kem_ek kem_decap kem_encap ->
    forall fixed quic gv shares p0 a,
      apply_preset priv dkey rnd ecdh_gen pub kem_new kem_ek fixed quic gv shares p0 = Ok a ->
      Forall2 (fun k k' =>
                 if is_grease (ks_group k) then ks_group k' = gv /\ ks_data k' = ks_data k
                 else if 1 <? lenN (ks_data k) then k' = k
                 else ks_group k' = ks_group k /\ lenN (ks_data k') = share_size (ks_group k)
                      /\ In (share_size (ks_group k)) [32; 65; 97; 133; 1216])
              shares (a_shares a).
Proof. exact share_sizes. Qed.
Print Assumptions C18_share_sizes.

Theorem C18_share_size_table :
  share_size 29 = 32 /\ share_size 23 = 65 /\ share_size 24 = 97 /\ share_size 25 = 133
  /\ share_size 4588 = 1216 /\ share_size 25497 = 1216.
Proof. repeat split. Qed.

(* The client retains the private key for every share it generated: whichever of them a compliant
   server selects (any server key b, any encapsulation randomness r), the secret the client derives
   is the server's. wf_shares: one share per classical group (RFC 8446 4.2.8), at most one hybrid share. *)
Theorem C18_keys_retained : keys_retained_stmt true.
Proof. exact keys_retained_fixed. Qed.
Print Assumptions C18_keys_retained.

(* The same statement is FALSE for the code before the repair (only the first classical key was kept). *)
Theorem C18_keys_retained_before_fix_refuted : ~ keys_retained_stmt false.
Proof. exact keys_retained_unfixed_refuted. Qed.
Print Assumptions C18_keys_retained_before_fix_refuted.

(* Random, session id, GREASE bytes and every key consume pairwise disjoint, non-empty segments of the
   Config.Rand stream inside [entry cursor, exit cursor); the random and the session id are exactly
   the bytes of their own segments. *)
Theorem C18_draw_disjoint :
  forall (priv dkey : Type) (rnd : N -> N) (ecdh_gen : N -> N -> priv * N) (pub : N -> priv -> bytes)
         (dh : N -> priv -> bytes -> option bytes) (kem_new : bytes -> dkey) (kem_ek : dkey -> bytes)
         (kem_decap : dkey -> bytes -> option bytes) (kem_encap : bytes -> bytes -> bytes * bytes),
    laws ecdh_gen pub dh kem_ek kem_decap kem_encap ->
    forall fixed quic gv shares p0 a,
      apply_preset priv dkey rnd ecdh_gen pub kem_new kem_ek fixed quic gv shares p0 = Ok a ->
      (forall i s, nth_error (a_log a) i = Some s ->
                   p0 <= sg_start s /\ 0 < sg_len s /\ sg_start s + sg_len s <= a_end a)
      /\ (forall i j si sj, (i < j)%nat -> nth_error (a_log a) i = Some si -> nth_error (a_log a) j = Some sj ->
                            sg_start si + sg_len si <= sg_start sj)
      /\ (nth_error (a_log a) 0 = Some (mkSeg DRandom p0 32) /\ a_random a = take_at rnd p0 32)
      /\ (quic = false -> exists p, nth_error (a_log a) 3 = Some (mkSeg DSid p 32) /\ a_sid a = take_at rnd p 32).
Proof. exact draw_disjoint. Qed.
Print Assumptions C18_draw_disjoint.

(* Two connections that read one Config.Rand one after the other never share a byte of it. *)
Theorem C18_fresh_across_connections :
  forall (priv dkey : Type) (rnd : N -> N) (ecdh_gen : N -> N -> priv * N) (pub : N -> priv -> bytes)
         (dh : N -> priv -> bytes -> option bytes) (kem_new : bytes -> dkey) (kem_ek : dkey -> bytes)
         (kem_decap : dkey -> bytes -> option bytes) (kem_encap : bytes -> bytes -> bytes * bytes),
    laws ecdh_gen pub dh kem_ek kem_decap kem_encap ->
    forall fixed q1 q2 gv1 gv2 sh1 sh2 p1 p2 a1 a2,
      apply_preset priv dkey rnd ecdh_gen pub kem_new kem_ek fixed q1 gv1 sh1 p1 = Ok a1 ->
      apply_preset priv dkey rnd ecdh_gen pub kem_new kem_ek fixed q2 gv2 sh2 p2 = Ok a2 ->
      a_end a1 <= p2 ->
      forall i j s1 s2, nth_error (a_log a1) i = Some s1 -> nth_error (a_log a2) j = Some s2 ->
                        sg_start s1 + sg_len s1 <= sg_start s2.
Proof. exact fresh_across. Qed.
Print Assumptions C18_fresh_across_connections.

(* QUIC connections send an empty legacy session id; TCP connections 32 bytes; the random is 32 bytes. *)
Theorem C18_quic_empty_sid :
  forall (priv dkey : Type) (rnd : N -> N) (ecdh_gen : N -> N -> priv * N) (pub : N -> priv -> bytes)
         (kem_new : bytes -> dkey) (kem_ek : dkey -> bytes) fixed gv shares p0 a,
    apply_preset priv dkey rnd ecdh_gen pub kem_new kem_ek fixed true gv shares p0 = Ok a -> a_sid a = [].
Proof. exact quic_empty_sid. Qed.
Print Assumptions C18_quic_empty_sid.

Theorem C18_tcp_sid_random_32 :
  forall (priv dkey : Type) (rnd : N -> N) (ecdh_gen : N -> N -> priv * N) (pub : N -> priv -> bytes)
         (kem_new : bytes -> dkey) (kem_ek : dkey -> bytes) fixed gv shares p0 a,
    apply_preset priv dkey rnd ecdh_gen pub kem_new kem_ek fixed false gv shares p0 = Ok a ->
    length (a_sid a) = 32%nat /\ length (a_random a) = 32%nat.
Proof. exact tcp_sid_random_32. Qed.
Print Assumptions C18_tcp_sid_random_32.

(* Fingerprinted copies: the spec the Fingerprinter builds from a captured hello carries no key_exchange bytes for any
   non-GREASE share (each is generated per connection, hence fresh and - by C18_keys_retained - backed), and offers
   exactly the captured non-GREASE groups. *)
Theorem C18_fingerprinted_shares_generated : forall wire,
  (forall k, In k (import_shares wire) -> is_grease (ks_group k) = true \/ generated k = true)
  /\ map ks_group (filter generated (import_shares wire))
     = map ks_group (filter (fun k => negb (is_grease (ks_group k))) wire).
Proof. intros wire. split; [intros k; apply import_generated|apply import_groups]. Qed.
Print Assumptions C18_fingerprinted_shares_generated.

(* ---- non-vacuity ---- *)
(* the laws are satisfiable *)
Example C18_ex_laws_satisfiable :
  laws (toy_gen rnd0) toy_pub toy_dh toy_kem_ek toy_kem_decap toy_kem_encap.
Proof. exact (toy_laws rnd0). Qed.

(* the key-share lists of the parrots are well-formed: Firefox (X25519, P-256), Chrome 133 (GREASE, X25519MLKEM768,
   X25519), a hybrid-only list, five shares; two X25519 shares are not *)
Example C18_ex_wf :
  wf_shares [mkKS 29 []; mkKS 23 []] = true /\ wf_shares [mkKS 2570 [0]; mkKS 4588 []; mkKS 29 []] = true
  /\ wf_shares [mkKS 4588 []] = true /\ wf_shares [mkKS 23 []; mkKS 4588 []; mkKS 29 []; mkKS 24 []; mkKS 25 []] = true
  /\ wf_shares [mkKS 29 []; mkKS 29 []] = false.
Proof. vm_compute. repeat split. Qed.

(* on the toy instance the repaired client agrees with the server on every generated share of these lists,
   the pre-repair client does not on Firefox's second share *)
Example C18_ex_agree :
  (forall l, In l [[mkKS 29 []; mkKS 23 []]; [mkKS 2570 [0]; mkKS 4588 []; mkKS 29 []]; [mkKS 25497 []; mkKS 23 []];
                   [mkKS 4588 []]; [mkKS 23 []; mkKS 4588 []; mkKS 29 []; mkKS 24 []; mkKS 25 []]] ->
     match toy_apply rnd0 true false 2570 l 5 with
     | Ok a => forallb (fun i => negb (generated (nth i l (mkKS 2570 []))) || toy_agree true a i 77 [1; 2; 3]) (seq 0 (length l))
     | _ => false
     end = true)
  /\ match toy_apply rnd0 false false 2570 [mkKS 29 []; mkKS 23 []] 5 with
     | Ok a => toy_agree false a 0 77 [] && negb (toy_agree false a 1 77 [])
     | _ => false
     end = true.
Proof.
  split; [|vm_compute; reflexivity].
  intros l H. simpl in H. repeat (destruct H as [<-|H]; [vm_compute; reflexivity|]). destruct H.
Qed.

(* QUIC: no session-id draw, the GREASE bytes follow the random directly *)
Example C18_ex_quic :
  match toy_apply rnd0 true true 2570 [mkKS 29 []] 0 with
  | Ok a => a_sid a = [] /\ map sg_start (a_log a) = [0; 32; 42] /\ length (a_random a) = 32%nat
  | _ => False
  end.
Proof. vm_compute. repeat split. Qed.

(* ======================================================================================================
   C18 over the regenerated parrot table (Gen/Parrots.v): the premise of C18_keys_retained ("one share per classical group,
   at most one hybrid share") is a theorem about every shipped parrot, the class of finding two-hybrid-shares/* is empty
   among them, and the SHAPE of the retained keys (which curve sits in Ecdhe / ExtraEcdhe / MlkemEcdhe, whether Mlkem is
   set) is a function of the share list alone - for every crypto instance, stream and cursor, no law needed.
   (Model/ParrotNeg.v, Proofs/ParrotNegS.v, Proofs/ParrotNegC.v.)
   ====================================================================================================== *)
From UV Require Model.Preset Model.ParrotNeg Gen.Parrots Proofs.ParrotNegS Proofs.ParrotNegC.

Theorem C18_parrots_keyshares_ok : forallb ParrotNegS.keyshares_ok Parrots.all = true.
Proof. exact ParrotNegS.parrots_keyshares_ok. Qed.
Theorem C18_parrots_two_hybrid_exceptions :
  map Preset.p_name (filter (fun p => negb (ParrotNegS.keyshares_ok p)) Parrots.all) = [].
Proof. exact ParrotNegS.parrots_two_hybrid_exceptions. Qed.

(* the retained keys have the static shape: every instance, every share list (not only the table's) *)
Theorem C18_retained_shape : forall (priv dkey : Type) (rnd : N -> N) (ecdh_gen : N -> N -> priv * N) (pub : N -> priv -> bytes)
  (kem_new : bytes -> dkey) (kem_ek : dkey -> bytes) quic gv shares p0 a,
  apply_preset priv dkey rnd ecdh_gen pub kem_new kem_ek true quic gv shares p0 = Ok a ->
  shape_of (a_keys a) = ParrotNeg.static_shape (map ParrotNegS.pair_of shares).
Proof. exact ParrotNegS.retained_shape. Qed.
Print Assumptions C18_retained_shape.

(* every shipped parrot, every crypto instance satisfying the laws, every stream, cursor and GREASE value: every share the
   loop generates keeps its group, has the size of its group, and is backed - whichever of them a compliant server answers,
   the client derives the server's secret *)
Theorem C18_parrots : forall p, In p Parrots.all ->
  forall (priv dkey : Type) (rnd : N -> N) (ecdh_gen : N -> N -> priv * N) (pub : N -> priv -> bytes)
         (dh : N -> priv -> bytes -> option bytes) (kem_new : bytes -> dkey) (kem_ek : dkey -> bytes)
         (kem_decap : dkey -> bytes -> option bytes) (kem_encap : bytes -> bytes -> bytes * bytes),
  laws ecdh_gen pub dh kem_ek kem_decap kem_encap ->
  forall quic gv p0 a,
  apply_preset priv dkey rnd ecdh_gen pub kem_new kem_ek true quic gv (ParrotNeg.kshares_of (Preset.p_spec p)) p0 = Ok a ->
  shape_of (a_keys a) = ParrotNeg.static_shape (ParrotNeg.lastS ParrotNeg.s_shares (Preset.sp_exts (Preset.p_spec p)) [])
  /\ forall i k k', nth_error (ParrotNeg.kshares_of (Preset.p_spec p)) i = Some k -> nth_error (a_shares a) i = Some k' ->
       generated k = true ->
       ks_group k' = ks_group k /\ lenN (ks_data k') = share_size (ks_group k')
       /\ forall b r sdata ssec,
            server_flight priv pub dh kem_encap (ks_group k') (ks_data k') b r = Some (sdata, ssec) ->
            client_secret priv dkey dh kem_decap true true (a_keys a) (ks_group k') sdata = Ok ssec.
Proof. exact ParrotNegC.parrot_keys. Qed.
Print Assumptions C18_parrots.

(* on the toy instance: Firefox_120's two shares and Chrome_133's hybrid + X25519 shares, with the shapes the theorem predicts *)
Example C18_ex_parrot_shapes :
  ParrotNeg.kshares_of (Preset.p_spec Parrots.p_Firefox_120) = [mkKS 29 []; mkKS 23 []]
  /\ match toy_apply rnd0 true false 2570 (ParrotNeg.kshares_of (Preset.p_spec Parrots.p_Firefox_120)) 0 with
     | Ok a => shape_of (a_keys a) = mkShape 29 [23] false 0 /\ map (fun k => lenN (ks_data k)) (a_shares a) = [32; 65]
     | _ => False end
  /\ match toy_apply rnd0 true false 2570 (ParrotNeg.kshares_of (Preset.p_spec Parrots.p_Chrome_133)) 0 with
     | Ok a => shape_of (a_keys a) = mkShape 29 [] true 29 /\ map (fun k => lenN (ks_data k)) (a_shares a) = [1; 1216; 32]
     | _ => False end.
Proof. vm_compute. repeat split; reflexivity. Qed.

(* imported last, for the driver's closure scan only (lib/vcheck.py follows "Require Import" lines); nothing follows *)
From UV Require Import Model.ParrotNeg Proofs.ParrotNegS Proofs.ParrotNegC.

(* C09 - randomized fingerprints are seed-reproducible and internally consistent.

   Model: Model/Randomized.v [generate] mirrors generateRandomizedSpec (u_parrots.go:2949-3157).
   STATE OF THESE FILES: they describe the UNFIXED code. The two key-share statements are refuted
   (finding F-09, keys keyshare-not-in-groups / hybrid-without-share); their strongest true
   conditional versions are proved.

   Determinism is purity: [generate] is a Gallina function of (table, variant, weights, serverName,
   NextProtos, SHAKE256 stream of the seed, salted stream); the same inputs give the same spec by
   reflexivity (C09_deterministic), and the correspondence check confirms on every run that the code
   is that function of exactly those inputs (and calls it twice per input).

   All other theorems quantify over EVERY byte stream (a superset of the 2^256 seeds), every
   weights vector, every table and, where floats matter, every rounding function with the IEEE-754
   laws [ieee_laws] (monotone; 0, 1, 2^63, 2^-63 exact). [nz s]: no 63-bit draw of the stream is 0
   (FlipWeightedCoin(1.0) is false on a zero draw, probability 2^-63 each). *)
From UV Require Import Base.Common Model.Prng Proofs.PrngP Model.Randomized Proofs.RandomizedP Proofs.RandomizedW Proofs.RandomizedS Proofs.RandomizedC Proofs.RandomizedT Model.RandomizedId.
From Coq Require Import QArith Permutation Sorted.
Open Scope N_scope.

Theorem C09_deterministic : forall rnd fuel tb v w sn np s salted p q,
  generate rnd fuel tb v w sn np s salted = p -> generate rnd fuel tb v w sn np s salted = q -> p = q.
Proof. exact generate_deterministic. Qed.
Print Assumptions C09_deterministic.

(* Reproducibility is about a SEQUENCE of builds on one ClientHelloID: generateRandomizedSpec gets *ClientHelloID, and
   every copy of an id value shares its Seed pointer (a Roller, or a caller reusing an id for a second connection).
   In the model a build returns the id it was given ([Model.RandomizedId.build]; [generate] has no seed in its result
   type), so the second build sees the same inputs and returns the same spec. That the CODE leaves the caller's seed
   bytes alone is a correspondence observable (CGen: seed bytes after two builds from one *PRNGSeed = [id_seed] of
   the id the model hands back) and a Go-side oracle (seed, weights, id fields unchanged after every build, through
   the hook and through UClient+BuildHandshakeState with one shared Seed pointer). *)
Theorem C09_build_twice : forall rnd fuel tb id sn np s salted,
  let '(r1, id1) := build rnd fuel tb id sn np s salted in
  let '(r2, id2) := build rnd fuel tb id1 sn np s salted in
  r1 = r2 /\ id1 = id /\ id2 = id.
Proof. exact build_twice. Qed.
Print Assumptions C09_build_twice.

(* suites: a TLS 1.3 block (only in TLS 1.3 specs), then suites flagged suiteTLS12, then older ones *)
Theorem C09_suite_order : forall rnd fuel tb v w sn np s salted p,
  generate rnd fuel tb v w sn np s salted = Ok p ->
  exists a b c, sp_ciphers p = a ++ b ++ c /\
    Forall (fun x => In x (t_tls13 tb)) a /\ Forall (row_in tb true) b /\ Forall (row_in tb false) c /\
    (sp_max p <> VersionTLS13 -> a = []).
Proof. exact suite_order. Qed.
Print Assumptions C09_suite_order.

(* removeRandomCiphers never removes the first suite *)
Theorem C09_first_suite_kept : forall rnd s0 w s out s' x t,
  removeRandomCiphers rnd s0 w s = Ok (out, s') -> s0 = x :: t -> exists t', out = x :: t'.
Proof. exact first_suite_kept. Qed.
Print Assumptions C09_first_suite_kept.

(* TLS 1.3 specs: no RC4, RSA-PSS offered, padding present, supported_versions = [max..min], one key_share *)
Theorem C09_tls13_rules : forall rnd fuel tb v w sn np s salted p,
  generate rnd fuel tb v w sn np s salted = Ok p -> sp_max p = VersionTLS13 ->
  Forall (fun c => is_rc4 c = false) (sp_ciphers p) /\
  (exists algs, In (ESigAlgs algs) (sp_exts p) /\ In PSSWithSHA256 algs) /\
  In EPadding (sp_exts p) /\
  (sp_min p = VersionTLS10 \/ sp_min p = VersionTLS12) /\
  In (ESupportedVersions (makeSupportedVersions (sp_min p) (sp_max p))) (sp_exts p) /\
  (exists ks, In (EKeyShare ks) (sp_exts p)).
Proof. exact tls13_rules. Qed.
Print Assumptions C09_tls13_rules.

Theorem C09_versions_desc : makeSupportedVersions VersionTLS10 VersionTLS13 = [772; 771; 770; 769] /\
                            makeSupportedVersions VersionTLS12 VersionTLS13 = [772; 771].
Proof. split; reflexivity. Qed.

(* ALPS only with ALPN (and only in TLS 1.3 specs) *)
Theorem C09_alps_needs_alpn : forall rnd fuel tb v w sn np s salted p q,
  generate rnd fuel tb v w sn np s salted = Ok p -> In (EALPS q) (sp_exts p) ->
  (exists q', In (EALPN q') (sp_exts p)) /\ sp_max p = VersionTLS13.
Proof. exact alps_needs_alpn. Qed.
Print Assumptions C09_alps_needs_alpn.

(* ---- every coin flip: the table [coins] (Model/RandomizedCoins.v) has one row per FlipWeightedCoin(id.Weights.X)
   site of generateRandomizedSpec, in source order (a CCoins correspondence case compares the rows' weight fields
   with the id.Weights.X references and the number of FlipWeightedCoin calls found in the function's source text).
   For EVERY row: weight <= 0 (or -Inf) makes the feature present exactly when a TLS 1.3 rule / the -ALPN id
   forces it ([c_forced], [False] for most rows); weight >= 1 (or +Inf) makes it present whenever the coin is
   flipped at all ([c_app]), provided no 63-bit draw is zero. ---- *)
Theorem C09_coins : forall rnd, ieee_laws rnd -> forall c, In c coins ->
  forall fuel tb v w sn np s salted p, generate rnd fuel tb v w sn np s salted = Ok p ->
  (w_le0 (wfield (c_field c) w) -> (c_feature c tb v p <-> c_forced c v p)) /\
  (w_ge1 (wfield (c_field c) w) -> nz s -> nz salted -> c_app c v p -> c_feature c tb v p).
Proof. exact coins_all. Qed.
Print Assumptions C09_coins.
(* the rows, visibly: (source line, weights field index) *)
Example C09_coins_rows : map (fun c => (c_line c, c_field c)) coins =
  [(2980, 0); (2995, 1); (3171, 2); (3029, 3); (3032, 4); (3035, 5); (3038, 6); (3056, 7); (3059, 7); (3063, 8);
   (3089, 9); (3094, 10); (3097, 11); (3100, 12); (3103, 13); (3110, 14); (3113, 15); (3116, 15); (3141, 16)].
Proof. reflexivity. Qed.
(* the exceptions, exactly: which rows are forced / conditional *)
Example C09_coins_forced :
  (forall v p, c_forced coin_alpn v p <-> v = VALPN) /\
  (forall v p, c_forced coin_pss256 v p <-> sp_max p = VersionTLS13) /\
  (forall v p, c_forced coin_x25519 v p <-> sp_max p = VersionTLS13) /\
  (forall v p, c_forced coin_padding v p <-> sp_max p = VersionTLS13) /\
  (forall c, In c coins -> c <> coin_alpn -> c <> coin_pss256 -> c <> coin_x25519 -> c <> coin_padding ->
     forall v p, ~ c_forced c v p).
Proof.
  repeat split; try (intros H; exact H).
  intros c Hin N1 N2 N3 N4 v p. cbn [coins In] in Hin.
  repeat (destruct Hin as [<-|Hin]; [try contradiction; try (intros []) |]); contradiction.
Qed.

(* the two legacy summaries below are instances of C09_coins, kept for readability *)
(* weight <= 0 (or -Inf): the optional feature is absent unless a TLS 1.3 rule forces it *)
Theorem C09_weight0_absent : forall rnd, ieee_laws rnd -> forall fuel tb v w sn np s salted p,
  generate rnd fuel tb v w sn np s salted = Ok p ->
  (w_le0 (w_tls13 w) -> sp_max p = VersionTLS12) /\
  (w_le0 (w_alpn w) -> v = VRandomized -> forall q, ~ In (EALPN q) (sp_exts p)) /\
  (w_le0 (w_padding w) -> sp_max p <> VersionTLS13 -> ~ In EPadding (sp_exts p)) /\
  (w_le0 (w_status w) -> ~ In EStatus (sp_exts p)) /\
  (w_le0 (w_sct w) -> ~ In ESCT (sp_exts p)) /\
  (w_le0 (w_reneg w) -> forall m, ~ In (EReneg m) (sp_exts p)) /\
  (w_le0 (w_ems w) -> ~ In EEMS (sp_exts p)) /\
  (w_le0 (w_alps w) -> forall q, ~ In (EALPS q) (sp_exts p)).
Proof. exact weight0_absent. Qed.
Print Assumptions C09_weight0_absent.

(* weight >= 1 (or +Inf): present, provided no 63-bit draw is exactly 0 *)
Theorem C09_weight1_present : forall rnd, ieee_laws rnd -> forall fuel tb v w sn np s salted p,
  generate rnd fuel tb v w sn np s salted = Ok p -> nz s -> nz salted ->
  (w_ge1 (w_tls13 w) -> sp_max p = VersionTLS13) /\
  (w_ge1 (w_alpn w) -> v = VRandomized -> exists q, In (EALPN q) (sp_exts p)) /\
  (w_ge1 (w_padding w) -> In EPadding (sp_exts p)) /\
  (w_ge1 (w_status w) -> In EStatus (sp_exts p)) /\
  (w_ge1 (w_sct w) -> In ESCT (sp_exts p)) /\
  (w_ge1 (w_reneg w) -> In (EReneg RenegotiateOnceAsClient) (sp_exts p)) /\
  (w_ge1 (w_ems w) -> In EEMS (sp_exts p)) /\
  (w_ge1 (w_alps w) -> sp_max p = VersionTLS13 -> (exists q, In (EALPN q) (sp_exts p)) -> In (EALPS [proto_h2]) (sp_exts p)).
Proof. exact weight1_present. Qed.
Print Assumptions C09_weight1_present.

(* removal weight <= 0: no suite is removed *)
Theorem C09_weight0_no_removal : forall rnd, ieee_laws rnd -> forall s0 w s out s',
  removeRandomCiphers rnd s0 w s = Ok (out, s') -> w_le0 w -> out = s0.
Proof. exact weight0_no_removal. Qed.
Print Assumptions C09_weight0_no_removal.

(* ---- the cipher sort has exactly one correct result ----
   math/rand Perm yields, for every stream, a permutation of 0..n-1; the (isObsolete, randomTag) keys are therefore
   pairwise distinct, and ANY list that is a permutation of the sortableCiphers and sorted w.r.t. Less (for i < j: not
   Less(j,i), which is what sort.Sort guarantees, stable or not) equals the model's insertion sort. *)
Theorem C09_perm_is_permutation : forall fuel n s l r, perm fuel n s = Some (l, r) ->
  length l = n /\ NoDup l /\ Forall (fun x => (0 <= x < Z.of_nat n)%Z) l.
Proof. exact perm_spec. Qed.
Print Assumptions C09_perm_is_permutation.
Theorem C09_sort_unique : forall fuel tb s pm r l',
  perm fuel (length (t_suites tb)) s = Some (pm, r) ->
  Permutation (sortable tb pm) l' -> StronglySorted (fun a b => less b a = false) l' ->
  l' = isort (sortable tb pm).
Proof. exact sort_unique. Qed.
Print Assumptions C09_sort_unique.
Theorem C09_shuffled_is_that_sort : forall fuel tb s out s', shuffledCiphers fuel tb s = Ok (out, s') ->
  exists pm r, perm fuel (length (t_suites tb)) s = Some (pm, r) /\ out = map sc_suite (isort (sortable tb pm)).
Proof. exact shuffledCiphers_is_sort. Qed.

(* ---- key shares vs supported_groups: refuted at full strength (F-09) ---- *)
Definition C09_keyshare_in_groups_full : Prop := forall rnd fuel tb v w sn np s salted p,
  generate rnd fuel tb v w sn np s salted = Ok p ->
  forall ks gs, In (EKeyShare ks) (sp_exts p) -> In (ECurves gs) (sp_exts p) -> incl ks gs.
Definition C09_hybrid_has_share_full : Prop := forall rnd fuel tb v w sn np s salted p,
  generate rnd fuel tb v w sn np s salted = Ok p ->
  forall ks gs, In (EKeyShare ks) (sp_exts p) -> In (ECurves gs) (sp_exts p) ->
  In X25519MLKEM768 gs -> In X25519MLKEM768 ks.

Theorem C09_keyshare_in_groups_refuted : ~ C09_keyshare_in_groups_full.
Proof. exact keyshare_in_groups_refuted. Qed.
Print Assumptions C09_keyshare_in_groups_refuted.
Theorem C09_hybrid_has_share_refuted : ~ C09_hybrid_has_share_full.
Proof. exact hybrid_has_share_refuted. Qed.
Print Assumptions C09_hybrid_has_share_refuted.

(* strongest true versions: every classical share is listed, always; the X25519MLKEM768 share and the
   group are decided by two independent pairs of coins (w_ks_random at 3116, w_x25519 at 3056), so
   consistency holds exactly when a weight pins one of them *)
Theorem C09_keyshare_in_groups_holds_if : forall rnd, ieee_laws rnd -> forall fuel tb v w sn np s salted p,
  generate rnd fuel tb v w sn np s salted = Ok p ->
  forall ks gs, In (EKeyShare ks) (sp_exts p) -> In (ECurves gs) (sp_exts p) ->
  (forall g, In g ks -> g <> X25519MLKEM768 -> In g gs) /\
  (w_le0 (w_ks_random w) \/ (nz s /\ (w_ge1 (w_x25519 w) \/ w_ge1 (w_ks_p256 w))) -> incl ks gs).
Proof. exact keyshare_in_groups_holds_if. Qed.
Print Assumptions C09_keyshare_in_groups_holds_if.
Theorem C09_hybrid_has_share_holds_if : forall rnd, ieee_laws rnd -> forall fuel tb v w sn np s salted p,
  generate rnd fuel tb v w sn np s salted = Ok p ->
  forall ks gs, In (EKeyShare ks) (sp_exts p) -> In (ECurves gs) (sp_exts p) ->
  (w_le0 (w_x25519 w) \/ (nz s /\ w_ge1 (w_ks_random w) /\ w_le0 (w_ks_p256 w))) ->
  In X25519MLKEM768 gs -> In X25519MLKEM768 ks.
Proof. exact hybrid_has_share_holds_if. Qed.
Print Assumptions C09_hybrid_has_share_holds_if.

(* hypotheses are satisfiable by non-trivial inputs *)
Example C09_ex_laws : ieee_laws (fun x => x).
Proof. repeat split; intros; try reflexivity; assumption. Qed.
Example C09_ex_rne_points :
  (rne 0 == 0)%Q /\ (rne 1 == 1)%Q /\ (rne (inject_Z 9223372036854775808) == inject_Z 9223372036854775808)%Q /\
  (rne (1 / inject_Z 9223372036854775808) == 1 / inject_Z 9223372036854775808)%Q.
Proof. repeat split; vm_compute; reflexivity. Qed.
Example C09_ex_weights : w_le0 (WFin 0) /\ w_ge1 (WFin 1) /\ w_le0 (WInf true) /\ w_ge1 (WInf false).
Proof. cbn. repeat split; try reflexivity; discriminate. Qed.
(* a real seed's stream (the keyshare witness) yields a TLS 1.3 spec, and all its draws are non-zero *)
Example C09_ex_tls13 : exists p, generate rne 16 utls_table VALPN default_weights [] [] witness_keyshare witness_salted = Ok p /\ sp_max p = VersionTLS13.
Proof. eexists. split; [vm_compute; reflexivity|reflexivity]. Qed.
Example C09_ex_nz : nz [0; 0; 0; 0; 0; 0; 0; 1].
Proof. exact nz_example. Qed.

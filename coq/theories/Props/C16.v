(* C16 — GREASE ECH extensions look like real outer ECH extensions.
   Model: Model/EchGrease.v (GREASEEncryptedClientHelloExtension.init / Len / Read, cipherLen); the random draws
   are inputs ([fresh]). [template_ok]: the object as a parrot carries it (nothing generated yet, candidate AEADs
   are HPKE AEADs, candidate lengths + 16 fit the u16 length prefix). [fresh_ok]: picks are indices into the
   candidate lists, the generated encapsulated key has 32 bytes (X25519), rand.Read fills its buffer. *)
From UV Require Import Base.Common Model.EchGrease Proofs.EchGreaseP.
Open Scope N_scope.

(* Well-formed: Read writes type 0xfe0d, u16 length, and the body
   0x00 || kdf || aead || config id || u16 len enc || enc || u16 len payload || payload
   with (kdf,aead) from the candidate list (the default pair when the list is empty), a 32-byte enc, and a payload
   of candidate length + 16; a parser for ECHClientHello(outer) reads exactly these fields back. *)
Theorem grease_ech_wf : forall (g : grease) (f : fresh) (buflen : N),
  template_ok g -> fresh_ok g f ->
  let cs := chosen_suite g f in let c := chosen_len g f in
  let pl := f_rand f (c + 16) in
  let e := outer_ext (fst cs) (snd cs) (chosen_id g f) (f_enc f) pl in
  nlen e <= buflen ->
  (exists g1, Read g f buflen = Ok (g1, e) /\ init_done g1 = true) /\
  In cs (candidates_or_default (CandidateCipherSuites g)) /\
  In c (lens_or_default (CandidatePayloadLens g)) /\
  nlen (f_enc f) = 32 /\ nlen pl = c + 16 /\
  parse_ext e = Some (utlsExtensionECH, outer_body (fst cs) (snd cs) (chosen_id g f) (f_enc f) pl) /\
  parse_outer (outer_body (fst cs) (snd cs) (chosen_id g f) (f_enc f) pl)
    = Some (mkOuter (fst cs) (snd cs) (chosen_id g f) (f_enc f) pl) /\
  wf_grease_ext (CandidateCipherSuites g) (CandidatePayloadLens g) e = true.
Proof. exact grease_wf. Qed.
Print Assumptions grease_ech_wf.

(* Stable: any number of Read calls on the same object (whatever each call could have drawn) return the
   bytes of the first one — the resend after a HelloRetryRequest. No premise on the object. *)
Theorem grease_ech_stable : forall (g : grease) (f : fresh) (fs : list fresh) (buflen : N) (e : bytes) (es : list bytes),
  reads g (f :: fs) buflen = Ok (e :: es) -> Forall (eq e) es.
Proof. exact grease_stable. Qed.
Print Assumptions grease_ech_stable.

Theorem grease_ech_len : forall (g : grease) (f f' : fresh) (buflen : N) (g1 : grease) (e : bytes),
  Read g f buflen = Ok (g1, e) -> Len g1 f' = Ok (g1, nlen e).
Proof. exact grease_len_consistent. Qed.
Print Assumptions grease_ech_len.

(* Fresh: the encapsulated key, the payload and the config id of an initialised object are the draws of that
   one initialisation ... *)
Theorem grease_ech_fresh : forall (g : grease) (f : fresh) (buflen : N) (g1 : grease) (e : bytes),
  template_ok g -> fresh_ok g f -> Read g f buflen = Ok (g1, e) ->
  EncapsulatedKey g1 = f_enc f /\
  payload g1 = f_rand f (chosen_len g f + 16) /\
  configId g1 = chosen_id g f /\
  (CandidateConfigIds g = [] -> configId g1 = f_id_byte f).
Proof. exact grease_fresh. Qed.
Print Assumptions grease_ech_fresh.

(* ... and of nothing else: whatever stale values the template's generated fields hold, the bytes depend only
   on the candidate lists and the draws. *)
Theorem grease_ech_fresh_only : forall (g g' : grease) (f : fresh) (buflen : N),
  template_ok g -> template_ok g' -> fresh_ok g f ->
  CandidateCipherSuites g = CandidateCipherSuites g' -> CandidateConfigIds g = CandidateConfigIds g' ->
  CandidatePayloadLens g = CandidatePayloadLens g' ->
  Read g f buflen = Read g' f buflen.
Proof. exact grease_fresh_only. Qed.
Print Assumptions grease_ech_fresh_only.

(* ---------------- non-vacuity ---------------- *)
(* BoringGREASEECH() (u_ech.go:336-352) and the Firefox_120 extension (u_parrots.go:1443-1455) *)
Definition boring : grease := mkGrease [(1, 1); (1, 3)] (0, 0) [] 0 [] [128; 160; 192; 224] [] false.
Definition firefox : grease := mkGrease [(1, 1); (1, 3)] (0, 0) [] 0 [] [223] [] false.
Definition ex_fresh (sp lp : N) (fill : N) : fresh :=
  mkFresh 77 0 sp (repeat 9 32) lp (fun n => repeat fill (N.to_nat n)).

Lemma repeat_nlen (x : N) (n : N) : nlen (repeat x (N.to_nat n)) = n.
Proof. unfold nlen. rewrite repeat_length. apply N2Nat.id. Qed.

Example C16_ex_template_boring : template_ok boring.
Proof.
  constructor; try reflexivity.
  - apply Forall_cons; [split; [reflexivity | left; reflexivity]|].
    apply Forall_cons; [split; [reflexivity | right; right; reflexivity]|]. constructor.
  - repeat (apply Forall_cons; [reflexivity|]). constructor.
Qed.
Example C16_ex_template_firefox : template_ok firefox.
Proof.
  constructor; try reflexivity.
  - apply Forall_cons; [split; [reflexivity | left; reflexivity]|].
    apply Forall_cons; [split; [reflexivity | right; right; reflexivity]|]. constructor.
  - repeat (apply Forall_cons; [reflexivity|]). constructor.
Qed.
Example C16_ex_fresh : fresh_ok boring (ex_fresh 1 2 7).
Proof.
  constructor; cbn; try (intros; lia); try reflexivity.
  intros n. apply repeat_nlen.
Qed.

(* the model run on it: Chacha suite, payload 192+16 = 208 bytes, total 4 + 10 + 32 + 208 bytes; three Reads
   with different draws give the same bytes; the oracle accepts them *)
Example C16_ex_run :
  match reads boring [ex_fresh 1 2 7; ex_fresh 0 0 8; ex_fresh 0 3 9] 1000 with
  | Ok [e1; e2; e3] =>
      nlen e1 = 254 /\ e2 = e1 /\ e3 = e1 /\ firstn 12 e1 = [254; 13; 0; 250; 0; 0; 1; 0; 3; 77; 0; 32] /\
      wf_grease_ext (CandidateCipherSuites boring) (CandidatePayloadLens boring) e1 = true
  | _ => False
  end.
Proof. vm_compute. repeat split. Qed.

(* the premises of grease_ech_wf are needed: an unknown AEAD id panics in cipherLen, and a candidate length
   whose ciphertext does not fit the u16 prefix yields bytes the oracle rejects *)
Example C16_ex_bad_aead :
  Read (mkGrease [(1, 9)] (0, 0) [] 0 [] [128] [] false) (ex_fresh 0 0 7) 1000 = Panic P_invalid_aead.
Proof. reflexivity. Qed.
Example C16_ex_len_overflow :
  match Read (mkGrease [(1, 1)] (0, 0) [] 0 [] [65535] [] false) (ex_fresh 0 0 7) 70000 with
  | Ok (_, e) => wf_grease_ext [(1, 1)] [65535] e = false
  | _ => False
  end.
Proof. vm_compute. reflexivity. Qed.

(* C08 — every extension's encoder and decoder agree.
   Property theorems only; each closed by a lemma of Proofs/ExtP.v. The model
   (Model/Ext.v) describes the code WITH fixes/C08-ech-grease-short-payload,
   fixes/C08-utls-psk-read-without-session, fixes/C08-one-byte-prefix-overflow and
   fixes/C08-psk-len-after-edit applied; the inputs on which the
   unfixed code violated the property are kept below as Examples and as corpus
   cases of the runner.

     ext_len e / ext_read e n / ext_write id body : Len(), Read(b) with len(b) = n, ExtensionFromID(id)+Write(body)
     state_ok e : FakePreSharedKeyExtension binders have a TLS 1.3 hash size (otherwise Read refuses them)
     wf_ext e   : state_ok and every field within its wire limit (Model/ExtSpec.v)
     rt_ok e    : wf_ext, present on the wire, the type has Write, vectors not below the RFC minimum sizes *)
From UV Require Import Base.Common Model.Wire Model.Varint Model.Ext Model.ExtSpec Model.ExtObj Proofs.WireP Proofs.ExtP.

(* Len() equals the number of bytes Read() writes — all 31 types, any field values. *)
Theorem C08_len_read : forall e n b, state_ok e = true -> ext_read e n = Ok b -> blen b = ext_len e.
Proof. exact len_read. Qed.
Print Assumptions C08_len_read.

(* ... with no premise at all, since fixes/C08-psk-len-after-edit: UtlsPreSharedKeyExtension.Len() no
   longer trusts a cached length (before the fix this statement was refuted by a value measured
   once at 131 bytes and then edited: Len() 131, Read wrote 69 bytes; the witness stays below). *)
Theorem C08_len_read_any_state : forall e n b, ext_read e n = Ok b -> blen b = ext_len e.
Proof. exact len_read_any. Qed.
Print Assumptions C08_len_read_any_state.
Example C08_ex_formerly_stale_psk :
  let e := EUtlsPreSharedKey true (Some 131) true [([126], 5)] [zbytes 64] in
  ext_len e = 80 /\ ext_read e 79 = Err E_SHORT /\ is_ok (ext_read e 80) = true.
Proof. repeat split; vm_compute; reflexivity. Qed.

(* Objects edited after they were encoded once (Model/ExtObj.v: what the object serves is
   obj_view first cur — QUIC transport parameters keep their first non-empty encoding):
   Len() and Read() still agree, and short buffers are still refused. *)
Theorem C08_len_read_after_edit : forall first cur n b, state_ok (obj_view first cur) = true ->
  obj_read first cur n = Ok b -> blen b = obj_len first cur.
Proof. exact (fun first cur => len_read (obj_view first cur)). Qed.
Theorem C08_read_short_after_edit : forall first cur n, state_ok (obj_view first cur) = true ->
  n < obj_len first cur -> obj_read first cur n = Err E_SHORT.
Proof. exact (fun first cur => read_short (obj_view first cur)). Qed.
Print Assumptions C08_read_short_after_edit.

(* Any shorter buffer: io.ErrShortBuffer, no bytes. *)
Theorem C08_read_short : forall e n, state_ok e = true -> n < ext_len e -> ext_read e n = Err E_SHORT.
Proof. exact read_short. Qed.
Print Assumptions C08_read_short.

(* Any buffer of at least Len() bytes gives the same result as one of exactly Len() bytes. *)
Theorem C08_read_enough : forall e n, state_ok e = true -> ext_len e <= n -> ext_read e n = ext_read e (ext_len e).
Proof. exact read_enough. Qed.
Print Assumptions C08_read_enough.

(* Within wire limits Read succeeds and writes either nothing (Len() = 0) or
   type || uint16 length || body, where body is the RFC layout written with length-prefix
   combinators: the header length is the body length and each inner prefix is the length of
   the vector it precedes. *)
Theorem C08_read_layout : forall e, wf_ext e = true ->
  if ext_absent e then ext_read e (ext_len e) = Ok [] /\ ext_len e = 0
  else ext_read e (ext_len e) = Ok (enc_u16 (ext_id e) ++ enc_u16lp (ext_body e))
       /\ blen (ext_body e) + 4 = ext_len e.
Proof. exact read_layout. Qed.
Print Assumptions C08_read_layout.

(* ... and the cryptobyte readers take it apart again: type, then exactly the body, nothing left. *)
Theorem C08_header_parses : forall e, wf_ext e = true -> ext_absent e = false ->
  exists b, ext_read e (ext_len e) = Ok b
    /\ read_u16 b = Some (ext_id e, enc_u16lp (ext_body e))
    /\ read_u16lp (enc_u16lp (ext_body e)) = Some (ext_body e, [])
    /\ blen (ext_body e) + 4 = ext_len e.
Proof. exact header_parses. Qed.
Print Assumptions C08_header_parses.

(* Write applied to the body Read produced yields the documented normal form (28 types with
   Write reachable through ExtensionFromID; Generic, Cookie, QUIC transport parameters have none). *)
Theorem C08_write_read : forall e, rt_ok e = true ->
  exists body, ext_read e (ext_len e) = Ok (enc_u16 (ext_id e) ++ enc_u16lp body)
    /\ blen body < 65536 /\ ext_write (ext_id e) body = Ok (ext_norm e).
Proof. exact write_read_full. Qed.
Print Assumptions C08_write_read.

(* The real-PSK writer ReadTLSExtensions may choose for id 41 ignores the body. *)
Theorem C08_write_read_realpsk : forall s c o ids bs b,
  ext_write_realpsk ID_PSK b = Ok (ext_norm (EUtlsPreSharedKey s c o ids bs)).
Proof. exact write_read_realpsk. Qed.
Print Assumptions C08_write_read_realpsk.

(* Encoding the normal form and decoding again is a fixed point: read . write . read = read
   on normalised values, and normalising twice changes nothing. *)
Theorem C08_reencode_stable : forall e, rt_ok (ext_norm e) = true ->
  ext_write (ext_id (ext_norm e)) (ext_body (ext_norm e)) = Ok (ext_norm e).
Proof. exact reencode_stable. Qed.
Print Assumptions C08_reencode_stable.
Theorem C08_norm_idempotent : forall e, ext_norm (ext_norm e) = ext_norm e.
Proof. exact norm_idem. Qed.
Print Assumptions C08_norm_idempotent.

(* Error branches outside the one-byte prefixes: refused, never truncated. *)
Theorem C08_too_many_compress : forall a n, 255 < 2 * blen a -> ext_len (ECompressCert a) <= n ->
  ext_read (ECompressCert a) n = Err E_MANY_COMPRESS.
Proof. exact too_many_compress. Qed.
Theorem C08_too_many_versions : forall v n, 255 < 2 * blen v -> ext_len (ESupportedVersions v) <= n ->
  ext_read (ESupportedVersions v) n = Err E_MANY_VERSIONS.
Proof. exact too_many_versions. Qed.
Theorem C08_too_many_pskmodes : forall m n, 255 < blen m -> ext_len (EPSKKeyExchangeModes m) <= n ->
  ext_read (EPSKKeyExchangeModes m) n = Err E_MANY_PSKMODES.
Proof. exact too_many_pskmodes. Qed.
Print Assumptions C08_too_many_pskmodes.
(* ... and, since fixes/C08-one-byte-prefix-overflow, the other five one-byte prefixes. *)
Theorem C08_too_many_points : forall p n, 255 < blen p -> ext_len (ESupportedPoints p) <= n ->
  ext_read (ESupportedPoints p) n = Err E_MANY_POINTS.
Proof. exact too_many_points. Qed.
Theorem C08_too_long_alps_name : forall ps n, Exists (fun s => 255 < blen s) ps ->
  ext_len (EApplicationSettings ps) <= n ->
  ext_read (EApplicationSettings ps) n = Err E_ALPS_NAME_LONG
  /\ ext_read (EApplicationSettingsNew ps) n = Err E_ALPS_NAME_LONG.
Proof. exact alps_name_too_long. Qed.
Theorem C08_too_long_renegotiated_connection : forall r c n, 255 < blen c -> ext_len (ERenegotiationInfo r c) <= n ->
  ext_read (ERenegotiationInfo r c) n = Err E_RENEG_LONG.
Proof. exact renegotiated_connection_too_long. Qed.
Theorem C08_too_many_token_binding_params : forall ma mi p n, 255 < blen p ->
  ext_len (EFakeTokenBinding ma mi p) <= n -> ext_read (EFakeTokenBinding ma mi p) n = Err E_MANY_TB_PARAMS.
Proof. exact too_many_token_binding_params. Qed.
Print Assumptions C08_too_many_token_binding_params.

(* Read panics only where TransportParameters.Marshal does (C24). *)
Theorem C08_read_no_panic : forall e n, (forall tps, e <> EQUICTransportParameters tps) -> is_panic (ext_read e n) = false.
Proof. exact read_no_panic. Qed.
Print Assumptions C08_read_no_panic.

(* F-02a after the fix: a GREASE ECH payload shorter than the AEAD tag is refused. *)
Theorem C08_ech_short_payload_refused : forall kdf aead cfg enc p,
  kdf < 65536 -> aead < 65536 -> ech_kdf_ok kdf = true -> ech_aead_ok aead = true ->
  blen enc < 65536 -> blen p < ECH_TAG_LEN ->
  ech_write ([0] ++ enc_u16 kdf ++ enc_u16 aead ++ [cfg] ++ enc_u16lp enc ++ enc_u16lp p) = Err E_ECH_PAYLOAD_SHORT.
Proof. exact ech_write_short_payload. Qed.
Print Assumptions C08_ech_short_payload_refused.

(* ---- non-vacuity: concrete values meeting each hypothesis, one per shape ---- *)
Example C08_ex_rt_keyshare : rt_ok (EKeyShare [(6682, [0]); (29, zbytes 32); (4588, zbytes 1216)]) = true
  /\ ext_norm (EKeyShare [(6682, [0]); (29, zbytes 32)]) = EKeyShare [(2570, [0]); (29, [])].
Proof. split; vm_compute; reflexivity. Qed.
Example C08_ex_rt_alpn : rt_ok (EALPN [[104; 50]; [104; 116; 116; 112; 47; 49; 46; 49]]) = true.
Proof. vm_compute. reflexivity. Qed.
Example C08_ex_rt_sni : rt_ok (ESNI [97; 46; 98]) = true /\ ext_absent (ESNI []) = true.
Proof. split; vm_compute; reflexivity. Qed.
Example C08_ex_rt_fakepsk : rt_ok (EFakePreSharedKey true [([1; 2; 3], 4294967295)] [zbytes 32; zbytes 48]) = true.
Proof. vm_compute. reflexivity. Qed.
Example C08_ex_rt_ech : rt_ok (EGREASEECH 1 3 77 (zbytes 32) (zbytes 16)) = true.
Proof. vm_compute. reflexivity. Qed.
Example C08_ex_wf_utlspsk : wf_ext (EUtlsPreSharedKey true None false [([9], 1)] [zbytes 32]) = true
  /\ ext_len (EUtlsPreSharedKey true None false [([9], 1)] [zbytes 32]) = 48.
Proof. split; vm_compute; reflexivity. Qed.
Example C08_ex_limits : wf_ext (ESupportedVersions (repeat 772 127)) = true
  /\ 255 < 2 * blen (repeat 772 128).
Proof. split; vm_compute; reflexivity. Qed.
(* the over-limit witnesses of the C02 boundary table: 256 entries used to give a length byte of 0 *)
Example C08_ex_over_one_byte :
  ext_read (ESupportedPoints (zbytes 256)) 261 = Err E_MANY_POINTS
  /\ ext_read (EApplicationSettings [zbytes 256]) 263 = Err E_ALPS_NAME_LONG
  /\ Exists (fun s => 255 < blen s) [[104; 50]; zbytes 256]
  /\ ext_read (ERenegotiationInfo 1 (zbytes 256)) 261 = Err E_RENEG_LONG
  /\ ext_read (EFakeTokenBinding 0 13 (zbytes 256)) 263 = Err E_MANY_TB_PARAMS
  /\ wf_ext (ESupportedPoints (zbytes 255)) = true /\ wf_ext (ESupportedPoints (zbytes 256)) = false.
Proof.
  repeat split; try (vm_compute; reflexivity).
  apply Exists_cons_tl, Exists_cons_hd. vm_compute. reflexivity.
Qed.

(* The inputs on which the unfixed code failed (kept as runner corpus): GREASE ECH body with a
   15-byte payload — the unfixed Write accepted it and the object then had Len() = 65566 instead
   of 30; UtlsPreSharedKeyExtension without session, OmitEmptyPsk set, identities present —
   Len() = 0 while Read wrote 50 bytes into a large buffer and failed on an empty one. *)
Example C08_ex_ech_witness :
  ext_write ID_ECH ([0; 0;1; 0;1; 42; 0;1; 7] ++ enc_u16 15 ++ zbytes 15) = Err E_ECH_PAYLOAD_SHORT.
Proof. vm_compute. reflexivity. Qed.
Example C08_ex_utlspsk_witness :
  let e := EUtlsPreSharedKey false None true [([1; 2; 3], 7)] [zbytes 32] in
  state_ok e = true /\ ext_len e = 0 /\ ext_read e 0 = Ok [] /\ ext_read e 100 = Ok [].
Proof. repeat split; vm_compute; reflexivity. Qed.

(* C22 — application settings (ALPS) are exchanged consistently.
   Property theorems only; each closed by a lemma from Proofs/AlpsP.v.  Model/Alps.v describes the code AFTER
   fixes/C22-alps-local-key.diff ([fixed = true]); the code as found ([fixed = false]) is refuted below (F-22).
   Not modelled: the record layer, key schedule and the rest of the TLS 1.3 state machine; the Finished computation is the
   Section variable [fin] (any function of the bytes hashed so far).  Clients with QUIC, early data or ECH are outside the model. *)
From UV Require Import Base.Common Model.Wire Model.RobustSrv Model.Alps Proofs.AlpsP.
From UV Require Model.Negotiate.
Open Scope N_scope.

(* alps_codec_roundtrip: the client's EncryptedExtensions, for every settings value the builder can encode, parses back (with the
   server-side parser utlsClientEncryptedExtensionsMsg.unmarshal) to the same code point and settings *)
Theorem C22_alps_codec_total : forall cp settings, blen settings + 4 < 65536 ->
  cee_marshal cp settings [] = Ok (typeEncryptedExtensions :: enc_u24lp (enc_u16lp (cee_exts cp settings []))).
Proof. exact cee_marshal_ok. Qed.
Print Assumptions C22_alps_codec_total.
Theorem C22_alps_codec_roundtrip : forall cp settings msg,
  cp = 0 \/ alps_cp cp -> cee_marshal cp settings [] = Ok msg ->
  cee_unmarshal msg = Ok (Some {| ee_codepoint := cp; ee_settings := if cp =? 0 then [] else settings |}).
Proof. exact cee_roundtrip. Qed.
Print Assumptions C22_alps_codec_roundtrip.
(* ... and the server's EncryptedExtensions, for every well-formed extension list, is handled extension by extension in order *)
Theorem C22_server_ee_decoding : forall exts, Forall ext_wf exts -> blen (enc_exts exts) < 65536 ->
  ee_unmarshal (enc_ee exts) = ee_fold exts ee_zero.
Proof. exact ee_unmarshal_enc. Qed.
Print Assumptions C22_server_ee_decoding.

(* alps_peer: the server's settings on either code point (the last such extension counts), for a negotiated protocol the client
   offered, under TLS 1.3, end up in PeerApplicationSettings *)
Theorem C22_alps_peer : forall c pre cp data post m,
  Forall ext_wf (pre ++ (cp, data) :: post) -> blen (enc_exts (pre ++ (cp, data) :: post)) < 65536 ->
  is_alps cp = true -> Forall (fun e => is_alps (fst e) = false) post ->
  ee_fold (pre ++ (cp, data) :: post) ee_zero = Ok (Some m) ->
  cl_vers c = V13 -> ee_alpn m <> [] -> Negotiate.check_alpn (cl_offered c) (ee_alpn m) = true ->
  ee_quic m = None -> ee_early m = false ->
  forall fixed, exists st, client_read_ee fixed c (enc_ee (pre ++ (cp, data) :: post)) = Ok st /\
    st_peer st = data /\ st_cp st = cp /\ st_proto st = ee_alpn m.
Proof. exact alps_peer_bytes. Qed.
Print Assumptions C22_alps_peer.

(* alps_reject: below TLS 1.3, or with no negotiated ALPN protocol, application settings abort the handshake *)
Theorem C22_alps_reject_utls : forall fixed c proto m, ee_cp m <> 0 -> cl_vers c < V13 \/ proto = [] ->
  utls_read_server_parameters fixed c proto m = Err a_unsupported_extension.
Proof. exact utls_rsp_reject. Qed.
Print Assumptions C22_alps_reject_utls.
Theorem C22_alps_reject : forall fixed c data m,
  ee_unmarshal data = Ok (Some m) -> ee_cp m <> 0 -> cl_vers c < V13 \/ ee_alpn m = [] ->
  client_read_ee fixed c data = Err a_unsupported_extension \/ client_read_ee fixed c data = Err a_no_application_protocol.
Proof. exact client_read_ee_reject. Qed.
Print Assumptions C22_alps_reject.
(* TLS 1.0-1.2 handshakes never reach that function: an ALPS extension in a ServerHello is an unknown extension, ignored by
   serverHelloMsg.unmarshal; nothing is exposed and nothing is answered (definitional in the model; observed by the runner) *)
Theorem C22_alps_tls12_not_accepted : forall negotiated alps,
  st_peer (sh12_alps_state negotiated alps) = [] /\ send_client_ee (sh12_alps_state negotiated alps) = Ok [].
Proof. intros. split; reflexivity. Qed.
Print Assumptions C22_alps_tls12_not_accepted.

(* alps_in_transcript: the client's EncryptedExtensions is written into the transcript before the client Finished is computed,
   so a server that hashes what it reads, in order, computes the same Finished (transcripts equal up to the server Finished) *)
Theorem C22_alps_in_transcript : forall (fin : bytes -> bytes) tr st certs,
  st_cp st = 0 \/ alps_cp (st_cp st) -> blen (st_local st) + 4 < 65536 ->
  exists ee, send_client_ee st = Ok ee /\
    client_flight fin tr st certs = Ok (ee ++ certs ++ [finished_msg fin (tr ++ concat ee ++ concat certs)], tr ++ concat ee ++ concat certs) /\
    server_finish fin tr (negb (st_cp st =? 0)) (length certs) (ee ++ certs ++ [finished_msg fin (tr ++ concat ee ++ concat certs)])
      = Some (if st_cp st =? 0 then None else Some (st_cp st, st_local st)).
Proof. exact client_flight_accepted. Qed.
Print Assumptions C22_alps_in_transcript.

(* ... and it is the first message of the client's second flight also when the server asked for a certificate: EncryptedExtensions,
   then Certificate / CertificateVerify, then Finished (an ALPS server reads it right after its own Finished) *)
Theorem C22_client_ee_first : forall (fin : bytes -> bytes) tr st certs m sent tr2,
  send_client_ee st = Ok [m] -> client_flight fin tr st certs = Ok (sent, tr2) ->
  sent = m :: certs ++ [finished_msg fin tr2] /\ tr2 = tr ++ m ++ concat certs.
Proof. exact client_ee_first. Qed.
Print Assumptions C22_client_ee_first.
(* a PSK-resumed connection negotiates application settings like a full handshake (the hook is not guarded by usingPSK) *)
Theorem C22_alps_resumed_same : forall using_psk fixed c data, client_read_ee_conn using_psk fixed c data = client_read_ee fixed c data.
Proof. exact client_read_ee_conn_psk. Qed.
Print Assumptions C22_alps_resumed_same.

(* alps_local (FIXED code): from the bytes of the server's EncryptedExtensions to what the server decodes: the client's
   configured settings for the negotiated protocol, on the server's code point, inside the transcript, Finished accepted *)
Theorem C22_alps_local : forall (fin : bytes -> bytes) c data m st v tr certs,
  ee_unmarshal data = Ok (Some m) -> read_server_parameters true c m = Ok st -> ee_cp m <> 0 ->
  lookup (ee_alpn m) (cl_settings c) = Some v -> blen v + 4 < 65536 ->
  exists msg, send_client_ee st = Ok [msg] /\
    client_flight fin tr st certs =
      Ok ([msg] ++ certs ++ [finished_msg fin (tr ++ concat [msg] ++ concat certs)], tr ++ concat [msg] ++ concat certs) /\
    server_finish fin tr true (length certs) ([msg] ++ certs ++ [finished_msg fin (tr ++ concat [msg] ++ concat certs)])
      = Some (Some (ee_cp m, v)).
Proof. exact alps_local_end_to_end. Qed.
Print Assumptions C22_alps_local.

(* F-22, the code as found: the lookup key is ServerHello.alpnProtocol, empty in TLS 1.3, so the configured settings are not sent *)
Definition C22_alps_local_v0_full : Prop := forall c m st v,
  cl_sh_alpn c = [] -> read_server_parameters false c m = Ok st -> ee_cp m <> 0 ->
  lookup (ee_alpn m) (cl_settings c) = Some v -> st_local st = v.
Theorem C22_alps_local_v0_refuted : ~ C22_alps_local_v0_full.
Proof.
  intros H. destruct f22_witness as (st & E & Hl & Hs).
  specialize (H f22_client f22_ee st [1; 2; 3] eq_refl E ltac:(discriminate) Hl). rewrite Hs in H. discriminate.
Qed.
Print Assumptions C22_alps_local_v0_refuted.

(* ---- non-vacuity ---- *)
(* EncryptedExtensions { ALPN "h2"; ALPS(17613) = 01 02 03 } *)
Definition ex_exts : list (N * bytes) := [(16, [0; 3; 2; 104; 50]); (17613, [1; 2; 3])].
Definition ex_client : client := mkClient V13 [[104; 50]; [104; 116; 116; 112; 47; 49; 46; 49]] [([104; 50], [7; 7])] [].
Definition ex_fin (tr : bytes) : bytes := [blen tr mod 256; 42].
Example C22_ex_wire : enc_ee ex_exts = [8; 0; 0; 18; 0; 16; 0; 16; 0; 5; 0; 3; 2; 104; 50; 68; 205; 0; 3; 1; 2; 3].
Proof. vm_compute. reflexivity. Qed.
Example C22_ex_peer : client_read_ee true ex_client (enc_ee ex_exts) = Ok (mkSt [104; 50] [1; 2; 3] 17613 [7; 7]).
Proof. vm_compute. reflexivity. Qed.
Example C22_ex_hyps : Forall ext_wf ex_exts /\ blen (enc_exts ex_exts) < 65536 /\
  ee_fold ex_exts ee_zero = Ok (Some (mkEE [104; 50] None false None 17613 [1; 2; 3])).
Proof. split; [repeat constructor|]. split; vm_compute; reflexivity. Qed.
Example C22_ex_answer : send_client_ee (mkSt [104; 50] [1; 2; 3] 17613 [7; 7]) = Ok [[8; 0; 0; 8; 0; 6; 68; 205; 0; 2; 7; 7]].
Proof. vm_compute. reflexivity. Qed.
Example C22_ex_finish :
  server_finish ex_fin [1; 1] true 0 [[8; 0; 0; 8; 0; 6; 68; 205; 0; 2; 7; 7]; finished_msg ex_fin ([1; 1] ++ [8; 0; 0; 8; 0; 6; 68; 205; 0; 2; 7; 7])]
  = Some (Some (17613, [7; 7])).
Proof. vm_compute. reflexivity. Qed.
(* a server that skips the client's EncryptedExtensions in its transcript refuses the Finished *)
Example C22_ex_finish_unhashed :
  server_finish ex_fin [1; 1] true 0 [[8; 0; 0; 8; 0; 6; 68; 205; 0; 2; 7; 7]; finished_msg ex_fin [1; 1]] = None.
Proof. vm_compute. reflexivity. Qed.
Example C22_ex_reject_no_alpn : client_read_ee true ex_client (enc_ee [(17513, [1])]) = Err a_unsupported_extension.
Proof. vm_compute. reflexivity. Qed.
Example C22_ex_reject_tls12 :
  read_server_parameters true (mkClient 771 [[104; 50]] [] []) (mkEE [104; 50] None false None 17513 [1]) = Err a_unsupported_extension.
Proof. vm_compute. reflexivity. Qed.
Example C22_ex_v0 : client_read_ee false ex_client (enc_ee ex_exts) = Ok (mkSt [104; 50] [1; 2; 3] 17613 []).
Proof. vm_compute. reflexivity. Qed.

From UV Require Import Base.Common Model.Padding Model.Marshal.
Example C05_placeholder : boring_padding_style 300 = (208, true).
Proof. reflexivity. Qed.

(* C05 — Padding makes the ClientHello length follow the declared padding policy.
   Property theorems only; each is closed by lemmas of Proofs/MarshalP.v.

   Reading guide.  [marshal_client_hello bbs h es] is the model of
   UConn.MarshalClientHelloNoECH over header fields h and abstract extensions es
   ([bbs]: spare capacity offered by bytes.Buffer, any function).  Hypotheses
   common to the theorems: [hdr_ok h] (32-byte random, enforced by ApplyPreset),
   [aext_ok e] (a non-padding extension emits Len() fixed bytes whenever it is
   given room), and the extension list written as  pre ++ APad pol st :: post
   with no padding extension in pre/post, i.e. exactly one padding extension at
   an arbitrary position, in an arbitrary prior state st.
   [unpadded_len h es] is the argument of paddingExt.Update: the length of the
   whole handshake message without the padding extension. *)
From Coq Require Import ZifyBool ZifyNat ZifyN.
From UV Require Import Base.Common Model.Padding Model.Marshal Proofs.MarshalP.

(* BoringSSL style, unpadded length L with 255 < L < 512: the message is the
   unpadded message (a ++ b, L bytes) with a padding extension 00 15 00 <body>
   0^body inserted, and either at least 5 bytes were missing and the total is
   exactly 512, or fewer than 5 were missing (L = 508..511) and the body is 1
   byte (total L+5 = 513..516). *)
Theorem C05_boring_512 : forall bbs h pre st post,
  hdr_ok h -> Forall aext_ok pre -> Forall aext_ok post -> nopad pre -> nopad post ->
  let es := pre ++ APad PolBoring st :: post in
  let L := unpadded_len h es in
  255 < L -> L < 512 ->
  exists a b body,
    marshal_client_hello bbs h es = Ok (a ++ ([0; 21; 0; body] ++ zeros body) ++ b) /\
    len a + len b = L /\
    ((5 <= 512 - L /\ len (a ++ ([0; 21; 0; body] ++ zeros body) ++ b) = 512) \/
     (512 - L < 5 /\ body = 1 /\ len (a ++ ([0; 21; 0; body] ++ zeros body) ++ b) = L + 5)).
Proof.
  intros bbs h pre st post Hh Hok1 Hok2 Hn1 Hn2 es L Hlo Hhi.
  destruct (marshal_onepad_split bbs h pre PolBoring st post Hh Hok1 Hok2 Hn1 Hn2) as (a & b & Hm & Hab & Hlen).
  fold es in Hm, Hab, Hlen. fold L in Hm, Hab, Hlen.
  cbn [pad_update] in Hm, Hlen. rewrite (boring_in_range L Hlo Hhi) in Hm, Hlen.
  unfold pad_emit, pad_len in Hm, Hlen. cbn [p_will p_len] in Hm, Hlen.
  set (body := if 5 <=? 512 - L then 512 - L - 4 else 1) in *.
  assert (Hb : body < 256) by (unfold body; destruct (5 <=? 512 - L); lia).
  assert (H1 : u8 (body / 256) = 0) by (unfold u8; rewrite (N.div_small body 256 Hb); reflexivity).
  assert (H2 : u8 body = body) by (unfold u8; apply N.mod_small; exact Hb).
  rewrite H1, H2 in Hm, Hlen.
  exists a, b, body. split; [exact Hm|]. split; [exact Hab|].
  unfold body in *. destruct (5 <=? 512 - L) eqn:E; [left | right]; repeat split; lia.
Qed.
Print Assumptions C05_boring_512.

(* Any other unpadded length: the function emits the header and the other
   extensions' bytes and nothing else — no padding extension — L bytes in all. *)
Theorem C05_boring_else : forall bbs h pre st post,
  hdr_ok h -> Forall aext_ok pre -> Forall aext_ok post -> nopad pre -> nopad post ->
  let es := pre ++ APad PolBoring st :: post in
  let L := unpadded_len h es in
  L <= 255 \/ 512 <= L ->
  exists o1 o2, Forall2 emits pre o1 /\ Forall2 emits post o2 /\
    marshal_client_hello bbs h es =
      Ok (header_bytes h (L - 4) ++ u16be (u16 (total_len pre + total_len post)) ++ concat o1 ++ concat o2) /\
    len (header_bytes h (L - 4) ++ u16be (u16 (total_len pre + total_len post)) ++ concat o1 ++ concat o2) = L.
Proof.
  intros bbs h pre st post Hh Hok1 Hok2 Hn1 Hn2 es L Hout.
  destruct (marshal_onepad bbs h pre PolBoring st post Hh Hok1 Hok2 Hn1 Hn2) as (o1 & o2 & H1 & H2 & Hm).
  fold es in Hm. fold L in Hm. cbn [pad_update] in Hm. rewrite (boring_out_of_range L Hout) in Hm.
  unfold pad_emit, pad_len in Hm. cbn [p_will p_len app] in Hm.
  assert (HL : L = header_length h + 4 + (total_len pre + total_len post) + 2) by (apply unpadded_len_one; assumption).
  rewrite N.add_0_r in Hm.
  replace (header_length h + (2 + (total_len pre + total_len post))) with (L - 4) in Hm by lia.
  exists o1, o2. split; [exact H1|]. split; [exact H2|]. split; [exact Hm|].
  rewrite !len_app, len_u16be, (len_header_bytes h _ Hh), (emits_total _ _ H1), (emits_total _ _ H2). lia.
Qed.
Print Assumptions C05_boring_else.

(* Padding bodies are all zero, for every policy and prior state: whatever the
   padding extension contributes to the message is [pad_emit] of its updated
   state — nothing, or 00 15 <len16> followed by PaddingLen zero bytes.  (The
   model's Read writes only the four header bytes; the zeros are the untouched
   part of the fresh bufio buffer, which the proof shows is never flushed before
   the padding extension is reached.) *)
Theorem C05_pad_zero : forall bbs h pre pol st post,
  hdr_ok h -> Forall aext_ok pre -> Forall aext_ok post -> nopad pre -> nopad post ->
  let es := pre ++ APad pol st :: post in
  let st' := pad_update pol st (unpadded_len h es) in
  exists a b, marshal_client_hello bbs h es = Ok (a ++ pad_emit st' ++ b) /\
    len a + len b = unpadded_len h es /\
    pad_emit st' = if p_will st' then [0; 21; u8 (p_len st' / 256); u8 (p_len st')] ++ zeros (p_len st') else [].
Proof.
  intros bbs h pre pol st post Hh Hok1 Hok2 Hn1 Hn2 es st'.
  destruct (marshal_onepad_split bbs h pre pol st post Hh Hok1 Hok2 Hn1 Hn2) as (a & b & Hm & Hab & _).
  exists a, b. split; [exact Hm|]. split; [exact Hab | reflexivity].
Qed.
Print Assumptions C05_pad_zero.

(* ... and this rests on the buffer being zeroed: the extension's Read leaves
   the body bytes as it found them. *)
Theorem C05_pad_read_zeroed_buffer : forall st k, pad_len st <= k -> pad_read st (zeros k) = Ok (pad_emit st).
Proof. exact pad_read_zeros. Qed.
Print Assumptions C05_pad_read_zeroed_buffer.

(* The padding extension is never duplicated: two of them anywhere in the list
   make the function return the error, whatever else the list holds. *)
Theorem C05_pad_unique : forall bbs h a p1 s1 b p2 s2 c,
  marshal_client_hello bbs h (a ++ APad p1 s1 :: b ++ APad p2 s2 :: c) = Err E_MULTI_PADDING.
Proof.
  intros. unfold marshal_client_hello, marshal_prepare. rewrite find_padding_two. reflexivity.
Qed.
Print Assumptions C05_pad_unique.

(* Length, part 1: whatever the extensions do (even a Read that disagrees with
   Len), a returned message has exactly the announced length 4 + helloLen. *)
Theorem C05_marshal_len : forall bbs h es raw,
  marshal_client_hello bbs h es = Ok raw ->
  exists p, marshal_prepare h es = Ok p /\ len raw = 4 + pr_hello_len p.
Proof. exact marshal_len_any. Qed.
Print Assumptions C05_marshal_len.

(* Length, part 2: for any list of extensions whose Read returns exactly Len()
   bytes and at most one padding extension, the function succeeds and every
   length prefix is the length of what follows it (narrowed as in the code:
   uint24, uint8, uint16), each extension contributing exactly a_len bytes. *)
Theorem C05_marshal_framing : forall bbs h es p,
  hdr_ok h -> Forall aext_ok es -> marshal_prepare h es = Ok p ->
  exists body eb outs,
    marshal_client_hello bbs h es = Ok ([typeClientHello] ++ u24be (len body) ++ body) /\
    body = u16be (h_vers h) ++ h_random h
           ++ [u8 (len (h_sid h))] ++ h_sid h
           ++ u16be (u16 (len (suites_bytes (h_suites h)))) ++ suites_bytes (h_suites h)
           ++ [u8 (len (h_comp h))] ++ h_comp h
           ++ match es with [] => [] | _ => u16be (u16 (len eb)) ++ eb end /\
    eb = concat outs /\
    Forall2 (fun e o => len o = a_len e) (pr_exts p) outs /\ length (pr_exts p) = length es.
Proof.
  intros bbs h es p Hh Hok Hp.
  destruct (marshal_framing bbs h es p Hh Hok Hp) as (body & eb & outs & Hm & Hb & He & Hem & Hl).
  exists body, eb, outs. repeat split; try assumption.
  clear -Hem. induction Hem as [|e o es outs H _ IH]; constructor; [apply emits_len; exact H | exact IH].
Qed.
Print Assumptions C05_marshal_framing.

(* The narrowing is the identity within the protocol's limits. *)
Theorem C05_prefixes_exact : forall x, (x < 256 -> u8 x = x) /\ (x < 65536 -> u16 x = x) /\
  (x < 16777216 -> u24be x = [x / 65536; (x / 256) mod 256; x mod 256]).
Proof.
  intros x. split; [|split]; intros H.
  - apply N.mod_small. exact H.
  - apply N.mod_small. exact H.
  - unfold u24be, u8. f_equal. apply N.mod_small.
    apply N.div_lt_upper_bound; lia.
Qed.
Print Assumptions C05_prefixes_exact.

(* Fingerprinted capture.  The capture is a record (5-byte header) holding a
   ClientHello with a NON-EMPTY padding extension (body p >= 1).  FromRaw parses
   its extensions (padding: BoringPaddingStyle, state st) and installs
   AlwaysPadToLen(len(raw)-5) on it.  Re-applied on a connection whose unpadded
   length equals the capture's (same server-name length, same per-connection
   sizes), the marshalled message has the captured length. *)
Theorem C05_fp_length : forall bbs h pre st post rawlen p,
  hdr_ok h -> Forall aext_ok pre -> Forall aext_ok post -> nopad pre -> nopad post ->
  let es := from_raw_install rawlen (pre ++ APad PolBoring st :: post) in
  1 <= p ->
  rawlen = 5 + (unpadded_len h es + 4 + p) ->
  exists raw, marshal_client_hello bbs h es = Ok raw /\ 5 + len raw = rawlen.
Proof.
  intros bbs h pre st post rawlen p Hh Hok1 Hok2 Hn1 Hn2 es Hp Hraw.
  unfold es in *. rewrite (from_raw_install_one rawlen pre PolBoring st post Hn1) in *.
  destruct (marshal_onepad_split bbs h pre (from_raw_policy rawlen) st post Hh Hok1 Hok2 Hn1 Hn2) as (a & b & Hm & _ & Hlen).
  eexists. split; [exact Hm|]. rewrite Hlen. unfold from_raw_policy in *. rewrite pad_len_always.
  set (U := unpadded_len h (pre ++ APad (PolAlways (Z.of_N rawlen - 5)) st :: post)) in *.
  destruct (Z.of_N U <? Z.of_N rawlen - 5)%Z eqn:E1; [|lia].
  destruct (5 <=? Z.of_N rawlen - 5 - Z.of_N U)%Z eqn:E2; lia.
Qed.
Print Assumptions C05_fp_length.

(* More generally the fingerprinted spec pads to the captured length whenever
   at least 5 bytes are missing (e.g. a shorter server name) ... *)
Theorem C05_fp_pads_to_captured_length : forall bbs h pre st post rawlen,
  hdr_ok h -> Forall aext_ok pre -> Forall aext_ok post -> nopad pre -> nopad post ->
  let es := from_raw_install rawlen (pre ++ APad PolBoring st :: post) in
  unpadded_len h es + 5 + 5 <= rawlen ->
  exists raw, marshal_client_hello bbs h es = Ok raw /\ 5 + len raw = rawlen.
Proof.
  intros bbs h pre st post rawlen Hh Hok1 Hok2 Hn1 Hn2 es Hroom.
  unfold es in *. rewrite (from_raw_install_one rawlen pre PolBoring st post Hn1) in *.
  destruct (marshal_onepad_split bbs h pre (from_raw_policy rawlen) st post Hh Hok1 Hok2 Hn1 Hn2) as (a & b & Hm & _ & Hlen).
  eexists. split; [exact Hm|]. rewrite Hlen. unfold from_raw_policy in *. rewrite pad_len_always.
  set (U := unpadded_len h (pre ++ APad (PolAlways (Z.of_N rawlen - 5)) st :: post)) in *.
  destruct (Z.of_N U <? Z.of_N rawlen - 5)%Z eqn:E1; [|lia].
  destruct (5 <=? Z.of_N rawlen - 5 - Z.of_N U)%Z eqn:E2; lia.
Qed.
Print Assumptions C05_fp_pads_to_captured_length.

(* ... and "non-empty" cannot be dropped from the property: a capture whose
   padding extension has an EMPTY body is reproduced one byte too long. *)
Theorem C05_fp_empty_padding_grows : forall bbs h pre st post rawlen,
  hdr_ok h -> Forall aext_ok pre -> Forall aext_ok post -> nopad pre -> nopad post ->
  let es := from_raw_install rawlen (pre ++ APad PolBoring st :: post) in
  rawlen = 5 + (unpadded_len h es + 4 + 0) ->
  exists raw, marshal_client_hello bbs h es = Ok raw /\ 5 + len raw = rawlen + 1.
Proof.
  intros bbs h pre st post rawlen Hh Hok1 Hok2 Hn1 Hn2 es Hraw.
  unfold es in *. rewrite (from_raw_install_one rawlen pre PolBoring st post Hn1) in *.
  destruct (marshal_onepad_split bbs h pre (from_raw_policy rawlen) st post Hh Hok1 Hok2 Hn1 Hn2) as (a & b & Hm & _ & Hlen).
  eexists. split; [exact Hm|]. rewrite Hlen. unfold from_raw_policy in *. rewrite pad_len_always.
  set (U := unpadded_len h (pre ++ APad (PolAlways (Z.of_N rawlen - 5)) st :: post)) in *.
  destruct (Z.of_N U <? Z.of_N rawlen - 5)%Z eqn:E1; [|lia].
  destruct (5 <=? Z.of_N rawlen - 5 - Z.of_N U)%Z eqn:E2; lia.
Qed.
Print Assumptions C05_fp_empty_padding_grows.

(* Fingerprinter.AlwaysAddPadding (ClientHelloSpec.AlwaysAddPadding after FromRaw).  A padding
   extension that is already in the spec (before any pre_shared_key) is left alone, functor
   included ... *)
Theorem C05_addpad_keeps_policy : forall pre pol st post, nopad pre -> nopsk pre ->
  always_add_padding (pre ++ APad pol st :: post) = pre ++ APad pol st :: post.
Proof. exact aap_present. Qed.
Print Assumptions C05_addpad_keeps_policy.

(* ... so the option does not disturb the reproduction of a padded capture's length ... *)
Theorem C05_fp_length_addpad : forall bbs h pre st post rawlen p,
  hdr_ok h -> Forall aext_ok pre -> Forall aext_ok post -> nopad pre -> nopad post -> nopsk pre ->
  let es := always_add_padding (from_raw_install rawlen (pre ++ APad PolBoring st :: post)) in
  1 <= p ->
  rawlen = 5 + (unpadded_len h es + 4 + p) ->
  exists raw, marshal_client_hello bbs h es = Ok raw /\ 5 + len raw = rawlen.
Proof.
  intros bbs h pre st post rawlen p Hh Hok1 Hok2 Hn1 Hn2 Hk es Hp Hraw.
  unfold es in *. rewrite (from_raw_install_one rawlen pre PolBoring st post Hn1) in *.
  rewrite (aap_present pre _ st post Hn1 Hk) in *.
  rewrite <- (from_raw_install_one rawlen pre PolBoring st post Hn1) in *.
  exact (C05_fp_length bbs h pre st post rawlen p Hh Hok1 Hok2 Hn1 Hn2 Hp Hraw).
Qed.
Print Assumptions C05_fp_length_addpad.

(* ... and where there is none, exactly one BoringPaddingStyle extension is added: at the end, or
   just before the pre_shared_key extension (which must stay last). *)
Theorem C05_addpad_adds_one : forall es, nopad es -> nopsk es -> always_add_padding es = es ++ [fresh_pad].
Proof. exact aap_absent. Qed.
Theorem C05_addpad_before_psk : forall pre e post, nopad pre -> nopsk pre -> a_is_pad e = false -> a_is_psk e = true ->
  always_add_padding (pre ++ e :: post) = pre ++ fresh_pad :: e :: post.
Proof. exact aap_before_psk. Qed.
Print Assumptions C05_addpad_before_psk.

(* ---- non-vacuity: concrete inputs meeting the hypotheses ---- *)

Definition ex_hdr : hello_hdr :=
  {| h_vers := 771; h_random := zeros 32; h_sid := zeros 32; h_suites := [4865; 4866; 49195]; h_comp := [0] |}.
Definition ex_pre : list aext := [fixed_ext false ([0; 0; 0; 6] ++ zeros 6); fixed_ext false ([74; 74; 0; 200] ++ repeat 7 200)].
Definition ex_post : list aext := [fixed_ext false [0; 23; 0; 0]].
Definition ex_st : pad_state := {| p_len := 77; p_will := true |}.

Example C05_ex_hyps : hdr_ok ex_hdr /\ Forall aext_ok ex_pre /\ Forall aext_ok ex_post /\ nopad ex_pre /\ nopad ex_post.
Proof.
  split; [reflexivity|]. split; [repeat constructor; apply fixed_ext_ok|]. split; [repeat constructor; apply fixed_ext_ok|].
  split; repeat constructor.
Qed.

(* unpadded 301 bytes -> padded to exactly 512 with a 207-byte body *)
Example C05_ex_boring_512 :
  unpadded_len ex_hdr (ex_pre ++ APad PolBoring ex_st :: ex_post) = 301 /\
  match marshal_client_hello (fun _ => 512) ex_hdr (ex_pre ++ APad PolBoring ex_st :: ex_post) with
  | Ok raw => len raw = 512 /\ take 4 (drop 297 raw) = [0; 21; 0; 207] /\ drop 301 raw = zeros 207 ++ [0; 23; 0; 0]
  | _ => False
  end.
Proof. vm_compute. repeat split. Qed.

(* 510 bytes unpadded: the 1-byte body, 515 in all *)
Example C05_ex_one_byte :
  let pre := [fixed_ext false ([74; 74; 1; 163] ++ repeat 7 419)] in
  unpadded_len ex_hdr (pre ++ APad PolBoring ex_st :: ex_post) = 510 /\
  match marshal_client_hello (fun _ => 512) ex_hdr (pre ++ APad PolBoring ex_st :: ex_post) with
  | Ok raw => len raw = 515 /\ drop 506 raw = [0; 21; 0; 1; 0] ++ [0; 23; 0; 0]
  | _ => False
  end.
Proof. vm_compute. repeat split. Qed.

(* a capture of 5+301+4+9 bytes re-applied at the same unpadded size *)
Example C05_ex_fp :
  let es := from_raw_install 319 (ex_pre ++ APad PolBoring ex_st :: ex_post) in
  319 = 5 + (unpadded_len ex_hdr es + 4 + 9) /\
  match marshal_client_hello (fun _ => 512) ex_hdr es with Ok raw => 5 + len raw = 319 | _ => False end.
Proof. vm_compute. split; reflexivity. Qed.

(* the zeroed buffer matters: on a dirty slice the model's Read returns the dirt *)
Example C05_ex_dirty_buffer :
  pad_read {| p_len := 3; p_will := true |} (repeat 9 10) = Ok [0; 21; 0; 3; 9; 9; 9].
Proof. reflexivity. Qed.

(* AlwaysAddPadding on a fingerprinted padded capture: nothing changes; on a PSK-terminated spec: inserted before it *)
Example C05_ex_addpad :
  nopsk ex_pre /\
  always_add_padding (from_raw_install 319 (ex_pre ++ APad PolBoring ex_st :: ex_post))
    = ex_pre ++ APad (PolAlways 314) ex_st :: ex_post /\
  always_add_padding (ex_pre ++ [fixed_ext true [0; 41; 0; 0]]) = ex_pre ++ [fresh_pad; fixed_ext true [0; 41; 0; 0]].
Proof. split; [repeat constructor | split; reflexivity]. Qed.

(* two padding extensions *)
Example C05_ex_dup :
  marshal_client_hello (fun _ => 512) ex_hdr (ex_pre ++ APad PolBoring ex_st :: ex_post ++ APad PolNone ex_st :: []) = Err E_MULTI_PADDING.
Proof. reflexivity. Qed.

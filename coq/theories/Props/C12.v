(* C12 — the client rejects any server choice it did not offer on the wire.

   client_run_gen e v fl is the client's decision (Model/Negotiate.v) on an arbitrary server flight fl,
   given the view v its checks consult; synced v w says that view equals the offered sets parsed from
   the client's own wire hello w (checked on every run for every parrot by Corr/C12Corr.v, CSync).
   Every theorem: for EVERY environment, view, wire hello and server flight, if the client completes,
   the selected value was offered on the wire. Contrapositive = the property: an unoffered value makes
   the client abort (client_run returns Abort, i.e. an error before any application data).
   State of the files: they describe the tree WITH fixes/C12-tls12-unoffered-curve.diff applied
   (env_fixed); the pre-fix behaviour is kept as env_unfixed and refuted below. *)
From UV Require Import Base.Common Model.Negotiate Model.NegotiateSess Model.NegotiateKeys Model.NegotiateReport Proofs.NegotiateP Proofs.NegotiateSessP Proofs.NegotiateReportP Proofs.NegotiateKeysP.
From UV Require Model.KeyShare Model.Complete.

(* TLS 1.3 cipher suite (ServerHello and HelloRetryRequest) *)
Theorem C12_suite_tls13_core : forall e v w fl st,
  synced v w = true -> client_run_gen e v fl = Complete st -> cs_vers st = V13 ->
  cs_suite st = h_suite (f_sh fl) /\ In (cs_suite st) (w_suites w) /\ In (cs_suite st) tls13_suites
  /\ (forall h, f_hrr fl = Some h -> h_suite h = cs_suite st).
Proof. exact wire_suite13. Qed.
Print Assumptions C12_suite_tls13_core.

(* TLS <= 1.2 cipher suite: offered and an implemented TLS <= 1.2 suite ... *)
Theorem C12_suite_tls12_core : forall e v w fl st,
  synced v w = true -> client_run_gen e v fl = Complete st -> cs_vers st <> V13 ->
  cs_suite st = h_suite (first_hello fl) /\ In (cs_suite st) (w_suites w) /\ In (cs_suite st) (e_impl12 e).
Proof. exact wire_suite12. Qed.
Print Assumptions C12_suite_tls12_core.

(* ... hence never a TLS 1.3 suite in a TLS 1.2 ServerHello, even when that suite was offered for 1.3 *)
Theorem C12_no_suite_confusion : forall x, In x impl12_default -> ~ In x tls13_suites.
Proof. exact impl12_no_tls13. Qed.
Print Assumptions C12_no_suite_confusion.

(* TLS 1.3 key-exchange group: a key_share group of the hello, or - after a HelloRetryRequest naming a group -
   that group, which was in supported_groups and not among the key shares *)
Theorem C12_group_tls13_core : forall e v w fl st,
  synced v w = true -> client_run_gen e v fl = Complete st -> cs_vers st = V13 ->
  cs_group st = h_share (f_sh fl)
  /\ match f_hrr fl with
     | None => In (cs_group st) (w_shares w)
     | Some h => (h_selgroup h = 0 /\ In (cs_group st) (w_shares w))
                 \/ (h_selgroup h <> 0 /\ cs_group st = h_selgroup h
                     /\ In (cs_group st) (w_groups w) /\ ~ In (cs_group st) (w_shares w))
     end.
Proof. exact wire_group13. Qed.
Print Assumptions C12_group_tls13_core.

(* ALPN (EncryptedExtensions in 1.3, ServerHello below): none, or one the hello listed *)
Theorem C12_alpn_core : forall e v w fl st,
  synced v w = true -> client_run_gen e v fl = Complete st ->
  cs_alpn st = [] \/ In (cs_alpn st) (w_alpn w).
Proof. exact wire_alpn. Qed.
Print Assumptions C12_alpn_core.

(* compression method of every hello acted on (HRR, ServerHello): null, which the hello listed *)
Theorem C12_compression_core : forall e v w fl st,
  synced v w = true -> client_run_gen e v fl = Complete st ->
  forall h, (f_hrr fl = Some h \/ (cs_vers st = V13 /\ h = f_sh fl) \/ (cs_vers st <> V13 /\ h = first_hello fl)) ->
            h_comp h = 0 /\ In (h_comp h) (w_comps w).
Proof. exact wire_compression. Qed.
Print Assumptions C12_compression_core.

(* PSK: a selected identity indexes an identity the hello carried *)
Theorem C12_psk_identity_core : forall e v w fl st,
  synced v w = true -> client_run_gen e v fl = Complete st -> cs_vers st = V13 ->
  forall i, h_psk (f_sh fl) = Some i -> i < w_psk w.
Proof. exact wire_psk. Qed.
Print Assumptions C12_psk_identity_core.

(* certificate compression: a CompressedCertificate is only accepted with an advertised algorithm *)
Theorem C12_cert_compression_core : forall e v w fl st,
  synced v w = true -> client_run_gen e v fl = Complete st -> cs_vers st = V13 -> cs_psk st = false ->
  forall a, f_ccert fl = Some a -> In a (w_ccalgs w).
Proof. exact wire_certcomp. Qed.
Print Assumptions C12_cert_compression_core.

(* TLS 1.3 legacy session id echoed (by the HRR too) *)
Theorem C12_session_id_echo_core : forall e v w fl st,
  synced v w = true -> client_run_gen e v fl = Complete st -> cs_vers st = V13 ->
  h_sid (f_sh fl) = w_sid w /\ (forall h, f_hrr fl = Some h -> h_sid h = w_sid w).
Proof. exact wire_sessionid. Qed.
Print Assumptions C12_session_id_echo_core.

(* TLS <= 1.2 ECDHE curve of the ServerKeyExchange: in supported_groups (with the repair) *)
Theorem C12_curve_tls12_core : forall v w fl st c,
  synced v w = true -> client_run v fl = Complete st -> cs_vers st <> V13 -> f_skx fl = Some c ->
  In c (w_groups w).
Proof. exact curve12_fixed. Qed.
Print Assumptions C12_curve_tls12_core.

(* the same statement about the code before the repair is false (F-12): P-521 accepted although the hello
   listed X25519, P-256, P-384. The runner replays this flight against every parrot (kind curve12/real). *)
Theorem C12_curve_tls12_before_fix_refuted : ~ curve12_statement env_unfixed.
Proof. exact curve12_unfixed_refuted. Qed.
Print Assumptions C12_curve_tls12_before_fix_refuted.

(* resumption (Model/NegotiateSess.v): the hello offers a TLS <= 1.2 session - from the cache or injected with
   SetSessionState - and the server resumes it or not: the suite of a completed handshake was on the wire, and a
   resumed session is resumed with its own version/suite only *)
Theorem C12_suite_with_session_core : forall e v w sess ems fl st,
  synced v w = true -> client_run_sess e v sess ems fl = Complete st -> In (cs_suite st) (w_suites w).
Proof. exact wire_suite_sess. Qed.
Print Assumptions C12_suite_with_session_core.

Theorem C12_resumed_session_suite : forall e v vers h fl s ems st,
  resumes v (Some s) h = true -> run12_sess e v vers h fl (Some s) ems = Complete st ->
  s_vers s = vers /\ s_suite s = cs_suite st /\ In (cs_suite st) (cv_suites v) /\ s_ems s = ems.
Proof. exact run12_sess_resumed. Qed.
Print Assumptions C12_resumed_session_suite.

(* ======== the statements over the decision function of the CURRENT tree ========
   The _core theorems above hold for every view. Since the C18 repair establishHandshakeKeys picks the private key by the
   server share's group (any retained classical key, not only the first): the client's decision is
   Complete.client_run10 fixed e v ks fl (Model/Complete.v; ks = curves of the retained keys, fixed = the tree has the
   repair), which is client_run_gen on the view whose cv_ecdhe is the curve of that key. This is the function the
   correspondence compares the Go client with (Corr/C12Corr.v). Same conclusions: *)
Theorem C12_suite_tls13 : forall fixed e v ks w fl st,
  synced v w = true -> Complete.client_run10 fixed e v ks fl = Complete st -> cs_vers st = V13 ->
  cs_suite st = h_suite (f_sh fl) /\ In (cs_suite st) (w_suites w) /\ In (cs_suite st) tls13_suites
  /\ (forall h, f_hrr fl = Some h -> h_suite h = cs_suite st).
Proof. exact wire10_suite13. Qed.
Print Assumptions C12_suite_tls13.

Theorem C12_suite_tls12 : forall fixed e v ks w fl st,
  synced v w = true -> Complete.client_run10 fixed e v ks fl = Complete st -> cs_vers st <> V13 ->
  cs_suite st = h_suite (first_hello fl) /\ In (cs_suite st) (w_suites w) /\ In (cs_suite st) (e_impl12 e).
Proof. exact wire10_suite12. Qed.
Print Assumptions C12_suite_tls12.

Theorem C12_group_tls13 : forall fixed e v ks w fl st,
  synced v w = true -> Complete.client_run10 fixed e v ks fl = Complete st -> cs_vers st = V13 ->
  cs_group st = h_share (f_sh fl)
  /\ match f_hrr fl with
     | None => In (cs_group st) (w_shares w)
     | Some h => (h_selgroup h = 0 /\ In (cs_group st) (w_shares w))
                 \/ (h_selgroup h <> 0 /\ cs_group st = h_selgroup h
                     /\ In (cs_group st) (w_groups w) /\ ~ In (cs_group st) (w_shares w))
     end.
Proof. exact wire10_group13. Qed.
Print Assumptions C12_group_tls13.

Theorem C12_alpn : forall fixed e v ks w fl st,
  synced v w = true -> Complete.client_run10 fixed e v ks fl = Complete st ->
  cs_alpn st = [] \/ In (cs_alpn st) (w_alpn w).
Proof. exact wire10_alpn. Qed.
Print Assumptions C12_alpn.

Theorem C12_compression : forall fixed e v ks w fl st,
  synced v w = true -> Complete.client_run10 fixed e v ks fl = Complete st ->
  forall h, (f_hrr fl = Some h \/ (cs_vers st = V13 /\ h = f_sh fl) \/ (cs_vers st <> V13 /\ h = first_hello fl)) ->
            h_comp h = 0 /\ In (h_comp h) (w_comps w).
Proof. exact wire10_compression. Qed.
Print Assumptions C12_compression.

Theorem C12_psk_identity : forall fixed e v ks w fl st,
  synced v w = true -> Complete.client_run10 fixed e v ks fl = Complete st -> cs_vers st = V13 ->
  forall i, h_psk (f_sh fl) = Some i -> i < w_psk w.
Proof. exact wire10_psk. Qed.
Print Assumptions C12_psk_identity.

Theorem C12_cert_compression : forall fixed e v ks w fl st,
  synced v w = true -> Complete.client_run10 fixed e v ks fl = Complete st -> cs_vers st = V13 -> cs_psk st = false ->
  forall a, f_ccert fl = Some a -> In a (w_ccalgs w).
Proof. exact wire10_certcomp. Qed.
Print Assumptions C12_cert_compression.

Theorem C12_session_id_echo : forall fixed e v ks w fl st,
  synced v w = true -> Complete.client_run10 fixed e v ks fl = Complete st -> cs_vers st = V13 ->
  h_sid (f_sh fl) = w_sid w /\ (forall h, f_hrr fl = Some h -> h_sid h = w_sid w).
Proof. exact wire10_sessionid. Qed.
Print Assumptions C12_session_id_echo.

Theorem C12_curve_tls12 : forall fixed v ks w fl st c,
  synced v w = true -> Complete.client_run10 fixed env_fixed v ks fl = Complete st -> cs_vers st <> V13 ->
  f_skx fl = Some c -> In c (w_groups w).
Proof. exact curve12_fixed10. Qed.
Print Assumptions C12_curve_tls12.

Theorem C12_suite_with_session : forall fixed e v ks w sess ems fl st,
  synced v w = true -> client_run_sess10 fixed e v ks sess ems fl = Complete st -> In (cs_suite st) (w_suites w).
Proof. exact wire10_suite_sess. Qed.
Print Assumptions C12_suite_with_session.

(* what the repair changed: the second offered key share (Firefox-type hello, shares X25519 and P-256, server selects P-256)
   completes with it, aborted ("invalid server key share") before - in both cases on an OFFERED group *)
Example C12_ex_second_share :
  Complete.client_run10 true env_fixed ff_view (KeyShare.mkShape 29 [23] false 0) ff_flight
  = Complete (mkState 772 4865 23 [] false false)
  /\ Complete.client_run10 false env_fixed ff_view (KeyShare.mkShape 29 [] false 0) ff_flight = Abort a_illegal_parameter
  /\ client_run ff_view ff_flight = Abort a_illegal_parameter.
Proof. exact second_share_after_c18. Qed.

(* "The client never reports such an unoffered value in ConnectionState" - ALSO after an aborted handshake.
   report_gen (Model/NegotiateReport.v) = the cipher suite, key-exchange group and ALPN protocol the Conn holds when the handshake
   stops, completed or not (each is assigned right after its check passed; 0 / [] = never assigned). Whatever the server sent: *)
Theorem C12_reported_values_offered : forall fixed e v ks w fl,
  e_fix_curve12 e = true -> synced v w = true ->
  let r := report_gen e (eff_view fixed v ks fl) fl in
  (cs_suite r = 0 \/ In (cs_suite r) (w_suites w))
  /\ (cs_group r = 0 \/ In (cs_group r) (w_shares w) \/ In (cs_group r) (w_groups w))
  /\ (cs_alpn r = [] \/ In (cs_alpn r) (w_alpn w)).
Proof. exact report10_offered_wire. Qed.
Print Assumptions C12_reported_values_offered.

(* and a completed handshake reports exactly the state it completed with *)
Theorem C12_report_of_completed : forall fixed e v ks fl st,
  Complete.client_run10 fixed e v ks fl = Complete st ->
  let r := report_gen e (eff_view fixed v ks fl) fl in
  cs_suite r = cs_suite st /\ cs_group r = cs_group st /\ cs_alpn r = cs_alpn st.
Proof. exact report10_of_complete. Qed.
Print Assumptions C12_report_of_completed.

Example C12_ex_report_after_abort :
  (* EncryptedExtensions ALPN "h3" not offered: abort, suite and group reported (they passed), no protocol *)
  client_run f12_view (mkFlight None (mkHello 771 772 0 [1; 2; 3] 4865 0 29 0 false None []) [104; 51] None None true)
  = Abort a_no_application_protocol /\
  report_gen env_fixed f12_view (mkFlight None (mkHello 771 772 0 [1; 2; 3] 4865 0 29 0 false None []) [104; 51] None None true)
  = rep 4865 29 [] /\
  (* unoffered group: nothing but the suite *)
  report_gen env_fixed f12_view (mkFlight None (mkHello 771 772 0 [1; 2; 3] 4865 0 25 0 false None []) [] None None true)
  = rep 4865 0 [].
Proof. vm_compute. repeat split; reflexivity. Qed.

(* ---- every hypothesis is satisfiable by concrete non-trivial inputs ---- *)
Example C12_ex_complete13 :
  synced f12_view f12_wire = true /\
  client_run f12_view (mkFlight None (mkHello 771 772 0 [1; 2; 3] 4865 0 29 0 false None []) [104; 50] (Some 2) None true)
  = Complete (mkState 772 4865 29 [104; 50] false false).
Proof. vm_compute. split; reflexivity. Qed.

Example C12_ex_complete_after_hrr :
  client_run f12_view (mkFlight (Some (mkHello 771 772 0 [1; 2; 3] 4865 0 0 23 false None []))
                                (mkHello 771 772 0 [1; 2; 3] 4865 0 23 0 false None []) [] None None true)
  = Complete (mkState 772 4865 23 [] true false).
Proof. vm_compute. reflexivity. Qed.

Example C12_ex_complete12 :
  client_run f12_view (mkFlight None (mkHello 771 0 0 [9] 49199 0 0 0 false None [104; 50]) [] None (Some 24) true)
  = Complete (mkState 771 49199 24 [104; 50] false false).
Proof. vm_compute. reflexivity. Qed.

Example C12_ex_unoffered_abort :
  client_run f12_view f12_flight = Abort a_illegal_parameter /\
  client_run_gen env_unfixed f12_view f12_flight = Complete (mkState 771 49199 25 [] false false) /\
  client_run f12_view (mkFlight None (mkHello 771 0 0 [9] 4865 0 0 0 false None []) [] None (Some 29) true)
  = Abort a_handshake_failure /\
  client_run f12_view (mkFlight None (mkHello 771 772 0 [1; 2; 3] 4865 0 25 0 false None []) [] None None true)
  = Abort a_illegal_parameter /\
  client_run f12_view (mkFlight None (mkHello 771 772 0 [1; 2; 3] 4865 0 29 0 false None []) [] (Some 1) None true)
  = Abort a_bad_certificate.
Proof. vm_compute. repeat split; reflexivity. Qed.

Example C12_ex_resumption_unoffered_suite :
  (* a session with suite 0xc009, which f12_view does not list, is offered (SetSessionState) and the server resumes it *)
  client_run_sess env_fixed f12_view (Some (mkSess 771 49161 true)) true
    (mkFlight None (mkHello 771 0 0 [1; 2; 3] 49161 0 0 0 false None []) [] None None true) = Abort a_handshake_failure /\
  (* with a listed suite the resumption completes *)
  client_run_sess env_fixed f12_view (Some (mkSess 771 49199 true)) true
    (mkFlight None (mkHello 771 0 0 [1; 2; 3] 49199 0 0 0 false None []) [] None None true)
  = Complete (mkState 771 49199 0 [] false false).
Proof. vm_compute. split; reflexivity. Qed.

Example C12_ex_after_hrr :
  (* well-formed HRR, then a ServerHello that does not echo the session id / names another suite *)
  client_run f12_view (mkFlight (Some (mkHello 771 772 0 [1; 2; 3] 4865 0 0 23 false None []))
                                (mkHello 771 772 0 [1; 2; 4] 4865 0 23 0 false None []) [] None None true)
  = Abort a_illegal_parameter /\
  client_run f12_view (mkFlight (Some (mkHello 771 772 0 [1; 2; 3] 4865 0 0 23 false None []))
                                (mkHello 771 772 0 [1; 2; 3] 4865 1 23 0 false None []) [] None None true)
  = Abort a_illegal_parameter.
Proof. vm_compute. split; reflexivity. Qed.

(* ======================================================================================================
   Composition with the marshal model (Model/WriteToUConn.v, Proofs/ComposeP.v, Proofs/ComposeW.v): the premise
   [synced v w] of the theorems above, so far evaluated per run (CSync), is a THEOREM for the view that
   UConn.ApplyConfig builds and the bytes MarshalClientHelloNoECH emits from the same header fields and
   extension list.

     s            the UConn before ApplyConfig: header fields WriteToUConn.us_hdr s, Config.MinVersion/MaxVersion,
                  whatever earlier calls left in the Hello fields (ANY state)
     es           uconn.Extensions (Model/Ext.v values), inside the precondition of C02 (ChMarshal.wf_specb: each
                  type at most once, wire limits, RFC minimum sizes, pre_shared_key last)
     apply_config UConn.ApplyConfig (clears ServerName / AlpnProtocols / SupportedCurves / KeyShares /
                  certCompressionAlgs, folds writeToUConn over es, recomputes SupportedVersions when no
                  SupportedVersionsExtension is present); finish load = + setPskToUConn when a session was loaded
     view_of      the client_view of that state (what hooks/verif_c12.go reads)
     wire_of raw  the wire_view of the marshalled bytes, through the strict parser of C02 (Model/Strict.v)
   Remaining premises (each discussed in notes/Compose.md):
     typed_ext    supported_groups, ALPN, compress_certificate, pre_shared_key, supported_versions and key_share
                  are sent through their typed extension, not through a GenericExtension / UtlsGREASEExtension
                  carrying the same extension_type (those have an empty writeToUConn)
     memN 0 comp  the hello lists the null compression method (ApplyPreset always writes [0]: C03_compression_fixed)
     psk_agree    len(Hello.PskIdentities) = number of identities the pre_shared_key extension serialises; NOT a
                  consequence of ApplyConfig (C12_psk_agree_* give the two situations where it holds;
                  C12_ex_fake_psk_view_smaller the one where it does not, in the harmless direction)
   ====================================================================================================== *)
From UV Require Model.Ext Model.Marshal Model.ChMarshal Model.WriteToUConn Proofs.ComposeP Proofs.ComposeW.

Theorem C12_view_is_wire : forall env bbs padto s es raw s' load ecdhe mlkem sess,
  ChMarshal.wf_specb (WriteToUConn.us_hdr s) es = true ->
  forallb WriteToUConn.typed_ext es = true ->
  ChMarshal.marshal_hello bbs padto (WriteToUConn.us_hdr s) es = Ok raw ->
  WriteToUConn.apply_config env (ChMarshal.marshal_hello bbs padto (WriteToUConn.us_hdr s) es) s es = Ok s' ->
  memN 0 (Marshal.h_comp (WriteToUConn.us_hdr s)) = true ->
  WriteToUConn.psk_agree (WriteToUConn.finish load es s') es = true ->
  exists w, WriteToUConn.wire_of raw = Some w
            /\ synced (WriteToUConn.view_of (WriteToUConn.finish load es s') es ecdhe mlkem sess) w = true.
Proof. exact ComposeP.compose_synced. Qed.
Print Assumptions C12_view_is_wire.

(* for every header and extension list: if the hello marshals to raw and the client completes against a flight at
   TLS 1.3, the accepted suite was on the wire raw *)
Theorem C12_suite_tls13_from_spec : forall env bbs padto s es raw s' load ecdhe mlkem sess,
  ChMarshal.wf_specb (WriteToUConn.us_hdr s) es = true ->
  forallb WriteToUConn.typed_ext es = true ->
  ChMarshal.marshal_hello bbs padto (WriteToUConn.us_hdr s) es = Ok raw ->
  WriteToUConn.apply_config env (ChMarshal.marshal_hello bbs padto (WriteToUConn.us_hdr s) es) s es = Ok s' ->
  memN 0 (Marshal.h_comp (WriteToUConn.us_hdr s)) = true ->
  WriteToUConn.psk_agree (WriteToUConn.finish load es s') es = true ->
  forall e fl st,
  client_run_gen e (WriteToUConn.view_of (WriteToUConn.finish load es s') es ecdhe mlkem sess) fl = Complete st ->
  cs_vers st = V13 ->
  exists w, WriteToUConn.wire_of raw = Some w /\
    (cs_suite st = h_suite (f_sh fl) /\ In (cs_suite st) (w_suites w) /\ In (cs_suite st) tls13_suites
     /\ (forall h, f_hrr fl = Some h -> h_suite h = cs_suite st)).
Proof. exact ComposeP.c12_suite13. Qed.
Print Assumptions C12_suite_tls13_from_spec.

Theorem C12_suite_tls12_from_spec : forall env bbs padto s es raw s' load ecdhe mlkem sess,
  ChMarshal.wf_specb (WriteToUConn.us_hdr s) es = true ->
  forallb WriteToUConn.typed_ext es = true ->
  ChMarshal.marshal_hello bbs padto (WriteToUConn.us_hdr s) es = Ok raw ->
  WriteToUConn.apply_config env (ChMarshal.marshal_hello bbs padto (WriteToUConn.us_hdr s) es) s es = Ok s' ->
  memN 0 (Marshal.h_comp (WriteToUConn.us_hdr s)) = true ->
  WriteToUConn.psk_agree (WriteToUConn.finish load es s') es = true ->
  forall e fl st,
  client_run_gen e (WriteToUConn.view_of (WriteToUConn.finish load es s') es ecdhe mlkem sess) fl = Complete st ->
  cs_vers st <> V13 ->
  exists w, WriteToUConn.wire_of raw = Some w /\
    (cs_suite st = h_suite (first_hello fl) /\ In (cs_suite st) (w_suites w) /\ In (cs_suite st) (e_impl12 e)).
Proof. exact ComposeP.c12_suite12. Qed.
Print Assumptions C12_suite_tls12_from_spec.

Theorem C12_group_tls13_from_spec : forall env bbs padto s es raw s' load ecdhe mlkem sess,
  ChMarshal.wf_specb (WriteToUConn.us_hdr s) es = true ->
  forallb WriteToUConn.typed_ext es = true ->
  ChMarshal.marshal_hello bbs padto (WriteToUConn.us_hdr s) es = Ok raw ->
  WriteToUConn.apply_config env (ChMarshal.marshal_hello bbs padto (WriteToUConn.us_hdr s) es) s es = Ok s' ->
  memN 0 (Marshal.h_comp (WriteToUConn.us_hdr s)) = true ->
  WriteToUConn.psk_agree (WriteToUConn.finish load es s') es = true ->
  forall e fl st,
  client_run_gen e (WriteToUConn.view_of (WriteToUConn.finish load es s') es ecdhe mlkem sess) fl = Complete st ->
  cs_vers st = V13 ->
  exists w, WriteToUConn.wire_of raw = Some w /\
    (cs_group st = h_share (f_sh fl)
     /\ match f_hrr fl with
        | None => In (cs_group st) (w_shares w)
        | Some h => (h_selgroup h = 0 /\ In (cs_group st) (w_shares w))
                    \/ (h_selgroup h <> 0 /\ cs_group st = h_selgroup h
                        /\ In (cs_group st) (w_groups w) /\ ~ In (cs_group st) (w_shares w))
        end).
Proof. exact ComposeP.c12_group13. Qed.
Print Assumptions C12_group_tls13_from_spec.

Theorem C12_alpn_from_spec : forall env bbs padto s es raw s' load ecdhe mlkem sess,
  ChMarshal.wf_specb (WriteToUConn.us_hdr s) es = true ->
  forallb WriteToUConn.typed_ext es = true ->
  ChMarshal.marshal_hello bbs padto (WriteToUConn.us_hdr s) es = Ok raw ->
  WriteToUConn.apply_config env (ChMarshal.marshal_hello bbs padto (WriteToUConn.us_hdr s) es) s es = Ok s' ->
  memN 0 (Marshal.h_comp (WriteToUConn.us_hdr s)) = true ->
  WriteToUConn.psk_agree (WriteToUConn.finish load es s') es = true ->
  forall e fl st,
  client_run_gen e (WriteToUConn.view_of (WriteToUConn.finish load es s') es ecdhe mlkem sess) fl = Complete st ->
  exists w, WriteToUConn.wire_of raw = Some w /\ (cs_alpn st = [] \/ In (cs_alpn st) (w_alpn w)).
Proof. exact ComposeP.c12_alpn. Qed.
Print Assumptions C12_alpn_from_spec.

Theorem C12_psk_identity_from_spec : forall env bbs padto s es raw s' load ecdhe mlkem sess,
  ChMarshal.wf_specb (WriteToUConn.us_hdr s) es = true ->
  forallb WriteToUConn.typed_ext es = true ->
  ChMarshal.marshal_hello bbs padto (WriteToUConn.us_hdr s) es = Ok raw ->
  WriteToUConn.apply_config env (ChMarshal.marshal_hello bbs padto (WriteToUConn.us_hdr s) es) s es = Ok s' ->
  memN 0 (Marshal.h_comp (WriteToUConn.us_hdr s)) = true ->
  WriteToUConn.psk_agree (WriteToUConn.finish load es s') es = true ->
  forall e fl st,
  client_run_gen e (WriteToUConn.view_of (WriteToUConn.finish load es s') es ecdhe mlkem sess) fl = Complete st ->
  cs_vers st = V13 ->
  exists w, WriteToUConn.wire_of raw = Some w /\ (forall i, h_psk (f_sh fl) = Some i -> i < w_psk w).
Proof. exact ComposeP.c12_psk. Qed.
Print Assumptions C12_psk_identity_from_spec.

Theorem C12_cert_compression_from_spec : forall env bbs padto s es raw s' load ecdhe mlkem sess,
  ChMarshal.wf_specb (WriteToUConn.us_hdr s) es = true ->
  forallb WriteToUConn.typed_ext es = true ->
  ChMarshal.marshal_hello bbs padto (WriteToUConn.us_hdr s) es = Ok raw ->
  WriteToUConn.apply_config env (ChMarshal.marshal_hello bbs padto (WriteToUConn.us_hdr s) es) s es = Ok s' ->
  memN 0 (Marshal.h_comp (WriteToUConn.us_hdr s)) = true ->
  WriteToUConn.psk_agree (WriteToUConn.finish load es s') es = true ->
  forall e fl st,
  client_run_gen e (WriteToUConn.view_of (WriteToUConn.finish load es s') es ecdhe mlkem sess) fl = Complete st ->
  cs_vers st = V13 -> cs_psk st = false ->
  exists w, WriteToUConn.wire_of raw = Some w /\ (forall a, f_ccert fl = Some a -> In a (w_ccalgs w)).
Proof. exact ComposeP.c12_certcomp. Qed.
Print Assumptions C12_cert_compression_from_spec.

Theorem C12_session_id_echo_from_spec : forall env bbs padto s es raw s' load ecdhe mlkem sess,
  ChMarshal.wf_specb (WriteToUConn.us_hdr s) es = true ->
  forallb WriteToUConn.typed_ext es = true ->
  ChMarshal.marshal_hello bbs padto (WriteToUConn.us_hdr s) es = Ok raw ->
  WriteToUConn.apply_config env (ChMarshal.marshal_hello bbs padto (WriteToUConn.us_hdr s) es) s es = Ok s' ->
  memN 0 (Marshal.h_comp (WriteToUConn.us_hdr s)) = true ->
  WriteToUConn.psk_agree (WriteToUConn.finish load es s') es = true ->
  forall e fl st,
  client_run_gen e (WriteToUConn.view_of (WriteToUConn.finish load es s') es ecdhe mlkem sess) fl = Complete st ->
  cs_vers st = V13 ->
  exists w, WriteToUConn.wire_of raw = Some w /\
    (h_sid (f_sh fl) = w_sid w /\ (forall h, f_hrr fl = Some h -> h_sid h = w_sid w)).
Proof. exact ComposeP.c12_sessionid. Qed.
Print Assumptions C12_session_id_echo_from_spec.

Theorem C12_curve_tls12_from_spec : forall env bbs padto s es raw s' load ecdhe mlkem sess,
  ChMarshal.wf_specb (WriteToUConn.us_hdr s) es = true ->
  forallb WriteToUConn.typed_ext es = true ->
  ChMarshal.marshal_hello bbs padto (WriteToUConn.us_hdr s) es = Ok raw ->
  WriteToUConn.apply_config env (ChMarshal.marshal_hello bbs padto (WriteToUConn.us_hdr s) es) s es = Ok s' ->
  memN 0 (Marshal.h_comp (WriteToUConn.us_hdr s)) = true ->
  WriteToUConn.psk_agree (WriteToUConn.finish load es s') es = true ->
  forall fl st c,
  client_run (WriteToUConn.view_of (WriteToUConn.finish load es s') es ecdhe mlkem sess) fl = Complete st ->
  cs_vers st <> V13 -> f_skx fl = Some c ->
  exists w, WriteToUConn.wire_of raw = Some w /\ In c (w_groups w).
Proof. exact ComposeP.c12_curve12. Qed.
Print Assumptions C12_curve_tls12_from_spec.

(* the pre_shared_key premise holds when no session is in play (fresh hello, no cached session, the extension - if any -
   serialises nothing: UtlsPreSharedKeyExtension without session under OmitEmptyPsk) ... *)
Theorem C12_psk_agree_no_session : forall env marsh s es s',
  WriteToUConn.apply_config env marsh s es = Ok s' -> WriteToUConn.we_cache_session env = false ->
  WriteToUConn.us_psk_ids s = [] -> WriteToUConn.psk_sent es = 0 ->
  WriteToUConn.psk_agree (WriteToUConn.finish false es s') es = true.
Proof. exact ComposeW.psk_agree_no_session. Qed.
Print Assumptions C12_psk_agree_no_session.

(* ... and when a session was loaded into an extension that serialises its identities (setPskToUConn) *)
Theorem C12_psk_agree_loaded : forall es s e,
  find ChMarshal.is_psk_ext es = Some e -> ExtSpec.ext_absent e = false ->
  WriteToUConn.psk_agree (WriteToUConn.finish true es s) es = true.
Proof. exact ComposeW.psk_agree_loaded. Qed.
Print Assumptions C12_psk_agree_loaded.

(* for a spec: the compression premise is discharged by ApplyPreset itself *)
Theorem C12_view_is_wire_preset : forall sp c fr h es mn mx env bbs padto raw s' load ecdhe mlkem sess,
  Preset.apply_preset sp c fr = Ok (h, es) ->
  ChMarshal.wf_specb h es = true -> forallb WriteToUConn.typed_ext es = true ->
  ChMarshal.marshal_hello bbs padto h es = Ok raw ->
  WriteToUConn.apply_config env (ChMarshal.marshal_hello bbs padto h es) (ComposeW.preset_state h mn mx) es = Ok s' ->
  WriteToUConn.psk_agree (WriteToUConn.finish load es s') es = true ->
  exists w, WriteToUConn.wire_of raw = Some w
            /\ synced (WriteToUConn.view_of (WriteToUConn.finish load es s') es ecdhe mlkem sess) w = true.
Proof. exact ComposeW.synced_preset. Qed.
Print Assumptions C12_view_is_wire_preset.

(* ---- non-vacuity ---- *)
(* Chrome_133 from the regenerated table with concrete randomness: ApplyPreset, marshal (1.7 kB with Boring padding and
   GREASE ECH), ApplyConfig, strict parse: every premise above holds, view = wire, the client completes a TLS 1.3
   handshake on X25519 / 0x1301 / h2 with a brotli-compressed certificate *)
Example C12_ex_chrome133_composed : ComposeW.ex_chrome133 = true.
Proof. vm_compute. reflexivity. Qed.

(* FakePreSharedKeyExtension without a cached session: one identity on the wire, none in Hello.PskIdentities (observed on
   the real code as well: notes/Compose.md). psk_agree is false; the client then refuses every selected identity. *)
Example C12_ex_fake_psk_view_smaller :
  let es := [Ext.EFakePreSharedKey true [([1; 2; 3], 7)] [repeat 0 32]] in
  let h := {| Marshal.h_vers := 771; Marshal.h_random := repeat 1 32; Marshal.h_sid := []; Marshal.h_suites := [4865]; Marshal.h_comp := [0] |} in
  let s := WriteToUConn.mkUS h [] false [] [] false [] false false [] false [771] [] [] [] [] false [] false [] [] 0 771 771 false in
  match WriteToUConn.apply_config (WriteToUConn.mkEnvW false) (Ok []) s es with
  | Ok s' => WriteToUConn.psk_agree s' es = false /\ WriteToUConn.us_psk_ids s' = [] /\ WriteToUConn.psk_sent es = 1
  | _ => False
  end.
Proof. exact ComposeW.psk_disagree_fake. Qed.

(* for every shipped parrot (Gen/Parrots.v), every rearrangement the shuffle can produce, every Config with an SNI name of
   at most 255 bytes and OmitEmptyPsk, every randomness: no premise on ApplyPreset's output left (Model/PresetOk.v,
   Proofs/PresetOkC.v; reading guide at the end of Props/C02.v) *)
From UV Require Model.PresetOk Model.Shuffle Model.ParrotSpec Gen.Parrots Proofs.PresetOkC.
Theorem C12_view_is_wire_from_parrot : forall p swaps exts', In p Parrots.all ->
  Shuffle.shuffle ParrotSpec.fixedb swaps (Preset.sp_exts (Preset.p_spec p)) = Ok exts' ->
  forall c fr h es, PresetOkC.parrot_class c ->
  Preset.apply_preset (PresetOk.with_exts (Preset.p_spec p) exts') c fr = Ok (h, es) ->
  forall mn mx env bbs padto raw s' load ecdhe mlkem sess,
  ChMarshal.marshal_hello bbs padto h es = Ok raw ->
  WriteToUConn.apply_config env (ChMarshal.marshal_hello bbs padto h es) (ComposeW.preset_state h mn mx) es = Ok s' ->
  WriteToUConn.psk_agree (WriteToUConn.finish load es s') es = true ->
  exists w, WriteToUConn.wire_of raw = Some w
            /\ synced (WriteToUConn.view_of (WriteToUConn.finish load es s') es ecdhe mlkem sess) w = true.
Proof. exact PresetOkC.parrot_synced. Qed.
Print Assumptions C12_view_is_wire_from_parrot.

(* Imported LAST and only so that the driver's closure scan (lib/vcheck.py follows "Require Import" lines) covers the
   composition files; nothing follows, so no name of this file is shadowed. *)
From UV Require Import Model.WriteToUConn Proofs.ComposeP Proofs.ComposeW.
From UV Require Import Model.PresetOk Proofs.PresetOkP Proofs.PresetOkS Proofs.PresetOkT Proofs.PresetOkC.

(* C02 — Every ClientHello utls emits is syntactically valid TLS.
   Property theorems only; each closed by a lemma of Proofs/ChMarshalP.v / Proofs/StrictP.v.

   STATE OF THE FILES: the model describes the code WITH fixes/C02-clienthello-length-fields.diff
   (a check in MarshalClientHelloNoECH that the session id, cipher suite, compression method and
   extension block lengths fit their length fields).  Without that check the full statement is
   FALSE — C02_without_check_refuted below keeps the witness (DESIGN F-02b), which the runner
   replays on the real code on every run (corpus/ext-block-2x40000).

   Reading guide.
     marshal_hello bbs padto h es   UConn.MarshalClientHelloNoECH (fixed) on header fields h and the extension
                                    objects es (Model/Ext.v), each marshalled through its own Len()/Read();
                                    bbs: spare capacity of bytes.Buffer (any function), padto: the argument of
                                    AlwaysPadToLen if that is the padding functor
     marshal_hello_unchecked        the same function as it was
     wf_specb h es                  the precondition of the property: 32-byte random, session id <= 32, at least
                                    one cipher suite / compression method, every extension within its wire limits
                                    (wf_ext) and RFC minimum sizes (rfc_ok), extension types pairwise distinct,
                                    pre_shared_key only last
     valid_ch raw                   the strict grammar of Model/Strict.v (RFC 8446 s4.1.2 + per-extension
                                    grammars) accepts raw, no extension type repeats, pre_shared_key is last
     hello_layout a                 the message written with length-prefix combinators (a prefix IS the length
                                    of what follows it) *)
From UV Require Import Base.Common Model.Wire Model.Varint Model.Ext Model.ExtSpec Model.Strict.
From UV Require Import Proofs.WireP Proofs.ExtP Proofs.StrictP.
From UV Require Import Model.Padding Model.Marshal Model.ChMarshal Proofs.MarshalP Proofs.ChMarshalP.

(* The property: inside the precondition the function returns a valid ClientHello or an error —
   it never panics and never returns malformed bytes.  For every header, extension list, padding
   policy and bytes.Buffer behaviour. *)
Theorem C02_valid_or_error : forall bbs padto h es, wf_specb h es = true ->
  match marshal_hello bbs padto h es with
  | Ok raw => valid_ch raw
  | Err _ => True
  | Panic _ => False
  end.
Proof. exact valid_or_error. Qed.
Print Assumptions C02_valid_or_error.

(* ... and the error is returned ONLY for totals beyond the length fields: when they fit
   (spec_fitsb, decidable from the spec without producing bytes) the result is a valid hello. *)
Theorem C02_encodes_when_fits : forall bbs padto h es, wf_specb h es = true -> spec_fitsb padto h es = true ->
  exists raw, marshal_hello bbs padto h es = Ok raw /\ valid_ch raw.
Proof. exact encodes_when_fits. Qed.
Print Assumptions C02_encodes_when_fits.

(* What is emitted, exactly: the combinator layout of the header fields and of the extensions that
   write anything, in spec order (a subsequence of the spec's extension types containing every
   non-padding extension that writes anything, with its RFC body). *)
Theorem C02_emits_layout : forall bbs padto h es p, wf_specb h es = true ->
  marshal_prepare h (map (to_aext padto) es) = Ok p -> fits h p = true ->
  exists present,
    marshal_hello bbs padto h es =
      Ok (hello_layout {| c_vers := h_vers h; c_random := h_random h; c_sid := h_sid h; c_suites := h_suites h;
                          c_comp := h_comp h; c_has_exts := nonempty es; c_exts := present |})
    /\ subseq (map fst present) (map ext_id es)
    /\ ast_ok {| c_vers := h_vers h; c_random := h_random h; c_sid := h_sid h; c_suites := h_suites h;
                 c_comp := h_comp h; c_has_exts := nonempty es; c_exts := present |}
    /\ (forall e, In e es -> is_padding e = false -> ext_absent e = false -> In (ext_id e, ext_body e) present).
Proof. exact marshal_hello_ok. Qed.
Print Assumptions C02_emits_layout.

(* A spec that cannot be encoded gives an error, not garbage — for ANY header and extension list
   (no precondition): totals beyond a length field ... *)
Theorem C02_error_not_garbage : forall bbs padto h es, spec_fitsb padto h es = false ->
  exists c, marshal_hello bbs padto h es = Err c.
Proof. exact too_large_is_error. Qed.
Print Assumptions C02_error_not_garbage.

(* ... two padding extensions ... *)
Theorem C02_two_paddings_error : forall bbs padto h a l1 w1 p1 b l2 w2 p2 c,
  marshal_hello bbs padto h (a ++ EPadding l1 w1 p1 :: b ++ EPadding l2 w2 p2 :: c) = Err E_MULTI_PADDING.
Proof. exact two_paddings_error. Qed.
Print Assumptions C02_two_paddings_error.

(* ... and whatever is returned as Ok has the announced handshake length, which fits its uint24. *)
Theorem C02_ok_has_length : forall bbs padto h es raw, marshal_hello bbs padto h es = Ok raw ->
  exists p, marshal_prepare h (map (to_aext padto) es) = Ok p /\ fits h p = true /\ len raw = 4 + pr_hello_len p.
Proof. exact ok_has_length. Qed.
Theorem C02_uint24_never_overflows : forall padto h es p,
  marshal_prepare h (map (to_aext padto) es) = Ok p -> fits h p = true -> pr_hello_len p < 16777216.
Proof. exact fits_hello_len. Qed.
Print Assumptions C02_uint24_never_overflows.

(* Inside the precondition the length computation itself never fails (at most one padding extension). *)
Theorem C02_prepare_succeeds : forall padto h es, wf_specb h es = true ->
  exists p, marshal_prepare h (map (to_aext padto) es) = Ok p.
Proof. exact prepare_of_wf. Qed.

(* ---- the oracle is trustworthy ---- *)

(* Soundness: whatever strict_parse accepts IS the combinator layout of the fields it returns — every
   length prefix (uint24 handshake length, session id, cipher suites, compression methods, extension
   block, each extension) is the length of what it precedes, nothing trails — and the fields are within
   the RFC 8446 s4.1.2 bounds with every extension body in the grammar of its type. *)
Theorem C02_strict_sound : forall raw a, bytes_ok raw -> strict_parse raw = Some a ->
  raw = hello_layout a /\ ast_ok a.
Proof. exact strict_parse_sound. Qed.
Print Assumptions C02_strict_sound.

(* Completeness on layouts: the parser is not vacuous. *)
Theorem C02_strict_complete : forall a, ast_ok a -> strict_parse (hello_layout a) = Some a.
Proof. exact strict_parse_layout. Qed.
Print Assumptions C02_strict_complete.

(* The runner's boolean oracle decides valid_ch. *)
Theorem C02_oracle_decides : forall b, valid_chb b = true <-> valid_ch b.
Proof. exact valid_chb_spec. Qed.

(* Every built-in extension type's RFC layout is in the strict grammar of its extension_type
   (31 constructors), given field values within the RFC limits. *)
Theorem C02_body_in_grammar : forall e, wf_ext e = true -> rfc_ok e = true -> ext_absent e = false ->
  body_okb (ext_id e) (ext_body e) = true.
Proof. exact body_ok_ext. Qed.
Print Assumptions C02_body_in_grammar.

(* ---- the defect the check found (DESIGN F-02b), kept as a theorem about the UNFIXED function ---- *)

Definition C02_witness_hdr : hello_hdr :=
  {| h_vers := 771; h_random := repeat 7 32; h_sid := repeat 9 32; h_suites := [4865; 49199]; h_comp := [0] |}.
(* two GenericExtensions of 40000 bytes each: each within its own uint16 limit, the block is 80008 bytes *)
Definition C02_witness_exts : list ext :=
  [EGeneric 4660 (repeat 170 (N.to_nat 40000)); EGeneric 4661 (repeat 187 (N.to_nat 40000))].

Definition C02_valid_or_error_without_check : Prop :=
  forall bbs padto h es, wf_specb h es = true ->
  match marshal_hello_unchecked bbs padto h es with
  | Ok raw => valid_ch raw
  | Err _ => True
  | Panic _ => False
  end.

(* uint16(extensionsLen) silently truncates: Ok with 80089 bytes whose extensions length field says
   14472; the strict grammar rejects them *)
Theorem C02_without_check_refuted : ~ C02_valid_or_error_without_check.
Proof.
  intros H. specialize (H (fun _ => 512) 0%Z C02_witness_hdr C02_witness_exts).
  assert (Hwf : wf_specb C02_witness_hdr C02_witness_exts = true) by (vm_compute; reflexivity).
  specialize (H Hwf).
  assert (Hbad : match marshal_hello_unchecked (fun _ => 512) 0%Z C02_witness_hdr C02_witness_exts with
                 | Ok raw => valid_chb raw = false /\ blen raw = 80089 | _ => False end)
    by (vm_compute; split; reflexivity).
  destruct (marshal_hello_unchecked (fun _ => 512) 0%Z C02_witness_hdr C02_witness_exts) as [raw| |]; try contradiction.
  destruct Hbad as [Hbad _]. apply valid_chb_spec in H. congruence.
Qed.
Print Assumptions C02_without_check_refuted.

(* the fixed function refuses the same input *)
Example C02_ex_witness_refused :
  marshal_hello (fun _ => 512) 0%Z C02_witness_hdr C02_witness_exts = Err E_TOO_LARGE
  /\ spec_fitsb 0%Z C02_witness_hdr C02_witness_exts = false.
Proof. split; vm_compute; reflexivity. Qed.

(* ---- non-vacuity: a realistic spec inside the precondition, and what it marshals to ---- *)
Definition C02_ex_exts : list ext :=
  [ EGREASE 2570 []; ESNI [101; 120; 97; 109; 112; 108; 101; 46; 99; 111; 109]; EExtendedMasterSecret;
    ERenegotiationInfo 1 []; ESupportedCurves [2570; 29; 23; 24]; ESupportedPoints [0]; ESessionTicket [];
    EALPN [[104; 50]; [104; 116; 116; 112; 47; 49; 46; 49]]; EStatusRequest;
    ESignatureAlgorithms [1027; 2052; 1025; 1283]; ESCT;
    EKeyShare [(2570, [0]); (29, repeat 5 32)]; EPSKKeyExchangeModes [1]; ESupportedVersions [2570; 772; 771];
    ECompressCert [2]; EApplicationSettings [[104; 50]]; EGREASEECH 1 1 77 (repeat 3 32) (repeat 4 144);
    EPadding 0 false PadBoring;
    EFakePreSharedKey true [([1; 2; 3], 99)] [repeat 6 32] ].

Example C02_ex_wf : wf_specb C02_witness_hdr C02_ex_exts = true /\ spec_fitsb 0%Z C02_witness_hdr C02_ex_exts = true.
Proof. split; vm_compute; reflexivity. Qed.

Example C02_ex_marshals :
  match marshal_hello (fun _ => 512) 0%Z C02_witness_hdr C02_ex_exts with
  | Ok raw => valid_chb raw = true /\ blen raw = 512
              /\ option_map ext_types (strict_parse raw)
                 = Some [2570; 0; 23; 65281; 10; 11; 35; 16; 5; 13; 18; 51; 45; 43; 27; 17513; 65037; 21; 41]
  | _ => False
  end.
Proof. vm_compute. repeat split; reflexivity. Qed.

(* the oracle rejects: a wrong extensions length, a duplicated extension, pre_shared_key not last,
   a supported_versions body with a wrong inner length *)
Example C02_ex_oracle_rejects :
  let h := [3; 3] ++ repeat 7 32 ++ [0] ++ [0; 2; 19; 1] ++ [1; 0] in
  let mk (eb : bytes) (extlen : N) := [1] ++ enc_u24lp (h ++ enc_u16 extlen ++ eb) in
  let ems := [0; 23; 0; 0] in
  let psk := [0; 41] ++ enc_u16lp (enc_u16lp (enc_u16lp [1] ++ enc_u32 0) ++ enc_u16lp (enc_u8lp (repeat 0 32))) in
  valid_chb (mk ems 4) = true
  /\ valid_chb (mk ems 5) = false /\ valid_chb (mk (ems ++ ems) 8) = false
  /\ valid_chb (mk (ems ++ psk) (blen (ems ++ psk))) = true /\ valid_chb (mk (psk ++ ems) (blen (ems ++ psk))) = false
  /\ valid_chb (mk [0; 43; 0; 3; 2; 3; 4] 7) = true /\ valid_chb (mk [0; 43; 0; 3; 3; 3; 4] 7) = false.
Proof. vm_compute. repeat split; reflexivity. Qed.

(* ======================================================================================================
   No premise on the model's OUTPUT: a STATIC predicate on the spec (Model/PresetOk.v, Proofs/PresetOkP.v / PresetOkS.v /
   PresetOkT.v / PresetOkC.v).  C02_valid_or_error starts from header fields and extension objects inside wf_specb; for a
   hello that comes from a ClientHelloSpec through ApplyPreset (Model/Preset.v) that was a premise on what the model
   produced.  [PresetOk.preset_ok sp snimax omit] is decidable from the spec alone (per extension: the value ApplyPreset will
   leave is within wire limits and RFC minimum sizes whatever GREASE values, SNI name of at most snimax bytes, generated
   key shares, GREASE-ECH draws and OmitEmptyPsk = omit the connection brings; globally: types pairwise distinct with the
   GREASE extensions on their two distinct GREASE types, pre_shared_key last, <= 2 GREASE extensions, <= 1 session_ticket,
   padding nil/Boring, maximal lengths + 516 bytes of Boring padding within the uint16 extensions length).
   Config class: blen (hostnameInSNI ServerName) <= snimax and Config.OmitEmptyPsk = omit.
   ====================================================================================================== *)
From UV Require Model.Preset Model.ParrotSpec Model.Shuffle Model.PresetOk Gen.Parrots.
From UV Require Proofs.PresetOkP Proofs.PresetOkS Proofs.PresetOkT Proofs.PresetOkC.

(* every spec in the static class, every Config in the class, every randomness: what ApplyPreset leaves is inside the
   precondition, fits, and marshals to a valid ClientHello *)
Theorem C02_preset_ok_output : forall sp c fr snimax omit h es,
  PresetOk.preset_ok sp snimax omit = true -> PresetOk.cfg_in_class c snimax omit ->
  Preset.apply_preset sp c fr = Ok (h, es) ->
  wf_specb h es = true /\ spec_fitsb 0%Z h es = true /\ forallb WriteToUConn.typed_ext es = true
  /\ existsb Preset.pad_other es = false.
Proof. exact PresetOkP.preset_ok_output. Qed.
Print Assumptions C02_preset_ok_output.

Theorem C02_preset_ok_valid : forall sp c fr snimax omit h es,
  PresetOk.preset_ok sp snimax omit = true -> PresetOk.cfg_in_class c snimax omit ->
  Preset.apply_preset sp c fr = Ok (h, es) ->
  exists raw, Preset.build sp c fr = Ok raw /\ marshal_hello Preset.bbs512 0%Z h es = Ok raw /\ valid_ch raw.
Proof. exact PresetOkP.preset_ok_builds. Qed.
Print Assumptions C02_preset_ok_valid.

(* ... and ApplyPreset itself fails for such a spec only for its version bounds or for randomness that does not have the
   shape of the code's draws (short reads); it never panics *)
Theorem C02_preset_ok_failures : forall sp c fr snimax omit,
  PresetOk.preset_ok sp snimax omit = true -> PresetOk.cfg_in_class c snimax omit ->
  match Preset.apply_preset sp c fr with
  | Ok _ => True
  | Err e => In e PresetOkT.allowed_errors
  | Panic _ => False
  end.
Proof. exact PresetOkT.preset_ok_failures. Qed.
Print Assumptions C02_preset_ok_failures.

(* the predicate survives everything the Chrome extension shuffle can do *)
Theorem C02_preset_ok_shuffle : forall sp snimax omit swaps exts',
  PresetOk.preset_ok sp snimax omit = true -> Shuffle.shuffle ParrotSpec.fixedb swaps (Preset.sp_exts sp) = Ok exts' ->
  PresetOk.preset_ok (PresetOk.with_exts sp exts') snimax omit = true.
Proof. exact PresetOkS.preset_ok_shuffle. Qed.
Print Assumptions C02_preset_ok_shuffle.

(* the regenerated table: all 38 parrots are in the class for SNI names up to 255 bytes with OmitEmptyPsk; without
   OmitEmptyPsk all but the four *_PSK parrots (their hello cannot be built without a session: ErrEmptyPsk) *)
Theorem C02_parrots_preset_ok : forallb (fun p => PresetOk.preset_ok (Preset.p_spec p) 255 true) Parrots.all = true.
Proof. exact PresetOkS.parrots_preset_ok. Qed.
Theorem C02_parrots_preset_ok_no_omit :
  forallb (fun p => PresetOk.preset_ok (Preset.p_spec p) 255 false || PresetOkS.has_psk p) Parrots.all = true
  /\ map Preset.p_name (filter PresetOkS.has_psk Parrots.all)
     = map Preset.p_name [Parrots.p_Chrome_100_PSK; Parrots.p_Chrome_112_PSK_Shuf; Parrots.p_Chrome_114_Padding_PSK_Shuf; Parrots.p_Chrome_115_PQ_PSK].
Proof. exact PresetOkS.parrots_preset_ok_no_omit. Qed.

(* END TO END: every shipped parrot, every rearrangement the shuffle can produce (swaps = [] for the ids that do not
   shuffle), every Config in the class, every randomness for which ApplyPreset returns: the hello is built and is a
   valid ClientHello *)
Theorem C02_parrots_valid : forall p swaps exts', In p Parrots.all ->
  Shuffle.shuffle ParrotSpec.fixedb swaps (Preset.sp_exts (Preset.p_spec p)) = Ok exts' ->
  forall c fr h es, PresetOkC.parrot_class c ->
  Preset.apply_preset (PresetOk.with_exts (Preset.p_spec p) exts') c fr = Ok (h, es) ->
  exists raw, Preset.build (PresetOk.with_exts (Preset.p_spec p) exts') c fr = Ok raw
              /\ marshal_hello Preset.bbs512 0%Z h es = Ok raw /\ valid_ch raw.
Proof. exact PresetOkC.parrot_valid. Qed.
Print Assumptions C02_parrots_valid.

(* non-vacuity: a Config in the class and randomness for which ApplyPreset returns (Chrome_133) *)
Example C02_ex_parrot_premises :
  PresetOkC.parrot_class ComposeW.ex_cfg
  /\ is_ok (Preset.apply_preset (PresetOk.with_exts (Preset.p_spec Parrots.p_Chrome_133) (Preset.sp_exts (Preset.p_spec Parrots.p_Chrome_133)))
                                ComposeW.ex_cfg ComposeW.ex_fresh) = true.
Proof. split; [split; [vm_compute; discriminate | reflexivity] | vm_compute; reflexivity]. Qed.

(* imported last, for the driver's closure scan only (lib/vcheck.py follows "Require Import" lines); nothing follows *)
From UV Require Import Model.PresetOk Proofs.PresetOkP Proofs.PresetOkS Proofs.PresetOkT Proofs.PresetOkC.

(* C33 — hostile server input never crashes or hangs a uTLS client.
   Property theorems only; each closed by a lemma from Proofs/RobustP.v (C34's Proofs/RobustSrvP.v for the shared parts).
   PARTIAL by design: what is proved is the uTLS-specific code a server can drive on a client — the message-type switch with its
   two extra types, encryptedExtensionsMsg.unmarshal (+ utlsUnmarshal), utlsCompressedCertificateMsg.unmarshal, utlsReadServerParameters,
   utlsReadServerCertificate / decompressCert up to the decompressor, the HelloRetryRequest cookie insertion — with every Go
   index / slice expression an explicit possible Panic, and the size of every buffer those paths allocate.  The upstream unmarshalers
   [std], the handlers between read points [next] and the decompressors are Section variables; the record layer, timeouts and the
   decompressors' own allocations are NOT modelled: they are exercised by the mutation runs of harness/cmd/c33 on every check.
   [capped = true] is the code in /repo (declared length capped, fix of F-33 delivered with C21). *)
From UV Require Import Base.Common Model.RobustSrv Model.Alps Model.Robust Proofs.RobustSrvP Proofs.RobustP.
Open Scope N_scope.

(* the parsers reachable on a client return true or false on ALL byte strings: no panic, and the extension loop ends *)
Theorem C33_ee_unmarshal_no_panic : forall data, exists r, ee_unmarshal data = Ok r.
Proof. exact ee_unmarshal_total. Qed.
Print Assumptions C33_ee_unmarshal_no_panic.
Theorem C33_compressed_cert_unmarshal_no_panic : forall data, exists r, cc_unmarshal data = Ok r.
Proof. exact cc_unmarshal_total. Qed.
Print Assumptions C33_compressed_cert_unmarshal_no_panic.
(* readServerParameters + utlsReadServerParameters on any EncryptedExtensions bytes: a state or an alert *)
Theorem C33_read_server_parameters_no_panic : forall fixed c data p, client_read_ee fixed c data <> Panic p.
Proof. exact client_read_ee_no_panic. Qed.
Print Assumptions C33_read_server_parameters_no_panic.
(* readHandshake on a client, whatever the buffer holds and whatever the standard unmarshalers answer *)
Theorem C33_client_read_handshake_no_panic : forall std haveVers vers hand, exists o, client_read_handshake std haveVers vers hand = Ok o.
Proof. exact client_read_handshake_total. Qed.
Print Assumptions C33_client_read_handshake_no_panic.

(* client_no_panic + alloc_bounded for one message at any read point: for byte-valued input the step is NeedMore, an alert, an
   accepted message whose buffers are at most maxHandshakeCertificateMsg + 4 bytes each (on the capped code), or decompressCert's error *)
Theorem C33_client_step_no_panic : forall std capped advertised exts_is_cc open_ok rp haveVers vers hand, bytes_ok hand ->
  (exists s, client_step std capped advertised exts_is_cc open_ok rp haveVers vers hand = Ok s /\ step_bound capped s) \/
  (exists a, client_step std capped advertised exts_is_cc open_ok rp haveVers vers hand = Err a).
Proof. exact client_step_no_panic. Qed.
Print Assumptions C33_client_step_no_panic.

(* client_no_panic / client_terminates / alloc_bounded for a whole server flight: the driver is a structurally recursive consumer
   of the finite message list; it never panics, and on the capped code no buffer exceeds maxHandshakeCertificateMsg + 4 *)
Theorem C33_client_run_no_panic_alloc_bounded : forall std capped advertised exts_is_cc open_ok next msgs rp haveVers vers m0,
  Forall bytes_ok msgs ->
  (exists alerts m, run std capped advertised exts_is_cc open_ok next rp haveVers vers msgs m0 = Ok (alerts, m) /\
      (capped = true -> m <= N.max m0 (maxHandshakeCertificateMsg + 4))) \/
  (exists a, run std capped advertised exts_is_cc open_ok next rp haveVers vers msgs m0 = Err a).
Proof. exact run_no_panic. Qed.
Print Assumptions C33_client_run_no_panic_alloc_bounded.

(* decompressCert: refused, or exactly declared + 4 bytes, and then declared <= maxHandshakeCertificateMsg when capped *)
Theorem C33_decompress_alloc : forall capped adv alg ulen open_ok, ulen < 16777216 ->
  decompress_alloc capped adv alg ulen open_ok = Err a_bad_certificate \/
  (decompress_alloc capped adv alg ulen open_ok = Ok (ulen + 4) /\ (capped = true -> ulen <= maxHandshakeCertificateMsg)).
Proof. exact decompress_alloc_spec. Qed.
Print Assumptions C33_decompress_alloc.

(* F-33: the full statement for the code as found (no cap) is false *)
Definition C33_alloc_bounded_v0_full : Prop := forall std advertised exts_is_cc open_ok rp haveVers vers hand t k,
  bytes_ok hand -> client_step std false advertised exts_is_cc open_ok rp haveVers vers hand = Ok (CAccept t k) ->
  k <= maxHandshakeCertificateMsg + 4.
Theorem C33_alloc_bounded_v0_refuted : ~ C33_alloc_bounded_v0_full.
Proof.
  intros H. destruct f33_witness as [E _].
  specialize (H _ _ _ _ _ _ _ f33_msg _ _ ltac:(repeat constructor) E). vm_compute in H. apply H. reflexivity.
Qed.
Print Assumptions C33_alloc_bounded_v0_refuted.

(* the HelloRetryRequest cookie insertion: for EVERY extension list and every random draw the slice surgery is in bounds;
   the only error is the empty list *)
Theorem C33_hrr_cookie_no_panic : forall exts r,
  (exists l, insert_cookie exts r = Ok l /\ (length l = length exts \/ length l = S (length exts)) /\ In XCookie l) \/
  (insert_cookie exts r = Err E_HRR_COOKIE_INDEX /\ exts = []).
Proof. exact insert_cookie_no_panic. Qed.
Print Assumptions C33_hrr_cookie_no_panic.
Theorem C33_hrr_section_no_panic : forall is_golang psk exts cookie_len r p, hrr_utls_section is_golang psk exts cookie_len r <> Panic p.
Proof. exact hrr_utls_section_no_panic. Qed.
Print Assumptions C33_hrr_section_no_panic.

(* whatever a compressed stream inflates to, decompressCert asks the decompressor for at most declared + 1 bytes
   (io.ReadFull into the pre-sized buffer, then the one-byte probe): a decompression bomb is never materialised *)
Theorem C33_decompress_pulled_bound : forall adv alg ulen open_ok, ulen < 16777216 ->
  decompress_pulled_max true adv alg ulen open_ok <= maxHandshakeCertificateMsg + 1.
Proof. exact decompress_pulled_bound. Qed.
Print Assumptions C33_decompress_pulled_bound.

(* establishHandshakeKeys: for every group and every server share length the slice expressions are in bounds *)
Theorem C33_key_share_slices_no_panic : forall group data p, establish_share_slices group data <> Panic p.
Proof. exact establish_share_slices_no_panic. Qed.
Print Assumptions C33_key_share_slices_no_panic.

(* Read holds the input lock while it handles HelloRequests; handleRenegotiation takes only handshakeMutex: however many
   HelloRequests arrive, the goroutine never waits for a lock it holds itself *)
Theorem C33_read_no_self_deadlock : forall n, lock_run [] (ops_read n) = Ok [].
Proof. exact read_no_self_deadlock. Qed.
Print Assumptions C33_read_no_self_deadlock.
(* the same for any mix of HelloRequests, KeyUpdate(update_requested) whose reply can or cannot be written, and unexpected messages
   answered with an alert: the reply path holds c.out only while writing and never sends an alert under it *)
Theorem C33_read_events_no_self_deadlock : forall evs, lock_run [] (ops_read_events evs) = Ok [].
Proof. exact read_events_no_self_deadlock. Qed.
Print Assumptions C33_read_events_no_self_deadlock.
Example C33_ex_alert_under_out_lock_deadlocks : lock_run [] ([Acq L_in; Acq L_out] ++ ops_send_alert ++ [Rel L_out; Rel L_in]) = Err E_SELF_DEADLOCK.
Proof. vm_compute. reflexivity. Qed.
(* ... whereas delegating to Handshake() from inside Read would *)
Example C33_ex_reneg_via_handshake_deadlocks : lock_run [] ([Acq L_in] ++ ops_handshake_context ++ [Rel L_in]) = Err E_SELF_DEADLOCK.
Proof. vm_compute. reflexivity. Qed.
Example C33_ex_kyber_short_share : establish_share_slices X25519Kyber768Draft00 [1; 2; 3] = Err a_illegal_parameter.
Proof. vm_compute. reflexivity. Qed.

(* an empty certificate_list is refused with decode_error before certs[0] is touched, whether the Certificate message came off the
   wire or out of a (perfectly well-formed) CompressedCertificate *)
Theorem C33_cert_checks_no_panic : forall from_compressed ncerts p, cert_checks from_compressed ncerts <> Panic p.
Proof. exact cert_checks_no_panic. Qed.
Print Assumptions C33_cert_checks_no_panic.
Theorem C33_empty_certificate_list_refused : forall from_compressed, cert_checks from_compressed 0 = Err a_decode_error.
Proof. exact cert_checks_empty. Qed.
Print Assumptions C33_empty_certificate_list_refused.

(* the two uTLS message types are accepted only where they belong *)
Theorem C33_ee_only_at_ee : forall rp cc, cdispatch rp cc T_encryptedExtensions = true -> rp = CRP_EncryptedExtensions.
Proof. exact client_ee_only_at_ee. Qed.
Print Assumptions C33_ee_only_at_ee.
Theorem C33_ccert_only_at_cert : forall rp cc, cdispatch rp cc T_utlsCompressedCertificate = true ->
  cc = true /\ (rp = CRP_CertificateOrRequest13 \/ rp = CRP_Certificate13).
Proof. exact client_ccert_only_at_cert. Qed.
Print Assumptions C33_ccert_only_at_cert.

(* ---- non-vacuity ---- *)
Example C33_ex_f33_capped :
  client_step (fun _ _ => true) true [2] [true] (fun _ _ => true) CRP_CertificateOrRequest13 true 772 f33_msg = Err a_bad_certificate.
Proof. vm_compute. reflexivity. Qed.
Example C33_ex_ccert_accepted :
  client_step (fun _ _ => true) true [2] [false; true] (fun _ _ => true) CRP_CertificateOrRequest13 true 772 [25; 0; 0; 9; 0; 2; 0; 1; 0; 0; 0; 1; 6]
  = Ok (CAccept T_utlsCompressedCertificate 260).
Proof. vm_compute. reflexivity. Qed.
Example C33_ex_ccert_not_offered :
  client_step (fun _ _ => true) true [] [false] (fun _ _ => true) CRP_CertificateOrRequest13 true 772 [25; 0; 0; 9; 0; 2; 0; 1; 0; 0; 0; 1; 6]
  = Ok (CAlert alert_unexpected_message).
Proof. vm_compute. reflexivity. Qed.
Example C33_ex_ee_garbage : client_step (fun _ _ => true) true [] [] (fun _ _ => true) CRP_EncryptedExtensions true 772 [8; 0; 0; 3; 0; 5; 1]
  = Ok (CAlert alert_unexpected_message).
Proof. vm_compute. reflexivity. Qed.
Example C33_ex_cookie_short_lists :
  insert_cookie [XKeyShare] 7 = Ok [XCookie; XKeyShare] /\ insert_cookie [XKeyShare; XOther] 7 = Ok [XCookie; XKeyShare; XOther] /\
  insert_cookie [XKeyShare; XOther; XOther; XOther; XOther] 8 = Ok [XKeyShare; XOther; XCookie; XOther; XOther; XOther].
Proof. repeat split; vm_compute; reflexivity. Qed.
Example C33_ex_run : run (fun _ _ => true) true [2] [true] (fun _ _ => true)
    (fun rp _ _ => match rp with CRP_EncryptedExtensions => Some CRP_CertificateOrRequest13 | _ => None end)
    CRP_EncryptedExtensions true 772 [[8; 0; 0; 2; 0; 0]; f33_msg] 0 = Err a_bad_certificate.
Proof. vm_compute. reflexivity. Qed.

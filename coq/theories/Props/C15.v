(* C15 — ECH hides the real server name and is honoured end to end.
   Property theorems only; each closed by a lemma from Proofs/EchP.v, EchOuterP.v or EchExtractP.v.

   State: the model describes the code WITH fixes/C15-ech-hrr-keyshare.diff (F-15) and
   fixes/C14-ech-rejected-public-name.diff (F-14, owned by C14). On the unfixed code C15_ech_hrr fails
   (Proofs/EchOuterP.hrr_prefix_refuted keeps the witness; the runner replays it against the real code in every run).

   Partial: HPKE (seal), the per-extension body parsers of clientHelloMsg.unmarshal (body_ok), hostnameInSNI,
   GetPaddingLen and x509 verification are universally quantified function arguments; the TLS 1.3 key schedule
   and the accept-confirmation computation are not modelled (they are the boolean v_confirmation_ok). *)
From UV Require Import Base.Common Model.Ech Proofs.EchP Proofs.EchOuterP Proofs.EchExtractP.

(* ech_roundtrip — for ALL extension lists: if the compressed list is an in-order subsequence of the outer
   extension types (and the outer carries the inner's bodies for them), the server's decodeInnerClientHello rebuilds
   an inner hello equal to the client's on every field (session id taken from the outer) with the extensions
   server_name, the uncompressed ones in order, the compressed ones with the inner's own bodies, pre_shared_key. *)
Theorem C15_ech_roundtrip :
  forall body_ok inner maxname oe outer_orig outer_sid raw enc,
  encode_inner inner maxname oe = Ok enc ->
  extract_raw_extensions outer_orig = Ok raw ->
  subseq (comp_list oe inner) (map eid raw) ->
  ~ In EXT_ECH (comp_list oe inner) ->
  (forall x it, In x raw -> In it (ch_items inner) -> compresses true (is_some oe) (it_kind it) = true ->
                eid x = eid (it_ext it) -> ebody x = ebody (it_ext it)) ->
  Forall (fun e => eid e < 65536) (expected_exts oe inner) ->
  no_outer_id (sni_exts inner ++ inl_exts (is_some oe) inner) -> no_outer_id (opt_list (ch_psk inner)) ->
  let r := expected_recon oe outer_sid inner in
  recon_fits r = true ->
  unmarshal_ok body_ok r = true ->
  find_ext EXT_ECH (r_exts r) = Some (mkExt EXT_ECH [1]) ->
  (exists sv, find_ext EXT_SUPPORTED_VERSIONS (r_exts r) = Some sv /\ parse_sv (ebody sv) = Some [VERSION_TLS13]) ->
  decode_inner body_ok outer_orig outer_sid enc = Ok r.
Proof. exact roundtrip. Qed.
Print Assumptions C15_ech_roundtrip.

(* ech_order — the list the code writes (extensionsList filtered by the compressed ids) satisfies that premise
   for the outer hello that is actually marshalled (first ECH slot replaced by the real extension). *)
Theorem C15_ech_order :
  forall hostname_in_sni padf inner h exts new exts1 pad_on,
  replace_first_ech exts new = Some exts1 -> eid new = EXT_ECH ->
  Forall uext_ok exts ->
  (forall t, In t (comp_ids true true (ch_items inner)) -> t <> 0 /\ t <> EXT_PADDING) ->
  subseq (comp_list (Some (extensions_list hostname_in_sni pad_on exts)) inner)
         (map eid (wire_exts hostname_in_sni padf h exts1)).
Proof. exact order_from_extensions_list. Qed.
Print Assumptions C15_ech_order.

(* ech_outer_sni — with an ECH config every SNIExtension of the applied spec carries the config's public name
   (through hostnameInSNI), whatever Config.ServerName is. *)
Theorem C15_ech_outer_sni :
  forall hostname pn sn spec n,
  In (USni n) (map (apply_preset_sni (Some pn) sn) spec) ->
  n = pn /\ usni_exts hostname n = (if len (hostname pn) =? 0 then [] else [sni_ext (hostname pn)]).
Proof. exact outer_sni_public. Qed.
Print Assumptions C15_ech_outer_sni.

Theorem C15_ech_outer_sni_independent :
  forall pn sn1 sn2 spec,
  map (apply_preset_sni (Some pn) sn1) spec = map (apply_preset_sni (Some pn) sn2) spec.
Proof. exact preset_sni_independent. Qed.
Print Assumptions C15_ech_outer_sni_independent.

(* ech_noninterference — two inner hellos (two secret names) whose padded encodings have the same length give
   outer hellos that are byte-identical outside the HPKE ciphertext; the AAD is identical too. *)
Theorem C15_ech_noninterference :
  forall hostname_in_sni padf seal,
  (forall s a p, len (seal s a p) = len p + 16) ->
  forall h exts pad_on inner1 inner2 cfg enc useKey seq o1 o2,
  compute_outer hostname_in_sni padf seal h exts pad_on inner1 cfg enc useKey seq = Ok o1 ->
  compute_outer hostname_in_sni padf seal h exts pad_on inner2 cfg enc useKey seq = Ok o2 ->
  len (o_encoded o1) = len (o_encoded o2) ->
  exists F G ct1 ct2, o_raw o1 = F ++ ct1 ++ G /\ o_raw o2 = F ++ ct2 ++ G /\ len ct1 = len ct2 /\
                      ct1 = seal seq (o_aad o1) (o_encoded o1) /\ ct2 = seal seq (o_aad o2) (o_encoded o2) /\
                      o_aad o1 = o_aad o2.
Proof. exact outer_noninterference. Qed.
Print Assumptions C15_ech_noninterference.

(* the outer hello is a frame around the ciphertext and the AAD is the same frame around zeros (what the server
   recomputes in decryptECHPayload) *)
Theorem C15_ech_outer_frame :
  forall hostname_in_sni padf seal,
  (forall s a p, len (seal s a p) = len p + 16) ->
  forall h exts pad_on inner cfg enc useKey seq o,
  compute_outer hostname_in_sni padf seal h exts pad_on inner cfg enc useKey seq = Ok o ->
  exists pre old post,
    exts = pre ++ UEch old :: post /\ no_ech_slot pre /\
    let encap := if useKey then enc else [] in
    let n := len (o_encoded o) + 16 in
    let F := frame_pre hostname_in_sni padf h pre post (c_id cfg) (c_kdf cfg) (c_aead cfg) encap n in
    let G := frame_post hostname_in_sni padf h pre post (c_id cfg) (c_kdf cfg) (c_aead cfg) encap n in
    encode_inner inner (c_maxname cfg) (Some (extensions_list hostname_in_sni pad_on exts)) = Ok (o_encoded o) /\
    o_aad o = skipn 4 (F ++ zeros (N.to_nat n) ++ G) /\
    o_raw o = F ++ seal seq (o_aad o) (o_encoded o) ++ G.
Proof. exact compute_outer_frame. Qed.
Print Assumptions C15_ech_outer_frame.

(* the server's extractRawExtensions of the marshalled outer hello yields exactly those wire extensions, so
   C15_ech_order discharges the subsequence premise of C15_ech_roundtrip for the hello the client really sends *)
Theorem C15_ech_outer_parses :
  forall hostname_in_sni padf h exts out,
  marshal_outer hostname_in_sni padf h exts = Ok out ->
  len (uh_random h) = 32 -> len (uh_sid h) < 256 -> 2 * N.of_nat (length (uh_suites h)) < 65536 ->
  len (uh_comp h) < 256 -> exts <> [] ->
  Forall (uext_fits hostname_in_sni padf (unpadded_len hostname_in_sni h exts)) exts ->
  len (exts_bytes hostname_in_sni padf h exts) < 65536 ->
  extract_raw_extensions out = Ok (wire_exts hostname_in_sni padf h exts).
Proof. exact extract_marshal_outer. Qed.
Print Assumptions C15_ech_outer_parses.

(* ech_hrr — after a HelloRetryRequest that accepted ECH and selected `group`, the inner hello and every
   KeyShareExtension of the outer hello carry exactly the one fresh share for that group. *)
Theorem C15_ech_hrr :
  forall group pub st st',
  hrr_update group pub st = Ok st' ->
  hs_outer_ks st' = [(group, pub)] /\
  find_ext EXT_KEY_SHARE (map it_ext (ch_items (hs_inner st'))) = Some (ks_ext [(group, pub)]) /\
  In (UKeyShare [(group, pub)]) (hs_exts st') /\
  (forall ks, In (UKeyShare ks) (hs_exts st') -> ks = [(group, pub)]).
Proof. exact hrr_one_share. Qed.
Print Assumptions C15_ech_hrr.

(* ech_reject — a rejecting server whose certificate is valid for the public (outer) name makes the client
   return ECHRejectionError carrying the retry configs of EncryptedExtensions; a rejected handshake never completes. *)
Theorem C15_ech_reject :
  forall x509 v,
  v_confirmation_ok v = false -> v_rejection_verify v = None ->
  x509 (v_outer_server_name v) = true -> v_server_flight_ok v = true ->
  client_finish x509 v = HsECHRejection (retry_of v).
Proof. exact reject_yields_rejection. Qed.
Print Assumptions C15_ech_reject.

Theorem C15_ech_reject_never_completes :
  forall x509 v, v_confirmation_ok v = false -> forall a n, client_finish x509 v <> HsComplete a n.
Proof. exact reject_never_completes. Qed.
Print Assumptions C15_ech_reject_never_completes.

Theorem C15_ech_accept :
  forall x509 v,
  v_confirmation_ok v = true -> v_ee_retry_configs v = None ->
  x509 (v_config_server_name v) = true -> v_server_flight_ok v = true ->
  client_finish x509 v = HsComplete true (v_config_server_name v).
Proof. exact accept_completes. Qed.
Print Assumptions C15_ech_accept.

(* server side, over a HISTORY of connections against one Config: every connection is answered from the configured
   key list — a client holding the config of ANY configured key is accepted, every time, and a rejected client
   receives exactly the SendAsRetry configs, in configuration order, every time. *)
Theorem C15_ech_server_history :
  forall keys cfgs, server_history keys cfgs = map (server_answer keys) cfgs.
Proof. exact server_history_configured. Qed.
Print Assumptions C15_ech_server_history.

Theorem C15_ech_server_accepts_configured :
  forall keys k, In k keys -> server_accepts keys (fst k) = true.
Proof. exact server_accepts_configured. Qed.
Print Assumptions C15_ech_server_accepts_configured.

Theorem C15_ech_retry_list :
  forall keys,
  retry_list keys = match filter snd keys with [] => None | _ => Some (p16lp (flat_map fst (filter snd keys))) end.
Proof. exact retry_list_exact. Qed.
Print Assumptions C15_ech_retry_list.

(* ---- the hypotheses are satisfiable by concrete non-trivial inputs ---- *)

(* an inner hello with server_name, ECH, supported_groups, sig_algs, supported_versions, key_share; an outer hello that
   carries key_share BEFORE supported_groups (so the reordering matters) *)
Definition ex_inner : chello :=
  mkHello 771 (zeros 32) (zeros 32) [4865; 4866] [0] [115; 46; 101; 120]
    [mkItem (mkExt 23 []) KOuterOnly;
     mkItem (mkExt EXT_ECH [1]) KAlways;
     mkItem (mkExt 10 [0; 4; 0; 29; 0; 24]) KComp;
     mkItem (mkExt 13 [0; 2; 4; 3]) KComp;
     mkItem (mkExt 43 [2; 3; 4]) KCompNoReorder;
     mkItem (ks_ext [(29, [9; 9])]) KComp] None.
Definition ex_uexts : list uext :=
  [UExt (mkExt 2570 []); USni [112; 46; 101; 120]; UKeyShare [(29, [9; 9])]; UEch (mkExt EXT_ECH [0; 0; 1; 0; 1; 5; 0; 0; 0; 0]);
   UExt (mkExt 13 [0; 2; 4; 3]); UExt (mkExt 10 [0; 4; 0; 29; 0; 24]); UExt (mkExt 43 [2; 3; 4]); UPad].
Definition ex_h : uhello := mkUHello 771 (zeros 32) (zeros 32) [4865; 4866] [0].
Definition ex_seal (s : N) (a p : bytes) : bytes := p ++ zeros 16.
Definition ex_cfg : echcfg := mkCfg 7 1 1 32 [112; 46; 101; 120].

Example C15_ex_compressed_list :
  comp_list (Some (extensions_list (fun n => n) false ex_uexts)) ex_inner = [51; 13; 10].
Proof. vm_compute. reflexivity. Qed.

(* the whole client build followed by the server's decode succeeds on the example and returns the inner hello
   with the compressed extensions re-expanded in OUTER order *)
Example C15_ex_end_to_end :
  match compute_outer (fun n => n) (fun _ => (0, false)) ex_seal ex_h ex_uexts false ex_inner ex_cfg [5; 5] true 0 with
  | Ok o =>
      match decode_inner (fun _ _ => true) (o_raw o) (uh_sid ex_h) (o_encoded o) with
      | Ok r => list_eqb N.eqb (map eid (r_exts r)) [0; EXT_ECH; 43; 51; 13; 10] &&
                bytes_eqb (r_sid r) (ch_sid ex_inner) &&
                (* ech.go:226-231: (length + unappended name padding 32-4) is the multiple of 32, not the length *)
                ((len (o_encoded o) + 28) mod 32 =? 0)
      | _ => false
      end
  | _ => false
  end = true.
Proof. vm_compute. reflexivity. Qed.

Example C15_ex_hrr :
  exists st', hrr_update 24 [7] f15_witness = Ok st' /\ In (UKeyShare [(24, [7])]) (hs_exts st').
Proof. eexists. split; [reflexivity|]. cbn. auto. Qed.

Example C15_ex_reject :
  client_finish (fun n => bytes_eqb n [112]) (mkView [115] [112] false (Some [0; 0]) None true) = HsECHRejection [0; 0].
Proof. reflexivity. Qed.

(* keys [old (not retry); current (retry)], clients: stale, old, current, stale, old *)
Example C15_ex_server_history :
  server_history [([1], false); ([2], true)] [[9]; [1]; [2]; [9]; [1]] =
  [(false, Some [0; 1; 2]); (true, None); (true, None); (false, Some [0; 1; 2]); (true, None)].
Proof. reflexivity. Qed.

(* a pre-filled SNIExtension is overwritten by the public name *)
Example C15_ex_prefilled_sni :
  apply_preset_sni (Some [112]) [115] (USni [115]) = USni [112] /\ apply_preset_sni None [115] (USni []) = USni [115].
Proof. split; reflexivity. Qed.

(* C34 — arbitrary client input never crashes or hangs the server.
   Property theorems only; each closed by a lemma from Proofs/RobustSrvP.v.
   PARTIAL: what is proved is the uTLS-specific part a client can reach on a server — the message-type switch with
   its two extra types, the two uTLS unmarshalers (every index/slice expression with Go's bounds rule, down to
   cryptobyte's String.read), and the type assertion at each of the server's 11 read points.  The upstream
   unmarshalers of the standard messages are a Section variable ([std], any total boolean function) and the server
   state machine between the read points is not modelled; those are covered by the mutation runs of the runner. *)
From UV Require Import Base.Common Model.RobustSrv Proofs.RobustSrvP.
Open Scope N_scope.

(* the two uTLS unmarshalers return true or false on ALL byte strings: no panic, and the extension loop ends *)
Theorem C34_client_ee_unmarshal_no_panic : forall data, exists r, cee_unmarshal data = Ok r.
Proof. exact cee_unmarshal_total. Qed.
Print Assumptions C34_client_ee_unmarshal_no_panic.
Theorem C34_compressed_cert_unmarshal_no_panic : forall data, exists r, cc_unmarshal data = Ok r.
Proof. exact cc_unmarshal_total. Qed.
Print Assumptions C34_compressed_cert_unmarshal_no_panic.

(* readHandshake on whatever the handshake buffer holds, for either role, any version state and any behaviour of the
   standard unmarshalers: needs more input, sends an alert, or returns a message — never panics *)
Theorem C34_server_no_panic : forall std is_client haveVers vers hand,
  exists o, read_handshake std is_client haveVers vers hand = Ok o.
Proof. exact read_handshake_total. Qed.
Print Assumptions C34_server_no_panic.
Theorem C34_server_step_no_panic : forall std rp haveVers vers hand, exists o, server_step std rp haveVers vers hand = Ok o.
Proof. exact server_step_total. Qed.
Print Assumptions C34_server_step_no_panic.

(* at every server read point a message whose type byte is 8 or 25 is never accepted *)
Theorem C34_server_rejects_utls_types : forall std rp haveVers vers hand o d0,
  server_step std rp haveVers vers hand = Ok o -> nth_error hand 0 = Some d0 -> d0 = 8 \/ d0 = 25 ->
  o = SNeedMore \/ o = SAlert alert_internal_error \/ o = SAlert alert_unexpected_message.
Proof. exact server_rejects_utls_types. Qed.
Print Assumptions C34_server_rejects_utls_types.
(* ... and once it is completely buffered and within maxHandshake the answer is exactly unexpected_message,
   whether or not its body parses *)
Theorem C34_server_rejects_complete_utls_message : forall std rp haveVers vers d0 d1 d2 d3 rest,
  d0 = 8 \/ d0 = 25 -> d1 * 65536 + d2 * 256 + d3 <= maxHandshake ->
  (N.to_nat (d1 * 65536 + d2 * 256 + d3) <= length rest)%nat ->
  server_step std rp haveVers vers (d0 :: d1 :: d2 :: d3 :: rest) = Ok (SAlert alert_unexpected_message).
Proof. exact server_rejects_complete_utls_message. Qed.
Print Assumptions C34_server_rejects_complete_utls_message.
(* the Go types behind the two type bytes are expected nowhere *)
Theorem C34_utls_types_expected_nowhere : forall rp t,
  t = T_utlsClientEncryptedExtensions \/ t = T_utlsCompressedCertificate -> dispatch rp t = SAlert alert_unexpected_message.
Proof. exact dispatch_utls. Qed.
Print Assumptions C34_utls_types_expected_nowhere.

(* non-vacuity: a well-formed client EncryptedExtensions with ALPS parses, and is refused when the server waits for Finished *)
Definition ex_cee : bytes := [8; 0; 0; 10; 0; 8; 68; 105; 0; 4; 1; 2; 3; 4].
Example C34_ex_parses : cee_unmarshal ex_cee = Ok (Some {| ee_codepoint := 17513; ee_settings := [1; 2; 3; 4] |}).
Proof. vm_compute. reflexivity. Qed.
Example C34_ex_refused : server_step (fun _ _ => true) RP_Finished13 true 772 ex_cee = Ok (SAlert alert_unexpected_message).
Proof. vm_compute. reflexivity. Qed.
Example C34_ex_need_more : server_step (fun _ _ => true) RP_ClientHello false 0 [25; 0; 1] = Ok SNeedMore.
Proof. vm_compute. reflexivity. Qed.
Example C34_ex_accepts_expected : server_step (fun _ _ => true) RP_Finished13 true 772 [20; 0; 0; 1; 7] = Ok (SAccept T_finished).
Proof. vm_compute. reflexivity. Qed.

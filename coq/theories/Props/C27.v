(* C27 — forged connections from shared secrets interoperate.
   MakeConnWithCompleteHandshake is modelled in Model/Forge.v (state: AFTER
   fixes/C27-forge-cbc-direction.diff and fixes/C27-weak-ciphers-keep-legacy-chacha.diff), the record
   layer in Model/Record.v. The primitives (AEAD, CBC, RC4, HMAC, PRF) are not modelled: their laws
   [prims_ok] are premises of every theorem (partial proof). *)
From UV Require Import Base.Common Model.Record Model.Forge Gen.Suites
  Proofs.RecordP Proofs.RecordRT Proofs.RecordStream Proofs.ForgeP.
Open Scope N_scope.

Definition supported_tables (tbl : list suite_row) : Prop := tbl = suites_default \/ tbl = suites_weak.

(* every row of the generated tables is one of the five constructions, with the parameters the
   constructors insist on (checked by computation over the generated data) *)
Lemma tables_ok : forall tbl, supported_tables tbl -> forall r, In r tbl -> row_okb r = true.
Proof.
  intros tbl [-> | ->]; apply forallb_forall; vm_compute; reflexivity.
Qed.

(* forge_dir: for every supported suite and version 1.0-1.2 and any secrets, both forged sides exist, and
   in both directions the writer's state matches the reader's: same keys, IVs, MAC keys, sequence
   number 1, and for CBC the writer holds an encrypter and the reader a decrypter. *)
Theorem C27_forge_dir : forall P, prims_ok P ->
  forall tbl, supported_tables tbl ->
  forall version suite ms cr sr, v12_ok version -> In suite (map s_id tbl) ->
  exists c s,
    forge P tbl version suite ms cr sr true = Ok (Some c) /\
    forge P tbl version suite ms cr sr false = Ok (Some s) /\
    synced (cn_out c) (cn_in s) /\ synced (cn_out s) (cn_in c) /\
    h_seq (cn_out c) = 1 /\ h_seq (cn_out s) = 1 /\ h_seq (cn_in c) = 1 /\ h_seq (cn_in s) = 1.
Proof.
  intros P HP tbl Ht version suite ms cr sr Hv Hin.
  destruct (suite_by_id_some tbl suite Hin) as (cs & Hs & Hr & _).
  destruct (forge_dir P HP tbl version suite ms cr sr cs Hv Hs (tables_ok tbl Ht cs Hr))
    as (c & s & A & B & C & D & _ & _ & _ & _ & E & F & G & H).
  exists c, s. tauto.
Qed.
Print Assumptions C27_forge_dir.

(* forge_interop: application data written by either side (any size below 2^63, any random source for
   explicit IVs) is cut into records that the peer's read half decrypts, in order, to exactly the bytes
   written; the pair is matched again afterwards. *)
Theorem C27_forge_interop : forall P, prims_ok P ->
  forall tbl, supported_tables tbl ->
  forall version suite ms cr sr, v12_ok version -> In suite (map s_id tbl) ->
  exists c s,
    forge P tbl version suite ms cr sr true = Ok (Some c) /\
    forge P tbl version suite ms cr sr false = Ok (Some s) /\
    (forall (w r : conn) (rnd : N -> bytes) (b : bytes),
        (w = c /\ r = s) \/ (w = s /\ r = c) ->
        rnd_ok rnd -> len b < 9223372036854775808 ->
        exists recs w' rx_end,
          conn_write P w b rnd = Ok (concat (map snd recs), len b, w') /\
          rchain P version rtAppData (cn_in r) recs rx_end /\
          concat (map fst recs) = b /\
          synced (cn_out w') rx_end /\ wconn_ok w').
Proof.
  intros P HP tbl Ht version suite ms cr sr Hv Hin.
  destruct (suite_by_id_some tbl suite Hin) as (cs & Hs & Hr & _).
  exact (forge_interop P HP tbl version suite ms cr sr cs Hv Hs (tables_ok tbl Ht cs Hr)).
Qed.
Print Assumptions C27_forge_interop.

(* forge_unsupported: a suite id that is not in the table yields nil, for every id (all of N, hence all
   65536 code points), version, role and secrets. *)
Theorem C27_forge_unsupported : forall P tbl version suite ms cr sr is_client,
  ~ In suite (map s_id tbl) -> forge P tbl version suite ms cr sr is_client = Ok None.
Proof.
  intros P tbl version suite ms cr sr is_client Hn. apply forge_unsupported.
  intros r Hr E. apply Hn. rewrite <- E. apply in_map. exact Hr.
Qed.
Print Assumptions C27_forge_unsupported.

(* EnableWeakCiphers only adds suites (after fixes/C27-weak-ciphers-keep-legacy-chacha.diff) *)
Theorem C27_weak_superset : forall id, In id (map s_id suites_default) -> In id (map s_id suites_weak).
Proof.
  intros id H.
  assert (forallb (fun i => existsb (N.eqb i) (map s_id suites_weak)) (map s_id suites_default) = true) as Hs
    by (vm_compute; reflexivity).
  rewrite forallb_forall in Hs. specialize (Hs id H). apply existsb_exists in Hs.
  destruct Hs as (x & Hx & E). apply N.eqb_eq in E. subst. exact Hx.
Qed.

(* ---- non-vacuity ---- *)
(* the laws of the primitives are satisfiable: the toy instance obeys them *)
Example C27_ex_hypotheses_satisfiable : prims_ok toy.
Proof.
  constructor; cbn [aead_seal aead_open aead_ks aead_tag cbc_enc cbc_dec stream_ks hmac prf toy].
  - intros a k n ad p. unfold toy_open, toy_seal, toy_tag, toy_ks.
    unfold zeros. rewrite !app_length, bxor_length, !repeat_length, Nat.min_id.
    replace (length p + aead_overhead <? aead_overhead)%nat with false by (symmetry; apply Nat.ltb_ge; lia).
    replace (length p + aead_overhead - aead_overhead)%nat with (length p) by lia.
    rewrite firstn_app_exact by (rewrite bxor_length, repeat_length; lia).
    rewrite skipn_app_exact by (rewrite bxor_length, repeat_length; lia).
    rewrite bxor_length, repeat_length, Nat.min_id.
    rewrite bxor_invol by (rewrite repeat_length; reflexivity).
    replace (bytes_eqb _ _) with true by (symmetry; apply bytes_eqb_eq; reflexivity). reflexivity.
  - reflexivity.
  - intros. unfold toy_ks. apply repeat_length.
  - intros a k n l1 l2 Hl. unfold toy_ks, zeros. replace l2 with (l1 + (l2 - l1))%nat by lia.
    rewrite repeat_app. apply firstn_app_exact. rewrite repeat_length. reflexivity.
  - intros. unfold toy_tag. apply repeat_length.
  - reflexivity.
  - reflexivity.
  - intros. apply repeat_length.
  - intros. unfold zeros. rewrite <- repeat_app. reflexivity.
  - intros. apply repeat_length.
  - intros. rewrite firstn_length, !app_length. unfold zeros. rewrite repeat_length. lia.
Qed.

(* a concrete forged pair (AES-128-CBC-SHA, TLS 1.2): 100 bytes written by the client decrypt at the server *)
Example C27_ex_cbc_exchange :
  match forge toy suites_default V12 47 (repeat 7 48%nat) (repeat 1 32%nat) (repeat 2 32%nat) true,
        forge toy suites_default V12 47 (repeat 7 48%nat) (repeat 1 32%nat) (repeat 2 32%nat) false with
  | Ok (Some c), Ok (Some s) =>
    match conn_write toy c (repeat 65 100%nat) (fun _ => zeros 16) with
    | Ok (wire, n, _) =>
      match decrypt toy (cn_in s) wire with
      | Ok (p, t, _) => (n =? 100) && bytes_eqb p (repeat 65 100%nat) && (t =? rtAppData)
      | _ => false
      end
    | _ => false
    end
  | _, _ => false
  end = true.
Proof. vm_compute. reflexivity. Qed.

(* the former witness (F-27): before the fix the client of any CBC suite wrote with a CBC *decrypter*
   and read with an *encrypter*, so neither direction matched *)
Example C27_ex_former_witness :
  match forge_prefix toy suites_default V12 47 [] [] [] true with
  | Ok (Some c) =>
    match h_cipher (cn_out c), h_cipher (cn_in c) with
    | Some o, Some i => c_read o && negb (c_read i)
    | _, _ => false
    end
  | _ => false
  end = true.
Proof. vm_compute. reflexivity. Qed.

(* C13 — the client never settles on a protocol version it did not advertise.

   advertised specmin w = the versions the wire hello w advertises: the supported_versions list when the
   extension is present (GREASE entries are not versions), otherwise [spec minimum .. legacy_version].
   versions_synced v specmin w = the hello's own supportedVersions field is that wire list (extension present),
   resp. the configured range stays within [spec minimum .. legacy_version] (extension absent); checked for
   every parrot on every run by Corr/C13Corr.v (CInst) and in every decision case (CVers).
   State of the files: they describe the tree WITH fixes/C13-version-not-offered.diff applied (env_fixed:
   UConn.clientHandshake refuses a version that hello.supportedVersions does not list); the pre-fix
   behaviour (env_unfixed) is refuted below with the Firefox_102 witness. *)
From UV Require Import Base.Common Model.Negotiate Model.NegotiateSess Proofs.NegotiateP Proofs.NegotiateVersP Proofs.NegotiateSessP.

(* whatever the server sends (legacy_version only, supported_versions, HRR first, ...), a completed handshake
   is at a version the wire hello advertised *)
Theorem C13_version_advertised : forall v specmin w fl st,
  versions_synced v specmin w = true -> client_run v fl = Complete st ->
  In (cs_vers st) (advertised specmin w).
Proof. exact version_fixed. Qed.
Print Assumptions C13_version_advertised.

(* before the repair the same statement is false (F-13): Firefox_102 (TLSVersMin 1.0, supported_versions
   {1.3, 1.2}) completes at TLS 1.0 with a legacy server *)
Theorem C13_version_before_fix_refuted : ~ version_statement env_unfixed.
Proof. exact version_unfixed_refuted. Qed.
Print Assumptions C13_version_before_fix_refuted.

(* ... and held exactly for specs whose configured range is within the advertised set *)
Theorem C13_version_before_fix_holds_if : forall v specmin w fl st e,
  versions_consistent v specmin w = true -> client_run_gen e v fl = Complete st ->
  In (cs_vers st) (advertised specmin w).
Proof. exact version_unfixed_holds_if. Qed.
Print Assumptions C13_version_before_fix_holds_if.

(* the version is also one the configuration allows (pickTLSVersion) *)
Theorem C13_version_configured : forall e v fl st,
  client_run_gen e v fl = Complete st ->
  In (cs_vers st) (client_versions v) /\ version_offered e v (cs_vers st) = true.
Proof. exact completed_version. Qed.
Print Assumptions C13_version_configured.

(* downgrade sentinel: a client whose own maximum is TLS 1.3 completes only at 1.3 when the first server
   hello carries DOWNGRD\x01 or DOWNGRD\x00 *)
Theorem C13_canary : forall e v fl st,
  max_version v = V13 ->
  h_tail (first_hello fl) = 1 \/ h_tail (first_hello fl) = 2 ->
  client_run_gen e v fl = Complete st -> cs_vers st = V13.
Proof. exact canary_blocks. Qed.
Print Assumptions C13_canary.

(* the property's reading "whenever the WIRE hello offered TLS 1.3" (supported_versions lists 1.3), for every
   spec: with the repair the sentinel test takes its maximum from what the hello lists *)
Theorem C13_canary_wire : forall v specmin w fl st,
  versions_synced v specmin w = true -> offers13 w = true ->
  (h_tail (first_hello fl) = 1 \/ h_tail (first_hello fl) = 2) ->
  client_run v fl = Complete st -> cs_vers st = V13.
Proof. exact canary_fixed. Qed.
Print Assumptions C13_canary_wire.

(* before the repair that reading was false for a spec whose TLSVersMax is below the maximum its
   supported_versions extension lists (witness: TLSVersMax 1.2 with {1.3, 1.2}; replayed by the runner
   with such a custom spec, key canary/custom-max-below-offered) ... *)
Theorem C13_canary_wire_before_fix_refuted : ~ canary_statement env_unfixed.
Proof. exact canary_unfixed_refuted. Qed.
Print Assumptions C13_canary_wire_before_fix_refuted.

(* ... and held exactly for specs whose configured maximum is 1.3 whenever the wire offers 1.3 *)
Theorem C13_canary_before_fix_holds_if : forall e v w fl st,
  canary_consistent v w = true -> offers13 w = true ->
  (h_tail (first_hello fl) = 1 \/ h_tail (first_hello fl) = 2) ->
  client_run_gen e v fl = Complete st -> cs_vers st = V13.
Proof. exact canary_holds_if. Qed.
Print Assumptions C13_canary_before_fix_holds_if.

(* ---- histories: the ClientHello offers a TLS <= 1.2 session cached by an earlier connection ----
   client_run_sess (Model/NegotiateSess.v) adds the resumption branch of processServerHello; the version pick, the
   offered-version check and the sentinel test precede it and do not look at the session. *)
Theorem C13_session_conservative : forall e v ems fl, client_run_sess e v None ems fl = client_run_gen e v fl.
Proof. exact sess_none. Qed.
Print Assumptions C13_session_conservative.

Theorem C13_version_advertised_with_session : forall v specmin w sess ems fl st,
  versions_synced v specmin w = true ->
  client_run_sess env_fixed v sess ems fl = Complete st -> In (cs_vers st) (advertised specmin w).
Proof. exact version_sess_fixed. Qed.
Print Assumptions C13_version_advertised_with_session.

(* whatever session is offered and whether or not the server resumes it *)
Theorem C13_canary_with_session : forall v specmin w sess ems fl st,
  versions_synced v specmin w = true -> offers13 w = true ->
  h_tail (first_hello fl) = 1 \/ h_tail (first_hello fl) = 2 ->
  client_run_sess env_fixed v sess ems fl = Complete st -> cs_vers st = V13.
Proof. exact canary_sess_fixed. Qed.
Print Assumptions C13_canary_with_session.

(* in particular when the cached session has the very version the server answers with *)
Theorem C13_canary_session_same_version : forall v specmin w s ems fl,
  versions_synced v specmin w = true -> offers13 w = true ->
  h_tail (first_hello fl) = 1 \/ h_tail (first_hello fl) = 2 ->
  h_sv (first_hello fl) = 0 -> h_vers (first_hello fl) = s_vers s -> s_vers s <> V13 ->
  exists a, client_run_sess env_fixed v (Some s) ems fl = Abort a.
Proof. exact canary_sess_same_version. Qed.
Print Assumptions C13_canary_session_same_version.

(* a resumed session is resumed at its own version and suite *)
Theorem C13_resumed_at_session_version : forall e v vers h fl s ems st,
  resumes v (Some s) h = true -> run12_sess e v vers h fl (Some s) ems = Complete st ->
  s_vers s = vers /\ s_suite s = cs_suite st /\ In (cs_suite st) (cv_suites v) /\ s_ems s = ems.
Proof. exact run12_sess_resumed. Qed.
Print Assumptions C13_resumed_at_session_version.

(* the premise the correspondence checks on every run (Corr/C13Corr.v): versions_ok = versions_synced, or - hello without
   a supported_versions extension, after fixes/C13-no-supported-versions-extension - Hello.SupportedVersions is the accepted
   versions up to legacy_version. Both C13 conclusions under it, with and without an offered session. *)
Theorem C13_version_advertised_ok : forall v specmin w fl st,
  versions_ok v specmin w = true -> client_run v fl = Complete st -> In (cs_vers st) (advertised specmin w).
Proof. exact version_fixed_ok. Qed.
Print Assumptions C13_version_advertised_ok.

Theorem C13_version_advertised_ok_with_session : forall v specmin w sess ems fl st,
  versions_ok v specmin w = true ->
  client_run_sess env_fixed v sess ems fl = Complete st -> In (cs_vers st) (advertised specmin w).
Proof. exact version_sess_ok. Qed.
Print Assumptions C13_version_advertised_ok_with_session.

Theorem C13_canary_ok_with_session : forall v specmin w sess ems fl st,
  versions_ok v specmin w = true -> offers13 w = true ->
  h_tail (first_hello fl) = 1 \/ h_tail (first_hello fl) = 2 ->
  client_run_sess env_fixed v sess ems fl = Complete st -> cs_vers st = V13.
Proof. exact canary_sess_ok. Qed.
Print Assumptions C13_canary_ok_with_session.

(* ---- hypotheses are satisfiable ---- *)
Example C13_ex_firefox102_after_fix :
  versions_synced f13_view 769 f13_wire = true /\
  versions_consistent f13_view 769 f13_wire = false /\
  client_run f13_view f13_flight = Abort a_protocol_version /\
  client_run_gen env_unfixed f13_view f13_flight = Complete (mkState 769 49171 29 [] false false) /\
  client_run f13_view (mkFlight None (mkHello 771 0 0 [9] 49171 0 0 0 false None []) [] None (Some 29) true)
  = Complete (mkState 771 49171 29 [] false false).
Proof. vm_compute. repeat split; reflexivity. Qed.

Example C13_ex_canary :
  max_version f13_view = V13 /\
  canary_consistent f13_view f13_wire = true /\ offers13 f13_wire = true /\
  client_run f13_view (mkFlight None (mkHello 771 0 1 [9] 49171 0 0 0 false None []) [] None (Some 29) true)
  = Abort a_illegal_parameter /\
  canary_consistent canary_view canary_wire = false /\
  versions_synced canary_view 771 canary_wire = true /\
  client_run canary_view canary_flight = Abort a_illegal_parameter /\
  client_run_gen env_unfixed canary_view canary_flight = Complete (mkState 771 49199 29 [] false false).
Proof. vm_compute. repeat split; reflexivity. Qed.

Example C13_ex_no_extension :
  let w := mkWire 771 [49199] [0] [29] [] [] [] 0 [] false [] in
  let v := mkView [49199] [29] [] [] [] 0 [] false 769 771 false 0 false [771; 770; 769] 0 in
  versions_synced v 769 w = true /\ advertised 769 w = [771; 770; 769] /\
  client_run v (mkFlight None (mkHello 770 0 0 [] 49199 0 0 0 false None []) [] None (Some 29) true)
  = Complete (mkState 770 49199 29 [] false false).
Proof. vm_compute. repeat split; reflexivity. Qed.

Example C13_ex_resumption :
  let s := mkSess 771 49171 true in
  (* the server resumes (echoes the session id), no sentinel: completes, resumed *)
  client_run_sess env_fixed f13_view (Some s) true
    (mkFlight None (mkHello 771 0 0 [1; 2; 3] 49171 0 0 0 false None []) [] None None true)
  = Complete (mkState 771 49171 0 [] false false) /\
  did_resume env_fixed f13_view (Some s)
    (mkFlight None (mkHello 771 0 0 [1; 2; 3] 49171 0 0 0 false None []) [] None None true) = true /\
  (* same flight with DOWNGRD\x01: refused although the offered session is a TLS 1.2 one *)
  client_run_sess env_fixed f13_view (Some s) true
    (mkFlight None (mkHello 771 0 1 [1; 2; 3] 49171 0 0 0 false None []) [] None None true)
  = Abort a_illegal_parameter /\
  (* full handshake (other session id) with the sentinel: refused as well *)
  client_run_sess env_fixed f13_view (Some s) true
    (mkFlight None (mkHello 771 0 1 [9] 49171 0 0 0 false None []) [] None (Some 29) true)
  = Abort a_illegal_parameter /\
  (* resumption with another suite than the session's: refused *)
  client_run_sess env_fixed f13_view (Some s) true
    (mkFlight None (mkHello 771 0 0 [1; 2; 3] 47 0 0 0 false None []) [] None None true)
  = Abort a_handshake_failure.
Proof. vm_compute. repeat split; reflexivity. Qed.

(* ======================================================================================================
   Composition with the marshal model (Model/WriteToUConn.v, Proofs/ComposeP.v, Proofs/ComposeW.v; reading guide at
   the end of Props/C12.v): the premise [versions_synced] is a theorem for the view UConn.ApplyConfig builds and the
   bytes MarshalClientHelloNoECH emits from the same header fields and extension list - and the check that states it
   found a spec for which the code as it was did NOT satisfy C13.

   STATE: apply_config models ApplyConfig WITH fixes/C13-no-supported-versions-extension.diff; the function before
   that fix is apply_config_before and C13_version_without_extension_before_fix_refuted keeps its witness: a spec
   with TLSVersMax 1.3 and no SupportedVersionsExtension (or a parrot whose extension the caller removed) sends
   legacy_version 1.2 without supported_versions and completed a handshake at TLS 1.3 - reproduced on the real code
   (notes/Compose.md).
   ====================================================================================================== *)
From UV Require Model.Ext Model.Marshal Model.ChMarshal Model.WriteToUConn Proofs.ComposeP Proofs.ComposeW.

(* supported_versions sent: Hello.SupportedVersions is the list on the wire (versions_synced for every spec minimum).
   Not sent (fixed ApplyConfig): Hello.SupportedVersions = the versions the configuration accepts up to legacy_version *)
Theorem C13_versions_view_is_wire : forall env bbs padto s es raw s' load ecdhe mlkem sess,
  ChMarshal.wf_specb (WriteToUConn.us_hdr s) es = true ->
  forallb WriteToUConn.typed_ext es = true ->
  ChMarshal.marshal_hello bbs padto (WriteToUConn.us_hdr s) es = Ok raw ->
  WriteToUConn.apply_config env (ChMarshal.marshal_hello bbs padto (WriteToUConn.us_hdr s) es) s es = Ok s' ->
  let v := WriteToUConn.view_of (WriteToUConn.finish load es s') es ecdhe mlkem sess in
  exists w, WriteToUConn.wire_of raw = Some w /\ w_legacy w = Marshal.h_vers (WriteToUConn.us_hdr s) /\
    if existsb WriteToUConn.is_versions_ext es
    then w_has_sv w = true /\ forall specmin, versions_synced v specmin w = true
    else w_has_sv w = false
         /\ cv_sv v = filter (fun x => x <=? Marshal.h_vers (WriteToUConn.us_hdr s)) (client_versions v)
         /\ cv_sv v <> [].
Proof. exact ComposeP.compose_versions. Qed.
Print Assumptions C13_versions_view_is_wire.

(* THE PROPERTY without the premise: for every header and extension list inside the C02 precondition, every state of
   the UConn before ApplyConfig, every server flight: a completed handshake is at a version the marshalled hello
   advertised. specmin = the spec's minimum; Config.MinVersion (written by SetTLSVers from it) must not be below it. *)
Theorem C13_version_advertised_from_spec : forall env bbs padto s es raw s' load ecdhe mlkem sess,
  ChMarshal.wf_specb (WriteToUConn.us_hdr s) es = true ->
  forallb WriteToUConn.typed_ext es = true ->
  ChMarshal.marshal_hello bbs padto (WriteToUConn.us_hdr s) es = Ok raw ->
  WriteToUConn.apply_config env (ChMarshal.marshal_hello bbs padto (WriteToUConn.us_hdr s) es) s es = Ok s' ->
  forall specmin fl st,
  specmin <= (if WriteToUConn.us_cfg_min s =? 0 then 771 else WriteToUConn.us_cfg_min s) ->
  client_run (WriteToUConn.view_of (WriteToUConn.finish load es s') es ecdhe mlkem sess) fl = Complete st ->
  exists w, WriteToUConn.wire_of raw = Some w /\ In (cs_vers st) (advertised specmin w).
Proof. exact ComposeP.compose_version_advertised. Qed.
Print Assumptions C13_version_advertised_from_spec.

(* ... and starting from a ClientHelloSpec: mn = the minimum SetTLSVers derives from it *)
Theorem C13_version_advertised_from_preset : forall sp c fr h es mn mx env bbs padto raw s' load ecdhe mlkem sess fl st,
  Preset.apply_preset sp c fr = Ok (h, es) -> Preset.set_tls_vers sp = Ok (mn, mx) ->
  ChMarshal.wf_specb h es = true -> forallb WriteToUConn.typed_ext es = true ->
  ChMarshal.marshal_hello bbs padto h es = Ok raw ->
  WriteToUConn.apply_config env (ChMarshal.marshal_hello bbs padto h es) (ComposeW.preset_state h mn mx) es = Ok s' ->
  client_run (WriteToUConn.view_of (WriteToUConn.finish load es s') es ecdhe mlkem sess) fl = Complete st ->
  exists w, WriteToUConn.wire_of raw = Some w /\ In (cs_vers st) (advertised mn w).
Proof. exact ComposeW.version_advertised_preset. Qed.
Print Assumptions C13_version_advertised_from_preset.

(* the downgrade sentinel, without the premise: the marshalled hello lists TLS 1.3 *)
Theorem C13_canary_from_spec : forall env bbs padto s es raw s' load ecdhe mlkem sess,
  ChMarshal.wf_specb (WriteToUConn.us_hdr s) es = true ->
  forallb WriteToUConn.typed_ext es = true ->
  ChMarshal.marshal_hello bbs padto (WriteToUConn.us_hdr s) es = Ok raw ->
  WriteToUConn.apply_config env (ChMarshal.marshal_hello bbs padto (WriteToUConn.us_hdr s) es) s es = Ok s' ->
  forall fl st,
  (exists w, WriteToUConn.wire_of raw = Some w /\ offers13 w = true) ->
  h_tail (first_hello fl) = 1 \/ h_tail (first_hello fl) = 2 ->
  client_run (WriteToUConn.view_of (WriteToUConn.finish load es s') es ecdhe mlkem sess) fl = Complete st ->
  cs_vers st = V13.
Proof. exact ComposeP.compose_canary. Qed.
Print Assumptions C13_canary_from_spec.

(* the same statement as C13_version_advertised_from_spec about ApplyConfig BEFORE the repair is false:
   header legacy_version 1.2, extensions supported_groups / key_share / signature_algorithms and no supported_versions,
   Config 1.2..1.3 and Hello.SupportedVersions [1.3; 1.2] as SetTLSVers leaves them for TLSVersMin 1.2 / TLSVersMax 1.3;
   a ServerHello selecting TLS 1.3 is accepted although the wire advertises [1.2] only *)
Theorem C13_version_without_extension_before_fix_refuted : ~ ComposeW.version_statement_before.
Proof. exact ComposeW.version_before_refuted. Qed.
Print Assumptions C13_version_without_extension_before_fix_refuted.

(* with the repair that handshake is refused (protocol_version): Hello.SupportedVersions is [1.2] *)
Example C13_ex_without_extension_after_fix :
  match ChMarshal.marshal_hello (fun _ => 512) 0%Z ComposeW.w13_hdr ComposeW.w13_exts with
  | Ok raw =>
    match WriteToUConn.apply_config (WriteToUConn.mkEnvW false) (Ok raw) ComposeW.w13_state ComposeW.w13_exts with
    | Ok s' => WriteToUConn.us_versions s' = [771]
               /\ client_run (WriteToUConn.view_of s' ComposeW.w13_exts 29 false 0) ComposeW.w13_flight = Abort a_protocol_version
    | _ => False
    end
  | _ => False
  end.
Proof. exact ComposeW.version_after_fix. Qed.

(* non-vacuity of the premises on a shipped parrot: Chrome_133 through ApplyPreset, marshal, ApplyConfig and the strict
   parser; versions_synced and offers13 hold by computation, the client completes at TLS 1.3 (same term as
   C12_ex_chrome133_composed) *)
Example C13_ex_chrome133_composed : ComposeW.ex_chrome133 = true.
Proof. vm_compute. reflexivity. Qed.

(* THE PROPERTY for every shipped parrot (Gen/Parrots.v), every rearrangement the shuffle can produce, every Config with an
   SNI name of at most 255 bytes and OmitEmptyPsk, every randomness, every server flight: no premise on ApplyPreset's output
   left (Model/PresetOk.v, Proofs/PresetOkC.v; reading guide at the end of Props/C02.v). mn = the spec's minimum. *)
From UV Require Model.PresetOk Model.Shuffle Model.ParrotSpec Gen.Parrots Proofs.PresetOkC.
Theorem C13_version_advertised_from_parrot : forall p swaps exts', In p Parrots.all ->
  Shuffle.shuffle ParrotSpec.fixedb swaps (Preset.sp_exts (Preset.p_spec p)) = Ok exts' ->
  forall c fr h es, PresetOkC.parrot_class c ->
  Preset.apply_preset (PresetOk.with_exts (Preset.p_spec p) exts') c fr = Ok (h, es) ->
  forall mn mx env bbs padto raw s' load ecdhe mlkem sess fl st,
  Preset.set_tls_vers (PresetOk.with_exts (Preset.p_spec p) exts') = Ok (mn, mx) ->
  ChMarshal.marshal_hello bbs padto h es = Ok raw ->
  WriteToUConn.apply_config env (ChMarshal.marshal_hello bbs padto h es) (ComposeW.preset_state h mn mx) es = Ok s' ->
  client_run (WriteToUConn.view_of (WriteToUConn.finish load es s') es ecdhe mlkem sess) fl = Complete st ->
  exists w, WriteToUConn.wire_of raw = Some w /\ In (cs_vers st) (advertised mn w).
Proof. exact PresetOkC.parrot_version_advertised. Qed.
Print Assumptions C13_version_advertised_from_parrot.

(* imported last, for the driver's closure scan only (see the end of Props/C12.v) *)
From UV Require Import Model.WriteToUConn Proofs.ComposeP Proofs.ComposeW.
From UV Require Import Model.PresetOk Proofs.PresetOkP Proofs.PresetOkS Proofs.PresetOkT Proofs.PresetOkC.

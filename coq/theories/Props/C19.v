(* C19 — session resumption works and never breaks the next handshake.
   State of these files: they model the FIXED code (fixes/C19-ems-downgrade.diff applied:
   loadSession does not offer an extended-master-secret session in a hello without the extension).
   The HelloRetryRequest clause of the property is NOT true of the code for uTLS-built hellos
   (finding psk-hrr/<id>): stated in full, refuted, and proved under the strongest true condition. *)
From UV Require Import Base.Common Model.Resume Proofs.ResumeP.

(* ---- resumption of the next connection, after a history of any length ---- *)
(* c1 completes (full or resumed) at TLS 1.2 with session_ticket in the spec / TLS 1.3 with pre_shared_key and
   psk_key_exchange_modes; c2 has the same parrot, name, server configuration; the stored session is unexpired at c2's
   time; no HelloRetryRequest unless the hello is built by crypto/tls. Then c2 offers exactly that session and resumes. *)
Theorem C19_resume_next : forall h c1 c2 v,
  let ca := final [] h in
  completed (snd (step ca c1)) = true ->
  negotiate (c_srv c1) (c_spec c1) = Some v ->
  can_resume (c_spec c1) (c_srv c1) v ->
  same_config c1 c2 -> spec_wf (c_spec c2) (c_omit c2) ->
  mem (c_suite c1) (sp_suites (c_spec c1)) = true ->
  (v = V13 -> hrr_ok c2) ->
  exists s, lookup (c_name c1) (fst (step ca c1)) = Some s /\
    (unexpired s (c_now c2) ->
      resumed (snd (step (fst (step ca c1)) c2)) = true /\
      exists k, o_offer (snd (step (fst (step ca c1)) c2)) = Some (k, s)).
Proof. exact resume_next_any_history. Qed.
Print Assumptions C19_resume_next.

(* the same from an arbitrary cache state (a fortiori any reachable one) *)
Theorem C19_resume_next_any_cache : resume_next_stmt hrr_ok.
Proof. exact resume_next. Qed.
Print Assumptions C19_resume_next_any_cache.

(* "unexpired" is what one expects after a full handshake: 7 days, and the certificate's NotAfter *)
Theorem C19_unexpired_after_full : forall ca c v s now,
  completed (snd (step ca c)) = true -> resumed (snd (step ca c)) = false ->
  negotiate (c_srv c) (c_spec c) = Some v ->
  (v = V13 -> has_modes (c_spec c) = true) -> (v <> V13 -> has_ticket (c_spec c) = true) ->
  lookup (c_name c) (fst (step ca c)) = Some s ->
  now <= c_now c + LIFETIME -> now <= sv_notafter (c_srv c) -> unexpired s now.
Proof. exact full_unexpired. Qed.
Print Assumptions C19_unexpired_after_full.

(* ---- histories of any length: every later connection resumes ---- *)
(* c1 completes; every connection of `rest` has c1's parrot, name, server, verify mode (follows), its clock in a
   window [B - 7 days, B] in which the session stored by c1 is unexpired, no HelloRetryRequest unless HelloGolang.
   Then each of them resumes and offers exactly the session its predecessor left under the cache key (chain_ok):
   the Go server issues a new ticket on every resumed connection (TLS 1.2 doResumeHandshake always; TLS 1.3 after
   each handshake), the client stores it, and the invariant (good session, unexpired until B) is re-established. *)
Theorem C19_resume_all : forall ca c1 rest v B,
  completed (snd (step ca c1)) = true ->
  negotiate (c_srv c1) (c_spec c1) = Some v ->
  can_resume (c_spec c1) (c_srv c1) v ->
  mem (c_suite c1) (sp_suites (c_spec c1)) = true ->
  (forall s, lookup (c_name c1) (fst (step ca c1)) = Some s -> unexpired s B) ->
  Forall (follows c1 v B) rest ->
  chain_ok (c_name c1) (fst (step ca c1)) rest.
Proof. exact resume_all. Qed.
Print Assumptions C19_resume_all.

(* the same with the window made explicit when c1 is a full handshake: B within 7 days of c1 and the certificate's NotAfter *)
Theorem C19_resume_all_after_full : forall ca c1 rest v B,
  completed (snd (step ca c1)) = true -> resumed (snd (step ca c1)) = false ->
  negotiate (c_srv c1) (c_spec c1) = Some v ->
  can_resume (c_spec c1) (c_srv c1) v ->
  mem (c_suite c1) (sp_suites (c_spec c1)) = true ->
  B <= c_now c1 + LIFETIME -> B <= sv_notafter (c_srv c1) ->
  Forall (follows c1 v B) rest ->
  chain_ok (c_name c1) (fst (step ca c1)) rest.
Proof.
  intros ca c1 rest v B Hc Hr Ng Cr Ms T1 T2 F. apply (resume_all ca c1 rest v B Hc Ng Cr Ms); [|exact F].
  intros s L. apply (full_unexpired ca c1 v s B Hc Hr Ng); try assumption.
  - intros ->. destruct Cr as [[E _]|[_ [_ [M _]]]]; [discriminate|exact M].
  - intros N. destruct Cr as [[_ T]|[E _]]; [exact T|congruence].
Qed.
Print Assumptions C19_resume_all_after_full.

(* ---- arbitrary interleavings: a connection depends only on the entry under its own cache key ---- *)
Theorem C19_step_local : forall ca1 ca2 c, lookup (c_name c) ca1 = lookup (c_name c) ca2 ->
  snd (step ca1 c) = snd (step ca2 c) /\ lookup (c_name c) (fst (step ca1 c)) = lookup (c_name c) (fst (step ca2 c)).
Proof. exact step_local. Qed.
Print Assumptions C19_step_local.

(* in any history of connections to different names / with different parrots sharing the cache, the connections with
   cache key k observe exactly what they would observe if the other connections had not happened *)
Theorem C19_interleave_local : forall h ca k,
  run_key k ca h = run ca (filter (fun c => c_name c =? k) h).
Proof. intros h ca k. apply interleave_local. reflexivity. Qed.
Print Assumptions C19_interleave_local.

(* ---- including when the server answers with a HelloRetryRequest: full statement, refuted ---- *)
Definition C19_resume_hrr_full : Prop := resume_next_stmt (fun _ => True).

Definition chrome_psk : spec :=
  mkSpec false [XOther; XEms; XTicket; XOther; XPskModes; XOther; XPsk] [V13; V12] [4865; 4866; 4867; 49195; 49199] [29; 23; 24] [29].
Definition chrome : spec :=
  mkSpec false [XOther; XEms; XTicket; XOther; XPskModes; XOther] [V13; V12] [4865; 4866; 4867; 49195; 49199] [29; 23; 24] [29].
Definition p360 : spec := mkSpec false [XOther; XTicket; XOther] [V12; V11; V10] [49195; 49199; 47] [23; 24; 25] [].
Definition golang : spec := mkSpec true [] [V13; V12] [4865; 4866; 4867; 49195; 49199] [4588; 29; 23; 24; 25] [4588; 29].
Definition srv12 : server := mkServer 7 [V12] [49195; 49199; 47] [4588; 29; 23; 24; 25] 5000000 [1; 2; 3; 4; 5; 6].
Definition srv13 : server := mkServer 7 [V13] [49195; 49199; 47] [4588; 29; 23; 24; 25] 5000000 [1; 2; 3; 4; 5; 6].
Definition srv13hrr : server := mkServer 7 [V13] [49195; 49199; 47] [24] 5000000 [1; 2; 3; 4; 5; 6].
Definition offer_code_ex (o : obs) : N := match o_offer o with None => 0 | Some (ViaTicket, _) => 1 | Some (ViaPsk, _) => 2 end.
Definition at_ (sp : spec) (sv : server) (name now suite : N) : conn := mkConn sp name 100 sv now true false suite 120 0 false.

Theorem C19_resume_hrr_refuted : ~ C19_resume_hrr_full.
Proof.
  intros H.
  set (c1 := at_ chrome_psk srv13hrr 1 1000 4865). set (c2 := at_ chrome_psk srv13hrr 1 2000 4865).
  assert (H1 : completed (snd (step [] c1)) = true) by (vm_compute; reflexivity).
  assert (H2 : negotiate (c_srv c1) (c_spec c1) = Some V13) by reflexivity.
  assert (H3 : can_resume (c_spec c1) (c_srv c1) V13).
  { right. split; [reflexivity|]. split; [reflexivity|]. split; [reflexivity|]. vm_compute. discriminate. }
  assert (H4 : same_config c1 c2).
  { split; [reflexivity|]. split; [reflexivity|]. split; [reflexivity|]. split; [reflexivity|]. split; [reflexivity|]. split; reflexivity. }
  assert (H5 : spec_wf (c_spec c2) (c_omit c2)).
  { intros _. split; [reflexivity|]. split; [vm_compute; apply le_n|]. intros _. reflexivity. }
  assert (H6 : mem (c_suite c1) (sp_suites (c_spec c1)) = true) by reflexivity.
  destruct (H [] c1 c2 V13 H1 H2 H3 H4 H5 H6 (fun _ => I)) as [s [L R]].
  vm_compute in L. inversion L; subst s. clear L.
  assert (U : unexpired (mkSession V13 4865 false 1000 605800 true 5000000 [1; 2; 3; 4; 5; 6] 1 (mkTicket 7 V13 4865 false 1000 120) false) (c_now c2)).
  { split; [|split]; apply N.leb_le; reflexivity. }
  destruct (R U) as [Rs _]. vm_compute in Rs. discriminate.
Qed.
Print Assumptions C19_resume_hrr_refuted.

(* strongest true condition: the hello is rebuilt by crypto/tls (HelloGolang), whatever the server's groups *)
Theorem C19_resume_hrr_holds_if : forall ca c1 c2,
  sp_go (c_spec c1) = true ->
  completed (snd (step ca c1)) = true ->
  negotiate (c_srv c1) (c_spec c1) = Some V13 ->
  selected_group (c_srv c1) (c_spec c1) <> None ->
  same_config c1 c2 ->
  mem (c_suite c1) (sp_suites (c_spec c1)) = true ->
  exists s, lookup (c_name c1) (fst (step ca c1)) = Some s /\
    (unexpired s (c_now c2) -> resumed (snd (step (fst (step ca c1)) c2)) = true).
Proof.
  intros ca c1 c2 G Hc Ng Sg Sc Ms.
  destruct (resume_next ca c1 c2 V13 Hc Ng) as [s [L R]]; try assumption.
  - right. unfold has_psk, has_modes. rewrite G. auto.
  - destruct Sc as [E _]. unfold spec_wf. rewrite E, G. discriminate.
  - intros _. left. destruct Sc as [E _]. rewrite E. exact G.
  - exists s. split; [exact L|]. intros U. apply R, U.
Qed.
Print Assumptions C19_resume_hrr_holds_if.

(* ---- pre_shared_key is last; inserting the real binder leaves the hello length unchanged ---- *)
Theorem C19_psk_last : forall ca c ca' off,
  build ca c = BOk ca' off true -> sp_go (c_spec c) = false -> exists l', sp_exts (c_spec c) = l' ++ [XPsk].
Proof. exact build_psk_last. Qed.
Print Assumptions C19_psk_last.

(* for every MAC whose output has the size of the suite's hash (HMAC does), every prefix (everything marshalled before
   the extension), every non-empty identity list: PatchBuiltHello succeeds, yields the same hello with the real binder,
   and the length is unchanged — uApplyPatch's length assertion cannot fire *)
Theorem C19_binder_len_invariant : forall (mac : N -> bytes -> bytes -> bytes),
  (forall su k t, length (mac su k t) = N.to_nat (hash_len su)) ->
  forall prefix ids su key, ids <> [] ->
    let old := [placeholder su] in
    let raw := prefix ++ psk_ext ids old in
    let new := [mac su key (firstn (length raw - N.to_nat (2 + binders_len old)) raw)] in
    patch raw old new = Ok (prefix ++ psk_ext ids new) /\ length (prefix ++ psk_ext ids new) = length raw.
Proof. exact binder_len_invariant. Qed.
Print Assumptions C19_binder_len_invariant.

(* ---- never for a different server name ---- *)
(* c_name is the real key function clientSessionCacheKey: Config.ServerName exactly as configured when non-empty
   (DNS name, name with a trailing dot, IPv4/IPv6 literal: no normalisation), else the remote address.
   In every history from an empty cache every offered session was stored by a connection with the same key *)
Theorem C19_no_cross_name : forall h, offers_ok same_name h (run [] h).
Proof. intros h. apply (no_cross_name_run h []). constructor. Qed.
Print Assumptions C19_no_cross_name.

(* ... and two connections with different non-empty ServerNames never have the same key, whatever their remote
   addresses; a connection without ServerName is keyed by its remote address *)
Theorem C19_key_separates_names : forall c1 c2,
  c_sname c1 <> 0 -> c_sname c2 <> 0 -> c_sname c1 <> c_sname c2 -> c_name c1 <> c_name c2.
Proof. exact key_separates_names. Qed.
Print Assumptions C19_key_separates_names.

Theorem C19_key_function : forall c, c_name c = if c_sname c =? 0 then c_addr c else c_sname c.
Proof. reflexivity. Qed.

(* and a connection reads and writes only its own cache key *)
Theorem C19_cache_key_only : forall ca c k s,
  (o_offer (snd (step ca c)) = Some (k, s) -> lookup (c_name c) ca = Some s) /\
  (forall n, n <> c_name c -> lookup n (fst (step ca c)) = lookup n ca).
Proof. intros ca c k s. split; [intros H; apply (step_offer _ _ _ _ H)|apply step_other_keys]. Qed.
Print Assumptions C19_cache_key_only.

(* ---- never an EMS session in a hello without extended_master_secret (any cache, any history) ---- *)
Theorem C19_ems_safe : forall h ca, offers_ok ems_safe h (run ca h).
Proof. exact ems_safe_run. Qed.
Print Assumptions C19_ems_safe.

(* ---- non-vacuity ---- *)
(* the history that made the server abort before the fix: Chrome (EMS) then 360 (no EMS), one cache, TLS 1.2 *)
Example C19_ex_former_ems_witness :
  map (fun o => (offer_code_ex o, o_out o)) (run [] [at_ chrome srv12 1 1000 49195; at_ p360 srv12 1 2000 49195; at_ p360 srv12 1 3000 49195])
  = [(0, Done false); (0, Done false); (1, Done true)].
Proof. vm_compute. reflexivity. Qed.
Example C19_ex_resume12 : map resumed (run [] [at_ chrome srv12 1 1000 49195; at_ chrome srv12 1 2000 49195; at_ chrome srv12 2 2500 49195]) = [false; true; false].
Proof. vm_compute. reflexivity. Qed.
Example C19_ex_resume13 : map resumed (run [] [at_ chrome_psk srv13 1 1000 4865; at_ chrome_psk srv13 1 2000 4865; at_ chrome srv13 1 3000 4865]) = [false; true; false].
Proof. vm_compute. reflexivity. Qed.
Example C19_ex_expired : map resumed (run [] [at_ chrome_psk srv13 1 1000 4865; at_ chrome_psk srv13 1 700000 4865]) = [false; false].
Proof. vm_compute. reflexivity. Qed.
Example C19_ex_hrr_golang : map resumed (run [] [at_ golang srv13hrr 1 1000 4865; at_ golang srv13hrr 1 2000 4865]) = [false; true].
Proof. vm_compute. reflexivity. Qed.
Example C19_ex_hrr_psk : map o_out (run [] [at_ chrome_psk srv13hrr 1 1000 4865; at_ chrome_psk srv13hrr 1 2000 4865; at_ chrome_psk srv13hrr 1 3000 4865])
  = [Done false; CliErr E_PSK_HRR; Done false].
Proof. vm_compute. reflexivity. Qed.
(* the hypotheses of C19_resume_next hold for a concrete pair *)
Example C19_ex_hyps :
  let c1 := at_ chrome_psk srv13 1 1000 4865 in let c2 := at_ chrome_psk srv13 1 2000 4865 in
  completed (snd (step [] c1)) = true /\ negotiate srv13 chrome_psk = Some V13 /\ can_resume chrome_psk srv13 V13 /\
  same_config c1 c2 /\ spec_wf chrome_psk true /\ hrr_ok c2 /\
  (forall s, lookup 1 (fst (step [] c1)) = Some s -> unexpired s 2000).
Proof.
  cbv zeta. split; [vm_compute; reflexivity|]. split; [reflexivity|].
  split. { right. split; [reflexivity|]. split; [reflexivity|]. split; [reflexivity|]. vm_compute. discriminate. }
  split. { split; [reflexivity|]. split; [reflexivity|]. split; [reflexivity|]. split; [reflexivity|]. split; [reflexivity|]. split; reflexivity. }
  split. { intros _. split; [reflexivity|]. split; [vm_compute; apply le_n|]. intros _. reflexivity. }
  split. { right. reflexivity. }
  intros s L. vm_compute in L. inversion L; subst s. split; [|split]; apply N.leb_le; reflexivity.
Qed.
(* IP-literal names 4 / 5 reaching the same address 100; then no ServerName at all (InsecureSkipVerify), key = address *)
Example C19_ex_ip_names : map resumed (run [] [at_ golang srv13 4 1000 4865; at_ golang srv13 5 2000 4865; at_ golang srv13 4 3000 4865]) = [false; false; true].
Proof. vm_compute. reflexivity. Qed.
Example C19_ex_no_name :
  let c n t := mkConn golang n 100 srv13 t true true 4865 120 0 false in
  map resumed (run [] [c 0 1000; c 4 2000; c 0 3000; c 4 4000]) = [false; false; true; true].
Proof. vm_compute. reflexivity. Qed.
(* five connections: the chain resumes throughout (TLS 1.2 keeps the server-side creation time, TLS 1.3 refreshes it) *)
Example C19_ex_chain12 : map resumed (run [] (map (fun t => at_ chrome srv12 1 t 49195) [1000; 2000; 90000; 400000; 605000; 606000])) = [false; true; true; true; true; false].
Proof. vm_compute. reflexivity. Qed.
Example C19_ex_chain13 : map resumed (run [] (map (fun t => at_ chrome_psk srv13 1 t 4865) [1000; 2000; 90000; 400000; 605000; 1200000])) = [false; true; true; true; true; true].
Proof. vm_compute. reflexivity. Qed.
Example C19_ex_follows :
  let c1 := at_ chrome_psk srv13 1 1000 4865 in
  Forall (follows c1 V13 605800) [at_ chrome_psk srv13 1 2000 4865; at_ chrome_psk srv13 1 90000 4865; at_ chrome_psk srv13 1 605800 4865].
Proof.
  cbv zeta.
  assert (F : forall t, (t <=? 605800) = true -> (605800 <=? t + LIFETIME) = true ->
              follows (at_ chrome_psk srv13 1 1000 4865) V13 605800 (at_ chrome_psk srv13 1 t 4865)).
  { intros t H1 H2. split.
    { split; [reflexivity|]. split; [reflexivity|]. split; [reflexivity|]. split; [reflexivity|]. split; [reflexivity|]. split; reflexivity. }
    split. { intros _. split; [reflexivity|]. split; [vm_compute; apply le_n|]. intros _. reflexivity. }
    split. { intros _. right. reflexivity. }
    split; apply N.leb_le; assumption. }
  repeat constructor; apply F; reflexivity.
Qed.
Example C19_ex_interleave :
  let a t := at_ chrome srv12 1 t 49195 in let b t := at_ golang srv13 2 t 4865 in
  map resumed (run_key 1 [] [a 1000; b 1500; a 2000; b 2500; b 3000; a 3500]) = [false; true; true].
Proof. vm_compute. reflexivity. Qed.
(* a verifying client with InsecureServerNameToVerify = "*" (no host name check) or another name the leaf covers, and one
   with InsecureSkipTimeVerify after the leaf expired, still resume; a name the leaf does not cover is refused *)
Example C19_ex_verify_modes :
  let c vn st t := mkConn chrome 1 100 srv12 t true false 49195 120 vn st in
  (map resumed (run [] [c STAR false 1000; c STAR false 2000]),
   map resumed (run [] [c 2 false 1000; c 2 false 2000]),
   map resumed (run [] [c 0 true 5000001; c 0 true 5000002]),
   map o_out (run [] [c 77 false 1000]))
  = ([false; true], [false; true], [false; true], [CliErr E_CERT]).
Proof. vm_compute. reflexivity. Qed.
Example C19_ex_binder : psk_ext_len [mkIdent [1; 2; 3] 5] [placeholder 4866] = 4 + 2 + (2 + 3 + 4) + 2 + 49.
Proof. vm_compute. reflexivity. Qed.

(* C01 — The ClientHello on the wire is exactly the hello the caller built and inspected.
   Property theorems only; each closed by a lemma of Proofs/UConnP.v.

   Reading guide (Model/UConn.v).  A state carries clientHelloBuildStatus, whether the preset was applied, what
   the preset yields on this connection (u_spec), the five marshalled header fields of HandshakeState.Hello
   (u_hdr), uconn.Extensions (u_exts), Hello.Raw (u_raw), and the list of ClientHello handshake messages
   written so far (u_sent).  [run s ops] plays any list of public calls (BuildHandshakeState, ...WithoutSession,
   SetClientRandom, SetSNI, edits of Extensions / CipherSuites / SessionId, Handshake); [handshake srv s] is
   Handshake against a server that answers with a ServerHello (SrvPlain) or a legal HelloRetryRequest (SrvHRR).
   HelloGolang (status BuildByGoTLS) never occurs: [build] panics on it, so every Ok below excludes it.
   marshal_hello is the (fixed) MarshalClientHelloNoECH of C02. *)
From UV Require Import Base.Common Model.Wire Model.Ext Model.ExtSpec Model.Strict.
From UV Require Import Proofs.StrictP.
From UV Require Import Model.Padding Model.Marshal Model.ChMarshal Proofs.ChMarshalP Model.UConn Proofs.UConnP.

(* After ANY history of public calls, a Handshake that gets as far as writing: the first ClientHello it
   writes is Hello.Raw as rebuilt at handshake start, and that is the marshalling of the header fields and
   extension objects the connection holds at that moment. *)
Theorem C01_first_record : forall bbs padto s0 ops srv s',
  let s := run bbs padto s0 ops in
  u_done s = false -> handshake bbs padto srv s = (s', Ok tt) ->
  exists s1, build bbs padto true s = (s1, Ok tt)
    /\ nth (length (u_sent s)) (u_sent s') [] = u_raw s1
    /\ marshal_hello bbs padto (u_hdr s1) (u_exts s1) = Ok (u_raw s1).
Proof. intros bbs padto s0 ops srv s' s. apply first_record. Qed.
Print Assumptions C01_first_record.

(* BuildHandshakeState, then ANY sequence of documented edits, then Handshake: the fields at handshake
   start are the built fields with the edits applied in order (nothing is re-applied or reset), and the
   first ClientHello is their marshalling. *)
Theorem C01_edits_reach_wire : forall bbs padto s0 ops sb eds srv s',
  build bbs padto true (run bbs padto s0 ops) = (sb, Ok tt) -> u_done sb = false ->
  forallb is_edit eds = true ->
  handshake bbs padto srv (run bbs padto sb eds) = (s', Ok tt) ->
  let hf := edits eds (u_hdr sb, u_exts sb) in
  exists first, nth (length (u_sent sb)) (u_sent s') [] = first
    /\ marshal_hello bbs padto (fst hf) (snd hf) = Ok first.
Proof.
  intros bbs padto s0 ops sb eds srv s' Hb Hd Hall H.
  destruct (build_ok bbs padto true _ sb Hb) as (_ & _ & _ & Hst & _).
  apply (edits_reach_wire bbs padto sb eds srv s' (Hst eq_refl) Hd Hall H).
Qed.
Print Assumptions C01_edits_reach_wire.

(* ... and every edit is visible in those bytes: the independent strict parser of C02 reads back the
   random, session id, cipher suites (and version, compression methods) the fields hold, every extension
   object that writes anything appears with its RFC body, and no extension type appears that is not in
   uconn.Extensions.  (Premise: the edited hello is still inside C02's precondition.) *)
Theorem C01_edits_visible : forall bbs padto h es raw,
  wf_specb h es = true -> marshal_hello bbs padto h es = Ok raw ->
  exists a, strict_parse raw = Some a
    /\ c_vers a = h_vers h /\ c_random a = h_random h /\ c_sid a = h_sid h /\ c_suites a = h_suites h /\ c_comp a = h_comp h
    /\ (forall e, In e es -> is_padding e = false -> ext_absent e = false -> In (ext_id e, ext_body e) (c_exts a))
    /\ (forall t, In t (ext_types a) -> In t (map ext_id es)).
Proof. exact marshal_parses. Qed.
Print Assumptions C01_edits_visible.

(* what each documented mutator, applied last, leaves in the fields that are marshalled *)
Theorem C01_mutators : forall eds hf,
  (forall r, blen r = 32 -> h_random (fst (edits (eds ++ [OSetClientRandom r]) hf)) = r)
  /\ (forall b, h_sid (fst (edits (eds ++ [OSetSessionId b]) hf)) = b)
  /\ (forall l, h_suites (fst (edits (eds ++ [OSetCipherSuites l]) hf)) = l)
  /\ (forall host x, In (ESNI x) (snd (edits eds hf)) -> In (ESNI host) (snd (edits (eds ++ [OSetSNI host]) hf)))
  /\ (forall i e, (i < length (snd (edits eds hf)))%nat -> In e (snd (edits (eds ++ [OEditExt i e]) hf)))
  /\ (forall i e, In e (snd (edits (eds ++ [OInsertExt i e]) hf)))
  /\ (forall i, NoDup (map ext_id (snd (edits eds hf))) -> (i < length (snd (edits eds hf)))%nat ->
        ~ In (ext_id (nth i (snd (edits eds hf)) ESCT)) (map ext_id (snd (edits (eds ++ [ORemoveExt i]) hf)))).
Proof.
  intros eds hf. repeat split.
  - intros r Hr. apply edit_random. exact Hr.
  - intros b. apply edit_sid.
  - intros l. apply edit_suites.
  - intros host x. apply edit_sni.
  - intros i e. apply edit_ext.
  - intros i e. apply insert_ext.
  - intros i. apply remove_ext.
Qed.
Print Assumptions C01_mutators.

(* After the handshake, Hello.Raw is the last ClientHello actually sent: the only one after a
   ServerHello, the second one after a HelloRetryRequest; and it is the marshalling of the fields and
   extension objects the connection holds afterwards. *)
Theorem C01_raw_after : forall bbs padto s0 ops srv s',
  let s := run bbs padto s0 ops in
  u_done s = false -> handshake bbs padto srv s = (s', Ok tt) ->
  u_raw s' = last (u_sent s') [] /\ marshal_hello bbs padto (u_hdr s') (u_exts s') = Ok (u_raw s')
  /\ length (u_sent s') = (length (u_sent s) + match srv with SrvPlain => 1 | _ => 2 end)%nat.
Proof. intros bbs padto s0 ops srv s' s. apply raw_after. Qed.
Print Assumptions C01_raw_after.

(* the second ClientHello after a HelloRetryRequest: same header fields, the extension objects with the
   key share replaced and the cookie set or inserted *)
Theorem C01_hrr_second : forall bbs padto s0 ops g key cookie idx s',
  let s := run bbs padto s0 ops in
  u_done s = false -> handshake bbs padto (SrvHRR g key cookie idx) s = (s', Ok tt) ->
  exists s1 raw2, build bbs padto true s = (s1, Ok tt)
    /\ hrr_exts g key cookie idx (u_exts s1) = Ok (u_exts s')
    /\ marshal_hello bbs padto (u_hdr s1) (u_exts s') = Ok raw2
    /\ u_sent s' = u_sent s ++ [u_raw s1; raw2] /\ u_raw s' = raw2.
Proof.
  intros bbs padto s0 ops g key cookie idx s' s Hd H.
  destruct (handshake_ok bbs padto _ s s' Hd H) as (s1 & Hb & _ & _ & raw2 & H1 & H2 & H3 & H4).
  exists s1, raw2. auto.
Qed.
Print Assumptions C01_hrr_second.

(* ---- non-vacuity: a concrete history ---- *)
Definition C01_ex_hdr : hello_hdr :=
  {| h_vers := 771; h_random := repeat 7 32; h_sid := repeat 9 32; h_suites := [4865; 49199]; h_comp := [0] |}.
Definition C01_ex_exts : list ext :=
  [ ESNI [97; 46; 98]; ESupportedCurves [29; 23]; ESupportedVersions [772; 771]; EKeyShare [(29, repeat 5 32)];
    ESignatureAlgorithms [1027; 2052]; EPadding 0 false PadBoring ].
Definition C01_ex_ops : list op :=
  [ OBuild; OSetClientRandom (repeat 200 32); OSetSNI [120; 46; 121; 46; 122]; OSetSessionId [1; 2; 3];
    OSetCipherSuites [4866]; OInsertExt 1 (EALPN [[104; 50]]); OEditExt 5 (ESignatureAlgorithms [2057]) ].

Example C01_ex_history :
  let s := run (fun _ => 512) 0%Z (init (Ok (C01_ex_hdr, C01_ex_exts))) C01_ex_ops in
  let hf := (u_hdr s, u_exts s) in
  wf_specb (fst hf) (snd hf) = true /\
  match handshake (fun _ => 512) 0%Z (SrvHRR 23 (repeat 4 65) [9; 9; 9] 2) s with
  | (s', Ok _) =>
      match u_sent s' with
      | [first; second] =>
          u_raw s' = second /\ first <> second
          /\ option_map (fun a => (c_random a, c_sid a, c_suites a, ext_types a)) (strict_parse first)
             = Some (repeat 200 32, [1; 2; 3], [4866], [0; 16; 10; 43; 51; 13])
          /\ option_map ext_types (strict_parse second) = Some [0; 16; 44; 10; 43; 51; 13]
          /\ In (0, ext_body (ESNI [120; 46; 121; 46; 122])) (match strict_parse first with Some a => c_exts a | None => [] end)
          /\ In (51, ext_body (EKeyShare [(23, repeat 4 65)])) (match strict_parse second with Some a => c_exts a | None => [] end)
      | _ => False
      end
  | _ => False
  end.
Proof. vm_compute. repeat split; try reflexivity; try discriminate; auto 10. Qed.

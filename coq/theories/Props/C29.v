(* C29 — Roller prefers the last working fingerprint and tries each at most once.
   For every configured id list without duplicates, every outcome of the shuffle
   (any permutation), every remembered working id, every TCP connect latency (or refusal) and TCP dial timeout, every
   sequence of generated seeds, every handshake timeout, every starting time and
   every way the peer treats the fingerprints it sees (serve / refuse after any
   delay, or stay silent until the timeout). *)
From UV Require Import Base.Common Model.Roller Proofs.RollerP.
From Coq Require Import Permutation ZifyBool ZifyNat ZifyN.

Section C29.
  Variables (ids sh : list hid) (working : option hid) (tcpd : nat -> tcp_beh) (Dt : N) (gen : nat -> N)
            (T : N) (peer : hid -> peer_beh) (now : N).
  Hypothesis ids_nodup : NoDup ids.
  Hypothesis sh_perm : Permutation ids sh.
  Notation r := (dial sh working tcpd Dt gen T peer now).

  (* starts with the remembered id; the fingerprint sent first is the one that id denotes *)
  Theorem C29_first : forall w, working = Some w ->
    tried r = [] \/ (hd_error (tried r) = Some w /\ hd_error (map fst (wire r)) = Some (conn_id gen 0 w)).
  Proof. exact (dial_first sh working tcpd Dt gen T peer now). Qed.

  (* each configured id (or the remembered one) at most once; one ClientHello per id tried *)
  Theorem C29_once : NoDup (tried r) /\ incl (tried r) (pool ids working) /\
                     map fst (wire r) = fps gen 0 (tried r).
  Proof. exact (dial_once ids sh working tcpd Dt gen T peer now ids_nodup sh_perm). Qed.

  (* every attempt gets the full timeout: how it ends depends only on what the peer does with
     that fingerprint, not on the time earlier attempts took *)
  Theorem C29_own_deadline : Forall (fun a => snd a = hs_outcome T (peer (fst a))) (wire r).
  Proof. exact (dial_outcomes sh working tcpd Dt gen T peer now). Qed.

  (* returns the first connection whose handshake succeeds and records that connection's id
     (with the seed that defines its fingerprint) as working *)
  Theorem C29_result : forall f, result r = Connected f ->
    exists before, wire r = before ++ [(f, HsOk)] /\ would_succeed T (peer f) = true /\
                   Forall (fun a => would_succeed T (peer (fst a)) = false) before /\
                   working' r = Some f /\ unseeded f = false.
  Proof. exact (dial_connected sh working tcpd Dt gen T peer now). Qed.

  (* ... so that the next Dial, whatever its shuffle, seeds, peer and timeout, starts with the
     very fingerprint that worked *)
  Theorem C29_next_starts_with_working : forall f sh2 tcpd2 Dt2 gen2 T2 peer2 now2, result r = Connected f ->
    let r2 := dial sh2 (working' r) tcpd2 Dt2 gen2 T2 peer2 now2 in
    tried r2 = [] \/ hd_error (map fst (wire r2)) = Some f.
  Proof. intros f sh2 tcpd2 Dt2 gen2 T2 peer2 now2. exact (dial_next_first sh working tcpd Dt gen T peer now f sh2 tcpd2 Dt2 gen2 T2 peer2 now2). Qed.

  (* the TCP dial error is returned at once, and only when that dial fails on its own terms: the j-th connect is
     refused or takes at least TcpDialTimeout - time spent in earlier attempts does not count against it *)
  Theorem C29_tcp_error : forall j, result r = TcpError j ->
    tcp_connects Dt (tcpd j) = false /\ length (tried r) = j /\
    Forall (fun a => would_succeed T (peer (fst a)) = false) (wire r) /\ working' r = working.
  Proof. exact (dial_tcp_error sh working tcpd Dt gen T peer now). Qed.

  (* hence a TCP dial error against a peer that does accept connections takes at least the whole TcpDialTimeout
     on top of the whole TlsHandshakeTimeout of every handshake that timed out before *)
  Theorem C29_tcp_error_takes_time : forall j d, result r = TcpError j -> tcpd j = Connects d ->
    now + T * n_timeouts (wire r) + Dt <= t_end r.
  Proof. intros j d R E. pose proof (dial_tcp_error_time sh working tcpd Dt gen T peer now j R) as H. rewrite E in H. exact H. Qed.

  Theorem C29_exhausted : result r = AllFailed \/ result r = NoIds ->
    Permutation (tried r) (pool ids working) /\
    Forall (fun a => would_succeed T (peer (fst a)) = false) (wire r) /\ working' r = working.
  Proof. exact (dial_exhausted ids sh working tcpd Dt gen T peer now sh_perm). Qed.

  (* the decidable observer check used against the implementation is sound for the model,
     provided generated seeds do not collide with configured ones *)
  Hypothesis gen_fresh : forall k y, In y (pool ids working) -> seed y <> Some (gen k).
  Theorem C29_trace_ok :
    trace_ok ids working T (map (fun a => (fst a, peer (fst a))) (wire r))
             (conn_of (result r)) (is_tcp_err (result r)) = true.
  Proof. exact (dial_trace_ok ids sh working tcpd Dt gen T peer now ids_nodup sh_perm gen_fresh). Qed.
  Theorem C29_time_ok : (forall k, tcpd k <> Refused) ->
    time_ok T Dt (map (fun a => (fst a, peer (fst a))) (wire r)) (is_tcp_err (result r)) true (t_end r - now) = true.
  Proof. exact (dial_time_ok sh working tcpd Dt gen T peer now). Qed.
End C29.
Print Assumptions C29_first.
Print Assumptions C29_once.
Print Assumptions C29_own_deadline.
Print Assumptions C29_result.
Print Assumptions C29_next_starts_with_working.
Print Assumptions C29_tcp_error.
Print Assumptions C29_tcp_error_takes_time.
Print Assumptions C29_time_ok.
Print Assumptions C29_exhausted.
Print Assumptions C29_trace_ok.

(* ids 1 = a fixed parrot, 2 = an unseeded randomized id, 3 = a fixed parrot; the remembered id is
   the randomized one with seed 7.  The peer is silent towards that fingerprint, refuses parrot 3,
   serves everything else after 5 time units; timeout 300. *)
Definition ex_peer (f : hid) : peer_beh :=
  if hid_eqb f (mkHid true 2 (Some 7)) then Silent else if base f =? 3 then Refuse 1 else Serve 5.
Example C29_ex :
  let r := dial [mkHid false 3 None; mkHid false 1 None; mkHid true 2 None] (Some (mkHid true 2 (Some 7)))
                (fun _ => Connects 1) 200 (fun k => 100 + N.of_nat k) 300 ex_peer 0 in
  tried r = [mkHid true 2 (Some 7); mkHid false 3 None; mkHid false 1 None] /\
  wire r = [(mkHid true 2 (Some 7), HsTimeout); (mkHid false 3 None, HsRejected); (mkHid false 1 None, HsOk)] /\
  result r = Connected (mkHid false 1 None) /\ working' r = Some (mkHid false 1 None).
Proof. vm_compute. auto. Qed.
(* an unseeded randomized id is served: the recorded id carries the generated seed, and the next
   Dial (new seeds 200, 201, ...) sends that same fingerprint first *)
Example C29_ex_seed :
  let r := dial [mkHid true 2 None; mkHid false 3 None] None (fun _ => Connects 1) 200 (fun k => 100 + N.of_nat k) 300 ex_peer 0 in
  let r2 := dial [mkHid false 3 None; mkHid true 2 None] (working' r) (fun _ => Connects 1) 200 (fun k => 200 + N.of_nat k) 300 ex_peer 0 in
  working' r = Some (mkHid true 2 (Some 100)) /\ map fst (wire r2) = [mkHid true 2 (Some 100)].
Proof. vm_compute. auto. Qed.
Example C29_ex_hyp :
  let ids := [mkHid false 1 None; mkHid true 2 None; mkHid false 3 None] in
  let sh := [mkHid false 3 None; mkHid false 1 None; mkHid true 2 None] in
  NoDup ids /\ Permutation ids sh /\
  (forall k y, In y (pool ids (Some (mkHid true 2 (Some 7)))) -> seed y <> Some (100 + N.of_nat k)).
Proof.
  cbn zeta. split; [|split].
  - repeat constructor; cbn; intuition discriminate.
  - apply Permutation_sym.
    change [mkHid false 3 None; mkHid false 1 None; mkHid true 2 None] with ([mkHid false 3 None] ++ [mkHid false 1 None; mkHid true 2 None]).
    apply Permutation_app_comm.
  - intros k y Hy. vm_compute in Hy. destruct Hy as [<-|[<-|[<-|[<-|[]]]]]; cbn [seed]; try discriminate.
    intros H. assert (E : forall a b : N, Some a = Some b -> a = b) by (intros a b [= ->]; reflexivity).
    apply E in H. lia.
Qed.

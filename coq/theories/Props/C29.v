(* C29 — Roller prefers the last working fingerprint and tries each at most once.
   For every configured id list without duplicates, every outcome of the shuffle
   (any permutation), every remembered working id, every TCP behaviour and every
   set of fingerprints the server accepts. *)
From UV Require Import Base.Common Model.Roller Proofs.RollerP.
From Coq Require Import Permutation.

Section C29.
  Variables (ids sh : list id) (working : option id) (tcp : nat -> bool) (acc : id -> bool).
  Hypothesis ids_nodup : NoDup ids.
  Hypothesis sh_perm : Permutation ids sh.
  Notation r := (dial sh working tcp acc).

  Theorem C29_first : forall w, working = Some w -> attempts r = [] \/ hd_error (attempts r) = Some w.
  Proof. exact (dial_first sh working tcp acc). Qed.

  Theorem C29_once : NoDup (attempts r) /\ incl (attempts r) (pool ids working).
  Proof. exact (dial_once ids sh working tcp acc ids_nodup sh_perm). Qed.

  Theorem C29_result : forall i, result r = Connected i ->
    exists before, attempts r = before ++ [i] /\ acc i = true /\ Forall (fun x => acc x = false) before /\
                   working' r = Some i.
  Proof. exact (dial_connected sh working tcp acc). Qed.

  Theorem C29_tcp_error : forall j, result r = TcpError j ->
    tcp j = false /\ length (attempts r) = j /\ Forall (fun x => acc x = false) (attempts r) /\ working' r = working.
  Proof. exact (dial_tcp_error sh working tcp acc). Qed.

  Theorem C29_exhausted : result r = AllFailed \/ result r = NoIds ->
    Permutation (attempts r) (pool ids working) /\ Forall (fun x => acc x = false) (attempts r) /\ working' r = working.
  Proof. exact (dial_exhausted ids sh working tcp acc sh_perm). Qed.

  (* the decidable observer check used against the implementation is sound for the model *)
  Theorem C29_trace_ok :
    trace_ok ids working acc (attempts r) (conn_of (result r)) (is_tcp_err (result r)) = true.
  Proof. exact (dial_trace_ok ids sh working tcp acc ids_nodup sh_perm). Qed.
End C29.
Print Assumptions C29_first.
Print Assumptions C29_once.
Print Assumptions C29_result.
Print Assumptions C29_tcp_error.
Print Assumptions C29_exhausted.
Print Assumptions C29_trace_ok.

Example C29_ex : let r := dial [3;1;2] (Some 2) (fun _ => true) (fun x => x =? 1) in
  attempts r = [2;1] /\ result r = Connected 1 /\ working' r = Some 1.
Proof. vm_compute. auto. Qed.
Example C29_ex_hyp : NoDup [1;2;3] /\ Permutation [1;2;3] [3;1;2].
Proof. split; [repeat constructor; cbn; intuition discriminate|].
  apply Permutation_sym. change [3;1;2] with ([3] ++ [1;2]). change [1;2;3] with ([1;2] ++ [3]). apply Permutation_app_comm. Qed.

(* C36 — the LRU client session cache behaves as a bounded LRU map.
   Sequential core: every history of Put/Put-nil/Get on NewLRUClientSessionCache(n)
   returns exactly what the abstract bounded LRU map (Model/Lru.v: s_put/s_get)
   returns, and the cache never holds more than its capacity. Concurrent calls
   each hold the mutex for their whole body, so a concurrent history is one of
   these sequential histories (the lock discipline itself is observed by the
   linearizability runs, not proved). *)
From UV Require Import Base.Common Model.Lru Proofs.LruP.

Theorem C36_refines : forall (n : Z) (ops : list op),
  run (new_lru n) ops = map obs_of_spec (s_run (cap (new_lru n)) [] ops).
Proof. intros n ops. exact (run_refines ops (new_lru n) (new_inv n)). Qed.
Print Assumptions C36_refines.

(* never more than n entries, keys unique, no nil state stored — in every reachable state *)
Theorem C36_bounded : forall (n : Z) (ops : list op),
  let c := final (new_lru n) ops in
  (length (q c) <= cap c)%nat /\ NoDup (map fst (q c)) /\ (forall e, In e (q c) -> snd e <> None).
Proof.
  intros n ops c. destruct (final_inv ops (new_lru n) (new_inv n)) as [A B _ D]. auto.
Qed.
Print Assumptions C36_bounded.

Theorem C36_capacity : forall n : Z,
  cap (new_lru n) = if (n <? 1)%Z then 64%nat else Z.to_nat n.
Proof. reflexivity. Qed.

(* The abstract map really is a bounded map: size never exceeds n (sanity of the spec itself). *)
Theorem C36_spec_bounded : forall n s k v, (length s <= n)%nat -> (length (s_put n s k v) <= n)%nat.
Proof. exact s_put_bounded. Qed.

(* Non-vacuity: the history that failed before the fix (Put(a,s); Put(b,nil); Get(a)). *)
Example C36_ex_former_witness :
  run (new_lru 1) [Put 1 (Some 7); Put 2 None; Get 1; Get 2] = [Some (Some 7); None].
Proof. vm_compute. reflexivity. Qed.
Example C36_ex_evict :
  run (new_lru 2) [Put 1 (Some 7); Put 2 (Some 8); Get 1; Put 3 (Some 9); Get 2; Get 1; Get 3]
  = [Some (Some 7); None; Some (Some 7); Some (Some 9)].
Proof. vm_compute. reflexivity. Qed.

(* C17 — a HelloRetryRequest changes only what RFC 8446 allows.

   uconn.Extensions is a list of [hext] (Model/Hrr.v): key_share, cookie, padding, or ANY other
   extension (characterised by the bytes it emits).  [hrr_exts] is the uTLS section of
   processHelloRetryRequest (handshake_client_tls13.go:388-441), [marshal_hexts] the re-marshal
   (u_conn.go:598-675, Model/Marshal.v), [Negotiate.process_hrr] the crypto/tls checks before it.
   Scope of the statements: no PSK identities (npsk = 0), no real ECH (hs.echContext == nil),
   ClientHelloID != HelloGolang.  The PRNG behind the cookie position is an input ((fuel, s): the
   SHAKE stream of newPRNG(), Model/Prng.v); "cookie_index ... <> None" only says the stream did not
   run dry (the harness never reaches that).
   State of the files: they describe the UNCHANGED code; the property holds. *)
From UV Require Import Base.Common Model.Padding Model.Marshal Model.Prng Model.Hrr.
From UV Require Import Proofs.MarshalP Proofs.HrrP.
From UV Require Model.Negotiate.

(* The second ClientHello, for ALL extension lists with a key_share extension and at most one padding
   extension, all header fields, any requested group g with any fresh public key d, any cookie
   ([] = the HRR carried none), any PRNG stream:
   - it is sent (no error, no panic), and uconn.Extensions afterwards is es' with the padding state updated;
   - diff_spec: ignoring cookie extensions, es' is es position by position with every key_share
     extension holding exactly [(g, d)] and nothing else altered; the cookie extensions are: unchanged
     without a cookie, else all set to the server's cookie, else exactly one new extension carrying it;
     the last extension stays last; still at most one padding extension;
   - the bytes: header unchanged, then each extension's own encoding in list order, the padding
     extension's being its policy applied to the length of the NEW hello without padding (recomputed);
   - every extension other than key_share / cookie / padding contributes byte-identical output, in the
     same relative order, in both hellos. *)
Theorem C17_diff : forall bbs fuel s h g d cookie es,
  hdr_ok h -> (pads es <= 1)%nat -> existsb is_key_share es = true ->
  cookie_index fuel s (Z.of_nat (length es)) <> None ->
  exists es' raw,
    hrr_second_hello bbs fuel s h 0 [(g, d)] cookie es = Ok (map (hupdate (hunpadded h es')) es', raw) /\
    diff_spec [(g, d)] cookie es es' /\
    raw = frame h true (concat (map (hemit (hunpadded h es')) es')) /\
    map (hemit (hunpadded h es')) (others es') = map (hemit (hunpadded h es)) (others es).
Proof. intros. apply second_hello_spec; assumption. Qed.
Print Assumptions C17_diff.

(* ... and the FIRST hello is the same framing of the old list: the two hellos differ exactly in
   the per-extension outputs that diff_spec allows to differ *)
Theorem C17_first_hello : forall bbs h es, hdr_ok h -> (pads es <= 1)%nat ->
  marshal_hexts bbs h es =
    Ok (frame h (match es with [] => false | _ => true end) (concat (map (hemit (hunpadded h es)) es))).
Proof. exact marshal_hexts_spec. Qed.
Print Assumptions C17_first_hello.

(* the encodings of the two extensions the HRR code writes (Model/Ext.v, proved against the RFC layout in C08) *)
Theorem C17_key_share_cookie_bytes : forall g d c,
  hemit 0 (HKeyShare [(g, d)]) =
    Wire.enc_u16 51 ++ Wire.enc_u16 (4 + Wire.blen d + 2) ++ Wire.enc_u16 (4 + Wire.blen d)
    ++ Wire.enc_u16 g ++ Wire.enc_u16 (Wire.blen d) ++ d
  /\ hemit 0 (HCookie c) = Wire.enc_u16 44 ++ Wire.enc_u16 (2 + Wire.blen c) ++ Wire.enc_u16 (Wire.blen c) ++ c.
Proof.
  intros g d c. split.
  - cbn [hemit]. unfold key_share_bytes, emit_of. cbn [Ext.ext_read Ext.ext_len].
    unfold Ext.guarded. rewrite N.ltb_irrefl. unfold Ext.key_shares_len, Ext.key_shares_bytes.
    cbn [Wire.sum_map flat_map fst snd]. rewrite N.add_0_r, app_nil_r. reflexivity.
  - cbn [hemit]. unfold cookie_bytes, emit_of. cbn [Ext.ext_read Ext.ext_len].
    unfold Ext.guarded. rewrite N.ltb_irrefl. reflexivity.
Qed.
Print Assumptions C17_key_share_cookie_bytes.

(* The cookie position (handshake_client_tls13.go:430-441), for EVERY list length, stream and cookie:
   never a panic; an error only for the empty list (unreachable: a key_share extension was found
   before) or a dry PRNG; otherwise the cookie goes to index i < len, i = 0 for lists of one or two
   extensions (Intn of a non-positive bound is 0 in u_prng.go), i <= len-3 otherwise - so the last
   extension (pre_shared_key, when present) is still the last one. *)
Theorem C17_index_safe : forall fuel s c es,
  match insert_cookie fuel s c es with
  | Ok es' => exists i : nat, (i < length es)%nat /\ ((length es <= 2)%nat -> i = 0%nat) /\
                ((3 <= length es)%nat -> (i + 3 <= length es)%nat) /\
                es' = firstn i es ++ HCookie c :: skipn i es /\
                (forall d, last es' d = last es d)
  | Err code => (code = E_PRNG /\ cookie_index fuel s (Z.of_nat (length es)) = None) \/ (code = E_COOKIE_INDEX /\ es = [])
  | Panic _ => False
  end.
Proof.
  intros fuel s c es. pose proof (insert_cookie_spec fuel s c es) as H.
  destruct (insert_cookie fuel s c es) as [es'|code|p]; try exact H.
  destruct H as (i & H1 & H2 & H3 & ->). exists i. repeat split; auto.
  intros d. apply last_insert. exact H1.
Qed.
Print Assumptions C17_index_safe.

(* the whole uTLS section never panics, whatever the list, the PSK count, the shares, the cookie *)
Theorem C17_no_panic : forall fuel s npsk ks cookie es p, hrr_exts fuel s npsk ks cookie es <> Panic p.
Proof.
  intros fuel s npsk ks cookie es p. unfold hrr_exts.
  destruct (0 <? npsk); [discriminate|]. destruct (negb _); [discriminate|].
  destruct cookie as [|c0 c]; [discriminate|]. destruct (existsb is_cookie _); [discriminate|].
  pose proof (insert_cookie_spec fuel s (c0 :: c) (map (set_key_shares ks) es)) as H.
  destruct (insert_cookie _ _ _ _); try discriminate. contradiction.
Qed.
Print Assumptions C17_no_panic.

(* Rejections.  m is the HelloRetryRequest (h_share m = 0: it carries no server share - with one the alert is
   decode_error instead).  Unoffered group, group already shared, or nothing to change: illegal_parameter,
   no second hello, and the handshake (Negotiate.run13) aborts. *)
Theorem C17_reject : forall bbs fuel s h v m cookie fresh old es,
  Negotiate.h_share m = 0 ->
  (Negotiate.h_selgroup m <> 0 /\ Negotiate.memN (Negotiate.h_selgroup m) (Negotiate.cv_curves v) = false) \/
  (Negotiate.h_selgroup m <> 0 /\ Negotiate.memN (Negotiate.h_selgroup m) (Negotiate.cv_shares v) = true) \/
  (Negotiate.h_selgroup m = 0 /\ Negotiate.h_cookie m = false) ->
  client_hrr bbs fuel s h v m cookie fresh old es = HAlert Negotiate.a_illegal_parameter /\
  forall fl, Negotiate.f_hrr fl = Some m -> exists a, Negotiate.run13 v fl = Negotiate.Abort a.
Proof.
  intros bbs fuel s h v m cookie fresh old es Hs Hc.
  assert (Hp : Negotiate.process_hrr v m = inl Negotiate.a_illegal_parameter).
  { destruct Hc as [[H1 H2]|[[H1 H2]|[H1 H2]]].
    - apply reject_unoffered; assumption.
    - apply reject_shared; assumption.
    - apply reject_nothing; assumption. }
  split; [apply client_hrr_rejected; exact Hp|].
  intros fl Hf. exact (run13_hrr_rejected v fl m _ Hf Hp).
Qed.
Print Assumptions C17_reject.

(* a listed group that is not a classical curve (X25519MLKEM768 listed without a share): also refused *)
Theorem C17_reject_nonclassical : forall v m, Negotiate.h_selgroup m <> 0 -> Negotiate.h_share m = 0 ->
  Negotiate.classical_impl (Negotiate.h_selgroup m) = false -> exists a, Negotiate.process_hrr v m = inl a.
Proof. exact reject_nonclassical. Qed.
Print Assumptions C17_reject_nonclassical.

(* PSK identities present: the uTLS section refuses (F-19b, outside the property's scope) *)
Theorem C17_psk_refused : forall fuel s npsk ks cookie es, 0 < npsk -> hrr_exts fuel s npsk ks cookie es = Err E_PSK_HRR.
Proof. intros. unfold hrr_exts. replace (0 <? npsk) with true by lia. reflexivity. Qed.
Print Assumptions C17_psk_refused.

(* the valid case end to end: crypto/tls accepts, the second hello goes out with exactly the requested group *)
Theorem C17_accept : forall bbs fuel s h v m cookie fresh old es,
  Negotiate.h_selgroup m <> 0 -> Negotiate.h_share m = 0 -> Negotiate.cv_psk v = 0 ->
  Negotiate.memN (Negotiate.h_selgroup m) (Negotiate.cv_curves v) = true ->
  Negotiate.memN (Negotiate.h_selgroup m) (Negotiate.cv_shares v) = false ->
  Negotiate.classical_impl (Negotiate.h_selgroup m) = true ->
  hdr_ok h -> (pads es <= 1)%nat -> existsb is_key_share es = true ->
  cookie_index fuel s (Z.of_nat (length es)) <> None ->
  exists es' raw, client_hrr bbs fuel s h v m cookie fresh old es = HSecond es' raw.
Proof.
  intros bbs fuel s h v m cookie fresh old es H1 H2 H3 H4 H5 H6 Hh Hp Hk Hr.
  unfold client_hrr. rewrite (accept_classical v m H1 H2 H3 H4 H5 H6), H3.
  replace (Negotiate.h_selgroup m =? 0) with false by lia.
  destruct (second_hello_spec bbs fuel s h [(Negotiate.h_selgroup m, fresh)]
              (if Negotiate.h_cookie m then cookie else []) es Hh Hp Hk Hr) as (es' & raw & -> & _).
  eexists. eexists. reflexivity.
Qed.
Print Assumptions C17_accept.

(* ---- the hypotheses are satisfiable by concrete non-trivial inputs ---- *)
Definition ex_hdr : hello_hdr :=
  {| h_vers := 771; h_random := zeros 32; h_sid := zeros 32; h_suites := [4865; 4866]; h_comp := [0] |}.
Definition ex_es : list hext :=
  [ HOther false [0; 10; 0; 6; 0; 4; 0; 29; 0; 23];
    HKeyShare [(29, zeros 32)];
    HOther false [0; 43; 0; 3; 2; 3; 4];
    HPad PolBoring {| p_len := 0; p_will := false |};
    HOther true [] ].
(* 4 bytes of stream 0 0 0 1 then zeros: Int31 = 1, Intn(5-2) = 1 *)
Definition ex_stream : stream := [0; 0; 0; 1; 0; 0; 0; 0].

Example C17_ex_hyps : hdr_ok ex_hdr /\ (pads ex_es <= 1)%nat /\ existsb is_key_share ex_es = true
  /\ cookie_index 8 ex_stream (Z.of_nat (length ex_es)) = Some 1%Z.
Proof. vm_compute. repeat split; lia. Qed.

(* cookie present: inserted at index 1, key share replaced, everything else in place *)
Example C17_ex_step : hrr_exts 8 ex_stream 0 [(23, zeros 65)] [7; 7; 7] ex_es =
  Ok [ HOther false [0; 10; 0; 6; 0; 4; 0; 29; 0; 23];
       HCookie [7; 7; 7];
       HKeyShare [(23, zeros 65)];
       HOther false [0; 43; 0; 3; 2; 3; 4];
       HPad PolBoring {| p_len := 0; p_will := false |};
       HOther true [] ].
Proof. vm_compute. reflexivity. Qed.

(* lists of one and two extensions: index 0 (Intn(-1) = Intn(0) = 0), no panic *)
Example C17_ex_short_lists :
  insert_cookie 8 ex_stream [9] [HKeyShare []] = Ok [HCookie [9]; HKeyShare []] /\
  insert_cookie 8 ex_stream [9] [HKeyShare []; HOther true []] = Ok [HCookie [9]; HKeyShare []; HOther true []] /\
  insert_cookie 8 ex_stream [9] [] = Err E_COOKIE_INDEX.
Proof. vm_compute. repeat split. Qed.

(* a rejected HRR: P-521 (25) not in supported_groups *)
Example C17_ex_reject :
  let v := Negotiate.mkView [4865] [29; 23] [29] [] [] 0 [] false 771 772 false 29 false [772] 0 in
  let m := Negotiate.mkHello 771 772 0 [] 4865 0 0 25 false None [] in
  Negotiate.process_hrr v m = inl Negotiate.a_illegal_parameter.
Proof. vm_compute. reflexivity. Qed.

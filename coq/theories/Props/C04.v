(* C04 — GREASE values are well-formed, distinct where required, and fresh.
   Property theorems only; each closed by a lemma from Proofs/GreaseP.v.
   STATE: the model describes /repo WITH fixes/C04-quic-grease-version.diff
   (GetGREASEVersion masks before OR-ing); on the code as shipped the statement
   C04_quic_version is false (witness: draw 1 -> 0x0a0a0a0b, see C04_ex_unfixed_witness,
   replayed on the real code by the runner's corpus case quic-version/draw=1). *)
From UV Require Import Base.Common Model.Grease Proofs.GreaseP.

(* -- TLS: form. Every value GetBoringGREASEValue returns, for every seed array and index,
      is one of the 16 reserved values 0xwAwA (both bytes equal, low nibble A). *)
Theorem C04_grease_form : forall sd idx v, boring_grease sd idx = Ok v ->
  is_grease v = true /\ exists w, w < 16 /\ v = grease_val w.
Proof. exact boring_grease_form. Qed.
Print Assumptions C04_grease_form.

(* isGREASEUint16 accepts exactly those 16 values (sweep over all 2^16 uint16). *)
Theorem C04_is_grease_exact : forall v, v < 65536 ->
  (is_grease v = true <-> exists w, w < 16 /\ v = grease_val w).
Proof. exact is_grease_spec. Qed.
Print Assumptions C04_is_grease_exact.

(* -- for all 2^80 seed byte strings: the two extension code points differ after the ^0x1010 fix-up *)
Theorem C04_ext_seed_distinct : forall gb sd, grease_seed gb = Ok sd ->
  exists v1 v2, boring_grease sd ssl_grease_extension1 = Ok v1 /\
                boring_grease sd ssl_grease_extension2 = Ok v2 /\ v1 <> v2.
Proof. exact ext_values_differ. Qed.
Print Assumptions C04_ext_seed_distinct.

(* -- in any hello ApplyPreset produces, the GREASE extensions carry pairwise different code points *)
Theorem C04_ext_distinct : forall gb suites exts suites' exts',
  apply_preset_grease gb suites exts = Ok (suites', exts') -> NoDup (grease_ext_values exts').
Proof. exact preset_ext_distinct. Qed.
Print Assumptions C04_ext_distinct.

(* -- every GREASE group in supported_groups and in key_share is the one group-slot value *)
Theorem C04_group_consistent : forall gb suites exts suites' exts',
  apply_preset_grease gb suites exts = Ok (suites', exts') ->
  exists g, slot gb ssl_grease_group = Ok g /\ is_grease g = true /\
    forall e c, In e exts' -> In c (groups_of e) -> is_grease c = true -> c = g.
Proof. exact preset_group_consistent. Qed.
Print Assumptions C04_group_consistent.

(* -- placement: GREASE positions stay reserved values, everything else (incl. kinds and order) is untouched *)
Theorem C04_positions_reserved : forall gb suites exts suites' exts',
  apply_preset_grease gb suites exts = Ok (suites', exts') ->
  Forall2 reserved_rel suites suites' /\ Forall2 ext_reserved exts exts'.
Proof. exact preset_reserved. Qed.
Print Assumptions C04_positions_reserved.

Theorem C04_cipher_slot : forall gb suites exts suites' exts',
  apply_preset_grease gb suites exts = Ok (suites', exts') ->
  exists g, slot gb ssl_grease_cipher = Ok g /\ forall c, In c suites' -> is_grease c = true -> c = g.
Proof. exact preset_suites. Qed.
Print Assumptions C04_cipher_slot.

(* ApplyPreset succeeds (GREASE-wise) whenever 10 seed bytes arrive and at most two GREASE extensions are present *)
Theorem C04_preset_total : forall gb suites exts, length gb = 10%nat -> (count_grease exts <= 2)%nat ->
  exists suites' exts', apply_preset_grease gb suites exts = Ok (suites', exts').
Proof. exact preset_total. Qed.
Print Assumptions C04_preset_total.

(* -- freshness, as far as it is a property of the code: every slot can take each of the 16 values,
      and a uniform seed byte yields a uniform value (16 of 256 bytes per value) *)
Theorem C04_reachable : forall idx w, (idx < ssl_grease_last_index)%nat -> w < 16 ->
  exists gb, length gb = 10%nat /\ bytes_ok gb /\ slot gb idx = Ok (grease_val w).
Proof. exact reachable. Qed.
Print Assumptions C04_reachable.

Theorem C04_uniform : forall w, w < 16 ->
  length (filter (fun b => grease_word b =? grease_val w) (nrange 256)) = 16%nat.
Proof. exact uniform. Qed.
Print Assumptions C04_uniform.

(* -- QUIC transport parameter ids: 31*N+27 and below 2^62 for every admissible multiplier *)
Theorem C04_quic_id : forall k, k < GREASE_MAX_MULTIPLIER ->
  grease_id (Some k) mod 31 = 27 /\ grease_id (Some k) < two62 /\ is_grease_id (grease_id (Some k)) = true.
Proof. exact grease_id_ok. Qed.
Print Assumptions C04_quic_id.

Theorem C04_quic_id_exact : forall id, is_grease_id id = true <-> exists n, id = 31 * n + 27.
Proof. exact is_grease_id_spec. Qed.

(* in particular no id below 27 is a GREASE id (the guard `id >= 27` of IsGREASEID matters: without it the
   unsigned subtraction wraps and 11 would pass, since 2^64 = 16 mod 31) *)
Theorem C04_quic_id_small : forall id, id < 27 -> is_grease_id id = false.
Proof. exact is_grease_id_small. Qed.
Print Assumptions C04_quic_id_small.

Theorem C04_quic_tp_id : forall o d, (forall k, d = Some k -> k < GREASE_MAX_MULTIPLIER) ->
  is_grease_id (tp_grease_id o d) = true.
Proof. exact tp_grease_id_ok. Qed.
Print Assumptions C04_quic_tp_id.

(* -- QUIC GREASE versions: 0x?a?a?a?a for every draw (no bound on the draw: the code narrows it) *)
Theorem C04_quic_version : forall d,
  is_grease_version (grease_version d) = true /\ grease_version d < 4294967296.
Proof. intros d. split; [apply grease_version_ok | apply grease_version_u32]. Qed.
Print Assumptions C04_quic_version.

Theorem C04_version_information : forall avail draws,
  Forall2 (fun a b => if a =? VERSION_GREASE then is_grease_version b = true else b = a)
          avail (vi_versions avail draws).
Proof. exact vi_versions_spec. Qed.
Print Assumptions C04_version_information.

(* Non-vacuity and the defect witness. *)
Example C04_ex_seed : exists sd, grease_seed [16;0; 32;0; 48;0; 48;0; 64;0] = Ok sd /\
  boring_grease sd ssl_grease_extension1 = Ok 14906 /\ boring_grease sd ssl_grease_extension2 = Ok 10794.
Proof. eexists. vm_compute. repeat split. Qed.
Example C04_ex_preset :
  apply_preset_grease [16;0; 32;0; 48;0; 48;0; 64;0] [2570; 4865]
    [XGrease 2570 []; XCurves [2570; 29]; XKeyShare [2570; 29]; XVersions [2570; 772]; XGrease 2570 []]
  = Ok ([6682; 4865], [XGrease 14906 []; XCurves [10794; 29]; XKeyShare [10794; 29]; XVersions [19018; 772]; XGrease 10794 [0]]).
Proof. vm_compute. reflexivity. Qed.
Example C04_ex_third_grease_ext :
  apply_preset_grease [0;0;0;0;0;0;0;0;0;0] [] [XGrease 2570 []; XGrease 2570 []; XGrease 2570 []] = Err E_TOO_MANY_GREASE.
Proof. vm_compute. reflexivity. Qed.
Example C04_ex_quic_id : 5 < GREASE_MAX_MULTIPLIER /\ grease_id (Some 5) = 182.
Proof. vm_compute. split; reflexivity. Qed.
(* the shipped expression `x | 0x0a0a0a0a` on draw 1 gives 0x0a0a0a0b: not reserved *)
Example C04_ex_unfixed_witness : grease_version_unfixed (Some 1) = 168430091 /\
  is_grease_version (grease_version_unfixed (Some 1)) = false /\ grease_version (Some 1) = 168430090.
Proof. vm_compute. repeat split. Qed.

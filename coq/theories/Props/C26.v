(* C26 — concurrent use of a UConn is deadlock-free and consistent (race freedom of real memory: observed only).

   Model/HsLock.v: UConn.handshakeContext (u_conn.go:317-423) of one caller, statement by statement, with its
   interrupter goroutine, running against an environment that may do everything any number of other callers,
   readers, writers, interrupters and Close can do to the shared state. C26_guarantee shows that the caller's own
   effects are environment steps, so each statement holds for every caller of an N-caller system, for every N.
   Initial states: any shared state in which the caller holds no lock and not both a result and an error exist.
   The state space is finite; single-step facts are decided by an exhaustive sweep (138 240 states x 14 labels)
   and lifted to all reachable states by induction over the run (unbounded length, any interleaving). *)
From UV Require Import Base.Common Model.HsLock Proofs.HsLockP.
From UV Require Model.WrClose Proofs.WrCloseP.

Definition start_ok (s0 : state) : Prop :=
  exists cn mu il co he cl ca, s0 = init cn mu il co he cl ca /\ mu <> Mine /\ mu <> Parked /\ il <> Mine /\
    (il = Parked -> co = true) /\ (co && he = false) /\ (ca = true -> cn = true).

Lemma start_inv s0 : start_ok s0 -> invb s0 = true.
Proof.
  intros (cn & mu & il & co & he & cl & ca & -> & Hm & Hp & Hi & Hpk & Hc & Hca).
  destruct mu; try congruence; destruct il; try congruence; destruct co, he; try discriminate;
  try (specialize (Hpk eq_refl); discriminate);
  destruct ca; try (rewrite Hca by reflexivity); destruct cn, cl; reflexivity.
Qed.

(* every caller returns the shared outcome (nil exactly when complete — or the peer has since asked for a TLS 1.2
   renegotiation, which clears the flag again; the stored error only when not complete) or its own ctx error, and
   then the connection has been closed (and its ctx really was cancelled) — also when the ctx was already cancelled
   when the call was made ([init] takes the cancelled flag as a parameter) *)
Theorem C26_hs_outcome : forall s0 s, start_ok s0 -> reach s0 s -> returned s = true ->
  exists r, ret s = Some r /\ outcome_ok r (complete s) (hs_err s) (conn_closed s) (cancelled s) (reneg s) = true.
Proof.
  intros s0 s H0 R Hr. pose proof (inv_reach _ _ (start_inv _ H0) R) as I.
  pose proof (sweep _ outcome_all s) as H. unfold outcome_p in H. rewrite I, Hr in H. cbn [andb implb] in H.
  destruct (ret s) as [r|]; [exists r; auto | discriminate].
Qed.
Print Assumptions C26_hs_outcome.

(* the caller's own interrupter has closed the connection exactly when the caller reports its ctx error: a nil (or
   handshake-error) return means this call's cancellation did not touch the connection *)
Theorem C26_interrupted_iff_ctx_error : forall s0 s, start_ok s0 -> reach s0 s -> returned s = true ->
  (it s = IFired <-> ret s = Some RCtx).
Proof.
  intros s0 s H0 R Hr. pose proof (inv_reach _ _ (start_inv _ H0) R) as I.
  pose proof (sweep _ interrupted_all s) as H. unfold interrupted_p in H. rewrite I, Hr in H. cbn [andb implb] in H.
  apply eqb_prop in H. split.
  - intros E. rewrite E in H. cbn in H. destruct (ret s) as [[| | |]|]; try discriminate; reflexivity.
  - intros E. rewrite E in H. destruct (it s); try discriminate; reflexivity.
Qed.
Print Assumptions C26_interrupted_iff_ctx_error.

(* a caller with a cancellable ctx that is queued on handshakeMutex (p = P2) — or anywhere else before its epilogue —
   already has its interrupter: when its ctx is cancelled the interrupter can fire at once, without the mutex, and
   that closes the connection (which is what ends the I/O of whoever owns the handshake) *)
Theorem C26_cancel_while_queued_closes : forall s0 s, start_ok s0 -> reach s0 s -> cancellable s = true -> p s = P2 ->
  it s <> INone /\
  (it s = IWait -> cancelled s = true -> exists s', step s LIFire = Some s' /\ conn_closed s' = true /\ it s' = IFired).
Proof.
  intros s0 s H0 R Hc HP. pose proof (inv_reach _ _ (start_inv _ H0) R) as I.
  pose proof (sweep _ queued_all s) as H. unfold queued_p in H. rewrite I, Hc, HP in H. cbn [andb implb] in H.
  apply andb_true_iff in H as [H _]. apply andb_true_iff in H as [H1 H2]. split.
  - intros E. rewrite E in H1. cbn in H1. discriminate.
  - intros E C. rewrite E, C in H2. cbn [is_iwait andb negb orb] in H2. destruct (step s LIFire) as [s'|]; [|discriminate].
    exists s'. apply andb_true_iff in H2 as [A B]. repeat split; auto. destruct (it s'); try discriminate; reflexivity.
Qed.
Print Assumptions C26_cancel_while_queued_closes.

(* nil and the stored error exclude each other for good *)
Theorem C26_outcome_exclusive : forall s0 s, start_ok s0 -> reach s0 s -> complete s && hs_err s = false.
Proof.
  intros s0 s H0 R. pose proof (inv_reach _ _ (start_inv _ H0) R) as I. unfold invb in I.
  repeat (apply andb_true_iff in I; destruct I as [I ?]). apply negb_true_iff in I. exact I.
Qed.
Print Assumptions C26_outcome_exclusive.

(* a caller that has not returned can always take a step of its own, of its interrupter, or wait for a lock that
   its holder can release / a body that its holder can finish (I/O deadlines make bodies finite) *)
Theorem C26_hs_no_deadlock : forall s0 s, start_ok s0 -> reach s0 s -> returned s = false -> can_progress s = true.
Proof.
  intros s0 s H0 R Hr. pose proof (inv_reach _ _ (start_inv _ H0) R) as I.
  pose proof (sweep _ progress_all s) as H. unfold progress_p in H. rewrite I, Hr in H. exact H.
Qed.
Print Assumptions C26_hs_no_deadlock.

(* after the call has returned: the interrupter is gone, cancelling the ctx changes nothing shared, and this stays so *)
Theorem C26_late_cancel_noop : forall s0 s, start_ok s0 -> reach s0 s -> returned s = true ->
  step s LIFire = None /\
  (forall s', step s LCancel = Some s' -> shared s' = shared s /\ returned s' = true) /\
  (forall l s', step s l = Some s' -> returned s' = true).
Proof.
  intros s0 s H0 R Hr. pose proof (inv_reach _ _ (start_inv _ H0) R) as I.
  pose proof (sweep _ late_all s) as H. unfold late_p in H. rewrite I, Hr in H. cbn [andb implb] in H.
  apply andb_true_iff in H as [H Hall]. apply andb_true_iff in H as [H Hc]. apply andb_true_iff in H as [H Hlc].
  apply andb_true_iff in H as [Hfire Hdone].
  split; [|split].
  - unfold enabledb in Hfire. destruct (step s LIFire); [discriminate Hfire|reflexivity].
  - intros s' E. rewrite E in Hc. apply andb_true_iff in Hc as [A B]. split; [|exact B].
    unfold shared_eqb in A. unfold shared.
    apply andb_true_iff in A as [A A5]. apply andb_true_iff in A as [A A4]. apply andb_true_iff in A as [A A3].
    apply andb_true_iff in A as [A1 A2]. apply eqb_prop in A3, A4, A5. rewrite A3, A4, A5.
    destruct (mutex s), (mutex s'); try discriminate; destruct (inl s), (inl s'); try discriminate; reflexivity.
  - intros l s' S. rewrite forallb_forall in Hall. specialize (Hall l). rewrite S in Hall. apply Hall. destruct l; cbn; auto 20.
Qed.
Print Assumptions C26_late_cancel_noop.

(* lock discipline: the statements that touch handshakeErr / the handshake state run with handshakeMutex held, those
   that touch the input side with the input lock held too, and while the caller holds the mutex nobody else can
   take it or run the body *)
Theorem C26_lockset : forall s0 s, start_ok s0 -> reach s0 s ->
  (touches_hs (p s) = true -> mutex s = Mine) /\ (touches_in (p s) = true -> inl s = Mine) /\
  (mutex s = Mine -> step s EBodyOk = None /\ step s EBodyErr = None /\ step s EAcquire = None).
Proof.
  intros s0 s H0 R. pose proof (inv_reach _ _ (start_inv _ H0) R) as I.
  pose proof (sweep _ lockset_all s) as H. unfold lockset_p in H. rewrite I in H. cbn [implb] in H.
  apply andb_true_iff in H as [H H3]. apply andb_true_iff in H as [H1 H2]. unfold enabledb in H3.
  split; [|split].
  - intros T. rewrite T in H1. cbn in H1. destruct (mutex s); try discriminate; reflexivity.
  - intros T. rewrite T in H2. cbn in H2. destruct (inl s); try discriminate; reflexivity.
  - intros M. rewrite M in H3. cbn [is_mine negb orb] in H3.
    apply andb_true_iff in H3 as [H3 H3c]. apply andb_true_iff in H3 as [H3a H3b].
    split; [|split].
    + destruct (step s EBodyOk); [discriminate H3a|reflexivity].
    + destruct (step s EBodyErr); [discriminate H3b|reflexivity].
    + destruct (step s EAcquire); [discriminate H3c|reflexivity].
Qed.
Print Assumptions C26_lockset.

(* the caller's and its interrupter's effect on the shared state, seen by anybody else, is nothing or an environment step *)
Theorem C26_guarantee : forall s0 s l s', start_ok s0 -> reach s0 s -> own_label l = true -> step s l = Some s' ->
  view_eqb (view s) (view s') || env_allows (view s) (view s') = true.
Proof.
  intros s0 s l s' H0 R O S. pose proof (inv_reach _ _ (start_inv _ H0) R) as I.
  pose proof (sweep _ guarantee_all s) as H. unfold guarantee_p in H. rewrite I in H. cbn [implb] in H.
  rewrite forallb_forall in H. specialize (H l). rewrite O, S in H. cbn [negb orb] in H. apply H. destruct l; cbn; auto 20.
Qed.
Print Assumptions C26_guarantee.

(* Implicit handshakes (Read and Write call Handshake() first): a caller waits for the input lock only while no
   result exists; in particular never behind a reader that is parked in Read (which exists only once the handshake
   is complete) — so a writer's implicit Handshake cannot be blocked by a reader waiting for the reply to the
   request that writer is about to send. *)
Theorem C26_in_wait_only_without_result : forall s0 s, start_ok s0 -> reach s0 s -> p s = P4 ->
  complete s = false /\ hs_err s = false /\ inl s <> Parked.
Proof.
  intros s0 s H0 R HP. pose proof (inv_reach _ _ (start_inv _ H0) R) as I.
  pose proof (sweep _ inwait_all s) as H. unfold inwait_p in H. rewrite I, HP in H. cbn [implb] in H.
  apply andb_true_iff in H as [H H3]. apply andb_true_iff in H as [H1 H2].
  apply negb_true_iff in H1, H2. repeat split; auto. intros E. rewrite E in H3. discriminate.
Qed.
Print Assumptions C26_in_wait_only_without_result.

(* ---- the Write / Close interlock (Model/WrClose.v), one writer, one closer, possibly stalled peer ---- *)
Module WC := WrClose.
Module WCP := WrCloseP.

(* neither call can block forever: until both have returned one of them can take a step, and each step decreases a
   measure — even when the peer has stopped reading and no write deadline is set *)
Theorem C26_interlock_no_deadlock : forall co st s,
  WCP.reach (WC.init false co st) s -> WC.finished s = false -> WC.can_step s = true.
Proof.
  intros co st s R F. assert (I : WCP.invb s = true) by (eapply WCP.inv_reach; [|exact R]; destruct co, st; reflexivity).
  pose proof (WCP.sweep _ WCP.progress_all s) as H. unfold WCP.progress_p in H. rewrite I, F in H. exact H.
Qed.
Print Assumptions C26_interlock_no_deadlock.

Theorem C26_interlock_terminates : forall s l s', WC.step s l = Some s' -> (WCP.measure s' < WCP.measure s)%nat.
Proof.
  intros s l s' S. pose proof (WCP.sweep _ WCP.decreases_all s) as H. unfold WCP.decreases_p in H.
  rewrite forallb_forall in H. specialize (H l). rewrite S in H. apply Nat.ltb_lt. apply H. destruct l; cbn; auto.
Qed.
Print Assumptions C26_interlock_terminates.

(* Close takes c.out (closeNotify) only when no Write is in flight; a Write that passed the interlock stays marked
   in flight until it has returned; a Write returns nil only if its record reached a peer that reads *)
Theorem C26_interlock : forall co st s, WCP.reach (WC.init false co st) s ->
  (WC.c s = WC.C2 -> WC.out s <> WC.HW) /\
  (WCP.w_in (WC.w s) = true -> WC.inflight s = true) /\
  (WC.wret s = WC.WOk -> WC.stall s = false).
Proof.
  intros co st s R. assert (I : WCP.invb s = true) by (eapply WCP.inv_reach; [|exact R]; destruct co, st; reflexivity).
  pose proof (WCP.sweep _ WCP.interlock_all s) as H. unfold WCP.interlock_p in H. rewrite I in H. cbn [implb] in H.
  apply andb_true_iff in H as [H H3]. apply andb_true_iff in H as [H1 H2].
  split; [|split].
  - intros E. rewrite E in H1. cbn in H1. intros O. rewrite O in H1. discriminate.
  - intros E. rewrite E in H2. exact H2.
  - intros E. rewrite E in H3. apply negb_true_iff in H3. exact H3.
Qed.
Print Assumptions C26_interlock.

(* the model tells the two orderings apart: with the marker dropped before the record is written, Close during a
   Write on a stalled peer blocks on c.out for ever *)
Example C26_ex_marker_early_deadlocks :
  match WC.run (WC.init true true true) [WC.LW; WC.LW; WC.LW; WC.LC; WC.LC] with
  | Some s => negb (WC.finished s) && negb (WC.can_step s) | None => false end = true.
Proof. vm_compute. reflexivity. Qed.
Example C26_ex_close_ends_stalled_write :
  match WC.run (WC.init false true true) [WC.LW; WC.LW; WC.LW; WC.LC; WC.LC; WC.LW; WC.LW; WC.LW] with
  | Some s => WC.finished s && match WC.wret s with WC.WErr => true | _ => false end | None => false end = true.
Proof. vm_compute. reflexivity. Qed.
(* and the input lock: a caller made to wait for it although the result exists, behind a parked reader, is stuck *)
Example C26_ex_in_lock_first_deadlocks :
  can_progress (mkState Mine Parked true false false false false false INone P4 None false) = false.
Proof. vm_compute. reflexivity. Qed.

(* Renegotiation (ERenegStart: a reader parked in Read gets a HelloRequest; handleRenegotiation takes handshakeMutex and
   only then clears isHandshakeComplete) is part of the environment of every theorem above: C26_hs_no_deadlock and
   C26_in_wait_only_without_result therefore say that Handshake/Write callers and a renegotiating reader cannot block
   each other. Clearing the flag before the mutex is taken is outside the environment, and then the stuck state is reachable: *)
Example C26_ex_reneg_clears_flag_first_deadlocks :
  (* reader (input lock held, waits for handshakeMutex) has cleared complete; the caller took the mutex, found no result, wants the input lock *)
  can_progress (mkState Mine Parked false false false false false false INone P4 None true) = false.
Proof. vm_compute. reflexivity. Qed.
Example C26_ex_reneg_run :
  match run (init false Free Free true false false false) [LC; EReadPark; ERenegStart] with
  | Some s => returned s && negb (complete s) && reneg s && match ret s with Some RNil => true | _ => false end | None => false end = true.
Proof. vm_compute. reflexivity. Qed.
Example C26_ex_reneg_caller_waits_then_gets_outcome :
  match run (init false Free Free false false false false)
            [EAcquire; EInAcquire; EBodyOk; EInRelease; ERelease; EReadPark; ERenegStart; LC; LC; EBodyErr; EInRelease; ERelease; LC; LC; LC; LC] with
  | Some s => returned s && match ret s with Some RHsErr => true | _ => false end | None => false end = true.
Proof. vm_compute. reflexivity. Qed.
(* a ctx error handed back without the interrupter having closed the connection is not an allowed outcome *)
Example C26_ex_ctx_error_needs_close : outcome_ok RCtx false false false true false = false.
Proof. reflexivity. Qed.
(* a ctx already cancelled at call time: the caller gets its ctx error only through the interrupter, which closes the conn *)
Example C26_ex_precancelled :
  match run (init true Free Free false false false true) [LC; LC; LIFire; LC; LC; LC; LC; LBodyErr; LC; LC; LC; LC] with
  | Some s => returned s && conn_closed s && match ret s with Some RCtx => true | _ => false end | None => false end = true.
Proof. vm_compute. reflexivity. Qed.

(* ---- non-vacuity ---- *)
Example C26_ex_start : start_ok (init true Others Free false false false false).
Proof. exists true, Others, Free, false, false, false, false. repeat split; congruence. Qed.
Example C26_ex_start_parked_reader : start_ok (init false Free Parked true false false false).
Proof. exists false, Free, Parked, true, false, false, false. repeat split; congruence. Qed.
(* the caller completes the handshake itself *)
Example C26_ex_complete :
  match run (init true Free Free false false false false) [LC; LC; LC; LC; LC; LC; LBodyOk; LC; LC; LC; LIDone; LC] with
  | Some s => returned s && complete s && match ret s with Some RNil => true | _ => false end | None => false end = true.
Proof. vm_compute. reflexivity. Qed.
(* cancellation during the body: conn closed, body fails, caller returns its ctx error *)
Example C26_ex_cancel :
  match run (init true Free Free false false false false) [LC; LC; LC; LC; LC; LC; LCancel; LIFire; LBodyErr; LC; LC; LC; LC] with
  | Some s => returned s && conn_closed s && hs_err s && match ret s with Some RCtx => true | _ => false end | None => false end = true.
Proof. vm_compute. reflexivity. Qed.
(* another caller completes while this one waits for the mutex; it then returns nil from line 367 *)
Example C26_ex_other_completes :
  match run (init false Free Free false false false false) [LC; LC; EAcquire; EInAcquire; EBodyOk; EInRelease; ERelease; LC; LC; LC; LC] with
  | Some s => returned s && match ret s with Some RNil => true | _ => false end | None => false end = true.
Proof. vm_compute. reflexivity. Qed.

(* C26 — concurrent use of a UConn is deadlock-free and consistent (race freedom of real memory: observed only).

   Model/HsLock.v: UConn.handshakeContext (u_conn.go:317-423) of one caller, statement by statement, with its
   interrupter goroutine, running against an environment that may do everything any number of other callers,
   readers, writers, interrupters and Close can do to the shared state. C26_guarantee shows that the caller's own
   effects are environment steps, so each statement holds for every caller of an N-caller system, for every N.
   Initial states: any shared state in which the caller holds no lock and not both a result and an error exist.
   The state space is finite; single-step facts are decided by an exhaustive sweep (138 240 states x 14 labels)
   and lifted to all reachable states by induction over the run (unbounded length, any interleaving). *)
From UV Require Import Base.Common Model.HsLock Proofs.HsLockP.

Definition start_ok (s0 : state) : Prop :=
  exists cn mu il co he cl ca, s0 = init cn mu il co he cl ca /\ mu <> Mine /\ il <> Mine /\ (co && he = false) /\ (ca = true -> cn = true).

Lemma start_inv s0 : start_ok s0 -> invb s0 = true.
Proof.
  intros (cn & mu & il & co & he & cl & ca & -> & Hm & Hi & Hc & Hca).
  destruct mu; try congruence; destruct il; try congruence; destruct co, he; try discriminate;
  destruct ca; try (rewrite Hca by reflexivity); destruct cn, cl; reflexivity.
Qed.

(* every caller returns the shared outcome (nil exactly when complete; the stored error only when not complete) or
   its own ctx error, and then the connection has been closed (and its ctx really was cancelled) *)
Theorem C26_hs_outcome : forall s0 s, start_ok s0 -> reach s0 s -> returned s = true ->
  exists r, ret s = Some r /\ outcome_ok r (complete s) (hs_err s) (conn_closed s) (cancelled s) = true.
Proof.
  intros s0 s H0 R Hr. pose proof (inv_reach _ _ (start_inv _ H0) R) as I.
  pose proof (sweep _ outcome_all s) as H. unfold outcome_p in H. rewrite I, Hr in H. cbn [andb implb] in H.
  destruct (ret s) as [r|]; [exists r; auto | discriminate].
Qed.
Print Assumptions C26_hs_outcome.

(* nil and the stored error exclude each other for good *)
Theorem C26_outcome_exclusive : forall s0 s, start_ok s0 -> reach s0 s -> complete s && hs_err s = false.
Proof.
  intros s0 s H0 R. pose proof (inv_reach _ _ (start_inv _ H0) R) as I. unfold invb in I.
  repeat (apply andb_true_iff in I; destruct I as [I ?]). apply negb_true_iff in I. exact I.
Qed.
Print Assumptions C26_outcome_exclusive.

(* a caller that has not returned can always take a step of its own, of its interrupter, or wait for a lock that
   its holder can release / a body that its holder can finish (I/O deadlines make bodies finite) *)
Theorem C26_hs_no_deadlock : forall s0 s, start_ok s0 -> reach s0 s -> returned s = false -> can_progress s = true.
Proof.
  intros s0 s H0 R Hr. pose proof (inv_reach _ _ (start_inv _ H0) R) as I.
  pose proof (sweep _ progress_all s) as H. unfold progress_p in H. rewrite I, Hr in H. exact H.
Qed.
Print Assumptions C26_hs_no_deadlock.

(* after the call has returned: the interrupter is gone, cancelling the ctx changes nothing shared, and this stays so *)
Theorem C26_late_cancel_noop : forall s0 s, start_ok s0 -> reach s0 s -> returned s = true ->
  step s LIFire = None /\
  (forall s', step s LCancel = Some s' -> shared s' = shared s /\ returned s' = true) /\
  (forall l s', step s l = Some s' -> returned s' = true).
Proof.
  intros s0 s H0 R Hr. pose proof (inv_reach _ _ (start_inv _ H0) R) as I.
  pose proof (sweep _ late_all s) as H. unfold late_p in H. rewrite I, Hr in H. cbn [andb implb] in H.
  apply andb_true_iff in H as [H Hall]. apply andb_true_iff in H as [H Hc]. apply andb_true_iff in H as [H Hlc].
  apply andb_true_iff in H as [Hfire Hdone].
  split; [|split].
  - unfold enabledb in Hfire. destruct (step s LIFire); [discriminate Hfire|reflexivity].
  - intros s' E. rewrite E in Hc. apply andb_true_iff in Hc as [A B]. split; [|exact B].
    unfold shared_eqb in A. unfold shared.
    apply andb_true_iff in A as [A A5]. apply andb_true_iff in A as [A A4]. apply andb_true_iff in A as [A A3].
    apply andb_true_iff in A as [A1 A2]. apply eqb_prop in A3, A4, A5. rewrite A3, A4, A5.
    destruct (mutex s), (mutex s'); try discriminate; destruct (inl s), (inl s'); try discriminate; reflexivity.
  - intros l s' S. rewrite forallb_forall in Hall. specialize (Hall l). rewrite S in Hall. apply Hall. destruct l; cbn; auto 20.
Qed.
Print Assumptions C26_late_cancel_noop.

(* lock discipline: the statements that touch handshakeErr / the handshake state run with handshakeMutex held, those
   that touch the input side with the input lock held too, and while the caller holds the mutex nobody else can
   take it or run the body *)
Theorem C26_lockset : forall s0 s, start_ok s0 -> reach s0 s ->
  (touches_hs (p s) = true -> mutex s = Mine) /\ (touches_in (p s) = true -> inl s = Mine) /\
  (mutex s = Mine -> step s EBodyOk = None /\ step s EBodyErr = None /\ step s EAcquire = None).
Proof.
  intros s0 s H0 R. pose proof (inv_reach _ _ (start_inv _ H0) R) as I.
  pose proof (sweep _ lockset_all s) as H. unfold lockset_p in H. rewrite I in H. cbn [implb] in H.
  apply andb_true_iff in H as [H H3]. apply andb_true_iff in H as [H1 H2]. unfold enabledb in H3.
  split; [|split].
  - intros T. rewrite T in H1. cbn in H1. destruct (mutex s); try discriminate; reflexivity.
  - intros T. rewrite T in H2. cbn in H2. destruct (inl s); try discriminate; reflexivity.
  - intros M. rewrite M in H3. cbn [is_mine negb orb] in H3.
    apply andb_true_iff in H3 as [H3 H3c]. apply andb_true_iff in H3 as [H3a H3b].
    split; [|split].
    + destruct (step s EBodyOk); [discriminate H3a|reflexivity].
    + destruct (step s EBodyErr); [discriminate H3b|reflexivity].
    + destruct (step s EAcquire); [discriminate H3c|reflexivity].
Qed.
Print Assumptions C26_lockset.

(* the caller's and its interrupter's effect on the shared state, seen by anybody else, is nothing or an environment step *)
Theorem C26_guarantee : forall s0 s l s', start_ok s0 -> reach s0 s -> own_label l = true -> step s l = Some s' ->
  view_eqb (view s) (view s') || env_allows (view s) (view s') = true.
Proof.
  intros s0 s l s' H0 R O S. pose proof (inv_reach _ _ (start_inv _ H0) R) as I.
  pose proof (sweep _ guarantee_all s) as H. unfold guarantee_p in H. rewrite I in H. cbn [implb] in H.
  rewrite forallb_forall in H. specialize (H l). rewrite O, S in H. cbn [negb orb] in H. apply H. destruct l; cbn; auto 20.
Qed.
Print Assumptions C26_guarantee.

(* ---- non-vacuity ---- *)
Example C26_ex_start : start_ok (init true Others Free false false false false).
Proof. exists true, Others, Free, false, false, false, false. repeat split; congruence. Qed.
(* the caller completes the handshake itself *)
Example C26_ex_complete :
  match run (init true Free Free false false false false) [LC; LC; LC; LC; LC; LC; LBodyOk; LC; LC; LC; LIDone; LC] with
  | Some s => returned s && complete s && match ret s with Some RNil => true | _ => false end | None => false end = true.
Proof. vm_compute. reflexivity. Qed.
(* cancellation during the body: conn closed, body fails, caller returns its ctx error *)
Example C26_ex_cancel :
  match run (init true Free Free false false false false) [LC; LC; LC; LC; LC; LC; LCancel; LIFire; LBodyErr; LC; LC; LC; LC] with
  | Some s => returned s && conn_closed s && hs_err s && match ret s with Some RCtx => true | _ => false end | None => false end = true.
Proof. vm_compute. reflexivity. Qed.
(* another caller completes while this one waits for the mutex; it then returns nil from line 367 *)
Example C26_ex_other_completes :
  match run (init false Free Free false false false false) [LC; LC; EAcquire; EInAcquire; EBodyOk; EInRelease; ERelease; LC; LC; LC; LC] with
  | Some s => returned s && match ret s with Some RNil => true | _ => false end | None => false end = true.
Proof. vm_compute. reflexivity. Qed.

(* C10 — every offered fingerprint completes a handshake with a compliant server.

   client_run10 (Model/Complete.v) is the client's decision (Model/Negotiate.v: UConn.clientHandshake, the TLS 1.3
   and TLS <= 1.2 state machines) with the key selection of the repaired establishHandshakeKeys; [compliant e m w fl]
   says the server flight fl answers the wire hello w with choices inside (offered on the wire) /\ (implemented by
   utls) - version, cipher suite, key-exchange group directly or through a HelloRetryRequest (new group or cookie),
   ALPN, certificate compression, TLS 1.2 ECDHE curve - and follows RFC 8446 / RFC 5246 (session-id echo, null
   compression, downgrade sentinel only when it negotiates below its own maximum, valid cryptography).
   State of the files: the tree WITH fixes/C18-keyshare-private-keys.diff ([fixed := true]); [fixed := false] is
   the code before it. Crypto, certificates and the record layer are the flight's f_crypto_ok bit (partial). *)
From UV Require Import Base.Common Model.Negotiate Model.KeyShare Model.Complete Proofs.CompleteP.

(* The full statement - a hello whose view equals its wire image, whose advertised versions are the ones Config
   accepts, with one share per group, keys as ApplyPreset leaves them, completes on EVERY compliant flight - is
   false: two classes of offered choices make the client abort. *)
Theorem C10_full_refuted : ~ C10_full true.
Proof. exact C10_full_refuted_fixed. Qed.
Print Assumptions C10_full_refuted.

(* class 1 (finding psk-hrr/<parrot>): a hello carrying pre_shared_key + a HelloRetryRequest for an offered group *)
Theorem C10_psk_hrr_aborts :
  let ks := mkShape 29 [] false 0 in
  counterexample true (wit_view [29; 23] [29] 1 ks) ks V12 (wit_wire [29; 23] [29] 1) (wit_flight (Some 23) 23) a_none.
Proof. exact psk_hrr_counterexample. Qed.
Print Assumptions C10_psk_hrr_aborts.

(* class 2 (finding hrr-hybrid/<parrot>): supported_groups lists X25519MLKEM768 without a key share (randomized
   specs) and the server requests it in a HelloRetryRequest: "CurvePreferences includes unsupported curve" *)
Theorem C10_hrr_hybrid_aborts :
  let ks := mkShape 29 [] false 0 in
  counterexample true (wit_view [4588; 29; 23] [29] 0 ks) ks V12 (wit_wire [4588; 29; 23] [29] 0) (wit_flight (Some 4588) 4588) a_internal_error.
Proof. exact hrr_hybrid_counterexample. Qed.
Print Assumptions C10_hrr_hybrid_aborts.

(* The strongest true conditional: outside these two classes, every spec whose generated shares are backed by the
   key the client selects (keys_ok; established for ApplyPreset's keys by C18_keys_retained and checked per spec on
   every run) completes on every compliant flight, on exactly the server's choices. For every environment (with or
   without the C12/C13 repairs), both values of [fixed]. *)
Theorem C10_holds_if : forall fixed e v ks m w fl,
  c10_cond fixed e v ks m w fl = true -> compliant e m w fl = true ->
  exists st, client_run10 fixed e v ks fl = Complete st
             /\ cs_suite st = h_suite (f_sh fl)
             /\ ((cs_vers st = V13 /\ cs_group st = h_share (f_sh fl) /\ cs_alpn st = f_ee_alpn fl)
                 \/ (cs_vers st = h_vers (f_sh fl) /\ cs_vers st <> V13 /\ cs_alpn st = h_alpn (f_sh fl))).
Proof. exact c10_holds_if. Qed.
Print Assumptions C10_holds_if.

(* Application data: a successful Write reports exactly len(b), whatever the version and cipher family (the 1/n-1
   record split of TLS <= 1.0 CBC suites included); the echo itself is observed by the runs. *)
Theorem C10_write_reports_all : forall vers cbc len, uconn_write vers cbc len = len.
Proof. exact uconn_write_all. Qed.
Print Assumptions C10_write_reports_all.

(* A CertificateRequest (optional client authentication) in the flight changes nothing: the conditional holds verbatim for
   flights that carry one, and the client (which has no certificate) answers with an empty Certificate message. Whether the
   transcript still verifies with the extra message - also when the server certificate arrives compressed - is part of
   f_crypto_ok and is exercised by the runs (clientauth, clientauth-certcomp, clientauth-hrr). *)
Theorem C10_holds_with_certificate_request : forall fixed e v ks m w fl creq,
  c10_cond fixed e v ks m w fl = true -> compliant e m w fl = true ->
  exists st, client_run10q fixed e v ks fl creq = Complete st /\ cs_suite st = h_suite (f_sh fl)
             /\ client_cert_reply creq = (if creq then Some 0 else None).
Proof.
  intros fixed e v ks m w fl creq H C. destruct (c10_holds_if fixed e v ks m w fl H C) as (st & R & S & _).
  exists st. repeat split; assumption.
Qed.
Print Assumptions C10_holds_with_certificate_request.

(* Before the repair the full statement failed already on a server selecting Firefox's second share ... *)
Theorem C10_before_fix_refuted : ~ C10_full false.
Proof. exact C10_full_refuted_unfixed. Qed.
Print Assumptions C10_before_fix_refuted.

Theorem C10_second_share_aborted_before_fix :
  let ks := mkShape 29 [] false 0 in
  counterexample false (wit_view [29; 23] [29; 23] 0 ks) ks V12 (wit_wire [29; 23] [29; 23] 0) (wit_flight None 23) a_illegal_parameter.
Proof. exact second_share_counterexample. Qed.
Print Assumptions C10_second_share_aborted_before_fix.

(* ---- non-vacuity: ... and now satisfies c10_cond on X25519, P-256 and (through a HelloRetryRequest) P-384 ---- *)
Example C10_ex_second_share_now :
  let ks := mkShape 29 [23] false 0 in
  preset_shape true [29; 23] = Some ks
  /\ forall fl, In fl [wit_flight None 29; wit_flight None 23; wit_flight (Some 24) 24] ->
       c10_cond true env_fixed (wit_view [29; 23; 24] [29; 23] 0 ks) ks V12 (wit_wire [29; 23; 24] [29; 23] 0) fl = true
       /\ compliant env_fixed V12 (wit_wire [29; 23; 24] [29; 23] 0) fl = true.
Proof. exact second_share_fixed. Qed.

(* a TLS 1.2 server (ECDHE suite 49195 on P-256, no sentinel) is compliant for the same hello, and it completes *)
Example C10_ex_tls12 :
  let ks := mkShape 29 [23] false 0 in
  let fl := mkFlight None (mkHello V12 0 0 [] 49195 0 0 0 false None []) [] None (Some 23) true in
  c10_cond true env_fixed (wit_view [29; 23] [29; 23] 0 ks) ks V12 (wit_wire [29; 23] [29; 23] 0) fl = true
  /\ compliant env_fixed V12 (wit_wire [29; 23] [29; 23] 0) fl = true
  /\ exists st, client_run10 true env_fixed (wit_view [29; 23] [29; 23] 0 ks) ks fl = Complete st /\ cs_vers st = V12.
Proof. vm_compute. repeat split. eexists. split; reflexivity. Qed.

(* keys_ok holds for ApplyPreset's keys on the parrots' share lists (Chrome PQ, Firefox, hybrid-only, five shares) *)
Example C10_ex_keys_ok :
  forallb (fun l => match preset_shape true l with
                    | Some ks => keys_ok true (wit_view l l 0 ks) ks
                    | None => false end)
          [[2570; 4588; 29]; [29; 23]; [4588]; [4588; 23]; [23; 4588; 29; 24; 25]; [14906; 25497; 29]] = true.
Proof. vm_compute. reflexivity. Qed.

(* ======================================================================================================
   C10 over the regenerated parrot table (Gen/Parrots.v) with NO premise on a model's output
   (Model/ParrotNeg.v, Proofs/ParrotNegP.v / ParrotNegS.v / ParrotNegC.v on top of Model/PresetOk.v and the composition
   files; reading guide at the end of Props/C02.v and Props/C12.v).
     ParrotNeg.neg_static sp     decidable from the spec: at most one supported_groups / key_share / supported_versions /
                                 compress_certificate extension, version bounds derivable, and - for ALL 16 x 16 GREASE (group,
                                 version) values - the part of spec_ok that is not [synced] holds with the keys the repaired
                                 ApplyPreset retains (ParrotNeg.static_shape, proved for every crypto instance: C18_parrots)
     ParrotNeg.hybrid_static sp  every hybrid group in supported_groups has its key share (else: finding hrr-hybrid)
     ParrotNegC.psk_quiet sp     without a session the pre_shared_key extension serialises nothing (else: finding psk-hrr)
   The exception classes are THEOREMS over the table: a new parrot that falls into one changes a statement here.
   ====================================================================================================== *)
From UV Require Model.Ext Model.Marshal Model.ChMarshal Model.WriteToUConn Model.Preset Model.ParrotSpec Model.Shuffle.
From UV Require Model.PresetOk Model.ParrotNeg Gen.Parrots.
From UV Require Proofs.ComposeW Proofs.PresetOkC Proofs.ParrotNegS Proofs.ParrotNegC.

(* every shipped parrot satisfies the static condition ... *)
Theorem C10_parrots_static : forallb (fun p => ParrotNeg.neg_static (Preset.p_spec p)) Parrots.all = true.
Proof. exact ParrotNegS.parrots_neg_static. Qed.

(* ... class hrr-hybrid (supported_groups lists X25519MLKEM768 / Kyber without sending its share): NO shipped parrot
   (the finding hrr-hybrid/* concerns randomized specs only) ... *)
Theorem C10_parrots_hrr_hybrid_exceptions : map Preset.p_name ParrotNegS.hrr_hybrid_exceptions = [].
Proof. exact ParrotNegS.parrots_hrr_hybrid_exceptions. Qed.

(* ... class psk-hrr (finding psk-hrr): reachable only when a session is offered; exactly the four parrots that carry a
   pre_shared_key extension can offer one. Without a session their extension is omitted (OmitEmptyPsk) for all 38: *)
Theorem C10_parrots_psk_hrr_class :
  map Preset.p_name ParrotNegS.psk_hrr_class
  = map Preset.p_name [Parrots.p_Chrome_100_PSK; Parrots.p_Chrome_112_PSK_Shuf; Parrots.p_Chrome_114_Padding_PSK_Shuf; Parrots.p_Chrome_115_PQ_PSK].
Proof. exact ParrotNegS.parrots_psk_hrr_class. Qed.
Theorem C10_parrots_psk_quiet : forallb (fun p => ParrotNegC.psk_quiet (Preset.p_spec p)) Parrots.all = true.
Proof. exact ParrotNegC.parrots_psk_quiet. Qed.

(* THE PROPERTY for the shipped parrots, no session offered: every table entry, every rearrangement the shuffle can produce,
   every Config with an SNI name of at most 255 bytes and OmitEmptyPsk, every randomness for which ApplyPreset returns, every
   bufio behaviour: on EVERY compliant server flight the client completes, on exactly the server's choices.
   v = the view UConn.ApplyConfig builds (WriteToUConn.view_of), ks = the shape of the keys ApplyPreset retains. *)
Theorem C10_parrots : forall p swaps exts', In p Parrots.all ->
  Shuffle.shuffle ParrotSpec.fixedb swaps (Preset.sp_exts (Preset.p_spec p)) = Ok exts' ->
  forall c fr h es, PresetOkC.parrot_class c ->
  Preset.apply_preset (PresetOk.with_exts (Preset.p_spec p) exts') c fr = Ok (h, es) ->
  forall mn mx env bbs padto raw s',
  Preset.set_tls_vers (PresetOk.with_exts (Preset.p_spec p) exts') = Ok (mn, mx) ->
  WriteToUConn.we_cache_session env = false ->
  ChMarshal.marshal_hello bbs padto h es = Ok raw ->
  WriteToUConn.apply_config env (ChMarshal.marshal_hello bbs padto h es) (ComposeW.preset_state h mn mx) es = Ok s' ->
  let ks := ParrotNeg.static_shape (ParrotNeg.lastS ParrotNeg.s_shares (Preset.sp_exts (Preset.p_spec p)) []) in
  let v := WriteToUConn.view_of (WriteToUConn.finish false es s') es (sh_ecdhe ks) (sh_mlkem ks) 0 in
  exists w, WriteToUConn.wire_of raw = Some w /\
    forall fl, compliant env_fixed mn w fl = true ->
    exists st, client_run10 true env_fixed v ks fl = Complete st
      /\ cs_suite st = h_suite (f_sh fl)
      /\ ((cs_vers st = V13 /\ cs_group st = h_share (f_sh fl) /\ cs_alpn st = f_ee_alpn fl)
          \/ (cs_vers st = h_vers (f_sh fl) /\ cs_vers st <> V13 /\ cs_alpn st = h_alpn (f_sh fl))).
Proof. exact ParrotNegC.parrot_completes. Qed.
Print Assumptions C10_parrots.

(* Firefox_120 (key shares X25519 and P-256) through the whole chain with concrete randomness: a compliant TLS 1.3 server
   selecting the SECOND share (P-256) - the case that aborted before the C18 repair - and one selecting the first: compliant,
   c10_cond holds, the client completes on that group; retained keys Ecdhe = X25519, ExtraEcdhe = [P-256] *)
Example C10_ex_firefox120_second_share :
  ParrotNegC.ex_firefox120 23 = true /\ ParrotNegC.ex_firefox120 29 = true
  /\ ParrotNeg.static_shape (ParrotNeg.lastS ParrotNeg.s_shares (Preset.sp_exts (Preset.p_spec Parrots.p_Firefox_120)) []) = mkShape 29 [23] false 0.
Proof. vm_compute. repeat split; reflexivity. Qed.

(* imported last, for the driver's closure scan only (lib/vcheck.py follows "Require Import" lines); nothing follows *)
From UV Require Import Model.WriteToUConn Proofs.ComposeP Proofs.ComposeW.
From UV Require Import Model.PresetOk Model.ParrotNeg Proofs.PresetOkP Proofs.PresetOkS Proofs.PresetOkC Proofs.ParrotNegP Proofs.ParrotNegS Proofs.ParrotNegC.

(* C31 — public views of handshake messages convert losslessly.
   Property theorems only; each closed by a lemma from Proofs/PublicP.v or Proofs/GoCHP*.v.
   State of the files: they model the UNCHANGED code (no fix was needed). *)
From Coq Require Import String.
From UV Require Import Base.Common Model.Public Model.GoCH Proofs.PublicP Proofs.GoCHP Proofs.GoCHP2 Proofs.GoCHP3 Proofs.GoCHP4 Proofs.GoCHP5.
Open Scope N_scope.

(* ---- ClientHello view: public -> private -> public keeps every field that has a counterpart
   (all but the cache pointer); the two rebuilt slices keep their elements (an empty non-nil slice comes back nil). *)
Theorem C31_client_hello_pub_priv_pub : forall c p c', CH_getPrivatePtr (Some c) = Some (p, c') ->
  exists c2, ch_getPublicPtr (Some p) = Some c2 /\ CH_view c2 = CH_view c /\ CH_view c' = CH_view c /\
             CH_cachedPrivateHello c2 = Some p /\ CH_cachedPrivateHello c' = Some p.
Proof. exact CH_pub_priv_pub. Qed.
Print Assumptions C31_client_hello_pub_priv_pub.

(* private -> public -> private keeps every field but [extensions], which is reset *)
Theorem C31_client_hello_priv_pub_priv : forall m, exists c, ch_getPublicPtr (Some m) = Some c /\
  forall p c', CH_getPrivatePtr (Some c) = Some (p, c') -> ch_view p = ch_view m /\ ch_extensions p = [].
Proof. exact ch_priv_pub_priv. Qed.
Print Assumptions C31_client_hello_priv_pub_priv.

(* a view that was converted before (so its cache pointer holds the EARLIER private struct) and then edited to ANY
   other field values converts exactly like a fresh view with those values: the conversion never reads the cache *)
Theorem C31_client_hello_reconversion_after_edit : forall c0 c1 p0 c0' p1 c1',
  CH_getPrivatePtr (Some c0) = Some (p0, c0') ->
  CH_getPrivatePtr (Some (CH_set_cached c1 (CH_cachedPrivateHello c0'))) = Some (p1, c1') ->
  p1 = CH_private_of c1 /\ exists c2, ch_getPublicPtr (Some p1) = Some c2 /\ CH_view c2 = CH_view c1.
Proof. exact CH_reconversion. Qed.
Print Assumptions C31_client_hello_reconversion_after_edit.

(* whole-record identity unless a rebuilt slice is empty but not nil *)
Theorem C31_client_hello_exact : forall c, CH_KeyShares c <> Some [] -> CH_PskIdentities c <> Some [] ->
  ch_getPublicPtr (Some (CH_private_of c)) = Some (CH_set_cached c (Some (CH_private_of c))).
Proof. exact CH_pub_priv_pub_exact. Qed.
Print Assumptions C31_client_hello_exact.

(* ---- ServerHello view ---- *)
Theorem C31_server_hello_pub_priv_pub : forall s, sh_getPublicPtr (SH_getPrivatePtr s) = s.
Proof. exact SH_pub_priv_pub. Qed.
Print Assumptions C31_server_hello_pub_priv_pub.
Theorem C31_server_hello_priv_pub_priv : forall s,
  option_map sh_view (SH_getPrivatePtr (sh_getPublicPtr s)) = option_map sh_view s.
Proof. exact sh_priv_pub_priv. Qed.
Print Assumptions C31_server_hello_priv_pub_priv.
(* the three private fields without counterpart come back zero *)
Theorem C31_server_hello_not_copied : forall s,
  option_map (fun m => (sh_supportedPoints m, sh_encryptedClientHello m, sh_serverNameAck m))
             (SH_getPrivatePtr (sh_getPublicPtr (Some s))) = Some ([], [], false).
Proof. exact sh_not_copied. Qed.
Print Assumptions C31_server_hello_not_copied.

(* ---- CertificateRequestMsgTLS13 (for any marshal function): every field but Raw / original ---- *)
Theorem C31_certreq_pub_priv_pub : forall mar c, option_map CR_view (cr_toPublic mar (CR_toPrivate c)) = option_map CR_view c.
Proof. exact CR_pub_priv_pub. Qed.
Print Assumptions C31_certreq_pub_priv_pub.
Theorem C31_certreq_priv_pub_priv : forall mar c, option_map cr_view (CR_toPrivate (cr_toPublic mar c)) = option_map cr_view c.
Proof. exact cr_priv_pub_priv. Qed.
Print Assumptions C31_certreq_priv_pub_priv.
(* Raw is not carried: it is re-marshalled from the other fields; original is dropped *)
Theorem C31_certreq_raw_not_carried : forall mar c p,
  option_map CR_Raw (cr_toPublic mar (CR_toPrivate (Some c))) =
    Some (match mar (CR_OcspStapling c) (CR_Scts c) (CR_SupportedSignatureAlgorithms c)
                    (CR_SupportedSignatureAlgorithmsCert c) (CR_CertificateAuthorities c) with Some r => r | None => [] end)
  /\ option_map cr_original (CR_toPrivate (cr_toPublic mar (Some p))) = Some None.
Proof. intros mar c p. split; [apply CR_raw_is_remarshalled|apply cr_original_dropped]. Qed.
Print Assumptions C31_certreq_raw_not_carried.

(* ---- key shares, PSK identities, ticket keys (list-mapped) ---- *)
Theorem C31_key_shares : forall s k,
  elems (keyShares_ToPublic (KeyShares_ToPrivate s)) = elems s /\ elems (KeyShares_ToPrivate (keyShares_ToPublic k)) = elems k /\
  (s <> Some [] -> keyShares_ToPublic (KeyShares_ToPrivate s) = s).
Proof. intros s k. split; [apply KeyShares_pub_priv_pub|split; [apply keyShares_priv_pub_priv|apply KeyShares_exact]]. Qed.
Print Assumptions C31_key_shares.
Theorem C31_psk_identities : forall s k,
  elems (pskIdentities_ToPublic (PskIdentities_ToPrivate s)) = elems s /\ elems (PskIdentities_ToPrivate (pskIdentities_ToPublic k)) = elems k /\
  (s <> Some [] -> pskIdentities_ToPublic (PskIdentities_ToPrivate s) = s).
Proof. intros s k. split; [apply PskIdentities_pub_priv_pub|split; [apply pskIdentities_priv_pub_priv|apply PskIdentities_exact]]. Qed.
Print Assumptions C31_psk_identities.
Theorem C31_ticket_keys : forall T t s k,
  tk_ToPublic (TK_ToPrivate T) = T /\ TK_ToPrivate (tk_ToPublic t) = t /\
  elems (ticketKeys_ToPublic (TicketKeys_ToPrivate s)) = elems s /\ elems (TicketKeys_ToPrivate (ticketKeys_ToPublic k)) = elems k.
Proof. intros. repeat split; [apply tk_pp|apply tk_qq|apply TicketKeys_pub_priv_pub|apply ticketKeys_priv_pub_priv]. Qed.
Print Assumptions C31_ticket_keys.
(* the nil-ness caveat is real: the empty non-nil slice is the one value that does not come back identical *)
Theorem C31_empty_slice_becomes_nil : keyShares_ToPublic (KeyShares_ToPrivate (Some [])) = None.
Proof. reflexivity. Qed.
Print Assumptions C31_empty_slice_becomes_nil.

(* ---- cipher-suite and key views: whole-record identities ---- *)
Theorem C31_suite_and_key_views : forall c3 c3' cs cs' kp kp' km km',
  c3_toPublic (C3_toPrivate c3) = c3 /\ C3_toPrivate (c3_toPublic c3') = c3' /\
  cs_getPublicObj (CS_getPrivatePtr (Some cs)) = cs /\ CS_getPrivatePtr (Some (cs_getPublicObj (Some cs'))) = Some cs' /\
  kp_ToPublic (KP_ToPrivate kp) = kp /\ KP_ToPrivate (kp_ToPublic kp') = kp' /\
  km_ToPublic (KM_ToPrivate km) = km /\ KM_ToPrivate (km_ToPublic km') = km'.
Proof.
  intros. repeat split; [apply C3_pub_priv_pub|apply c3_priv_pub_priv|apply CS_pub_priv_pub|apply cs_priv_pub_priv|
    apply KP_pub_priv_pub|apply kp_priv_pub_priv|apply KM_pub_priv_pub|apply km_priv_pub_priv].
Qed.
Print Assumptions C31_suite_and_key_views.

(* ---- FinishedHash (not in the property's list; what holds): every hash/buffer/version field; Prfv2 when set; a non-nil prf ---- *)
Theorem C31_finished_hash : forall f g,
  FH_view (fh_getPublicObj (FH_getPrivateObj f)) = FH_view f /\
  (forall p, FH_Prfv2 f = Some p -> FH_Prfv2 (fh_getPublicObj (FH_getPrivateObj f)) = Some p) /\
  (fh_prf g <> None -> FH_getPrivateObj (fh_getPublicObj g) = g).
Proof. intros f g. split; [apply FH_pub_priv_pub|split; [apply FH_prfv2_kept|apply fh_priv_pub_priv]]. Qed.
Print Assumptions C31_finished_hash.

(* ---- the explicit list of fields without counterpart (from the field tables the runner compares with reflect) ---- *)
Local Open Scope string_scope.
Theorem C31_fields_without_counterpart : without_counterpart =
  [("ClientHello", (["cachedPrivateHello"], ["extensions"]));
   ("ServerHello", ([], ["supportedPoints"; "encryptedClientHello"; "serverNameAck"]));
   ("CertReq13", (["Raw"], ["original"]));
   ("FinishedHash", (["Prf"], []))].
Proof. exact without_counterpart_is. Qed.
Print Assumptions C31_fields_without_counterpart.
Local Close Scope string_scope.

(* ---- UnmarshalClientHello followed by Marshal reproduces the input exactly.  Trivially so: unmarshal stores the input
   in [original] and marshal returns [original] whenever it is set — for ANY field values (second theorem). ---- *)
Theorem C31_unmarshal_marshal_raw : forall b c, UnmarshalClientHello b = Some c -> Marshal c = Ok b.
Proof. exact unmarshal_marshal_raw. Qed.
Print Assumptions C31_unmarshal_marshal_raw.
Theorem C31_marshal_ignores_fields_while_raw_set : forall c raw, CH_Raw c = Some raw -> Marshal c = Ok raw.
Proof. exact marshal_returns_raw. Qed.
Print Assumptions C31_marshal_ignores_fields_while_raw_set.
(* with Raw cleared, Marshal is marshalMsg(false) of the field values *)
Theorem C31_marshal_when_raw_cleared : forall c, Marshal (CH_clear_raw c) = marshalMsg (CH_private_of (CH_clear_raw c)).
Proof. exact marshal_cleared. Qed.
Print Assumptions C31_marshal_when_raw_cleared.

(* ---- clear Raw, marshal, parse again: same field values ----
   The parser-side invariant: whatever unmarshal accepts (for all 19 known extensions; unknown ones are skipped as in the
   Go code) has well-formed field values.  [bytes_ok b] only says that the elements of b are bytes. *)
Theorem C31_unmarshal_wellformed : forall b m, bytes_ok b -> unmarshal b = Some m -> wf_msgb m = true.
Proof. intros b m H E. exact (unmarshal_wf b m E H). Qed.
Print Assumptions C31_unmarshal_wellformed.

(* The statement at full strength ... *)
Definition C31_reparse_stable_full : Prop :=
  forall b m, bytes_ok b -> unmarshal b = Some m ->
  exists b' m', marshalMsg (ch_clear_raw m) = Ok b' /\ unmarshal b' = Some m' /\ ch_fields m' = ch_fields m.
(* ... is refuted by the faithful model (and by the code: the runner replays the witness, finding
   remarshal/scsv-ext-block-overflow): a ClientHello whose suites contain the renegotiation SCSV, without a
   renegotiation_info extension and with a 65535-byte extension block, parses, but its re-marshal needs 5 more bytes
   for the renegotiation_info that marshalMsg adds, and fails. *)
Theorem C31_reparse_stable_refuted : ~ C31_reparse_stable_full.
Proof. exact reparse_full_refuted. Qed.
Print Assumptions C31_reparse_stable_refuted.
(* The strongest true conditional: NO well-formedness premise; whenever the re-marshal succeeds, the second parse
   succeeds and gives equal field values. *)
Theorem C31_reparse_stable_holds_if : forall b m b', bytes_ok b -> unmarshal b = Some m ->
  marshalMsg (ch_clear_raw m) = Ok b' ->
  exists m', unmarshal b' = Some m' /\ ch_fields m' = ch_fields m /\ ch_original m' = Some b'.
Proof. intros b m b' H E Em. exact (reparse_stable b m b' H E Em). Qed.
Print Assumptions C31_reparse_stable_holds_if.
(* the same through the public entry points *)
Theorem C31_reparse_stable : forall b c b', bytes_ok b -> UnmarshalClientHello b = Some c ->
  Marshal (CH_clear_raw c) = Ok b' ->
  exists c', UnmarshalClientHello b' = Some c' /\ CH_values c' = CH_values c /\ CH_Raw c' = Some b'.
Proof. exact reparse_stable_pub. Qed.
Print Assumptions C31_reparse_stable.
(* the private-level statement it rests on: marshalMsg then unmarshal returns every field *)
Theorem C31_marshal_unmarshal : forall m b, wf_msg m -> marshalMsg m = Ok b ->
  exists m', unmarshal b = Some m' /\ ch_fields m' = ch_fields m /\ ch_original m' = Some b /\
             ch_extensions m' = map ext_id (present m).
Proof. exact marshal_unmarshal. Qed.
Print Assumptions C31_marshal_unmarshal.

(* ---- non-vacuity ---- *)
Definition ex_hello : PubClientHelloMsg := {|
  CH_Raw := Some [9; 9]; CH_Vers := 771; CH_Random := repeat 7 32; CH_SessionId := [1; 2; 3]; CH_CipherSuites := [4865; 49195; 255];
  CH_CompressionMethods := [0]; CH_NextProtoNeg := false; CH_ServerName := [97; 46; 98]; CH_OcspStapling := true; CH_Scts := true;
  CH_Ems := true; CH_SupportedCurves := [29; 23]; CH_SupportedPoints := [0]; CH_TicketSupported := true; CH_SessionTicket := [5; 6];
  CH_SupportedSignatureAlgorithms := [1027; 2052]; CH_SecureRenegotiation := []; CH_SecureRenegotiationSupported := true;
  CH_AlpnProtocols := [[104; 50]; [104; 116; 116; 112]]; CH_SupportedSignatureAlgorithmsCert := [1025]; CH_SupportedVersions := [772; 771];
  CH_Cookie := [1]; CH_KeyShares := Some [{| KS_Group := 29; KS_Data := repeat 3 32 |}]; CH_EarlyData := true; CH_PskModes := [1];
  CH_PskIdentities := Some [{| PI_Label := [8; 8]; PI_ObfuscatedTicketAge := 4000000000 |}]; CH_PskBinders := [repeat 1 32];
  CH_QuicTransportParameters := Some []; CH_cachedPrivateHello := None; CH_encryptedClientHello := [254; 13] |}.
Example C31_ex_wf : wf_msgb (CH_private_of (CH_clear_raw ex_hello)) = true.
Proof. vm_compute. reflexivity. Qed.
Example C31_ex_reparse : exists b c', Marshal (CH_clear_raw ex_hello) = Ok b /\ UnmarshalClientHello b = Some c' /\
  CH_values c' = CH_values ex_hello.
Proof. vm_compute. eexists. eexists. repeat split. Qed.
Example C31_ex_witness : bytes_okb scsv_witness = true /\ N.of_nat (List.length scsv_witness) = 65582.
Proof. split; vm_compute; reflexivity. Qed.
Example C31_ex_raw : Marshal ex_hello = Ok [9; 9].
Proof. reflexivity. Qed.
Example C31_ex_pub_priv_pub : exists p c', CH_getPrivatePtr (Some ex_hello) = Some (p, c') /\ ch_extensions p = [].
Proof. eexists. eexists. split; reflexivity. Qed.

From UV Require Import Base.Common Model.Public Model.GoCH Proofs.PublicP.
Theorem C31_stub : True. Proof. exact I. Qed.
Print Assumptions C31_stub.

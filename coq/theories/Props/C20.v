(* C20 — injected sessions are used exactly as given, under any legal call order.
   Model: Model/Session.v (UConn session API + sessionController, code with fix 222e09f "apply the ClientHelloID preset
   only once"): finite control x provenance flags x data. [world_ok] is the shape of every predefined ClientHelloID;
   [legal] the documented call orders. All theorems are for histories of ANY length carrying arbitrary ticket /
   identity bytes: Proofs/SessionP.v computes, for each of the finitely many abstract worlds, the reachable control
   nodes and checks by computation that they are closed under every legal call (an inductive invariant over a finite
   space); Proofs/SessionMainP.v lifts it by induction over the history. The witness of the former defect (F-20) is
   kept as an Example about the pre-fix variant of the model ([w_reapply := true]) and as a corpus case of the runner. *)
From UV Require Import Base.Common Model.Session Proofs.SessionP Proofs.SessionMainP.

(* every documented order runs without an assertion panic — HelloGolang included *)
Theorem C20_no_assert : forall (w : world) (ops : list op),
  world_ok w = true -> legal w ops = true ->
  Forall (fun r => is_panic r = false) (run w (init w) ops).
Proof. exact no_assert. Qed.
Print Assumptions C20_no_assert.

(* an injected, initialized session ticket is what the marshaled hello and HandshakeState carry once the hello is built *)
Theorem C20_wire_ticket : forall (w : world) (ops : list op) (tk : bytes) (se : N),
  world_ok w = true -> w_golang w = false -> legal w ops = true ->
  injected ops = Some (InjTicket tk se) ->
  let s := final w (init w) ops in
  status (st_c s) = ByUtls ->
  hs_sess (st_d s) = se /\ hs_ticket (st_d s) = tk /\ exists p, raw (st_d s) = Some ([tk], p).
Proof. exact wire_ticket. Qed.
Print Assumptions C20_wire_ticket.

(* the same for an injected PSK: identity in the pre_shared_key extension, session in HandshakeState *)
Theorem C20_wire_psk : forall (w : world) (ops : list op) (lb : bytes) (se : N),
  world_ok w = true -> w_golang w = false -> legal w ops = true ->
  injected ops = Some (InjPsk lb se) ->
  let s := final w (init w) ops in
  status (st_c s) = ByUtls ->
  hs_sess (st_d s) = se /\ exists t, raw (st_d s) = Some (t, Some lb).
Proof. exact wire_psk. Qed.
Print Assumptions C20_wire_psk.

(* a call the documentation forbids, after any documented history, returns "session is disabled" or panics with the
   documented "locked" / "undesired controller state" message *)
Theorem C20_forbidden : forall (w : world) (ops : list op) (lf : lst) (o : op),
  world_ok w = true -> w_golang w = false ->
  legal_from w (linit (w_cache0 w)) ops = Some lf -> forbidden w lf o = true ->
  rejected (snd (step w o (final w (init w) ops))) = true.
Proof. exact forbidden_rejected. Qed.
Print Assumptions C20_forbidden.

(* once the preset has been applied (in particular once the hello is built) the key-share private keys exist and are
   the ones of the share in the hello — also after BuildHandshakeStateWithoutSession followed by BuildHandshakeState *)
Theorem C20_keys_survive : forall (w : world) (ops : list op),
  world_ok w = true -> w_golang w = false -> legal w ops = true ->
  let c := st_c (final w (init w) ops) in
  (status c = ByUtls -> applied c = true) /\
  (applied c = true -> w_tls13 w = true -> share_some c = true /\ keys_some c = true /\ keys_match c = true).
Proof. exact keys_survive. Qed.
Print Assumptions C20_keys_survive.

(* HelloGolang keeps the private key of its key share *)
Theorem C20_keys_golang : forall (w : world) (ops : list op),
  world_ok w = true -> w_golang w = true -> legal w ops = true ->
  let c := st_c (final w (init w) ops) in
  status c = ByGo -> share_some c = true /\ keys_some c = true /\ keys_match c = true.
Proof. exact keys_golang. Qed.
Print Assumptions C20_keys_golang.

(* no Handshake of a documented history fails because a key-share private key is missing or a PSK binder is stale *)
Theorem C20_handshake_never_fails : forall (w : world) (ops : list op),
  world_ok w = true -> legal w ops = true -> herr (st_c (final w (init w) ops)) = false.
Proof. exact handshake_never_fails. Qed.
Print Assumptions C20_handshake_never_fails.

(* every successful build (explicit, or the one inside Handshake) with a PSK in place leaves binders computed over the
   hello just marshaled — whatever edits of the hello ([EditHello]) and earlier builds preceded it *)
Theorem C20_binders_fresh : forall (w : world) (ops : list op) (lf : lst) (o : op) (l2 : lst),
  world_ok w = true ->
  legal_from w (linit (w_cache0 w)) ops = Some lf -> legal_step w lf o = Some l2 ->
  kind o = KBuild \/ kind o = KHandshake ->
  let r := step w o (final w (init w) ops) in
  snd r = Ok tt -> cs (st_c (fst r)) = PskAllSet -> binder_fresh (st_c (fst r)) = true.
Proof. exact binders_fresh. Qed.
Print Assumptions C20_binders_fresh.

(* ---- non-vacuity and the former defect ---- *)
Definition chrome (reapply : bool) : world :=   (* session_ticket, no pre_shared_key, TLS 1.3 peer *)
  mkWorld false 1 false true true true false false true HitNone true reapply.
Definition chrome_psk : world := mkWorld false 1 true true true true false false true HitNone true false.

Example C20_ex_worlds_ok : world_ok (chrome false) = true /\ world_ok chrome_psk = true.
Proof. split; reflexivity. Qed.

(* F-20 on the code before the fix: BuildHandshakeStateWithoutSession; BuildHandshakeState loses the keys, Handshake fails *)
Example C20_ex_F20_before_fix :
  let c := st_c (final (chrome true) (init (chrome true)) [BuildNoSess; Build]) in
  share_some c = true /\ keys_some c = false /\
  run (chrome true) (init (chrome true)) [BuildNoSess; Handshake] = [Ok tt; Err E_HANDSHAKE].
Proof. vm_compute. repeat split. Qed.

(* the same history on the fixed code *)
Example C20_ex_F20_fixed :
  legal (chrome false) [BuildNoSess; Build; Handshake] = true /\
  keys_eq (st_c (final (chrome false) (init (chrome false)) [BuildNoSess; Build])) = true /\
  run (chrome false) (init (chrome false)) [BuildNoSess; Build; Handshake] = [Ok tt; Ok tt; Ok tt].
Proof. vm_compute. repeat split. Qed.

(* the documented injection flows: the hypotheses of C20_wire_ticket / C20_wire_psk are satisfiable, the hello is built,
   and what goes on the wire at Handshake is that hello *)
Example C20_ex_ticket_flow :
  let ops := [SetCache; BuildNoSess; SetTicket (Some (true, [7; 8; 9], 5)); Handshake] in
  legal (chrome false) ops = true /\ injected ops = Some (InjTicket [7; 8; 9] 5) /\
  status (st_c (final (chrome false) (init (chrome false)) ops)) = ByUtls /\
  wire (st_d (final (chrome false) (init (chrome false)) ops)) = Some ([[7; 8; 9]], None).
Proof. vm_compute. repeat split. Qed.

Example C20_ex_psk_flow :
  let ops := [SetCache; SetPsk (Some (true, [4; 2], 6)); Build; Build; Handshake] in
  legal chrome_psk ops = true /\ injected ops = Some (InjPsk [4; 2] 6) /\
  status (st_c (final chrome_psk (init chrome_psk) ops)) = ByUtls /\
  wire (st_d (final chrome_psk (init chrome_psk) ops)) = Some ([[]], Some [4; 2]).
Proof. vm_compute. repeat split. Qed.

(* forbidden calls: hypotheses of C20_forbidden are satisfiable; the three rejections all occur *)
Example C20_ex_forbidden :
  run (chrome false) (init (chrome false))
      [SetTicket (Some (true, [1], 1)); SetCache; Build; SetTicket (Some (true, [1], 1))] = [Err E_DISABLED; Ok tt; Ok tt; Panic P_LOCKED] /\
  run (chrome false) (init (chrome false))
      [SetCache; SetTicket (Some (true, [1], 1)); SetPsk (Some (true, [2], 2))] = [Ok tt; Ok tt; Panic P_STATE].
Proof. vm_compute. split; reflexivity. Qed.

(* an injected ticket on a parrot without session_ticket extension is refused, not dropped *)
Example C20_ex_no_extension :
  run (mkWorld false 0 false true true true true false true HitNone false false)
      (init (mkWorld false 0 false true true true true false true HitNone false false))
      [SetTicket (Some (true, [1], 1)); Handshake] = [Ok tt; Err E_NO_TICKET_EXT].
Proof. vm_compute. reflexivity. Qed.

(* edit the built hello, then handshake: the binder is recomputed; filling the extension found in the inspected hello *)
Example C20_ex_edit_and_reuse :
  let ops := [SetCache; SetPsk (Some (true, [4; 2], 6)); Build; EditHello] in
  legal chrome_psk (ops ++ [Handshake]) = true /\
  binder_fresh (st_c (final chrome_psk (init chrome_psk) ops)) = false /\
  binder_fresh (st_c (final chrome_psk (init chrome_psk) (ops ++ [Handshake]))) = true /\
  run chrome_psk (init chrome_psk) [SetCache; BuildNoSess; ReusePsk ([4; 2], 6); Handshake] = [Ok tt; Ok tt; Ok tt; Ok tt] /\
  wire (st_d (final chrome_psk (init chrome_psk) [SetCache; BuildNoSess; ReusePsk ([4; 2], 6); Handshake])) = Some ([[]], Some [4; 2]) /\
  wire (st_d (final chrome_psk (init chrome_psk) [SetCache; BuildNoSess; ReuseTicket ([7], 5); Handshake])) = Some ([[7]], None).
Proof. vm_compute. repeat split. Qed.

(* the size of the finite argument: abstract worlds, those of predefined-parrot shape (all swept), and the reachable
   control nodes of two of them (no world has more than 171) *)
Example C20_ex_sizes :
  N.of_nat (length all_cworlds) = 9216 /\ N.of_nat (length (filter cworld_ok all_cworlds)) = 864 /\
  length (reach (cworld_of (chrome false))) = 70%nat /\ length (reach (cworld_of chrome_psk)) = 142%nat.
Proof. vm_compute. repeat split. Qed.

(* C20 — injected sessions are used exactly as given, under any legal call order.
   Model: Model/Session.v (UConn session API + sessionController, with fixes/C20-apply-preset-once.diff applied).
   State of these files: the model describes the FIXED code; the witness of the defect (F-20) is kept below as an
   Example about the pre-fix variant of the model ([w_reapply := true]) and as a corpus case of the runner.

   What is proved, and how far:
   * HelloGolang: for histories of ANY length and any argument bytes (invariant [invg], Proofs/SessionP.v).
   * Mimicking ClientHelloIDs: for every history of at most 4 calls over the 12-call [alphabet] (fixed ticket /
     identity bytes) in every world of predefined-parrot shape [worlds] — an exhaustive sweep of that finite domain
     inside Coq (Proofs/SessionBoundedP.v), lifted with forallb_forall. The bound is part of each statement. The
     unbounded invariant proof for these ClientHelloIDs exists only in part (Proofs/SessionInvP.v; see notes/C20.md). *)
From UV Require Import Base.Common Model.Session Proofs.SessionP Proofs.SessionBoundedP Proofs.SessionMainP.

(* HelloGolang: every documented order runs without an assertion panic — any length, any configuration *)
Theorem C20_no_assert_golang : forall (w : world) (ops : list op),
  w_golang w = true -> legal w ops = true ->
  Forall (fun r => is_panic r = false) (run w (init w) ops).
Proof. exact no_assert_golang. Qed.
Print Assumptions C20_no_assert_golang.

(* every documented order of at most 4 calls runs without an assertion panic, in every parrot-shaped world *)
Theorem C20_no_assert : forall (w : world) (ops : list op),
  In w worlds -> In ops (lists_upto 4) -> legal w ops = true ->
  Forall (fun r => is_panic r = false) (run w (init w) ops).
Proof. exact no_assert_b. Qed.
Print Assumptions C20_no_assert.

(* an injected, initialized session ticket is what the marshaled hello and HandshakeState carry once the hello is built *)
Theorem C20_wire_ticket : forall (w : world) (ops : list op),
  In w worlds -> In ops (lists_upto 4) ->
  forall (tk : bytes) (se : N), legal w ops = true -> w_golang w = false ->
  injected ops = Some (InjTicket tk se) ->
  let s := final w (init w) ops in
  status s = ByUtls ->
  hs_sess s = se /\ hs_ticket s = tk /\ exists p, raw s = Some ([tk], p).
Proof. exact wire_ticket_b. Qed.
Print Assumptions C20_wire_ticket.

(* the same for an injected PSK: identity in the pre_shared_key extension, session in HandshakeState *)
Theorem C20_wire_psk : forall (w : world) (ops : list op),
  In w worlds -> In ops (lists_upto 4) ->
  forall (lb : bytes) (se : N), legal w ops = true -> w_golang w = false ->
  injected ops = Some (InjPsk lb se) ->
  let s := final w (init w) ops in
  status s = ByUtls ->
  hs_sess s = se /\ exists t, raw s = Some (t, Some lb).
Proof. exact wire_psk_b. Qed.
Print Assumptions C20_wire_psk.

(* a call the documentation forbids, after a documented history, returns "session is disabled" or panics with the
   documented "locked" / "undesired controller state" message *)
Theorem C20_forbidden : forall (w : world) (ops : list op),
  In w worlds -> In ops (lists_upto 4) ->
  forall (lf : lst) (o : op), w_golang w = false ->
  legal_from w (linit w) ops = Some lf -> In o alphabet -> forbidden w lf o = true ->
  rejected (snd (step w o (final w (init w) ops))) = true.
Proof. exact forbidden_b. Qed.
Print Assumptions C20_forbidden.

(* once the preset has been applied the key-share private key is the one of the share in the hello — in particular
   after BuildHandshakeStateWithoutSession followed by BuildHandshakeState *)
Theorem C20_keys_survive : forall (w : world) (ops : list op),
  In w worlds -> In ops (lists_upto 4) ->
  legal w ops = true -> w_golang w = false ->
  let s := final w (init w) ops in
  applied s = true -> w_tls13 w = true -> exists g, keys s = Some g /\ share s = Some g.
Proof. exact keys_b. Qed.
Print Assumptions C20_keys_survive.

(* HelloGolang keeps the private key of its key share for any history *)
Theorem C20_keys_golang : forall (w : world) (ops : list op),
  w_golang w = true -> legal w ops = true ->
  let s := final w (init w) ops in
  status s = ByGo -> exists g, keys s = Some g /\ share s = Some g.
Proof. exact keys_golang. Qed.
Print Assumptions C20_keys_golang.

(* ---- non-vacuity and the former defect ---- *)
Definition chrome (reapply : bool) : world :=   (* session_ticket, no pre_shared_key, TLS 1.3 peer *)
  mkWorld false 1 false true true true false false true HitNone true reapply.
Definition chrome_psk : world := mkWorld false 1 true true true true false false true HitNone true false.

Example C20_ex_worlds_ok : world_ok (chrome false) = true /\ world_ok chrome_psk = true.
Proof. split; reflexivity. Qed.

(* the hypotheses of the bounded theorems are satisfiable: these worlds are in the swept domain (and [lists_upto 4]
   is by construction every list of at most 4 elements of [alphabet]) *)
Example C20_ex_in_domain : In (chrome false) worlds /\ In chrome_psk worlds /\ In [Build] (lists_upto 1).
Proof. repeat split; vm_compute; repeat (first [left; reflexivity | right]). Qed.

(* F-20 on the code before the fix: BuildHandshakeStateWithoutSession; BuildHandshakeState loses the keys, Handshake fails *)
Example C20_ex_F20_before_fix :
  keys (final (chrome true) (init (chrome true)) [BuildNoSess; Build]) = None /\
  share (final (chrome true) (init (chrome true)) [BuildNoSess; Build]) = Some 1 /\
  run (chrome true) (init (chrome true)) [BuildNoSess; Handshake] = [Ok tt; Err E_HANDSHAKE].
Proof. vm_compute. repeat split. Qed.

(* the same history on the fixed code *)
Example C20_ex_F20_fixed :
  legal (chrome false) [BuildNoSess; Build; Handshake] = true /\
  keys (final (chrome false) (init (chrome false)) [BuildNoSess; Build]) = Some 1 /\
  run (chrome false) (init (chrome false)) [BuildNoSess; Build; Handshake] = [Ok tt; Ok tt; Ok tt].
Proof. vm_compute. repeat split. Qed.

(* the documented injection flow: hypotheses of C20_wire_ticket / C20_wire_psk are satisfiable and the hello is built *)
Example C20_ex_ticket_flow :
  let ops := [SetCache; BuildNoSess; SetTicket (Some (true, [7; 8; 9], 5)); Handshake] in
  legal (chrome false) ops = true /\ injected ops = Some (InjTicket [7; 8; 9] 5) /\
  status (final (chrome false) (init (chrome false)) ops) = ByUtls /\
  wire (final (chrome false) (init (chrome false)) ops) = Some ([[7; 8; 9]], None).
Proof. vm_compute. repeat split. Qed.

Example C20_ex_psk_flow :
  let ops := [SetCache; SetPsk (Some (true, [4; 2], 6)); Build; Build; Handshake] in
  legal chrome_psk ops = true /\ injected ops = Some (InjPsk [4; 2] 6) /\
  status (final chrome_psk (init chrome_psk) ops) = ByUtls /\
  wire (final chrome_psk (init chrome_psk) ops) = Some ([[]], Some [4; 2]).
Proof. vm_compute. repeat split. Qed.

(* forbidden calls: hypotheses of C20_forbidden are satisfiable; the three rejections all occur *)
Example C20_ex_forbidden :
  run (chrome false) (init (chrome false))
      [SetTicket (Some (true, [1], 1)); SetCache; Build; SetTicket (Some (true, [1], 1))] = [Err E_DISABLED; Ok tt; Ok tt; Panic P_LOCKED] /\
  run (chrome false) (init (chrome false))
      [SetCache; SetTicket (Some (true, [1], 1)); SetPsk (Some (true, [2], 2))] = [Ok tt; Ok tt; Panic P_STATE].
Proof. vm_compute. split; reflexivity. Qed.

(* an injected ticket on a parrot without session_ticket extension is refused, not dropped *)
Example C20_ex_no_extension :
  run (mkWorld false 0 false true true true true false true HitNone false false)
      (init (mkWorld false 0 false true true true true false true HitNone false false))
      [SetTicket (Some (true, [1], 1)); Handshake] = [Ok tt; Err E_NO_TICKET_EXT].
Proof. vm_compute. reflexivity. Qed.

(* C25 — application data arrives intact and tampering is detected.
   Record layer: Model/Record.v (conn.go halfConn encrypt/decrypt, Write incl. the 1/n-1 split and
   dynamic record sizing, readRecord, Read; UConn.Read/Write are the same model with cn_uconn = true).
   Primitives are premises (prims_ok); the tamper statement additionally uses an ideal-AEAD premise
   (labelled). Partial proof: see notes/C25.md for what is only observed by the runner. *)
From UV Require Import Base.Common Model.Record Model.Forge Model.KuLock
  Proofs.RecordP Proofs.RecordRT Proofs.RecordStream Proofs.RecordRead Proofs.TamperP Proofs.KuLockP Proofs.KuReadP.
Open Scope N_scope.

(* one record, every cipher construction (RC4+HMAC, CBC+HMAC with implicit or explicit IV, TLS 1.2 GCM,
   ChaCha20, TLS 1.3): what encrypt emits, the matched read half decrypts to the same payload and type,
   and both advance to matched states *)
Theorem C25_record_roundtrip : forall P, prims_ok P ->
  forall (tx rx : half) (typ v1 v2 : N) (payload rnd : bytes),
  synced tx rx -> typ <> 0 -> len payload <= maxPlaintext ->
  h_seq tx + 1 < 18446744073709551616 -> (explicit_nonce_len tx <= length rnd)%nat ->
  exists body tx' rx',
    encrypt P tx (hdr5 typ v1 v2 (len payload)) payload rnd
      = Ok (hdr5 (outer_typ (h_vers tx) typ) v1 v2 (len body) ++ body, tx') /\
    decrypt P rx (hdr5 (outer_typ (h_vers tx) typ) v1 v2 (len body) ++ body) = Ok (payload, typ, rx') /\
    synced tx' rx' /\ len payload <= len body <= len payload + body_slack (h_vers tx).
Proof.
  intros P HP tx rx typ v1 v2 payload rnd Hs Ht Hl Hq Hr.
  destruct (encrypt_decrypt P HP tx rx typ v1 v2 payload rnd Hs Ht Hl Hq Hr) as (b & tx' & rx' & A & B & C & D & _).
  eauto 8.
Qed.
Print Assumptions C25_record_roundtrip.

Lemma rchain_forall P v t : forall recs rx rx_end, rchain P v t rx recs rx_end ->
  Forall (fun pr => 0 < len (fst pr) <= maxPlaintext /\ rec_wf v (snd pr)) recs.
Proof.
  induction recs as [|[p r] recs IH]; intros rx rx_end H; constructor.
  - cbn [rchain] in H. cbn. tauto.
  - cbn [rchain] in H. destruct H as (_ & _ & rx' & _ & H). eapply IH. exact H.
Qed.

(* fragment_bounds: a Write of any size is cut into records each carrying between 1 and 2^14 plaintext
   bytes, whose concatenation is the input, each within the ciphertext limit of the version *)
Theorem C25_fragment_bounds : forall P, prims_ok P ->
  forall (c : conn) (rx : half) (b : bytes) (rnd : N -> bytes),
  wconn_ok c -> synced (cn_out c) rx -> rnd_ok rnd -> h_seq (cn_out c) + len b < 18446744073709551616 ->
  exists recs c',
    conn_write P c b rnd = Ok (concat (map snd recs), len b, c') /\
    concat (map fst recs) = b /\
    Forall (fun pr => 0 < len (fst pr) <= maxPlaintext /\ rec_wf (cn_vers c) (snd pr)) recs.
Proof.
  intros P HP c rx b rnd Hw Hs Hr Hq.
  destruct (conn_write_ok P HP c b rnd rx Hw Hs Hr Hq) as (recs & c' & rx_end & A & B & _ & C & _).
  exists recs, c'. split; [exact A|]. split; [exact C|]. eapply rchain_forall. exact B.
Qed.
Print Assumptions C25_fragment_bounds.

(* stream_integrity: writer and reader start matched (what the handshake establishes: same keys, IVs, MAC
   keys, sequence numbers in that direction). Then for ANY interleaving of Write calls of any sizes and Read
   calls with any positive buffer sizes, no call fails and at every moment
       bytes written = bytes read ++ bytes still buffered or in flight;
   the statement is per direction and applies to both (the two directions use disjoint state). *)
Theorem C25_stream_integrity : forall P, prims_ok P ->
  forall (rnd : N -> bytes), rnd_ok rnd ->
  forall (ops : list (op)) (w : world),
  inv P w -> recvs_positive ops ->
  h_seq (cn_out (w_tx w)) + send_total ops < 18446744073709551616 ->
  exists w', run P rnd w ops = Ok w' /\ inv P w' /\ exists pending, w_sent w' = w_got w' ++ pending.
Proof. intros P HP rnd Hr ops w. exact (stream_integrity P HP rnd Hr ops w). Qed.
Print Assumptions C25_stream_integrity.

(* ... and nothing is withheld: while written bytes are outstanding every Read returns at least one *)
Theorem C25_read_progress : forall P, prims_ok P ->
  forall rnd w n, rnd_ok rnd -> inv P w -> (0 < n)%nat -> (length (w_got w) < length (w_sent w))%nat ->
  exists w', step P rnd w (Recv n) = Ok w' /\ inv P w' /\ (length (w_got w) < length (w_got w'))%nat.
Proof. intros P HP rnd w n. exact (read_progress P HP rnd w n). Qed.

(* key update: the ratchet applied by the sender after its KeyUpdate record and by the receiver in
   handleKeyUpdate keeps the two halves matched (same next secret, same derived key and IV, sequence 0) *)
Theorem C25_key_update_keeps_sync : forall P (tx rx : half) (suite : N),
  synced tx rx -> h_mac tx = None ->
  synced (set_traffic_secret P tx suite (next_secret P suite (h_secret tx)))
         (set_traffic_secret P rx suite (next_secret P suite (h_secret rx))).
Proof.
  intros P tx rx suite (Hv & Hm & Hq & Hsec & Hwf & Hc) Hmac.
  unfold set_traffic_secret. rewrite <- Hsec.
  destruct (traffic_key P suite (next_secret P suite (h_secret tx))) as [k iv].
  unfold synced, half_wf, cipher_match. cbn. rewrite <- Hm, Hmac. repeat split; auto; try discriminate.
Qed.

(* what setTrafficSecret (conn.go:232) leaves behind: the stored secret IS the secret the installed key and IV
   were derived from (so the next update ratchets from the current generation, not an older one), seq = 0 *)
Theorem C25_secret_tracks_keys : forall P (h : half) (suite : N) (secret : bytes),
  let h' := set_traffic_secret P h suite secret in
  h_secret h' = secret /\ h_seq h' = 0 /\
  exists ci, h_cipher h' = Some ci /\ c_kind ci = KAeadXor /\ (c_key ci, c_iv ci) = traffic_key P suite secret.
Proof.
  intros P h suite secret. cbv zeta. unfold set_traffic_secret.
  destruct (traffic_key P suite secret) as [k iv]. cbn. repeat split. eexists. repeat split.
Qed.

(* ... and so does any number of generations: after n key updates in one direction (whoever started them,
   whatever update_requested said) writer and reader hold the n-th secret, its key and IV, sequence 0 *)
Fixpoint ratchet_n (P : prims) (suite : N) (n : nat) (h : half) : half :=
  match n with
  | O => h
  | S k => ratchet_n P suite k (set_traffic_secret P h suite (next_secret P suite (h_secret h)))
  end.

Theorem C25_key_update_generations : forall P (suite : N) (n : nat) (tx rx : half),
  synced tx rx -> h_mac tx = None -> synced (ratchet_n P suite n tx) (ratchet_n P suite n rx).
Proof.
  intros P suite n. induction n as [|k IH]; intros tx rx Hs Hm; [exact Hs|].
  cbn [ratchet_n]. apply IH.
  - apply C25_key_update_keeps_sync; assumption.
  - unfold set_traffic_secret. destruct (traffic_key P suite (next_secret P suite (h_secret tx))). exact Hm.
Qed.

(* the generations differ from each other only through next_secret: generation n holds next_secret^n *)
Theorem C25_generation_secret : forall P (suite : N) (n : nat) (h : half),
  h_secret (ratchet_n P suite n h) = Nat.iter n (next_secret P suite) (h_secret h).
Proof.
  intros P suite n. induction n as [|k IH]; intros h; [reflexivity|].
  cbn [ratchet_n]. rewrite IH. unfold set_traffic_secret.
  destruct (traffic_key P suite (next_secret P suite (h_secret h))). cbn [h_secret].
  clear IH. induction k as [|j IHj]; [reflexivity|]. simpl. simpl in IHj. rewrite IHj. reflexivity.
Qed.

(* a KeyUpdate(update_requested) that cannot be answered (local send side broken) still moves the READ half to
   the next generation, and the failure of the answer is not an error of the Read that processed the request:
   the peer's following records stay readable (handleKeyUpdate, conn.go:1349-1366) *)
Theorem C25_key_update_reads_on : forall P (c : conn) (req : bool) (rnd : N -> bytes) (w : bytes) (c' : conn),
  handle_key_update P c req rnd = Ok (w, c') ->
  cn_in c' = set_traffic_secret P (cn_in c) (cn_suite c) (next_secret P (cn_suite c) (h_secret (cn_in c))).
Proof. exact key_update_reads_on. Qed.
Print Assumptions C25_key_update_reads_on.

Theorem C25_key_update_answer_failure_is_not_fatal : forall P (c : conn) (rnd : N -> bytes) (e : N),
  is_suite13 (cn_suite c) = true ->
  send_key_update P (with_in c (set_traffic_secret P (cn_in c) (cn_suite c) (next_secret P (cn_suite c) (h_secret (cn_in c))))
                             (cn_input c) (cn_hand c) (cn_retry c)) false rnd = Err e ->
  exists c', handle_key_update P c true rnd = Ok ([], c').
Proof. exact key_update_answer_failure_is_not_fatal. Qed.

(* concurrency: the write key switch is atomic with sending the KeyUpdate answer. Model/v is the
   interleaving model of c.out (mutex), the goroutine answering in handleKeyUpdate and any number of
   concurrent Write calls. For every schedule: the wire is one the peer can follow (each data record sealed
   under the generation = number of KeyUpdate records before it), and from the answer until the switch
   the answering goroutine holds c.out, so no Write runs in between (lock-held fact). *)
Theorem C25_key_switch_atomic : forall (tr : list label) (s : st),
  ku_run true ku_init tr = Some s ->
  wire_ok 0 (wire s) = true /\
  (pcA s = A2 -> lock s = ByAnswerer) /\
  (inWrite s = true -> pcA s = A0).
Proof. exact key_switch_atomic. Qed.
Print Assumptions C25_key_switch_atomic.

(* ... and it is needed: if c.out is released between the answer and the switch, a schedule exists in which
   a Write seals a record under the old key after the answer went out (the peer answers bad_record_mac) *)
Example C25_ex_unlocked_switch_breaks :
  match ku_run false ku_init
          [ALock; ASend; AUnlockMid; WLock; WEmit; WUnlock;
           ARelock; ASwitch; AUnlock] with
  | Some s => negb (wire_ok 0 (wire s))
  | None => false
  end = true.
Proof. vm_compute. reflexivity. Qed.

(* tamper_detected (AEAD suites; IDEAL premise: Open only accepts what a key holder sealed): the receiver
   accepts a record only if the triple (nonce of ITS sequence number, additional data carrying sequence
   number / type / version / length — in TLS 1.3 the whole header —, entire body) was sealed. A record with a
   flipped or missing byte gives a triple the honest peer never sealed: error, no plaintext. *)
Theorem C25_tamper_detected : forall P (sealed : N -> bytes -> bytes -> bytes -> bytes -> Prop),
  (forall a k n ad c p, aead_open P a k n ad c = Some p -> sealed a k n ad c) ->
  forall (rx : half) (ci : cipher) (r : bytes),
  h_cipher rx = Some ci -> c_kind ci = KAeadPrefix \/ c_kind ci = KAeadXor ->
  (h_vers rx = V13 -> nth 0 r 0 <> rtCCS) ->
  let enl := explicit_nonce_len rx in
  let body := skipn enl (skipn recordHeaderLen r) in
  let nonce := match firstn enl (skipn recordHeaderLen r) with [] => seq8 (h_seq rx) | e => e end in
  let ad := if h_vers rx =? V13 then firstn recordHeaderLen r
            else seq8 (h_seq rx) ++ firstn 3 r ++ be16 (N.of_nat (length body - aead_overhead)) in
  ~ sealed (c_alg ci) (c_key ci) (aead_nonce ci nonce) ad body ->
  forall p t rx', decrypt P rx r <> Ok (p, t, rx').
Proof. intros P sealed H rx ci r. exact (tamper_detected P sealed H rx ci r). Qed.
Print Assumptions C25_tamper_detected.

(* ---- non-vacuity ---- *)
Definition ex_half (v : N) (seq : N) : half :=
  mkHalf v (Some (mkCipher KAeadXor algCHACHA (zeros 32) (zeros 12) false 0 0)) None seq None None [].
Definition ex_tx : conn := mkConn V13 true 4867 half0 (ex_half V13 0) [] [] 0 0 0 false.
Definition ex_rx : conn := mkConn V13 true 4867 (ex_half V13 0) half0 [] [] 0 0 0 false.
Definition ex_world : world := mkWorld ex_tx ex_rx [] [] [].

Example C25_ex_inv : inv toy ex_world.
Proof.
  exists [], (ex_half V13 0). unfold ex_world, ex_tx, ex_rx, wconn_ok, rconn_ok, synced, half_wf, cipher_match, vers_ok; cbn.
  repeat split; auto; try discriminate.
Qed.

(* two writes (one of 3000 bytes: two records under dynamic sizing) and reads with buffers 1, 2000, 5000, 7 *)
Example C25_ex_run :
  match run toy (fun _ => zeros 16) ex_world [Send (repeat 65 3000%nat); Recv 1; Send [1; 2; 3]; Recv 2000; Recv 5000; Recv 7] with
  | Ok w => bytes_eqb (w_got w) (repeat 65 3000%nat ++ [1; 2; 3]) && bytes_eqb (w_sent w) (w_got w)
  | _ => false
  end = true.
Proof. vm_compute. reflexivity. Qed.

(* C32 — JSON and dictionary imports map names to the intended code points.
   Property theorems only. The dictionary DATA (Gen/Dict.v) are regenerated from /repo/dicttls before every
   proof build; the sweeps below therefore run over exactly the tables of the tree being checked.
   STATE: unchanged tree; no table has an asymmetric entry (C32_dict_no_asymmetric_entry), so the full statement is proved. *)
From Coq Require Import String.
From UV Require Import Base.Common Model.Dicttls Gen.Dict Proofs.DicttlsP.
Open Scope string_scope.

(* Every value listed in a value-indexed table resolves back to the same value through the corresponding
   name-indexed table — for every table that has both directions (exhaustive over the finite regenerated domain). *)
Theorem C32_dict_consistent : forall name t, In (name, t) dict_tables ->
  forall v n, In (v, n) (fst t) -> lookup_name n (snd t) = Some v.
Proof. exact dict_consistent. Qed.
Print Assumptions C32_dict_consistent.

(* the same as a list of witnesses: the asymmetric entries of all tables — none *)
Theorem C32_dict_no_asymmetric_entry : all_asym dict_tables = [].
Proof. exact no_asym. Qed.
Print Assumptions C32_dict_no_asymmetric_entry.

(* the boolean check is exactly the statement (so an asymmetric entry could not hide) *)
Theorem C32_table_check_exact : forall t,
  table_ok t = true <-> (forall v n, In (v, n) (fst t) -> lookup_name n (snd t) = Some v).
Proof. intros t. split; [apply table_ok_sound | apply table_ok_complete]. Qed.
Print Assumptions C32_table_check_exact.

(* the individual tables the JSON importer consults *)
Theorem C32_dict_cipher_suites : forall v n, In (v, n) CipherSuite_value_indexed -> lookup_name n CipherSuite_name_indexed = Some v.
Proof. exact cipher_suites_consistent. Qed.
Theorem C32_dict_supported_groups : forall v n, In (v, n) SupportedGroups_value_indexed -> lookup_name n SupportedGroups_name_indexed = Some v.
Proof. exact supported_groups_consistent. Qed.
Theorem C32_dict_signature_schemes : forall v n, In (v, n) SignatureScheme_value_indexed -> lookup_name n SignatureScheme_name_indexed = Some v.
Proof. exact signature_schemes_consistent. Qed.
Theorem C32_dict_extension_types : forall v n, In (v, n) ExtType_value_indexed -> lookup_name n ExtType_name_indexed = Some v.
Proof. exact extension_types_consistent. Qed.

(* JSON half, the name -> code point steps. For each table the importer consults: a list of code points rendered
   with the value-indexed names ("GREASE" for GREASE values) is imported back as the same list, GREASE values as the
   placeholder 0x0a0a. Any GREASE predicate [is_g]; any list length. *)
Theorem C32_json_names_roundtrip : forall name vi ni, In (name, (vi, ni)) json_tables ->
  forall is_g vs names, render_names is_g vi vs = Some names ->
  import_names_grease ni names = Some (map (ungrease is_g) vs).
Proof.
  intros name vi ni Hin is_g vs names H. destruct (json_table_facts _ _ _ Hin) as [Hok Hng].
  exact (import_render_grease is_g vi ni Hok Hng vs names H).
Qed.
Print Assumptions C32_json_names_roundtrip.

(* the loops without a GREASE case (compression methods, point formats, certificate compression, psk modes) *)
Theorem C32_json_names_roundtrip_plain : forall name vi ni, In (name, (vi, ni)) json_tables ->
  forall vs names, render_names (fun _ => false) vi vs = Some names -> import_names ni names = Some vs.
Proof.
  intros name vi ni Hin vs names H. destruct (json_table_facts _ _ _ Hin) as [Hok _].
  exact (import_render vi ni Hok vs names H).
Qed.
Print Assumptions C32_json_names_roundtrip_plain.

(* the tables of the JSON theorems are among the tables of C32_dict_consistent *)
Theorem C32_json_tables_are_dict_tables : forall x, In x json_tables -> In x dict_tables.
Proof. exact json_tables_in_dict_tables. Qed.

(* a name the dictionary does not know is refused, never mapped to a code point *)
Theorem C32_json_unknown_name_refused : forall ni names n, In n names -> n <> "GREASE" -> lookup_name n ni = None ->
  import_names_grease ni names = None.
Proof. exact import_unknown. Qed.
Print Assumptions C32_json_unknown_name_refused.

(* Non-vacuity. *)
Example C32_ex_tables : (10 <= length dict_tables)%nat /\ In ("CipherSuite", (CipherSuite_value_indexed, CipherSuite_name_indexed)) dict_tables.
Proof. split; [vm_compute; lia | exact cipher_suites_in_tables]. Qed.
Example C32_ex_entry : In (4865, "TLS_AES_128_GCM_SHA256") CipherSuite_value_indexed /\ lookup_name "TLS_AES_128_GCM_SHA256" CipherSuite_name_indexed = Some 4865.
Proof. split; [apply lookup_value_In; vm_compute; reflexivity | vm_compute; reflexivity]. Qed.
Example C32_ex_roundtrip :
  render_names (fun v => N.eqb v 2570) SupportedGroups_value_indexed [2570; 29; 23] = Some ["GREASE"; "x25519"; "secp256r1"] /\
  import_names_grease SupportedGroups_name_indexed ["GREASE"; "x25519"; "secp256r1"] = Some [2570; 29; 23].
Proof. split; vm_compute; reflexivity. Qed.
Example C32_ex_unknown : import_names_grease CipherSuite_name_indexed ["TLS_AES_128_GCM_SHA256"; "TLS_NOT_A_SUITE"] = None.
Proof. vm_compute. reflexivity. Qed.

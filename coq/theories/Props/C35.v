(* C35 — Session tickets are authenticated and round-trip.
   Property theorems only; each closed by a lemma of Proofs/TicketP.v.
   HMAC-SHA256 (hmac), AES-128-CTR (ctr), SHA-512 (sha512) and x509.ParseCertificate (x509ok) are
   universally quantified functions constrained only by the premises below (crypto_laws): CTR is an
   involution that preserves length, tags are 32 bytes, SHA-512 outputs 64 bytes.  MAC acceptance is the
   code's explicit equality test, NOT idealised: "ANY modification of a ticket yields no state" beyond
   C35_ticket_mac_covers_all / C35_ticket_tag_flip / C35_rotated_out is existential unforgeability
   (EUF-CMA) of HMAC-SHA256 — named here, not proved. *)
From UV Require Import Base.Common Model.Ticket Proofs.TicketP.

Definition crypto_laws (hmac : bytes -> bytes -> bytes) (ctr : bytes -> bytes -> bytes -> bytes) : Prop :=
  (forall k iv x, ctr k iv (ctr k iv x) = x) /\
  (forall k iv x, length (ctr k iv x) = length x) /\
  (forall k m, length (hmac k m) = 32%nat).

(* SessionState.Bytes / ParseSessionState: every well-formed state that Bytes() can encode parses back to itself. *)
Theorem C35_state_codec_roundtrip : forall x509ok s b,
  wf_state x509ok s -> state_bytes s = Ok b -> parse_state x509ok b = Ok s.
Proof. exact state_codec_roundtrip. Qed.
Print Assumptions C35_state_codec_roundtrip.

(* DecryptTicket(EncryptTicket(state)) = state when the sealing key (first of the sealing list) is anywhere in
   the opening list, provided no configured key validating the same tag has a different AES key. *)
Theorem C35_ticket_roundtrip : forall hmac ctr x509ok, crypto_laws hmac ctr ->
  forall k restE keysD iv s t,
  In k keysD -> length iv = ivLen -> wf_state x509ok s ->
  (forall k', In k' keysD -> hmac (k_hmac k') (t_auth t) = t_tag t -> k_aes k' = k_aes k) ->
  EncryptTicket hmac ctr (k :: restE) iv s = Ok t -> DecryptTicket hmac ctr x509ok keysD t = Some s.
Proof.
  intros hmac ctr x509ok (A & B & C) k restE keysD iv s t Hin Hiv Hwf Hconf H.
  exact (ticket_roundtrip hmac ctr (fun x => x) x509ok A B C (k :: restE) restE keysD k iv s t eq_refl Hin Hiv Hwf Hconf H).
Qed.
Print Assumptions C35_ticket_roundtrip.

(* ... and with no side condition when the same key heads both lists (same keys, the statement of the property). *)
Theorem C35_ticket_roundtrip_same_keys : forall hmac ctr x509ok, crypto_laws hmac ctr ->
  forall keys iv s t, length iv = ivLen -> wf_state x509ok s ->
  EncryptTicket hmac ctr keys iv s = Ok t -> DecryptTicket hmac ctr x509ok keys t = Some s.
Proof.
  intros hmac ctr x509ok (A & B & C) keys iv s t Hiv Hwf H. destruct keys as [|k rest].
  - unfold EncryptTicket in H. destruct (state_bytes s); discriminate.
  - exact (ticket_roundtrip_head hmac ctr (fun x => x) x509ok A B C k rest rest iv s t Hiv Hwf H).
Qed.
Print Assumptions C35_ticket_roundtrip_same_keys.

(* public API level: SetSessionTicketKeys; EncryptTicket; DecryptTicket on one Config *)
Theorem C35_config_roundtrip : forall hmac ctr sha512 x509ok, crypto_laws hmac ctr ->
  forall c now now' rnd b bs c1 s t c2 rnd2,
  c_disabled c = false -> wf_state x509ok s ->
  set_session_ticket_keys sha512 c now (b :: bs) = Ok c1 ->
  cfg_encrypt hmac ctr sha512 c1 now rnd s = Ok (Ok t, c2, rnd2) ->
  exists c3, cfg_decrypt hmac ctr sha512 x509ok c2 now' rnd2 t = Ok (Some s, c3, rnd2).
Proof. intros hmac ctr sha512 x509ok (A & B & C). exact (config_roundtrip hmac ctr sha512 x509ok A B C). Qed.
Print Assumptions C35_config_roundtrip.

(* Acceptance implies: the ticket has at least iv+tag bytes, and some CONFIGURED key's HMAC over every byte
   except the tag equals the tag; the state is the parse of the CTR decryption under that key. *)
Theorem C35_ticket_mac_covers_all : forall hmac ctr x509ok, crypto_laws hmac ctr ->
  forall keys t s, DecryptTicket hmac ctr x509ok keys t = Some s ->
  (ivLen + macLen <= length t)%nat /\
  exists k, In k keys /\ hmac (k_hmac k) (t_auth t) = t_tag t /\
            parse_state x509ok (ctr (k_aes k) (t_iv t) (t_ct t)) = Ok s.
Proof. intros hmac ctr x509ok (A & B & C). exact (ticket_mac_covers_all hmac ctr (fun x => x) x509ok A B C). Qed.
Print Assumptions C35_ticket_mac_covers_all.

(* Any change confined to the tag is rejected (unless it hits the tag of another configured key). *)
Theorem C35_ticket_tag_flip : forall hmac ctr x509ok, crypto_laws hmac ctr ->
  forall k others iv s t tag',
  length iv = ivLen -> EncryptTicket hmac ctr (k :: others) iv s = Ok t ->
  length tag' = macLen -> tag' <> t_tag t ->
  (forall k', In k' others -> hmac (k_hmac k') (t_auth t) <> tag') ->
  DecryptTicket hmac ctr x509ok (k :: others) (t_auth t ++ tag') = None.
Proof. intros hmac ctr x509ok (A & B & C). exact (ticket_tag_flip hmac ctr (fun x => x) x509ok A B C). Qed.
Print Assumptions C35_ticket_tag_flip.

(* Truncation below iv+tag yields no state. *)
Theorem C35_ticket_short : forall hmac ctr x509ok keys t,
  (length t < ivLen + macLen)%nat -> DecryptTicket hmac ctr x509ok keys t = None.
Proof. exact ticket_short. Qed.
Print Assumptions C35_ticket_short.

(* A ticket whose tag no currently configured key validates (sealing key rotated out) yields no state. *)
Theorem C35_rotated_out : forall hmac ctr x509ok, crypto_laws hmac ctr ->
  forall keys t, (forall k, In k keys -> hmac (k_hmac k) (t_auth t) <> t_tag t) ->
  DecryptTicket hmac ctr x509ok keys t = None.
Proof. intros hmac ctr x509ok (A & B & C). exact (rotated_out hmac ctr (fun x => x) x509ok A B C). Qed.
Print Assumptions C35_rotated_out.

(* Rotation by SetSessionTicketKeys: after any history, exactly the keys of the last call are in force. *)
Theorem C35_rotation_last_call : forall sha512 c now hist ks c',
  Forall (fun l => l <> []) hist -> ks <> [] -> rotate sha512 c now (hist ++ [ks]) = Ok c' ->
  map fst (c_keys c') = map (ticket_key_from_bytes sha512) ks /\ c_disabled c' = c_disabled c /\ c_stk c' = c_stk c.
Proof. exact rotate_last. Qed.
Print Assumptions C35_rotation_last_call.

Theorem C35_ticket_keys_explicit : forall sha512 c now rnd,
  c_disabled c = false -> c_keys c <> [] -> (bytes_eqb (c_stk c) zero32 = false \/ (32 <= length rnd)%nat) ->
  exists c' rnd', ticket_keys sha512 c now rnd = Ok (map fst (c_keys c), c', rnd') /\
    c_keys c' = c_keys c /\ c_disabled c' = false /\ bytes_eqb (c_stk c') zero32 = false /\
    (bytes_eqb (c_stk c) zero32 = false -> rnd' = rnd).
Proof. exact ticket_keys_explicit. Qed.
Print Assumptions C35_ticket_keys_explicit.

(* Whole-input framing: an accepted ticket IS  iv(16 bytes) || ct || HMAC_k(iv || ct)  of the ENTIRE input for a
   configured key k — no byte may precede the iv, follow the tag, or sit between the parts (a ticket with a
   prefix, a suffix, an insertion, or two tickets glued together is accepted only if that whole string has this shape). *)
Theorem C35_ticket_whole_input : forall hmac ctr x509ok, crypto_laws hmac ctr ->
  forall keys t s, DecryptTicket hmac ctr x509ok keys t = Some s ->
  exists k, In k keys /\ length (t_iv t) = ivLen /\
    t = t_iv t ++ t_ct t ++ hmac (k_hmac k) (t_iv t ++ t_ct t) /\
    parse_state x509ok (ctr (k_aes k) (t_iv t) (t_ct t)) = Ok s.
Proof.
  intros hmac ctr x509ok (A & B & C).
  exact (ticket_whole_input hmac ctr (fun _ => repeat 0 64) x509ok A B C (fun _ => repeat_length 0 64)).
Qed.
Print Assumptions C35_ticket_whole_input.

(* A family of Configs (Config.Clone): in any history of SetSessionTicketKeys on any member and Clone of any member,
   exactly the last list set on THIS config is in force on it; a clone starts as a copy of its source, changes no
   existing config, and keeps what it inherited until it is itself set. *)
Theorem C35_family_last_set : forall sha512 now st pre j ks suf st',
  ks <> [] -> srun sha512 now st (pre ++ SSet j ks :: suf) = Ok st' ->
  Forall (fun op => ~ touches j op) suf ->
  exists c, nth_error st' j = Some c /\ map fst (c_keys c) = map (ticket_key_from_bytes sha512) ks.
Proof. exact family_last_set. Qed.
Print Assumptions C35_family_last_set.
Theorem C35_clone_is_copy : forall sha512 now st i st', sstep sha512 now st (SClone i) = Ok st' ->
  nth_error st' (length st) = nth_error st i /\ forall j, (j < length st)%nat -> nth_error st' j = nth_error st j.
Proof. exact clone_is_copy. Qed.
Theorem C35_family_clone_inherits : forall sha512 now st i st1 suf st' c,
  sstep sha512 now st (SClone i) = Ok st1 -> nth_error st i = Some c -> srun sha512 now st1 suf = Ok st' ->
  Forall (fun op => ~ touches (length st) op) suf -> nth_error st' (length st) = Some c.
Proof. exact family_clone_inherits. Qed.
Print Assumptions C35_family_clone_inherits.
Example C35_ex_family :
  match srun (fun b => b ++ b ++ b) 0%Z [new_config] [SSet 0 [[1];[2]]; SClone 0; SSet 0 [[3]]; SClone 1; SSet 1 [[4]]] with
  | Ok st => map (fun c => length (c_keys c)) st = [1; 1; 2]%nat
  | _ => False
  end.
Proof. vm_compute. reflexivity. Qed.

(* SetSessionTicketKeys overrides EVERY other key source (user-set SessionTicketKey field, automatically rotated keys,
   an earlier list): c is an arbitrary Config state; afterwards ticketKeys returns exactly the keys TicketKeyFromBytes
   derives from the new list, on this and on every later call. *)
Theorem C35_set_keys_overrides : forall sha512 c now b bs c1,
  c_disabled c = false -> set_session_ticket_keys sha512 c now (b :: bs) = Ok c1 ->
  forall now1 rnd1, (bytes_eqb (c_stk c) zero32 = false \/ (32 <= length rnd1)%nat) ->
  exists c2 rnd2, ticket_keys sha512 c1 now1 rnd1 = Ok (map (ticket_key_from_bytes sha512) (b :: bs), c2, rnd2) /\
    forall now2 rnd3, exists c3, ticket_keys sha512 c2 now2 rnd3 = Ok (map (ticket_key_from_bytes sha512) (b :: bs), c3, rnd3).
Proof. exact set_keys_overrides. Qed.
Print Assumptions C35_set_keys_overrides.

(* TicketKeyFromBytes derives the keys SetSessionTicketKeys installs: SHA-512 bytes 16..31 and 32..47. *)
Theorem C35_keys_same_derivation : forall sha512 c now b bs c',
  set_session_ticket_keys sha512 c now (b :: bs) = Ok c' ->
  map fst (c_keys c') = map (fun x => to_private (TicketKeyFromBytes sha512 x)) (b :: bs) /\
  to_private (TicketKeyFromBytes sha512 b) = ticket_key_from_bytes sha512 b.
Proof. exact keys_same_derivation. Qed.
Print Assumptions C35_keys_same_derivation.

Theorem C35_key_slices : forall sha512 b h, sha512 b = h ->
  ticket_key_from_bytes sha512 b = mkKey (firstn 16 (skipn 16 h)) (firstn 16 (skipn 32 h)).
Proof. exact key_slices. Qed.
Theorem C35_key_lengths : forall sha512, (forall b, length (sha512 b) = 64%nat) -> forall b,
  length (k_aes (ticket_key_from_bytes sha512 b)) = 16%nat /\ length (k_hmac (ticket_key_from_bytes sha512 b)) = 16%nat.
Proof. exact key_lengths. Qed.
Print Assumptions C35_key_lengths.

(* MakeClientSessionState and the setters store exactly what they are given (the resumed connection carrying
   these values is observed by the runner, not proved). *)
Theorem C35_forged_state_fields : forall vers suite secret certs chains v' su' ms',
  let s0 := make_client_session_state vers suite secret certs chains in
  s_version s0 = vers /\ s_suite s0 = suite /\ s_secret s0 = secret /\ s_certs s0 = certs /\ s_chains s0 = chains /\
  let s1 := set_master_secret (set_cipher_suite (set_vers s0 v') su') ms' in
  s_version s1 = v' /\ s_suite s1 = su' /\ s_secret s1 = ms' /\ s_certs s1 = certs /\ s_chains s1 = chains.
Proof. exact forged_state_fields. Qed.
Print Assumptions C35_forged_state_fields.

(* ---- non-vacuity ---- *)
Definition toy_hmac (k m : bytes) : bytes := firstn 32 (k ++ m ++ repeat 0 32).
Definition toy_ctr (k iv x : bytes) : bytes := map (fun b => N.lxor b 90) x.
Example C35_ex_laws : crypto_laws toy_hmac toy_ctr.
Proof.
  unfold crypto_laws, toy_hmac, toy_ctr. repeat split.
  - intros _ _ x. rewrite map_map. rewrite <- (map_id x) at 2. apply map_ext. intros a.
    rewrite N.lxor_assoc, N.lxor_nilpotent, N.lxor_0_r. reflexivity.
  - intros. apply map_length.
  - intros k m. rewrite firstn_length, !app_length, repeat_length. lia.
Qed.

Definition ex_state : state :=
  mkState 772 true 4865 1700000000 [1;2;3] [[9;9]; []] true true [[48;1]; [48;2]] (Some [7]) (Some [[5;5]; [6]])
          [[[48;1]; [48;2]]; [[48;1]]] [104;50] 1700600000 305419896.
Example C35_ex_wf : wf_state (fun _ => true) ex_state /\ is_ok (state_bytes ex_state) = true.
Proof. split; vm_compute; reflexivity. Qed.
Example C35_ex_roundtrip :
  let keys := [mkKey (repeat 1 16) (repeat 2 16); mkKey (repeat 3 16) (repeat 4 16)] in
  match EncryptTicket toy_hmac toy_ctr keys (repeat 7 16) ex_state with
  | Ok t => DecryptTicket toy_hmac toy_ctr (fun _ => true) keys t = Some ex_state /\
            DecryptTicket toy_hmac toy_ctr (fun _ => true) (tl keys) t = None
  | _ => False
  end.
Proof. vm_compute. split; reflexivity. Qed.

(* C11 — client and server agree on every negotiated parameter and exported key.

   Model/Transcript.v: the bytes each side writes to its transcript hash, in the order of each side's own code
   (client: handshake_client_tls13.go + the uTLS compressed-certificate and ALPS steps; server: handshake_server_tls13.go
   / verif_server.go), the exporters as uninterpreted functions of (secret, transcript hash, label, context, length),
   the server's ConnectionState as the RFC-level function of the messages it sent, and the server name each side reports.
   Model/Negotiate.v: the client's decision and ConnectionState.
   State of the files: they describe the tree WITH fixes/C11-sni-reported-name.diff applied (client_server_name ... true);
   the pre-fix behaviour (... false) is kept in the same model and refuted below (F-11).
   Scope: no ECH (c.serverName = Config.ServerName when ECH is accepted is outside the model), no QUIC, no renegotiation;
   key agreement, signatures and Finished are abstract (the flight's f_crypto_ok bit; the secrets are arguments). *)
From UV Require Import Base.Common Model.Negotiate Proofs.NegotiateP Model.Transcript Proofs.TranscriptP.
From UV Require Model.Complete.

(* For EVERY hash function and every flight shape - with or without HelloRetryRequest, resumed or not, with or
   without CertificateRequest / client CertificateVerify / client EncryptedExtensions (ALPS), the server certificate
   sent plain or compressed (m_cert is the message as sent) - both ends have written the same bytes when the server
   Finished is in (traffic and exporter secrets) and when the client Finished is in (resumption secret). *)
Theorem C11_transcript_equal : forall H s m,
  client_to_server_finished H s m = server_to_server_finished H s m /\
  client_to_client_finished H s m = server_to_client_finished H s m.
Proof. intros. split; [apply to_server_finished_equal | apply to_client_finished_equal]. Qed.
Print Assumptions C11_transcript_equal.

(* the HelloRetryRequest substitution: message_hash header, H(first hello), HRR, second hello *)
Theorem C11_hrr_message_hash : forall H s m, s_hrr s = true ->
  client_hello_part H s m = [254; 0; 0; u8 (N.of_nat (length (H (m_ch1 m))))] ++ H (m_ch1 m) ++ m_hrr m ++ m_ch2 m.
Proof. exact hrr_substitution. Qed.
Print Assumptions C11_hrr_message_hash.

(* hence ExportKeyingMaterial agrees for every label, context and length, whatever the hash, the key schedule and
   the exporter are (same master secret on both sides: the key agreement itself is exercised by the runs) *)
Theorem C11_ekm_equal : forall H exporter_secret ekm13 master s m label ctx n,
  client_ekm13 H exporter_secret ekm13 master s m label ctx n = server_ekm13 H exporter_secret ekm13 master s m label ctx n.
Proof. exact ekm13_equal. Qed.
Print Assumptions C11_ekm_equal.

(* TLS <= 1.2: the exporter is a function of master secret and the two randoms; with extended_master_secret the master
   secret depends on the session hash through ClientKeyExchange, which both ends feed identically *)
Theorem C11_ekm_equal_tls12 : forall H master12 ekm12 pre s m label ctx n,
  client_ekm12 H master12 ekm12 pre s m label ctx n = server_ekm12 H master12 ekm12 pre s m label ctx n.
Proof. exact ekm12_equal. Qed.
Print Assumptions C11_ekm_equal_tls12.

(* For EVERY environment, client view, set of retained key-share private keys and server flight: if the client completes,
   the version, cipher suite, group (TLS 1.3 key_share group / TLS 1.2 ServerKeyExchange curve), negotiated protocol and
   "resumed" it reports are the values the server's own messages carry - i.e. what the server reports.
   Complete.client_run10 fixed is UConn.clientHandshake's decision with establishHandshakeKeys' key selection:
   fixed = true is the code with fixes/C18-keyshare-private-keys.diff (the key for the server share's group is the one
   ApplyPreset generated for that group: Ecdhe, ExtraEcdhe, MlkemEcdhe), fixed = false the code before it (always Ecdhe);
   the statement holds for both - the repair changes WHICH flights complete (a Firefox-type hello with shares [X25519; P-256]
   now completes on P-256), never what a completed client reports. *)
Theorem C11_params : forall fixed e v ks fl cs, Complete.client_run10 fixed e v ks fl = Complete cs ->
  let ss := server_state fl in
  cs_vers cs = ss_vers ss /\ cs_suite cs = ss_suite ss /\ cs_group cs = ss_group ss /\
  cs_alpn cs = ss_alpn ss /\ cs_psk cs = ss_resumed ss.
Proof. exact params_agree10. Qed.
Print Assumptions C11_params.

(* the same for the negotiation core alone (the view's single ecdhe curve; what C12/C13 reason about) *)
Theorem C11_params_core : forall e v fl cs, client_run_gen e v fl = Complete cs ->
  let ss := server_state fl in
  cs_vers cs = ss_vers ss /\ cs_suite cs = ss_suite ss /\ cs_group cs = ss_group ss /\
  cs_alpn cs = ss_alpn ss /\ cs_psk cs = ss_resumed ss.
Proof. exact params_agree. Qed.
Print Assumptions C11_params_core.

(* TLS <= 1.2 session resumption (outside Negotiate.v's run12): a client that completes the abbreviated handshake reports
   the version, suite, ALPN protocol of the resumed ServerHello (no protocol if it carries none - never the cached
   session's), no curve, and resumed = true: the server's values *)
Theorem C11_params_resumed12 : forall e v se vers h h_ems ok cs, client_resume12 e v se vers h h_ems ok = Complete cs ->
  let ss := server_state_resumed12 vers h in
  cs_vers cs = ss_vers ss /\ cs_suite cs = ss_suite ss /\ cs_group cs = ss_group ss /\
  cs_alpn cs = ss_alpn ss /\ cs_psk cs = ss_resumed ss.
Proof. exact resume12_agree. Qed.
Print Assumptions C11_params_resumed12.

(* Server name, full statement: the client reports the SNI actually on the wire (which is what the server reports),
   empty if none - for every hostnameInSNI function, Config.ServerName and extension list with at most one SNI extension
   (two server_name extensions on the wire are refused by any server). Proved for the repaired code ... *)
Definition C11_server_name_full (fixed : bool) : Prop :=
  forall (host : bytes -> bytes) cfg exts, (sni_count exts <= 1)%nat ->
    server_server_name host exts = Some (client_server_name host fixed cfg exts).

Theorem C11_server_name : C11_server_name_full true.
Proof. exact server_name_fixed. Qed.
Print Assumptions C11_server_name.

(* ... and refuted for the code before the repair (F-11): no SNI extension, Config.ServerName "example.com":
   the client reports "example.com", the server "" *)
Theorem C11_server_name_before_fix_refuted : ~ C11_server_name_full false.
Proof. exact server_name_unfixed_refuted. Qed.
Print Assumptions C11_server_name_before_fix_refuted.

(* the strongest true conditional for the unrepaired code: the spec has exactly one SNI extension *)
Theorem C11_server_name_before_fix_holds_if : forall (host : bytes -> bytes) cfg exts, sni_count exts = 1%nat ->
  server_server_name host exts = Some (client_server_name host false cfg exts).
Proof. exact server_name_unfixed_with_sni. Qed.
Print Assumptions C11_server_name_before_fix_holds_if.

(* ---- satisfiable hypotheses, concrete non-trivial inputs ---- *)
Definition ex_view : client_view :=
  mkView [4865; 4866] [29; 23] [29] [[104; 50]] [1; 2; 3] 0 [] false 771 772 false 29 false [772; 771] 0.
(* HelloRetryRequest for P-256, then ServerHello on P-256 with ALPN h2 *)
Definition ex_flight : flight :=
  mkFlight (Some (mkHello 771 772 0 [1; 2; 3] 4865 0 0 23 true None []))
           (mkHello 771 772 0 [1; 2; 3] 4865 0 23 0 false None []) [104; 50] None None true.
Example C11_ex_complete : client_run ex_view ex_flight = Complete (mkState 772 4865 23 [104; 50] true false)
  /\ server_state ex_flight = mkSrv 772 4865 23 [104; 50] false.
Proof. vm_compute. split; reflexivity. Qed.

(* two key shares [X25519; P-256], server selects the second: aborts before the C18 repair, completes after it,
   with the server's values *)
Definition ex_view2 : client_view :=
  mkView [4865; 4866] [29; 23] [29; 23] [[104; 50]] [1; 2; 3] 0 [] false 771 772 false 29 false [772; 771] 0.
Definition ex_flight2 : flight :=
  mkFlight None (mkHello 771 772 0 [1; 2; 3] 4865 0 23 0 false None []) [104; 50] None None true.
Example C11_ex_second_share :
  Complete.client_run10 true env_fixed ex_view2 (KeyShare.mkShape 29 [23] false 0) ex_flight2
    = Complete (mkState 772 4865 23 [104; 50] false false)
  /\ Complete.client_run10 false env_fixed ex_view2 (KeyShare.mkShape 29 [] false 0) ex_flight2 = Abort a_illegal_parameter
  /\ server_state ex_flight2 = mkSrv 772 4865 23 [104; 50] false.
Proof. vm_compute. repeat split. Qed.

(* a TLS 1.2 resumption whose ServerHello carries no ALPN although the session was negotiated with h2: no protocol reported *)
Example C11_ex_resume12 :
  client_resume12 env_fixed ex_view (mkSess12 771 49195 true) 771 (mkHello 771 0 0 [9] 49195 0 0 0 false None []) true true
    = Abort a_handshake_failure  (* ex_view does not offer 49195 *)
  /\ client_resume12 env_fixed (mkView [49195] [29] [] [[104; 50]] [9] 0 [] false 769 771 false 0 false [] 0)
        (mkSess12 771 49195 true) 771 (mkHello 771 0 0 [9] 49195 0 0 0 false None []) true true
      = Complete (mkState 771 49195 0 [] false true).
Proof. vm_compute. split; reflexivity. Qed.

(* F-11 witness evaluated: identity hostnameInSNI, one non-SNI extension *)
Example C11_ex_f11 :
  client_server_name (fun b => b) false f11_name [NoSni] = f11_name /\
  client_server_name (fun b => b) true f11_name [NoSni] = [] /\
  server_server_name (fun b => b) [NoSni] = Some [].
Proof. vm_compute. repeat split. Qed.

(* an IP-literal ServerName (hostnameInSNI = ""): nothing on the wire, both report "" *)
Example C11_ex_ip : let host := (fun b : bytes => match b with 49 :: _ => [] | _ => b end) in
  client_server_name host true [49; 46; 49] [SniExt [49; 46; 49]] = [] /\ server_server_name host [SniExt [49; 46; 49]] = Some [].
Proof. vm_compute. split; reflexivity. Qed.

(* a transcript with every optional message present *)
Example C11_ex_shape : let s := mkShape true false true true true in
  let m := mkMsgs [1] [2] [3] [4] [5] [6] [7] [8] [9] [10] [11] [12] [13] in
  client_to_client_finished (fun b => b ++ b) s m = [254; 0; 0; 2; 1; 1; 2; 3; 4; 5; 6; 7; 8; 9; 10; 11; 12; 13].
Proof. vm_compute. reflexivity. Qed.

(* C24 — QUIC transport parameters and varints encode losslessly.
   Property theorems only; each closed by a lemma from Proofs/VarintP.v. *)
From UV Require Import Base.Common Model.Varint Model.VarintTo Proofs.VarintP Proofs.VarintToP.

Definition two62 : N := 4611686018427387904.

(* Append emits an encoding that Read decodes back to x, leaving the rest. *)
Theorem C24_varint_roundtrip : forall x r, x < two62 ->
  exists bs, append x = Ok bs /\ read (bs ++ r) = Some (x, r).
Proof. exact append_read. Qed.
Print Assumptions C24_varint_roundtrip.

(* ... of exactly Len(x) bytes ... *)
Theorem C24_varint_len : forall x, x < two62 ->
  exists bs n, append x = Ok bs /\ vlen x = Ok n /\ N.of_nat (length bs) = n.
Proof. exact append_len. Qed.
Print Assumptions C24_varint_len.

(* ... and Len(x) is the minimal width among {1,2,4,8} whose 8w-2 payload bits hold x. *)
Theorem C24_varint_minimal : forall x n, vlen x = Ok n ->
  fits n x /\ (n = 1 \/ n = 2 \/ n = 4 \/ n = 8) /\
  forall w, (w = 1 \/ w = 2 \/ w = 4 \/ w = 8) -> fits w x -> n <= w.
Proof. exact vlen_minimal. Qed.
Print Assumptions C24_varint_minimal.

(* AppendWithLen emits exactly the requested width, decoding to x. *)
Theorem C24_withlen_wider : forall x l w r, vlen x = Ok l -> l < w -> (w = 2 \/ w = 4 \/ w = 8) ->
  exists bs, append_with_len x w = Ok bs /\ N.of_nat (length bs) = w /\ read (bs ++ r) = Some (x, r).
Proof. exact withlen_wider. Qed.
Print Assumptions C24_withlen_wider.

Theorem C24_withlen_exact : forall x l, vlen x = Ok l -> append_with_len x l = append x.
Proof.
  intros x l H. destruct (vlen_minimal x l H) as (_ & Hl & _).
  unfold append_with_len. rewrite H. cbn [bind]. rewrite N.eqb_refl.
  destruct Hl as [-> | [-> | [-> | ->]]]; reflexivity.
Qed.
Print Assumptions C24_withlen_exact.

(* Values of 2^62 and above are refused by panic by all three encoders. *)
Theorem C24_refuse : forall x, two62 <= x ->
  append x = Panic P_NOFIT /\ vlen x = Panic P_NOFIT /\ forall w, is_panic (append_with_len x w) = true.
Proof. exact refuse. Qed.
Print Assumptions C24_refuse.

Theorem C24_withlen_bad_width : forall x w, w <> 1 -> w <> 2 -> w <> 4 -> w <> 8 ->
  append_with_len x w = Panic P_BADLEN.
Proof. exact withlen_bad_width. Qed.
Theorem C24_withlen_too_small : forall x l w, (w = 1 \/ w = 2 \/ w = 4 \/ w = 8) -> vlen x = Ok l -> w < l ->
  append_with_len x w = Panic P_TOOSMALL.
Proof. exact withlen_too_small. Qed.
Print Assumptions C24_withlen_too_small.

(* Marshal of any parameter list parses back, entry by entry, to the list. *)
Theorem C24_tp_roundtrip : forall tps, Forall tp_ok tps ->
  exists bs, marshal_tps tps = Ok bs /\
  forall fuel, (length tps <= fuel)%nat -> parse_tps fuel bs = Some tps.
Proof. exact marshal_parse. Qed.
Print Assumptions C24_tp_roundtrip.

(* An id of 2^62 or more makes Marshal panic (never a truncated encoding). *)
Theorem C24_tp_refuse : forall tps, Exists (fun p => two62 <= fst p) tps ->
  Forall (fun p => N.of_nat (length (snd p)) < two62) tps ->
  is_panic (marshal_tps tps) = true.
Proof. exact marshal_panics. Qed.
Print Assumptions C24_tp_refuse.

(* The same with a destination buffer that already holds data: the caller's bytes come back untouched,
   followed by the encoding (Append) ... *)
Theorem C24_append_to : forall b x r, x < two62 ->
  exists e, append_to b x = Ok (b ++ e) /\ append x = Ok e /\ read (e ++ r) = Some (x, r).
Proof. exact append_to_spec. Qed.
Print Assumptions C24_append_to.

(* ... and by exactly w bytes decoding to x, for every admissible width w >= Len(x) (AppendWithLen). *)
Theorem C24_withlen_to : forall b x l w r, vlen x = Ok l -> l <= w -> (w = 1 \/ w = 2 \/ w = 4 \/ w = 8) ->
  exists e, append_with_len_to b x w = Ok (b ++ e) /\ N.of_nat (length e) = w /\ read (e ++ r) = Some (x, r).
Proof. exact withlen_to_spec. Qed.
Print Assumptions C24_withlen_to.

Theorem C24_to_refuse : forall b x w, two62 <= x ->
  is_panic (append_to b x) = true /\ is_panic (append_with_len_to b x w) = true.
Proof. intros b x w H. split; [exact (append_to_refuse b x H)|exact (withlen_to_refuse b x w H)]. Qed.
Print Assumptions C24_to_refuse.

(* Marshal as written (buffer threaded through the loop) = the body of marshal_tps after the caller's bytes *)
Theorem C24_marshal_threaded : forall tps b,
  marshal_tps_to b tps = (do body <- marshal_tps tps; Ok (b ++ body)).
Proof. exact marshal_tps_to_spec. Qed.
Print Assumptions C24_marshal_threaded.

(* Non-vacuity: concrete inputs meeting each hypothesis. *)
Example C24_ex_roundtrip : read (match append 16384 with Ok b => b | _ => [] end ++ [7]) = Some (16384, [7]).
Proof. vm_compute. reflexivity. Qed.
Example C24_ex_tp : Forall tp_ok [(27, [1;2;3]); (16741339, []); (4611686018427387903, [255])].
Proof. repeat constructor; cbn; lia. Qed.
Example C24_ex_withlen : vlen 300 = Ok 2 /\ 2 < 8.
Proof. split; [reflexivity | lia]. Qed.
Example C24_ex_withlen_to : append_with_len_to [222; 173] 37 4 = Ok [222; 173; 128; 0; 0; 37] /\ vlen 37 = Ok 1 /\ 1 <= 4.
Proof. split; [vm_compute; reflexivity|]. split; [reflexivity|lia]. Qed.

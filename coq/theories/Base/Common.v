(* Shared conventions for every model file: result type with Go panics,
   byte lists, bounded enumeration lifting. No axioms. *)
From Coq Require Export List NArith ZArith Lia Bool.
From Coq Require Import ZifyBool ZifyNat ZifyN.
Export ListNotations.
Open Scope N_scope.

(* Go call outcome: value, returned error (small enum code), or panic. *)
Inductive res (A : Type) : Type :=
| Ok (a : A)
| Err (code : N)
| Panic (code : N).
Arguments Ok {A} a.
Arguments Err {A} code.
Arguments Panic {A} code.

Definition bind {A B} (r : res A) (f : A -> res B) : res B :=
  match r with Ok a => f a | Err c => Err c | Panic c => Panic c end.
Notation "'do' x <- r ; k" := (bind r (fun x => k))
  (at level 200, x pattern, r at level 100, k at level 200, right associativity).

Definition is_ok {A} (r : res A) : bool := match r with Ok _ => true | _ => false end.
Definition is_panic {A} (r : res A) : bool := match r with Panic _ => true | _ => false end.

Definition bytes := list N.
Definition byteb (b : N) : bool := b <? 256.
Definition bytes_okb (l : bytes) : bool := forallb byteb l.
Definition bytes_ok (l : bytes) : Prop := Forall (fun b => b < 256) l.

Definition u8 (x : N) : N := x mod 256.
Definition u16 (x : N) : N := x mod 65536.
Definition u32 (x : N) : N := x mod 4294967296.
Definition u64 (x : N) : N := x mod 18446744073709551616.

(* Lifting an exhaustive boolean sweep over [0,n) to a universally
   quantified statement: the domain really is finite, so this is a proof. *)
Definition nrange (n : nat) : list N := map N.of_nat (seq 0 n).

Lemma nrange_In (n : nat) (x : N) : x < N.of_nat n -> In x (nrange n).
Proof.
  intros H. unfold nrange. apply in_map_iff. exists (N.to_nat x). split.
  - apply N2Nat.id.
  - apply in_seq. lia.
Qed.

Lemma sweep_lift (P : N -> bool) (n : nat) :
  forallb P (nrange n) = true -> forall x, x < N.of_nat n -> P x = true.
Proof.
  intros H x Hx. rewrite forallb_forall in H. apply H. apply nrange_In. exact Hx.
Qed.

Lemma bytes_okb_spec l : bytes_okb l = true <-> bytes_ok l.
Proof.
  unfold bytes_okb, bytes_ok, byteb. rewrite forallb_forall, Forall_forall.
  split; intros H x Hx; specialize (H x Hx); lia.
Qed.

Fixpoint list_eqb {A} (eqb : A -> A -> bool) (a b : list A) : bool :=
  match a, b with
  | [], [] => true
  | x :: a', y :: b' => eqb x y && list_eqb eqb a' b'
  | _, _ => false
  end.
Definition bytes_eqb := list_eqb N.eqb.

Lemma bytes_eqb_eq a b : bytes_eqb a b = true <-> a = b.
Proof.
  unfold bytes_eqb. revert b; induction a as [|x a IH]; intros [|y b]; simpl; try (split; congruence).
  rewrite andb_true_iff, IH, N.eqb_eq. split; [intros [-> ->]; reflexivity | intros H; inversion H; auto].
Qed.

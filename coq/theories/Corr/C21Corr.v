(* Correspondence checker for C21: what decompressCert (driven through hooks/verif_c21.go) did on a
   compressed certificate message, against the model of the FIXED code.  The reader (decompressed bytes,
   chunking, how the stream ends) is what the same decoder library delivered when the runner replayed it with
   the buffer schedule of the code.  Large decompressed messages are described by a generator so that case
   terms stay small; the recovered message is compared by length and an Adler-32 style fingerprint
   (both sums), small ones byte for byte as well. *)
From UV Require Export Base.Common Model.Decompress.

Inductive outspec :=
| OGen (entries : list (N * N * N)) (take : option N) (extra : bytes)
      (* certificate_list of entries (n, a, b): an n-byte certificate whose byte j is (a + j*b) mod 256, no
         extensions; empty request context; optionally cut to the first `take` bytes; then `extra` appended *)
| ORaw (b : bytes).

Fixpoint payload_from (k : nat) (x b : N) : bytes :=   (* x = (a + j*b) mod 256, kept reduced: linear time *)
  match k with O => [] | S k' => x :: payload_from k' (let y := x + b in if 256 <=? y then y - 256 else y) b end.
(* b is reduced once, so x + b < 512 and one conditional subtraction is the reduction mod 256 (no division per byte) *)
Definition payload (n a b : N) : bytes := payload_from (N.to_nat n) (a mod 256) (b mod 256).
Definition entry (e : N * N * N) : bytes := let '(n, a, b) := e in dbe24 n ++ payload n a b ++ [0; 0].
Definition build (entries : list (N * N * N)) : bytes :=
  let body := concat (map entry entries) in 0 :: dbe24 (dlen body) ++ body.
Definition out_of (o : outspec) : bytes :=
  match o with
  | OGen es take extra => (match take with Some k => firstn (N.to_nat k) (build es) | None => build es end) ++ extra
  | ORaw b => b
  end.

Definition adler (b : bytes) : N * N :=
  (* bytes are < 256 < 65521, so one conditional subtraction per sum is the reduction mod 65521 *)
  fold_left (fun '(s1, s2) x =>
    let a := s1 + x mod 256 in let s1' := if 65521 <=? a then a - 65521 else a in
    let c := s2 + s1' in (s1', if 65521 <=? c then c - 65521 else c)) b (1, 0).

Inductive obs :=
| OOk (len s1 s2 : N) (full : option bytes)    (* recovered message re-marshalled: length, fingerprint, bytes if small *)
| OAlert (a : N).                              (* error returned; alert description sent *)

Inductive case :=
| CFlight (certreq advertised valid completed : bool)
      (* a live TLS 1.3 handshake whose server sent [CertificateRequest] CompressedCertificate: it completed (both Finished
         and the CertificateVerify verified over the transcript) iff the model puts the flight into the transcript in order *)
| CMsg (alg ulen : N) (data trailing : bytes) (wire : option bytes) (back : option (N * N * bytes))
| CRun (ee : bool) (adv : list N) (alg declared : N) (open_ok : bool) (o : outspec) (chunks : list N) (e : rend)
       (fs : zframes)   (* zstd: (declared Window_Size, decompressed length) of every frame, parsed from the frame headers by the runner; [] otherwise *)
       (valid : bool)   (* header ++ out is a structurally valid TLS 1.3 Certificate message (runner's own reference parser) *)
       (ob : obs).

Definition obytes_eqb (a b : option bytes) : bool :=
  match a, b with Some x, Some y => bytes_eqb x y | None, None => true | _, _ => false end.

Definition check (c : case) : bool :=
  match c with
  | CFlight certreq advertised valid completed =>
      let f := (if certreq then [FCertReq] else []) ++ [FCompressed] in
      match client_cert_flight f (advertised && valid) with
      | Ok tr => completed && list_eqb (fun a b => match a, b with FCertReq, FCertReq | FCert, FCert | FCompressed, FCompressed => true | _, _ => false end) tr f
      | _ => negb completed
      end
  | CMsg alg ulen data trailing wire back =>
      match cc_marshal (mkCC alg ulen data), wire with
      | Ok b, Some w =>
          bytes_eqb b w &&
          match cc_unmarshal (b ++ trailing), back with
          | Some m, Some (a, u, d) => (cc_alg m =? a) && (cc_ulen m =? u) && bytes_eqb (cc_data m) d
          | None, None => true
          | _, _ => false
          end
      | Err _, None => true
      | _, _ => false
      end
  | CRun ee adv alg declared open_ok o chunks e fs valid ob =>
      match decompress_cert_top bytes (fun b => if valid then Some b else None) ee adv alg declared open_ok fs (mkR (out_of o) (map N.to_nat chunks) e), ob with
      | Ok raw, OOk len s1 s2 full =>
          let '(a1, a2) := adler raw in
          (dlen raw =? len) && (a1 =? s1) && (a2 =? s2) &&
          match full with Some f => bytes_eqb raw f | None => true end
      | Err a, OAlert a' => a =? a'
      | _, _ => false
      end
  end.

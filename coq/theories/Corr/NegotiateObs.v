(* What the runners observe of one client handshake against the scripted server, and the
   comparison with the model's decision (shared by Corr/C12Corr.v and Corr/C13Corr.v). *)
From UV Require Export Base.Common Model.Negotiate.

Record observed := mkObs {
  o_complete : bool;   (* UConn.Handshake returned nil *)
  o_alert : N;         (* alert description the client sent, 255 = none *)
  o_vers : N;          (* ConnectionState.Version *)
  o_suite : N;         (* ConnectionState.CipherSuite *)
  o_group : N;         (* Conn.curveID *)
  o_alpn : bytes       (* ConnectionState.NegotiatedProtocol *)
}.

Definition matches (r : outcome) (o : observed) : bool :=
  match r with
  | Complete st =>
      o_complete o && (cs_vers st =? o_vers o) && (cs_suite st =? o_suite o)
      && (cs_group st =? o_group o) && bytes_eqb (cs_alpn st) (o_alpn o)
  | Abort a => negb (o_complete o) && (a =? o_alert o)
  end.

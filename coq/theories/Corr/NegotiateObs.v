(* What the runners observe of one client handshake against the scripted server, and the
   comparison with the model's decision (shared by Corr/C12Corr.v and Corr/C13Corr.v). *)
From UV Require Export Base.Common Model.Negotiate.

Record observed := mkObs {
  o_complete : bool;   (* UConn.Handshake returned nil *)
  o_alert : N;         (* alert description the client sent, 255 = none *)
  o_vers : N;          (* ConnectionState.Version *)
  o_suite : N;         (* ConnectionState.CipherSuite *)
  o_group : N;         (* Conn.curveID *)
  o_alpn : bytes       (* ConnectionState.NegotiatedProtocol *)
}.

Definition matches (r : outcome) (o : observed) : bool :=
  match r with
  | Complete st =>
      o_complete o && (cs_vers st =? o_vers o) && (cs_suite st =? o_suite o)
      && (cs_group st =? o_group o) && bytes_eqb (cs_alpn st) (o_alpn o)
  | Abort a => negb (o_complete o) && (a =? o_alert o)
  end.

(* what the connection reports after Handshake returned (completed or not) against Model/NegotiateReport.v *)
Definition reports (r : conn_state) (o : observed) : bool :=
  (cs_suite r =? o_suite o) && (cs_group r =? o_group o) && bytes_eqb (cs_alpn r) (o_alpn o).

(* the property's own reading, on the observation alone: nothing reported that the wire hello did not offer *)
Definition reported_on_wire (w : wire_view) (o : observed) : bool :=
  ((o_suite o =? 0) || memN (o_suite o) (w_suites w))
  && ((o_group o =? 0) || memN (o_group o) (w_shares w) || memN (o_group o) (w_groups w))
  && (match o_alpn o with [] => true | _ => memB (o_alpn o) (w_alpn w) end).

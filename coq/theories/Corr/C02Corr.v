(* Correspondence checker for C02.

   CValid: a Hello.Raw the implementation produced (parrots, randomized specs,
     custom specs, fingerprinted captures, Config shapes).  [check] is the
     property's own oracle, the strict ClientHello grammar of Model/Strict.v
     (proved sound in Props/C02.v: C02_strict_sound), applied to those bytes.

   CBuild: a custom spec as the runner found it on the UConn right after
     BuildHandshakeState — header fields and every extension OBJECT as a term of
     Model/Ext.v — with what MarshalClientHello did (Hello.Raw, or an error).
     [check] recomputes the message with the model of the (fixed) code,
     Model/ChMarshal.marshal_hello, and compares byte for byte / error for
     error; when the spec satisfies the precondition of the property (wf_specb)
     it also insists on what C02_valid_or_error promises. *)
From Coq Require Export Uint63.
From UV Require Export Base.Common Model.Wire Model.Ext Model.ExtSpec Model.Strict Model.ChMarshal.
From UV Require Import Model.Padding Model.Marshal.

(* compact literals (the case files are parsed, not computed, most of the time): numbers as
   primitive integers, byte strings as big-endian 7-byte words; [pk n ws] is the n-byte string *)
Fixpoint hx_go (k : nat) (x : N) (acc : bytes) : bytes :=
  match k with
  | O => acc
  | S k' => hx_go k' (N.shiftr x 8) (N.land x 255 :: acc)
  end.
Definition hx (n : N) (x : N) : bytes := hx_go (N.to_nat n) x [].
Definition w2n (w : Uint63.int) : N := Z.to_N (Uint63.to_Z w).
Fixpoint pk (n : N) (ws : list Uint63.int) : bytes :=
  match ws with
  | [] => []
  | w :: ws' => let k := N.min 7 n in hx k (w2n w) ++ pk (n - k) ws'
  end.

(* an extension object of the UConn *)
Inductive cext :=
| CE (e : ext)                               (* rendered by harness/extcoq.ExtTerm *)
| CBig (id n fill : Uint63.int)              (* &GenericExtension{Id: id, Data: n bytes of value fill} *)
| CCookie (n fill : Uint63.int)              (* &CookieExtension{Cookie: n bytes of value fill} *)
| CTicket (n fill : Uint63.int).             (* &SessionTicketExtension{Ticket: ...} *)

Definition fill (n f : Uint63.int) : bytes := repeat (w2n f) (N.to_nat (w2n n)).
Definition ext_of (c : cext) : ext :=
  match c with
  | CE e => e
  | CBig id n f => EGeneric (w2n id) (fill n f)
  | CCookie n f => ECookie (fill n f)
  | CTicket n f => ESessionTicket (fill n f)
  end.

Inductive case :=
| CValid (n : Uint63.int) (ws : list Uint63.int)
| CBuild (padto : Z)                          (* AlwaysPadToLen argument of a PadOther padding extension *)
         (vers : Uint63.int) (rn : Uint63.int) (random : list Uint63.int)
         (sn : Uint63.int) (sid : list Uint63.int)
         (cn : Uint63.int) (suites : list Uint63.int)   (* CipherSuites as 2*count big-endian bytes *)
         (mn : Uint63.int) (comp : list Uint63.int)     (* CompressionMethods *)
         (exts : list cext)
         (ok : bool)                          (* BuildHandshakeState returned nil *)
         (n : Uint63.int) (raw : list Uint63.int)   (* Hello.Raw when ok *)
         (wf : bool).                         (* the runner built the spec to satisfy the precondition wf_specb *)

Fixpoint pairs (b : bytes) : list N :=
  match b with x :: y :: r => (x * 256 + y) :: pairs r | _ => [] end.

(* spare capacity bytes.Buffer offers after grow(MinRead) *)
Definition bbs512 : N -> N := fun _ => 512.

Definition check (c : case) : bool :=
  match c with
  | CValid n ws => valid_chb (pk (w2n n) ws)
  | CBuild padto vers rn random sn sid cn suites mn comp exts ok n raw wf =>
      let h := {| h_vers := w2n vers; h_random := pk (w2n rn) random; h_sid := pk (w2n sn) sid;
                  h_suites := pairs (pk (w2n cn) suites); h_comp := pk (w2n mn) comp |} in
      let es := map ext_of exts in
      implb wf (wf_specb h es) &&
      match marshal_hello bbs512 padto h es with
      | Ok b => ok && bytes_eqb b (pk (w2n n) raw) && (negb (wf_specb h es) || valid_chb b)
      | Err _ => negb ok
      | Panic _ => false
      end
  end.

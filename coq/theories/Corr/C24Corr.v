(* Correspondence checker for C24: compares what the Go code did (recorded in
   the case) with what the model computes. *)
From UV Require Export Base.Common Model.Varint Model.VarintTo.

Inductive obs := OBytes (b : bytes) | OPanic.

Inductive case :=
| CAppend (x : N) (o : obs) (olen : option N)      (* Append / Len *)
| CWithLen (x w : N) (o : obs)                      (* AppendWithLen *)
| CAppendTo (b : bytes) (x : N) (o : obs)           (* Append onto the buffer b: the whole returned slice *)
| CWithLenTo (b : bytes) (x w : N) (o : obs)        (* AppendWithLen onto the buffer b *)
| CRead (bs : bytes) (o : option (N * N))           (* Read: value, bytes consumed *)
| CMarshal (ks : list tp_kind) (o : obs).           (* TransportParameters.Marshal *)

Definition obs_matches (r : res bytes) (o : obs) : bool :=
  match r, o with
  | Ok b, OBytes b' => bytes_eqb b b'
  | Panic _, OPanic => true
  | _, _ => false
  end.

Definition check (c : case) : bool :=
  match c with
  | CAppend x o olen =>
      obs_matches (append x) o &&
      match vlen x, olen with
      | Ok n, Some n' => n =? n'
      | Panic _, None => true
      | _, _ => false
      end
  | CWithLen x w o => obs_matches (append_with_len x w) o
  | CAppendTo b x o => obs_matches (append_to b x) o
  | CWithLenTo b x w o => obs_matches (append_with_len_to b x w) o
  | CRead bs o =>
      match read bs, o with
      | Some (v, rest), Some (v', used) => (v =? v') && (N.of_nat (length bs - length rest) =? used)
      | None, None => true
      | _, _ => false
      end
  | CMarshal ks o => obs_matches (marshal_kinds ks) o
  end.

From UV Require Export Base.Common Model.Resume.
(* What the runner observed for one connection of a history. *)
Record seen := mkSeen {
  n_tamper : bool;    (* before the connection the runner corrupted the cached secret under the connection's key *)
  n_class : N;        (* 7 server: invalid PSK binder; 8 client: cannot read the server's Finished; 0 completed; 1 empty-psk error; 2 psk+hrr error; 3 server EMS abort; 4 version; 5 other error; 6 client panic *)
  n_resumed : bool;   (* DidResume, client and server agree *)
  n_offer : N;        (* 0 none; 1 session_ticket body non-empty; 2 pre_shared_key present *)
  n_ems : bool;       (* hello carries extended_master_secret *)
  n_hrr : bool;
  n_cache : list (N * option (N * N * bool * N))  (* per cache key: cached (version, suite, ems, client createdAt) after the connection;
                                                   createdAt shows whether the entry was renewed by this connection *)
}.

(* a connection given by reference into the history's tables of specs and servers (keeps the case terms small) *)
Record cref := mkRef {
  r_sp : nat; r_sv : nat; r_sname : N; r_addr : N; r_now : N; r_omit : bool; r_skip : bool; r_suite : N; r_tlen : N;
  r_vname : N; r_skiptime : bool
}.
Definition resolve (sps : list spec) (svs : list server) (r : cref) : conn :=
  mkConn (nth (r_sp r) sps (mkSpec false [] [] [] [] [])) (r_sname r) (r_addr r)
         (nth (r_sv r) svs (mkServer 0 [] [] [] 0 [])) (r_now r) (r_omit r) (r_skip r) (r_suite r) (r_tlen r) (r_vname r) (r_skiptime r).

Inductive case :=
| CHist (h : list (conn * seen))
| CHistT (sps : list spec) (svs : list server) (h : list (cref * seen))
| CPsk (label_lens binder_lens : list N) (suite ext_len pre post : N).

Definition class_of (o : outcome) : N :=
  match o with
  | Done _ => 0
  | CliErr e => if e =? E_EMPTY_PSK then 1 else if e =? E_PSK_HRR then 2 else if e =? E_FINISHED then 8 else 5
  | SrvErr e => if e =? E_SRV_EMS then 3 else if e =? E_VERSION then 4 else if e =? E_BINDER then 7 else 5
  | CliPanic _ => 6
  end.
Definition offer_code (o : obs) : N :=
  match o_offer o with None => 0 | Some (ViaTicket, _) => 1 | Some (ViaPsk, _) => 2 end.

Definition cache_eqb (ca : cache) (want : list (N * option (N * N * bool * N))) : bool :=
  forallb (fun w =>
    match lookup (fst w) ca, snd w with
    | None, None => true
    | Some s, Some (v, su, e, cr) => (s_vers s =? v) && (s_suite s =? su) && Bool.eqb (s_ems s) e && (s_created s =? cr)
    | _, _ => false
    end) want.

Fixpoint check_hist (ca : cache) (h : list (conn * seen)) : bool :=
  match h with
  | [] => true
  | (c, n) :: r =>
    let (ca', o) := step (if n_tamper n then mark_bad (c_name c) ca else ca) c in
    (class_of (o_out o) =? n_class n) &&
    Bool.eqb (resumed o) (n_resumed n) &&
    (offer_code o =? n_offer n) &&
    (* the first hello is only on the wire when the build succeeded *)
    (if (n_class n =? 1) || (n_class n =? 6) then true else Bool.eqb (o_ems o) (n_ems n) && Bool.eqb (o_hrr o) (n_hrr n)) &&
    cache_eqb ca' (n_cache n) &&
    check_hist ca' r
  end.

Definition check (c : case) : bool :=
  match c with
  | CHist h => check_hist [] h
  | CHistT sps svs h => check_hist [] (map (fun x => (resolve sps svs (fst x), snd x)) h)
  | CPsk ll bl suite ext_len pre post =>
      let ids := map (fun l => mkIdent (repeat 0 (N.to_nat l)) 0) ll in
      let bs := map (fun l => repeat 0 (N.to_nat l)) bl in
      (psk_ext_len ids bs =? ext_len) && (N.of_nat (length (psk_ext ids bs)) =? ext_len) &&
      list_eqb N.eqb bl [hash_len suite] && (pre =? post)
  end.

(* Correspondence checker for C34: the two uTLS unmarshalers, the message-type switch and the server read points,
   as observed through hooks/verif_c34.go and through server error texts, compared with Model/RobustSrv.v. *)
From Coq Require Export Uint63.
From UV Require Export Base.Common Model.RobustSrv.
Open Scope N_scope.

(* compact byte-string input (see Corr/C31Corr.v) *)
Definition u (x : int) : N := Z.to_N (Uint63.to_Z x).
Fixpoint be (n : nat) (x : N) (acc : bytes) : bytes :=
  match n with O => acc | S n' => be n' (x / 256) ((x mod 256) :: acc) end.
Fixpoint ub (l : list int) (r : nat) : bytes :=
  match l with [] => [] | [x] => be r (u x) [] | x :: t => be 7 (u x) (ub t r) end.

Inductive case :=
(* utlsClientEncryptedExtensionsMsg.unmarshal: Some (codepoint, settings) when it returned true *)
| CCee (data : bytes) (o : option (N * bytes))
(* utlsCompressedCertificateMsg.unmarshal: Some (algorithm, uncompressedLength, body) *)
| CCc (data : bytes) (o : option (N * N * bytes))
(* Conn.unmarshalHandshakeMessage on a connection of the given role/version: Some t = returned a message of Go type t,
   None = sent unexpected_message. std_ok = what the (unmodelled) standard unmarshaler answered, when one ran. *)
| CUnmarshal (is_client : bool) (vers : N) (std_ok : bool) (data : bytes) (o : option gotype)
(* a live server refused a message of Go type t at read point rp with "unexpected message" *)
| CDispatch (rp : read_point) (t : gotype)
(* a live server went on without any error after a type-8/25 message was injected at the named position:
   the model says this happens at no read point, so the case never checks *)
| CAccepted (pos : N).

Definition opt_bytes_eqb (a b : bytes) : bool := bytes_eqb a b.

Definition check (c : case) : bool :=
  match c with
  | CCee data o =>
      match cee_unmarshal data, o with
      | Ok (Some r), Some (cp, s) => (ee_codepoint r =? cp) && bytes_eqb (ee_settings r) s
      | Ok None, None => true
      | _, _ => false end
  | CCc data o =>
      match cc_unmarshal data, o with
      | Ok (Some r), Some (a, l, b) => (cc_algorithm r =? a) && (cc_uncompressedLength r =? l) && bytes_eqb (cc_data r) b
      | Ok None, None => true
      | _, _ => false end
  | CUnmarshal cl vers std_ok data o =>
      match unmarshal_handshake_message (fun _ _ => std_ok) cl vers data, o with
      | Ok (RMsg t _), Some t' => gotype_eqb t t'
      | Ok (RAlert a), None => a =? alert_unexpected_message
      | _, _ => false end
  | CDispatch rp t =>
      match dispatch rp t with SAlert a => a =? alert_unexpected_message | _ => false end
  | CAccepted _ => false
  end.

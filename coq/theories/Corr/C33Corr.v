(* Correspondence checker for C33: the client-side parsers and the message-type switch as observed through hooks/verif_c22.go,
   verif_c34.go, verif_c21.go, and the cookie position observed in live HelloRetryRequest runs, compared with Model/Robust.v. *)
From Coq Require Export Uint63.
From UV Require Export Base.Common Model.RobustSrv Model.Alps Model.Robust.
Open Scope N_scope.

(* compact byte-string input (as Corr/C34Corr.v) *)
Definition u (x : int) : N := Z.to_N (Uint63.to_Z x).
Fixpoint be (n : nat) (x : N) (acc : bytes) : bytes :=
  match n with O => acc | S n' => be n' (x / 256) ((x mod 256) :: acc) end.
Fixpoint ub (l : list int) (r : nat) : bytes :=
  match l with [] => [] | [x] => be r (u x) [] | x :: t => be 7 (u x) (ub t r) end.

Inductive case :=
(* encryptedExtensionsMsg.unmarshal: returned ok; when ok the ALPN protocol, ALPS code point and settings *)
| CEe (data : bytes) (ok : bool) (alpn : bytes) (cp : N) (settings : bytes)
(* utlsCompressedCertificateMsg.unmarshal *)
| CCc (data : bytes) (o : option (N * N * bytes))
(* Conn.unmarshalHandshakeMessage on a CLIENT connection: Some t = returned a message of Go type t, None = unexpected_message.
   std_ok = what the (unmodelled) standard unmarshaler answered, when one ran *)
| CUnmarshal (vers : N) (std_ok : bool) (data : bytes) (o : option gotype)
(* decompressCert on a client that advertised adv: refused before the buffer was allocated (reader opened or not), or went on *)
| CDecomp (adv : list N) (alg ulen : N) (open_ok : bool) (refused : bool)
(* a live TLS 1.3 handshake whose (decompressed or plain) Certificate message parsed and carried ncerts entries: the client
   returned "received empty certificates message" (empty_err), or completed *)
| CCertChecks (from_compressed : bool) (ncerts : N) (empty_err completed : bool)
(* live HelloRetryRequest with a cookie against a spec with n extensions and no cookie extension: the second ClientHello had
   n2 extensions with the cookie at index pos *)
| CCookiePos (n n2 : N) (pos : Z).

Definition check (c : case) : bool :=
  match c with
  | CEe data ok alpn cp settings =>
      match ee_unmarshal data with
      | Ok (Some m) => ok && bytes_eqb (ee_alpn m) alpn && (ee_cp m =? cp) && bytes_eqb (ee_alps m) settings
      | Ok None => negb ok
      | _ => false end
  | CCc data o =>
      match cc_unmarshal data, o with
      | Ok (Some r), Some (a, l, b) => (cc_algorithm r =? a) && (cc_uncompressedLength r =? l) && bytes_eqb (cc_data r) b
      | Ok None, None => true
      | _, _ => false end
  | CUnmarshal vers std_ok data o =>
      match unmarshal_handshake_message (client_std (fun _ _ => std_ok)) true vers data, o with
      | Ok (RMsg t _), Some t' => gotype_eqb t t'
      | Ok (RAlert a), None => a =? alert_unexpected_message
      | _, _ => false end
  | CDecomp adv alg ulen open_ok refused =>
      match decompress_alloc true adv alg ulen open_ok with
      | Err _ => refused
      | Ok k => negb refused && (k =? ulen + 4) && (k <=? maxHandshakeCertificateMsg + 4)
      | Panic _ => false end
  | CCertChecks fc ncerts empty_err completed =>
      match cert_checks fc (N.to_nat ncerts) with
      | Err a => empty_err && negb completed && (a =? a_decode_error)
      | Ok _ => negb empty_err
      | Panic _ => false end
  | CCookiePos n n2 pos =>
      (* some random draw makes insert_cookie put the cookie there; the list grows by one *)
      let exts := XKeyShare :: repeat XOther (N.to_nat n - 1) in
      (n2 =? n + 1) && (0 <=? pos)%Z &&
      existsb (fun r => match insert_cookie exts r with
                        | Ok l => match nth_error l (Z.to_nat pos) with Some XCookie => true | _ => false end
                        | _ => false end) (nrange (N.to_nat n))
  end.

From UV Require Export Base.Common Model.Prng.
From Coq Require Import QArith.
Open Scope N_scope.

(* Each case: the first bytes of the SHAKE256 stream for the seed, the call,
   what Go returned, and the next 8 stream bytes Go produced afterwards
   (pins down how much of the stream the call consumed). *)
Inductive call :=
| KIntn (n : Z) | KInt63n (n : Z) | KRange (mn mx : Z) | KFlip (wbits : N) | KPerm (n : nat).
Inductive result := RInt (v : Z) | RBool (b : bool) | RPerm (l : list Z).
(* CSalt: two salts used with one seed and the first 8 bytes of the two salted streams (property oracle:
   deterministic in (seed, salt), different across salts). *)
Inductive case :=
| CCall (s : stream) (c : call) (r : result) (next8 : bytes)
| CSalt (salt1 salt2 : bytes) (out1 out2 : bytes)
(* CSeedSalt: (seed, salt) and the first 8 stream bytes of two salted (or, both salts empty and unsalted, plain)
   PRNG creations - one through a seed variable of its own, one through a reused variable holding seed2 at
   call time.  Property oracle: the stream is a function of the seed's value and the salt. *)
| CSeedSalt (seed1 seed2 : bytes) (salt1 salt2 : bytes) (out1 out2 : bytes).

Definition fuel := 64%nat.
Definition next_ok (rest : stream) (next8 : bytes) : bool := bytes_eqb (firstn 8 rest) next8.

Definition check (c : case) : bool :=
  match c with
  | CCall s (KIntn n) (RInt v) nx =>
      match intn fuel n s with Some (v', r) => (v' =? v)%Z && next_ok r nx | None => false end
  | CCall s (KInt63n n) (RInt v) nx =>
      match p_int63n fuel n s with Some (v', r) => (v' =? v)%Z && next_ok r nx | None => false end
  | CCall s (KRange a b) (RInt v) nx =>
      match range fuel a b s with Some (v', r) => (v' =? v)%Z && next_ok r nx | None => false end
  | CCall s (KFlip w) (RBool b) nx =>
      match flip (fw_of_bits w) s with Some (b', r) => Bool.eqb b' b && next_ok r nx | None => false end
  | CCall s (KPerm n) (RPerm l) nx =>
      match perm fuel n s with Some (l', r) => list_eqb Z.eqb l' l && next_ok r nx | None => false end
  | CSalt s1 s2 o1 o2 => Bool.eqb (bytes_eqb s1 s2) (bytes_eqb o1 o2)
  | CSeedSalt d1 d2 s1 s2 o1 o2 => implb (bytes_eqb d1 d2 && bytes_eqb s1 s2) (bytes_eqb o1 o2)
  | _ => false
  end.

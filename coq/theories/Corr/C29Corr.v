From UV Require Export Base.Common Model.Roller.
(* One observed Dial: configured ids, working id before the call, the handshake timeout (ms),
   the fingerprint of each ClientHello that reached the server, in order, with what the server did
   with it (Serve 0 = handshake completed and the client used the connection, Serve T = the server
   completed it but the client had given up, Refuse 0 = closed without completing, Silent = read the
   hello and never answered), what Dial returned, and the working id recorded afterwards.
   Fingerprints are given as the id-with-seed that produces them.
   Dt = TcpDialTimeout (ms), listening = the server's listener stayed open during the whole call,
   elapsed = how long the call took (ms, rounded down). *)
Inductive case :=
  CDial (ids : list hid) (working : option hid) (T : N) (trace : list (hid * peer_beh))
        (connected : option hid) (tcp_err : bool) (working_after : option hid)
        (Dt : N) (listening : bool) (elapsed : N).

Definition ohid_eqb (a b : option hid) : bool :=
  match a, b with Some x, Some y => hid_eqb x y | None, None => true | _, _ => false end.

Definition check (c : case) : bool :=
  match c with
  | CDial ids w T tr conn tcpe wa Dt listening elapsed =>
      trace_ok ids w T tr conn tcpe && time_ok T Dt tr tcpe listening elapsed &&
      ohid_eqb wa (match conn with Some i => Some i | None => w end)
  end.

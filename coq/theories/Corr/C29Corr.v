From UV Require Export Base.Common Model.Roller.
(* One observed Dial: configured ids, working id before the call, ids the server accepts,
   the ids whose ClientHello reached the server in order, what Dial returned,
   and the working id recorded afterwards. *)
Inductive case :=
  CDial (ids : list id) (working : option id) (accepted : list id)
        (trace : list id) (connected : option id) (tcp_err : bool) (working_after : option id).

Definition oid_eqb (a b : option id) : bool :=
  match a, b with Some x, Some y => x =? y | None, None => true | _, _ => false end.

Definition check (c : case) : bool :=
  match c with
  | CDial ids w accl tr conn tcpe wa =>
      trace_ok ids w (fun x => existsb (N.eqb x) accl) tr conn tcpe &&
      oid_eqb wa (match conn with Some i => Some i | None => w end)
  end.

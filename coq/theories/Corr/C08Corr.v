(* Correspondence checker for C08: what the Go extension methods were observed
   to do, compared with Model/Ext.v. *)
From UV Require Export Base.Common Model.Wire Model.Varint Model.Ext Model.ExtObj.

(* outcome of Read(b): (n, io.EOF) with b[:n] | (0, err) with the error's code | panic *)
Inductive robs := ROk (b : bytes) | RErr (code : N) | RPanic.
(* outcome of ExtensionFromID(id) + Write(body): error (or nil / not a writer) | panic |
   success, then Len() of the written object and Read into a buffer of exactly Len() bytes *)
Inductive wobs := WErr | WPanic | WOk (len : N) (r : robs).

Inductive case :=
(* e: the Go value rendered by extcoq.ExtTerm; n: len(b); golen: Len() (None = it panicked) *)
| CRead (e : ext) (n : N) (golen : option N) (o : robs)
(* real = true: the UtlsPreSharedKeyExtension choice of ReadTLSExtensions for id 41.
   For GREASE ECH the runner zeroes config id, encapsulated key and payload in the observed bytes. *)
| CWrite (real : bool) (id : N) (body : bytes) (o : wobs)
(* an object encoded once as `first`, whose exported fields were then edited to `cur` *)
| CReadObj (first cur : ext) (n : N) (golen : option N) (o : robs).

Definition robs_matches (r : res bytes) (o : robs) : bool :=
  match r, o with
  | Ok b, ROk b' => bytes_eqb b b'
  | Err c, RErr c' => c =? c'
  | Panic _, RPanic => true
  | _, _ => false
  end.

Definition check (c : case) : bool :=
  match c with
  | CRead e n golen o =>
      robs_matches (ext_read e n) o &&
      match golen with
      | Some l => ext_len e =? l
      | None => is_panic (ext_read e n)
      end
  | CReadObj first cur n golen o =>
      robs_matches (obj_read first cur n) o &&
      match golen with
      | Some l => obj_len first cur =? l
      | None => is_panic (obj_read first cur n)
      end
  | CWrite real xid body o =>
      match (if real then ext_write_realpsk xid body else ext_write xid body), o with
      | Ok e, WOk l r => (ext_len e =? l) && robs_matches (ext_read e l) r
      | Err _, WErr => true
      | Panic _, WPanic => true
      | _, _ => false
      end
  end.

(* Correspondence checker for C01.  A case is one real UConn driven over loopback TCP
   against the scripted server: what applying the fingerprint produced (header fields and
   every extension object, as found after the first BuildHandshakeState), the list of public
   calls made afterwards, what the server did, and what was observed — the ClientHello
   handshake messages cut out of the recorded byte stream and whether Hello.Raw afterwards
   equalled the last of them.  [check] replays the calls on Model/UConn.v and compares
   byte for byte. *)
From Coq Require Export Uint63.
From UV Require Export Base.Common Model.Wire Model.Ext Model.ExtSpec Model.Strict Model.ChMarshal Model.UConn.
From UV Require Import Model.Padding Model.Marshal.

Fixpoint hx_go (k : nat) (x : N) (acc : bytes) : bytes :=
  match k with
  | O => acc
  | S k' => hx_go k' (N.shiftr x 8) (N.land x 255 :: acc)
  end.
Definition hx (n : N) (x : N) : bytes := hx_go (N.to_nat n) x [].
Definition w2n (w : Uint63.int) : N := Z.to_N (Uint63.to_Z w).
Fixpoint pk (n : N) (ws : list Uint63.int) : bytes :=
  match ws with
  | [] => []
  | w :: ws' => let k := N.min 7 n in hx k (w2n w) ++ pk (n - k) ws'
  end.
Definition pb (n : Uint63.int) (ws : list Uint63.int) : bytes := pk (w2n n) ws.
Fixpoint pairs (b : bytes) : list N :=
  match b with x :: y :: r => (x * 256 + y) :: pairs r | _ => [] end.

(* packed byte string / key share entry (constructors, so that the integer literals are read as primitive ints) *)
Inductive pbytes := PB (n : Uint63.int) (ws : list Uint63.int).
Definition bytes_of (p : pbytes) : bytes := match p with PB n ws => pb n ws end.
Inductive kshare := KS (group : Uint63.int) (n : Uint63.int) (ws : list Uint63.int).

(* an extension object: rendered by extcoq.ExtTerm, or compactly *)
Inductive cext :=
| XE (e : ext)
| XGen (id : Uint63.int) (n : Uint63.int) (ws : list Uint63.int)            (* opaque: emits id || len || these bytes *)
| XKS (shares : list kshare).                                              (* KeyShareExtension{(group, data)} *)
Definition ext_of (c : cext) : ext :=
  match c with
  | XE e => e
  | XGen id n ws => EGeneric (w2n id) (pb n ws)
  | XKS l => EKeyShare (map (fun x => match x with KS g n ws => (w2n g, pb n ws) end) l)
  end.

Inductive cop :=
| KBuild | KBuildNoSession
| KRandom (n : Uint63.int) (ws : list Uint63.int)
| KSNI (host : bytes)
| KEdit (i : Uint63.int) (e : cext) | KInsert (i : Uint63.int) (e : cext) | KRemove (i : Uint63.int)
| KSuites (n : Uint63.int) (ws : list Uint63.int)
| KSid (n : Uint63.int) (ws : list Uint63.int).
Definition nat_of (i : Uint63.int) : nat := N.to_nat (w2n i).
Definition op_of (c : cop) : op :=
  match c with
  | KBuild => OBuild | KBuildNoSession => OBuildNoSession
  | KRandom n ws => OSetClientRandom (pb n ws)
  | KSNI h => OSetSNI h
  | KEdit i e => OEditExt (nat_of i) (ext_of e) | KInsert i e => OInsertExt (nat_of i) (ext_of e) | KRemove i => ORemoveExt (nat_of i)
  | KSuites n ws => OSetCipherSuites (pairs (pb n ws))
  | KSid n ws => OSetSessionId (pb n ws)
  end.

Inductive csrv :=
| VPlain
| VHRR (group : Uint63.int) (kn : Uint63.int) (key : list Uint63.int) (cn : Uint63.int) (cookie : list Uint63.int) (idx : Uint63.int).
Definition srv_of (v : csrv) : server :=
  match v with
  | VPlain => SrvPlain
  | VHRR g kn key cn cookie idx => SrvHRR (w2n g) (pb kn key) (pb cn cookie) (nat_of idx)
  end.

Inductive case :=
| CRun (vers : Uint63.int) (rn : Uint63.int) (random : list Uint63.int) (sn : Uint63.int) (sid : list Uint63.int)
       (cn : Uint63.int) (suites : list Uint63.int) (mn : Uint63.int) (comp : list Uint63.int)
       (exts : list cext)                       (* HandshakeState.Hello / uconn.Extensions after the first BuildHandshakeState *)
       (ops : list cop)                         (* public calls made after it, in order *)
       (srv : csrv)                             (* then Handshake against this server *)
       (hellos : list pbytes)                   (* ClientHello messages seen on the wire *)
       (raw_is_last : bool).                    (* Hello.Raw after Handshake == the last of them *)

Definition bbs512 : N -> N := fun _ => 512.

Definition check (c : case) : bool :=
  match c with
  | CRun vers rn random sn sid cn suites mn comp exts ops srv hellos raw_is_last =>
      let h := {| h_vers := w2n vers; h_random := pb rn random; h_sid := pb sn sid;
                  h_suites := pairs (pb cn suites); h_comp := pb mn comp |} in
      let s0 := init (Ok (h, map ext_of exts)) in
      let s := run bbs512 0%Z s0 (OBuild :: map op_of ops) in
      match handshake bbs512 0%Z (srv_of srv) s with
      | (s', Ok _) =>
          list_eqb bytes_eqb (u_sent s') (map bytes_of hellos)
          && raw_is_last && bytes_eqb (u_raw s') (last (u_sent s') [])
      | _ => false
      end
  end.

(* Correspondence checker for C35.  HMAC-SHA256, AES-CTR and SHA-512 are the
   model's Section variables; here they are instantiated by lookup tables that
   the runner fills with values computed by the Go standard library
   (crypto/hmac, crypto/aes+cipher.NewCTR, crypto/sha512) for exactly the
   arguments the model is expected to query.  A query outside the table
   returns [] and the case fails, so the tables also pin down WHICH key and
   WHICH bytes the model authenticates / encrypts. *)
From UV Require Export Base.Common Model.Ticket.

Definition tab1 := list (bytes * bytes).            (* sha512: input -> output *)
Definition tab2 := list (bytes * bytes * bytes).    (* ctr: key,iv -> keystream *)
Definition tabh := list (bytes * list (bytes * bytes)).   (* hmac: msg -> (key -> tag), grouped by message to keep case terms small *)

Fixpoint look1 (t : tab1) (a : bytes) : bytes :=
  match t with [] => [] | (x, y) :: r => if bytes_eqb x a then y else look1 r a end.
Fixpoint look2 (t : tab2) (a b : bytes) : bytes :=
  match t with [] => [] | (x, y, z) :: r => if bytes_eqb x a && bytes_eqb y b then z else look2 r a b end.
Fixpoint lookh (t : tabh) (k m : bytes) : bytes :=
  match t with [] => [] | (x, l) :: r => if bytes_eqb x m then look1 l k else lookh r k m end.
Fixpoint xor_ks (x ks : bytes) : bytes :=
  match x, ks with
  | a :: x', k :: ks' => N.lxor a k :: xor_ks x' ks'
  | _, _ => []
  end.
Definition ctr_of (t : tab2) (k iv x : bytes) : bytes := xor_ks x (look2 t k iv).
Definition x509_of (good : list bytes) (c : bytes) : bool := existsb (bytes_eqb c) good.

Definition obytes_eqb (a b : option bytes) : bool :=
  match a, b with Some x, Some y => bytes_eqb x y | None, None => true | _, _ => false end.
Definition res_obs (r : res bytes) : option bytes := match r with Ok b => Some b | _ => None end.

(* one step of a history on a Config with deterministic Rand and Time *)
Inductive hop :=
| HSetKeys (ks : list bytes) (panicked : bool)   (* SetSessionTicketKeys *)
| HSetLegacy (b : bytes)                         (* cfg.SessionTicketKey = b *)
| HDisable (b : bool)                            (* cfg.SessionTicketsDisabled = b *)
| HAdvance (dt : Z)                              (* Config.Time moves on by dt seconds *)
| HSeal (s : state) (obs : option bytes)         (* Config.EncryptTicket: ticket, or None for an error *)
| HOpen (t : bytes) (obs : option bytes).        (* Config.DecryptTicket: Bytes() of the state, or None for nil *)

(* an operation on member i of a family of Configs, or cloning member i *)
Inductive fop := FOn (i : N) (op : hop) | FClone (i : N).

Inductive case :=
| CBytes (s : state) (obs : option bytes)                          (* SessionState.Bytes *)
| CParse (good : list bytes) (data : bytes) (obs : option (option bytes))   (* ParseSessionState: None = error; Some = Bytes() of the result *)
| CKey (b sha : bytes) (aes hm : bytes)                            (* TicketKeyFromBytes *)
| CHist (sh : tab1) (hm : tabh) (ks : tab2) (good : list bytes) (rnd : bytes) (t0 : Z) (ops : list hop)
| CFam (sh : tab1) (hm : tabh) (ks : tab2) (good : list bytes) (rnd : bytes) (t0 : Z) (ops : list fop)
      (* a family of Configs sharing Rand and Time: config 0 is new(Config); FClone i appends cfg_i.Clone() *).

Section Run.
Variable sh : tab1. Variable hm : tabh. Variable ks : tab2. Variable good : list bytes.
Let hmac := lookh hm.
Let ctr := ctr_of ks.
Let sha := look1 sh.
Let xok := x509_of good.

Fixpoint run (c : config) (now : Z) (rnd : bytes) (ops : list hop) : bool :=
  match ops with
  | [] => true
  | HSetKeys l p :: r =>
      match set_session_ticket_keys sha c now l with
      | Ok c' => negb p && run c' now rnd r
      | Panic _ => p && run c now rnd r
      | Err _ => false
      end
  | HSetLegacy b :: r => run (mkCfg (c_disabled c) b (c_keys c) (c_auto c)) now rnd r
  | HDisable b :: r => run (mkCfg b (c_stk c) (c_keys c) (c_auto c)) now rnd r
  | HAdvance dt :: r => run c (now + dt)%Z rnd r
  | HSeal s obs :: r =>
      match cfg_encrypt hmac ctr sha c now rnd s with
      | Ok (t, c', rnd') => obytes_eqb (res_obs t) obs && run c' now rnd' r
      | _ => false
      end
  | HOpen t obs :: r =>
      match cfg_decrypt hmac ctr sha xok c now rnd t with
      | Ok (o, c', rnd') =>
          obytes_eqb (match o with Some s => res_obs (state_bytes s) | None => None end) obs
          && match o, obs with Some _, None => false | _, _ => true end
          && run c' now rnd' r
      | _ => false
      end
  end.

(* one hop on one config: None = observation differs from the model *)
Definition hop1 (c : config) (now : Z) (rnd : bytes) (op : hop) : option (config * Z * bytes) :=
  match op with
  | HSetKeys l p =>
      match set_session_ticket_keys sha c now l with
      | Ok c' => if p then None else Some (c', now, rnd)
      | Panic _ => if p then Some (c, now, rnd) else None
      | Err _ => None
      end
  | HSetLegacy b => Some (mkCfg (c_disabled c) b (c_keys c) (c_auto c), now, rnd)
  | HDisable b => Some (mkCfg b (c_stk c) (c_keys c) (c_auto c), now, rnd)
  | HAdvance dt => Some (c, (now + dt)%Z, rnd)
  | HSeal s obs =>
      match cfg_encrypt hmac ctr sha c now rnd s with
      | Ok (t, c', rnd') => if obytes_eqb (res_obs t) obs then Some (c', now, rnd') else None
      | _ => None
      end
  | HOpen t obs =>
      match cfg_decrypt hmac ctr sha xok c now rnd t with
      | Ok (o, c', rnd') =>
          if obytes_eqb (match o with Some s => res_obs (state_bytes s) | None => None end) obs
             && match o, obs with Some _, None => false | _, _ => true end
          then Some (c', now, rnd') else None
      | _ => None
      end
  end.

Fixpoint run_fam (st : list config) (now : Z) (rnd : bytes) (ops : list fop) : bool :=
  match ops with
  | [] => true
  | FClone i :: r =>
      match nth_error st (N.to_nat i) with
      | Some c => run_fam (st ++ [c]) now rnd r
      | None => false
      end
  | FOn i op :: r =>
      match nth_error st (N.to_nat i) with
      | Some c =>
          match hop1 c now rnd op with
          | Some (c', now', rnd') => run_fam (upd st (N.to_nat i) c') now' rnd' r
          | None => false
          end
      | None => false
      end
  end.
End Run.

Definition check (c : case) : bool :=
  match c with
  | CBytes s obs => obytes_eqb (res_obs (state_bytes s)) obs
  | CParse good data obs =>
      match parse_state (x509_of good) data with
      | Ok s => match obs with Some o => obytes_eqb (res_obs (state_bytes s)) o | None => false end
      | _ => match obs with None => true | Some _ => false end
      end
  | CKey b sha aes hm =>
      let K := TicketKeyFromBytes (fun _ => sha) b in
      bytes_eqb (AesKey K) aes && bytes_eqb (HmacKey K) hm
  | CHist sh hm ks good rnd t0 ops => run sh hm ks good new_config t0 rnd ops
  | CFam sh hm ks good rnd t0 ops => run_fam sh hm ks good [new_config] t0 rnd ops
  end.

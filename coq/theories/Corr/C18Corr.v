(* C18 correspondence. The runner observes, per connection: the key-share list of the spec in force
   (group, len(Data)), the key_share entries on the wire (group, length), the legacy session id length,
   which private keys the UConn retained (curves of Ecdhe / ExtraEcdhe / MlkemEcdhe, Mlkem present), the
   log of reads from Config.Rand with the reads whose bytes it could identify (random, session id, the
   scalar behind each share, each ML-KEM seed), and - with the server forced to one offered share -
   whether the handshake completed. Each is compared with Model/KeyShare.v run on the toy crypto
   instance (shapes, sizes, read order and which key meets the server's share do not depend on the
   instance). [fixed] says whether the tree under test has KeySharePrivateKeys.ExtraEcdhe. *)
From UV Require Export Base.Common Model.Negotiate Model.KeyShare.

Inductive case :=
| CShape (fixed quic : bool) (spec wire : list (N * N)) (sidlen : N) (obs : kshape)
| CShapeQ (fixed : bool) (spec wire : list (N * N)) (sidlen : N)   (* QUIC: the UQUICConn hides its KeyShareKeys *)
| CSelect (fixed : bool) (spec : list (N * N)) (idx : nat) (completed : bool)
| CReads (quic : bool) (spec : list (N * N)) (reads : list (N * N))
(* Fingerprinter: key_share entries (group, length) of the captured hello, and (group, len(Data)) of the resulting spec *)
| CImport (captured spec : list (N * N)).

Definition rnd_c (i : N) : N := (i * 11 + 5) mod 253.
Definition shares_of (spec : list (N * N)) : list kshare :=
  map (fun p => mkKS (fst p) (repeat 0 (N.to_nat (snd p)))) spec.

Fixpoint wire_ok (spec : list (N * N)) (model : list kshare) (wire : list (N * N)) : bool :=
  match spec, model, wire with
  | [], [], [] => true
  | (g, _) :: s', m :: m', (wg, wl) :: w' =>
      (if is_grease g then is_grease wg else (wg =? ks_group m) && negb (is_grease wg))
      && (wl =? lenN (ks_data m)) && wire_ok s' m' w'
  | _, _, _ => false
  end.

Definition check (c : case) : bool :=
  match c with
  | CShape fixed quic spec wire sidlen obs =>
      match toy_apply rnd_c fixed quic 2570 (shares_of spec) 0 with
      | Ok a => wire_ok spec (a_shares a) wire && (sidlen =? lenN (a_sid a)) && shape_eqb (shape_of (a_keys a)) obs
                && (lenN (a_random a) =? 32)
      | _ => false
      end
  | CShapeQ fixed spec wire sidlen =>
      match toy_apply rnd_c fixed true 2570 (shares_of spec) 0 with
      | Ok a => wire_ok spec (a_shares a) wire && (sidlen =? lenN (a_sid a)) && (sidlen =? 0)
      | _ => false
      end
  | CSelect fixed spec idx completed =>
      match toy_apply rnd_c fixed false 2570 (shares_of spec) 0 with
      | Ok a => Bool.eqb (toy_agree fixed a idx 77 [9; 8; 7]) completed
      | _ => false
      end
  | CReads quic spec reads => match_reads quic (shares_of spec) reads
  | CImport captured spec =>
      list_eqb (fun a b => (ks_group a =? ks_group b) && (lenN (ks_data a) =? lenN (ks_data b)))
               (import_shares (shares_of captured)) (shares_of spec)
  end.

(* C16 correspondence: GREASE ECH extensions seen on the wire (first ClientHello, and the second one after a
   HelloRetryRequest) against Model/EchGrease.v. The random draws are read back from the observed extension
   (config id, encapsulated key, payload, and the indices of the chosen suite / payload length in the parrot's
   candidate lists); the model must then reproduce every byte, and a second Read with unrelated draws must
   return the same bytes. *)
From UV Require Export Base.Common Model.EchGrease.
Open Scope N_scope.

Inductive case :=
(* template of the parrot (candidate suites, config ids, payload lengths), extension bytes in the first hello
   (type, length, body), and the extension in the second hello: None = there was no HelloRetryRequest,
   Some None = byte-identical to the first, Some (Some b) = different bytes b *)
| CGrease (cands : list suite) (ids : list N) (lens : list N) (ext1 : bytes) (ext2 : option (option bytes))
(* the property's oracle applied to what the implementation sent *)
| COracle (cands : list suite) (lens : list N) (ext1 : bytes) (ext2 : option (option bytes)).

Fixpoint index_of {A} (p : A -> bool) (l : list A) : option N :=
  match l with
  | [] => None
  | x :: r => if p x then Some 0 else match index_of p r with Some i => Some (i + 1) | None => None end
  end.

Definition template (cands : list suite) (ids : list N) (lens : list N) : grease :=
  mkGrease cands (0, 0) ids 0 [] lens [] false.

Definition other_fresh : fresh := mkFresh 170 0 0 (repeat 85 32) 0 (fun n => repeat 204 (N.to_nat n)).

(* the second hello's extension, as bytes, given the first *)
Definition second_ext (ext1 : bytes) (ext2 : option (option bytes)) : option bytes :=
  match ext2 with None => None | Some None => Some ext1 | Some (Some b) => Some b end.
Definition obytes_eqb (a : option bytes) (b : bytes) : bool :=
  match a with Some x => bytes_eqb x b | None => true end.

Definition check (c : case) : bool :=
  match c with
  | CGrease cands ids lens ext1 ext2 =>
    match parse_ext ext1 with
    | Some (_, body) =>
      match parse_outer body with
      | Some o =>
        match (if is_nil cands then Some 0 else index_of (suite_eqb (o_kdf o, o_aead o)) cands),
              index_of (fun c => nlen (o_payload o) =? c + 16) (lens_or_default lens),
              (if is_nil ids then Some 0 else index_of (N.eqb (o_config_id o)) ids) with
        | Some si, Some li, Some ii =>
          let f := mkFresh (o_config_id o) ii si (o_enc o) li (fun _ => o_payload o) in
          match reads (template cands ids lens) [f; other_fresh; other_fresh] 65535 with
          | Ok [e1; e2; e3] => bytes_eqb e1 ext1 && obytes_eqb (second_ext ext1 ext2) e2 && bytes_eqb e3 e1
          | _ => false
          end
        | _, _, _ => false
        end
      | None => false
      end
    | None => false
    end
  | COracle cands lens ext1 ext2 => wf_grease_ext cands lens ext1 && obytes_eqb (second_ext ext1 ext2) ext1
  end.

(* Correspondence checker for C15: compares what the Go code did (recorded in
   the case) with what Model/Ech.v computes on the same inputs. *)
From UV Require Export Base.Common Model.Ech.

(* how marshalMsgReorderOuterExts classifies the extension ids it can write *)
Definition kind_of_id (id : N) : ckind :=
  if mem id [11; 35; 65281; 23] then KOuterOnly
  else if mem id [5; 10; 13; 50; 16; 44; 51; 45] then KComp
  else if id =? 43 then KCompNoReorder
  else KAlways.

Definition mk_ext (p : N * bytes) : ext := mkExt (fst p) (snd p).

(* an inner hello from its fields and the extension list of its uncompressed marshalling *)
Definition mk_inner (vers : N) (random sid : bytes) (suites : list N) (comp name : bytes)
           (exts : list (N * bytes)) : chello :=
  let es := map mk_ext exts in
  mkHello vers random sid suites comp name
    (map (fun e => mkItem e (kind_of_id (eid e)))
         (filter (fun e => negb (eid e =? EXT_SNI) && negb (eid e =? EXT_PSK)) es))
    (find_ext EXT_PSK es).

Inductive obs := OBytes (b : bytes) | OErr (code : N).

Definition obs_matches (r : res bytes) (o : obs) : bool :=
  match r, o with
  | Ok b, OBytes b' => bytes_eqb b b'
  | Err c, OErr c' => (c =? c') || (c' =? 0)     (* 0 = an error whose text the runner does not classify *)
  | _, _ => false
  end.

(* BoringPaddingStyle, u_tls_extensions.go:1111 *)
Definition boring_pad (u : N) : N * bool :=
  if (255 <? u) && (u <? 512) then
    let p := 512 - u in ((if 5 <=? p then p - 4 else 1), true)
  else (0, false).

Inductive fin_obs :=
| FComplete (accepted : bool) (name : bytes)
| FRejection (retry : bytes)
| FCertError
| FOther.

Inductive case :=
(* encodeInnerClientHello[ReorderOuterExts] on a generated or recorded inner hello *)
| CEncode (vers : N) (random sid : bytes) (suites : list N) (comp name : bytes) (exts : list (N * bytes))
          (maxname : N) (oe : option (list N)) (o : obs)
(* decodeInnerClientHello; OBytes = the reconstructed raw inner hello *)
| CDecode (orig sid enc : bytes) (o : obs)
(* UConn.computeAndUpdateOuterECHExtension: spec extensions, hello fields, inner hello, config, observed
   ciphertext (stands for the HPKE seal), observed extensionsList and raw outer hello *)
| COuter (hvers : N) (hrandom hsid : bytes) (hsuites : list N) (hcomp : bytes) (uexts : list uext) (hn : bytes)
         (ivers : N) (irandom isid : bytes) (isuites : list N) (icomp iname : bytes) (iexts : list (N * bytes))
         (cid kdf aead maxname : N) (enc : bytes) (useKey : bool) (ct : bytes)
         (obs_list : list N) (obs_raw : bytes)
(* HelloRetryRequest with ECH accepted: first-flight state, selected group, the fresh share, and the
   key_share bodies observed in the second outer hello and in the updated inner hello *)
| CHrr (outer_ks : list kshare) (ivers : N) (irandom isid : bytes) (isuites : list N) (icomp iname : bytes)
       (iexts : list (N * bytes)) (uexts : list uext) (group : N) (pub : bytes) (obs_outer obs_inner : bytes)
(* ApplyPreset's SNIExtension step: ECH public name (if configured), Config.ServerName, the name already in the
   extension, and the name found in it afterwards *)
| CPreset (pn : option bytes) (cfg_name before after : bytes)
(* one connection served by a Config whose configured keys are `keys`: the config the client held, whether the server
   accepted ECH, and the retry list the client received when it did not *)
| CServer (keys : list ech_key) (client_cfg : bytes) (accepted : bool) (retry : option bytes)
(* outcome of the client handshake *)
| CFinish (cfg_name outer_name : bytes) (confirmed : bool) (retry : option bytes) (flight_ok : bool)
          (verify_outer verify_cfg : bool) (o : fin_obs).

Definition list_N_eqb := list_eqb N.eqb.

Definition uext_exts (e : uext) : list ext :=
  match e with
  | UExt x => [x] | UEch x => [x] | UKeyShare ks => [ks_ext ks] | _ => []
  end.

Definition fin_matches (r : hs_result) (o : fin_obs) : bool :=
  match r, o with
  | HsComplete a n, FComplete a' n' => Bool.eqb a a' && bytes_eqb n n'
  | HsECHRejection rc, FRejection rc' => bytes_eqb rc rc'
  | HsCertError, FCertError => true
  | HsOtherError _, FOther => true
  | _, _ => false
  end.

Definition check (c : case) : bool :=
  match c with
  | CEncode vers random sid suites comp name exts maxname oe o =>
      obs_matches (encode_inner (mk_inner vers random sid suites comp name exts) maxname oe) o
  | CDecode orig sid enc o =>
      obs_matches (match decode_inner (fun _ _ => true) orig sid enc with
                   | Ok r => Ok (recon_bytes r) | Err c => Err c | Panic c => Panic c end) o
  | COuter hv hr hs hsu hc uexts hn iv ir isid isu ic iname iexts cid kdf aead maxname enc useKey ct obs_list obs_raw =>
      let pad_on := mem EXT_PADDING obs_list in
      let h := mkUHello hv hr hs hsu hc in
      let inner := mk_inner iv ir isid isu ic iname iexts in
      list_N_eqb (extensions_list (fun _ => hn) pad_on uexts) obs_list &&
      match compute_outer (fun _ => hn) boring_pad (fun _ _ _ => ct) h uexts pad_on inner
                          (mkCfg cid kdf aead maxname []) enc useKey 0 with
      | Ok o => bytes_eqb (o_raw o) obs_raw && (len ct =? len (o_encoded o) + 16)
      | _ => false
      end
  | CHrr outer_ks iv ir isid isu ic iname iexts uexts group pub obs_outer obs_inner =>
      match hrr_update group pub (mkHrr outer_ks (mk_inner iv ir isid isu ic iname iexts) uexts) with
      | Ok st' =>
          match find_ext EXT_KEY_SHARE (flat_map uext_exts (hs_exts st')),
                find_ext EXT_KEY_SHARE (map it_ext (ch_items (hs_inner st'))) with
          | Some eo, Some ei => bytes_eqb (ebody eo) obs_outer && bytes_eqb (ebody ei) obs_inner
          | _, _ => false
          end
      | _ => false
      end
  | CPreset pn cfg_name before after =>
      match apply_preset_sni pn cfg_name (USni before) with
      | USni n => bytes_eqb n after
      | _ => false
      end
  | CServer keys client_cfg accepted retry =>
      let '((a, r), _) := server_step keys client_cfg in
      Bool.eqb a accepted &&
      (accepted || match r, retry with
                   | Some x, Some y => bytes_eqb x y
                   | None, None => true
                   | _, _ => false
                   end)
  | CFinish cfg_name outer_name confirmed retry flight_ok verify_outer verify_cfg o =>
      fin_matches (client_finish (fun n => if bytes_eqb n outer_name then verify_outer else verify_cfg)
                                 (mkView cfg_name outer_name confirmed retry None flight_ok)) o
  end.

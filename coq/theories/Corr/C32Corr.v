(* Correspondence checker for C32.
   CDictLive: the maps compiled into the runner (package dicttls as the JSON importer sees it) are the tables of the
              generated Gen/Dict.v (same keys, same images; both sides have unique keys, so inclusion + equal size).
   CImportG / CImport: the code points the JSON importer produced for a list of names = the model's lookup loop
              (None = the importer returned an error). *)
From Coq Require Export String.
From UV Require Export Base.Common Model.Dicttls Gen.Dict.
Open Scope string_scope.

Inductive case :=
| CDictLive (name : string) (vi : vtable) (ni : ntable)
| CImportG (ni : ntable) (names : list string) (got : option (list N))
| CImport (ni : ntable) (names : list string) (got : option (list N)).

Fixpoint find_table (name : string) (ts : list (string * (vtable * ntable))) : option (vtable * ntable) :=
  match ts with
  | [] => None
  | (k, t) :: r => if String.eqb k name then Some t else find_table name r
  end.

Definition opt_list_eqb (a b : option (list N)) : bool :=
  match a, b with
  | Some x, Some y => list_eqb N.eqb x y
  | None, None => true
  | _, _ => false
  end.

Definition check (c : case) : bool :=
  match c with
  | CDictLive name vi ni =>
      match find_table name dict_tables with
      | None => false
      | Some (gvi, gni) =>
          Nat.eqb (length vi) (length gvi) && Nat.eqb (length ni) (length gni) &&
          forallb (fun p => match lookup_value (fst p) gvi with Some n => String.eqb n (snd p) | None => false end) vi &&
          forallb (fun p => match lookup_name (fst p) gni with Some v => N.eqb v (snd p) | None => false end) ni
      end
  | CImportG ni names got => opt_list_eqb (import_names_grease ni names) got
  | CImport ni names got => opt_list_eqb (import_names ni names) got
  end.

(* C27 correspondence: (1) the generated suite tables equal the tables in the code, (2) which of the
   65536 suite ids yield a connection, (3) cipher kinds, CBC direction flags, MAC presence and sequence
   numbers of the four halves of a forged client/server pair, (4) record types, versions, lengths and
   explicit nonces put on the wire by a sequence of writes. Primitives are the toy instance (lengths
   only); ciphertext bytes are never compared. *)
From UV Require Export Base.Common Model.Record Model.Forge Gen.Suites.
Open Scope N_scope.

Notation hobs := (N * bool * N * bool)%type (only parsing).   (* kind, CBC decrypter?, seq, has MAC *)

Inductive case :=
| CTable (weak : bool) (rows : list suite_row)
| CSupported (weak : bool) (version : N) (ids : list N)
| CForge (weak : bool) (version suite : N) (cin cout sin sout : hobs)
| CWire (weak : bool) (version suite : N) (is_client : bool) (sizes : list N) (recs : list (N * N * N * bytes)).

Definition tbl_of (weak : bool) : list suite_row := if weak then suites_weak else suites_default.

Definition row_eqb (a b : suite_row) : bool :=
  (s_id a =? s_id b) && (s_keyLen a =? s_keyLen b)%nat && (s_macLen a =? s_macLen b)%nat &&
  (s_ivLen a =? s_ivLen b)%nat && (s_flags a =? s_flags b) && (s_kind a =? s_kind b) &&
  (s_macSize a =? s_macSize b)%nat && (s_bs a =? s_bs b)%nat && (s_enl a =? s_enl b)%nat.

Definition hobs_of (h : half) : hobs :=
  match h_cipher h with
  | None => (0, false, h_seq h, match h_mac h with Some _ => true | None => false end)
  | Some c =>
    let kind := match c_kind c with
                | KStream => 1 | KCbc => if c_alg c =? alg3DES then 2 else 3
                | KAeadPrefix => 4 | KAeadXor => 5 end in
    (kind, match c_kind c with KCbc => c_read c | _ => false end, h_seq h,
     match h_mac h with Some _ => true | None => false end)
  end.
Definition hobs_eqb (a b : hobs) : bool :=
  let '(k1, d1, s1, m1) := a in let '(k2, d2, s2, m2) := b in
  (k1 =? k2) && Bool.eqb d1 d2 && (s1 =? s2) && Bool.eqb m1 m2.

Definition dummy_ms : bytes := repeat 7 48.
Definition dummy_r : bytes := repeat 9 32.
Definition rnd0 : N -> bytes := fun _ => zeros 16.

Definition forged (weak : bool) (version suite : N) (is_client : bool) : option conn :=
  match forge toy (tbl_of weak) version suite dummy_ms dummy_r dummy_r is_client with
  | Ok (Some c) => Some c
  | _ => None
  end.

(* write each chunk, collecting the wire *)
Fixpoint write_all (c : conn) (sizes : list N) (wire : bytes) : option bytes :=
  match sizes with
  | [] => Some wire
  | n :: r =>
    match conn_write toy c (zeros (N.to_nat n)) rnd0 with
    | Ok (w, _, c') => write_all c' r (wire ++ w)
    | _ => None
    end
  end.

Fixpoint parse_recs (fuel : nat) (wire : bytes) (gcm : bool) : list (N * N * N * bytes) :=
  match fuel with
  | O => []
  | S f =>
    match wire with
    | t :: v1 :: v2 :: l1 :: l2 :: body =>
      let n := l1 * 256 + l2 in
      (t, v1 * 256 + v2, n, if gcm then firstn 8 body else []) :: parse_recs f (skipn (N.to_nat n) body) gcm
    | _ => []
    end
  end.

Definition rec_eqb (a b : N * N * N * bytes) : bool :=
  let '(t1, v1, n1, e1) := a in let '(t2, v2, n2, e2) := b in
  (t1 =? t2) && (v1 =? v2) && (n1 =? n2) && bytes_eqb e1 e2.

Definition is_gcm (weak : bool) (suite : N) : bool :=
  match suite_by_id (tbl_of weak) suite with Some r => s_kind r =? 4 | None => false end.

Definition check (c : case) : bool :=
  match c with
  | CTable weak rows => list_eqb row_eqb rows (tbl_of weak)
  | CSupported weak version ids =>
    (* [ids] = every id among all 65536 for which the Go function returned non-nil (the sweep is done by
       the runner). The model returns a connection exactly for the ids of the table (Props/C27.v:
       C27_forge_unsupported, C27_forge_dir), so agreement on all 65536 ids is: ids and table ids are the
       same set, and the model evaluated on each of them yields a connection. *)
    let tids := map s_id (tbl_of weak) in
    forallb (fun id => existsb (N.eqb id) tids) ids && forallb (fun id => existsb (N.eqb id) ids) tids &&
    forallb (fun id => match forge toy (tbl_of weak) version id [] [] [] (N.even id) with
                       | Ok (Some _) => true | _ => false end) ids &&
    forallb (fun id => match forge toy (tbl_of weak) version id [] [] [] (N.even id) with
                       | Ok None => true | _ => false end)
            (filter (fun id => negb (existsb (N.eqb id) tids)) (flat_map (fun i => [i; i + 1; i + 256]) ids ++ [0; 1; 4865; 4866; 4867; 65535]))
  | CForge weak version suite cin cout sin sout =>
    match forged weak version suite true, forged weak version suite false with
    | Some c, Some s =>
      hobs_eqb (hobs_of (cn_in c)) cin && hobs_eqb (hobs_of (cn_out c)) cout &&
      hobs_eqb (hobs_of (cn_in s)) sin && hobs_eqb (hobs_of (cn_out s)) sout
    | _, _ => false
    end
  | CWire weak version suite is_client sizes recs =>
    match forged weak version suite is_client with
    | Some c =>
      match write_all c sizes [] with
      | Some wire => list_eqb rec_eqb (parse_recs (S (length recs)) wire (is_gcm weak suite)) recs
      | None => false
      end
    | None => false
    end
  end.

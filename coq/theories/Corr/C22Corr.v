(* Correspondence checker for C22: what the client was observed to do against the scripted server of /repo/verif_server.go
   (and what the unmarshalers / marshaler return through hooks/verif_c22.go, hooks/verif_c34.go) compared with Model/Alps.v,
   the FIXED code ([fixed = true]). *)
From UV Require Export Base.Common Model.Wire Model.RobustSrv Model.Alps.
Open Scope N_scope.

Inductive case :=
(* encryptedExtensionsMsg.unmarshal(data): returned ok; when ok the fields it left *)
| CEe (data : bytes) (ok : bool) (alpn : bytes) (cp : N) (settings : bytes) (early : bool) (quic ech : option bytes)
(* utlsClientEncryptedExtensionsMsg.marshal with settings ++ pad zero bytes: None = error, Some (head, padded) = the output is
   head (followed by the pad zero bytes when padded) *)
| CCeeM (cp : N) (settings : bytes) (pad : N) (custom : bytes) (o : option (bytes * bool))
(* utlsClientEncryptedExtensionsMsg.unmarshal of a client EncryptedExtensions captured by the server *)
| CCeeU (data : bytes) (o : option (N * bytes))
(* one TLS 1.3 handshake: the client's offered ALPN list and Config.ApplicationSettings, the server's EncryptedExtensions
   plaintext; observed: handshake completed, alert the client sent (255 none), ConnectionState.PeerApplicationSettings,
   NegotiatedProtocol, the client's EncryptedExtensions as read by the server (None = the next client message was not one),
   whether the connection was resumed with a PSK *)
| CRun (offered : list bytes) (settings : list (bytes * bytes)) (ee : bytes)
       (completed : bool) (alert : N) (peer proto : bytes) (cee : option bytes) (resumed : bool)
(* a completed TLS 1.3 handshake in which the server sent ALPS on code point cp and the client sent ncert certificate messages
   (0 without a CertificateRequest, 1 = empty Certificate, 2 = Certificate + CertificateVerify): the handshake type of the first
   message of the client's second flight as the server met it right after its own Finished *)
| CFlight (cp ncert first : N)
(* one TLS <= 1.2 handshake against a server whose ServerHello carried an ALPS extension *)
| CRun12 (vers : N) (completed : bool) (peer : bytes) (cee : option bytes).

Definition opt_bytes_eqb (a b : option bytes) : bool :=
  match a, b with Some x, Some y => bytes_eqb x y | None, None => true | _, _ => false end.
Definition zeros (n : N) : bytes := repeat 0 (N.to_nat n).

Definition check (c : case) : bool :=
  match c with
  | CEe data ok alpn cp settings early quic ech =>
      match ee_unmarshal data with
      | Ok (Some m) => ok && bytes_eqb (ee_alpn m) alpn && (ee_cp m =? cp) && bytes_eqb (ee_alps m) settings
                       && Bool.eqb (ee_early m) early && opt_bytes_eqb (ee_quic m) quic && opt_bytes_eqb (ee_ech m) ech
      | Ok None => negb ok
      | _ => false end
  | CCeeM cp settings pad custom o =>
      match cee_marshal cp (settings ++ zeros pad) custom, o with
      | Ok b, Some (head, padded) => bytes_eqb b (if padded then head ++ zeros pad else head)
      | Err _, None => true
      | _, _ => false end
  | CCeeU data o =>
      match cee_unmarshal data, o with
      | Ok (Some r), Some (cp, s) => (ee_codepoint r =? cp) && bytes_eqb (ee_settings r) s
      | Ok None, None => true
      | _, _ => false end
  | CRun offered settings ee completed alert peer proto cee resumed =>
      match client_read_ee_conn resumed true (mkClient V13 offered settings []) ee with
      | Ok st =>
          match send_client_ee st with
          | Ok l => completed && bytes_eqb peer (st_peer st) && bytes_eqb proto (st_proto st)
                    && opt_bytes_eqb cee (match l with [m] => Some m | _ => None end)
          | _ => negb completed end
      | Err a => negb completed && (alert =? a)
      | Panic _ => false end
  | CFlight cp ncert first =>
      match client_flight (fun _ => []) [] (mkSt [] [] cp []) (repeat [11; 0; 0; 0] (N.to_nat ncert)) with
      | Ok (m :: _, _) => nth 0 m 255 =? first
      | _ => false end
  | CRun12 vers completed peer cee =>
      (vers <? V13) && (negb completed ||
        let st := sh12_alps_state [] None in
        bytes_eqb peer (st_peer st) && opt_bytes_eqb cee (match send_client_ee st with Ok [m] => Some m | _ => None end))
  end.

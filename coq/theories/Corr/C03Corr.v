(* Correspondence checker and property oracle for C03.
   CHello : a ClientHello produced by the real code for a predefined ClientHelloID
            (UClient(id) + BuildHandshakeState). [check] parses Hello.Raw with the strict
            parser and applies the property oracle ast_matches_specb against the
            REGENERATED table Gen/Parrots.v (oracle case).
   CBuild : UTLSIdToSpec(id) + ApplyPreset + MarshalClientHello on a HelloCustom UConn.
            The model [build] is given the spec (as a rearrangement of the table entry),
            the Config fields and the per-connection randomness recovered from the run
            (GREASE seed from the recording Config.Rand; random, session id, key shares,
            ECH draws cut out of the observed bytes) and must return Hello.Raw byte for byte.
   CShuffle : the real ShuffleChromeTLSExtensions on a generated list; swap calls
            recomputed from the seed the function drew; the model must give the same order.
   CDraw  : one more UTLSIdToSpec(id) result against the table entry (draw_ok); also used for the specs
            obtained while crypto/rand.Reader is made to fail.
   CShufflePost : shuffle under an entropy fault, against the proven postcondition.
   The cfg of CHello/CBuild carries the caller's Config.MinVersion/MaxVersion/NextProtos: the oracle and the
   model ignore them, i.e. the wire must not depend on them. *)
From Coq Require Export Uint63.
From UV Require Export Base.Common Model.Wire Model.Ext Model.ExtSpec Model.Shuffle Model.Preset Model.ParrotSpec.
From UV Require Gen.Parrots.

(* compact byte strings (same packing as Corr/C05Corr.v): 7 bytes per primitive integer *)
Fixpoint hx_go (k : nat) (x : N) (acc : bytes) : bytes :=
  match k with
  | O => acc
  | S k' => hx_go k' (N.shiftr x 8) (N.land x 255 :: acc)
  end.
Definition hx (n : N) (x : N) : bytes := hx_go (N.to_nat n) x [].
Definition w2n (w : Uint63.int) : N := Z.to_N (Uint63.to_Z w).
Fixpoint pk (n : N) (ws : list Uint63.int) : bytes :=
  match ws with
  | [] => []
  | w :: ws' => let k := N.min 7 n in hx k (w2n w) ++ pk (n - k) ws'
  end.

Definition find_parrot (name : bytes) : option parrot :=
  find (fun p => bytes_eqb (p_name p) name) Parrots.all.

(* (offset, length) into the observed bytes *)
Definition cut (data : bytes) (ol : N * N) : bytes :=
  firstn (N.to_nat (snd ol)) (skipn (N.to_nat (fst ol)) data).

Record cech := { ce_cfg_byte : N; ce_suite_idx : nat; ce_enc : N * N; ce_plen_idx : nat; ce_payload : N * N }.

Inductive case :=
| CHello (name : bytes) (c : cfg) (datalen : N) (data : list Uint63.int)
| CBuild (name : bytes) (c : cfg) (perm : list nat) (grease : bytes)
         (keys : list (N * N)) (echs : list cech)
         (ok : bool) (datalen : N) (data : list Uint63.int)
| CShuffle (fixed : list bool) (swaps : list (nat * nat)) (panicked : bool) (result : list nat)
| CDraw (name : bytes) (draw : list sext)
(* ShuffleChromeTLSExtensions with crypto/rand.Reader failing: the swap calls come from the global math/rand and
   cannot be recovered; [check] applies the postcondition C03_shuffle proves for EVERY swap list. *)
| CShufflePost (fixed : list bool) (result : list nat).

Definition permuted (l : list sext) (perm : list nat) : list sext :=
  map (fun i => nth i l (SExt ESCT)) perm.

Definition is_perm (n : nat) (perm : list nat) : bool :=
  (length perm =? n)%nat && forallb (fun i => existsb (Nat.eqb i) perm) (seq 0 n).

Definition check (c : case) : bool :=
  match c with
  | CHello name c datalen dataw =>
      match find_parrot name, parse_hello (pk datalen dataw) with
      | Some p, Some a => ast_matches_specb a p c
      | _, _ => false
      end
  | CBuild name c perm grease keys echs ok datalen dataw =>
      match find_parrot name with
      | None => false
      | Some p =>
        let data := pk datalen dataw in
        let sp0 := p_spec p in
        let sp := {| sp_min := sp_min sp0; sp_max := sp_max sp0; sp_suites := sp_suites sp0;
                     sp_comp := sp_comp sp0; sp_exts := permuted (sp_exts sp0) perm |} in
        let fr := {| f_random := cut data (6, 32); f_grease := grease; f_sid := cut data (39, 32);
                     f_keys := map (cut data) keys;
                     f_ech := map (fun e => {| ed_cfg_idx := 0; ed_cfg_byte := ce_cfg_byte e;
                                               ed_suite_idx := ce_suite_idx e; ed_enc := cut data (ce_enc e);
                                               ed_plen_idx := ce_plen_idx e; ed_payload := cut data (ce_payload e) |}) echs |} in
        is_perm (length (sp_exts sp0)) perm &&
        (* the premise of C03_generic_exts holds on this connection *)
        match apply_preset sp c fr with
        | Ok he => negb ok || forallb wf_ext (snd he)
        | _ => true
        end &&
        match build sp c fr with
        | Ok b => ok && bytes_eqb b data
        | Err _ => negb ok
        | Panic _ => false
        end &&
        (* the link the proofs leave to correspondence: strict parse of the bytes = the (type, body) list
           of the model's extension values (padding in the state the wire shows), and the conclusion of
           C03_generic evaluated on the parsed bytes against this connection's own spec order *)
        (negb ok ||
         match apply_preset sp c fr, parse_hello data with
         | Ok he, Some a =>
             let pad := find (fun w => fst w =? ID_PADDING) (a_exts a) in
             let es := map (match pad with Some w => set_pad (blen (snd w)) true | None => set_pad 0 false end) (snd he) in
             list_eqb (fun x y => (fst x =? fst y) && bytes_eqb (snd x) (snd y)) (a_exts a) (wire_of es)
             && ast_matches_specb a {| p_name := name; p_spec := sp; p_shuffles := false |} c
         | _, _ => false
         end)
      end
  | CShuffle fixed swaps panicked result =>
      let l := combine (seq 0 (length fixed)) fixed in
      match shuffle (fun x : nat * bool => snd x) swaps l with
      | Ok l' => negb panicked && list_eqb Nat.eqb (map fst l') result
      | Panic _ => panicked
      | Err _ => false
      end
  | CShufflePost fixed result =>
      is_perm (length fixed) result &&
      list_match (fun (i : nat) (r : nat) => if nth i fixed false || nth r fixed false then Nat.eqb i r else true)
                 (seq 0 (length fixed)) result
  | CDraw name d =>
      match find_parrot name with
      | Some p => draw_ok (sp_exts (p_spec p)) d && (p_shuffles p || list_eqb sext_eqb (sp_exts (p_spec p)) d)
      | None => false
      end
  end.

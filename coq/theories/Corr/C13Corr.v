(* C13 correspondence: (a) per parrot (instance table over the real specs), the hello's own version list
   equals what went on the wire - the premise of the C13 theorems; (b) the client's observed decision on a
   scripted server flight equals client_run. The boolean pair returned by [inst_info] (configured range within the
   advertised set, configured maximum 1.3 when the wire offers 1.3) names the specs that needed the repair. *)
From UV Require Export Base.Common Model.Negotiate Proofs.NegotiateP Corr.NegotiateObs.

Inductive case :=
| CInst (v : client_view) (specmin : N) (w : wire_view)
| CVers (v : client_view) (specmin : N) (w : wire_view) (fl : flight) (o : observed).

Definition inst_info (v : client_view) (specmin : N) (w : wire_view) : bool * bool :=
  (versions_consistent v specmin w, canary_consistent v w).

Definition check (c : case) : bool :=
  match c with
  | CInst v m w => versions_synced v m w
  | CVers v m w fl o => versions_synced v m w && matches (client_run v fl) o
  end.

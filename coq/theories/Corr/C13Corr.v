(* C13 correspondence: (a) per client (instance table over the real specs), NegotiateVersP.versions_ok: the hello's own
   version list equals what went on the wire, or - no supported_versions extension - it is the accepted versions up to
   legacy_version (premise of C13_version_advertised / NegotiateVersP.version_fixed_ok / NegotiateSessP.version_sess_ok;
   proved from the writeToUConn/ApplyConfig model in Proofs/ComposeP.v, still checked here on the real code); (b) the client's observed decision on a
   scripted server flight equals client_run. The boolean pair returned by [inst_info] (configured range within the
   advertised set, configured maximum 1.3 when the wire offers 1.3) names the specs that needed the repair. *)
From UV Require Export Base.Common Model.Negotiate Model.NegotiateSess Proofs.NegotiateP Proofs.NegotiateVersP Corr.NegotiateObs.

Inductive case :=
| CInst (v : client_view) (specmin : N) (w : wire_view)
| CVers (v : client_view) (specmin : N) (w : wire_view) (fl : flight) (o : observed)
(* second connection of a history: the hello offers the TLS <= 1.2 session cached by the first connection;
   sh_ems = the ServerHello carries extended_master_secret; resumed = ConnectionState.DidResume *)
| CHist (v : client_view) (specmin : N) (w : wire_view) (sess : option session12) (sh_ems : bool)
        (fl : flight) (o : observed) (resumed : bool).

Definition inst_info (v : client_view) (specmin : N) (w : wire_view) : bool * bool :=
  (versions_consistent v specmin w, canary_consistent v w).

Definition check (c : case) : bool :=
  match c with
  | CInst v m w => versions_ok v m w
  | CVers v m w fl o => versions_ok v m w && matches (client_run v fl) o
  | CHist v m w sess ems fl o resumed =>
      versions_ok v m w && matches (client_run_sess env_fixed v sess ems fl) o
      && implb (o_complete o) (Bool.eqb resumed (did_resume env_fixed v sess fl))
  end.

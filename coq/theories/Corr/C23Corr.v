(* C23 correspondence: an observed sequence of UQUICConn API calls with their results must be a behaviour of
   Model/Quic.v (repaired code: early_closes = true) for the script reconstructed from the events the calls
   produced; observed event sequences must satisfy the order predicate proved for the model. *)
From UV Require Export Base.Common Model.Quic.

Inductive call := KStart | KHandleData | KWrongLevel | KSetTP | KClose | KNextEvent | KCancel.

Inductive case :=
| CTrace (mv tp : bool) (b : list act) (bok : bool) (h : list act) (hok : bool) (obs : list (call * ret))
| COrder (t : list event) (completed : bool)
| CHello (quic : bool) (sid_len : N) (ccs_records : N).

Definition opt_event_eqb (a b : option event) : bool :=
  match a, b with
  | None, None => true
  | Some x, Some y => event_eqb x y
  | _, _ => false
  end.
Definition ret_eqb (a b : ret) : bool :=
  match a, b with
  | RNil, RNil | RErr, RErr => true
  | REvent x, REvent y => opt_event_eqb x y
  | _, _ => false
  end.

(* internal steps in scheduling priority: the goroutine runs until it blocks or ends, then joint steps, then the caller.
   Return values do not depend on this order; the only real choice is a select with cancelc ready. *)
Definition prio : list label :=
  [LGInit; LGAct; LGEnd; LGErrTail; LGEarly; LGClose1; LGClose2; LGRet; LSyncBlk; LSyncSig; LRecvClosed; LLock].

Fixpoint first_enabled (s : state) (ls : list label) : option (state * option ret) :=
  match ls with
  | [] => None
  | l :: r => match step s l with Some x => Some x | None => first_enabled s r end
  end.

(* all (state, result) pairs with which the current call can return *)
Fixpoint settle (fuel : nat) (s : state) : list (state * ret) :=
  match fuel with
  | O => []
  | S f =>
      let viaCancel :=
        match step s LGCancelSeen with
        | Some (s', Some r) => [(s', r)]
        | Some (s', None) => settle f s'
        | None => []
        end in
      let viaPrio :=
        match first_enabled s prio with
        | Some (s', Some r) => [(s', r)]
        | Some (s', None) => settle f s'
        | None => []
        end in
      viaPrio ++ viaCancel
  end.

Definition label_of (k : call) : label :=
  match k with
  | KStart => LStart | KHandleData => LHandleData | KWrongLevel => LHandleDataWrongLevel
  | KSetTP => LSetTP | KClose => LClose | KNextEvent => LNextEvent | KCancel => LCtxCancel
  end.

Fixpoint accepts (fuel : nat) (s : state) (obs : list (call * ret)) : bool :=
  match obs with
  | [] => true
  | (k, r) :: rest =>
      match step s (label_of k) with
      | None => false
      | Some (s', Some r') => ret_eqb r r' && accepts fuel s' rest
      | Some (s', None) =>
          match k with
          | KCancel => accepts fuel s' rest
          | _ => existsb (fun x => ret_eqb r (snd x) && accepts fuel (fst x) rest) (settle fuel s')
          end
      end
  end.

Definition check (c : case) : bool :=
  match c with
  | CTrace mv tp b bok h hok obs =>
      accepts (4 * (length b + length h) + 40) (init true mv tp b bok h hok) obs
  | COrder t completed => order_ok t && (negb completed || complete_ok t)
  | CHello quic sid_len ccs =>
      (N.of_nat (length (preset_session_id quic (repeat 0 32))) =? sid_len) && (N.of_nat (ccs_written quic false 2) =? ccs)
  end.

From UV Require Export Base.Common Model.Lru.
(* one case = capacity, history, the Get results the Go cache returned *)
Inductive case := CHist (capacity : Z) (ops : list op) (observed : list (option (option N))).

Definition oo_eqb (a b : option (option N)) : bool :=
  match a, b with
  | None, None => true
  | Some None, Some None => true
  | Some (Some x), Some (Some y) => x =? y
  | _, _ => false
  end.

Definition check (c : case) : bool :=
  match c with
  | CHist n ops obs => list_eqb oo_eqb (run (new_lru n) ops) obs
  end.

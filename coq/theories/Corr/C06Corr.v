(* Correspondence / oracle checker for C06. Reuses the observation type and the
   spec comparison of Corr/C07Corr.v (same importer model). *)
From UV Require Export Corr.C07Corr.
Open Scope N_scope.
Open Scope list_scope.

Inductive case :=
(* Fingerprinter{blunt, always, real}.FingerprintClientHello(raw) on a hello the code itself
   regenerated from a fingerprint: model vs implementation *)
| CFp (blunt always real : bool) (raw : bytes) (o : sobs)
(* oracle (sound by C06_fp_idempotent): the captured hello raw1 and the hello raw2 regenerated from
   its fingerprint must fingerprint, in the model, to the same suites, compression methods, version
   bounds and extensions (ECH-GREASE bytes masked); the recorded padding target may differ *)
| CIdem (blunt always real : bool) (raw1 raw2 : bytes).

Definition same_fp (a b : spec) : bool :=
  list_eqb N.eqb (sp_suites a) (sp_suites b) && bytes_eqb (sp_comp a) (sp_comp b)
  && exts_eqb (sp_exts a) (sp_exts b) && (sp_vmin a =? sp_vmin b) && (sp_vmax a =? sp_vmax b).

Definition check (c : case) : bool :=
  match c with
  | CFp blunt always real raw o =>
      matches (fingerprint {| f_blunt := blunt; f_always_pad := always; f_real_psk := real |} raw) o
  | CIdem blunt always real raw1 raw2 =>
      let f := {| f_blunt := blunt; f_always_pad := always; f_real_psk := real |} in
      match fingerprint f raw1, fingerprint f raw2 with
      | Ok s1, Ok s2 => same_fp s1 s2
      | _, _ => false
      end
  end.

(* Correspondence checker for C04: what the Go code produced (recorded in the
   case) against Model/Grease.v. Randomness is part of the case: the 10 bytes
   ApplyPreset read from Config.Rand, the value crypto/rand.Int returned. *)
From UV Require Export Base.Common Model.Grease.

Definition nlist_eqb := list_eqb N.eqb.

Definition ext_eqb (a b : ext) : bool :=
  match a, b with
  | XGrease v x, XGrease w y => (v =? w) && nlist_eqb x y
  | XCurves l, XCurves m => nlist_eqb l m
  | XKeyShare l, XKeyShare m => nlist_eqb l m
  | XVersions l, XVersions m => nlist_eqb l m
  | XSigAlgs l, XSigAlgs m => nlist_eqb l m
  | XOther i, XOther j => i =? j
  | _, _ => false
  end.

Definition all_u16 : list N := flat_map (fun h => map (fun l => 256 * h + l) (nrange 256)) (nrange 256).

Inductive case :=
(* GetBoringGREASEValue(seed, idx) for an arbitrary 5-word seed; got = None: it panicked *)
| CBoring (sd : list N) (idx : nat) (got : option N)
(* batch: seed word s placed at index idx (other words random) -> value *)
| CWords (idx : nat) (l : list (N * N))
(* every uint16 that ApplyPreset treated as GREASE when it stood in CipherSuites (ascending) *)
| CIsGrease (treated : list N)
(* ApplyPreset + marshal: seed bytes, GREASE view of the spec, GREASE view of the wire hello; None = error *)
| CPreset (gb : bytes) (suites : list N) (exts : list ext) (got : option (list N * list ext))
(* batch over connections of a parrot: seed bytes, slot values seen on the wire
   [cipher; group; ext1; ext2; version], None = the hello has no such position *)
| CSlots (l : list (bytes * list (option N)))
(* GetGREASEID: k = value crypto/rand.Int returned (None: it failed) -> id *)
| CQuicIds (l : list (option N * N))
(* GREASETransportParameter.ID with IdOverride *)
| CTpId (id_override : N) (draw : option N) (got : N)
(* batch of the same: boundary overrides (0..64, around 2^62, 2^63, 2^64), through ID() and Marshal *)
| CTpIds (l : list (N * option N * N))
(* IsGREASEID on boundary ids: (id, answer) *)
| CIsGreaseIds (l : list (N * bool))
(* GetGREASEVersion *)
| CQuicVersions (l : list (option N * N))
(* VersionInformation.Value: AvailableVersions, the draws consumed, the uint32s emitted after ChoosenVersion *)
| CVersionInfo (avail : list N) (draws : list (option N)) (got : list N).

Definition slot_matches (gb : bytes) (idx : nat) (o : option N) : bool :=
  match o with
  | None => true
  | Some v => match slot gb idx with Ok w => v =? w | _ => false end
  end.

Definition check (c : case) : bool :=
  match c with
  | CBoring sd idx got =>
      match boring_grease sd idx, got with
      | Ok v, Some g => v =? g
      | Panic _, None => true
      | _, _ => false
      end
  | CWords idx l =>
      forallb (fun p => match boring_grease (firstn idx [0;0;0;0;0] ++ fst p :: skipn (S idx) [0;0;0;0;0]) idx with
                        | Ok v => v =? snd p | _ => false end) l
  | CIsGrease treated => nlist_eqb treated (filter is_grease all_u16)
  | CPreset gb suites exts got =>
      match apply_preset_grease gb suites exts, got with
      | Ok (s, e), Some (s', e') => nlist_eqb s s' && list_eqb ext_eqb e e'
      | Err _, None => true
      | _, _ => false
      end
  | CSlots l =>
      forallb (fun p =>
        match snd p with
        | [c; g; e1; e2; v] =>
            slot_matches (fst p) ssl_grease_cipher c && slot_matches (fst p) ssl_grease_group g &&
            slot_matches (fst p) ssl_grease_extension1 e1 && slot_matches (fst p) ssl_grease_extension2 e2 &&
            slot_matches (fst p) ssl_grease_version v
        | _ => false
        end) l
  | CQuicIds l => forallb (fun p => grease_id (fst p) =? snd p) l
  | CTpId o d got => tp_grease_id o d =? got
  | CTpIds l => forallb (fun p => tp_grease_id (fst (fst p)) (snd (fst p)) =? snd p) l
  | CIsGreaseIds l => forallb (fun p => Bool.eqb (is_grease_id (fst p)) (snd p)) l
  | CQuicVersions l => forallb (fun p => grease_version (fst p) =? snd p) l
  | CVersionInfo avail draws got => nlist_eqb (vi_versions avail draws) got
  end.

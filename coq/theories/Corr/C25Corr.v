(* C25 correspondence: the framing of everything a uTLS client writes after the handshake — for a
   sequence of Write calls of given sizes and KeyUpdate messages, the type, record version, length and
   (TLS 1.2 GCM) explicit nonce of every record on the wire, incl. dynamic record sizing, the TLS 1.0
   1/n-1 split, CBC padding arithmetic and the TLS 1.3 inner content type. Toy primitives: only lengths,
   nonces and sequence numbers are compared; ciphertext is opaque. *)
From UV Require Export Base.Common Model.Record Model.Forge.
Open Scope N_scope.

Inductive case :=
| CStream (vers kind macsize suite bytes_sent seq : N) (ops : list (N * N)) (recs : list (N * N * N * bytes))
(* a peer sends the pattern (0 = zero-length application data record, n = write of n bytes); the reader
   delivered [delivered] bytes and did / did not end with an error other than EOF *)
| CEmpty (vers kind macsize : N) (pattern : list N) (delivered : N) (errored : bool).

Definition model_conn (vers kind macsize suite bytes_sent seq : N) : conn :=
  let ci :=
    if kind =? 1 then mkCipher KStream algRC4 (zeros 16) [] false 0 0
    else if kind =? 2 then mkCipher KCbc alg3DES (zeros 24) (zeros 8) false 0 8
    else if kind =? 3 then mkCipher KCbc algAES (zeros 16) (zeros 16) false 0 16
    else if kind =? 4 then mkCipher KAeadPrefix algGCM (zeros 16) (zeros 4) false 0 0
    else mkCipher KAeadXor algCHACHA (zeros 32) (zeros 12) false 0 0 in
  let m := if (kind =? 4) || (kind =? 5) then None else Some (mkMac (mac_alg_of_size (N.to_nat macsize)) (zeros 20)) in
  mkConn vers true suite half0 (mkHalf vers (Some ci) m seq None None []) [] [] 0 bytes_sent 0 false.

Definition rnd0 : N -> bytes := fun _ => zeros 16.

Fixpoint run_ops (c : conn) (ops : list (N * N)) (wire : bytes) : option bytes :=
  match ops with
  | [] => Some wire
  | (k, x) :: r =>
    if k =? 0 then
      match conn_write toy c (zeros (N.to_nat x)) rnd0 with
      | Ok (w, _, c') => run_ops c' r (wire ++ w)
      | _ => None
      end
    else
      match send_key_update toy c (x =? 1) rnd0 with
      | Ok (w, c') => run_ops c' r (wire ++ w)
      | _ => None
      end
  end.

Fixpoint parse_recs (fuel : nat) (wire : bytes) (gcm : bool) : list (N * N * N * bytes) :=
  match fuel with
  | O => []
  | S f =>
    match wire with
    | t :: v1 :: v2 :: l1 :: l2 :: body =>
      let n := l1 * 256 + l2 in
      (t, v1 * 256 + v2, n, if gcm then firstn 8 body else []) :: parse_recs f (skipn (N.to_nat n) body) gcm
    | _ => []
    end
  end.

Definition rec_eqb (a b : N * N * N * bytes) : bool :=
  let '(t1, v1, n1, e1) := a in let '(t2, v2, n2, e2) := b in
  (t1 =? t2) && (v1 =? v2) && (n1 =? n2) && bytes_eqb e1 e2.

(* the reader matching [model_conn]: same keys, CBC built for reading *)
Definition reader_of (c : conn) : conn :=
  let o := cn_out c in
  let ci := match h_cipher o with
            | Some x => Some (mkCipher (c_kind x) (c_alg x) (c_key x) (c_iv x) true (c_pos x) (c_bs x))
            | None => None end in
  mkConn (cn_vers c) true (cn_suite c) (mkHalf (h_vers o) ci (h_mac o) (h_seq o) None None (h_secret o)) half0
         [] [] 0 0 0 false.

(* the peer's stream: conn_write for data, one sealed record with empty payload for 0
   (what hooks/verif_c28.go VerifWriteEmptyRecord does) *)
Fixpoint pattern_wire (c : conn) (pat : list N) (wire : bytes) : option bytes :=
  match pat with
  | [] => Some wire
  | n :: r =>
    if n =? 0 then
      let v := wire_vers (cn_vers c) in
      match encrypt toy (cn_out c) [rtAppData; (v / 256) mod 256; v mod 256; 0; 0] [] (zeros 16) with
      | Ok (rec, o) => pattern_wire (with_out c o (cn_bytesSent c + len rec) (cn_packetsSent c)) r (wire ++ rec)
      | _ => None
      end
    else
      match conn_write toy c (zeros (N.to_nat n)) rnd0 with
      | Ok (w, _, c') => pattern_wire c' r (wire ++ w)
      | _ => None
      end
  end.

(* Read with a 4096-byte buffer until the call blocks (end of the stream) or fails *)
Fixpoint read_all (fuel : nat) (c : conn) (wire : bytes) (got : N) : N * bool :=
  match fuel with
  | O => (got, true)
  | S f =>
    match conn_read toy c wire 4096 rnd0 with
    | Ok (Some d, c', wire', _) => read_all f c' wire' (got + len d)
    | Ok (None, _, _, _) => (got, false)
    | _ => (got, true)
    end
  end.

Definition check (c : case) : bool :=
  match c with
  | CStream vers kind macsize suite bytes_sent seq ops recs =>
    match run_ops (model_conn vers kind macsize suite bytes_sent seq) ops [] with
    | Some wire => list_eqb rec_eqb (parse_recs (S (length recs)) wire (kind =? 4)) recs
    | None => false
    end
  | CEmpty vers kind macsize pattern delivered errored =>
    let tx := model_conn vers kind macsize 4865 0 1 in
    match pattern_wire tx pattern [] with
    | Some wire =>
      let '(got, err) := read_all (2 + 2 * length pattern) (reader_of tx) wire 0 in
      (got =? delivered) && Bool.eqb err errored
    | None => false
    end
  end.

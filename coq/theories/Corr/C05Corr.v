(* Correspondence checker for C05.  A case carries the header fields and the
   extension list of a real UConn as the runner found them right after
   BuildHandshakeState (non-padding extensions as the fixed bytes they emitted,
   the padding extension as its functor), and what MarshalClientHello produced
   (Hello.Raw, or an error).  [check] recomputes the whole handshake message
   with the model — lengths, length prefixes, the Update argument, the padding
   decision, the padding bytes out of the zeroed bufio buffer — and compares
   byte for byte. *)
From UV Require Export Base.Common Model.Padding Model.Marshal.

(* Compact byte-string literals for the case files: [hx n x] is the n-byte
   big-endian representation of x (the runner writes x as one hexadecimal
   numeral; parsing a list of a thousand numerals per case is far slower). *)
Fixpoint hx_go (k : nat) (x : N) (acc : bytes) : bytes :=
  match k with
  | O => acc
  | S k' => hx_go k' (N.shiftr x 8) (N.land x 255 :: acc)
  end.
Definition hx (n : N) (x : N) : bytes := hx_go (N.to_nat n) x [].

Inductive cpol :=
| CPNone                       (* GetPaddingLen == nil *)
| CPBoring                     (* BoringPaddingStyle *)
| CPAlways (n : Z).            (* AlwaysPadToLen(n) *)

Inductive citem :=
| CFixed (psk : bool) (body : bytes)           (* extension that emitted exactly [body] (may be empty) *)
| CPad (pol : cpol) (plen : N) (will : bool).  (* padding extension: functor and state BEFORE the call *)

Inductive obs := OBytes (b : bytes) | OErr.

Inductive case :=
| CMarshal (vers : N) (random sid : bytes) (suites : list N) (comp : bytes)
           (items : list citem) (o : obs)
  (* spec obtained by FromRaw from a capture of [rawlen] bytes (record header
     included); the items are the extensions of the re-applied spec with the
     padding extension as FromRaw's parser left it; the model installs the policy *)
| CFromRaw (rawlen : N) (vers : N) (random sid : bytes) (suites : list N) (comp : bytes)
           (items : list citem) (o : obs).

Definition pol_of (p : cpol) : pad_policy :=
  match p with CPNone => PolNone | CPBoring => PolBoring | CPAlways n => PolAlways n end.

Definition aext_of (i : citem) : aext :=
  match i with
  | CFixed psk body => fixed_ext psk body
  | CPad pol l w => APad (pol_of pol) {| p_len := l; p_will := w |}
  end.

(* spare capacity of the bytes.Buffer: Go guarantees at least MinRead *)
Definition bbs512 : N -> N := fun _ => 512.

Definition obs_matches (r : res bytes) (o : obs) : bool :=
  match r, o with
  | Ok b, OBytes b' => bytes_eqb b b'
  | Err _, OErr => true
  | _, _ => false
  end.

Definition mk_hdr vers random sid suites comp : hello_hdr :=
  {| h_vers := vers; h_random := random; h_sid := sid; h_suites := suites; h_comp := comp |}.

Definition check (c : case) : bool :=
  match c with
  | CMarshal vers random sid suites comp items o =>
      obs_matches (marshal_client_hello bbs512 (mk_hdr vers random sid suites comp) (map aext_of items)) o
  | CFromRaw rawlen vers random sid suites comp items o =>
      obs_matches (marshal_client_hello bbs512 (mk_hdr vers random sid suites comp)
                     (from_raw_install rawlen (map aext_of items))) o
  end.

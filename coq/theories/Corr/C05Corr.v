(* Correspondence checker for C05.  A case carries the header fields and the
   extension list of a real UConn as the runner found them right after
   BuildHandshakeState (non-padding extensions as the fixed bytes they emitted,
   the padding extension as its functor), and what MarshalClientHello produced
   (Hello.Raw, or an error).  [check] recomputes the whole handshake message
   with the model — lengths, length prefixes, the Update argument, the padding
   decision, the padding bytes out of the zeroed bufio buffer — and compares
   byte for byte. *)
From Coq Require Export Uint63.
From UV Require Export Base.Common Model.Padding Model.Marshal.

(* Compact byte-string literals for the case files.  Coq spends ~0.2 ms per
   literal of a list whatever its type, so the runner packs 7 bytes into one
   primitive-integer literal: [pk n ws] is the n-byte string whose successive
   7-byte groups (the last one shorter) are the big-endian words ws. *)
Fixpoint hx_go (k : nat) (x : N) (acc : bytes) : bytes :=
  match k with
  | O => acc
  | S k' => hx_go k' (N.shiftr x 8) (N.land x 255 :: acc)
  end.
Definition hx (n : N) (x : N) : bytes := hx_go (N.to_nat n) x [].
Definition w2n (w : Uint63.int) : N := Z.to_N (Uint63.to_Z w).
Fixpoint pk (n : N) (ws : list Uint63.int) : bytes :=
  match ws with
  | [] => []
  | w :: ws' => let k := N.min 7 n in hx k (w2n w) ++ pk (n - k) ws'
  end.

(* Every number in a case is a primitive integer (N numerals of more than a
   few digits cost milliseconds each to parse). *)
Inductive cpol :=
| CPNone                                 (* GetPaddingLen == nil *)
| CPBoring                               (* BoringPaddingStyle *)
| CPAlways (neg : bool) (n : Uint63.int). (* AlwaysPadToLen(n), or AlwaysPadToLen(-n) when neg *)

(* To keep the case files small the bytes are given ONCE: [data] is the
   observed Hello.Raw, and the variable-size inputs of the model (random,
   session id, the bytes each non-padding extension emitted) are cut out of it
   at the offsets implied by the lengths the runner read from the UConn
   (len(SessionId), ext.Len(), the padding extension's Len() after the call).
   The model then recomputes the whole message from these pieces and must
   return [data] itself: any wrong length prefix, padding decision or padding
   byte in the implementation's output makes the comparison fail.  When the
   implementation returned an error there is no Raw; the runner lays the pieces
   out in the same arrangement (extensions read through their own Read). *)
Inductive citem :=
| CFixed (psk : bool) (n : Uint63.int)         (* extension with Len() = n; emitted bytes are in [data] *)
| CPad (pol : cpol) (plen : Uint63.int) (will : bool)   (* padding extension: functor and state BEFORE the call, *)
       (obslen : Uint63.int)                   (*   and its Len() AFTER the call *)
| CAdded (obslen : Uint63.int).                (* the padding extension AlwaysAddPadding appended/inserted: NOT an
                                                  input of the model, which must put one at this very position *)

Inductive case :=
| CM (fromraw : option Uint63.int)
                            (* Some n: spec obtained by FromRaw from a capture of n bytes (record header
                               included); the model installs the policy on the first padding extension *)
     (addpad : bool)        (* Fingerprinter.AlwaysAddPadding: the model applies always_add_padding after FromRaw *)
     (vers : Uint63.int) (sidlen : Uint63.int) (suites : list Uint63.int) (comp : list Uint63.int)
     (items : list citem)
     (ok : bool)            (* MarshalClientHello succeeded and [data] is Hello.Raw *)
     (datalen : Uint63.int) (data : list Uint63.int).   (* [data] = pk datalen data *)

Definition pol_of (p : cpol) : pad_policy :=
  match p with
  | CPNone => PolNone
  | CPBoring => PolBoring
  | CPAlways neg n => PolAlways (if neg then (- Uint63.to_Z n)%Z else Uint63.to_Z n)
  end.

Fixpoint cut_items (items : list citem) (b : bytes) : list aext :=
  match items with
  | [] => []
  | CFixed psk n :: r => fixed_ext psk (take (w2n n) b) :: cut_items r (drop (w2n n) b)
  | CPad pol l w obs :: r =>
      APad (pol_of pol) {| p_len := w2n l; p_will := w |} :: cut_items r (drop (w2n obs) b)
  | CAdded obs :: r => cut_items r (drop (w2n obs) b)
  end.

(* where the runner saw the added padding extension / where the model has its (first) padding extension *)
Fixpoint added_index (items : list citem) : option nat :=
  match items with
  | [] => None
  | CAdded _ :: _ => Some O
  | _ :: r => option_map S (added_index r)
  end.
Fixpoint pad_index (es : list aext) : option nat :=
  match es with
  | [] => None
  | APad _ _ :: _ => Some O
  | _ :: r => option_map S (pad_index r)
  end.
Definition onat_eqb (a b : option nat) : bool :=
  match a, b with Some x, Some y => Nat.eqb x y | None, None => true | _, _ => false end.

(* spare capacity of the bytes.Buffer: Go guarantees at least MinRead *)
Definition bbs512 : N -> N := fun _ => 512.

Definition check (c : case) : bool :=
  match c with
  | CM fromraw addpad vers sidlen suites comp items ok datalen dataw =>
      let data := pk (w2n datalen) dataw in
      let random := take 32 (drop 6 data) in
      let sid := take (w2n sidlen) (drop 39 data) in
      let h := {| h_vers := w2n vers; h_random := random; h_sid := sid;
                  h_suites := map w2n suites; h_comp := map w2n comp |} in
      let block := drop (4 + header_length h + 2) data in
      let es0 := cut_items items block in
      let es1 := match fromraw with Some n => from_raw_install (w2n n) es0 | None => es0 end in
      let es := if addpad then always_add_padding es1 else es1 in
      (* a padding extension is added exactly when none was there, and at the observed position *)
      (match added_index items with
       | Some i => addpad && onat_eqb (pad_index es0) None && onat_eqb (pad_index es) (Some i)
       | None => negb addpad || negb (onat_eqb (pad_index es0) None) || onat_eqb (pad_index es) None
       end) &&
      match marshal_client_hello bbs512 h es with
      | Ok b => ok && bytes_eqb b data
      | Err _ => negb ok
      | Panic _ => false
      end
  end.

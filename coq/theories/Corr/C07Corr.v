(* Correspondence checker for C07: what the importers of /repo were observed to
   do on generated inputs, compared with Model/FromRaw.v, Model/Import.v and
   Model/Json.v (the latter instantiated with the dicttls tables of Gen/Dict.v). *)
From Coq Require Export String Uint63.
From UV Require Export Base.Common Model.Wire Model.Varint Model.Ext Model.FromRaw Model.Import Model.Json Model.SetVers.
From UV Require Import Model.Padding Model.Dicttls Gen.Dict.
Open Scope N_scope.
Open Scope list_scope.

(* Compact byte-string literals for the case files (as in Corr/C05Corr.v): [pk n ws] is the n-byte
   string whose successive 7-byte groups (the last one shorter) are the big-endian words ws. *)
Fixpoint hx_go (k : nat) (x : N) (acc : bytes) : bytes :=
  match k with
  | O => acc
  | S k' => hx_go k' (N.shiftr x 8) (N.land x 255 :: acc)
  end.
Definition hx (n : N) (x : N) : bytes := hx_go (N.to_nat n) x [].
Definition w2n (w : Uint63.int) : N := Z.to_N (Uint63.to_Z w).
Fixpoint pk (n : N) (ws : list Uint63.int) : bytes :=
  match ws with
  | [] => []
  | w :: ws' => let k := N.min 7 n in hx k (w2n w) ++ pk (n - k) ws'
  end.

(* what the importer returned: a spec (the fields it sets, extensions rendered by
   extcoq.ExtTerm, and GetPaddingLen(0) of the first padding extension whose functor
   is neither nil nor BoringPaddingStyle) | an error | it panicked *)
Inductive sobs :=
| SOk (suites : list N) (comp : bytes) (exts : list ext) (vmin vmax : N) (pad0 : option (N * bool))
| SErr
| SPanic.

(* what UConn.SetTLSVers did: Hello.SupportedVersions as (length, first four entries, last entry;
   the list has up to 65535 entries when min > max) | an error | it panicked *)
Inductive vobs := VOk (len : N) (head : list N) (lst : N) | VErr | VPanic.

Inductive case :=
(* UClient(HelloCustom).SetTLSVers(minV, maxV, exts) *)
| CSetVers (minV maxV : N) (exts : list ext) (o : vobs)
(* Fingerprinter{blunt, always, real}.FingerprintClientHello(raw) *)
| CRaw (blunt always real : bool) (raw : bytes) (o : sobs)
(* (&ClientHelloSpec{TLSVersMin: vmin, TLSVersMax: vmax}).ImportTLSClientHello(m) *)
| CImport (vmin vmax : N) (m : imap) (o : sobs)
(* Fingerprinter{AlwaysAddPadding: always}.UnmarshalJSONClientHello(doc), doc decoded as v *)
| CJson (always : bool) (v : jval) (o : sobs).

Definition list_N_eq_dec : forall a b : list N, {a = b} + {a <> b} := list_eq_dec N.eq_dec.
Definition pair_nb_dec : forall x y : N * bytes, {x = y} + {x <> y}.
Proof. decide equality; [apply list_N_eq_dec | apply N.eq_dec]. Defined.
Definition pair_bn_dec : forall x y : bytes * N, {x = y} + {x <> y}.
Proof. decide equality; [apply N.eq_dec | apply list_N_eq_dec]. Defined.
Definition pad_policy_dec : forall x y : Ext.pad_policy, {x = y} + {x <> y}.
Proof. decide equality. Defined.
Definition opt_n_dec : forall x y : option N, {x = y} + {x <> y}.
Proof. decide equality. apply N.eq_dec. Defined.
Definition ext_eq_dec (a b : ext) : {a = b} + {a <> b}.
Proof.
  decide equality;
    first [ apply list_N_eq_dec | apply N.eq_dec | apply Bool.bool_dec | apply (list_eq_dec list_N_eq_dec)
          | apply (list_eq_dec pair_nb_dec) | apply (list_eq_dec pair_bn_dec) | apply pad_policy_dec
          | apply opt_n_dec ].
Defined.

Definition exts_eqb (a b : list ext) : bool :=
  if list_eq_dec ext_eq_dec (map ech_mask a) (map ech_mask b) then true else false.

Definition pad0_of (padto : option Z) : option (N * bool) :=
  match padto with Some z => Some (always_pad_to_len z 0) | None => None end.

Definition pad0_eqb (a b : option (N * bool)) : bool :=
  match a, b with
  | None, None => true
  | Some (x, p), Some (y, q) => (x =? y) && Bool.eqb p q
  | _, _ => false
  end.

Definition matches (r : res spec) (o : sobs) : bool :=
  match r, o with
  | Ok s, SOk suites comp exts vmin vmax pad0 =>
      list_eqb N.eqb (sp_suites s) suites && bytes_eqb (sp_comp s) comp && exts_eqb (sp_exts s) exts
      && (sp_vmin s =? vmin) && (sp_vmax s =? vmax) && pad0_eqb (pad0_of (sp_padto s)) pad0
  | Err _, SErr => true
  | Panic _, SPanic => true
  | _, _ => false
  end.

Definition dn (t : ntable) (n : string) : option N := lookup_name n t.

Definition json_fp (always : bool) (v : jval) : res spec :=
  json_fingerprint (dn CipherSuite_name_indexed) (dn CompMeth_name_indexed) (dn ExtType_name_indexed)
    (dn SupportedGroups_name_indexed) (dn ECPointFormat_name_indexed) (dn SignatureScheme_name_indexed)
    (dn CertificateCompressionAlgorithm_name_indexed) (dn PSKKeyExchangeMode_name_indexed)
    true always v.

Definition check (c : case) : bool :=
  match c with
  | CSetVers minV maxV es o =>
      match set_tls_vers minV maxV es, o with
      | Ok (_, _, sv), VOk len hd lst =>
          (N.of_nat (length sv) =? len) && list_eqb N.eqb (firstn 4 sv) hd && (last sv 0 =? lst)
      | Err _, VErr => true
      | Panic _, VPanic => true
      | _, _ => false
      end
  | CRaw blunt always real raw o =>
      matches (fingerprint {| f_blunt := blunt; f_always_pad := always; f_real_psk := real |} raw) o
  | CImport vmin vmax m o => matches (import_hello true vmin vmax m) o
  | CJson always v o => matches (json_fp always v) o
  end.

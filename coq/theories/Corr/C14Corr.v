(* C14 correspondence: what real handshakes (utls client against the Go server over loopback TCP) did,
   compared with Model/Verify.v instantiated with the small concrete X.509 of that file. *)
From UV Require Export Base.Common Model.Verify.
Open Scope Z_scope.

Definition tconfig := config tpool.

Inductive case :=
(* the concrete X.509 against crypto/x509: chain[0].Verify{Roots, CurrentTime t, DNSName n, Intermediates chain[1:]} == nil was go_ok *)
| CX509 (roots : tpool) (chain : list tcert) (n : name) (t : Z) (go_ok : bool)
(* one full handshake: configuration, ECH public name, whether ECH was accepted (ConnectionState.ECHAccepted),
   c.serverName as reported by ConnectionState.ServerName, the chain the server presented (leaf first), and the outcome
   0 = nil error, 1 = CertificateVerificationError, 2 = another error, 3 = ECHRejectionError *)
| CFresh (cfg : tconfig) (pub : name) (accepted : bool) (obs_server_name : name) (chain : list tcert) (outcome : N)
(* per configuration: the name / time the verification evidently used, inferred by the runner from which leaf
   variants passed. name: None = could not be inferred, Some None = no name check, Some (Some n) = n.
   time: 0 = Config.Time, 1 = the leaf's NotAfter, 2 = no time check, 3 = could not be inferred *)
| CInfer (cfg : tconfig) (pub : name) (accepted : bool) (l : tcert) (inferred_name : option (option name)) (inferred_time : N)
(* second connection over a shared ClientSessionCache: cached leaf, whether the cached session had verified
   chains, and whether the connection was resumed (ConnectionState.DidResume) *)
| CResume (cfg : tconfig) (l : tcert) (has_chains : bool) (did_resume : bool).

Definition result_code (r : hs_result) : N :=
  match r with HsOk => 0 | HsCertError => 1 | HsOtherError => 2 | HsEchRejected => 3 | HsPanic => 4 end%N.

Definition oname_eqb (a b : option name) : bool :=
  match a, b with
  | None, None => true
  | Some x, Some y => bytes_eqb x y
  | _, _ => false
  end.

(* the name/time the model verifies with; when no verification happens at all the runner sees "no check" *)
Definition model_verifies (cfg : tconfig) (c : conn) : bool := ech_rejected cfg c || negb (InsecureSkipVerify cfg).
Definition model_name (cfg : tconfig) (c : conn) (l : tcert) : option name :=
  if model_verifies cfg c then used_name tcert tpool t_na cfg c l else None.
Definition model_time_class (cfg : tconfig) (c : conn) : N :=
  (if model_verifies cfg c then (if InsecureSkipTimeVerify cfg then 1 else 0) else 2)%N.

Definition check (c : case) : bool :=
  match c with
  | CX509 roots chain n t go_ok => Bool.eqb (toy_x509_verify roots t n chain) go_ok
  | CFresh cfg pub accepted osn chain outcome =>
      (* without ECH the observed c.serverName IS the "name in SNI" input; with ECH it must be the public / inner name *)
      let cn := t_conn osn cfg pub accepted in
      bytes_eqb (c_server_name cn) osn && (result_code (t_result cfg cn chain) =? outcome)%N
  | CInfer cfg pub accepted l iname itime =>
      let cn := t_conn [] cfg pub accepted in
      match iname with
      | Some n => oname_eqb (option_map norm_host (model_name cfg cn l)) (option_map norm_host n)
      | None => false
      end && (model_time_class cfg cn =? itime)%N
  | CResume cfg l has did => Bool.eqb (t_load_session cfg (mkSession l has)) did
  end.

(* C26 correspondence: what each Handshake/HandshakeContext caller returned, together with the final state of the
   connection, must be an outcome Model/HsLock.v allows (outcome_ok, proved for every reachable returned state). *)
From UV Require Export Base.Common Model.HsLock.

(* one caller: result, whether its ctx had been cancelled by the time it returned *)
Inductive case := COutcome (complete hs_err closed : bool) (callers : list (result * bool)).

Definition check (c : case) : bool :=
  match c with
  | COutcome co he cl callers =>
      negb (co && he) && forallb (fun x => outcome_ok (fst x) co he cl (snd x)) callers
  end.

(* C26 correspondence: what each Handshake/HandshakeContext caller returned, together with the final state of the
   connection, must be an outcome Model/HsLock.v allows (outcome_ok, proved for every reachable returned state). *)
From UV Require Export Base.Common Model.HsLock.
From UV Require Model.WrClose.

(* one caller: result, whether its ctx had been cancelled by the time it returned *)
Inductive case :=
| COutcome (complete hs_err closed reneg : bool) (callers : list (result * bool))
(* Close during a Write: was the peer stalled, did Write return nil, did both return *)
| CWrClose (stalled write_ok both_returned : bool)
(* a single HandshakeContext caller, nobody else closes: its result, whether the transport was closed at return (i.e. by
   its interrupter), whether its ctx had been cancelled, whether the handshake is complete *)
| CInterrupt (r : result) (closed cancelled complete : bool).

Definition check (c : case) : bool :=
  match c with
  | COutcome co he cl rn callers =>
      negb (co && he) && forallb (fun x => outcome_ok (fst x) co he cl (snd x) rn) callers
  (* C26_interlock: both calls return, and a Write that returned nil had its record written (impossible on a stalled peer) *)
  | CWrClose stalled write_ok both => both && negb (stalled && write_ok)
  (* C26_interrupted_iff_ctx_error: interrupter fired <-> ctx error; plus C26_hs_outcome *)
  | CInterrupt r cl ca co =>
      eqb cl (match r with RCtx => true | _ => false end) && outcome_ok r co (negb co) cl ca false
  end.

From UV Require Export Base.Common Model.Prng Model.Randomized.
From Coq Require Import QArith.
Open Scope N_scope.

(* Correspondence cases for C09.
   CGen: one call of generateRandomizedSpec on the real code: variant, the 17 weights as
     float64 bit patterns (struct order, u_common.go:671), serverName, NextProtos, the
     prefix of SHAKE256(seed) as bytes, the first 8 bytes of the salted ("ALPS") stream,
     and the spec (or error) the code returned. (Bytes, not 64-bit literals: Coq parses
     small numerals far faster than 20-digit ones.)
   CTable: the code's cipherSuites rows and defaultCipherSuitesTLS13 (drift of the snapshot
     Randomized.utls_table).
   CConsts: the Go constants, in the order of [model_consts].
   CDefaults: DefaultWeights (u_common.go:693) as 17 float64 bit patterns; CGen cases with
     id.Weights == nil carry wbytes = [] and use the snapshot [default_wbits]; 8 bytes = all
     17 weights equal.
   CRemove / CRC4 / CShuffled: the helpers called directly. *)
Inductive case :=
| CGen (v : variant) (wbytes : bytes) (server : bytes) (protos : list bytes) (s salted : bytes) (r : res spec)
| CTable (rows : list (N * bool)) (tls13 : list N)
| CConsts (vals : list N)
| CDefaults (wbytes : bytes)
| CRemove (st : bytes) (s : list N) (wbytes : bytes) (out : list N)
| CRC4 (s out : list N)
| CShuffled (st : bytes) (out : list N).

Definition fuel := 16%nat.

(* 8 big-endian bytes per float64 bit pattern *)
Fixpoint words_of (n : nat) (b : bytes) : list N :=
  match n with
  | O => []
  | S k => match uint64 b with Some (w, r) => w :: words_of k r | None => [] end
  end.
(* 0.7 0.4 0.4 0.63 0.59 0.51 0.9 0.71 0.46 0.62 0.74 0.46 0.75 0.77 0.0 0.5 0.33 *)
Definition default_wbits : list N :=
  [4604480259023595110; 4600877379321698714; 4600877379321698714; 4603849755075763241; 4603489467105573601;
   4602768891165194322; 4606281698874543309; 4604570331016142520; 4601958243232267633; 4603759683083215831;
   4604840546993784750; 4601958243232267633; 4604930618986332160; 4605110762971426980; 0;
   4602678819172646912; 4599616371426034975].
Definition weights_of (l : bytes) : option weights :=
  let ws := match l with
            | [] => default_wbits
            | _ => if (length l =? 8)%nat then repeat (hd 0 (words_of 1 l)) 17 else words_of 17 l
            end in
  match map fw_of_bits ws with
  | [a; b; c; d; e; f; g; h; i; j; k; l0; m; n; o; p; q] => Some (Build_weights a b c d e f g h i j k l0 m n o p q)
  | _ => None
  end.

Definition list_N_eq_dec : forall a b : list N, {a = b} + {a <> b} := list_eq_dec N.eq_dec.
Definition ext_eq_dec (a b : ext) : {a = b} + {a <> b}.
Proof.
  decide equality; try apply list_N_eq_dec; try apply N.eq_dec; apply (list_eq_dec list_N_eq_dec).
Defined.
Definition spec_eqb (a b : spec) : bool :=
  (sp_min a =? sp_min b) && (sp_max a =? sp_max b) && list_eqb N.eqb (sp_ciphers a) (sp_ciphers b)
  && (if list_eq_dec ext_eq_dec (sp_exts a) (sp_exts b) then true else false).
Definition res_eqb (a b : res spec) : bool :=
  match a, b with
  | Ok x, Ok y => spec_eqb x y
  | Err c, Err d => c =? d
  | Panic c, Panic d => c =? d
  | _, _ => false
  end.

Definition model_consts : list N :=
  [VersionTLS10; VersionTLS12; VersionTLS13;
   ECDSAWithP256AndSHA256; PKCS1WithSHA256; ECDSAWithP384AndSHA384; PKCS1WithSHA384; PKCS1WithSHA1; PKCS1WithSHA512;
   ECDSAWithSHA1; ECDSAWithP521AndSHA512; PSSWithSHA256; PSSWithSHA384; PSSWithSHA512;
   X25519MLKEM768; X25519; CurveP256; CurveP384; CurveP521;
   pointFormatUncompressed; RenegotiateOnceAsClient; pskModeDHE;
   TLS_RSA_WITH_RC4_128_SHA; TLS_ECDHE_ECDSA_WITH_RC4_128_SHA; TLS_ECDHE_RSA_WITH_RC4_128_SHA].

Definition run_ok {A} (m : M A) (s : stream) : option A :=
  match m s with Ok (a, _) => Some a | _ => None end.

Definition check (c : case) : bool :=
  match c with
  | CGen v wb server protos s salted r =>
      match weights_of wb with
      | Some w => res_eqb (generate rne fuel utls_table v w server protos s salted) r
      | None => false
      end
  | CTable rows tls13 =>
      list_eqb (fun a b : N * bool => (fst a =? fst b) && Bool.eqb (snd a) (snd b)) rows
               (map (fun r => (sr_id r, sr_tls12 r)) (t_suites utls_table))
      && list_eqb N.eqb tls13 (t_tls13 utls_table)
  | CConsts vals => list_eqb N.eqb vals model_consts
  | CDefaults wb => list_eqb N.eqb (words_of 17 wb) default_wbits
  | CRemove st s wb out =>
      match run_ok (removeRandomCiphers rne s (fw_of_bits (hd 0 (words_of 1 wb)))) st with
      | Some l => list_eqb N.eqb l out
      | None => false
      end
  | CRC4 s out => list_eqb N.eqb (removeRC4Ciphers s) out
  | CShuffled st out =>
      match run_ok (shuffledCiphers fuel utls_table) st with
      | Some l => list_eqb N.eqb l out
      | None => false
      end
  end.

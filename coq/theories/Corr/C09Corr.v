From Coq Require Export Uint63.
From UV Require Export Base.Common Model.Prng Model.Randomized.
From UV Require Import Model.RandomizedCoins Model.RandomizedId.
From Coq Require Import QArith.
Open Scope N_scope.

(* Correspondence cases for C09. Every number in a case is a primitive-integer literal and every
   byte string is packed 7 bytes per literal (Coq's front end, not vm_compute, dominates the cost of
   a case: ~0.2 ms per literal, far more for multi-digit N numerals).
   CGen: one call of generateRandomizedSpec on the real code: variant, the weights (0 bytes =
     id.Weights nil -> DefaultWeights snapshot; 8 bytes = all 17 equal; else 17 float64 bit patterns
     in struct order, u_common.go:671), serverName, NextProtos, the prefix of SHAKE256(seed), the first
     8 bytes of the salted ("ALPS") stream, and the result the code returned, serialised by the
     runner exactly as [enc_res] serialises the model's result (an injective prefix code); plus the
     32 seed bytes the runner put into the ONE *PRNGSeed it built from twice, and the bytes found in
     that object after the two builds - the model's build hands the id back unchanged
     (Model/RandomizedId.v [build]), so they must be equal.
   CTable / CConsts / CDefaults: drift of the snapshots (cipherSuites rows and
     defaultCipherSuitesTLS13, the Go constants in the order of [model_consts], DefaultWeights).
   CCoins: the sequence of id.Weights.X references in the source text of generateRandomizedSpec
     (field indices) followed by 100 + the number of FlipWeightedCoin calls there; must be [map c_field coins]
     followed by 100 + (rows - 1) (the removeRandomCiphers row flips inside the helper) - the coin table of
     Model/RandomizedCoins.v.
   CRemove / CRC4 / CShuffled: the helpers called directly. *)
Inductive case :=
| CGen (v : variant) (wlen : int) (ww : list int) (server : int * list int) (protos : list (int * list int))
       (slen : int) (sw : list int) (salted : list int) (obs : list int) (seed seed_after : list int)
| CTable (rows : list (int * bool)) (tls13 : list int)
| CConsts (vals : list int)
| CDefaults (ww : list int)
| CCoins (fields : list int)
| CRemove (slen : int) (sw : list int) (s : list int) (ww : list int) (out : list int)
| CRC4 (s out : list int)
| CShuffled (slen : int) (sw : list int) (out : list int).

Definition fuel := 16%nat.

(* [pk n ws]: the n-byte string whose successive 7-byte groups (the last one shorter) are the big-endian words ws *)
Fixpoint hx_go (k : nat) (x : N) (acc : bytes) : bytes :=
  match k with
  | O => acc
  | S k' => hx_go k' (N.shiftr x 8) (N.land x 255 :: acc)
  end.
Definition w2n (w : int) : N := Z.to_N (Uint63.to_Z w).
Fixpoint pk (n : N) (ws : list int) : bytes :=
  match ws with
  | [] => []
  | w :: ws' => let k := N.min 7 n in hx_go (N.to_nat k) (w2n w) [] ++ pk (n - k) ws'
  end.
Definition pkp (p : int * list int) : bytes := pk (w2n (fst p)) (snd p).
Definition ns (l : list int) : list N := map w2n l.

(* 8 big-endian bytes per float64 bit pattern *)
Fixpoint words_of (n : nat) (b : bytes) : list N :=
  match n with
  | O => []
  | S k => match uint64 b with Some (w, r) => w :: words_of k r | None => [] end
  end.
(* 0.7 0.4 0.4 0.63 0.59 0.51 0.9 0.71 0.46 0.62 0.74 0.46 0.75 0.77 0.0 0.5 0.33 *)
Definition default_wbits : list N :=
  [4604480259023595110; 4600877379321698714; 4600877379321698714; 4603849755075763241; 4603489467105573601;
   4602768891165194322; 4606281698874543309; 4604570331016142520; 4601958243232267633; 4603759683083215831;
   4604840546993784750; 4601958243232267633; 4604930618986332160; 4605110762971426980; 0;
   4602678819172646912; 4599616371426034975].
Definition weights_of (l : bytes) : option weights :=
  let ws := match l with
            | [] => default_wbits
            | _ => if (length l =? 8)%nat then repeat (hd 0 (words_of 1 l)) 17 else words_of 17 l
            end in
  match map fw_of_bits ws with
  | [a; b; c; d; e; f; g; h; i; j; k; l0; m; n; o; p; q] => Some (Build_weights a b c d e f g h i j k l0 m n o p q)
  | _ => None
  end.

(* serialisation of a result: a prefix code (every list is preceded by its length) *)
Definition enc_list (l : list N) : list N := N.of_nat (length l) :: l.
Definition enc_strs (l : list bytes) : list N := N.of_nat (length l) :: flat_map enc_list l.
Definition enc_ext (e : ext) : list N :=
  match e with
  | ESNI name => 0 :: enc_list name
  | ESessionTicket => [1]
  | ESigAlgs a => 2 :: enc_list a
  | EPoints a => 3 :: enc_list a
  | ECurves a => 4 :: enc_list a
  | EALPN q => 5 :: enc_strs q
  | EPadding => [6]
  | EStatus => [7]
  | ESCT => [8]
  | EReneg m => [9; m]
  | EEMS => [10]
  | EKeyShare a => 11 :: enc_list a
  | EPSKModes a => 12 :: enc_list a
  | ESupportedVersions a => 13 :: enc_list a
  | EALPS q => 14 :: enc_strs q
  end.
Definition enc_spec (p : spec) : list N :=
  sp_min p :: sp_max p :: enc_list (sp_ciphers p) ++ N.of_nat (length (sp_exts p)) :: flat_map enc_ext (sp_exts p).
Definition enc_res (r : res spec) : list N :=
  match r with Ok p => 1 :: enc_spec p | Err c => [0; c] | Panic c => [2; c] end.

(* Executable binary64 rounding used by [check]: round-to-nearest-even to a 53-bit significand, minimum
   exponent -1074, unbounded above (overflow is Randomized.ovf's business). Same function as Prng.rne (which
   searches the exponent with Z.pow and divides twice) but with shifts and one division: ~2.5x faster under
   vm_compute. The theorems hold for every rounding function with the IEEE laws; that THIS function is Go's
   float64 rounding on the operands that occur is what the CGen/CRemove cases check on every run. *)
Definition q_scaled (m e : Z) : Q :=
  if (0 <=? e)%Z then inject_Z (Z.shiftl m e) else Qmake m (Z.to_pos (Z.shiftl 1 (- e))).
Definition rnf_pos (p : Z) (q : positive) : Q :=
  let e0 := (Z.log2 p - Z.log2 (Zpos q) - 53)%Z in        (* p/q / 2^e0 is in [2^52, 2^54) *)
  let sc e := if (0 <=? e)%Z then (p, Z.shiftl (Zpos q) e) else (Z.shiftl p (- e), Zpos q) in
  let '(n0, d0) := sc e0 in
  let e := if (n0 <? Z.shiftl d0 53)%Z then e0 else (e0 + 1)%Z in
  let e := Z.max e (-1074) in
  let '(n, d) := sc e in
  let '(fl, r) := Z.div_eucl n d in
  let m := match (2 * r ?= d)%Z with Lt => fl | Gt => (fl + 1)%Z | Eq => if Z.even fl then fl else (fl + 1)%Z end in
  q_scaled m e.
Definition rnf (x : Q) : Q :=
  match Qnum x with
  | Z0 => 0%Q
  | Zpos _ => rnf_pos (Qnum x) (Qden x)
  | Zneg _ => Qopp (rnf_pos (- Qnum x) (Qden x))
  end.

Definition model_consts : list N :=
  [VersionTLS10; VersionTLS12; VersionTLS13;
   ECDSAWithP256AndSHA256; PKCS1WithSHA256; ECDSAWithP384AndSHA384; PKCS1WithSHA384; PKCS1WithSHA1; PKCS1WithSHA512;
   ECDSAWithSHA1; ECDSAWithP521AndSHA512; PSSWithSHA256; PSSWithSHA384; PSSWithSHA512;
   X25519MLKEM768; X25519; CurveP256; CurveP384; CurveP521;
   pointFormatUncompressed; RenegotiateOnceAsClient; pskModeDHE;
   TLS_RSA_WITH_RC4_128_SHA; TLS_ECDHE_ECDSA_WITH_RC4_128_SHA; TLS_ECDHE_RSA_WITH_RC4_128_SHA].

Definition run_ok {A} (m : M A) (s : stream) : option A :=
  match m s with Ok (a, _) => Some a | _ => None end.
Definition eqn := list_eqb N.eqb.

Definition check (c : case) : bool :=
  match c with
  | CGen v wlen ww server protos slen sw salted obs seed seed_after =>
      match weights_of (pk (w2n wlen) ww) with
      | Some w =>
          let id := {| id_client := v; id_seed := pk 32 seed; id_weights := w |} in
          let '(r, id') := build rnf fuel utls_table id (pkp server) (map pkp protos) (pk (w2n slen) sw) (pk 8 salted) in
          eqn (enc_res r) (ns obs) && eqn (id_seed id') (pk 32 seed_after)
      | None => false
      end
  | CTable rows tls13 =>
      list_eqb (fun a b : N * bool => (fst a =? fst b) && Bool.eqb (snd a) (snd b))
               (map (fun r => (w2n (fst r), snd r)) rows)
               (map (fun r => (sr_id r, sr_tls12 r)) (t_suites utls_table))
      && eqn (ns tls13) (t_tls13 utls_table)
  | CConsts vals => eqn (ns vals) model_consts
  | CDefaults ww => eqn (words_of 17 (pk 136 ww)) default_wbits
  | CCoins fields => eqn (ns fields) (map c_field coins ++ [100 + N.of_nat (length coins) - 1])
  | CRemove slen sw s ww out =>
      match run_ok (removeRandomCiphers rnf (ns s) (fw_of_bits (hd 0 (words_of 1 (pk 8 ww))))) (pk (w2n slen) sw) with
      | Some l => eqn l (ns out)
      | None => false
      end
  | CRC4 s out => eqn (removeRC4Ciphers (ns s)) (ns out)
  | CShuffled slen sw out =>
      match run_ok (shuffledCiphers fuel utls_table) (pk (w2n slen) sw) with
      | Some l => eqn l (ns out)
      | None => false
      end
  end.

(* C10 correspondence: (a) per spec class, the premises of C10_holds_if evaluated on the real client's view, retained
   keys and wire hello (CInst: spec_ok must hold - a failing instance names a spec outside the theorem);
   (b) per handshake, view = wire image and the observed client decision against client_run10 on the flight the server sent, which must be
   compliant (CRun); for the two excluded classes the flight is compliant, c10_cond is false and the model predicts
   the abort that is observed (CRunX). *)
From UV Require Export Base.Common Model.Negotiate Model.KeyShare Model.Complete Corr.NegotiateObs.

Inductive case :=
| CInst (fixed : bool) (v : client_view) (ks : kshape) (specmin : N) (w : wire_view)
| CRun (fixed : bool) (v : client_view) (ks : kshape) (specmin : N) (w : wire_view) (fl : flight) (o : observed)
| CRunX (fixed : bool) (v : client_view) (ks : kshape) (specmin : N) (w : wire_view) (fl : flight) (o : observed)
(* as CRun, for a flight that also carries a CertificateRequest; nocert = the handshake completed and the server saw no
   client certificate (an empty Certificate message) *)
| CRunQ (nocert fixed : bool) (v : client_view) (ks : kshape) (specmin : N) (w : wire_view) (fl : flight) (o : observed)
(* one application-data Write on a completed connection: negotiated version, CBC suite?, len(b), reported n, err == nil *)
| CWrite (vers : N) (cbc : bool) (len n : N) (ok : bool).

Definition check (c : case) : bool :=
  match c with
  | CInst fixed v ks m w =>
      spec_ok fixed env_fixed v ks m w
      (* the keys the real UConn retained are the ones the model's ApplyPreset keeps for this key_share list *)
      && match preset_shape fixed (cv_shares v) with Some ks' => shape_eqb ks' ks | None => false end
  | CRun fixed v ks m w fl o =>
      synced v w && compliant env_fixed m w fl && matches (client_run10 fixed env_fixed v ks fl) o
      && implb (c10_cond fixed env_fixed v ks m w fl) (o_complete o)
  | CRunX fixed v ks m w fl o =>
      compliant env_fixed m w fl && matches (client_run10 fixed env_fixed v ks fl) o
      && negb (c10_cond fixed env_fixed v ks m w fl) && negb (o_complete o)
  | CRunQ nocert fixed v ks m w fl o =>
      synced v w && compliant env_fixed m w fl && matches (client_run10q fixed env_fixed v ks fl true) o
      && implb (c10_cond fixed env_fixed v ks m w fl) (o_complete o)
      && implb (o_complete o) (nocert && match client_cert_reply true with Some 0 => true | _ => false end)
  | CWrite vers cbc len n ok => ok && (n =? uconn_write vers cbc len)
  end.

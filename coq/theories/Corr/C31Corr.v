(* Correspondence checker for C31: struct field lists and copy flows observed by reflection,
   conversion results on random values, and the ClientHello codec on real hello bytes —
   each compared with Model/Public.v and Model/GoCH.v. *)
From Coq Require Export String Uint63.
From UV Require Export Base.Common Model.Public Model.GoCH.
Open Scope N_scope.

(* compact input syntax for the generated case files: numbers as primitive-int literals (parsed natively),
   byte strings as 7-byte big-endian chunks, the last chunk holding [r] bytes *)
Definition u (x : int) : N := Z.to_N (Uint63.to_Z x).
Fixpoint be (n : nat) (x : N) (acc : bytes) : bytes :=
  match n with O => acc | S n' => be n' (x / 256) ((x mod 256) :: acc) end.
Fixpoint ub (l : list int) (r : nat) : bytes :=
  match l with [] => [] | [x] => be r (u x) [] | x :: t => be 7 (u x) (ub t r) end.

(* decidable equality of the record types (transparent, evaluated by vm_compute) *)
Definition bytes_dec : forall a b : bytes, {a = b} + {a <> b}. Proof. repeat decide equality. Defined.
Definition keyShare_dec : forall a b : keyShare, {a = b} + {a <> b}. Proof. repeat decide equality. Defined.
Definition KeyShare_dec : forall a b : KeyShare, {a = b} + {a <> b}. Proof. repeat decide equality. Defined.
Definition pskIdentity_dec : forall a b : pskIdentity, {a = b} + {a <> b}. Proof. repeat decide equality. Defined.
Definition PskIdentity_dec : forall a b : PskIdentity, {a = b} + {a <> b}. Proof. repeat decide equality. Defined.
Definition ticketKey_dec : forall a b : ticketKey, {a = b} + {a <> b}. Proof. repeat decide equality. Defined.
Definition TicketKey_dec : forall a b : TicketKey, {a = b} + {a <> b}. Proof. repeat decide equality. Defined.
Definition ch_dec : forall a b : clientHelloMsg, {a = b} + {a <> b}. Proof. repeat decide equality. Defined.
Definition CH_dec : forall a b : PubClientHelloMsg, {a = b} + {a <> b}. Proof. repeat decide equality. Defined.
Definition sh_dec : forall a b : serverHelloMsg, {a = b} + {a <> b}. Proof. repeat decide equality. Defined.
Definition SH_dec : forall a b : PubServerHelloMsg, {a = b} + {a <> b}. Proof. repeat decide equality. Defined.
Definition cr_dec : forall a b : certificateRequestMsgTLS13, {a = b} + {a <> b}. Proof. repeat decide equality. Defined.
Definition CR_dec : forall a b : CertificateRequestMsgTLS13, {a = b} + {a <> b}. Proof. repeat decide equality. Defined.
Definition c3_dec : forall a b : cipherSuiteTLS13, {a = b} + {a <> b}. Proof. repeat decide equality. Defined.
Definition C3_dec : forall a b : PubCipherSuiteTLS13, {a = b} + {a <> b}. Proof. repeat decide equality. Defined.
Definition cs_dec : forall a b : cipherSuite, {a = b} + {a <> b}. Proof. repeat decide equality. Defined.
Definition CS_dec : forall a b : PubCipherSuite, {a = b} + {a <> b}. Proof. repeat decide equality. Defined.
Definition eqb_of {A} (dec : forall a b : A, {a = b} + {a <> b}) (a b : A) : bool := if dec a b then true else false.
Definition opt_eqb {A} (dec : forall a b : A, {a = b} + {a <> b}) (a b : option A) : bool :=
  match a, b with Some x, Some y => eqb_of dec x y | None, None => true | _, _ => false end.
Definition slice_eqb {A} (dec : forall a b : A, {a = b} + {a <> b}) (a b : slice A) : bool :=
  match a, b with Some x, Some y => list_eqb (eqb_of dec) x y | None, None => true | _, _ => false end.

Definition str_list_eqb (a b : list string) : bool := list_eqb String.eqb a b.
Definition pair_eqb (a b : string * string) : bool := String.eqb (fst a) (fst b) && String.eqb (snd a) (snd b).
Definition subset (a b : list (string * string)) : bool := forallb (fun x => existsb (pair_eqb x) b) a.
Definition set_eqb (a b : list (string * string)) : bool := subset a b && subset b a.
Fixpoint lookup (k : string) (t : list (string * pair_info)) : option pair_info :=
  match t with [] => None | (k', v) :: r => if String.eqb k k' then Some v else lookup k r end.

Inductive case :=
(* reflect: declared fields of the public and the private struct, in order *)
| CFields (pair : string) (pub priv : list string)
(* data flow observed by setting one field at a time: (public field, private field) pairs that influence each other,
   public->private and private->public *)
| CFlow (pair : string) (to_priv to_pub : list (string * string))
(* conversions on random values: input, observed output *)
| CvCHpriv (c : PubClientHelloMsg) (p : clientHelloMsg)
| CvCHpub (m : clientHelloMsg) (c : PubClientHelloMsg)            (* observed with the cache pointer omitted *)
| CvSHpriv (s : option PubServerHelloMsg) (p : option serverHelloMsg)
| CvSHpub (p : option serverHelloMsg) (s : option PubServerHelloMsg)
| CvCRpriv (c : option CertificateRequestMsgTLS13) (p : option certificateRequestMsgTLS13)
| CvCRpub (p : option certificateRequestMsgTLS13) (c : option CertificateRequestMsgTLS13)   (* Raw as observed *)
| CvKSpriv (s : slice KeyShare) (o : slice keyShare) | CvKSpub (s : slice keyShare) (o : slice KeyShare)
| CvPIpriv (s : slice PskIdentity) (o : slice pskIdentity) | CvPIpub (s : slice pskIdentity) (o : slice PskIdentity)
(* suite views; func values are identities. The ids include implemented suites with fields that differ from the built-in table *)
| CvC3priv (c : option PubCipherSuiteTLS13) (p : option cipherSuiteTLS13) | CvC3pub (p : option cipherSuiteTLS13) (c : option PubCipherSuiteTLS13)
| CvCSpriv (c : option PubCipherSuite) (p : option cipherSuite) | CvCSpub (p : option cipherSuite) (c : PubCipherSuite)
(* second conversion: [before] was converted (which stores the private struct in the view), the view was then edited to
   [after] (cache pointer kept), and converted again to p *)
| CvCHre (before after : PubClientHelloMsg) (p : clientHelloMsg)
| CvTKpriv (s : slice TicketKey) (o : slice ticketKey) | CvTKpub (s : slice ticketKey) (o : slice TicketKey)
(* codec: UnmarshalClientHello on bytes (result with the cache pointer omitted), the private extension list,
   marshalMsg on a public view with Raw ignored, Marshal on a public view *)
| CParse (b : bytes) (o : option PubClientHelloMsg) (exts : list N)
| CMarshalMsg (c : PubClientHelloMsg) (o : option bytes)
| CMarshal (c : PubClientHelloMsg) (o : option bytes).

(* the extra flows that are not plain copies *)
Local Open Scope string_scope.
Definition extra_to_priv (pair : string) : list (string * string) :=
  if String.eqb pair "FinishedHash" then [("Prf", "prf")] else [].          (* u_public.go:600 fallback *)
Definition extra_to_pub (pair : string) : list (string * string) :=
  if String.eqb pair "CertReq13" then                                       (* Raw is re-marshalled from every field, :206 *)
    [("Raw","ocspStapling");("Raw","scts");("Raw","supportedSignatureAlgorithms");("Raw","supportedSignatureAlgorithmsCert");
     ("Raw","certificateAuthorities")]
  else [].
Local Close Scope string_scope.

Definition res_matches (r : res bytes) (o : option bytes) : bool :=
  match r, o with Ok b, Some b' => bytes_eqb b b' | Err _, None => true | _, _ => false end.

Definition check (c : case) : bool :=
  match c with
  | CFields pr pub priv =>
      match lookup pr pair_table with
      | Some i => str_list_eqb (pi_pub i) pub && str_list_eqb (pi_priv i) priv
      | None => false end
  | CFlow pr tp tq =>
      match lookup pr pair_table with
      | Some i => set_eqb tp (pi_copied i ++ extra_to_priv pr) && set_eqb tq (pi_copied i ++ extra_to_pub pr)
      | None => false end
  | CvCHpriv c p => eqb_of ch_dec (CH_private_of c) p
  | CvCHpub m c => match ch_getPublicPtr (Some m) with
                   | Some c' => eqb_of CH_dec (CH_set_cached c' None) c && opt_eqb ch_dec (CH_cachedPrivateHello c') (Some m)
                   | None => false end
  | CvSHpriv s p => opt_eqb sh_dec (SH_getPrivatePtr s) p
  | CvSHpub p s => opt_eqb SH_dec (sh_getPublicPtr p) s
  | CvCRpriv c p => opt_eqb cr_dec (CR_toPrivate c) p
  | CvCRpub p c =>  (* the marshal function is instantiated with the Raw that was observed; what is checked is every other field *)
      opt_eqb CR_dec (cr_toPublic (fun _ _ _ _ _ => match c with Some c => Some (CR_Raw c) | None => None end) p) c
  | CvKSpriv s o => slice_eqb keyShare_dec (KeyShares_ToPrivate s) o
  | CvKSpub s o => slice_eqb KeyShare_dec (keyShares_ToPublic s) o
  | CvPIpriv s o => slice_eqb pskIdentity_dec (PskIdentities_ToPrivate s) o
  | CvPIpub s o => slice_eqb PskIdentity_dec (pskIdentities_ToPublic s) o
  | CvC3priv c p => opt_eqb c3_dec (C3_toPrivate c) p
  | CvC3pub p c => opt_eqb C3_dec (c3_toPublic p) c
  | CvCSpriv c p => opt_eqb cs_dec (CS_getPrivatePtr c) p
  | CvCSpub p c => eqb_of CS_dec (cs_getPublicObj p) c
  | CvCHre before after p =>
      match CH_getPrivatePtr (Some before) with
      | Some (_, before') =>
          match CH_getPrivatePtr (Some (CH_set_cached after (CH_cachedPrivateHello before'))) with
          | Some (p', _) => eqb_of ch_dec p' p
          | None => false end
      | None => false end
  | CvTKpriv s o => slice_eqb ticketKey_dec (TicketKeys_ToPrivate s) o
  | CvTKpub s o => slice_eqb TicketKey_dec (ticketKeys_ToPublic s) o
  | CParse b o exts =>
      match UnmarshalClientHello b, o with
      | Some c, Some c' => eqb_of CH_dec (CH_set_cached c None) c' &&
                           match CH_cachedPrivateHello c with Some m => list_eqb N.eqb (ch_extensions m) exts | None => false end &&
                           (* C31_unmarshal_wellformed, observed as well: what was parsed is well-formed *)
                           wf_msgb (CH_private_of (CH_clear_raw c))
      | None, None => true
      | _, _ => false end
  | CMarshalMsg c o => res_matches (marshalMsg (CH_private_of c)) o
  | CMarshal c o => res_matches (Marshal c) o
  end.

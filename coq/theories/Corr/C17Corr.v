(* C17 correspondence.
   CStep   : uconn.Extensions before the HelloRetryRequest (after the first marshal) and after the handshake,
             as SKELETONS (kind, id, Len() of every extension; key-share groups and data lengths; the
             padding extension's policy and state; the cookie in full), the header lengths, the HRR's
             group / cookie and the position the cookie was observed at.  The model's uTLS section +
             re-marshal must give exactly the observed list, padding state included.
   CWire   : byte-exact: both ClientHellos from the wire and uconn.Extensions before as codec-model values
             (harness/extcoq); the model must reproduce hello 1 from the list and hello 2 from the list
             after its HRR step (fresh key-share bytes and cookie position read back from hello 2); the share read back
             must be fresh (fresh_share: no infix of any key share of the first hello).
   CReject : an invalid HelloRetryRequest: the alert the client sent equals Negotiate.process_hrr's, and no
             second hello was sent. *)
From UV Require Export Base.Common Model.Padding Model.Marshal Model.Prng Model.Hrr.
From UV Require Model.Wire Model.Ext Model.Negotiate.
Open Scope N_scope.

Inductive sk :=
| SKS (shares : list (N * N))            (* (group, len(data)) *)
| SCookie (c : bytes)
| SCookieRef                             (* a cookie extension holding exactly the HelloRetryRequest's cookie (compared in Go) *)
| SPad (boring : bool) (l : N) (w : bool) (* GetPaddingLen is BoringPaddingStyle / nil; PaddingLen; WillPad *)
| SOther (psk : bool) (id n : N).         (* extension_type and Len() (0 = not on the wire) *)

Definition hext_of_sk (ref : bytes) (x : sk) : hext :=
  match x with
  | SCookieRef => HCookie ref
  | SKS shares => HKeyShare (map (fun gn => (fst gn, zeros (snd gn))) shares)
  | SCookie c => HCookie c
  | SPad b l w => HPad (if b then PolBoring else PolNone) {| p_len := l; p_will := w |}
  | SOther psk id n => HOther psk (if n <? 4 then zeros n else Wire.enc_u16 id ++ Wire.enc_u16 (n - 4) ++ zeros (n - 4))
  end.

Definition pol_eqb (a b : pad_policy) : bool :=
  match a, b with
  | PolNone, PolNone => true | PolBoring, PolBoring => true
  | PolAlways x, PolAlways y => (x =? y)%Z | _, _ => false
  end.
Definition share_eqb (a b : N * bytes) : bool := (fst a =? fst b) && bytes_eqb (snd a) (snd b).
Definition hext_eqb (a b : hext) : bool :=
  match a, b with
  | HKeyShare x, HKeyShare y => list_eqb share_eqb x y
  | HCookie x, HCookie y => bytes_eqb x y
  | HPad p s, HPad q t => pol_eqb p q && (p_len s =? p_len t) && Bool.eqb (p_will s) (p_will t)
  | HOther p x, HOther q y => Bool.eqb p q && bytes_eqb x y
  | _, _ => false
  end.

(* the stream that makes rand.Intn(n) return idx (idx < n < 2^31): Int31 = top 31 bits of the first 8 bytes *)
Definition stream_for (idx : N) : stream := Wire.enc_u32 idx ++ [0; 0; 0; 0].

Definition bbs0 (_ : N) : N := 4096.

Definition dummy_hdr (sidlen nsuites ncomp : N) : hello_hdr :=
  {| h_vers := 771; h_random := zeros 32; h_sid := zeros sidlen;
     h_suites := repeat 0 (N.to_nat nsuites); h_comp := zeros ncomp |}.

Definition first_shares (es : list hext) : list (N * bytes) :=
  match filter is_key_share es with HKeyShare ks :: _ => ks | _ => [] end.

(* ClientHello header fields parsed back from the wire bytes *)
Definition parse_hdr (raw : bytes) : option hello_hdr :=
  match raw with
  | 1 :: _ :: _ :: _ :: r =>
      Wire.obind (Wire.read_u16 r) (fun '(vers, r) =>
      Wire.obind (Wire.read_bytes 32 r) (fun '(random, r) =>
      Wire.obind (Wire.read_u8lp r) (fun '(sid, r) =>
      Wire.obind (Wire.read_u16lp r) (fun '(suites, r) =>
      Wire.obind (Wire.read_u8lp r) (fun '(comp, _) =>
      Wire.obind (Wire.read_u16s suites) (fun ss =>
      Some {| h_vers := vers; h_random := random; h_sid := sid; h_suites := ss; h_comp := comp |}))))))
  | _ => None
  end.

(* "the retry share is fresh": its bytes occur in no key_exchange string of the first hello, whole or as a part
   (a hybrid share carries an X25519 public key after the ML-KEM key) *)
Fixpoint is_prefix (a b : bytes) : bool :=
  match a, b with
  | [], _ => true
  | x :: a', y :: b' => (x =? y) && is_prefix a' b'
  | _, [] => false
  end.
Fixpoint is_infix (a b : bytes) : bool :=
  is_prefix a b || match b with [] => false | _ :: b' => is_infix a b' end.
Definition fresh_share (share : bytes) (es : list hext) : bool :=
  match share with
  | [] => true
  | _ => forallb (fun e => match e with HKeyShare ks => forallb (fun k => negb (is_infix share (snd k))) ks | _ => true end) es
  end.

Inductive case :=
| CStep (sidlen nsuites ncomp npsk g sharelen : N) (cookie : bytes) (idx : N) (before after : list sk)
| CWire (raw1 raw2 : bytes) (npsk g : N) (share cookie : bytes) (idx : N) (before : list Ext.ext)
| CReject (v : Negotiate.client_view) (m : Negotiate.hello_msg) (alert : N) (hellos : N).

Definition check (c : case) : bool :=
  match c with
  | CStep sidlen nsuites ncomp npsk g sharelen cookie idx before after =>
      let es := map (hext_of_sk cookie) before in
      let shares := if g =? 0 then first_shares es else [(g, zeros sharelen)] in
      match hrr_second_hello bbs0 8 (stream_for idx) (dummy_hdr sidlen nsuites ncomp) npsk shares cookie es with
      | Ok (es', _) => list_eqb hext_eqb es' (map (hext_of_sk cookie) after)
      | _ => false
      end
  | CWire raw1 raw2 npsk g share cookie idx before =>
      match parse_hdr raw1 with
      | None => false
      | Some h =>
          let es := map hext_of_ext before in
          let shares := if g =? 0 then first_shares es else [(g, share)] in
          match marshal_hexts bbs0 h es, hrr_second_hello bbs0 8 (stream_for idx) h npsk shares cookie es with
          | Ok r1, Ok (_, r2) => bytes_eqb r1 raw1 && bytes_eqb r2 raw2 && fresh_share share es
          | _, _ => false
          end
      end
  | CReject v m alert hellos =>
      match Negotiate.process_hrr v m with
      | inl a => (a =? alert) && (hellos =? 1)
      | inr _ => false
      end
  end.

(* the generated case files name the codec model's constructors (EKeyShare, EGREASE, PadBoring ...) unqualified *)
Export Ext.

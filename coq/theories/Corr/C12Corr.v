(* C12 correspondence: (a) the client's internal view equals the offered sets parsed from its own
   wire hello; (b) the client's observed decision on a scripted server flight equals client_run. *)
From UV Require Export Base.Common Model.Negotiate Corr.NegotiateObs.

Inductive case :=
| CSync (v : client_view) (w : wire_view)
| CRun (v : client_view) (w : wire_view) (fl : flight) (o : observed).

Definition check (c : case) : bool :=
  match c with
  | CSync v w => synced v w
  | CRun v w fl o => synced v w && matches (client_run v fl) o
  end.

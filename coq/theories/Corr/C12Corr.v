(* C12 correspondence: (a) the client's internal view equals the offered sets parsed from its own
   wire hello; (b) the client's observed decision on a scripted server flight equals client_run. *)
From UV Require Export Base.Common Model.Negotiate Model.NegotiateSess Corr.NegotiateObs.

Inductive case :=
| CSync (v : client_view) (w : wire_view)
| CRun (v : client_view) (w : wire_view) (fl : flight) (o : observed)
(* the hello offers a TLS <= 1.2 session (cached or injected with SetSessionState); sh_ems = the ServerHello carries
   extended_master_secret; resumed = ConnectionState.DidResume *)
| CRunSess (v : client_view) (w : wire_view) (sess : option session12) (sh_ems : bool) (fl : flight) (o : observed) (resumed : bool).

Definition check (c : case) : bool :=
  match c with
  | CSync v w => synced v w
  | CRun v w fl o => synced v w && matches (client_run v fl) o
  | CRunSess v w sess ems fl o resumed =>
      synced v w && matches (client_run_sess env_fixed v sess ems fl) o
      && implb (o_complete o) (Bool.eqb resumed (did_resume env_fixed v sess fl))
  end.

(* C12 correspondence: (a) the client's internal view equals the offered sets parsed from its own
   wire hello; (b) the client's observed decision on a scripted server flight equals Complete.client_run10 fixed env_fixed v ks:
   the negotiation core with the key selection of the tree under test (fixed = KeySharePrivateKeys.ExtraEcdhe exists,
   ks = curves of the private keys ApplyPreset retained, read from the UConn before the handshake). *)
From UV Require Export Base.Common Model.Negotiate Model.NegotiateSess Model.NegotiateKeys Model.NegotiateReport Corr.NegotiateObs.
From UV Require Model.KeyShare Model.Complete.

Inductive case :=
| CSync (v : client_view) (w : wire_view)
| CRun (fixed : bool) (v : client_view) (ks : KeyShare.kshape) (w : wire_view) (fl : flight) (o : observed)
(* the hello offers a TLS <= 1.2 session (cached or injected with SetSessionState); sh_ems = the ServerHello carries
   extended_master_secret; resumed = ConnectionState.DidResume *)
| CRunSess (fixed : bool) (v : client_view) (ks : KeyShare.kshape) (w : wire_view) (sess : option session12) (sh_ems : bool)
           (fl : flight) (o : observed) (resumed : bool).

Definition check (c : case) : bool :=
  match c with
  | CSync v w => synced v w
  | CRun fixed v ks w fl o =>
      synced v w && matches (Complete.client_run10 fixed env_fixed v ks fl) o
      (* suite / group / ALPN the connection reports after the handshake returned - aborted ones included *)
      && reports (report_gen env_fixed (eff_view fixed v ks fl) fl) o && reported_on_wire w o
  | CRunSess fixed v ks w sess ems fl o resumed =>
      synced v w && matches (client_run_sess10 fixed env_fixed v ks sess ems fl) o
      && implb (o_complete o) (Bool.eqb resumed (did_resume env_fixed v sess fl)) && reported_on_wire w o
  end.

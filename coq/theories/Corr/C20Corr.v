(* C20 correspondence: one case = a configuration (world), a history of public session-API calls, and what the Go
   code did: the outcome of every call (nil / which error / which panic), after every call before the first
   Handshake whether the key-share private keys in HandshakeState match the key shares of the ClientHello and which
   session HandshakeState.Session holds, and the session part of the ClientHello seen on the wire. Byte strings are
   the runner's short tags for the known tickets/identities (equality is all the model uses). *)
From UV Require Export Base.Common Model.Session.

Inductive case :=
| CRun (w : world) (ops : list op) (outs : list (res unit))
       (keysok : list (option bool)) (sess : list (option N)) (wire : option wireview).

Definition res_eqb (a b : res unit) : bool :=
  match a, b with
  | Ok _, Ok _ => true
  | Err x, Err y => x =? y
  | Panic x, Panic y => x =? y
  | _, _ => false
  end.

Definition keys_match (s : st) : bool :=
  let c := st_c s in if share_some c then keys_some c && Session.keys_match c else true.

(* states after each operation *)
Fixpoint trace (w : world) (s : st) (ops : list op) : list st :=
  match ops with
  | [] => []
  | o :: r => let s' := fst (step w o s) in s' :: trace w s' r
  end.

Definition opt_agrees {A} (eqb : A -> A -> bool) (observed : option A) (model : A) : bool :=
  match observed with None => true | Some x => eqb x model end.

Fixpoint all2 {A B} (f : A -> B -> bool) (a : list A) (b : list B) : bool :=
  match a, b with
  | [], [] => true
  | x :: a', y :: b' => f x y && all2 f a' b'
  | _, _ => false
  end.

Definition view_eqb (a b : wireview) : bool :=
  list_eqb bytes_eqb (fst a) (fst b) &&
  match snd a, snd b with
  | None, None => true
  | Some x, Some y => bytes_eqb x y
  | _, _ => false
  end.
Definition oview_eqb (a b : option wireview) : bool :=
  match a, b with None, None => true | Some x, Some y => view_eqb x y | _, _ => false end.

Definition check (c : case) : bool :=
  match c with
  | CRun w ops outs keysok sess wire =>
      let tr := trace w (init w) ops in
      all2 res_eqb outs (run w (init w) ops) &&
      all2 (fun o s => opt_agrees Bool.eqb o (keys_match s)) keysok tr &&
      all2 (fun o s => opt_agrees N.eqb o (hs_sess (st_d s))) sess tr &&
      oview_eqb wire (Session.wire (st_d (final w (init w) ops)))
  end.

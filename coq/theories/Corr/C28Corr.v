(* C28 correspondence: for a connection whose write half holds an AEAD at sequence number [seq]
   (dynamic record sizing off), the framing facts around GetOutKeystream(n) followed by a write of
   [dlen] bytes: length of the returned slice, sequence number after the call, and type / version /
   length / explicit nonce of the next record. The keystream bytes themselves are checked against the
   real ciphertext by the runner's XOR oracle (the AEAD is opaque to the model). *)
From UV Require Export Base.Common Model.Record Model.Forge Model.Keystream.
Open Scope N_scope.

Inductive case :=
| CKs (vers kind seq n dlen : N) (obs : N * N * N * N * N * bytes)   (* len ks, seq after, rec typ, rec vers, rec len, explicit nonce *)
| CNonAead (refused : bool).

Definition model_conn (vers kind seq : N) : conn :=
  let ci := if kind =? 4 then mkCipher KAeadPrefix algGCM (zeros 16) (zeros 4) false 0 0
            else mkCipher KAeadXor algCHACHA (zeros 32) (zeros 12) false 0 0 in
  mkConn vers true 0 half0 (mkHalf vers (Some ci) None seq None None []) [] [] 0 0 0 true.

Definition cbc_conn : conn :=
  mkConn V12 true 0 half0 (mkHalf V12 (Some (mkCipher KCbc algAES (zeros 16) (zeros 16) false 0 16)) (Some (mkMac macSHA1 (zeros 20))) 1 None None [])
         [] [] 0 0 0 true.

Definition check (c : case) : bool :=
  match c with
  | CKs vers kind seq n dlen (kslen, seq_after, rtyp, rvers, rlen, nonce) =>
    let c0 := model_conn vers kind seq in
    match get_out_keystream toy c0 (N.to_nat n) with
    | Ok (ks, c1) =>
      (len ks =? kslen) && (h_seq (cn_out c1) =? seq_after) && (seq_after =? seq) &&
      match conn_write toy c1 (zeros (N.to_nat dlen)) (fun _ => zeros 16) with
      | Ok (wire, _, _) =>
        (nth 0 wire 0 =? rtyp) && (nth 1 wire 0 * 256 + nth 2 wire 0 =? rvers) &&
        (nth 3 wire 0 * 256 + nth 4 wire 0 =? rlen) &&
        bytes_eqb (firstn (explicit_nonce_len (cn_out c0)) (skipn 5 wire)) nonce &&
        (* ks_next evaluated on the toy instance *)
        bytes_eqb (firstn (N.to_nat n) (skipn (5 + explicit_nonce_len (cn_out c0)) wire))
                  (bxor (firstn (N.to_nat n) (zeros (N.to_nat dlen))) (firstn (N.to_nat n) ks))
      | _ => false
      end
    | _ => false
    end
  | CNonAead refused =>
    Bool.eqb refused (match get_out_keystream toy cbc_conn 16 with Err _ => true | _ => false end)
  end.

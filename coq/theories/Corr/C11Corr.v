(* C11 correspondence.
   CState : whether the tree has the C18 key-share repair (KeySharePrivateKeys.ExtraEcdhe exists), the client's view, the
            curves of the retained key-share private keys (KeyShare.mkShape ecdhe extra mlkem mlkem_ecdhe), the server flight read from the server's plaintext messages (EncryptedExtensions
            ALPN = the protocol the server reports), and both observed ConnectionStates: the model's client_run
            must complete with exactly the client's values, and server_state must give exactly the server's.
   CResume12 : a TLS <= 1.2 resumption (second connection of a pair): the cached session's version / suite / EMS (read from
            the first connection), the abbreviated ServerHello, both observed states, against client_resume12.
   CName  : hostnameInSNI(Config.ServerName), uconn.Extensions as sni_items (names already passed through
            hostnameInSNI by harness/extcoq's verbatim copy, so host = identity here), and the two reported
            server names: the model of the REPAIRED client (fixes/C11-sni-reported-name.diff) and of the server. *)
From UV Require Export Base.Common Model.Negotiate Model.Transcript.
From UV Require Model.Complete.
Open Scope N_scope.

Record obs_state := mkObsState { o_vers : N; o_suite : N; o_group : N; o_alpn : bytes; o_resumed : bool }.

Inductive case :=
| CState (fixed : bool) (v : client_view) (ks : KeyShare.kshape) (fl : flight) (c s : obs_state)
| CResume12 (v : client_view) (sess_vers sess_suite : N) (sess_ems h_ems : bool) (h : hello_msg) (c s : obs_state)
| CName (cfg : bytes) (exts : list sni_item) (client server : bytes).

Definition idb (b : bytes) : bytes := b.

Definition check (c : case) : bool :=
  match c with
  | CState fixed v ks fl c s =>
      match Complete.client_run10 fixed env_fixed v ks fl with
      | Complete st =>
          (cs_vers st =? o_vers c) && (cs_suite st =? o_suite c) && (cs_group st =? o_group c)
          && bytes_eqb (cs_alpn st) (o_alpn c) && Bool.eqb (cs_psk st) (o_resumed c)
          && (let ss := server_state fl in
              (ss_vers ss =? o_vers s) && (ss_suite ss =? o_suite s) && (ss_group ss =? o_group s)
              && bytes_eqb (ss_alpn ss) (o_alpn s) && Bool.eqb (ss_resumed ss) (o_resumed s))
      | Abort _ => false
      end
  | CResume12 v sv ssu sems hems h c s =>
      let vers := if h_sv h =? 0 then h_vers h else h_sv h in
      match client_resume12 env_fixed v (mkSess12 sv ssu sems) vers h hems true with
      | Complete st =>
          (cs_vers st =? o_vers c) && (cs_suite st =? o_suite c) && (cs_group st =? o_group c)
          && bytes_eqb (cs_alpn st) (o_alpn c) && Bool.eqb (cs_psk st) (o_resumed c)
          && (let ss := server_state_resumed12 vers h in
              (ss_vers ss =? o_vers s) && (ss_suite ss =? o_suite s) && (ss_group ss =? o_group s)
              && bytes_eqb (ss_alpn ss) (o_alpn s) && Bool.eqb (ss_resumed ss) (o_resumed s))
      | Abort _ => false
      end
  | CName cfg exts client server =>
      bytes_eqb client (client_server_name idb true cfg exts)
      && match server_server_name idb exts with Some n => bytes_eqb n server | None => false end
  end.

(* Lemmas about the strict ClientHello grammar (Model/Strict.v):
   - the RFC layout every built-in extension writes (ExtSpec.ext_body) is in the grammar of
     its extension type, provided the field values are within the RFC limits (body_ok_ext);
   - a message laid out with the length-prefix combinators parses to its fields (strict_parse_encode);
   - soundness of the oracle: whatever strict_parse accepts is such a layout (strict_parse_sound). *)
From UV Require Import Base.Common Model.Wire Model.Varint Model.Ext Model.ExtSpec Model.Strict Model.ChMarshal.
From UV Require Import Proofs.WireP Proofs.VarintP Proofs.ExtP.
From Coq Require Import ZifyBool ZifyNat ZifyN.

(* ------------------------------------------------------------------ *)
(* small facts *)

Lemma nonempty_blen (l : bytes) : nonempty l = true <-> blen l <> 0.
Proof. destruct l; cbn [nonempty]; [rewrite blen_nil | rewrite blen_cons]; split; try congruence; lia. Qed.
Lemma nonempty_len {A} (l : list A) : nonempty l = true <-> l <> [].
Proof. destruct l; cbn; split; congruence. Qed.
Lemma nonempty_empty (l : bytes) : nonempty l = negb (empty l).
Proof. destruct l; reflexivity. Qed.
Lemma length_blen (b : bytes) : N.of_nat (length b) = blen b. Proof. reflexivity. Qed.

Lemma existsb_eqb_In x l : existsb (N.eqb x) l = true <-> In x l.
Proof.
  rewrite existsb_exists. split.
  - intros (y & Hy & E). apply N.eqb_eq in E. now subst.
  - intros H. exists x. split; [exact H | apply N.eqb_refl].
Qed.

Lemma nodupb_spec l : nodupb l = true <-> NoDup l.
Proof.
  induction l as [|x l IH]; cbn [nodupb].
  - split; [constructor | reflexivity].
  - rewrite andb_true_iff, negb_true_iff, IH. split.
    + intros [H1 H2]. constructor; [|exact H2]. intros Hin. apply existsb_eqb_In in Hin. congruence.
    + intros H. inversion H as [|? ? Hn Hd]; subst. split; [|exact Hd].
      destruct (existsb (N.eqb x) l) eqn:E; [|reflexivity]. apply existsb_eqb_In in E. contradiction.
Qed.

(* subsequences: what remains of the spec's extension list on the wire *)
Inductive subseq {A} : list A -> list A -> Prop :=
| ss_nil : subseq [] []
| ss_skip x l1 l2 : subseq l1 l2 -> subseq l1 (x :: l2)
| ss_keep x l1 l2 : subseq l1 l2 -> subseq (x :: l1) (x :: l2).

Lemma subseq_In {A} (l1 l2 : list A) x : subseq l1 l2 -> In x l1 -> In x l2.
Proof. induction 1; cbn; intuition. Qed.
Lemma subseq_NoDup {A} (l1 l2 : list A) : subseq l1 l2 -> NoDup l2 -> NoDup l1.
Proof.
  induction 1 as [|x l1 l2 Hs IH|x l1 l2 Hs IH]; intros Hd; [constructor| |].
  - inversion Hd; subst. auto.
  - inversion Hd as [|? ? Hn Hd']; subst. constructor; [|auto]. intros Hin. apply Hn. eapply subseq_In; eassumption.
Qed.
Lemma subseq_nil_r {A} (l : list A) : subseq l [] -> l = [].
Proof. inversion 1. reflexivity. Qed.

Lemma psk_lastb_tail x l : psk_lastb (x :: l) = true -> psk_lastb l = true.
Proof. cbn [psk_lastb]. destruct l; [reflexivity|]. intros H. apply andb_true_iff in H. apply H. Qed.
Lemma subseq_psk_last l1 l2 : subseq l1 l2 -> psk_lastb l2 = true -> psk_lastb l1 = true.
Proof.
  induction 1 as [|x l1 l2 Hs IH|x l1 l2 Hs IH]; intros Hp; [reflexivity| |].
  - apply IH. eapply psk_lastb_tail; exact Hp.
  - destruct l2 as [|y l2].
    + apply subseq_nil_r in Hs. subst. reflexivity.
    + cbn [psk_lastb] in Hp. apply andb_true_iff in Hp. destruct Hp as [Hx Hr].
      specialize (IH Hr). cbn [psk_lastb]. destruct l1; [reflexivity|]. rewrite Hx. exact IH.
Qed.

(* ------------------------------------------------------------------ *)
(* items: parsing a concatenation of encoded elements *)

Lemma items_flat {A B} (enc : A -> bytes) (item : bytes -> option (B * bytes)) (f : A -> B) (P : A -> Prop) :
  (forall x r, P x -> item (enc x ++ r) = Some (f x, r)) ->
  (forall x, P x -> enc x <> []) ->
  forall l fuel, Forall P l -> (length (flat_map enc l) <= fuel)%nat ->
  items item fuel (flat_map enc l) = Some (map f l).
Proof.
  intros Hitem Hne l. induction l as [|x l IH]; intros fuel Hall Hfuel.
  - destruct fuel; reflexivity.
  - inversion Hall as [|? ? Hx Hl]; subst. cbn [flat_map map] in *.
    rewrite app_length in Hfuel.
    assert (Hpos : (1 <= length (enc x))%nat).
    { specialize (Hne x Hx). destruct (enc x); [congruence | cbn; lia]. }
    destruct fuel as [|fuel]; [lia|].
    remember (enc x ++ flat_map enc l) as s eqn:Hs. destruct s as [|s0 s'].
    { exfalso. apply (f_equal (@length N)) in Hs. rewrite app_length in Hs. cbn in Hs. lia. }
    cbn [items]. rewrite Hs, (Hitem x _ Hx), IH; [reflexivity | exact Hl | lia].
Qed.

Lemma exact_some {A} (a : A) : exact (Some (a, [])) = Some a. Proof. reflexivity. Qed.

Lemma length_le_of_blen (a : bytes) n : blen a <= N.of_nat n -> (length a <= n)%nat.
Proof. unfold blen. lia. Qed.

(* ------------------------------------------------------------------ *)
(* the vector grammars accept the combinator layouts *)

Lemma evenb_double n : evenb (2 * n) = true.
Proof. unfold evenb. rewrite N.mul_comm, N.mod_mul by lia. reflexivity. Qed.

Lemma nonempty_flat_u16 (l : list N) : nonempty l = true -> nonempty (flat_map enc_u16 l) = true.
Proof. destruct l; [discriminate | reflexivity]. Qed.

Lemma u16vec_ok l : nonempty l = true -> 2 * blen l < 65536 -> u16vec_okb (u16s_body l) = true.
Proof.
  intros Hne Hlen. unfold u16vec_okb, u16s_body.
  rewrite read_enc_u16lp_nil by (rewrite blen_flat_u16; exact Hlen). cbn [exact].
  rewrite nonempty_flat_u16 by exact Hne. rewrite blen_flat_u16. apply evenb_double.
Qed.

Lemma u8_u16vec_ok l : nonempty l = true -> 2 * blen l < 256 -> u8_u16vec_okb (enc_u8lp (flat_map enc_u16 l)) = true.
Proof.
  intros Hne Hlen. unfold u8_u16vec_okb.
  rewrite read_enc_u8lp_nil by (rewrite blen_flat_u16; exact Hlen). cbn [exact].
  rewrite nonempty_flat_u16 by exact Hne. rewrite blen_flat_u16. apply evenb_double.
Qed.

Lemma u8vec_ne_ok p : nonempty p = true -> blen p < 256 -> u8vec_ne_okb (enc_u8lp p) = true.
Proof. intros Hne Hlen. unfold u8vec_ne_okb. rewrite read_enc_u8lp_nil by exact Hlen. exact Hne. Qed.

Lemma enc_u8lp_ne p : enc_u8lp p <> [].
Proof. unfold enc_u8lp, enc_u8. discriminate. Qed.

Lemma name_item_enc p r : nonempty p = true /\ blen p < 256 -> name_item (enc_u8lp p ++ r) = Some (p, r).
Proof.
  intros [Hne Hlen]. unfold name_item. rewrite read_enc_u8lp by exact Hlen.
  rewrite nonempty_empty in Hne. destruct (empty p); [discriminate | reflexivity].
Qed.

Lemma names_ok ps : nonempty ps = true -> forallb (fun p => nonempty p) ps = true ->
  forallb (fun p => blen p <? 256) ps = true -> blen (flat_map enc_u8lp ps) < 65536 ->
  names_okb (protos_body ps) = true.
Proof.
  intros Hne Hall Hlt Hlen. unfold names_okb, protos_body.
  rewrite read_enc_u16lp_nil by exact Hlen. cbn [exact].
  assert (HP : Forall (fun p => nonempty p = true /\ blen p < 256) ps).
  { rewrite forallb_forall in Hall, Hlt. apply Forall_forall. intros p Hp. split; [apply Hall, Hp|].
    specialize (Hlt p Hp). cbn beta in Hlt. lia. }
  rewrite (items_flat enc_u8lp name_item (fun p => p) _ name_item_enc (fun x _ => enc_u8lp_ne x) ps _ HP (le_n _)).
  cbn [is_some]. rewrite andb_true_r.
  destruct ps as [|p ps]; [discriminate|]. cbn [flat_map]. unfold enc_u8lp, enc_u8. reflexivity.
Qed.

Lemma sni_item_enc (host : bytes) r : nonempty host = true /\ blen host < 65536 ->
  sni_item (([0] ++ enc_u16lp host) ++ r) = Some (0, r).
Proof.
  intros [Hne Hlen]. unfold sni_item. cbn [app read_u8 obind]. rewrite read_enc_u16lp by exact Hlen. cbn [obind].
  rewrite nonempty_empty in Hne. destruct (empty host); [discriminate | reflexivity].
Qed.

Lemma sni_ok host : nonempty host = true -> blen host + 3 < 65536 ->
  sni_okb (enc_u16lp ([0] ++ enc_u16lp host)) = true.
Proof.
  intros Hne Hlen. unfold sni_okb.
  rewrite read_enc_u16lp_nil by (rewrite blen_app, blen_enc_u16lp; cbn; lia). cbn [exact].
  assert (E : [0] ++ enc_u16lp host = flat_map (fun h => [0] ++ enc_u16lp h) [host])
    by (cbn [flat_map]; rewrite app_nil_r; reflexivity).
  rewrite E.
  rewrite (items_flat _ sni_item (fun _ => 0) _ sni_item_enc) with (l := [host]);
    [| intros x _; discriminate | constructor; [split; [exact Hne | lia] | constructor] | apply le_n].
  reflexivity.
Qed.

Lemma ks_item_enc (k : N * bytes) r : fst k < 65536 /\ nonempty (snd k) = true /\ blen (snd k) < 65536 ->
  ks_item ((enc_u16 (fst k) ++ enc_u16lp (snd k)) ++ r) = Some (fst k, r).
Proof.
  intros (Hg & Hne & Hlen). unfold ks_item. rewrite <- app_assoc, read_enc_u16 by exact Hg. cbn [obind].
  rewrite read_enc_u16lp by exact Hlen. cbn [obind].
  rewrite nonempty_empty in Hne. destruct (empty (snd k)); [discriminate | reflexivity].
Qed.

Lemma key_share_ok (ks : list (N * bytes)) : forallb (fun k => fst k <? 65536) ks = true -> forallb (fun k => nonempty (snd k)) ks = true ->
  blen (flat_map (fun k => enc_u16 (fst k) ++ enc_u16lp (snd k)) ks) < 65536 ->
  key_share_okb (enc_u16lp (flat_map (fun k => enc_u16 (fst k) ++ enc_u16lp (snd k)) ks)) = true.
Proof.
  intros Hg Hne Hlen. unfold key_share_okb. rewrite read_enc_u16lp_nil by exact Hlen. cbn [exact].
  assert (HP : Forall (fun k : N * bytes => fst k < 65536 /\ nonempty (snd k) = true /\ blen (snd k) < 65536) ks).
  { rewrite forallb_forall in Hg, Hne. apply Forall_forall. intros k Hk.
    specialize (Hg k Hk). specialize (Hne k Hk). cbn beta in Hg, Hne. split; [apply N.ltb_lt; exact Hg|]. split; [exact Hne|].
    rewrite blen_flat_map in Hlen.
    assert (Hle : forall l, In k l -> blen (enc_u16 (fst k) ++ enc_u16lp (snd k)) <= sum_map (fun x : N * bytes => blen (enc_u16 (fst x) ++ enc_u16lp (snd x))) l).
    { induction l as [|y l IH]; [intros []|]. cbn [sum_map]. intros [->|Hin]; [lia|]. specialize (IH Hin). lia. }
    specialize (Hle ks Hk). rewrite blen_app, blen_enc_u16lp in Hle. lia. }
  rewrite (items_flat _ ks_item fst _ ks_item_enc) with (l := ks) (fuel := length (flat_map (fun k => enc_u16 (fst k) ++ enc_u16lp (snd k)) ks)).
  - reflexivity.
  - intros x _. unfold enc_u16. discriminate.
  - exact HP.
  - apply le_n.
Qed.

Lemma cookie_ok c : nonempty c = true -> blen c < 65536 -> cookie_okb (enc_u16lp c) = true.
Proof. intros Hne Hlen. unfold cookie_okb. rewrite read_enc_u16lp_nil by exact Hlen. exact Hne. Qed.

(* pre_shared_key *)
Lemma psk_id_item_enc (i : psk_identity) r :
  nonempty (fst i) = true /\ blen (fst i) < 65536 /\ snd i < 4294967296 ->
  psk_id_item ((enc_u16lp (fst i) ++ enc_u32 (snd i)) ++ r) = Some (tt, r).
Proof.
  intros (Hne & Hlen & Hage). unfold psk_id_item. rewrite <- app_assoc, read_enc_u16lp by exact Hlen. cbn [obind].
  rewrite nonempty_empty in Hne. destruct (empty (fst i)); [discriminate|].
  rewrite read_enc_u32 by exact Hage. reflexivity.
Qed.
Lemma psk_binder_item_enc (b : bytes) r : 32 <= blen b /\ blen b < 256 ->
  psk_binder_item (enc_u8lp b ++ r) = Some (tt, r).
Proof.
  intros [Hlo Hhi]. unfold psk_binder_item. rewrite read_enc_u8lp by exact Hhi. cbn [obind].
  destruct (N.ltb_spec (blen b) 32); [lia | reflexivity].
Qed.

Lemma sum_map_ge {A} (f : A -> N) l x : In x l -> f x <= sum_map f l.
Proof. induction l as [|y l IH]; [intros []|]. cbn [sum_map]. intros [->|Hin]; [lia|]. specialize (IH Hin). lia. Qed.

Lemma psk_ok ids bs : psk_rfc ids bs = true ->
  forallb (fun i : psk_identity => snd i <? 4294967296) ids = true -> forallb (fun b => blen b <? 256) bs = true ->
  blen (psk_body ids bs) < 65536 ->
  psk_okb (psk_body ids bs) = true.
Proof.
  intros Hrfc Hage Hb256 Hlen. unfold psk_rfc in Hrfc. rewrite !andb_true_iff in Hrfc.
  destruct Hrfc as (((Hne & Hidne) & Hb32) & Hcount). apply Nat.eqb_eq in Hcount.
  unfold psk_body in *. rewrite blen_app, !blen_enc_u16lp in Hlen.
  unfold psk_okb. rewrite read_enc_u16lp by lia. rewrite read_enc_u16lp_nil by lia. cbn [exact].
  assert (HPi : Forall (fun i : psk_identity => nonempty (fst i) = true /\ blen (fst i) < 65536 /\ snd i < 4294967296) ids).
  { rewrite forallb_forall in Hidne, Hage. apply Forall_forall. intros i Hi.
    split; [apply Hidne, Hi|]. split; [|specialize (Hage i Hi); cbn beta in Hage; lia].
    rewrite blen_flat_map in Hlen. cbn beta in Hlen.
    match type of Hlen with context [sum_map ?f ids] => pose proof (sum_map_ge f ids i Hi) as Hle end.
    cbn beta in Hle. rewrite blen_app, blen_enc_u16lp in Hle. lia. }
  assert (HPb : Forall (fun b => 32 <= blen b /\ blen b < 256) bs).
  { rewrite forallb_forall in Hb32, Hb256. apply Forall_forall. intros b Hb.
    specialize (Hb32 b Hb). specialize (Hb256 b Hb). cbn beta in Hb32, Hb256. lia. }
  rewrite (items_flat _ psk_id_item (fun _ => tt) _ psk_id_item_enc) with (l := ids);
    [| intros x _; unfold enc_u16lp, enc_u16; discriminate | exact HPi | apply le_n].
  rewrite (items_flat _ psk_binder_item (fun _ => tt) _ psk_binder_item_enc) with (l := bs);
    [| intros x _; apply enc_u8lp_ne | exact HPb | apply le_n].
  rewrite !map_length, Hcount, Nat.eqb_refl, andb_true_r.
  destruct ids; [discriminate | reflexivity].
Qed.

Lemma ech_ok kdf aead cfg enc p : kdf < 65536 -> aead < 65536 -> blen enc < 65536 -> blen p < 65536 ->
  nonempty p = true ->
  ech_okb ([0] ++ enc_u16 kdf ++ enc_u16 aead ++ [cfg] ++ enc_u16lp enc ++ enc_u16lp p) = true.
Proof.
  intros Hk Ha He Hp Hne. unfold ech_okb. cbn [app read_u8]. change (0 =? 1) with false. change (0 =? 0) with true. cbn iota.
  rewrite read_enc_u16 by exact Hk. cbn [obind]. rewrite read_enc_u16 by exact Ha. cbn [obind].
  cbn [app read_u8 obind]. rewrite read_enc_u16lp by exact He. cbn [obind].
  rewrite read_enc_u16lp_nil by exact Hp. cbn [exact obind].
  rewrite nonempty_empty in Hne. destruct (empty p); [discriminate | reflexivity].
Qed.

Lemma all_zero_zbytes n : all_zero (zbytes n) = true.
Proof. induction n as [|n IH]; [reflexivity|]. cbn [zbytes all_zero forallb]. exact IH. Qed.

(* quic_transport_parameters: Marshal's output is a sequence of (varint id, varint length, value) *)
Lemma append_ok_lt x b : append x = Ok b -> x < 4611686018427387904.
Proof.
  unfold append. unfold maxVarInt1, maxVarInt2, maxVarInt4, maxVarInt8.
  destruct (N.leb_spec x 63); [lia|]. destruct (N.leb_spec x 16383); [lia|].
  destruct (N.leb_spec x 1073741823); [lia|]. destruct (N.leb_spec x 4611686018427387903); [lia | discriminate].
Qed.
Lemma append_nonempty x b : append x = Ok b -> (1 <= length b)%nat.
Proof.
  unfold append. repeat (destruct (_ <=? _)); intros H; inversion H; subst; cbn; lia.
Qed.

Lemma marshal_tps_ok tps m : marshal_tps tps = Ok m -> Forall tp_ok tps /\ (length tps <= length m)%nat.
Proof.
  revert m. induction tps as [|[id v] tps IH]; intros m H.
  - split; [constructor | cbn; lia].
  - cbn [marshal_tps] in H.
    destruct (append id) as [a| |] eqn:Ha; cbn [bind] in H; try discriminate.
    destruct (append (N.of_nat (length v))) as [b| |] eqn:Hb; cbn [bind] in H; try discriminate.
    destruct (marshal_tps tps) as [r| |] eqn:Hr; cbn [bind] in H; try discriminate.
    inversion H; subst m. destruct (IH r eq_refl) as [Hall Hlen]. split.
    + constructor; [|exact Hall]. split; cbn [fst snd]; [eapply append_ok_lt; exact Ha | eapply append_ok_lt; exact Hb].
    + pose proof (append_nonempty _ _ Ha). rewrite !app_length. cbn [length]. lia.
Qed.

Lemma quic_ok tps m : marshal_tps tps = Ok m -> is_some (parse_tps (length m) m) = true.
Proof.
  intros H. destruct (marshal_tps_ok tps m H) as [Hall Hlen].
  destruct (marshal_parse tps Hall) as (bs & Hbs & Hparse). rewrite H in Hbs. inversion Hbs; subst bs.
  rewrite (Hparse _ Hlen). reflexivity.
Qed.

(* ------------------------------------------------------------------ *)
(* every built-in extension's body is in the grammar of its type *)

Lemma body_len e : wf_ext e = true -> ext_absent e = false -> blen (ext_body e) + 4 = ext_len e.
Proof. intros Hwf Habs. pose proof (read_layout e Hwf) as H. rewrite Habs in H. apply H. Qed.

Lemma bo_sni b : body_okb ID_SNI b = sni_okb b. Proof. reflexivity. Qed.
Lemma bo_status b : body_okb ID_STATUS b = status_okb b. Proof. reflexivity. Qed.
Lemma bo_status_v2 b : body_okb ID_STATUS_V2 b = status_v2_okb b. Proof. reflexivity. Qed.
Lemma bo_curves b : body_okb ID_CURVES b = u16vec_okb b. Proof. reflexivity. Qed.
Lemma bo_points b : body_okb ID_POINTS b = u8vec_ne_okb b. Proof. reflexivity. Qed.
Lemma bo_sigalgs b : body_okb ID_SIGALGS b = u16vec_okb b. Proof. reflexivity. Qed.
Lemma bo_sigalgs_cert b : body_okb ID_SIGALGS_CERT b = u16vec_okb b. Proof. reflexivity. Qed.
Lemma bo_dc b : body_okb ID_DELEGATED_CREDENTIALS b = u16vec_okb b. Proof. reflexivity. Qed.
Lemma bo_alpn b : body_okb ID_ALPN b = names_okb b. Proof. reflexivity. Qed.
Lemma bo_alps b : body_okb ID_ALPS b = names_okb b. Proof. reflexivity. Qed.
Lemma bo_alps_new b : body_okb ID_ALPS_NEW b = names_okb b. Proof. reflexivity. Qed.
Lemma bo_padding b : body_okb ID_PADDING b = all_zero b. Proof. reflexivity. Qed.
Lemma bo_compress b : body_okb ID_COMPRESS_CERT b = u8_u16vec_okb b. Proof. reflexivity. Qed.
Lemma bo_versions b : body_okb ID_VERSIONS b = u8_u16vec_okb b. Proof. reflexivity. Qed.
Lemma bo_key_share b : body_okb ID_KEY_SHARE b = key_share_okb b. Proof. reflexivity. Qed.
Lemma bo_quic b : body_okb ID_QUIC_TP b = is_some (parse_tps (length b) b). Proof. reflexivity. Qed.
Lemma bo_psk_modes b : body_okb ID_PSK_MODES b = u8vec_ne_okb b. Proof. reflexivity. Qed.
Lemma bo_cookie b : body_okb ID_COOKIE b = cookie_okb b. Proof. reflexivity. Qed.
Lemma bo_reneg b : body_okb ID_RENEGOTIATION b = is_some (exact (read_u8lp b)). Proof. reflexivity. Qed.
Lemma bo_rsl b : body_okb ID_RECORD_SIZE_LIMIT b = (blen b =? 2). Proof. reflexivity. Qed.
Lemma bo_tb b : body_okb ID_TOKEN_BINDING b = token_binding_okb b. Proof. reflexivity. Qed.
Lemma bo_psk b : body_okb ID_PSK b = psk_okb b. Proof. reflexivity. Qed.
Lemma bo_ech b : body_okb ID_ECH b = ech_okb b. Proof. reflexivity. Qed.

Lemma body_ok_ext e : wf_ext e = true -> rfc_ok e = true -> ext_absent e = false ->
  body_okb (ext_id e) (ext_body e) = true.
Proof.
  intros Hwf Hrfc Habs. destruct (wf_parts e Hwf) as (Hst & Hf & Hlen).
  pose proof (body_len e Hwf Habs) as Hbl.
  unfold rfc_ok in Hrfc. rewrite Habs in Hrfc. cbn [orb] in Hrfc.
  destruct e; cbn [ext_id ext_body fields_ok ext_len ext_absent] in *; try reflexivity; try exact Hrfc.
  - (* SNI *) rewrite bo_sni. apply sni_ok.
    + apply nonempty_blen. lia.
    + destruct (blen host =? 0); lia.
  - (* curves *) rewrite bo_curves. apply u16vec_ok; [exact Hrfc | lia].
  - (* points *) rewrite bo_points. apply u8vec_ne_ok; [exact Hrfc | lia].
  - (* sigalgs *) rewrite bo_sigalgs. apply u16vec_ok; [exact Hrfc | lia].
  - (* sigalgs cert *) rewrite bo_sigalgs_cert. apply u16vec_ok; [exact Hrfc | lia].
  - (* ALPN *) rewrite bo_alpn. apply andb_true_iff in Hrfc. destruct Hrfc as [H1 H2].
    apply names_ok; try assumption. rewrite blen_protos_spec. lia.
  - (* ALPS *) rewrite bo_alps. apply andb_true_iff in Hrfc. destruct Hrfc as [H1 H2].
    apply names_ok; try assumption. rewrite blen_protos_spec. lia.
  - (* ALPS new *) rewrite bo_alps_new. apply andb_true_iff in Hrfc. destruct Hrfc as [H1 H2].
    apply names_ok; try assumption. rewrite blen_protos_spec. lia.
  - (* padding *) rewrite bo_padding. apply all_zero_zbytes.
  - (* compress cert *) rewrite bo_compress. apply andb_true_iff in Hf. destruct Hf as [_ Hf].
    apply u8_u16vec_ok; [exact Hrfc | lia].
  - (* key share *) rewrite bo_key_share. apply key_share_ok; try assumption.
    rewrite <- key_shares_bytes_spec, blen_key_shares_bytes. lia.
  - (* QUIC *) rewrite bo_quic. destruct (marshal_tps tps) as [m| |] eqn:E; try discriminate.
    eapply quic_ok; exact E.
  - (* PSK modes *) rewrite bo_psk_modes. apply u8vec_ne_ok; [exact Hrfc | lia].
  - (* versions *) rewrite bo_versions. apply andb_true_iff in Hf. destruct Hf as [_ Hf].
    apply u8_u16vec_ok; [exact Hrfc | lia].
  - (* cookie *) rewrite bo_cookie. apply cookie_ok; [exact Hrfc | lia].
  - (* renegotiation_info *) rewrite bo_reneg. rewrite read_enc_u8lp_nil by lia. reflexivity.
  - (* channel id *) destruct old; reflexivity.
  - (* token binding *) rewrite bo_tb. unfold token_binding_okb. cbn [app read_u8].
    rewrite read_enc_u8lp_nil by lia. reflexivity.
  - (* delegated credentials *) rewrite bo_dc. apply u16vec_ok; [exact Hrfc | lia].
  - (* utls PSK *) rewrite bo_psk. rewrite !andb_true_iff in Hf. destruct Hf as [[Ha Hb] _].
    apply psk_ok; try assumption. lia.
  - (* fake PSK *) rewrite bo_psk. rewrite !andb_true_iff in Hf. destruct Hf as [[Ha Hb] _].
    apply psk_ok; try assumption. lia.
  - (* GREASE ECH *) rewrite bo_ech. apply andb_true_iff in Hf. destruct Hf as [Hk Ha].
    apply ech_ok; try assumption; lia.
Qed.

(* ------------------------------------------------------------------ *)
(* a message in combinator layout parses to its fields *)

Lemma read_enc_u24lp_nil b : blen b < 16777216 -> read_u24lp (enc_u24lp b) = Some (b, []).
Proof. intros H. rewrite <- (app_nil_r (enc_u24lp b)). now apply read_enc_u24lp. Qed.

Lemma ext_item_enc (x : N * bytes) r : fst x < 65536 /\ blen (snd x) < 65536 ->
  ext_item (enc_ext x ++ r) = Some (x, r).
Proof.
  intros [Hid Hlen]. unfold ext_item, enc_ext. rewrite <- app_assoc, read_enc_u16 by exact Hid. cbn [obind].
  rewrite read_enc_u16lp by exact Hlen. cbn [obind]. destruct x; reflexivity.
Qed.

Definition ast_ok (a : ch_ast) : Prop :=
  c_vers a < 65536 /\ blen (c_random a) = 32 /\ blen (c_sid a) <= 32
  /\ nonempty (c_suites a) = true /\ all_u16 (c_suites a) = true /\ 2 * blen (c_suites a) < 65536
  /\ nonempty (c_comp a) = true /\ blen (c_comp a) < 256
  /\ (if c_has_exts a
      then Forall (fun x => fst x < 65536 /\ blen (snd x) < 65536) (c_exts a)
           /\ forallb (fun x => body_okb (fst x) (snd x)) (c_exts a) = true
           /\ blen (flat_map enc_ext (c_exts a)) < 65536
      else c_exts a = []).

Lemma strict_parse_layout a : ast_ok a -> strict_parse (hello_layout a) = Some a.
Proof.
  intros (Hv & Hr & Hsid & Hsne & Hsu & Hslen & Hcne & Hclen & Hx).
  destruct a as [vers random sid suites comp has exts]. cbn [c_vers c_random c_sid c_suites c_comp c_has_exts c_exts] in *.
  unfold hello_layout. cbn [c_vers c_random c_sid c_suites c_comp c_has_exts c_exts].
  set (tailb := if has then enc_u16lp (flat_map enc_ext exts) else []).
  assert (Htail : blen tailb < 65536 + 2).
  { unfold tailb. destruct has; [rewrite blen_enc_u16lp; lia | rewrite blen_nil; lia]. }
  set (body := enc_u16 vers ++ random ++ enc_u8lp sid ++ enc_u16lp (flat_map enc_u16 suites) ++ enc_u8lp comp ++ tailb).
  assert (Hbody : blen body < 16777216).
  { unfold body. rewrite !blen_app, blen_enc_u16, !blen_enc_u8lp, blen_enc_u16lp, blen_flat_u16. lia. }
  unfold strict_parse. cbn [app read_u8 obind]. change (1 =? 1) with true. cbn [negb].
  rewrite read_enc_u24lp_nil by exact Hbody. cbn [exact obind].
  unfold body. rewrite read_enc_u16 by exact Hv. cbn [obind].
  match goal with |- context [read_bytes 32 (random ++ ?x)] => pose proof (read_bytes_app random x) as Hrb end.
  rewrite Hr in Hrb. rewrite Hrb. cbn [obind].
  rewrite read_enc_u8lp by lia. cbn [obind].
  destruct (N.ltb_spec 32 (blen sid)) as [Hbad|_]; [lia|].
  rewrite read_enc_u16lp by (rewrite blen_flat_u16; lia). cbn [obind].
  rewrite nonempty_flat_u16 by exact Hsne. cbn [negb].
  rewrite read_u16s_flat by exact Hsu. cbn [obind].
  rewrite read_enc_u8lp by exact Hclen. cbn [obind]. rewrite Hcne. cbn [negb].
  unfold tailb. destruct has.
  - destruct Hx as (Hall & Hok & Hlen).
    assert (Hne : empty (enc_u16lp (flat_map enc_ext exts)) = false) by reflexivity.
    rewrite Hne. rewrite read_enc_u16lp_nil by exact Hlen. cbn [exact obind].
    rewrite (items_flat enc_ext ext_item (fun x => x) _ ext_item_enc) with (l := exts);
      [| intros x _; unfold enc_ext, enc_u16; discriminate | exact Hall | apply le_n].
    cbn [obind]. rewrite map_id, Hok. reflexivity.
  - subst exts. reflexivity.
Qed.

(* ------------------------------------------------------------------ *)
(* soundness of the oracle: an accepted message IS the combinator layout of the parsed fields,
   i.e. every length prefix in it is the length of what it precedes *)

Ltac Zify.zify_post_hook ::= Z.div_mod_to_equations.

Lemma bytes_ok_app a b : bytes_ok (a ++ b) <-> bytes_ok a /\ bytes_ok b.
Proof. unfold bytes_ok. apply Forall_app. Qed.
Lemma bytes_ok_cons x l : bytes_ok (x :: l) <-> x < 256 /\ bytes_ok l.
Proof. unfold bytes_ok. split; [intros H; inversion H; auto | intros [H1 H2]; constructor; auto]. Qed.

Lemma exact_inv {A} (o : option (A * bytes)) a : exact o = Some a -> o = Some (a, []).
Proof. destruct o as [[x [|y r]]|]; cbn; intros H; inversion H; reflexivity. Qed.

Lemma read_u8_inv s x r : read_u8 s = Some (x, r) -> s = x :: r.
Proof. destruct s; cbn; intros H; inversion H; reflexivity. Qed.
Lemma read_u16_inv s x r : bytes_ok s -> read_u16 s = Some (x, r) -> s = enc_u16 x ++ r /\ x < 65536 /\ bytes_ok r.
Proof.
  destruct s as [|a [|b s]]; cbn [read_u16]; intros Hok H; inversion H; subst.
  apply bytes_ok_cons in Hok. destruct Hok as [Ha Hok]. apply bytes_ok_cons in Hok. destruct Hok as [Hb Hok].
  unfold enc_u16. cbn [app]. split; [|split; [lia | exact Hok]]. f_equal; [lia|]. f_equal. lia.
Qed.
Lemma read_u24_inv s x r : bytes_ok s -> read_u24 s = Some (x, r) -> s = enc_u24 x ++ r /\ x < 16777216 /\ bytes_ok r.
Proof.
  destruct s as [|a [|b [|c s]]]; cbn [read_u24]; intros Hok H; inversion H; subst.
  apply bytes_ok_cons in Hok. destruct Hok as [Ha Hok]. apply bytes_ok_cons in Hok. destruct Hok as [Hb Hok].
  apply bytes_ok_cons in Hok. destruct Hok as [Hc Hok].
  unfold enc_u24. cbn [app]. split; [|split; [lia | exact Hok]]. f_equal; [lia|]. f_equal; [lia|]. f_equal. lia.
Qed.
Lemma read_bytes_inv n s a r : bytes_ok s -> read_bytes n s = Some (a, r) -> s = a ++ r /\ blen a = n /\ bytes_ok a /\ bytes_ok r.
Proof.
  intros Hok H. destruct (read_bytes_blen n s a r H) as [Hl ->]. apply bytes_ok_app in Hok. tauto.
Qed.
Lemma read_u8lp_inv s v r : bytes_ok s -> read_u8lp s = Some (v, r) ->
  s = enc_u8lp v ++ r /\ blen v < 256 /\ bytes_ok v /\ bytes_ok r.
Proof.
  intros Hok H. unfold read_u8lp in H. destruct (read_u8 s) as [[n s1]|] eqn:E; [|discriminate].
  apply read_u8_inv in E. subst s. apply bytes_ok_cons in Hok. destruct Hok as [Hn Hok].
  destruct (read_bytes_inv _ _ _ _ Hok H) as (-> & Hl & Hv & Hr).
  unfold enc_u8lp, enc_u8. rewrite Hl, N.mod_small by exact Hn. cbn [app]. split; [reflexivity|]. split; [lia|]. split; assumption.
Qed.
Lemma read_u16lp_inv s v r : bytes_ok s -> read_u16lp s = Some (v, r) ->
  s = enc_u16lp v ++ r /\ blen v < 65536 /\ bytes_ok v /\ bytes_ok r.
Proof.
  intros Hok H. unfold read_u16lp in H. destruct (read_u16 s) as [[n s1]|] eqn:E; [|discriminate].
  destruct (read_u16_inv _ _ _ Hok E) as (-> & Hn & Hok1).
  destruct (read_bytes_inv _ _ _ _ Hok1 H) as (-> & Hl & Hv & Hr).
  unfold enc_u16lp. rewrite Hl, <- app_assoc. split; [reflexivity|]. split; [lia|]. split; assumption.
Qed.
Lemma read_u24lp_inv s v r : bytes_ok s -> read_u24lp s = Some (v, r) ->
  s = enc_u24lp v ++ r /\ blen v < 16777216 /\ bytes_ok v /\ bytes_ok r.
Proof.
  intros Hok H. unfold read_u24lp in H. destruct (read_u24 s) as [[n s1]|] eqn:E; [|discriminate].
  destruct (read_u24_inv _ _ _ Hok E) as (-> & Hn & Hok1).
  destruct (read_bytes_inv _ _ _ _ Hok1 H) as (-> & Hl & Hv & Hr).
  unfold enc_u24lp. rewrite Hl, <- app_assoc. split; [reflexivity|]. split; [lia|]. split; assumption.
Qed.

Lemma read_u16s_inv : forall n s l, (length s <= n)%nat -> bytes_ok s -> read_u16s s = Some l ->
  s = flat_map enc_u16 l /\ all_u16 l = true.
Proof.
  induction n as [|n IH]; intros s l Hn Hok H.
  - destruct s; [|cbn in Hn; lia]. cbn in H. inversion H. split; reflexivity.
  - destruct s as [|a [|b s]]; cbn [read_u16s] in H; [inversion H; split; reflexivity | discriminate |].
    destruct (read_u16s s) as [l'|] eqn:E; [|discriminate]. inversion H; subst l.
    apply bytes_ok_cons in Hok. destruct Hok as [Ha Hok]. apply bytes_ok_cons in Hok. destruct Hok as [Hb Hok].
    destruct (IH s l') as [-> Hall]; [cbn [length] in Hn; lia | exact Hok | exact E |].
    cbn [flat_map all_u16 forallb]. fold (all_u16 l'). rewrite Hall. unfold enc_u16. cbn [app].
    split; [|rewrite andb_true_r; lia]. f_equal; [lia|]. f_equal. lia.
Qed.

Lemma items_ext_inv : forall fuel s exts, bytes_ok s -> items ext_item fuel s = Some exts ->
  s = flat_map enc_ext exts /\ Forall (fun x => fst x < 65536 /\ blen (snd x) < 65536) exts.
Proof.
  induction fuel as [|fuel IH]; intros s exts Hok H.
  - destruct s; cbn in H; [|discriminate]. inversion H. split; [reflexivity | constructor].
  - destruct s as [|s0 s']; [cbn in H; inversion H; split; [reflexivity | constructor]|].
    cbn [items] in H. destruct (ext_item (s0 :: s')) as [[x r]|] eqn:E; [|discriminate].
    destruct (items ext_item fuel r) as [l|] eqn:E2; [|discriminate]. inversion H; subst exts.
    unfold ext_item in E. destruct (read_u16 (s0 :: s')) as [[id s1]|] eqn:E3; [|discriminate]. cbn [obind] in E.
    destruct (read_u16lp s1) as [[body s2]|] eqn:E4; [|discriminate]. cbn [obind] in E. inversion E; subst x r.
    destruct (read_u16_inv _ _ _ Hok E3) as (Hs & Hid & Hok1).
    destruct (read_u16lp_inv _ _ _ Hok1 E4) as (-> & Hlen & _ & Hok2).
    destruct (IH s2 l Hok2 E2) as (-> & Hall).
    split; [|constructor; [split; assumption | exact Hall]].
    rewrite Hs. cbn [flat_map]. unfold enc_ext. cbn [fst snd]. rewrite <- app_assoc. reflexivity.
Qed.

Lemma strict_parse_sound raw a : bytes_ok raw -> strict_parse raw = Some a -> raw = hello_layout a /\ ast_ok a.
Proof.
  intros Hok H. unfold strict_parse in H.
  destruct (read_u8 raw) as [[t s0]|] eqn:E0; [|discriminate]. cbn [obind] in H.
  destruct (N.eqb_spec t 1) as [->|]; [|discriminate]. cbn [negb] in H.
  apply read_u8_inv in E0. subst raw. apply bytes_ok_cons in Hok. destruct Hok as [_ Hok].
  destruct (exact (read_u24lp s0)) as [body|] eqn:E1; [|discriminate]. cbn [obind] in H.
  apply exact_inv in E1. destruct (read_u24lp_inv _ _ _ Hok E1) as (Hs0 & Hbl & Hokb & _). rewrite app_nil_r in Hs0. subst s0.
  destruct (read_u16 body) as [[vers s1]|] eqn:E2; [|discriminate]. cbn [obind] in H.
  destruct (read_u16_inv _ _ _ Hokb E2) as (-> & Hv & Hok1).
  destruct (read_bytes 32 s1) as [[random s2]|] eqn:E3; [|discriminate]. cbn [obind] in H.
  destruct (read_bytes_inv _ _ _ _ Hok1 E3) as (-> & Hr & _ & Hok2).
  destruct (read_u8lp s2) as [[sid s3]|] eqn:E4; [|discriminate]. cbn [obind] in H.
  destruct (read_u8lp_inv _ _ _ Hok2 E4) as (-> & _ & _ & Hok3).
  destruct (N.ltb_spec 32 (blen sid)) as [|Hsid]; [discriminate|].
  destruct (read_u16lp s3) as [[sb s4]|] eqn:E5; [|discriminate]. cbn [obind] in H.
  destruct (read_u16lp_inv _ _ _ Hok3 E5) as (-> & Hsbl & Hoksb & Hok4).
  destruct (nonempty sb) eqn:Hsbne; [|discriminate]. cbn [negb] in H.
  destruct (read_u16s sb) as [suites|] eqn:E6; [|discriminate]. cbn [obind] in H.
  destruct (read_u16s_inv _ sb suites (le_n _) Hoksb E6) as (-> & Hsu).
  destruct (read_u8lp s4) as [[comp s5]|] eqn:E7; [|discriminate]. cbn [obind] in H.
  destruct (read_u8lp_inv _ _ _ Hok4 E7) as (-> & Hcl & _ & Hok5).
  destruct (nonempty comp) eqn:Hcne; [|discriminate]. cbn [negb] in H.
  assert (Hsne : nonempty suites = true) by (destruct suites; [discriminate | reflexivity]).
  rewrite blen_flat_u16 in Hsbl.
  destruct (empty s5) eqn:E8.
  - inversion H; subst a. apply empty_true_iff in E8. subst s5.
    split; [reflexivity|]. unfold ast_ok. cbn [c_vers c_random c_sid c_suites c_comp c_has_exts c_exts]. tauto.
  - destruct (exact (read_u16lp s5)) as [eb|] eqn:E9; [|discriminate]. cbn [obind] in H.
    apply exact_inv in E9. destruct (read_u16lp_inv _ _ _ Hok5 E9) as (Hs5 & Hebl & Hokeb & _). rewrite app_nil_r in Hs5. subst s5.
    destruct (items ext_item (length eb) eb) as [exts|] eqn:E10; [|discriminate]. cbn [obind] in H.
    destruct (forallb (fun x => body_okb (fst x) (snd x)) exts) eqn:E11; [|discriminate]. inversion H; subst a.
    destruct (items_ext_inv _ _ _ Hokeb E10) as (-> & Hall).
    split; [reflexivity|]. unfold ast_ok. cbn [c_vers c_random c_sid c_suites c_comp c_has_exts c_exts]. tauto.
Qed.

Lemma valid_chb_spec b : valid_chb b = true <-> valid_ch b.
Proof.
  unfold valid_chb, valid_ch. split.
  - destruct (strict_parse b) as [a|]; [|discriminate]. intros H. apply andb_true_iff in H. destruct H as [H1 H2].
    exists a. split; [reflexivity|]. split; [apply nodupb_spec; exact H1 | exact H2].
  - intros (a & -> & Hnd & Hp). apply nodupb_spec in Hnd. rewrite Hnd, Hp. reflexivity.
Qed.

(* Proofs for C06: FromRaw applied to the wire image of a hello returns the
   normalised description (round trip), idempotence, length equality. *)
From UV Require Import Base.Common Model.Wire Model.Varint Model.Ext Model.ExtSpec Model.FromRaw Model.Shape
  Proofs.WireP Proofs.ExtP.
From Coq Require Import ZifyBool ZifyNat ZifyN.

(* ---- readers over concatenations ---- *)
Lemma skip_app (a r : bytes) : skip (blen a) (a ++ r) = Some r.
Proof. unfold skip. rewrite read_bytes_app. reflexivity. Qed.

Lemma skip2 x r : skip 2 (enc_u16 x ++ r) = Some r.
Proof. exact (skip_app (enc_u16 x) r). Qed.
Lemma skip3 x r : skip 3 (enc_u24 x ++ r) = Some r.
Proof. exact (skip_app (enc_u24 x) r). Qed.

Lemma all_u16b_spec l : all_u16b l = true -> all_u16 l = true.
Proof. intros H. exact H. Qed.

Lemma read_cipher_suites_flat l : all_u16b l = true ->
  read_cipher_suites (flat_map enc_u16 l) = Ok (map ungrease l).
Proof. intros H. unfold read_cipher_suites. rewrite (read_u16s_flat l (all_u16b_spec l H)). reflexivity. Qed.

(* ---- one extension on the wire ---- *)
Lemma ext_wire_present e : rt_ok e = true -> ext_wire e = enc_u16 (ext_id e) ++ enc_u16lp (ext_body e).
Proof. intros H. destruct (rt_parts e H) as [_ Ha]. unfold ext_wire. rewrite Ha. reflexivity. Qed.

Lemma rt_body_lt e : rt_ok e = true -> blen (ext_body e) < 65536 /\ ext_id e < 65536.
Proof.
  intros H. destruct (rt_parts e H) as [Hwf Ha]. destruct (wf_parts e Hwf) as (_ & Hf & Hl).
  pose proof (read_layout e Hwf) as HL. rewrite Ha in HL. destruct HL as [_ HB].
  split; [lia | apply ext_id_u16; exact Hf].
Qed.

Lemma ext_wire_len e : wf_ext e = true -> blen (ext_wire e) = ext_len e.
Proof.
  intros Hwf. pose proof (read_layout e Hwf) as HL. unfold ext_wire.
  destruct (ext_absent e); destruct HL as [_ HB].
  - rewrite HB. reflexivity.
  - rewrite blen_app, blen_enc_u16, blen_enc_u16lp. lia.
Qed.

(* Read really writes ext_wire (C08_read_layout, restated for this file's vocabulary) *)
Lemma ext_wire_is_read e : wf_ext e = true -> ext_read e (ext_len e) = Ok (ext_wire e).
Proof.
  intros Hwf. pose proof (read_layout e Hwf) as HL. unfold ext_wire.
  destruct (ext_absent e); destruct HL as [HR _]; exact HR.
Qed.

Lemma read_one_ext_rt blunt real e : rt_ok e = true ->
  read_one_ext blunt real (ext_id e) (ext_body e) = Ok (fp_norm real e).
Proof.
  intros H. unfold read_one_ext, fp_norm, ext_write_realpsk.
  destruct real; cbn [andb].
  - destruct (ext_id e =? ID_PSK); [reflexivity|]. rewrite (write_read e H). reflexivity.
  - rewrite (write_read e H). reflexivity.
Qed.

Lemma length_exts_block es : forallb rt_ok es = true -> (length es <= length (exts_block es))%nat.
Proof.
  induction es as [|e r IH]; cbn [forallb exts_block flat_map length]; intros H; [lia|].
  apply andb_prop in H as [He Hr]. specialize (IH Hr).
  rewrite app_length, (ext_wire_present e He). unfold exts_block in IH. cbn [enc_u16 app length]. lia.
Qed.

Lemma read_tls_extensions_block blunt real : forall es fuel,
  forallb rt_ok es = true -> (length es <= fuel)%nat ->
  read_tls_extensions fuel blunt real (exts_block es) = Ok (map (fp_norm real) es, has_versions es).
Proof.
  induction es as [|e r IH]; intros fuel H Hf.
  - destruct fuel; reflexivity.
  - cbn [forallb] in H. apply andb_prop in H as [He Hr].
    destruct fuel as [|k]; [cbn in Hf; lia|].
    destruct (rt_body_lt e He) as [Hb Hi].
    cbn [exts_block flat_map]. rewrite (ext_wire_present e He).
    change (flat_map ext_wire r) with (exts_block r).
    rewrite <- app_assoc.
    assert (Hnz : exists x t, enc_u16 (ext_id e) ++ enc_u16lp (ext_body e) ++ exts_block r = x :: t)
      by (eexists; eexists; reflexivity).
    destruct Hnz as (x & t & Hxt).
    cbn [read_tls_extensions]. rewrite Hxt. rewrite <- Hxt.
    rewrite (read_enc_u16 (ext_id e) _ Hi).
    rewrite (read_enc_u16lp (ext_body e) (exts_block r) Hb).
    rewrite (read_one_ext_rt blunt real e He). cbn [bind].
    rewrite (IH k Hr ltac:(cbn in Hf; lia)). cbn [bind fst snd map has_versions existsb]. reflexivity.
Qed.

(* ---- fp_roundtrip ---- *)
Lemma from_raw_record blunt real h : hello_ok h = true ->
  from_raw blunt real (hello_record h) = Ok (fp_spec real h).
Proof.
  unfold hello_ok. rewrite !andb_true_iff.
  intros [[[[[[[Hv Hr] Hsid] Hsu] Hsl] Hc] He] Hb].
  unfold from_raw, fp_spec.
  set (L := blen (hello_record h)).
  unfold hello_record.
  cbn [app read_u8 obind read_u16]. rewrite skip2. cbn [obind].
  replace (3 * 256 + 1 =? recordTypeHandshake) with false by reflexivity.
  replace (22 =? recordTypeHandshake) with true by reflexivity. cbn [negb].
  cbn [app read_u8 obind]. rewrite skip3. cbn [obind].
  unfold hello_body. rewrite (read_enc_u16 (h_vers h) _ ltac:(lia)). cbn [obind].
  replace 32 with (blen (h_random h)) by lia. rewrite skip_app. cbn [obind].
  replace (1 =? typeClientHello) with true by reflexivity. cbn [negb].
  rewrite (read_enc_u8lp (h_sid h) _ ltac:(lia)).
  rewrite (read_enc_u16lp (flat_map enc_u16 (h_suites h)) _ ltac:(rewrite blen_flat_u16; lia)).
  rewrite (read_cipher_suites_flat _ Hsu). cbn [bind].
  rewrite (read_enc_u8lp (h_comp h) _ ltac:(lia)).
  destruct (h_exts h) as [|e0 es0] eqn:Hes.
  - cbn [empty map install_pad_to has_versions existsb]. reflexivity.
  - rewrite <- Hes in *.
    assert (Hne : empty (enc_u16lp (exts_block (h_exts h))) = false) by reflexivity.
    rewrite Hne. rewrite (read_enc_u16lp_nil (exts_block (h_exts h)) ltac:(lia)).
    rewrite (read_tls_extensions_block blunt real (h_exts h) _ He (length_exts_block _ He)). cbn [bind].
    destruct (install_pad_to (map (fp_norm real) (h_exts h))) as [es' padded]. reflexivity.
Qed.

(* ---- idempotence: hellos of the same shape fingerprint to the same spec (up to the
   recorded padding target and the random ECH-GREASE bytes) ---- *)
Lemma install_pad_to_mask es :
  map ech_mask (fst (install_pad_to es)) = fst (install_pad_to (map ech_mask es))
  /\ snd (install_pad_to es) = snd (install_pad_to (map ech_mask es)).
Proof.
  induction es as [|e r [IH1 IH2]]; [split; reflexivity|].
  destruct e; cbn [install_pad_to map ech_mask];
    try (destruct (install_pad_to r) as [r1 f1]; destruct (install_pad_to (map ech_mask r)) as [r2 f2];
         cbn [fst snd map ech_mask] in *; split; [f_equal; exact IH1 | exact IH2]).
  split; reflexivity.
Qed.

Lemma fp_spec_same_shape real h1 h2 : same_shape real h1 h2 ->
  sp_suites (fp_spec real h1) = sp_suites (fp_spec real h2)
  /\ sp_comp (fp_spec real h1) = sp_comp (fp_spec real h2)
  /\ sp_vmin (fp_spec real h1) = sp_vmin (fp_spec real h2)
  /\ sp_vmax (fp_spec real h1) = sp_vmax (fp_spec real h2)
  /\ map ech_mask (sp_exts (fp_spec real h1)) = map ech_mask (sp_exts (fp_spec real h2)).
Proof.
  intros (Hv & Hs & Hc & Hhv & He). unfold fp_spec.
  pose proof (install_pad_to_mask (map (fp_norm real) (h_exts h1))) as [A1 _].
  pose proof (install_pad_to_mask (map (fp_norm real) (h_exts h2))) as [A2 _].
  destruct (install_pad_to (map (fp_norm real) (h_exts h1))) as [e1 p1].
  destruct (install_pad_to (map (fp_norm real) (h_exts h2))) as [e2 p2].
  cbn [sp_suites sp_comp sp_exts sp_vmin sp_vmax fst] in *. rewrite Hhv, Hv. repeat split; try assumption.
  rewrite A1, A2, He. reflexivity.
Qed.

(* ---- lengths ---- *)
Lemma blen_exts_block_eq es1 es2 :
  Forall2 (fun a b => blen (ext_wire a) = blen (ext_wire b)) es1 es2 -> blen (exts_block es1) = blen (exts_block es2).
Proof.
  induction 1 as [|a b r1 r2 Hab _ IH]; [reflexivity|].
  cbn [exts_block flat_map]. rewrite !blen_app. unfold exts_block in IH. lia.
Qed.

Lemma hello_record_len h1 h2 : same_sizes h1 h2 -> blen (hello_record h1) = blen (hello_record h2).
Proof.
  intros (Hr & Hs & Hsu & Hc & He).
  assert (Hb : blen (hello_body h1) = blen (hello_body h2)).
  { unfold hello_body. pose proof (blen_exts_block_eq _ _ He) as Hx.
    destruct (h_exts h1) as [|a1 r1]; destruct (h_exts h2) as [|a2 r2]; inversion He; subst;
      rewrite !blen_app, !blen_enc_u8lp, !blen_enc_u16lp, !blen_flat_u16, !blen_enc_u16.
    - rewrite ?blen_nil. lia.
    - rewrite ?blen_enc_u16lp. lia. }
  unfold hello_record. rewrite !blen_app, !blen_enc_u16, !blen_enc_u24. cbn [blen length]. unfold blen in *. lia.
Qed.

(* Preservation of the C20 invariant by BuildHandshakeStateWithoutSession and BuildHandshakeState (split from SessionP.v for build time). *)
From UV Require Import Base.Common Model.Session Proofs.SessionP.
From Coq Require Import ZifyBool ZifyNat ZifyN.

Lemma ok_BuildNoSess : forall w l i s l', world_ok w = true -> w_golang w = false -> invb w l i s = true ->
  legal_step w l BuildNoSess = Some l' -> ok_after w l i s BuildNoSess l'.
Proof. start. all: solve_op. Qed.

Lemma ok_Build : forall w l i s l', world_ok w = true -> w_golang w = false -> invb w l i s = true ->
  legal_step w l Build = Some l' -> ok_after w l i s Build l'.
Proof. start. all: solve_op. Qed.


From UV Require Import Base.Common Model.Prng.
From Coq Require Import QArith ZifyBool ZifyNat ZifyN Lqa.
Open Scope N_scope.

Lemma pos_land_le p q : Pos.land p q <= N.pos q.
Proof.
  revert q. induction p as [p IH|p IH|]; intros [q|q|]; cbn [Pos.land]; try lia;
  try (specialize (IH q); destruct (Pos.land p q); cbn [Pos.Nsucc_double Pos.Ndouble]; lia).
Qed.
Lemma land_le a b : N.land a b <= b.
Proof. destruct a as [|p], b as [|q]; cbn [N.land]; try lia. apply pos_land_le. Qed.

Lemma reject_le fuel next mx v s v' s' : reject fuel next mx v s = Some (v', s') -> v' <= mx.
Proof.
  revert v s. induction fuel as [|k IH]; intros v s; cbn [reject].
  - destruct (v <=? mx) eqn:E; [intros [= <- <-]; lia|discriminate].
  - destruct (v <=? mx) eqn:E; [intros [= <- <-]; lia|].
    destruct (next s) as [[v1 s1]|]; [apply IH|discriminate].
Qed.

Lemma int31n_range fuel n s v r : 0 < n -> int31n fuel n s = Some (v, r) -> v < n.
Proof.
  intros Hn. unfold int31n. destruct (N.land n (n - 1) =? 0).
  - destruct (int31 s) as [[v0 r0]|]; [|discriminate]. intros [= <- <-].
    pose proof (land_le v0 (n - 1)). lia.
  - destruct (int31 s) as [[v0 r0]|]; [|discriminate].
    destruct (reject _ _ _ _ _) as [[v1 r1]|]; [|discriminate]. intros [= <- <-].
    apply N.mod_lt. lia.
Qed.

Lemma int63n_range fuel n s v r : 0 < n -> int63n fuel n s = Some (v, r) -> v < n.
Proof.
  intros Hn. unfold int63n. destruct (N.land n (n - 1) =? 0).
  - destruct (int63 s) as [[v0 r0]|]; [|discriminate]. intros [= <- <-].
    pose proof (land_le v0 (n - 1)). lia.
  - destruct (int63 s) as [[v0 r0]|]; [|discriminate].
    destruct (reject _ _ _ _ _) as [[v1 r1]|]; [|discriminate]. intros [= <- <-].
    apply N.mod_lt. lia.
Qed.

(* Intn / Int63n: in [0,n) for n > 0; 0 and no draw for n <= 0 *)
Lemma intn_spec fuel n s v r : intn fuel n s = Some (v, r) ->
  ((n <= 0)%Z -> v = 0%Z /\ r = s) /\ ((0 < n)%Z -> (0 <= v < n)%Z).
Proof.
  unfold intn. destruct (n <=? 0)%Z eqn:E.
  - intros [= <- <-]. split; [auto|lia].
  - destruct (rand_intn fuel (Z.to_N n) s) as [[v0 r0]|] eqn:R; [|discriminate]. intros [= <- <-].
    split; [lia|]. intros Hn. unfold rand_intn in R.
    assert (v0 < Z.to_N n).
    { destruct (Z.to_N n <=? 2147483647); [eapply int31n_range|eapply int63n_range]; eauto; lia. }
    lia.
Qed.

Lemma p_int63n_spec fuel n s v r : p_int63n fuel n s = Some (v, r) ->
  ((n <= 0)%Z -> v = 0%Z /\ r = s) /\ ((0 < n)%Z -> (0 <= v < n)%Z).
Proof.
  unfold p_int63n. destruct (n <=? 0)%Z eqn:E.
  - intros [= <- <-]. split; [auto|lia].
  - destruct (int63n fuel (Z.to_N n) s) as [[v0 r0]|] eqn:R; [|discriminate]. intros [= <- <-].
    split; [lia|]. intros Hn. assert (v0 < Z.to_N n) by (eapply int63n_range; eauto; lia). lia.
Qed.

Definition is_int (x : Z) : Prop := (-9223372036854775808 <= x <= 9223372036854775807)%Z.
Lemma wrap64_id x : is_int x -> wrap64 x = x.
Proof. unfold is_int, wrap64. intros H. rewrite Z.mod_small by lia. lia. Qed.

(* Range: result in [max(min,0), max], or the clamped minimum when max is below it.
   Stated for Go ints (64-bit), with the wrap-around of max-min+1 included. *)
Lemma range_spec fuel mn mx s v r : is_int mn -> is_int mx -> range fuel mn mx s = Some (v, r) ->
  let lo := Z.max mn 0 in
  ((mx < lo)%Z -> v = lo) /\ ((lo <= mx)%Z -> (lo <= v <= mx)%Z).
Proof.
  intros Hmn Hmx. unfold range. cbv zeta.
  set (lo := if (mn <? 0)%Z then 0%Z else mn).
  assert (Hlo : lo = Z.max mn 0) by (subst lo; destruct (mn <? 0)%Z eqn:E; lia).
  rewrite <- Hlo. assert (Hlo0 : (0 <= lo)%Z) by lia.
  destruct (mx <? lo)%Z eqn:E.
  - intros [= <- <-]. split; [auto|lia].
  - destruct (intn fuel (wrap64 (mx - lo + 1)) s) as [[n0 r0]|] eqn:I; [|discriminate]. intros [= <- <-].
    split; [lia|]. intros _. apply intn_spec in I. destruct I as [I0 I1].
    unfold is_int in *.
    destruct (Z.eq_dec (mx - lo + 1) 9223372036854775808) as [Hov|Hno].
    + (* min = 0, max = MaxInt64: max-min+1 wraps to MinInt64, Intn returns 0 *)
      assert (W : wrap64 (mx - lo + 1) = (-9223372036854775808)%Z) by (rewrite Hov; reflexivity).
      rewrite W in I0. destruct I0 as [-> _]; [lia|]. rewrite wrap64_id by (unfold is_int; lia). lia.
    + rewrite wrap64_id in I1 by (unfold is_int; lia). specialize (I1 ltac:(lia)).
      rewrite wrap64_id by (unfold is_int; lia). lia.
Qed.

(* ---- FlipWeightedCoin, for any rounding function with the IEEE-754 laws ---- *)
Section FlipLaws.
  Variable rnd : Q -> Q.
  Hypothesis rnd_mono : forall x y, (x <= y)%Q -> (rnd x <= rnd y)%Q.
  Hypothesis rnd_0 : (rnd 0 == 0)%Q.
  Hypothesis rnd_1 : (rnd 1 == 1)%Q.
  Hypothesis rnd_two63 : (rnd (inject_Z 9223372036854775808) == inject_Z 9223372036854775808)%Q.
  Hypothesis rnd_ulp : (rnd (1 / inject_Z 9223372036854775808) == 1 / inject_Z 9223372036854775808)%Q.
  Hypothesis rnd_ext : forall x y, (x == y)%Q -> (rnd x == rnd y)%Q.

  Lemma unit_le_1 i : i < 9223372036854775808 -> (unit_float rnd i <= 1)%Q.
  Proof.
    intros Hi. unfold unit_float.
    assert (A : (rnd (inject_Z (Z.of_N i)) <= inject_Z 9223372036854775808)%Q).
    { rewrite <- rnd_two63. apply rnd_mono. rewrite <- Zle_Qle. lia. }
    rewrite <- rnd_1. apply rnd_mono.
    apply Qle_shift_div_r; [reflexivity|]. rewrite Qmult_1_l. exact A.
  Qed.

  Lemma unit_ge_0 i : (0 <= unit_float rnd i)%Q.
  Proof.
    unfold unit_float. rewrite <- rnd_0. apply rnd_mono.
    apply Qle_shift_div_l; [reflexivity|]. rewrite Qmult_0_l.
    rewrite <- rnd_0. apply rnd_mono. change 0%Q with (inject_Z 0). rewrite <- Zle_Qle. lia.
  Qed.

  Lemma unit_pos i : 0 < i -> (0 < unit_float rnd i)%Q.
  Proof.
    intros Hi. unfold unit_float.
    assert (A : (1 <= rnd (inject_Z (Z.of_N i)))%Q).
    { rewrite <- rnd_1. apply rnd_mono. change 1%Q with (inject_Z 1). rewrite <- Zle_Qle. lia. }
    eapply Qlt_le_trans with (y := (1 / inject_Z 9223372036854775808)%Q); [reflexivity|].
    rewrite <- rnd_ulp. apply rnd_mono.
    apply Qle_shift_div_l; [reflexivity|].
    unfold Qdiv. rewrite <- Qmult_assoc, (Qmult_comm (/ _)), Qmult_inv_r by discriminate.
    rewrite Qmult_1_r. exact A.
  Qed.

  Lemma unit_zero : (unit_float rnd 0 == 0)%Q.
  Proof.
    unfold unit_float. cbn [Z.of_N]. change (inject_Z 0) with 0%Q.
    rewrite (rnd_ext (rnd 0 / inject_Z 9223372036854775808) 0); [exact rnd_0|].
    rewrite rnd_0. reflexivity.
  Qed.

  (* weight <= 0 (incl. -Inf): always false *)
  Lemma flip_le0 w i : i < 9223372036854775808 ->
    (match w with WFin q => (q <= 0)%Q | WInf neg => neg = true | WNaN => False end) ->
    flip_with rnd w i = false.
  Proof.
    intros Hi Hw. unfold flip_with. destruct w as [|neg|q]; [contradiction| |].
    - subst neg. reflexivity.
    - cbn [clamp]. destruct (Qlt_le_dec 1 q) as [H1|H1]; [lra|].
      cbn [one_minus gt]. destruct (Qlt_le_dec _ _) as [Hlt|]; [|reflexivity].
      exfalso. pose proof (unit_le_1 i Hi) as U.
      assert (T : (1 <= rnd (1 - q))%Q) by (rewrite <- rnd_1 at 1; apply rnd_mono; lra).
      lra.
  Qed.

  (* weight >= 1 (incl. +Inf): true exactly when the Int63 draw is non-zero *)
  Lemma flip_ge1 w i :
    (match w with WFin q => (1 <= q)%Q | WInf neg => neg = false | WNaN => False end) ->
    flip_with rnd w i = negb (i =? 0).
  Proof.
    intros Hw. unfold flip_with.
    assert (C : exists q1, clamp w = WFin q1 /\ (q1 == 1)%Q).
    { destruct w as [|neg|q]; [contradiction| |].
      - subst neg. exists 1%Q. split; reflexivity.
      - cbn [clamp]. destruct (Qlt_le_dec 1 q); [exists 1%Q; split; reflexivity|exists q; split; [reflexivity|lra]]. }
    destruct C as (q1 & -> & Hq1). cbn [one_minus gt].
    assert (T : (rnd (1 - q1) == 0)%Q) by (rewrite (rnd_ext (1 - q1) 0) by lra; exact rnd_0).
    destruct (i =? 0) eqn:E.
    - apply N.eqb_eq in E. subst i. cbn [negb]. destruct (Qlt_le_dec _ _) as [Hlt|]; [|reflexivity].
      pose proof unit_zero. lra.
    - apply N.eqb_neq in E. cbn [negb]. destruct (Qlt_le_dec _ _) as [|Hle]; [reflexivity|].
      pose proof (unit_pos i ltac:(lia)). lra.
  Qed.

  Lemma flip_nan i : flip_with rnd WNaN i = false.
  Proof. reflexivity. Qed.
End FlipLaws.

(* The draw itself: Int63 is below 2^63 *)
Lemma int63_lt s i r : int63 s = Some (i, r) -> i < 9223372036854775808.
Proof.
  unfold int63. destruct (uint64 s) as [[u r0]|]; [|discriminate]. intros [= <- <-].
  pose proof (land_le u 9223372036854775807). lia.
Qed.

(* Proofs for Model/GoCH.v, part 5: parse -> clear Raw -> marshal -> parse, without a well-formedness premise;
   and the one family of accepted inputs whose re-marshal fails (SCSV + a full extension block). *)
From Coq Require Import ZifyBool ZifyNat ZifyN.
From UV Require Import Base.Common Model.Public Model.GoCH Proofs.PublicP Proofs.GoCHP Proofs.GoCHP2 Proofs.GoCHP3 Proofs.GoCHP4.
Open Scope N_scope.

(* clientHelloMsg with original cleared (what Marshal sees after `Raw = nil`) *)
Definition ch_clear_raw (m : clientHelloMsg) : clientHelloMsg :=
  {| ch_original := None; ch_vers := ch_vers m; ch_random := ch_random m; ch_sessionId := ch_sessionId m;
     ch_cipherSuites := ch_cipherSuites m; ch_compressionMethods := ch_compressionMethods m; ch_serverName := ch_serverName m;
     ch_ocspStapling := ch_ocspStapling m; ch_supportedCurves := ch_supportedCurves m; ch_supportedPoints := ch_supportedPoints m;
     ch_ticketSupported := ch_ticketSupported m; ch_sessionTicket := ch_sessionTicket m;
     ch_supportedSignatureAlgorithms := ch_supportedSignatureAlgorithms m;
     ch_supportedSignatureAlgorithmsCert := ch_supportedSignatureAlgorithmsCert m;
     ch_secureRenegotiationSupported := ch_secureRenegotiationSupported m; ch_secureRenegotiation := ch_secureRenegotiation m;
     ch_extendedMasterSecret := ch_extendedMasterSecret m; ch_alpnProtocols := ch_alpnProtocols m; ch_scts := ch_scts m;
     ch_supportedVersions := ch_supportedVersions m; ch_cookie := ch_cookie m; ch_keyShares := ch_keyShares m;
     ch_earlyData := ch_earlyData m; ch_pskModes := ch_pskModes m; ch_pskIdentities := ch_pskIdentities m;
     ch_pskBinders := ch_pskBinders m; ch_quicTransportParameters := ch_quicTransportParameters m;
     ch_encryptedClientHello := ch_encryptedClientHello m; ch_extensions := ch_extensions m; ch_nextProtoNeg := ch_nextProtoNeg m |}.

Lemma clear_proj_with o e vers random sid suites comp l :
  ch_clear_raw (proj_with o e vers random sid suites comp l) = proj_with None e vers random sid suites comp l.
Proof. reflexivity. Qed.
Lemma fields_proj_with o e o' e' vers random sid suites comp l :
  ch_fields (proj_with o e vers random sid suites comp l) = ch_fields (proj_with o' e' vers random sid suites comp l).
Proof. reflexivity. Qed.

(* private level: every accepted input whose re-marshal succeeds re-parses to the same field values *)
Theorem reparse_stable b m b' : bytes_ok b -> unmarshal b = Some m -> marshalMsg (ch_clear_raw m) = Ok b' ->
  exists m', unmarshal b' = Some m' /\ ch_fields m' = ch_fields m /\ ch_original m' = Some b'.
Proof.
  intros Hb E Em. destruct (unmarshal_shape _ _ E Hb) as (vers & random & sid & suites & comp & l & -> & Hv & Hs & Hl).
  rewrite clear_proj_with in Em.
  pose proof (wf_msgb_sound _ (proj_with_wf None (map ext_id l) vers random sid suites comp l Hv Hs Hl)) as W.
  destruct (marshal_unmarshal _ _ W Em) as (m' & Hu & Hf & Ho & _).
  exists m'. split; [exact Hu|]. split; [|exact Ho]. rewrite Hf. apply fields_proj_with.
Qed.

(* public level *)
Lemma keyShares_priv_exact s : s <> Some [] -> KeyShares_ToPrivate (keyShares_ToPublic s) = s.
Proof. apply rebuild2_exact, ks_qq. Qed.
Lemma pskIdentities_priv_exact s : s <> Some [] -> PskIdentities_ToPrivate (pskIdentities_ToPublic s) = s.
Proof. apply rebuild2_exact, pi_qq. Qed.
Lemma slice_of_ne {A} (l : list A) : slice_of l <> Some [].
Proof. destruct l; discriminate. Qed.

Lemma private_of_cleared_public o e vers random sid suites comp l c :
  ch_getPublicPtr (Some (proj_with o e vers random sid suites comp l)) = Some c ->
  CH_private_of (CH_clear_raw c) = proj_with None [] vers random sid suites comp l.
Proof.
  intros E. injection E as <-. unfold CH_private_of, CH_clear_raw, proj_with.
  cbn [CH_Raw CH_Vers CH_Random CH_SessionId CH_CipherSuites CH_CompressionMethods CH_NextProtoNeg CH_ServerName CH_OcspStapling
       CH_Scts CH_Ems CH_SupportedCurves CH_SupportedPoints CH_TicketSupported CH_SessionTicket CH_SupportedSignatureAlgorithms
       CH_SecureRenegotiation CH_SecureRenegotiationSupported CH_AlpnProtocols CH_SupportedSignatureAlgorithmsCert
       CH_SupportedVersions CH_Cookie CH_KeyShares CH_EarlyData CH_PskModes CH_PskIdentities CH_PskBinders
       CH_QuicTransportParameters CH_cachedPrivateHello CH_encryptedClientHello
       ch_original ch_vers ch_random ch_sessionId ch_cipherSuites ch_compressionMethods ch_serverName ch_ocspStapling
       ch_supportedCurves ch_supportedPoints ch_ticketSupported ch_sessionTicket ch_supportedSignatureAlgorithms
       ch_supportedSignatureAlgorithmsCert ch_secureRenegotiationSupported ch_secureRenegotiation ch_extendedMasterSecret
       ch_alpnProtocols ch_scts ch_supportedVersions ch_cookie ch_keyShares ch_earlyData ch_pskModes ch_pskIdentities
       ch_pskBinders ch_quicTransportParameters ch_encryptedClientHello ch_extensions ch_nextProtoNeg].
  rewrite (keyShares_priv_exact _ (slice_of_ne _)), (pskIdentities_priv_exact _ (slice_of_ne _)). reflexivity.
Qed.

Theorem unmarshal_public_wf b c : bytes_ok b -> UnmarshalClientHello b = Some c ->
  wf_msgb (CH_private_of (CH_clear_raw c)) = true.
Proof.
  unfold UnmarshalClientHello. intros Hb E. destruct (unmarshal b) as [m|] eqn:Em; [|discriminate].
  destruct (unmarshal_shape _ _ Em Hb) as (vers & random & sid & suites & comp & l & -> & Hv & Hs & Hl).
  rewrite (private_of_cleared_public _ _ _ _ _ _ _ _ _ E). now apply proj_with_wf.
Qed.

Theorem reparse_stable_pub b c b' : bytes_ok b -> UnmarshalClientHello b = Some c -> Marshal (CH_clear_raw c) = Ok b' ->
  exists c', UnmarshalClientHello b' = Some c' /\ CH_values c' = CH_values c /\ CH_Raw c' = Some b'.
Proof. intros Hb E Em. exact (reparse_pub_checked _ _ (unmarshal_public_wf _ _ Hb E) Em). Qed.

(* ---------- the exception: an accepted ClientHello whose re-marshal fails ----------
   unmarshal sets secureRenegotiationSupported when the cipher suites contain TLS_EMPTY_RENEGOTIATION_INFO_SCSV
   (handshake_messages.go:470), and marshalMsg then emits a renegotiation_info extension (5 bytes) that the input did
   not have (:144).  With an extension block that is already 65535 bytes long the block no longer fits its 2-byte
   length prefix and the builder fails.  Witness: suites = [SCSV], one cookie extension with a 65529-byte cookie. *)
Definition scsv_witness : bytes :=
  let exts := [0; 44] ++ enc_u16 65531 ++ enc_u16 65529 ++ repeat 7 (N.to_nat 65529) in
  let body := [3; 3] ++ repeat 0 32 ++ [0] ++ [0; 2; 0; 255] ++ [1; 0] ++ enc_u16 65535 ++ exts in
  1 :: enc_u24 (len body) ++ body.

Lemma scsv_witness_fact :
  bytes_okb scsv_witness &&
  match unmarshal scsv_witness with
  | Some m => negb (is_ok (marshalMsg (ch_clear_raw m))) && (len (ch_cookie m) =? 65529) && ch_secureRenegotiationSupported m
  | None => false end = true.
Proof. vm_compute. reflexivity. Qed.

Definition reparse_full : Prop :=
  forall b m, bytes_ok b -> unmarshal b = Some m ->
  exists b' m', marshalMsg (ch_clear_raw m) = Ok b' /\ unmarshal b' = Some m' /\ ch_fields m' = ch_fields m.

Theorem reparse_full_refuted : ~ reparse_full.
Proof.
  intros H. pose proof scsv_witness_fact as F. apply andb_true_iff in F as [Fb F].
  apply bytes_okb_spec in Fb. destruct (unmarshal scsv_witness) as [m|] eqn:E; [|discriminate].
  destruct (H _ _ Fb E) as (b' & m' & Em & _). rewrite Em in F. discriminate.
Qed.

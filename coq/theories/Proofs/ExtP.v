(* Proofs about Model/Ext.v against Model/ExtSpec.v: Len/Read agreement, short
   buffers, layout (inner prefixes), Write after Read = normalisation. *)
From UV Require Import Base.Common Model.Wire Model.Varint Model.Ext Model.ExtSpec Proofs.WireP.
From Coq Require Import ZifyBool ZifyNat ZifyN.
Ltac Zify.zify_post_hook ::= Z.div_mod_to_equations.

Arguments N.modulo : simpl never.
Arguments N.div : simpl never.
Arguments N.mul : simpl never.
Arguments N.add : simpl never.
Arguments N.sub : simpl never.
Arguments N.eqb : simpl never.
Arguments N.ltb : simpl never.
Arguments N.leb : simpl never.

(* ---- sizes of the loops' outputs ---- *)
Lemma blen_protos_bytes ps : blen (protos_bytes ps) = protos_len ps.
Proof.
  unfold protos_bytes, protos_len. rewrite blen_flat_map. apply sum_map_ext. intros s.
  now rewrite blen_app, blen_enc_u8.
Qed.
Lemma protos_bytes_spec ps : protos_bytes ps = flat_map enc_u8lp ps.
Proof. reflexivity. Qed.
Lemma blen_key_shares_bytes ks : blen (key_shares_bytes ks) = key_shares_len ks.
Proof.
  unfold key_shares_bytes, key_shares_len. rewrite blen_flat_map. apply sum_map_ext. intros k.
  rewrite !blen_app, !blen_enc_u16. lia.
Qed.
Lemma key_shares_bytes_spec ks :
  key_shares_bytes ks = flat_map (fun k => enc_u16 (fst k) ++ enc_u16lp (snd k)) ks.
Proof. reflexivity. Qed.
Lemma blen_psk_ids ids :
  blen (flat_map (fun i : psk_identity => enc_u16 (blen (fst i)) ++ fst i ++ enc_u32 (snd i)) ids) = psk_ids_len ids.
Proof.
  unfold psk_ids_len. rewrite blen_flat_map. apply sum_map_ext. intros i.
  rewrite !blen_app, blen_enc_u16, blen_enc_u32. lia.
Qed.
Lemma blen_psk_binders (bs : list bytes) :
  blen (flat_map (fun b => enc_u8 (blen b) ++ b) bs) = psk_binders_len bs.
Proof.
  unfold psk_binders_len. rewrite blen_flat_map. apply sum_map_ext. intros b.
  rewrite blen_app, blen_enc_u8. lia.
Qed.

Global Hint Rewrite blen_app blen_cons blen_nil blen_enc_u8 blen_enc_u16 blen_enc_u24 blen_enc_u32
  blen_zbytes blen_flat_u16 blen_protos_bytes blen_key_shares_bytes blen_psk_ids blen_psk_binders
  blen_enc_u8lp blen_enc_u16lp N2Nat.id : blen.

Lemma psk_ext_len_pos ids bs :
  psk_ext_len ids bs = 0 \/ psk_ext_len ids bs = 4 + 2 + psk_ids_len ids + 2 + psk_binders_len bs.
Proof. destruct ids, bs; cbn [psk_ext_len]; auto. Qed.

Lemma read_psk_len n ids bs b : read_psk n ids bs = Ok b -> blen b = psk_ext_len ids bs.
Proof.
  unfold read_psk. destruct (psk_ext_len ids bs =? 0) eqn:E0.
  - intros H. inversion H. rewrite blen_nil. lia.
  - destruct (n <? psk_ext_len ids bs); [discriminate|]. intros H. inversion H; subst b.
    autorewrite with blen. destruct (psk_ext_len_pos ids bs); lia.
Qed.
Lemma read_psk_short n ids bs : n < psk_ext_len ids bs -> read_psk n ids bs = Err E_SHORT.
Proof.
  intros H. unfold read_psk. destruct (psk_ext_len ids bs =? 0) eqn:E0; [lia|].
  destruct (n <? psk_ext_len ids bs) eqn:E; [reflexivity|lia].
Qed.

Ltac guard_tac :=
  unfold guarded in *;
  repeat match goal with
  | |- context [if ?c then _ else _] => let E := fresh "E" in destruct c eqn:E
  | H : context [if ?c then _ else _] |- _ => let E := fresh "E" in destruct c eqn:E
  end.

(* ---- T1: Len() equals the number of bytes Read() writes ---- *)
Lemma len_read e n b : state_ok e = true -> ext_read e n = Ok b -> blen b = ext_len e.
Proof.
  intros Hs H. destruct e; cbn [ext_read ext_len] in *;
  try (guard_tac; try discriminate; inversion H; subst b; autorewrite with blen; lia).
  - (* QUIC *) destruct (marshal_tps tps) as [m| |]; cbn [bind] in H; try discriminate.
    guard_tac; try discriminate. inversion H; subst b. autorewrite with blen. lia.
  - (* UtlsPSK *) cbn [state_ok] in Hs.
    destruct (negb omit && (utls_psk_len has_session cached ids binders =? 0)); [discriminate|].
    apply read_psk_len in H. rewrite H. unfold utls_psk_len.
    destruct has_session; cbn [negb]; [destruct cached; lia|lia].
  - (* FakePSK *)
    destruct (negb omit && (psk_ext_len ids binders =? 0)); [discriminate|].
    destruct (negb (forallb (fun b0 => valid_binder_len (blen b0)) binders)); [discriminate|].
    now apply read_psk_len in H.
Qed.

(* ---- T2: any shorter buffer gives io.ErrShortBuffer (and no bytes) ---- *)
Lemma read_short e n : state_ok e = true -> n < ext_len e -> ext_read e n = Err E_SHORT.
Proof.
  intros Hs H. destruct e; cbn [ext_read ext_len] in *;
  try (guard_tac; solve [reflexivity | lia]).
  - (* QUIC *) destruct (marshal_tps tps) as [m| |]; cbn [bind]; try lia.
    guard_tac; solve [reflexivity | lia].
  - (* UtlsPSK *) cbn [state_ok] in Hs. unfold utls_psk_len in *.
    destruct has_session; cbn [negb] in *; [|lia].
    assert (Hl : psk_ext_len ids binders = match cached with Some c => c | None => psk_ext_len ids binders end)
      by (destruct cached; lia).
    rewrite <- Hl in *.
    destruct (psk_ext_len ids binders =? 0) eqn:E0; [lia|]. rewrite andb_false_r.
    now apply read_psk_short.
  - (* FakePSK *) cbn [state_ok] in Hs. rewrite Hs. cbn [negb].
    destruct (psk_ext_len ids binders =? 0) eqn:E0; [lia|]. rewrite andb_false_r.
    now apply read_psk_short.
Qed.

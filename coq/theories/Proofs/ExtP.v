(* Proofs about Model/Ext.v against Model/ExtSpec.v: Len/Read agreement, short
   buffers, layout (inner prefixes), Write after Read = normalisation. *)
From UV Require Import Base.Common Model.Wire Model.Varint Model.Ext Model.ExtSpec Proofs.WireP.
From Coq Require Import ZifyBool ZifyNat ZifyN.
Ltac Zify.zify_post_hook ::= Z.div_mod_to_equations.

Arguments N.modulo : simpl never.
Arguments N.div : simpl never.
Arguments N.mul : simpl never.
Arguments N.add : simpl never.
Arguments N.sub : simpl never.
Arguments N.eqb : simpl never.
Arguments N.ltb : simpl never.
Arguments N.leb : simpl never.

(* ---- sizes of the loops' outputs ---- *)
Lemma blen_protos_bytes ps : blen (protos_bytes ps) = protos_len ps.
Proof.
  unfold protos_bytes, protos_len. rewrite blen_flat_map. apply sum_map_ext. intros s.
  now rewrite blen_app, blen_enc_u8.
Qed.
Lemma protos_bytes_spec ps : protos_bytes ps = flat_map enc_u8lp ps.
Proof. reflexivity. Qed.
Lemma blen_key_shares_bytes ks : blen (key_shares_bytes ks) = key_shares_len ks.
Proof.
  unfold key_shares_bytes, key_shares_len. rewrite blen_flat_map. apply sum_map_ext. intros k.
  rewrite !blen_app, !blen_enc_u16. lia.
Qed.
Lemma key_shares_bytes_spec ks :
  key_shares_bytes ks = flat_map (fun k => enc_u16 (fst k) ++ enc_u16lp (snd k)) ks.
Proof. reflexivity. Qed.
Lemma blen_psk_ids ids :
  blen (flat_map (fun i : psk_identity => enc_u16 (blen (fst i)) ++ fst i ++ enc_u32 (snd i)) ids) = psk_ids_len ids.
Proof.
  unfold psk_ids_len. rewrite blen_flat_map. apply sum_map_ext. intros i.
  rewrite !blen_app, blen_enc_u16, blen_enc_u32. lia.
Qed.
Lemma psk_binders_len_eq (bs : list bytes) : psk_binders_len bs = protos_len bs.
Proof. unfold psk_binders_len, protos_len. apply sum_map_ext. intros b. lia. Qed.

Global Hint Rewrite blen_app blen_cons blen_nil blen_enc_u8 blen_enc_u16 blen_enc_u24 blen_enc_u32
  blen_zbytes blen_flat_u16 blen_protos_bytes blen_key_shares_bytes blen_psk_ids psk_binders_len_eq
  blen_enc_u8lp blen_enc_u16lp N2Nat.id : blen.

Lemma psk_ext_len_pos ids bs :
  psk_ext_len ids bs = 0 \/ psk_ext_len ids bs = 4 + 2 + psk_ids_len ids + 2 + psk_binders_len bs.
Proof. destruct ids, bs; cbn [psk_ext_len]; auto. Qed.

Lemma read_psk_len n ids bs b : read_psk n ids bs = Ok b -> blen b = psk_ext_len ids bs.
Proof.
  unfold read_psk. destruct (psk_ext_len ids bs =? 0) eqn:E0.
  - intros H. inversion H. rewrite blen_nil. lia.
  - destruct (n <? psk_ext_len ids bs); [discriminate|]. intros H. inversion H; subst b.
    autorewrite with blen. destruct (psk_ext_len_pos ids bs) as [Hp|Hp]; rewrite ?psk_binders_len_eq in Hp; lia.
Qed.
Lemma read_psk_short n ids bs : n < psk_ext_len ids bs -> read_psk n ids bs = Err E_SHORT.
Proof.
  intros H. unfold read_psk. destruct (psk_ext_len ids bs =? 0) eqn:E0; [lia|].
  destruct (n <? psk_ext_len ids bs) eqn:E; [reflexivity|lia].
Qed.

Ltac guard_tac :=
  unfold guarded in *;
  repeat match goal with
  | |- context [if ?c then _ else _] => let E := fresh "E" in destruct c eqn:E
  | H : context [if ?c then _ else _] |- _ => let E := fresh "E" in destruct c eqn:E
  end.

(* ---- T1: Len() equals the number of bytes Read() writes ---- *)
Lemma len_read e n b : state_ok e = true -> ext_read e n = Ok b -> blen b = ext_len e.
Proof.
  intros Hs H. destruct e; cbn [ext_read ext_len] in *;
  try (guard_tac; try discriminate; inversion H; subst b; autorewrite with blen; lia).
  - (* QUIC *) destruct (marshal_tps tps) as [m| |]; cbn [bind] in H; try discriminate.
    guard_tac; try discriminate. inversion H; subst b. autorewrite with blen. lia.
  - (* UtlsPSK *) cbn [state_ok] in Hs.
    destruct (utls_psk_len has_session cached ids binders =? 0) eqn:E0.
    + destruct (negb omit); [discriminate|]. inversion H. rewrite blen_nil. lia.
    + apply read_psk_len in H. rewrite H. unfold utls_psk_len in *.
      destruct has_session; cbn [negb] in *; [destruct cached; lia|lia].
  - (* FakePSK *)
    destruct (negb omit && (psk_ext_len ids binders =? 0)); [discriminate|].
    destruct (negb (forallb (fun b0 => valid_binder_len (blen b0)) binders)); [discriminate|].
    now apply read_psk_len in H.
Qed.

(* without any premise: a FakePreSharedKeyExtension with a binder of another size is refused by Read *)
Lemma len_read_any e n b : ext_read e n = Ok b -> blen b = ext_len e.
Proof.
  intros H. destruct (state_ok e) eqn:Hs; [now apply (len_read e n b)|].
  destruct e; cbn [state_ok] in Hs; try discriminate.
  cbn [ext_read] in H. rewrite Hs in H. cbn [negb] in H.
  destruct (negb omit && (psk_ext_len ids binders =? 0)); discriminate.
Qed.

(* ---- T2: any shorter buffer gives io.ErrShortBuffer (and no bytes) ---- *)
Lemma read_short e n : state_ok e = true -> n < ext_len e -> ext_read e n = Err E_SHORT.
Proof.
  intros Hs H. destruct e; cbn [ext_read ext_len] in *;
  try (guard_tac; solve [reflexivity | lia]).
  - (* QUIC *) destruct (marshal_tps tps) as [m| |]; cbn [bind]; try lia.
    guard_tac; solve [reflexivity | lia].
  - (* UtlsPSK *) cbn [state_ok] in Hs. unfold utls_psk_len in *.
    destruct has_session; cbn [negb] in *; [|lia].
    destruct (psk_ext_len ids binders =? 0) eqn:E0; [lia|].
    now apply read_psk_short.
  - (* FakePSK *) cbn [state_ok] in Hs. rewrite Hs. cbn [negb].
    destruct (psk_ext_len ids binders =? 0) eqn:E0; [lia|]. rewrite andb_false_r.
    now apply read_psk_short.
Qed.

(* ---- T3: a larger buffer changes nothing ---- *)
Lemma read_psk_enough n m ids bs :
  psk_ext_len ids bs <= n -> psk_ext_len ids bs <= m -> read_psk n ids bs = read_psk m ids bs.
Proof.
  intros Hn Hm. unfold read_psk. destruct (psk_ext_len ids bs =? 0); [reflexivity|].
  destruct (n <? psk_ext_len ids bs) eqn:E1; [lia|].
  destruct (m <? psk_ext_len ids bs) eqn:E2; [lia|]. reflexivity.
Qed.

Lemma read_enough e n : state_ok e = true -> ext_len e <= n -> ext_read e n = ext_read e (ext_len e).
Proof.
  intros Hs H. destruct e; cbn [ext_read ext_len] in *;
  try (guard_tac; solve [reflexivity | lia]).
  - (* QUIC *) destruct (marshal_tps tps) as [m| |]; cbn [bind]; try reflexivity.
    guard_tac; solve [reflexivity | lia].
  - (* UtlsPSK *) cbn [state_ok] in Hs.
    destruct (utls_psk_len has_session cached ids binders =? 0) eqn:E0; [reflexivity|].
    unfold utls_psk_len in *. destruct has_session; cbn [negb] in *; [|lia].
    apply read_psk_enough; destruct cached; lia.
  - (* FakePSK *)
    destruct (negb omit && (psk_ext_len ids binders =? 0)); [reflexivity|].
    destruct (negb (forallb (fun b0 => valid_binder_len (blen b0)) binders)); [reflexivity|].
    apply read_psk_enough; lia.
Qed.

(* ---- T4: layout. What Read writes is type, uint16 length, body, where the
   body is the combinator-form RFC layout: the header length is the body length
   and every inner prefix is the length of the vector that follows it. ---- *)
Lemma wf_parts e : wf_ext e = true -> state_ok e = true /\ fields_ok e = true /\ ext_len e <= 65539.
Proof. unfold wf_ext. rewrite !andb_true_iff. intros [[A B] C]. repeat split; try assumption. lia. Qed.

Ltac layout_tac :=
  unfold guarded; rewrite ?N.ltb_irrefl;
  unfold u16s_body, protos_body, psk_body, enc_u16lp, enc_u8lp;
  rewrite ?protos_bytes_spec, ?key_shares_bytes_spec; unfold enc_u16lp, enc_u8lp;
  autorewrite with blen; repeat rewrite <- app_assoc;
  split; [f_equal; repeat (f_equal; try lia) | try lia].

Lemma psk_ids_spec (ids : list psk_identity) :
  flat_map (fun i => enc_u16 (blen (fst i)) ++ fst i ++ enc_u32 (snd i)) ids
  = flat_map (fun i => enc_u16lp (fst i) ++ enc_u32 (snd i)) ids.
Proof. apply flat_map_ext. intros i. unfold enc_u16lp. now rewrite <- app_assoc. Qed.

Lemma blen_psk_ids_spec (ids : list psk_identity) :
  blen (flat_map (fun i => enc_u16lp (fst i) ++ enc_u32 (snd i)) ids) = psk_ids_len ids.
Proof. rewrite <- psk_ids_spec. apply blen_psk_ids. Qed.
Lemma blen_protos_spec ps : blen (flat_map enc_u8lp ps) = protos_len ps.
Proof. apply blen_protos_bytes. Qed.

Lemma read_psk_layout ids bs : psk_ext_len ids bs <> 0 ->
  read_psk (psk_ext_len ids bs) ids bs = Ok (enc_u16 ID_PSK ++ enc_u16lp (psk_body ids bs))
  /\ blen (psk_body ids bs) + 4 = psk_ext_len ids bs.
Proof.
  intros Hnz. unfold read_psk. destruct (psk_ext_len ids bs =? 0) eqn:E0; [lia|].
  rewrite N.ltb_irrefl. destruct (psk_ext_len_pos ids bs) as [Hp|Hp]; [lia|].
  rewrite psk_binders_len_eq in Hp.
  unfold psk_body. rewrite psk_ids_spec, protos_bytes_spec.
  pose proof (blen_psk_ids_spec ids) as HI. pose proof (blen_protos_spec bs) as HB.
  unfold enc_u16lp in HI |- *. rewrite !blen_app, !blen_enc_u16, HI, HB, psk_binders_len_eq.
  repeat rewrite <- app_assoc.
  split; [f_equal; repeat (f_equal; try lia) | lia].
Qed.

Lemma existsb_long_false (ps : list bytes) :
  forallb (fun p => blen p <? 256) ps = true -> existsb (fun s => 255 <? blen s) ps = false.
Proof.
  induction ps as [|p ps IH]; [reflexivity|]. cbn [forallb existsb]. intros H.
  apply andb_true_iff in H. destruct H as [Hp Hps]. rewrite (IH Hps).
  destruct (255 <? blen p) eqn:E; [lia|reflexivity].
Qed.

Lemma read_layout e : wf_ext e = true ->
  if ext_absent e then ext_read e (ext_len e) = Ok [] /\ ext_len e = 0
  else ext_read e (ext_len e) = Ok (enc_u16 (ext_id e) ++ enc_u16lp (ext_body e))
       /\ blen (ext_body e) + 4 = ext_len e.
Proof.
  intros Hwf. destruct (wf_parts e Hwf) as (Hs & Hf & Hl).
  destruct e; cbn [ext_absent ext_read ext_len ext_id ext_body state_ok fields_ok] in *;
  try (split; reflexivity);
  try (layout_tac; fail).
  - (* SNI *) destruct (blen host =? 0) eqn:E0; [split; reflexivity|]. layout_tac.
  - (* points *) rewrite N.ltb_irrefl. destruct (255 <? blen points) eqn:E; [lia|]. layout_tac.
  - (* ALPS *) rewrite N.ltb_irrefl, (existsb_long_false _ Hf). layout_tac.
  - (* ALPS new *) rewrite N.ltb_irrefl, (existsb_long_false _ Hf). layout_tac.
  - (* padding *) destruct willpad; cbn [negb]; [|split; reflexivity]. layout_tac.
  - (* compress cert *) apply andb_true_iff in Hf. destruct Hf as [_ Hf].
    rewrite N.ltb_irrefl. destruct (255 <? 2 * blen algs) eqn:E; [lia|]. layout_tac.
  - (* QUIC *) destruct (marshal_tps tps) as [m| |]; try discriminate. cbn [bind]. layout_tac.
  - (* PSK modes *) rewrite N.ltb_irrefl. destruct (255 <? blen modes) eqn:E; [lia|]. layout_tac.
  - (* versions *) apply andb_true_iff in Hf. destruct Hf as [_ Hf].
    rewrite N.ltb_irrefl. destruct (255 <? 2 * blen versions) eqn:E; [lia|]. layout_tac.
  - (* renegotiation info *) rewrite N.ltb_irrefl. destruct (255 <? blen conn) eqn:E; [lia|]. layout_tac.
  - (* token binding *) rewrite N.ltb_irrefl. destruct (255 <? blen params) eqn:E; [lia|]. layout_tac.
  - (* UtlsPSK *) rewrite !andb_true_iff in Hf. destruct Hf as [_ Hom].
    destruct (utls_psk_len has_session cached ids binders =? 0) eqn:E0.
    + destruct omit; cbn in Hom; [|discriminate]. cbn [negb]. split; [reflexivity|lia].
    + assert (Hlen : utls_psk_len has_session cached ids binders = psk_ext_len ids binders).
      { unfold utls_psk_len in *. destruct has_session; cbn [negb] in *; [destruct cached; lia|lia]. }
      rewrite Hlen in *. apply read_psk_layout. lia.
  - (* FakePSK *) rewrite !andb_true_iff in Hf. destruct Hf as [_ Hom]. rewrite Hs. cbn [negb].
    destruct (psk_ext_len ids binders =? 0) eqn:E0.
    + destruct omit; cbn in Hom; [|discriminate]. cbn [negb andb].
      split; [|lia]. unfold read_psk. now rewrite E0.
    + rewrite andb_false_r. apply read_psk_layout. lia.
Qed.

(* ---- T5: Write applied to the body Read produced gives the normalised value ---- *)
Lemma flat_u16_nonempty (l : list N) : empty l = false -> empty (flat_map enc_u16 l) = false.
Proof. destruct l; [discriminate|reflexivity]. Qed.

Lemma u16_list_write_ok code mk norm l :
  all_u16 l = true -> empty l = false -> 2 * blen l < 65536 ->
  u16_list_write code mk norm (u16s_body l) = Ok (mk (map norm l)).
Proof.
  intros Hall Hne Hlen. unfold u16_list_write, u16s_body.
  rewrite read_enc_u16lp_nil by (rewrite blen_flat_u16; lia).
  rewrite flat_u16_nonempty by exact Hne. now rewrite read_u16s_flat.
Qed.

Lemma protos_write_ok mk ps :
  forallb (fun p => blen p <? 256) ps = true -> forallb (fun p => negb (empty p)) ps = true ->
  ps <> [] -> protos_len ps < 65536 ->
  protos_write mk (protos_body ps) = Ok (mk ps).
Proof.
  intros Hlen Hne Hnil Htot. unfold protos_write, protos_body.
  rewrite read_enc_u16lp_nil by (rewrite blen_protos_spec; lia).
  assert (He : empty (flat_map enc_u8lp ps) = false).
  { destruct ps as [|p ps]; [congruence|]. reflexivity. }
  rewrite He. rewrite read_u8lps_flat; [reflexivity| |lia].
  unfold all_u8lp. rewrite forallb_forall in *. intros p Hp.
  rewrite (Hlen p Hp), (Hne p Hp). reflexivity.
Qed.

Lemma key_shares_parse_ok ks fuel :
  forallb (fun k => fst k <? 65536) ks = true -> forallb (fun k => negb (empty (snd k))) ks = true ->
  key_shares_len ks < 65536 ->
  (length (flat_map (fun k => enc_u16 (fst k) ++ enc_u16lp (snd k)) ks) <= fuel)%nat ->
  key_shares_parse fuel (flat_map (fun k => enc_u16 (fst k) ++ enc_u16lp (snd k)) ks) = Some (map norm_share ks).
Proof.
  revert fuel. induction ks as [|k ks IH]; intros fuel Hg Hne Htot Hfuel.
  - destruct fuel; reflexivity.
  - cbn [forallb] in Hg, Hne. apply andb_true_iff in Hg, Hne. destruct Hg as [Hg Hgs], Hne as [Hne Hnes].
    unfold key_shares_len in Htot. cbn [sum_map] in Htot. fold (key_shares_len ks) in Htot.
    cbn [flat_map] in *. rewrite app_length in Hfuel.
    assert (Hl1 : (2 <= length (enc_u16 (fst k) ++ enc_u16lp (snd k)))%nat) by (rewrite app_length; cbn; lia).
    destruct fuel as [|fuel]; [lia|].
    remember ((enc_u16 (fst k) ++ enc_u16lp (snd k)) ++ flat_map (fun k0 => enc_u16 (fst k0) ++ enc_u16lp (snd k0)) ks) as s eqn:Hs.
    destruct s as [|s0 s'].
    { exfalso. apply (f_equal (@length N)) in Hs. rewrite app_length in Hs. cbn [length] in Hs. lia. }
    cbn [key_shares_parse]. rewrite Hs. rewrite <- !app_assoc.
    rewrite read_enc_u16 by lia. rewrite read_enc_u16lp by lia.
    destruct (empty (snd k)) eqn:Ee; [discriminate|].
    rewrite IH; [|exact Hgs|exact Hnes|lia|lia].
    cbn [map]. unfold norm_share at 1. reflexivity.
Qed.

Lemma sni_names_ok host fuel : empty host = false -> blen host < 65536 -> (last host 0 =? 46) = false ->
  sni_names (S fuel) (0 :: enc_u16lp host) [] = Ok tt.
Proof.
  intros Hne Hlen Hdot. cbn [app sni_names read_u8].
  rewrite read_enc_u16lp_nil by exact Hlen. rewrite Hne.
  replace (negb (0 =? 0)) with false by reflexivity. cbn [negb empty]. rewrite Hdot.
  destruct fuel; reflexivity.
Qed.

(* the wrapping counters of FakePreSharedKeyExtension.Write never wrap on a well-formed body *)
Lemma psk_ids_parse_ok (ids : list psk_identity) r fuel :
  forallb (fun i => snd i <? 4294967296) ids = true -> psk_ids_len ids < 65536 -> (length ids <= fuel)%nat ->
  psk_ids_parse fuel (psk_ids_len ids) (flat_map (fun i => enc_u16lp (fst i) ++ enc_u32 (snd i)) ids ++ r)
  = Some (ids, r).
Proof.
  revert fuel. induction ids as [|i ids IH]; intros fuel Hage Htot Hfuel.
  - destruct fuel; reflexivity.
  - cbn [forallb] in Hage. apply andb_true_iff in Hage. destruct Hage as [Ha Has].
    unfold psk_ids_len in Htot |- *. cbn [sum_map] in Htot |- *. fold (psk_ids_len ids) in Htot |- *.
    cbn [length] in Hfuel. destruct fuel as [|fuel]; [lia|].
    cbn [psk_ids_parse flat_map].
    destruct (2 + blen (fst i) + 4 + psk_ids_len ids =? 0) eqn:E0; [lia|].
    unfold enc_u16lp. rewrite <- !app_assoc. rewrite read_enc_u16 by lia.
    replace ((2 + blen (fst i) + 4 + psk_ids_len ids + 65536 - 2) mod 65536)
      with (blen (fst i) + 4 + psk_ids_len ids) by lia.
    destruct (blen (fst i) + 4 + psk_ids_len ids <? blen (fst i)) eqn:E1; [lia|].
    rewrite read_bytes_app.
    replace ((blen (fst i) + 4 + psk_ids_len ids + 65536 - blen (fst i)) mod 65536)
      with (4 + psk_ids_len ids) by lia.
    rewrite read_enc_u32 by lia.
    replace ((4 + psk_ids_len ids + 65536 - 4) mod 65536) with (psk_ids_len ids) by lia.
    rewrite IH; [|exact Has|lia|lia]. destruct i; reflexivity.
Qed.

Lemma psk_binders_parse_ok (bs : list bytes) fuel :
  forallb (fun b => blen b <? 256) bs = true -> protos_len bs < 65536 -> (length bs <= fuel)%nat ->
  psk_binders_parse fuel (protos_len bs) (flat_map enc_u8lp bs) = Some bs.
Proof.
  revert fuel. induction bs as [|b bs IH]; intros fuel Hl Htot Hfuel.
  - destruct fuel; reflexivity.
  - cbn [forallb] in Hl. apply andb_true_iff in Hl. destruct Hl as [Hb Hbs].
    unfold protos_len in Htot |- *. cbn [sum_map] in Htot |- *. fold (protos_len bs) in Htot |- *.
    cbn [length] in Hfuel. destruct fuel as [|fuel]; [lia|].
    cbn [psk_binders_parse flat_map].
    destruct (1 + blen b + protos_len bs =? 0) eqn:E0; [lia|].
    unfold enc_u8lp at 1. rewrite <- !app_assoc. rewrite read_enc_u8 by lia.
    replace ((1 + blen b + protos_len bs + 65536 - 1) mod 65536) with (blen b + protos_len bs) by lia.
    destruct (blen b + protos_len bs <? blen b) eqn:E1; [lia|].
    rewrite read_bytes_app.
    replace ((blen b + protos_len bs + 65536 - blen b) mod 65536) with (protos_len bs) by lia.
    rewrite IH; [reflexivity|exact Hbs|lia|lia].
Qed.

Lemma length_le_blen (a b : bytes) : blen a <= blen b -> (length a <= length b)%nat.
Proof. unfold blen. lia. Qed.

Lemma count_le_psk_ids_len (ids : list psk_identity) : N.of_nat (length ids) <= psk_ids_len ids.
Proof.
  unfold psk_ids_len. induction ids as [|i ids IH]; [cbn; lia|]. cbn [length sum_map]. lia.
Qed.
Lemma count_le_protos_len (bs : list bytes) : N.of_nat (length bs) <= protos_len bs.
Proof.
  unfold protos_len. induction bs as [|b bs IH]; [cbn; lia|]. cbn [length sum_map]. lia.
Qed.

Lemma fake_psk_write_ok ids bs :
  forallb (fun i => snd i <? 4294967296) ids = true -> forallb (fun b => blen b <? 256) bs = true ->
  psk_ids_len ids < 65536 -> protos_len bs < 65536 ->
  fake_psk_write (psk_body ids bs) = Ok (EFakePreSharedKey false ids bs).
Proof.
  intros Ha Hb Hi Hp. pose proof Ha as Ha'. pose proof Hb as Hb'. unfold fake_psk_write, psk_body.
  assert (HL : forall X : bytes, blen X = 2 + psk_ids_len ids + (2 + protos_len bs) ->
               (length ids <= S (length X))%nat /\ (length bs <= S (length X))%nat).
  { intros X HB. unfold blen in HB.
    pose proof (count_le_psk_ids_len ids) as Hc1. pose proof (count_le_protos_len bs) as Hc2.
    clear Ha Hb Ha' Hb'. unfold psk_identity in *. split; lia. }
  match goal with |- context [psk_ids_parse (S (length ?X))] =>
    destruct (HL X) as [Hlen1 Hlen2];
    [ now rewrite blen_app, !blen_enc_u16lp, blen_psk_ids_spec, blen_protos_spec | ];
    set (fuel := S (length X)) in *; clearbody fuel
  end. clear HL.
  unfold enc_u16lp at 1. rewrite <- !app_assoc.
  rewrite read_enc_u16 by (rewrite blen_psk_ids_spec; lia). rewrite blen_psk_ids_spec.
  rewrite (psk_ids_parse_ok ids _ fuel Ha' Hi Hlen1).
  unfold enc_u16lp at 1. rewrite read_enc_u16 by (rewrite blen_protos_spec; lia). rewrite blen_protos_spec.
  rewrite (psk_binders_parse_ok bs fuel Hb' Hp Hlen2). reflexivity.
Qed.

Lemma ech_write_ok kdf aead cfg enc p :
  kdf < 65536 -> aead < 65536 -> ech_kdf_ok kdf = true -> ech_aead_ok aead = true ->
  empty enc = false -> blen enc < 65536 -> ECH_TAG_LEN <= blen p -> blen p < 65536 ->
  ech_write ([0] ++ enc_u16 kdf ++ enc_u16 aead ++ [cfg] ++ enc_u16lp enc ++ enc_u16lp p)
  = Ok (ech_mask (EGREASEECH kdf aead cfg enc p)).
Proof.
  intros Hk Ha Hkok Haok Hne Hel Hpl Hpu. unfold ech_write.
  cbn [app read_u8]. replace (negb (0 =? 0)) with false by reflexivity. cbv iota.
  rewrite read_enc_u16 by exact Hk. cbn [obind]. rewrite read_enc_u16 by exact Ha. cbn [obind].
  rewrite Hkok, Haok. cbn [negb]. cbn [app read_u8].
  rewrite read_enc_u16lp by exact Hel. rewrite read_enc_u16lp_nil by exact Hpu.
  apply empty_false_iff in Hne. destruct (blen enc =? 0) eqn:E0; [lia|].
  unfold ECH_TAG_LEN in *. destruct (blen p <? 16) eqn:E1; [lia|].
  replace ((blen p - 16) mod 65536 + 16) with (blen p) by lia.
  unfold ech_mask, blen. now rewrite !Nat2N.id.
Qed.

Lemma ech_write_short_payload kdf aead cfg enc p :
  kdf < 65536 -> aead < 65536 -> ech_kdf_ok kdf = true -> ech_aead_ok aead = true ->
  blen enc < 65536 -> blen p < ECH_TAG_LEN ->
  ech_write ([0] ++ enc_u16 kdf ++ enc_u16 aead ++ [cfg] ++ enc_u16lp enc ++ enc_u16lp p) = Err E_ECH_PAYLOAD_SHORT.
Proof.
  intros Hk Ha Hkok Haok Hel Hpl. unfold ech_write.
  cbn [app read_u8]. replace (negb (0 =? 0)) with false by reflexivity. cbv iota.
  rewrite read_enc_u16 by exact Hk. cbn [obind]. rewrite read_enc_u16 by exact Ha. cbn [obind].
  rewrite Hkok, Haok. cbn [negb]. cbn [app read_u8].
  rewrite read_enc_u16lp by exact Hel. unfold ECH_TAG_LEN in *. rewrite read_enc_u16lp_nil by lia.
  destruct (blen p <? 16) eqn:E1; [reflexivity|lia].
Qed.

Ltac step_id :=
  match goal with
  | |- context [if (?a =? ?b) then _ else _] =>
      first [ replace (a =? b) with true by (vm_compute; reflexivity)
            | replace (a =? b) with false by (vm_compute; reflexivity) ]; cbv iota
  end.

Lemma is_grease_closed v c : is_grease v = true -> is_grease c = false -> (v =? c) = false.
Proof. intros Hv Hc. destruct (N.eqb_spec v c); [subst; congruence|reflexivity]. Qed.

Lemma rt_parts e : rt_ok e = true -> wf_ext e = true /\ ext_absent e = false.
Proof. unfold rt_ok. rewrite !andb_true_iff, negb_true_iff. tauto. Qed.

(* dispatch of ExtensionFromID: closed comparisons, by computation *)
Lemma ew_sni b : ext_write ID_SNI b =
  match read_u16lp b with
  | None => Err E_PARSE
  | Some (names, _) => if empty names then Err E_PARSE else do _ <- sni_names (length names) names []; Ok (ESNI [])
  end.
Proof. reflexivity. Qed.
Lemma ew_curves b : ext_write ID_CURVES b = u16_list_write E_PARSE ESupportedCurves ungrease b.
Proof. reflexivity. Qed.
Lemma ew_points b : ext_write ID_POINTS b =
  match read_u8lp b with None => Err E_PARSE | Some (v, _) => if empty v then Err E_PARSE else Ok (ESupportedPoints v) end.
Proof. reflexivity. Qed.
Lemma ew_sigalgs b : ext_write ID_SIGALGS b = u16_list_write E_PARSE ESignatureAlgorithms same b.
Proof. reflexivity. Qed.
Lemma ew_sigalgs_cert b : ext_write ID_SIGALGS_CERT b = u16_list_write E_PARSE ESignatureAlgorithmsCert same b.
Proof. reflexivity. Qed.
Lemma ew_dc b : ext_write ID_DELEGATED_CREDENTIALS b = u16_list_write E_PARSE EFakeDelegatedCredentials same b.
Proof. reflexivity. Qed.
Lemma ew_alpn b : ext_write ID_ALPN b = protos_write EALPN b. Proof. reflexivity. Qed.
Lemma ew_alps b : ext_write ID_ALPS b = protos_write EApplicationSettings b. Proof. reflexivity. Qed.
Lemma ew_alps_new b : ext_write ID_ALPS_NEW b = protos_write EApplicationSettingsNew b. Proof. reflexivity. Qed.
Lemma ew_compress b : ext_write ID_COMPRESS_CERT b =
  match read_u8lp b with
  | None => Err E_PARSE
  | Some (v, _) => match read_u16s v with None => Err E_PARSE | Some l => Ok (ECompressCert l) end
  end.
Proof. reflexivity. Qed.
Lemma ew_key_share b : ext_write ID_KEY_SHARE b =
  match read_u16lp b with
  | None => Err E_PARSE
  | Some (v, _) => match key_shares_parse (length v) v with None => Err E_PARSE | Some l => Ok (EKeyShare l) end
  end.
Proof. reflexivity. Qed.
Lemma ew_psk_modes b : ext_write ID_PSK_MODES b =
  match read_u8lp b with None => Err E_PARSE | Some (v, _) => Ok (EPSKKeyExchangeModes v) end.
Proof. reflexivity. Qed.
Lemma ew_versions b : ext_write ID_VERSIONS b =
  match read_u8lp b with
  | None => Err E_PARSE
  | Some (v, _) =>
    if empty v then Err E_PARSE else
    match read_u16s v with None => Err E_PARSE | Some l => Ok (ESupportedVersions (map ungrease l)) end
  end.
Proof. reflexivity. Qed.
Lemma ew_rsl b : ext_write ID_RECORD_SIZE_LIMIT b =
  match read_u16 b with None => Err E_PARSE | Some (l, _) => Ok (EFakeRecordSizeLimit l) end.
Proof. reflexivity. Qed.
Lemma ew_tb b : ext_write ID_TOKEN_BINDING b =
  match obind (read_u8 b) (fun '(ma, s1) => obind (read_u8 s1) (fun '(mi, s2) =>
        obind (read_u8lp s2) (fun '(p, _) => Some (ma, mi, p)))) with
  | None => Err E_PARSE
  | Some (ma, mi, p) => Ok (EFakeTokenBinding ma mi p)
  end.
Proof. reflexivity. Qed.
Lemma ew_psk b : ext_write ID_PSK b = fake_psk_write b. Proof. reflexivity. Qed.
Lemma ew_ech b : ext_write ID_ECH b = ech_write b. Proof. reflexivity. Qed.

Lemma map_same l : map same l = l.
Proof. induction l as [|x l IH]; [reflexivity|]. cbn [map]. now rewrite IH. Qed.

Lemma ew_grease v b : is_grease v = true -> ext_write v b = Ok (EGREASE GREASE_PLACEHOLDER b).
Proof.
  intros Hg. unfold ext_write.
  rewrite !(is_grease_closed v _ Hg) by reflexivity. now rewrite Hg.
Qed.

Lemma negb_empty (l : bytes) : negb (empty l) = true -> empty l = false.
Proof. now rewrite negb_true_iff. Qed.

Lemma write_read e : rt_ok e = true -> ext_write (ext_id e) (ext_body e) = Ok (ext_norm e).
Proof.
  intros Hrt. destruct (rt_parts e Hrt) as (Hwf & Hab). destruct (wf_parts e Hwf) as (Hs & Hf & Hl).
  unfold rt_ok in Hrt. rewrite Hwf, Hab in Hrt. cbn [negb andb] in Hrt.
  destruct e; try discriminate;
  cbn [ext_id ext_body ext_norm ext_len fields_ok state_ok ext_absent] in *;
  try reflexivity.
  - (* SNI *) rewrite ew_sni. rewrite Hab in Hl. apply negb_true_iff in Hrt.
    rewrite read_enc_u16lp_nil by (autorewrite with blen; lia).
    cbn [app empty length]. rewrite sni_names_ok; [reflexivity| |lia|exact Hrt].
    apply empty_false_iff. lia.
  - (* curves *) rewrite ew_curves. apply u16_list_write_ok; [exact Hf|now apply negb_empty|lia].
  - (* points *) rewrite ew_points. rewrite read_enc_u8lp_nil by lia. now rewrite (negb_empty _ Hrt).
  - (* sigalgs *) rewrite ew_sigalgs, u16_list_write_ok; [now rewrite map_same|exact Hf|now apply negb_empty|lia].
  - (* sigalgs cert *) rewrite ew_sigalgs_cert, u16_list_write_ok; [now rewrite map_same|exact Hf|now apply negb_empty|lia].
  - (* ALPN *) rewrite ew_alpn. apply andb_true_iff in Hrt. destruct Hrt as [Hnil Hne].
    apply protos_write_ok; [exact Hf|exact Hne|destruct protos; [discriminate|congruence]|lia].
  - (* ALPS *) rewrite ew_alps. apply andb_true_iff in Hrt. destruct Hrt as [Hnil Hne].
    apply protos_write_ok; [exact Hf|exact Hne|destruct protos; [discriminate|congruence]|lia].
  - (* ALPS new *) rewrite ew_alps_new. apply andb_true_iff in Hrt. destruct Hrt as [Hnil Hne].
    apply protos_write_ok; [exact Hf|exact Hne|destruct protos; [discriminate|congruence]|lia].
  - (* GREASE *) now apply ew_grease.
  - (* compress cert *) rewrite ew_compress. apply andb_true_iff in Hf. destruct Hf as [Hall Hn].
    rewrite read_enc_u8lp_nil by (rewrite blen_flat_u16; lia). now rewrite read_u16s_flat.
  - (* key share *) rewrite ew_key_share.
    rewrite read_enc_u16lp_nil by (rewrite <- key_shares_bytes_spec, blen_key_shares_bytes; lia).
    rewrite key_shares_parse_ok; [reflexivity|exact Hf|exact Hrt|lia|lia].
  - (* PSK modes *) rewrite ew_psk_modes. now rewrite read_enc_u8lp_nil by lia.
  - (* versions *) rewrite ew_versions. apply andb_true_iff in Hf. destruct Hf as [Hall Hn].
    rewrite read_enc_u8lp_nil by (rewrite blen_flat_u16; lia).
    rewrite flat_u16_nonempty by (now apply negb_empty). now rewrite read_u16s_flat.
  - (* channel id *) destruct old; reflexivity.
  - (* record size limit *) rewrite ew_rsl. rewrite <- (app_nil_r (enc_u16 limit)). now rewrite read_enc_u16 by lia.
  - (* token binding *) rewrite ew_tb. cbn [app read_u8 obind]. now rewrite read_enc_u8lp_nil by lia.
  - (* delegated credentials *) rewrite ew_dc, u16_list_write_ok; [now rewrite map_same|exact Hf|now apply negb_empty|lia].
  - (* fake PSK *) rewrite ew_psk. rewrite !andb_true_iff in Hf. destruct Hf as [[Ha Hb] _].
    apply N.eqb_neq in Hab. destruct (psk_ext_len_pos ids binders) as [Hp|Hp]; [lia|].
    rewrite psk_binders_len_eq in Hp. apply fake_psk_write_ok; [exact Ha|exact Hb|lia|lia].
  - (* GREASE ECH *) rewrite ew_ech.
    apply andb_true_iff in Hrt. destruct Hrt as [Hrt Hp].
    apply andb_true_iff in Hrt. destruct Hrt as [Hrt Hne].
    apply andb_true_iff in Hrt. destruct Hrt as [Hk Ha].
    apply andb_true_iff in Hf. destruct Hf as [Hku Hau].
    apply ech_write_ok; try assumption; try lia. now apply negb_empty.
Qed.

Lemma ungrease_idem v : ungrease (ungrease v) = ungrease v.
Proof. unfold ungrease. destruct (is_grease v) eqn:E; [reflexivity|]. now rewrite E. Qed.

Lemma norm_share_idem k : norm_share (norm_share k) = norm_share k.
Proof.
  unfold norm_share. cbn [fst snd]. rewrite ungrease_idem.
  destruct (ungrease (fst k) =? GREASE_PLACEHOLDER); reflexivity.
Qed.

Lemma norm_idem e : ext_norm (ext_norm e) = ext_norm e.
Proof.
  destruct e; cbn [ext_norm ech_mask]; try reflexivity.
  - f_equal. rewrite map_map. apply map_ext. intros; apply ungrease_idem.
  - f_equal. rewrite map_map. apply map_ext. intros; apply norm_share_idem.
  - f_equal. rewrite map_map. apply map_ext. intros; apply ungrease_idem.
  - now rewrite !length_zbytes.
Qed.

(* the real-PSK choice of ReadTLSExtensions ignores the body altogether *)
Lemma write_read_realpsk s c o ids bs b :
  ext_write_realpsk ID_PSK b = Ok (ext_norm (EUtlsPreSharedKey s c o ids bs)).
Proof. reflexivity. Qed.

(* ---- header parses back: type, then a uint16-prefixed body, nothing after it ---- *)
Lemma ext_id_u16 e : fields_ok e = true -> ext_id e < 65536.
Proof.
  destruct e; cbn [ext_id fields_ok]; intros H; try (vm_compute; reflexivity); try lia.
  destruct old; vm_compute; reflexivity.
Qed.

Lemma header_parses e : wf_ext e = true -> ext_absent e = false ->
  exists b, ext_read e (ext_len e) = Ok b
    /\ read_u16 b = Some (ext_id e, enc_u16lp (ext_body e))
    /\ read_u16lp (enc_u16lp (ext_body e)) = Some (ext_body e, [])
    /\ blen (ext_body e) + 4 = ext_len e.
Proof.
  intros Hwf Hab. pose proof (read_layout e Hwf) as HL. rewrite Hab in HL. destruct HL as [HR HB].
  destruct (wf_parts e Hwf) as (_ & Hf & Hl).
  exists (enc_u16 (ext_id e) ++ enc_u16lp (ext_body e)). repeat split; try assumption.
  - apply read_enc_u16. now apply ext_id_u16.
  - apply read_enc_u16lp_nil. lia.
Qed.

Lemma write_read_full e : rt_ok e = true ->
  exists body, ext_read e (ext_len e) = Ok (enc_u16 (ext_id e) ++ enc_u16lp body)
    /\ blen body < 65536 /\ ext_write (ext_id e) body = Ok (ext_norm e).
Proof.
  intros Hrt. destruct (rt_parts e Hrt) as (Hwf & Hab).
  pose proof (read_layout e Hwf) as HL. rewrite Hab in HL. destruct HL as [HR HB].
  destruct (wf_parts e Hwf) as (_ & _ & Hl).
  exists (ext_body e). repeat split; [exact HR|lia|now apply write_read].
Qed.

Lemma reencode_stable e : rt_ok (ext_norm e) = true ->
  ext_write (ext_id (ext_norm e)) (ext_body (ext_norm e)) = Ok (ext_norm e).
Proof. intros H. rewrite <- (norm_idem e) at 3. now apply write_read. Qed.

(* ---- the "too many" branches, beyond the one-byte prefixes ---- *)
Lemma too_many_compress a n : 255 < 2 * blen a -> ext_len (ECompressCert a) <= n ->
  ext_read (ECompressCert a) n = Err E_MANY_COMPRESS.
Proof. intros H Hn. cbn [ext_read ext_len] in *. guard_tac; solve [reflexivity|lia]. Qed.
Lemma too_many_versions v n : 255 < 2 * blen v -> ext_len (ESupportedVersions v) <= n ->
  ext_read (ESupportedVersions v) n = Err E_MANY_VERSIONS.
Proof. intros H Hn. cbn [ext_read ext_len] in *. guard_tac; solve [reflexivity|lia]. Qed.
Lemma too_many_pskmodes m n : 255 < blen m -> ext_len (EPSKKeyExchangeModes m) <= n ->
  ext_read (EPSKKeyExchangeModes m) n = Err E_MANY_PSKMODES.
Proof. intros H Hn. cbn [ext_read ext_len] in *. guard_tac; solve [reflexivity|lia]. Qed.

(* one byte prefixes that would wrap [fix C08-one-byte-prefix-overflow] *)
Lemma too_many_points p n : 255 < blen p -> ext_len (ESupportedPoints p) <= n ->
  ext_read (ESupportedPoints p) n = Err E_MANY_POINTS.
Proof. intros H Hn. cbn [ext_read ext_len] in *. guard_tac; solve [reflexivity|lia]. Qed.
Lemma existsb_long_true (ps : list bytes) : Exists (fun s => 255 < blen s) ps ->
  existsb (fun s => 255 <? blen s) ps = true.
Proof.
  intros H. apply existsb_exists. apply Exists_exists in H. destruct H as (s & Hin & Hs).
  exists s. split; [exact Hin|lia].
Qed.
Lemma alps_name_too_long ps n : Exists (fun s => 255 < blen s) ps -> ext_len (EApplicationSettings ps) <= n ->
  ext_read (EApplicationSettings ps) n = Err E_ALPS_NAME_LONG
  /\ ext_read (EApplicationSettingsNew ps) n = Err E_ALPS_NAME_LONG.
Proof.
  intros H Hn. cbn [ext_read ext_len] in *. rewrite (existsb_long_true _ H).
  destruct (n <? 2 + 2 + 2 + protos_len ps) eqn:E; [lia|]. split; reflexivity.
Qed.
Lemma renegotiated_connection_too_long r c n : 255 < blen c -> ext_len (ERenegotiationInfo r c) <= n ->
  ext_read (ERenegotiationInfo r c) n = Err E_RENEG_LONG.
Proof. intros H Hn. cbn [ext_read ext_len] in *. guard_tac; solve [reflexivity|lia]. Qed.
Lemma too_many_token_binding_params ma mi p n : 255 < blen p -> ext_len (EFakeTokenBinding ma mi p) <= n ->
  ext_read (EFakeTokenBinding ma mi p) n = Err E_MANY_TB_PARAMS.
Proof. intros H Hn. cbn [ext_read ext_len] in *. guard_tac; solve [reflexivity|lia]. Qed.

(* Write never panics and Read panics only through TransportParameters.Marshal *)
Lemma read_no_panic e n : (forall tps, e <> EQUICTransportParameters tps) -> is_panic (ext_read e n) = false.
Proof.
  intros Hq. destruct e; cbn [ext_read]; unfold guarded, read_psk;
  repeat match goal with |- context [if ?c then _ else _] => destruct c end; try reflexivity.
  exfalso. now apply (Hq tps).
Qed.

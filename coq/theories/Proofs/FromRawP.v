(* Proofs about Model/FromRaw.v: the raw importer never panics, and the
   extensions it produces can be marshalled (Model/Marshal.v) without a panic. *)
From UV Require Import Base.Common Model.Padding Model.Marshal.
From UV Require Import Model.Wire Model.Varint Model.Ext Model.ExtSpec Model.FromRaw Proofs.WireP Proofs.ExtP.
From Coq Require Import ZifyBool ZifyNat ZifyN.

(* ---- "does not panic", compositional ---- *)
Definition np {A} (r : res A) : Prop := is_panic r = false.

Lemma np_ok {A} (a : A) : np (Ok a). Proof. reflexivity. Qed.
Lemma np_err {A} c : np (@Err A c). Proof. reflexivity. Qed.
Lemma np_bind {A B} (r : res A) (f : A -> res B) :
  np r -> (forall a, r = Ok a -> np (f a)) -> np (bind r f).
Proof. destruct r as [a|c|c]; cbn; intros Hr Hf; auto; discriminate. Qed.
Lemma np_of_opt {A} c (o : option A) : np (of_opt c o).
Proof. destruct o; reflexivity. Qed.
Lemma np_neq {A} (r : res A) : np r <-> forall p, r <> Panic p.
Proof.
  unfold np. destruct r as [a|c|c]; cbn; split; intros H.
  - intros p; discriminate.
  - reflexivity.
  - intros p; discriminate.
  - reflexivity.
  - discriminate.
  - exfalso. exact (H c eq_refl).
Qed.

(* Generic case splitter: the goal is np of a term built from if / match / bind over
   readers that return options. *)
Ltac np_step :=
  match goal with
  | |- np (Ok _) => reflexivity
  | |- np (Err _) => reflexivity
  | |- np (of_opt _ _) => apply np_of_opt
  | |- np (bind _ _) => apply np_bind; [ | intros ? ? ]
  | |- np (if ?c then _ else _) => destruct c eqn:?
  | |- np (match ?x with _ => _ end) => destruct x eqn:?
  | |- np (let '(_, _) := ?x in _) => destruct x eqn:?
  end.
Ltac np_auto := repeat np_step.

(* ---- every ExtensionFromID(id).Write ---- *)
Lemma sni_names_np fuel : forall s acc, np (sni_names fuel s acc).
Proof.
  induction fuel as [|k IH]; intros s acc; destruct s as [|x s]; cbn [sni_names]; try reflexivity.
  np_auto; apply IH.
Qed.

Lemma u16_list_write_np code mk norm b : np (u16_list_write code mk norm b).
Proof. unfold u16_list_write. np_auto. Qed.
Lemma protos_write_np mk b : np (protos_write mk b).
Proof. unfold protos_write. np_auto. Qed.
Lemma fake_psk_write_np b : np (fake_psk_write b).
Proof. unfold fake_psk_write. np_auto. Qed.
Lemma ech_write_np b : np (ech_write b).
Proof. unfold ech_write. np_auto. Qed.

Lemma ext_write_np id b : np (ext_write id b).
Proof.
  unfold ext_write.
  repeat match goal with
  | |- np (u16_list_write _ _ _ _) => apply u16_list_write_np
  | |- np (protos_write _ _) => apply protos_write_np
  | |- np (fake_psk_write _) => apply fake_psk_write_np
  | |- np (ech_write _) => apply ech_write_np
  | |- np (sni_names _ _ _) => apply sni_names_np
  | _ => np_step
  end.
Qed.

Lemma ext_write_realpsk_np id b : np (ext_write_realpsk id b).
Proof. unfold ext_write_realpsk. destruct (id =? ID_PSK); [reflexivity | apply ext_write_np]. Qed.

(* ---- ReadTLSExtensions ---- *)
Lemma read_one_ext_np blunt real id data : np (read_one_ext blunt real id data).
Proof.
  unfold read_one_ext.
  pose proof (ext_write_np id data) as H1. pose proof (ext_write_realpsk_np id data) as H2.
  destruct real.
  - destruct (ext_write_realpsk id data); [reflexivity | np_auto | discriminate H2].
  - destruct (ext_write id data); [reflexivity | np_auto | discriminate H1].
Qed.

Lemma read_tls_extensions_np fuel blunt real : forall s, np (read_tls_extensions fuel blunt real s).
Proof.
  induction fuel as [|k IH]; intros s; destruct s as [|x s]; cbn [read_tls_extensions]; try reflexivity.
  repeat match goal with
  | |- np (read_one_ext _ _ _ _) => apply read_one_ext_np
  | |- np (read_tls_extensions _ _ _ _) => apply IH
  | _ => np_step
  end.
Qed.

Lemma read_cipher_suites_np b : np (read_cipher_suites b).
Proof. unfold read_cipher_suites. np_auto. Qed.

(* ---- AlwaysAddPadding: the index it slices at is in range ---- *)
Lemma aap_scan_bound es : forall i j k, aap_scan es i = Some (j, k) -> i <= j < i + N.of_nat (length es).
Proof.
  induction es as [|e r IH]; intros i j k H; cbn [aap_scan] in H; [discriminate|].
  cbn [length]. destruct (is_padding e); [inversion H; subst; lia|].
  destruct (is_psk e); [inversion H; subst; lia|].
  apply IH in H. lia.
Qed.

Lemma always_add_padding_np es : np (always_add_padding es).
Proof.
  unfold always_add_padding. destruct (aap_scan es 0) as [[idx [|]]|] eqn:Hs; try reflexivity.
  apply aap_scan_bound in Hs.
  unfold go_slice_from, go_slice_to.
  replace (idx <=? N.of_nat (length es)) with true by lia. reflexivity.
Qed.

(* ---- FromRaw / FingerprintClientHello ---- *)
Lemma from_raw_np blunt real raw : np (from_raw blunt real raw).
Proof.
  unfold from_raw.
  repeat match goal with
  | |- np (read_cipher_suites _) => apply read_cipher_suites_np
  | |- np (read_tls_extensions _ _ _ _) => apply read_tls_extensions_np
  | _ => np_step
  end.
Qed.

Lemma fingerprint_np f raw : np (fingerprint f raw).
Proof.
  unfold fingerprint.
  repeat match goal with
  | |- np (from_raw _ _ _) => apply from_raw_np
  | |- np (always_add_padding _) => apply always_add_padding_np
  | _ => np_step
  end.
Qed.

(* ================= usability: marshalling what the importer produced ================= *)

(* the constructor of an extension value = its Go type *)
Definition ext_kind (e : ext) : N :=
  match e with
  | ESNI _ => 0 | EStatusRequest => 1 | EStatusRequestV2 => 2 | ESupportedCurves _ => 3
  | ESupportedPoints _ => 4 | ESignatureAlgorithms _ => 5 | ESignatureAlgorithmsCert _ => 6
  | EALPN _ => 7 | EApplicationSettings _ => 8 | EApplicationSettingsNew _ => 9 | ESCT => 10
  | EGeneric _ _ => 11 | EExtendedMasterSecret => 12 | EGREASE _ _ => 13 | EPadding _ _ _ => 14
  | ECompressCert _ => 15 | EKeyShare _ => 16 | EQUICTransportParameters _ => 17
  | EPSKKeyExchangeModes _ => 18 | ESupportedVersions _ => 19 | ECookie _ => 20 | ENPN _ => 21
  | ERenegotiationInfo _ _ => 22 | EFakeChannelID _ => 23 | EFakeRecordSizeLimit _ => 24
  | EFakeTokenBinding _ _ _ => 25 | EFakeDelegatedCredentials _ => 26 | ESessionTicket _ => 27
  | EUtlsPreSharedKey _ _ _ _ _ => 28 | EFakePreSharedKey _ _ _ => 29 | EGREASEECH _ _ _ _ _ => 30
  end.

(* "applying" a spec (ApplyPreset, u_parrots.go) fills per-connection fields of the
   extension objects in place (server name, GREASE values, key-share keys, session
   ticket / PSK material, padding state) and never replaces an object by one of another
   type: any kind-preserving update of the list. *)
Definition applied (es es' : list ext) : Prop :=
  Forall2 (fun a b => ext_kind a = ext_kind b) es es'.

Definition no_quic (e : ext) : bool := negb (ext_kind e =? 17).

(* the TLSExtension handed to MarshalClientHello, in the vocabulary of Model/Marshal.v;
   [padto]: the argument of AlwaysPadToLen when the functor is neither nil nor Boring *)
Definition aext_of (padto : Z) (e : ext) : aext :=
  match e with
  | EPadding l w pol =>
      APad (match pol with PadNone => PolNone | PadBoring => PolBoring | PadOther => PolAlways padto end)
           {| p_len := l; p_will := w |}
  | _ => AExt (is_psk e) (ext_len e) (fun b => ext_read e (len b))
  end.

(* ---- a Read never reports more bytes than the buffer has ---- *)
Lemma ext_read_le e n b : ext_read e n = Ok b -> blen b <= n.
Proof.
  intros H. destruct (state_ok e) eqn:Hs.
  - pose proof (len_read e n b Hs H) as Hl.
    destruct (N.ltb_spec n (ext_len e)) as [Hlt|Hge]; [|lia].
    rewrite (read_short e n Hs Hlt) in H. discriminate.
  - destruct e; try discriminate Hs; cbn [ext_read] in H.
    (* (the real PSK extension no longer has a stale cached length: fix C08-psk-len-after-edit) *)
    (* fake PSK with a binder of a non-hash size: Read refuses *)
    cbn [state_ok] in Hs. rewrite Hs in H. cbn [negb] in H.
    destruct (negb omit && (psk_ext_len ids binders =? 0)); discriminate.
Qed.

Lemma len_blen (b : bytes) : len b = blen b. Proof. reflexivity. Qed.

Definition read_bounded (e : aext) : Prop :=
  forall buf, np (a_read e buf) /\ forall b, a_read e buf = Ok b -> len b <= len buf.

Lemma len_app' {A} (a b : list A) : len (a ++ b) = len a + len b.
Proof. unfold len. rewrite app_length. lia. Qed.
Lemma len_take_le {A} n (l : list A) : len (take n l) <= n.
Proof. unfold len, take. pose proof (firstn_le_length (N.to_nat n) l). lia. Qed.

Lemma pad_bounded pol st : read_bounded (APad pol st).
Proof.
  intros buf. cbn [a_read]. unfold pad_read. split.
  - unfold np. destruct (negb (p_will st)); [reflexivity|]. destruct (len buf <? pad_len st); reflexivity.
  - intros b H. destruct (negb (p_will st)) eqn:Hw; [inversion H; cbn; lia|].
    destruct (N.ltb_spec (len buf) (pad_len st)) as [Hlt|Hge]; [discriminate|].
    inversion H; subst. unfold pad_len in Hge. destruct (p_will st); [|discriminate].
    pose proof (len_take_le (p_len st) (drop 4 buf)) as Ht.
    unfold len in *. cbn [length]. lia.
Qed.

Lemma aext_of_bounded padto e : no_quic e = true -> read_bounded (aext_of padto e).
Proof.
  intros Hq. destruct e; try apply pad_bounded; try discriminate Hq;
  (intros buf; cbn [aext_of a_read]; split;
   [ apply (read_no_panic _ (len buf)); intros tps; discriminate
   | intros b H; rewrite !len_blen in *; exact (ext_read_le _ _ _ H) ]).
Qed.

(* ---- the marshal loop does not panic on bounded readers ---- *)
Lemma len_zeros' (n : N) : len (Padding.zeros n) = n.
Proof. unfold len, Padding.zeros. rewrite repeat_length. lia. Qed.

Lemma bw_read_from_np bbs e w : read_bounded e -> np (bw_read_from bbs e w).
Proof.
  intros Hb. unfold bw_read_from.
  set (w1 := if bw_avail w =? 0 then bw_flush w else w).
  destruct (w_n w1 =? 0).
  - destruct (Hb (Padding.zeros (bbs (len (w_out w1))))) as [Hnp Hle].
    destruct (a_read e (Padding.zeros (bbs (len (w_out w1))))) as [b|c|c] eqn:Hr; cbn [bind]; try reflexivity; try discriminate Hnp.
    specialize (Hle b eq_refl). rewrite len_zeros' in Hle.
    destruct (N.ltb_spec (bbs (len (w_out w1))) (len b)); [lia|reflexivity].
  - destruct (Hb (drop (w_n w1) (w_arr w1))) as [Hnp Hle].
    destruct (a_read e (drop (w_n w1) (w_arr w1))) as [b|c|c] eqn:Hr; cbn [bind]; try reflexivity; try discriminate Hnp.
    specialize (Hle b eq_refl).
    destruct (N.ltb_spec (len (drop (w_n w1) (w_arr w1))) (len b)); [lia|reflexivity].
Qed.

Lemma bw_read_all_np bbs es : Forall read_bounded es -> forall w, np (bw_read_all bbs es w).
Proof.
  induction 1 as [|e es He Hes IH]; intros w; cbn [bw_read_all]; [reflexivity|].
  apply np_bind; [apply bw_read_from_np; exact He | intros w' _; apply IH].
Qed.

Lemma find_padding_np es : forall found, np (find_padding es found).
Proof.
  induction es as [|e es IH]; intros found; cbn [find_padding]; [reflexivity|].
  destruct e; [apply IH|]. destruct found; [reflexivity | apply IH].
Qed.

Lemma update_padding_bounded u es : Forall read_bounded es -> Forall read_bounded (update_padding u es).
Proof.
  induction 1 as [|e es He Hes IH]; cbn [update_padding map]; constructor; [|exact IH].
  destruct e; [exact He | apply pad_bounded].
Qed.

Lemma marshal_np bbs h es : Forall read_bounded es -> np (marshal_client_hello bbs h es).
Proof.
  intros Hb. unfold marshal_client_hello, marshal_prepare.
  pose proof (find_padding_np es None) as Hf.
  destruct (find_padding es None) as [pe|c|c]; cbn [bind]; [|reflexivity|discriminate Hf].
  cbn [pr_exts pr_hello_len pr_extensions_len].
  apply np_bind.
  - destruct es as [|e0 es0]; [reflexivity|].
    apply bw_read_all_np. destruct pe; [apply update_padding_bounded|]; exact Hb.
  - intros w _. np_auto.
Qed.

(* ---- what the importer produces is never a QUIC transport-parameter extension ---- *)
Lemma u16_list_write_nq code mk norm b e :
  (forall l, no_quic (mk l) = true) -> u16_list_write code mk norm b = Ok e -> no_quic e = true.
Proof.
  unfold u16_list_write. intros Hk H.
  destruct (read_u16lp b) as [[v r]|]; [|discriminate]. destruct (empty v); [discriminate|].
  destruct (read_u16s v); inversion H. apply Hk.
Qed.
Lemma protos_write_nq mk b e :
  (forall l, no_quic (mk l) = true) -> protos_write mk b = Ok e -> no_quic e = true.
Proof.
  unfold protos_write. intros Hk H.
  destruct (read_u16lp b) as [[v r]|]; [|discriminate]. destruct (empty v); [discriminate|].
  destruct (read_u8lps true (length v) v); inversion H. apply Hk.
Qed.

Ltac inv_ok H :=
  repeat match type of H with
  | match ?x with _ => _ end = Ok _ => destruct x; try discriminate H
  | (if ?c then _ else _) = Ok _ => destruct c; try discriminate H
  | bind ?x _ = Ok _ => destruct x; cbn [bind] in H; try discriminate H
  | (let '(_, _) := ?x in _) = Ok _ => destruct x
  end.

Lemma ext_write_no_quic id b e : ext_write id b = Ok e -> no_quic e = true.
Proof.
  unfold ext_write.
  repeat match goal with
  | |- (if ?c then _ else _) = Ok _ -> _ => destruct c
  end; intros H;
  first
    [ refine (u16_list_write_nq _ _ _ _ _ _ H); intros; reflexivity
    | refine (protos_write_nq _ _ _ _ H); intros; reflexivity
    | discriminate H
    | inversion H; reflexivity
    | unfold fake_psk_write in H; inv_ok H; inversion H; reflexivity
    | unfold ech_write in H; inv_ok H; inversion H; reflexivity
    | inv_ok H; inversion H; reflexivity ].
Qed.

Lemma read_one_ext_no_quic blunt real id data e : read_one_ext blunt real id data = Ok e -> no_quic e = true.
Proof.
  unfold read_one_ext, ext_write_realpsk. intros H.
  destruct real.
  - destruct (id =? ID_PSK); [inversion H; reflexivity|].
    destruct (ext_write id data) eqn:Hw; [inversion H; subst; eapply ext_write_no_quic; eassumption| |discriminate].
    destruct (no_writer code); [|discriminate]. destruct blunt; inversion H; reflexivity.
  - destruct (ext_write id data) eqn:Hw; [inversion H; subst; eapply ext_write_no_quic; eassumption| |discriminate].
    destruct (no_writer code); [|discriminate]. destruct blunt; inversion H; reflexivity.
Qed.

Lemma read_tls_extensions_no_quic fuel blunt real : forall s es v,
  read_tls_extensions fuel blunt real s = Ok (es, v) -> forallb no_quic es = true.
Proof.
  induction fuel as [|k IH]; intros s es v H; destruct s as [|x s]; cbn [read_tls_extensions] in H;
    try (inversion H; reflexivity); try discriminate.
  destruct (read_u16 (x :: s)) as [[id s1]|]; [|discriminate].
  destruct (read_u16lp s1) as [[data s2]|]; [|discriminate].
  destruct (read_one_ext blunt real id data) eqn:He; cbn [bind] in H; try discriminate.
  destruct (read_tls_extensions k blunt real s2) as [[es2 v2]| |] eqn:Hr; cbn [bind] in H; try discriminate.
  inversion H; subst. cbn [forallb fst]. rewrite (read_one_ext_no_quic _ _ _ _ _ He), (IH _ _ _ Hr). reflexivity.
Qed.

Lemma install_pad_to_no_quic es : forallb no_quic es = true -> forallb no_quic (fst (install_pad_to es)) = true.
Proof.
  induction es as [|e r IH]; [reflexivity|]. cbn [forallb]. intros H. apply andb_prop in H as [He Hr].
  destruct e; cbn [install_pad_to]; try (destruct (install_pad_to r) eqn:Hi; cbn [fst forallb] in *;
    rewrite He; cbn; apply IH; exact Hr).
  cbn [fst forallb]. rewrite Hr. reflexivity.
Qed.

Lemma from_raw_no_quic blunt real raw s : from_raw blunt real raw = Ok s -> forallb no_quic (sp_exts s) = true.
Proof.
  unfold from_raw. intros H.
  repeat match type of H with
  | match ?x with _ => _ end = Ok _ => destruct x eqn:?; try discriminate H
  | (if ?c then _ else _) = Ok _ => destruct c eqn:?; try discriminate H
  | (let '(_, _) := ?x in _) = Ok _ => destruct x eqn:?
  | bind ?x _ = Ok _ => destruct x eqn:?; cbn [bind] in H; try discriminate H
  end; inversion H; subst; cbn [sp_exts]; try reflexivity.
  match goal with
  | Hi : install_pad_to ?es = (?es', _), Hr : read_tls_extensions _ _ _ _ = Ok (?es, _) |- _ =>
      apply read_tls_extensions_no_quic in Hr; apply install_pad_to_no_quic in Hr; rewrite Hi in Hr; exact Hr
  end.
Qed.

Lemma always_add_padding_no_quic es es' :
  forallb no_quic es = true -> always_add_padding es = Ok es' -> forallb no_quic es' = true.
Proof.
  unfold always_add_padding, go_slice_from, go_slice_to. intros Hq H.
  destruct (aap_scan es 0) as [[idx [|]]|].
  - destruct (idx <=? N.of_nat (length es)); cbn [bind] in H; [|discriminate]. inversion H; subst.
    rewrite forallb_app. cbn [forallb]. rewrite <- (firstn_skipn (N.to_nat idx) es), forallb_app in Hq.
    apply andb_prop in Hq as [H1 H2]. rewrite H1, H2. reflexivity.
  - inversion H; subst. exact Hq.
  - inversion H; subst. rewrite forallb_app, Hq. reflexivity.
Qed.

Lemma fingerprint_no_quic f raw s : fingerprint f raw = Ok s -> forallb no_quic (sp_exts s) = true.
Proof.
  unfold fingerprint. intros H.
  destruct (from_raw (f_blunt f) (f_real_psk f) raw) as [s0| |] eqn:Hr; cbn [bind] in H; try discriminate.
  apply from_raw_no_quic in Hr.
  destruct (f_always_pad f); [|inversion H; subst; exact Hr].
  destruct (always_add_padding (sp_exts s0)) eqn:Ha; cbn [bind] in H; try discriminate.
  inversion H; subst. cbn [sp_exts]. eapply always_add_padding_no_quic; eassumption.
Qed.

Lemma applied_no_quic es es' : applied es es' -> forallb no_quic es = true -> Forall (fun e => no_quic e = true) es'.
Proof.
  induction 1 as [|a b es es' Hk _ IH]; intros H; [constructor|].
  cbn [forallb] in H. apply andb_prop in H as [Ha Hr]. constructor; [|apply IH; exact Hr].
  unfold no_quic in *. rewrite <- Hk. exact Ha.
Qed.

(* Whatever the importer accepts can be applied and marshalled without a panic. *)
Lemma usable f raw s es' bbs h padto :
  fingerprint f raw = Ok s -> applied (sp_exts s) es' ->
  np (marshal_client_hello bbs h (map (aext_of padto) es')).
Proof.
  intros Hf Ha. apply marshal_np.
  apply fingerprint_no_quic in Hf. pose proof (applied_no_quic _ _ Ha Hf) as Hq.
  rewrite Forall_map. eapply Forall_impl; [|exact Hq].
  intros e He. apply aext_of_bounded. exact He.
Qed.

(* Proofs over Model/KeyShare.v: sizes of generated shares, every generated share is backed by
   the key establishHandshakeKeys selects (repaired code; refuted for the pre-repair code),
   the Config.Rand draws are contiguous hence pairwise disjoint, QUIC sends an empty session id. *)
From UV Require Import Base.Common Model.Negotiate Model.KeyShare Proofs.NegotiateP.
From Coq Require Import ZifyBool ZifyNat ZifyN.

(* ---- well-formed key-share lists (RFC 8446 4.2.8: one share per group; at most one hybrid share) ---- *)
Fixpoint nodupN (l : list N) : bool :=
  match l with [] => true | x :: tl => negb (memN x tl) && nodupN tl end.
Definition gen_groups (l : list kshare) : list N := map ks_group (filter generated l).
Definition cl_groups (l : list kshare) : list N := filter (fun g => negb (hybrid g)) (gen_groups l).
Definition hy_groups (l : list kshare) : list N := filter hybrid (gen_groups l).
Definition wf_shares (l : list kshare) : bool :=
  nodupN (cl_groups l) && (length (hy_groups l) <=? 1)%nat.

Lemma nodupN_NoDup l : nodupN l = true -> NoDup l.
Proof.
  induction l as [|x l IH]; simpl; intros H; [constructor|].
  apply andb_true_iff in H as [A B]. constructor; [|auto].
  apply negb_true_iff in A. apply memN_false in A. exact A.
Qed.

(* the crypto laws *)
Record laws {priv dkey : Type} (ecdh_gen : N -> N -> priv * N) (pub : N -> priv -> bytes)
       (dh : N -> priv -> bytes -> option bytes) (kem_ek : dkey -> bytes)
       (kem_decap : dkey -> bytes -> option bytes) (kem_encap : bytes -> bytes -> bytes * bytes) : Prop := mkLaws {
  L_pub_len : forall g k, classical_impl g = true -> lenN (pub g k) = share_size g;
  L_dh_comm : forall g a b, classical_impl g = true ->
              exists s, dh g a (pub g b) = Some s /\ dh g b (pub g a) = Some s;
  L_ek_len : forall d, length (kem_ek d) = EK_SIZE;
  L_ct_len : forall ek r, length (fst (kem_encap ek r)) = CT_SIZE;
  L_kem : forall d r, kem_decap d (fst (kem_encap (kem_ek d) r)) = Some (snd (kem_encap (kem_ek d) r));
  L_gen_pos : forall g p, 0 < snd (ecdh_gen g p)
}.

Arguments L_pub_len {priv dkey ecdh_gen pub dh kem_ek kem_decap kem_encap} _.
Arguments L_dh_comm {priv dkey ecdh_gen pub dh kem_ek kem_decap kem_encap} _.
Arguments L_ek_len {priv dkey ecdh_gen pub dh kem_ek kem_decap kem_encap} _.
Arguments L_ct_len {priv dkey ecdh_gen pub dh kem_ek kem_decap kem_encap} _.
Arguments L_kem {priv dkey ecdh_gen pub dh kem_ek kem_decap kem_encap} _.
Arguments L_gen_pos {priv dkey ecdh_gen pub dh kem_ek kem_decap kem_encap} _.

Lemma share_size_cases g : classical_impl g = true \/ hybrid g = true ->
  In (share_size g) [32; 65; 97; 133; 1216].
Proof.
  unfold classical_impl, hybrid, share_size, memN. simpl. intros H.
  destruct (g =? 29) eqn:A; [simpl; auto|].
  destruct (g =? 23) eqn:B; [simpl; auto|].
  destruct (g =? 24) eqn:C; [simpl; auto|].
  destruct (g =? 25) eqn:D; [simpl; auto 6|].
  unfold hybrid. destruct ((g =? 4588) || (g =? 25497)) eqn:E; [simpl; auto 8|].
  exfalso. simpl in H.
  destruct H as [H|H]; congruence.
Qed.

Lemma classical_not_hybrid g : classical_impl g = true -> hybrid g = false.
Proof.
  unfold classical_impl, hybrid, memN. simpl. intros H.
  destruct (N.eqb_spec g 4588) as [->|]; [vm_compute in H; congruence|].
  destruct (N.eqb_spec g 25497) as [->|]; [vm_compute in H; congruence|]. reflexivity.
Qed.

Ltac split5 := split; [|split; [|split; [|split]]].

Section P.
  Variables (priv dkey : Type) (rnd : N -> N) (ecdh_gen : N -> N -> priv * N) (pub : N -> priv -> bytes)
            (dh : N -> priv -> bytes -> option bytes) (kem_new : bytes -> dkey) (kem_ek : dkey -> bytes)
            (kem_decap : dkey -> bytes -> option bytes) (kem_encap : bytes -> bytes -> bytes * bytes).
  Hypothesis L : laws ecdh_gen pub dh kem_ek kem_decap kem_encap.

  Notation step := (step priv dkey rnd ecdh_gen pub kem_new kem_ek).
  Notation loop := (loop priv dkey rnd ecdh_gen pub kem_new kem_ek).
  Notation apply_preset := (apply_preset priv dkey rnd ecdh_gen pub kem_new kem_ek).
  Notation client_secret := (client_secret priv dkey dh kem_decap).
  Notation server_flight := (server_flight priv pub dh kem_encap).
  Notation ecdhe_key_for := (ecdhe_key_for priv dkey).
  Notation keysT := (keys priv dkey).
  Notation stT := (st priv dkey).

  (* ---- what one loop iteration does, by case ---- *)
  Inductive step_spec (fixed : bool) (gv : N) (i : nat) (k : kshare) (s : stT) : kshare -> stT -> Prop :=
  | SGrease : is_grease (ks_group k) = true -> step_spec fixed gv i k s (mkKS gv (ks_data k)) s
  | SPreset : is_grease (ks_group k) = false -> (1 <? lenN (ks_data k)) = true -> step_spec fixed gv i k s k s
  | SHybrid xk n d : generated k = true -> hybrid (ks_group k) = true ->
      ecdh_gen 29 (s_pos s) = (xk, n) -> d = kem_new (take_at rnd (s_pos s + n) SEED_SIZE) ->
      step_spec fixed gv i k s
        (mkKS (ks_group k) (if ks_group k =? G_KYBER then pub 29 xk ++ kem_ek d else kem_ek d ++ pub 29 xk))
        (mkSt (s_pos s + n + N.of_nat SEED_SIZE)
              (mkKeys (if fixed then match k_ecdhe (s_keys s) with None => Some (mkEK 29 xk) | o => o end
                       else k_ecdhe (s_keys s))
                      (Some d) (Some (mkEK 29 xk)) (k_extra (s_keys s)))
              (s_pref s)
              (s_log s ++ [mkSeg (DKey i) (s_pos s) n; mkSeg (DSeed i) (s_pos s + n) (N.of_nat SEED_SIZE)]))
  | SClassical ck n : generated k = true -> hybrid (ks_group k) = false -> classical_impl (ks_group k) = true ->
      ecdh_gen (ks_group k) (s_pos s) = (ck, n) ->
      step_spec fixed gv i k s
        (mkKS (ks_group k) (pub (ks_group k) ck))
        (mkSt (s_pos s + n)
              (if negb (s_pref s) then mkKeys (Some (mkEK (ks_group k) ck)) (k_mlkem (s_keys s)) (k_mlkem_ecdhe (s_keys s)) (k_extra (s_keys s))
               else if fixed then mkKeys (k_ecdhe (s_keys s)) (k_mlkem (s_keys s)) (k_mlkem_ecdhe (s_keys s)) (k_extra (s_keys s) ++ [mkEK (ks_group k) ck])
               else s_keys s)
              true (s_log s ++ [mkSeg (DKey i) (s_pos s) n])).

  Lemma step_inv fixed gv i k s k' s' : step fixed gv i k s = Ok (k', s') -> step_spec fixed gv i k s k' s'.
  Proof.
    unfold KeyShare.step. intros H.
    destruct (is_grease (ks_group k)) eqn:G.
    { inversion H; subst. now constructor. }
    destruct (1 <? lenN (ks_data k)) eqn:D.
    { inversion H; subst. now constructor. }
    assert (Gen : generated k = true) by (unfold generated; rewrite G, D; reflexivity).
    destruct (hybrid (ks_group k)) eqn:Hy.
    { destruct (ecdh_gen 29 (s_pos s)) as [xk n] eqn:E. inversion H; subst.
      eapply SHybrid; eauto. }
    destruct (classical_impl (ks_group k)) eqn:C; simpl in H; [|discriminate].
    destruct (ecdh_gen (ks_group k) (s_pos s)) as [ck n] eqn:E. inversion H; subst.
    eapply SClassical; eauto.
  Qed.

  Lemma loop_cons fixed gv i k tl s out s' :
    loop fixed gv i (k :: tl) s = Ok (out, s') ->
    exists k' s1 tl', step fixed gv i k s = Ok (k', s1) /\ loop fixed gv (S i) tl s1 = Ok (tl', s') /\ out = k' :: tl'.
  Proof.
    simpl. destruct (step fixed gv i k s) as [[k' s1]| |] eqn:E1; try (intros X; discriminate X).
    destruct (loop fixed gv (S i) tl s1) as [[tl' s2]| |] eqn:E2; try (intros X; discriminate X).
    intros H; inversion H; subst. exists k', s1, tl'. auto.
  Qed.

  (* ---- 1. sizes ---- *)
  Definition size_rel (gv : N) (k k' : kshare) : Prop :=
    if is_grease (ks_group k) then ks_group k' = gv /\ ks_data k' = ks_data k
    else if 1 <? lenN (ks_data k) then k' = k
    else ks_group k' = ks_group k /\ lenN (ks_data k') = share_size (ks_group k)
         /\ In (share_size (ks_group k)) [32; 65; 97; 133; 1216].

  Lemma lenN_app {A} (a b : list A) : lenN (a ++ b) = lenN a + lenN b.
  Proof. unfold lenN. rewrite app_length. lia. Qed.

  Lemma step_size fixed gv i k s k' s' : step_spec fixed gv i k s k' s' -> size_rel gv k k'.
  Proof.
    intros H. unfold size_rel. destruct H as [G|G D|xk n d Gen Hy E Hd|ck n Gen Hy C E].
    - rewrite G. auto.
    - rewrite G, D. reflexivity.
    - unfold generated in Gen. apply andb_true_iff in Gen as [G D]. apply negb_true_iff in G, D. rewrite G, D.
      simpl. split; [reflexivity|]. split; [|apply share_size_cases; auto].
      assert (X : lenN (pub 29 xk) = 32) by (rewrite (L_pub_len L); reflexivity).
      assert (Y : lenN (kem_ek d) = 1184) by (unfold lenN; rewrite (L_ek_len L); reflexivity).
      assert (S : share_size (ks_group k) = 1216).
      { unfold share_size. rewrite Hy. unfold hybrid in Hy.
        destruct (N.eqb_spec (ks_group k) 4588) as [->|]; [reflexivity|].
        destruct (N.eqb_spec (ks_group k) 25497) as [->|]; [reflexivity|]. discriminate. }
      rewrite S. destruct (ks_group k =? G_KYBER); rewrite lenN_app, X, Y; reflexivity.
    - unfold generated in Gen. apply andb_true_iff in Gen as [G D]. apply negb_true_iff in G, D. rewrite G, D.
      simpl. split; [reflexivity|]. split; [apply (L_pub_len L); assumption|apply share_size_cases; auto].
  Qed.

  Lemma loop_sizes fixed gv : forall l i s out s', loop fixed gv i l s = Ok (out, s') -> Forall2 (size_rel gv) l out.
  Proof.
    induction l as [|k tl IH]; intros i s out s' H.
    - simpl in H. inversion H; subst. constructor.
    - apply loop_cons in H as (k' & s1 & tl' & A & B & ->).
      constructor; [eapply step_size, step_inv; eauto | eapply IH; eauto].
  Qed.

  Lemma apply_inv fixed quic gv shares p0 a :
    apply_preset fixed quic gv shares p0 = Ok a ->
    exists s0 s, loop fixed gv 0 shares s0 = Ok (a_shares a, s)
      /\ s_keys s0 = no_keys /\ s_pref s0 = false
      /\ a_keys a = s_keys s /\ a_log a = s_log s /\ a_end a = s_pos s
      /\ a_random a = take_at rnd p0 32
      /\ a_sid a = (if quic then [] else take_at rnd (p0 + 32 + 32 + N.of_nat GREASE_BYTES) 32)
      /\ s_pos s0 = (if quic then p0 + 32 + N.of_nat GREASE_BYTES else p0 + 32 + 32 + N.of_nat GREASE_BYTES + 32)
      /\ s_log s0 = (if quic then [mkSeg DRandom p0 32; mkSeg DGrease (p0 + 32) (N.of_nat GREASE_BYTES)]
                     else [mkSeg DRandom p0 32; mkSeg DSidEarly (p0 + 32) 32;
                           mkSeg DGrease (p0 + 32 + 32) (N.of_nat GREASE_BYTES);
                           mkSeg DSid (p0 + 32 + 32 + N.of_nat GREASE_BYTES) 32]).
  Proof.
    unfold KeyShare.apply_preset. destruct quic; simpl;
      match goal with |- context [loop fixed gv 0 shares ?s0] => destruct (loop fixed gv 0 shares s0) as [[out s]| |] eqn:E end;
      try discriminate; intros H; inversion H; subst; simpl; do 2 eexists; (split; [exact E|]); simpl; repeat split; reflexivity.
  Qed.

  Theorem share_sizes fixed quic gv shares p0 a :
    apply_preset fixed quic gv shares p0 = Ok a -> Forall2 (size_rel gv) shares (a_shares a).
  Proof.
    intros H. apply apply_inv in H as (s0 & s & A & _). eapply loop_sizes; eauto.
  Qed.

  (* ---- 2. every generated share is backed by the key the client will use (repaired code) ---- *)
  (* structural backing of the output share k' by the retained keys ks *)
  Definition sbacked (ks : keysT) (k' : kshare) : Prop :=
    k_ecdhe ks <> None /\
    if hybrid (ks_group k') then
      exists xk d, k_mlkem ks = Some d /\ k_mlkem_ecdhe ks = Some (mkEK 29 xk)
        /\ ks_data k' = (if ks_group k' =? G_KYBER then pub 29 xk ++ kem_ek d else kem_ek d ++ pub 29 xk)
    else
      classical_impl (ks_group k') = true /\
      exists ck, ks_data k' = pub (ks_group k') ck /\ ecdhe_key_for true ks (ks_group k') = Some (mkEK (ks_group k') ck).

  Lemma find_app_skip (g : N) (l1 l2 : list (ekey priv)) :
    (forall e, In e l1 -> ek_curve e <> g) ->
    find (fun x => ek_curve x =? g) (l1 ++ l2) = find (fun x => ek_curve x =? g) l2.
  Proof.
    induction l1 as [|x l1 IH]; simpl; intros H; [reflexivity|].
    destruct (N.eqb_spec (ek_curve x) g) as [E|_]; [exfalso; eapply H; eauto|]. apply IH. intros e He. apply H. auto.
  Qed.

  (* the curves already present in the retained classical keys are those of the groups in [seen] *)
  Definition keys_in (seen : list N) (s : stT) : Prop :=
    (s_pref s = true -> exists e, k_ecdhe (s_keys s) = Some e /\ In (ek_curve e) seen)
    /\ (forall e, In e (k_extra (s_keys s)) -> In (ek_curve e) seen).

  Definition is_hy (k : kshare) : bool := generated k && hybrid (ks_group k).
  Definition is_cl (k : kshare) : bool := generated k && negb (hybrid (ks_group k)).

  Lemma hy_groups_cons k tl : hy_groups (k :: tl) = if is_hy k then ks_group k :: hy_groups tl else hy_groups tl.
  Proof.
    unfold hy_groups, gen_groups, is_hy. simpl. destruct (generated k); simpl; [|reflexivity].
    destruct (hybrid (ks_group k)); reflexivity.
  Qed.
  Lemma cl_groups_cons k tl : cl_groups (k :: tl) = if is_cl k then ks_group k :: cl_groups tl else cl_groups tl.
  Proof.
    unfold cl_groups, gen_groups, is_cl. simpl. destruct (generated k); simpl; [|reflexivity].
    destruct (hybrid (ks_group k)); reflexivity.
  Qed.

  (* what one iteration of the repaired loop preserves *)
  Lemma step_preserves gv i k s k' s1 : step_spec true gv i k s k' s1 ->
    (k_ecdhe (s_keys s) <> None -> k_ecdhe (s_keys s1) <> None)
    /\ (s_pref s = true -> k_ecdhe (s_keys s) <> None -> k_ecdhe (s_keys s1) = k_ecdhe (s_keys s))
    /\ (s_pref s = true -> s_pref s1 = true)
    /\ (exists added, k_extra (s_keys s1) = k_extra (s_keys s) ++ added)
    /\ (is_hy k = false -> k_mlkem (s_keys s1) = k_mlkem (s_keys s) /\ k_mlkem_ecdhe (s_keys s1) = k_mlkem_ecdhe (s_keys s)).
  Proof.
    intros H. destruct H as [G|G D|xk n d Gen Hy E Hd|ck n Gen Hy C E]; simpl.
    - split5; auto. exists []. now rewrite app_nil_r.
    - split5; auto. exists []. now rewrite app_nil_r.
    - split5; auto.
      + destruct (k_ecdhe (s_keys s)); congruence.
      + intros _ Q. destruct (k_ecdhe (s_keys s)); congruence.
      + exists []. now rewrite app_nil_r.
      + unfold is_hy. rewrite Gen, Hy. discriminate.
    - destruct (s_pref s) eqn:P; simpl; split5; auto; try discriminate.
      + exists [mkEK (ks_group k) ck]. reflexivity.
      + exists []. now rewrite app_nil_r.
  Qed.

  Lemma loop_preserves gv : forall l i s out s',
    loop true gv i l s = Ok (out, s') ->
    (k_ecdhe (s_keys s) <> None -> k_ecdhe (s_keys s') <> None)
    /\ (s_pref s = true -> k_ecdhe (s_keys s) <> None -> k_ecdhe (s_keys s') = k_ecdhe (s_keys s))
    /\ (s_pref s = true -> s_pref s' = true)
    /\ (exists added, k_extra (s_keys s') = k_extra (s_keys s) ++ added)
    /\ (hy_groups l = [] -> k_mlkem (s_keys s') = k_mlkem (s_keys s) /\ k_mlkem_ecdhe (s_keys s') = k_mlkem_ecdhe (s_keys s)).
  Proof.
    induction l as [|k tl IH]; intros i s out s' H.
    - simpl in H. inversion H; subst. split5; auto. exists []. now rewrite app_nil_r.
    - apply loop_cons in H as (k' & s1 & tl' & A & B & ->).
      apply step_inv, step_preserves in A. destruct A as (A1 & A2 & A3 & (ad1 & A4) & A5).
      specialize (IH _ _ _ _ B) as (I1 & I2 & I3 & (ad2 & I4) & I5).
      split5.
      + auto.
      + intros P Q. rewrite I2; auto.
      + auto.
      + exists (ad1 ++ ad2). rewrite I4, A4, app_assoc. reflexivity.
      + intros H. rewrite hy_groups_cons in H. destruct (is_hy k) eqn:Z; [discriminate|].
        destruct (I5 H) as [X X']. destruct (A5 eq_refl) as [Y Y']. split; congruence.
  Qed.

  Lemma NoDup_app_mid (a : list N) g b : NoDup (a ++ g :: b) -> NoDup ((a ++ [g]) ++ b) /\ ~ In g a.
  Proof.
    intros H. split.
    - rewrite <- app_assoc. exact H.
    - apply NoDup_remove_2 in H. intros X. apply H. apply in_or_app. auto.
  Qed.

  Lemma loop_backed gv : forall l i s out s' seen,
    loop true gv i l s = Ok (out, s') ->
    keys_in seen s -> NoDup (seen ++ cl_groups l) -> (length (hy_groups l) <= 1)%nat ->
    Forall2 (fun k k' => generated k = true -> sbacked (s_keys s') k') l out.
  Proof.
    induction l as [|k tl IH]; intros i s out s' seen H KI ND HY.
    - simpl in H. inversion H; subst. constructor.
    - apply loop_cons in H as (k' & s1 & tl' & A & B & ->).
      apply step_inv in A. pose proof (step_preserves _ _ _ _ _ _ A) as (A1 & A2 & A3 & (ad1 & A4) & A5).
      pose proof (loop_preserves _ _ _ _ _ _ B) as (I1 & I2 & I3 & (ad2 & I4) & I5).
      destruct KI as [K1 K2].
      destruct A as [G|G D|xk n d Gen Hy E Hd|ck n Gen Hy C E].
      + (* GREASE entry *)
        assert (Z : generated k = false) by (unfold generated; rewrite G; reflexivity).
        rewrite cl_groups_cons in ND. rewrite hy_groups_cons in HY. unfold is_cl, is_hy in *. rewrite Z in *. simpl in *.
        constructor; [congruence|]. eapply IH; eauto. split; auto.
      + assert (Z : generated k = false) by (unfold generated; rewrite G, D; reflexivity).
        rewrite cl_groups_cons in ND. rewrite hy_groups_cons in HY. unfold is_cl, is_hy in *. rewrite Z in *. simpl in *.
        constructor; [congruence|]. eapply IH; eauto. split; auto.
      + (* hybrid share *)
        rewrite cl_groups_cons in ND. rewrite hy_groups_cons in HY. unfold is_cl, is_hy in *. rewrite Gen, Hy in *. simpl in *.
        assert (HT : hy_groups tl = []) by (destruct (hy_groups tl); [reflexivity|simpl in HY; lia]).
        constructor.
        * intros _. unfold sbacked. simpl. rewrite Hy. split.
          { apply I1. simpl. destruct (k_ecdhe (s_keys s)); discriminate. }
          destruct (I5 HT) as [X Y]. simpl in X, Y. exists xk, d. repeat split; auto.
        * eapply IH; eauto; [|rewrite HT; simpl; lia].
          split; simpl.
          { intros P. destruct (K1 P) as (e & Q & R). exists e. rewrite Q. auto. }
          { exact K2. }
      + (* classical share *)
        rewrite cl_groups_cons in ND. rewrite hy_groups_cons in HY. unfold is_cl, is_hy in *. rewrite Gen, Hy in *. simpl in *.
        apply NoDup_app_mid in ND as [ND NI].
        assert (KI1 : keys_in (seen ++ [ks_group k])
                  (mkSt (s_pos s + n)
                     (if negb (s_pref s) then mkKeys (Some (mkEK (ks_group k) ck)) (k_mlkem (s_keys s)) (k_mlkem_ecdhe (s_keys s)) (k_extra (s_keys s))
                      else mkKeys (k_ecdhe (s_keys s)) (k_mlkem (s_keys s)) (k_mlkem_ecdhe (s_keys s)) (k_extra (s_keys s) ++ [mkEK (ks_group k) ck]))
                     true (s_log s ++ [mkSeg (DKey i) (s_pos s) n]))).
        { split; simpl.
          - intros _. destruct (s_pref s) eqn:P; simpl.
            + destruct (K1 eq_refl) as (e & Q & R). exists e. split; [exact Q|]. apply in_or_app. auto.
            + eexists. split; [reflexivity|]. simpl. apply in_or_app. right. simpl. auto.
          - intros e He. destruct (s_pref s) eqn:P; simpl in He.
            + apply in_app_or in He as [He|[<-|[]]]; apply in_or_app; [left; auto|right; simpl; auto].
            + apply in_or_app. left. auto. }
        constructor.
        * intros _. unfold sbacked. simpl. rewrite Hy. simpl in *.
          destruct (s_pref s) eqn:P; simpl in *.
          -- (* a later classical share: its key is among the extras *)
             destruct (K1 eq_refl) as (e0 & Q & R).
             assert (NE : k_ecdhe (s_keys s) <> None) by congruence.
             rewrite (I2 eq_refl NE). split; [congruence|]. split; [exact C|].
             exists ck. split; [reflexivity|].
             unfold KeyShare.ecdhe_key_for. simpl. rewrite Hy, (I2 eq_refl NE), Q, C. simpl.
             assert (NG : (ek_curve e0 =? ks_group k) = false).
             { apply N.eqb_neq. intros X. apply NI. rewrite <- X. exact R. }
             rewrite NG. simpl. rewrite I4. simpl. rewrite <- app_assoc.
             rewrite find_app_skip.
             ++ simpl. rewrite N.eqb_refl. reflexivity.
             ++ intros e He X. apply NI. rewrite <- X. apply K2. exact He.
          -- (* the first classical share: its key is Ecdhe *)
             assert (NE : Some (mkEK (ks_group k) ck) <> (None : option (ekey priv))) by discriminate.
             rewrite (I2 eq_refl NE). split; [exact NE|]. split; [exact C|].
             exists ck. split; [reflexivity|].
             unfold KeyShare.ecdhe_key_for. simpl. rewrite Hy, (I2 eq_refl NE). simpl. rewrite N.eqb_refl, andb_false_r. reflexivity.
        * eapply IH; eauto.
  Qed.

  Lemma firstn_exact {A} (a b : list A) n : length a = n -> firstn n (a ++ b) = a.
  Proof. intros <-. rewrite firstn_app, Nat.sub_diag, firstn_all. simpl. now rewrite app_nil_r. Qed.
  Lemma skipn_exact {A} (a b : list A) n : length a = n -> skipn n (a ++ b) = b.
  Proof. intros <-. rewrite skipn_app, Nat.sub_diag, skipn_all. reflexivity. Qed.

  Lemma pub_len_nat g k : classical_impl g = true -> length (pub g k) = N.to_nat (share_size g).
  Proof. intros C. pose proof (L_pub_len L g k C) as H. unfold lenN in H. lia. Qed.

  Local Arguments firstn : simpl never.
  Local Arguments skipn : simpl never.
  Local Arguments Nat.eqb : simpl never.
  Local Arguments Nat.add : simpl never.

  (* structural backing + the crypto laws: the client derives the server's secret *)
  Lemma sbacked_agree ks k' : sbacked ks k' ->
    forall b r sdata ssec, server_flight (ks_group k') (ks_data k') b r = Some (sdata, ssec) ->
                           client_secret true true ks (ks_group k') sdata = Ok ssec.
  Proof.
    intros [NE SB] b r sdata ssec SF. unfold KeyShare.client_secret.
    destruct (k_ecdhe ks) as [e0|] eqn:Q; [|congruence].
    destruct (hybrid (ks_group k')) eqn:Hy.
    - destruct SB as (xk & d & M1 & M2 & DD).
      assert (X32 : forall k, length (pub 29 k) = 32%nat) by (intros; rewrite pub_len_nat; reflexivity).
      unfold hybrid in Hy. unfold KeyShare.server_flight in SF. unfold G_MLKEM, G_KYBER in *.
      destruct (N.eqb_spec (ks_group k') 4588) as [EM|NM].
      + (* X25519MLKEM768 *)
        rewrite EM in *. change (4588 =? 25497) with false in *. simpl in DD. rewrite DD in SF.
        rewrite (firstn_exact _ _ EK_SIZE (L_ek_len L d)), (skipn_exact _ _ EK_SIZE (L_ek_len L d)) in SF.
        pose proof (L_ct_len L (kem_ek d) r) as CL. pose proof (L_kem L d r) as KK.
        destruct (kem_encap (kem_ek d) r) as [ct ss]. simpl in CL, KK.
        destruct (L_dh_comm L 29 xk b eq_refl) as (s & D1 & D2). rewrite D2 in SF. inversion SF; subst sdata ssec.
        assert (LEN : (length (ct ++ pub 29 b) =? CT_SIZE + X_SIZE)%nat = true)
          by (rewrite app_length, CL, X32; apply Nat.eqb_refl).
        simpl. rewrite LEN. simpl.
        rewrite (skipn_exact _ _ CT_SIZE CL), (firstn_exact _ _ CT_SIZE CL).
        unfold KeyShare.ecdhe_key_for. simpl. rewrite M2. unfold KeyShare.get_shared. simpl. rewrite D1, M1. simpl. rewrite KK. reflexivity.
      + destruct (N.eqb_spec (ks_group k') 25497) as [EK|NK]; [|discriminate].
        rewrite EK in *. change (25497 =? 4588) with false in *. simpl in DD. rewrite DD in SF.
        rewrite (firstn_exact _ _ X_SIZE (X32 xk)), (skipn_exact _ _ X_SIZE (X32 xk)) in SF.
        pose proof (L_ct_len L (kem_ek d) r) as CL. pose proof (L_kem L d r) as KK.
        destruct (kem_encap (kem_ek d) r) as [ct ss]. simpl in CL, KK.
        destruct (L_dh_comm L 29 xk b eq_refl) as (s & D1 & D2). rewrite D2 in SF. inversion SF; subst sdata ssec.
        assert (LEN : (length (pub 29 b ++ ct) =? X_SIZE + CT_SIZE)%nat = true)
          by (rewrite app_length, CL, X32; apply Nat.eqb_refl).
        simpl. rewrite LEN. simpl.
        rewrite (skipn_exact _ _ X_SIZE (X32 b)), (firstn_exact _ _ X_SIZE (X32 b)).
        unfold KeyShare.ecdhe_key_for. simpl. rewrite M2. unfold KeyShare.get_shared. simpl. rewrite D1, M1. simpl. rewrite KK. reflexivity.
    - destruct SB as (C & ck & DD & SEL).
      unfold hybrid in Hy. apply orb_false_iff in Hy as [NM NK].
      unfold KeyShare.server_flight in SF. unfold G_MLKEM, G_KYBER in *. rewrite NM, NK in *. simpl.
      rewrite SEL. rewrite DD in SF.
      destruct (L_dh_comm L (ks_group k') ck b C) as (s & D1 & D2). rewrite D2 in SF. inversion SF; subst sdata ssec.
      unfold KeyShare.get_shared. simpl. rewrite D1.
      unfold hybrid. try rewrite NM, NK. reflexivity.
  Qed.

  Theorem keys_retained quic gv shares p0 a :
    wf_shares shares = true ->
    apply_preset true quic gv shares p0 = Ok a ->
    forall i k k', nth_error shares i = Some k -> nth_error (a_shares a) i = Some k' -> generated k = true ->
      ks_group k' = ks_group k /\
      forall b r sdata ssec, server_flight (ks_group k') (ks_data k') b r = Some (sdata, ssec) ->
                             client_secret true true (a_keys a) (ks_group k') sdata = Ok ssec.
  Proof.
    intros WF H i k k' N1 N2 Gen.
    pose proof (share_sizes _ _ _ _ _ _ H) as SZ.
    apply apply_inv in H as (s0 & s & A & K0 & P0 & KA & _).
    unfold wf_shares in WF. apply andb_true_iff in WF as [W1 W2]. apply nodupN_NoDup in W1. apply Nat.leb_le in W2.
    assert (KI : keys_in [] s0).
    { split; [rewrite P0; discriminate|rewrite K0; simpl; intros e []]. }
    pose proof (loop_backed gv _ _ _ _ _ [] A KI W1 W2) as F.
    rewrite KA.
    assert (G : forall (l : list kshare) (o : list kshare) j,
              Forall2 (fun k k' => generated k = true -> sbacked (s_keys s) k') l o ->
              Forall2 (size_rel gv) l o ->
              nth_error l j = Some k -> nth_error o j = Some k' -> sbacked (s_keys s) k' /\ ks_group k' = ks_group k).
    { intros l o j F2. revert j. induction F2 as [|x y l o Hxy F2 IH]; intros j S2 X Y; [destruct j; discriminate|].
      inversion S2; subst. destruct j; simpl in X, Y.
      - inversion X; inversion Y; subst. split; [auto|].
        match goal with Hs : size_rel gv k k' |- _ => unfold size_rel in Hs; unfold generated in Gen;
          apply andb_true_iff in Gen as [G1 G2]; apply negb_true_iff in G1, G2; rewrite G1, G2 in Hs; tauto end.
      - eapply IH; eauto. }
    destruct (G _ _ _ F SZ N1 N2) as [SB EQ]. split; [exact EQ|]. apply sbacked_agree. exact SB.
  Qed.

  (* ---- 3. the Config.Rand draws are contiguous from the entry cursor: no byte is used twice ---- *)
  Fixpoint contiguous (p : N) (l : list seg) : option N :=
    match l with
    | [] => Some p
    | s :: tl => if (sg_start s =? p) && (0 <? sg_len s) then contiguous (p + sg_len s) tl else None
    end.

  Lemma contiguous_app p l1 l2 q : contiguous p l1 = Some q -> contiguous p (l1 ++ l2) = contiguous q l2.
  Proof.
    revert p. induction l1 as [|s l1 IH]; simpl; intros p H; [inversion H; reflexivity|].
    destruct ((sg_start s =? p) && (0 <? sg_len s)); [auto|discriminate].
  Qed.

  Lemma step_contig fixed gv i k s k' s1 p0 : step_spec fixed gv i k s k' s1 ->
    contiguous p0 (s_log s) = Some (s_pos s) -> contiguous p0 (s_log s1) = Some (s_pos s1).
  Proof.
    intros H C. destruct H as [G|G D|xk n d Gen Hy E Hd|ck n Gen Hy Cl E]; auto; simpl.
    - rewrite (contiguous_app _ _ _ _ C). simpl.
      pose proof (L_gen_pos L 29 (s_pos s)) as GP. rewrite E in GP. simpl in GP.
      rewrite N.eqb_refl. replace (0 <? n) with true by lia. simpl. rewrite N.eqb_refl. reflexivity.
    - rewrite (contiguous_app _ _ _ _ C). simpl.
      pose proof (L_gen_pos L (ks_group k) (s_pos s)) as GP. rewrite E in GP. simpl in GP.
      rewrite N.eqb_refl. replace (0 <? n) with true by lia. reflexivity.
  Qed.

  Lemma loop_contig fixed gv p0 : forall l i s out s', loop fixed gv i l s = Ok (out, s') ->
    contiguous p0 (s_log s) = Some (s_pos s) -> contiguous p0 (s_log s') = Some (s_pos s').
  Proof.
    induction l as [|k tl IH]; intros i s out s' H C.
    - simpl in H. inversion H; subst. exact C.
    - apply loop_cons in H as (k' & s1 & tl' & A & B & ->). eapply IH; eauto. eapply step_contig; eauto. apply step_inv. exact A.
  Qed.

  Theorem draws_contiguous fixed quic gv shares p0 a :
    apply_preset fixed quic gv shares p0 = Ok a -> contiguous p0 (a_log a) = Some (a_end a).
  Proof.
    intros H. apply apply_inv in H as (s0 & s & A & _ & _ & _ & LA & EA & _ & _ & PS & LS).
    rewrite LA, EA. eapply loop_contig; eauto. rewrite LS, PS.
    destruct quic; simpl; repeat (rewrite N.eqb_refl; simpl); reflexivity.
  Qed.

  Lemma contiguous_le p l q : contiguous p l = Some q -> p <= q.
  Proof.
    revert p. induction l as [|s l IH]; simpl; intros p H; [inversion H; lia|].
    destruct ((sg_start s =? p) && (0 <? sg_len s)) eqn:E; [|discriminate]. apply IH in H. lia.
  Qed.

  Lemma contiguous_bounds p l q : contiguous p l = Some q ->
    forall i s, nth_error l i = Some s -> p <= sg_start s /\ 0 < sg_len s /\ sg_start s + sg_len s <= q.
  Proof.
    revert p. induction l as [|x l IH]; simpl; intros p H i s N1; [destruct i; discriminate|].
    destruct ((sg_start x =? p) && (0 <? sg_len x)) eqn:E; [|discriminate].
    apply andb_true_iff in E as [E1 E2]. apply N.eqb_eq in E1. apply N.ltb_lt in E2.
    destruct i; simpl in N1.
    - inversion N1; subst. apply contiguous_le in H. lia.
    - destruct (IH _ H _ _ N1) as (A & B & C). lia.
  Qed.

  (* two different draws never overlap *)
  Lemma contiguous_disjoint p l q : contiguous p l = Some q ->
    forall i j si sj, (i < j)%nat -> nth_error l i = Some si -> nth_error l j = Some sj ->
                      sg_start si + sg_len si <= sg_start sj.
  Proof.
    revert p. induction l as [|x l IH]; simpl; intros p H i j si sj LT N1 N2; [destruct i; discriminate|].
    destruct ((sg_start x =? p) && (0 <? sg_len x)) eqn:E; [|discriminate].
    apply andb_true_iff in E as [E1 E2]. apply N.eqb_eq in E1.
    destruct j; [lia|]. simpl in N2. destruct i; simpl in N1.
    - inversion N1; subst. destruct (contiguous_bounds _ _ _ H _ _ N2) as (A & _). lia.
    - apply (IH _ H i j si sj); [lia|exact N1|exact N2].
  Qed.

  Theorem draw_disjoint fixed quic gv shares p0 a :
    apply_preset fixed quic gv shares p0 = Ok a ->
    (* every draw lies inside [p0, a_end) and is non-empty *)
    (forall i s, nth_error (a_log a) i = Some s -> p0 <= sg_start s /\ 0 < sg_len s /\ sg_start s + sg_len s <= a_end a)
    (* no byte of the stream serves two draws *)
    /\ (forall i j si sj, (i < j)%nat -> nth_error (a_log a) i = Some si -> nth_error (a_log a) j = Some sj ->
                          sg_start si + sg_len si <= sg_start sj)
    (* the random and the session id are the bytes of their own draws *)
    /\ (nth_error (a_log a) 0 = Some (mkSeg DRandom p0 32) /\ a_random a = take_at rnd p0 32)
    /\ (quic = false -> exists p, nth_error (a_log a) 3 = Some (mkSeg DSid p 32) /\ a_sid a = take_at rnd p 32).
  Proof.
    intros H. pose proof (draws_contiguous _ _ _ _ _ _ H) as C.
    split; [eapply contiguous_bounds; eauto|]. split; [eapply contiguous_disjoint; eauto|].
    apply apply_inv in H as (s0 & s & A & _ & _ & _ & LA & _ & RA & SA & _ & LS).
    assert (PRE : exists rest, s_log s = s_log s0 ++ rest).
    { clear -A. revert A. generalize 0%nat. generalize (a_shares a). generalize s0. clear.
      intros s0 out n. revert s0 out n. induction shares as [|k tl IH]; intros s0 out n A.
      - simpl in A. inversion A; subst. exists []. now rewrite app_nil_r.
      - apply loop_cons in A as (k' & s1 & tl' & A & B & ->). destruct (IH _ _ _ B) as (r2 & R2).
        apply step_inv in A. destruct A; simpl in *; eauto; rewrite R2, <- app_assoc; eauto. }
    destruct PRE as (rest & PRE). rewrite LA, PRE, LS. split.
    - destruct quic; split; auto.
    - intros ->. eexists. split; [reflexivity|]. exact SA.
  Qed.

  (* ---- 4. QUIC: empty legacy session id (RFC 9001 8.4); TCP: 32 fresh bytes ---- *)
  Theorem quic_empty_sid fixed gv shares p0 a :
    apply_preset fixed true gv shares p0 = Ok a -> a_sid a = [].
  Proof. intros H. apply apply_inv in H as (s0 & s & _ & _ & _ & _ & _ & _ & _ & SA & _). exact SA. Qed.

  Lemma take_at_length p n : length (take_at rnd p n) = n.
  Proof. unfold take_at. now rewrite map_length, seq_length. Qed.

  Theorem tcp_sid_random_32 fixed gv shares p0 a :
    apply_preset fixed false gv shares p0 = Ok a -> length (a_sid a) = 32%nat /\ length (a_random a) = 32%nat.
  Proof.
    intros H. apply apply_inv in H as (s0 & s & _ & _ & _ & _ & _ & _ & RA & SA & _).
    rewrite RA, SA. split; apply take_at_length.
  Qed.

  (* two connections reading one Config.Rand one after the other use disjoint parts of the stream *)
  Theorem fresh_across fixed q1 q2 gv1 gv2 sh1 sh2 p1 p2 a1 a2 :
    apply_preset fixed q1 gv1 sh1 p1 = Ok a1 -> apply_preset fixed q2 gv2 sh2 p2 = Ok a2 -> a_end a1 <= p2 ->
    forall i j s1 s2, nth_error (a_log a1) i = Some s1 -> nth_error (a_log a2) j = Some s2 ->
                      sg_start s1 + sg_len s1 <= sg_start s2.
  Proof.
    intros H1 H2 LE i j s1 s2 N1 N2.
    destruct (draw_disjoint _ _ _ _ _ _ H1) as (B1 & _). destruct (draw_disjoint _ _ _ _ _ _ H2) as (B2 & _).
    destruct (B1 _ _ N1) as (_ & _ & X). destruct (B2 _ _ N2) as (Y & _). lia.
  Qed.
End P.

(* ---- the statements as closed propositions over every crypto instance that satisfies the laws ---- *)
Definition keys_retained_stmt (fixed : bool) : Prop :=
  forall (priv dkey : Type) (rnd : N -> N) (ecdh_gen : N -> N -> priv * N) (pub : N -> priv -> bytes)
         (dh : N -> priv -> bytes -> option bytes) (kem_new : bytes -> dkey) (kem_ek : dkey -> bytes)
         (kem_decap : dkey -> bytes -> option bytes) (kem_encap : bytes -> bytes -> bytes * bytes),
    laws ecdh_gen pub dh kem_ek kem_decap kem_encap ->
    forall quic gv shares p0 a,
      wf_shares shares = true ->
      apply_preset priv dkey rnd ecdh_gen pub kem_new kem_ek fixed quic gv shares p0 = Ok a ->
      forall i k k', nth_error shares i = Some k -> nth_error (a_shares a) i = Some k' -> generated k = true ->
        ks_group k' = ks_group k /\
        forall b r sdata ssec,
          server_flight priv pub dh kem_encap (ks_group k') (ks_data k') b r = Some (sdata, ssec) ->
          client_secret priv dkey dh kem_decap fixed true (a_keys a) (ks_group k') sdata = Ok ssec.

Theorem keys_retained_fixed : keys_retained_stmt true.
Proof. unfold keys_retained_stmt. intros. eapply keys_retained; eauto. Qed.

(* ---- the toy instance satisfies the laws ---- *)
Lemma pad_length n l : length (pad n l) = n.
Proof. unfold pad. rewrite firstn_length, app_length, repeat_length. lia. Qed.

Lemma firstn_pad_prefix (x : bytes) m n : length x = m -> (m <= n)%nat -> firstn m (pad n x) = x.
Proof.
  intros Hx Hm. unfold pad. rewrite firstn_firstn, Nat.min_l by exact Hm.
  subst m. rewrite firstn_app, Nat.sub_diag, firstn_all. simpl. apply app_nil_r.
Qed.

Lemma toy_laws rnd : laws (toy_gen rnd) toy_pub toy_dh toy_kem_ek toy_kem_decap toy_kem_encap.
Proof.
  constructor.
  - intros g k C. unfold toy_pub, lenN. rewrite pad_length. lia.
  - intros g a b C.
    assert (S2 : exists m, N.to_nat (share_size g) = S (S m)).
    { unfold classical_impl, memN in C. simpl in C.
      destruct (N.eqb_spec g 29) as [->|]; [eexists; vm_compute; reflexivity|].
      destruct (N.eqb_spec g 23) as [->|]; [eexists; vm_compute; reflexivity|].
      destruct (N.eqb_spec g 24) as [->|]; [eexists; vm_compute; reflexivity|].
      destruct (N.eqb_spec g 25) as [->|]; [eexists; vm_compute; reflexivity|]. discriminate. }
    destruct S2 as (m & S2).
    assert (P : forall k, toy_dh g a (toy_pub g k) = Some [g; (a * k) mod 65521]).
    { intros k. unfold toy_dh. unfold lenN, toy_pub. rewrite pad_length, N2Nat.id, N.eqb_refl.
      unfold pad. rewrite S2. simpl.
      replace (k / 256 * 256 + k mod 256) with k; [reflexivity|].
      rewrite N.mul_comm. apply N.div_mod. lia. }
    assert (P' : forall k, toy_dh g b (toy_pub g k) = Some [g; (b * k) mod 65521]).
    { intros k. unfold toy_dh. unfold lenN, toy_pub. rewrite pad_length, N2Nat.id, N.eqb_refl.
      unfold pad. rewrite S2. simpl.
      replace (k / 256 * 256 + k mod 256) with k; [reflexivity|].
      rewrite N.mul_comm. apply N.div_mod. lia. }
    exists [g; (a * b) mod 65521]. split; [apply P|]. rewrite P', N.mul_comm. reflexivity.
  - intros d. unfold toy_kem_ek. apply pad_length.
  - intros ek r. unfold toy_kem_encap. simpl. apply pad_length.
  - intros d r. unfold toy_kem_decap, toy_kem_encap. cbn [fst snd]. f_equal.
    apply firstn_pad_prefix; [apply pad_length|unfold CT_SIZE; lia].
  - intros g p. unfold toy_gen. simpl.
    destruct (N.odd (rnd p)); destruct (g =? 29); destruct (g =? 23); destruct (g =? 24); lia.
Qed.

(* ---- the pre-repair code violates the statement: two classical shares, the server selects the second ---- *)
Definition rnd0 (i : N) : N := (i * 7 + 3) mod 251.
Definition firefox_shares : list kshare := [mkKS 29 []; mkKS 23 []].

Theorem keys_retained_unfixed_refuted : ~ keys_retained_stmt false.
Proof.
  intros H.
  specialize (H N bytes rnd0 (toy_gen rnd0) toy_pub toy_dh toy_kem_new toy_kem_ek toy_kem_decap toy_kem_encap (toy_laws rnd0)
                false 2570 firefox_shares 0).
  destruct (toy_apply rnd0 false false 2570 firefox_shares 0) as [a| |] eqn:E; [|vm_compute in E; discriminate..].
  unfold toy_apply in E.
  specialize (H a eq_refl E 1%nat (mkKS 23 [])).
  assert (X : exists k', nth_error (a_shares a) 1 = Some k').
  { vm_compute in E. inversion E; subst. simpl. eauto. }
  destruct X as (k' & X). destruct (H k' eq_refl X eq_refl) as [G B].
  vm_compute in E. inversion E; subst a. clear E. simpl in X. inversion X; subst k'. clear X.
  specialize (B 5 []). simpl ks_group in B. simpl ks_data in B.
  destruct (server_flight N toy_pub toy_dh toy_kem_encap 23 _ 5 []) as [[sd ss]|] eqn:SF; [|vm_compute in SF; discriminate].
  specialize (B sd ss eq_refl). vm_compute in SF. inversion SF; subst. vm_compute in B. discriminate.
Qed.

(* ---- fingerprinted copies: every non-GREASE share of an imported key_share list is generated per connection ---- *)
Lemma import_generated wire k :
  In k (import_shares wire) -> is_grease (ks_group k) = true \/ generated k = true.
Proof.
  unfold import_shares. intros H. apply in_map_iff in H as (x & <- & _). unfold import_share.
  destruct (is_grease (ks_group x)) eqn:G; simpl.
  - left. reflexivity.
  - right. unfold generated. simpl. rewrite G. reflexivity.
Qed.

Lemma import_groups wire :
  map ks_group (filter generated (import_shares wire)) = map ks_group (filter (fun k => negb (is_grease (ks_group k))) wire).
Proof.
  induction wire as [|x l IH]; [reflexivity|].
  change (import_shares (x :: l)) with (import_share x :: import_shares l).
  cbn [filter]. unfold import_share. destruct (is_grease (ks_group x)) eqn:G.
  - assert (E : generated (mkKS GREASE_PLACEHOLDER (ks_data x)) = false) by reflexivity.
    rewrite E. cbn [negb]. exact IH.
  - assert (E : generated (mkKS (ks_group x) []) = true) by (unfold generated; cbn [ks_group ks_data]; rewrite G; reflexivity).
    rewrite E. cbn [negb map ks_group]. f_equal. exact IH.
Qed.

(* The cipher sort of shuffledCiphers (u_parrots.go:3180-3212) has exactly one correct result.
   1. math/rand Perm (Model/Prng.v [perm]) returns, for EVERY stream, a list of length n without
      duplicates whose entries lie in [0,n) - a permutation of 0..n-1 (induction on the
      inside-out Fisher-Yates loop).
   2. Hence the (isObsolete, randomTag) keys of the sortableCiphers are pairwise distinct, [less]
      is a strict total order on them, and ANY list that is a permutation of the input and sorted
      w.r.t. Less (for i < j: not Less(j,i) - what sort.Sort guarantees, stable or not) equals the
      model's insertion sort. *)
From UV Require Import Base.Common Model.Prng Proofs.PrngP Model.Randomized Proofs.RandomizedP.
From Coq Require Import ZifyBool ZifyNat ZifyN Permutation Sorted.
Open Scope N_scope.

(* ---- Perm ---- *)
Definition perm_inv (i : nat) (m : list Z) : Prop :=
  (forall k, (k < i)%nat -> (0 <= nth k m 0 < Z.of_nat i)%Z) /\
  (forall k k', (k < i)%nat -> (k' < i)%nat -> nth k m 0%Z = nth k' m 0%Z -> k = k').

Lemma perm_loop_inv fuel : forall todo i m s l r,
  (i + todo = length m)%nat -> perm_inv i m ->
  perm_loop fuel todo i m s = Some (l, r) -> length l = length m /\ perm_inv (i + todo) l.
Proof.
  induction todo as [|t IH]; intros i m s l r Hlen Hinv; cbn [perm_loop].
  - intros [= <- <-]. rewrite Nat.add_0_r. auto.
  - destruct (intn fuel (Z.of_nat (S i)) s) as [[j r0]|] eqn:E; [|discriminate]. intros H.
    apply intn_spec in E. destruct E as [_ E]. specialize (E ltac:(lia)).
    set (jn := Z.to_nat j) in *. assert (Hj : (jn <= i)%nat) by lia.
    set (m1 := set_nth i (nth jn m 0%Z) m) in *.
    set (m2 := set_nth jn (Z.of_nat i) m1) in *.
    assert (L1 : length m1 = length m) by apply set_nth_length.
    assert (L2 : length m2 = length m) by (unfold m2; rewrite set_nth_length; exact L1).
    assert (N2 : forall k, nth k m2 0%Z = if Nat.eqb k jn then Z.of_nat i else if Nat.eqb k i then nth jn m 0%Z else nth k m 0%Z).
    { intros k. unfold m2. rewrite nth_set_nth by lia. destruct (Nat.eqb k jn); [reflexivity|].
      unfold m1. rewrite nth_set_nth by lia. reflexivity. }
    apply IH in H.
    + rewrite L2 in H. replace (i + S t)%nat with (S i + t)%nat by lia. exact H.
    + lia.
    + destruct Hinv as [Hr Hi]. split.
      * intros k Hk. rewrite N2. destruct (Nat.eqb_spec k jn); [lia|]. destruct (Nat.eqb_spec k i).
        -- specialize (Hr jn ltac:(lia)). lia.
        -- specialize (Hr k ltac:(lia)). lia.
      * intros k k' Hk Hk'. rewrite !N2.
        destruct (Nat.eqb_spec k jn), (Nat.eqb_spec k i), (Nat.eqb_spec k' jn), (Nat.eqb_spec k' i); try lia;
        intros Heq;
        try (pose proof (Hr jn ltac:(lia))); try (pose proof (Hr k ltac:(lia))); try (pose proof (Hr k' ltac:(lia)));
        try (pose proof (Hi jn k' ltac:(lia) ltac:(lia))); try (pose proof (Hi k jn ltac:(lia) ltac:(lia)));
        try (pose proof (Hi k k' ltac:(lia) ltac:(lia))); lia.
Qed.

(* Perm(n): length n, entries in [0,n), pairwise distinct - for every stream *)
Lemma perm_spec fuel n s l r : perm fuel n s = Some (l, r) ->
  length l = n /\ NoDup l /\ Forall (fun x => (0 <= x < Z.of_nat n)%Z) l.
Proof.
  unfold perm. intros H. apply perm_loop_inv in H.
  - rewrite repeat_length in H. cbn [Nat.add] in H. destruct H as [Hl [Hr Hi]]. split; [exact Hl|]. split.
    + apply (NoDup_nth l 0%Z). intros a b Ha Hb. apply Hi; lia.
    + apply Forall_forall. intros x Hx. destruct (In_nth l x 0%Z Hx) as (k & Hk & <-). apply Hr. lia.
  - rewrite repeat_length. reflexivity.
  - split; intros; lia.
Qed.

Lemma perm_is_permutation fuel n s l r : perm fuel n s = Some (l, r) -> Permutation l (map Z.of_nat (seq 0 n)).
Proof.
  intros H. apply perm_spec in H. destruct H as (Hl & Hn & Hf).
  apply NoDup_Permutation_bis; [exact Hn|rewrite map_length, seq_length; lia|].
  intros x Hx. rewrite Forall_forall in Hf. specialize (Hf x Hx).
  apply in_map_iff. exists (Z.to_nat x). split; [lia|]. apply in_seq. lia.
Qed.

(* ---- Less is a strict total order on distinct keys; sorted permutations are unique ---- *)
(* what a correct sort guarantees about its output: for i < j, not Less(j, i) *)
Definition sorted_by_less (l : list scipher) : Prop := StronglySorted (fun a b => less b a = false) l.

Lemma less_asym a b : less a b = true -> less b a = false.
Proof. unfold less. destruct (sc_obsolete a), (sc_obsolete b); cbn; try discriminate; auto; lia. Qed.
Lemma nless_trans a b c : less b a = false -> less c b = false -> less c a = false.
Proof. unfold less. destruct (sc_obsolete a), (sc_obsolete b), (sc_obsolete c); cbn; try discriminate; auto; lia. Qed.
Lemma nless_antisym a b : less a b = false -> less b a = false ->
  sc_obsolete a = sc_obsolete b /\ sc_tag a = sc_tag b.
Proof. unfold less. destruct (sc_obsolete a), (sc_obsolete b); cbn; try discriminate; split; auto; lia. Qed.

Lemma insert_perm x l : Permutation (x :: l) (insert x l).
Proof.
  induction l as [|y t IH]; cbn [insert]; [apply Permutation_refl|].
  destruct (less y x); [|apply Permutation_refl].
  eapply Permutation_trans; [apply perm_swap|]. apply perm_skip. exact IH.
Qed.
Lemma isort_perm l : Permutation l (isort l).
Proof.
  induction l as [|x t IH]; cbn [isort]; [constructor|].
  eapply Permutation_trans; [apply perm_skip; exact IH|apply insert_perm].
Qed.
Lemma insert_sorted_less x l : sorted_by_less l -> sorted_by_less (insert x l).
Proof.
  unfold sorted_by_less. induction 1 as [|y t Hs IH Hf]; cbn [insert]; [repeat constructor|].
  destruct (less y x) eqn:L.
  - constructor; [exact IH|]. apply Forall_forall. intros z Hz. apply insert_In in Hz. destruct Hz as [->|Hz].
    + apply less_asym. exact L.
    + rewrite Forall_forall in Hf. auto.
  - constructor; [constructor; auto|]. constructor; [exact L|].
    apply Forall_forall. intros z Hz. rewrite Forall_forall in Hf. eapply nless_trans; [exact L|auto].
Qed.
Lemma isort_sorted_less l : sorted_by_less (isort l).
Proof. induction l; cbn [isort]; [constructor|apply insert_sorted_less; auto]. Qed.

Lemma NoDup_map_inj {A B} (f : A -> B) l a b : NoDup (map f l) -> In a l -> In b l -> f a = f b -> a = b.
Proof.
  induction l as [|x t IH]; cbn [map In]; [tauto|]. intros Hn Ha Hb E. inversion Hn as [|y ys Hnot Hn']; subst.
  destruct Ha as [->|Ha], Hb as [->|Hb]; auto.
  - exfalso. apply Hnot. rewrite E. apply in_map. exact Hb.
  - exfalso. apply Hnot. rewrite <- E. apply in_map. exact Ha.
Qed.

Lemma sorted_perm_unique (l1 : list scipher) : forall l2,
  (forall a b, In a l1 -> In b l1 -> less a b = false -> less b a = false -> a = b) ->
  Permutation l1 l2 -> sorted_by_less l1 -> sorted_by_less l2 -> l1 = l2.
Proof.
  unfold sorted_by_less. induction l1 as [|x t1 IH]; intros l2 Hanti P S1 S2.
  - apply Permutation_nil in P. auto.
  - destruct l2 as [|y t2]; [apply Permutation_sym, Permutation_nil in P; discriminate|].
    inversion S1 as [|? ? S1' F1]; subst. inversion S2 as [|? ? S2' F2]; subst.
    assert (Exy : x = y).
    { assert (Hx : In x (y :: t2)) by (eapply Permutation_in; [exact P|left; reflexivity]).
      assert (Hy : In y (x :: t1)) by (eapply Permutation_in; [apply Permutation_sym; exact P|left; reflexivity]).
      destruct Hx as [->|Hx]; [reflexivity|]. destruct Hy as [->|Hy]; [reflexivity|].
      rewrite Forall_forall in F1, F2. apply Hanti; [left; reflexivity|right; exact Hy|apply F2; exact Hx|apply F1; exact Hy]. }
    subst y. f_equal. apply IH; auto.
    + intros a b Ha Hb. apply Hanti; right; assumption.
    + eapply Permutation_cons_inv; exact P.
Qed.

(* any sorted permutation of a list with pairwise distinct tags is the insertion sort's output *)
Lemma sort_unique_tags l l' : NoDup (map sc_tag l) -> Permutation l l' -> sorted_by_less l' -> l' = isort l.
Proof.
  intros Hn P S. apply sorted_perm_unique; [|eapply Permutation_trans; [apply Permutation_sym; exact P|apply isort_perm]|exact S|apply isort_sorted_less].
  intros a b Ha Hb L1 L2. destruct (nless_antisym a b L1 L2) as [_ Et].
  apply (NoDup_map_inj sc_tag l); auto; eapply Permutation_in; try (apply Permutation_sym; exact P); assumption.
Qed.

Lemma NoDup_snd_combine {A B} (a : list A) (b : list B) : NoDup b -> NoDup (map snd (combine a b)).
Proof.
  revert b. induction a as [|x a IH]; intros [|y b] Hn; cbn [combine map]; try constructor.
  - inversion Hn; subst. intros Hin. apply in_map_iff in Hin. destruct Hin as ([x' y'] & E & Hin). cbn in E. subst y'.
    apply in_combine_r in Hin. contradiction.
  - inversion Hn; subst. apply IH. assumption.
Qed.

(* the sortableCiphers built by shuffledCiphers from ANY stream have pairwise distinct keys, so every
   correct sort (sort.Sort's pdqsort included, whatever it does with "equal" elements - there are none)
   returns the model's list *)
Definition sortable (tb : table) (pm : list Z) : list scipher :=
  map (fun '(row, tag) => {| sc_obsolete := negb (sr_tls12 row); sc_tag := tag; sc_suite := sr_id row |})
      (combine (t_suites tb) pm).
Lemma sort_unique fuel tb s pm r l' :
  perm fuel (length (t_suites tb)) s = Some (pm, r) ->
  Permutation (sortable tb pm) l' -> sorted_by_less l' -> l' = isort (sortable tb pm).
Proof.
  intros H P S. apply sort_unique_tags; auto. apply perm_spec in H. destruct H as (_ & Hn & _).
  unfold sortable. rewrite map_map.
  replace (map _ (combine (t_suites tb) pm)) with (map snd (combine (t_suites tb) pm)).
  - apply NoDup_snd_combine. exact Hn.
  - apply map_ext. intros [row tag]. reflexivity.
Qed.
(* and that list is what the model's shuffledCiphers returns *)
Lemma shuffledCiphers_is_sort fuel tb s out s' : shuffledCiphers fuel tb s = Ok (out, s') ->
  exists pm r, perm fuel (length (t_suites tb)) s = Some (pm, r) /\ out = map sc_suite (isort (sortable tb pm)).
Proof.
  unfold shuffledCiphers. intros H. apply bindM_Ok in H. destruct H as (pm & s1 & P & H).
  apply ret_Ok in H. injection H as -> ->. unfold permM in P. apply liftO_Ok in P. exists pm, s1. split; [exact P|reflexivity].
Qed.

(* Lemmas and proofs about the outer-hello part of Model/Ech.v (C15): order premise, frame / noninterference,
   outer SNI, HelloRetryRequest, outcome, the padding rule. *)
From UV Require Import Base.Common Model.Ech Proofs.EchP.
From Coq Require Import ZifyBool ZifyNat ZifyN.

(* ------------------------------------------------------------------ *)
(* the id list the code builds satisfies the order premise             *)
(* ------------------------------------------------------------------ *)
Lemma reorder_subseq oe ids : subseq (reorder_ids true (Some oe) ids) oe.
Proof. cbn [reorder_ids]. apply subseq_filter. Qed.

Section OuterProofs.
  Variable hostname_in_sni : bytes -> bytes.
  Variable padf : N -> N * bool.

  Definition wire_one (U : N) (e : uext) : list ext :=
    match e with
    | UExt x => [x] | UEch x => [x] | USni n => usni_exts hostname_in_sni n
    | UKeyShare ks => [ks_ext ks] | UPad => pad_exts padf U
    end.

  Lemma wire_exts_eq h exts : wire_exts hostname_in_sni padf h exts = flat_map (wire_one (unpadded_len hostname_in_sni h exts)) exts.
  Proof. reflexivity. Qed.

  Definition uext_ok (e : uext) : Prop :=
    match e with
    | UExt x => eid x < 65536
    | UEch x => eid x = EXT_ECH
    | _ => True
    end.

  Lemma rd_u16_gext x : eid x < 65536 -> rd_u16 (gext_wire x) = Some (eid x, be16 (u16 (len (ebody x))) ++ ebody x).
  Proof. intros H. unfold gext_wire. apply rd_u16_be16. exact H. Qed.

  (* one spec extension: what extensionsList reports for it, filtered by a predicate that rejects 0 and 21,
     is a subsequence of the ids it puts on the wire *)
  Lemma list_id_one (P : N -> bool) pad_on U e e1 :
    P 0 = false -> P EXT_PADDING = false -> uext_ok e ->
    (e1 = e \/ exists old new, e = UEch old /\ e1 = UExt new /\ eid new = EXT_ECH) ->
    subseq (filter P [ext_list_id hostname_in_sni pad_on e]) (map eid (wire_one U e1)).
  Proof.
    intros P0 P21 Hok Hrel.
    assert (Hz : forall l, subseq (filter P [0]) l) by (intros l; cbn [filter]; rewrite P0; apply ss_nil).
    assert (Hg : forall x, eid x < 65536 ->
              subseq (filter P [let w := gext_wire x in
                                if (len w =? 0) || (2000 <? len w) then 0
                                else match rd_u16 w with Some (id, _) => id | None => 0 end]) [eid x]).
    { intros x Hx. cbv zeta. destruct ((len (gext_wire x) =? 0) || (2000 <? len (gext_wire x))); [apply Hz|].
      rewrite rd_u16_gext by exact Hx. apply subseq_filter. }
    destruct Hrel as [-> | (old & new & -> & -> & Hnew)].
    - destruct e as [x | n | x | | ks]; cbn [uext_ok] in Hok; cbn [wire_one map].
      + apply Hg. exact Hok.
      + (* server_name: id 0 either way *)
        unfold ext_list_id, uext_wire, usni_wire. destruct (len (hostname_in_sni n) =? 0).
        * cbn [len length N.of_nat N.eqb orb]. apply Hz.
        * match goal with |- context [if ?c then 0 else _] => destruct c end; [apply Hz|].
          rewrite rd_u16_be16 by (unfold EXT_SNI; lia). apply Hz.
      + apply Hg. rewrite Hok. unfold EXT_ECH. lia.
      + unfold ext_list_id. destruct pad_on; [cbn [filter]; rewrite P21; apply ss_nil | apply Hz].
      + apply (Hg (ks_ext ks)). cbn [eid ks_ext]. unfold EXT_KEY_SHARE. lia.
    - cbn [uext_ok] in Hok. cbn [wire_one map]. rewrite Hnew.
      unfold ext_list_id, uext_wire.
      destruct ((len (gext_wire old) =? 0) || (2000 <? len (gext_wire old))); [apply Hz|].
      rewrite rd_u16_gext by (rewrite Hok; unfold EXT_ECH; lia). rewrite Hok. apply subseq_filter.
  Qed.

  Inductive replaced (new : ext) : list uext -> list uext -> Prop :=
  | rp_here old r : replaced new (UEch old :: r) (UExt new :: r)
  | rp_later x r r' : (forall old, x <> UEch old) -> replaced new r r' -> replaced new (x :: r) (x :: r').

  Lemma replace_first_ech_replaced exts new exts1 :
    replace_first_ech exts new = Some exts1 -> replaced new exts exts1.
  Proof.
    revert exts1. induction exts as [|x r IH]; intros exts1 H; [discriminate|].
    destruct x as [y | n | old | | ks]; cbn [replace_first_ech] in H;
      try (destruct (replace_first_ech r new) as [r'|] eqn:E; [|discriminate]; injection H as <-;
           apply rp_later; [intros old0; discriminate | apply IH; reflexivity]).
    injection H as <-. apply rp_here.
  Qed.

  Lemma filter_app_single {A} (P : A -> bool) x l : filter P (x :: l) = filter P [x] ++ filter P l.
  Proof. cbn [filter]. destruct (P x); reflexivity. Qed.

  Lemma list_ids_subseq (P : N -> bool) pad_on U new exts exts1 :
    P 0 = false -> P EXT_PADDING = false -> eid new = EXT_ECH ->
    Forall uext_ok exts -> replaced new exts exts1 ->
    subseq (filter P (extensions_list hostname_in_sni pad_on exts)) (map eid (flat_map (wire_one U) exts1)).
  Proof.
    intros P0 P21 Hnew Hok Hrep. induction Hrep as [old r | x r r' Hx Hrep IH].
    - inversion Hok as [|? ? Ho Hr]; subst.
      cbn [extensions_list map flat_map]. rewrite filter_app_single, map_app. apply subseq_app.
      + apply list_id_one; auto. right. eauto.
      + clear -P0 P21 Hr. induction r as [|y r IH]; [apply ss_nil|].
        inversion Hr; subst. cbn [map flat_map]. rewrite filter_app_single, map_app. apply subseq_app; [|apply IH; auto].
        apply list_id_one; auto.
    - inversion Hok as [|? ? Ho Hr]; subst.
      cbn [extensions_list map flat_map]. rewrite filter_app_single, map_app. apply subseq_app.
      + apply list_id_one; auto.
      + apply IH. exact Hr.
  Qed.

  (* ech_order: the list written into ech_outer_extensions, built from extensionsList, is an in-order
     subsequence of the extension types of the outer hello that is actually marshalled *)
  Theorem order_from_extensions_list inner h exts new exts1 pad_on :
    replace_first_ech exts new = Some exts1 -> eid new = EXT_ECH ->
    Forall uext_ok exts ->
    (forall t, In t (comp_ids true true (ch_items inner)) -> t <> 0 /\ t <> EXT_PADDING) ->
    subseq (comp_list (Some (extensions_list hostname_in_sni pad_on exts)) inner)
           (map eid (wire_exts hostname_in_sni padf h exts1)).
  Proof.
    intros Hrep Hnew Hok Hids. rewrite wire_exts_eq. unfold comp_list. cbn [is_some reorder_ids].
    assert (Hm : forall t, t = 0 \/ t = EXT_PADDING -> mem t (comp_ids true true (ch_items inner)) = false).
    { intros t Ht. destruct (mem t (comp_ids true true (ch_items inner))) eqn:E; [|reflexivity].
      unfold mem in E. apply existsb_exists in E. destruct E as (y & Hy & E). apply N.eqb_eq in E. subst y.
      destruct (Hids t Hy). destruct Ht; contradiction. }
    apply list_ids_subseq with (new := new); auto.
    apply replace_first_ech_replaced. exact Hrep.
  Qed.

  (* ---------------------------------------------------------------- *)
  (* the outer hello is a frame around the HPKE ciphertext             *)
  (* ---------------------------------------------------------------- *)
  Definition ech_prefix (cid kdf aead : N) (enc : bytes) (n : N) : bytes :=
    be16 EXT_ECH ++ be16 (u16 (1 + 2 + 2 + 1 + (2 + len enc) + (2 + n))) ++
    [0] ++ be16 kdf ++ be16 aead ++ [cid] ++ p16lp enc ++ be16 n.

  Lemma len_gen_outer_ech cid kdf aead enc p :
    len (gen_outer_ech cid kdf aead enc p) = 1 + 2 + 2 + 1 + (2 + len enc) + (2 + len p).
  Proof. unfold gen_outer_ech, p16lp. rewrite !len_app, !len_be16, !len_cons, len_nil. lia. Qed.

  Lemma gext_wire_ech cid kdf aead enc p :
    gext_wire (mkExt EXT_ECH (gen_outer_ech cid kdf aead enc p)) = ech_prefix cid kdf aead enc (len p) ++ p.
  Proof.
    unfold gext_wire, ech_prefix. cbn [eid ebody]. rewrite len_gen_outer_ech.
    unfold gen_outer_ech, p16lp. rewrite <- !app_assoc. reflexivity.
  Qed.

  Definition ebytes_with (U : N) (l : list uext) : bytes :=
    flat_map (fun e => if is_pad e then pad_wire padf U else uext_wire hostname_in_sni e) l.

  Definition ech_uext cid kdf aead enc p := UExt (mkExt EXT_ECH (gen_outer_ech cid kdf aead enc p)).

  Lemma sum_len_app a b : sum_len hostname_in_sni (a ++ b) = sum_len hostname_in_sni a + sum_len hostname_in_sni b.
  Proof. unfold sum_len. induction a as [|x a IH]; cbn [app fold_right]; [lia|]. rewrite IH. lia. Qed.

  (* everything marshal_outer computes from the list, as a function of the payload LENGTH only *)
  Definition frame_sum pre post cid kdf aead enc (n : N) : N :=
    sum_len hostname_in_sni pre + (len (ech_prefix cid kdf aead enc n) + n) + sum_len hostname_in_sni post.
  Definition frame_U h pre post cid kdf aead enc n : N :=
    header_length h + 4 + frame_sum pre post cid kdf aead enc n + 2.
  Definition frame_pre h pre post cid kdf aead enc n : bytes :=
    let U := frame_U h pre post cid kdf aead enc n in
    let el := len (ebytes_with U pre) + (len (ech_prefix cid kdf aead enc n) + n) + len (ebytes_with U post) in
    [1] ++ be24 (header_length h + (2 + el)) ++ be16 (uh_vers h) ++ uh_random h ++ [u8 (len (uh_sid h))] ++ uh_sid h ++
    be16 (u16 (2 * N.of_nat (length (uh_suites h)))) ++ suites_bytes (uh_suites h) ++
    [u8 (len (uh_comp h))] ++ uh_comp h ++ be16 (u16 el) ++ ebytes_with U pre ++ ech_prefix cid kdf aead enc n.
  Definition frame_post h pre post cid kdf aead enc n : bytes :=
    ebytes_with (frame_U h pre post cid kdf aead enc n) post.
  Definition frame_hello_len h pre post cid kdf aead enc n : N :=
    let U := frame_U h pre post cid kdf aead enc n in
    header_length h + (2 + (len (ebytes_with U pre) + (len (ech_prefix cid kdf aead enc n) + n) + len (ebytes_with U post))).

  Lemma marshal_outer_frame h pre post cid kdf aead enc p :
    marshal_outer hostname_in_sni padf h (pre ++ ech_uext cid kdf aead enc p :: post) =
    if (1 <? count_pad (pre ++ post))%nat then Err E_MULTI_PADDING else
    let out := frame_pre h pre post cid kdf aead enc (len p) ++ p ++ frame_post h pre post cid kdf aead enc (len p) in
    if len out =? 4 + frame_hello_len h pre post cid kdf aead enc (len p) then Ok out else Err E_HELLO_LEN.
  Proof.
    unfold marshal_outer.
    assert (Hc : count_pad (pre ++ ech_uext cid kdf aead enc p :: post) = count_pad (pre ++ post)).
    { unfold count_pad. rewrite !filter_app. cbn [filter is_pad ech_uext]. reflexivity. }
    rewrite Hc. destruct (1 <? count_pad (pre ++ post))%nat; [reflexivity|].
    assert (Hlen : (0 <? length (pre ++ ech_uext cid kdf aead enc p :: post))%nat = true).
    { rewrite app_length. cbn [length]. apply Nat.ltb_lt. lia. }
    rewrite Hlen.
    assert (HU : unpadded_len hostname_in_sni h (pre ++ ech_uext cid kdf aead enc p :: post) =
                 frame_U h pre post cid kdf aead enc (len p)).
    { unfold unpadded_len, frame_U, frame_sum. rewrite sum_len_app. unfold sum_len at 2. cbn [fold_right].
      fold (sum_len hostname_in_sni post). unfold uext_len, ech_uext, uext_wire. rewrite gext_wire_ech, len_app. lia. }
    assert (HE : exts_bytes hostname_in_sni padf h (pre ++ ech_uext cid kdf aead enc p :: post) =
                 ebytes_with (frame_U h pre post cid kdf aead enc (len p)) pre ++
                 (ech_prefix cid kdf aead enc (len p) ++ p) ++
                 ebytes_with (frame_U h pre post cid kdf aead enc (len p)) post).
    { unfold exts_bytes. rewrite HU. unfold ebytes_with. rewrite flat_map_app. cbn [flat_map is_pad ech_uext uext_wire].
      rewrite gext_wire_ech. reflexivity. }
    rewrite HE. unfold frame_pre, frame_post, frame_hello_len. cbv zeta.
    rewrite !len_app. rewrite <- !app_assoc.
    set (U := frame_U h pre post cid kdf aead enc (len p)).
    set (a := len (ebytes_with U pre)). set (b := len (ech_prefix cid kdf aead enc (len p))).
    set (c := len (ebytes_with U post)).
    replace (a + (b + len p + c)) with (a + (b + len p) + c) by lia.
    match goal with |- (if ?c1 then _ else _) = (if ?c2 then _ else _) => replace c1 with c2 by lia end.
    reflexivity.
  Qed.

  Lemma replaced_split new exts exts1 : replaced new exts exts1 ->
    exists pre old post, exts = pre ++ UEch old :: post /\ exts1 = pre ++ UExt new :: post.
  Proof.
    induction 1 as [old r | x r r' Hx Hrep (pre & old & post & -> & ->)].
    - exists [], old, r. split; reflexivity.
    - exists (x :: pre), old, post. split; reflexivity.
  Qed.

  Definition no_ech_slot (l : list uext) : Prop := forall x, In x l -> forall y, x <> UEch y.

  Lemma replace_first_same_shape exts e1 e2 r1 :
    replace_first_ech exts e1 = Some r1 ->
    exists pre old post, exts = pre ++ UEch old :: post /\ r1 = pre ++ UExt e1 :: post /\
                         replace_first_ech exts e2 = Some (pre ++ UExt e2 :: post) /\ no_ech_slot pre.
  Proof.
    revert r1. induction exts as [|x r IH]; intros r1 H; [discriminate|].
    destruct x as [y | n | old | | ks]; cbn [replace_first_ech] in *;
      try (destruct (replace_first_ech r e1) as [r'|] eqn:E; [|discriminate]; injection H as <-;
           destruct (IH r' eq_refl) as (pre & old & post & -> & -> & H2 & Hn); rewrite H2;
           eexists (_ :: pre), old, post; repeat split; try reflexivity;
           intros z [<- | Hz] w; [discriminate | apply Hn; exact Hz]).
    injection H as <-. exists [], old, r. repeat split; try reflexivity. intros z [].
  Qed.

  Lemma ech_split_unique a : forall b a' b' (o o' : ext), no_ech_slot a -> no_ech_slot a' ->
    a ++ UEch o :: b = a' ++ UEch o' :: b' -> a' = a /\ b' = b.
  Proof.
    induction a as [|x a IH]; intros b [|y a'] b' o o' Ha Ha' E; cbn [app] in E.
    - injection E as _ ->. auto.
    - injection E as <- _. exfalso. apply (Ha' (UEch o)) with (y := o); [left|]; reflexivity.
    - injection E as -> _. exfalso. apply (Ha (UEch o')) with (y := o'); [left|]; reflexivity.
    - injection E as -> E. destruct (IH b a' b' o o') as [-> ->]; auto.
      + intros z Hz. apply Ha. right. exact Hz.
      + intros z Hz. apply Ha'. right. exact Hz.
  Qed.

  Variable seal : N -> bytes -> bytes -> bytes.
  Hypothesis seal_len : forall s a p, len (seal s a p) = len p + 16.

  (* compute_outer, opened up: the final hello is frame_pre ‖ ciphertext ‖ frame_post, the AAD is the same frame
     around zeros, and the frame depends on the inner hello only through the LENGTH of its padded encoding *)
  Theorem compute_outer_frame h exts pad_on inner cfg enc useKey seq o :
    compute_outer hostname_in_sni padf seal h exts pad_on inner cfg enc useKey seq = Ok o ->
    exists pre old post,
      exts = pre ++ UEch old :: post /\ no_ech_slot pre /\
      let encap := if useKey then enc else [] in
      let n := len (o_encoded o) + 16 in
      let F := frame_pre h pre post (c_id cfg) (c_kdf cfg) (c_aead cfg) encap n in
      let G := frame_post h pre post (c_id cfg) (c_kdf cfg) (c_aead cfg) encap n in
      encode_inner inner (c_maxname cfg) (Some (extensions_list hostname_in_sni pad_on exts)) = Ok (o_encoded o) /\
      o_aad o = skipn 4 (F ++ zeros (N.to_nat n) ++ G) /\
      o_raw o = F ++ seal seq (o_aad o) (o_encoded o) ++ G.
  Proof.
    unfold compute_outer. intros H.
    destruct (encode_inner inner (c_maxname cfg) (Some (extensions_list hostname_in_sni pad_on exts))) as [encoded| |] eqn:Eenc;
      cbn [bind] in H; try discriminate.
    set (encap := if useKey then enc else []) in *.
    set (nz := N.to_nat (len encoded + 16)) in *.
    destruct (negb (fits16 encap && fits16 (zeros nz))); [discriminate|].
    destruct (replace_first_ech exts (mkExt EXT_ECH (gen_outer_ech (c_id cfg) (c_kdf cfg) (c_aead cfg) encap (zeros nz))))
      as [exts1|] eqn:R1; [|discriminate].
    destruct (replace_first_same_shape exts _ (mkExt 0 []) _ R1) as (pre & old & post & Hex & -> & _ & Hns).
    fold (ech_uext (c_id cfg) (c_kdf cfg) (c_aead cfg) encap (zeros nz)) in H.
    rewrite marshal_outer_frame in H.
    destruct (1 <? count_pad (pre ++ post))%nat; [cbn [bind] in H; discriminate|].
    assert (Hnz : len (zeros nz) = len encoded + 16) by (rewrite len_zeros; unfold nz; lia).
    cbv zeta in H. rewrite Hnz in H.
    match type of H with context [if ?c then Ok ?out else _] => destruct c eqn:C1; [|cbn [bind] in H; discriminate] end.
    cbn [bind] in H.
    match type of H with context [seal seq ?a encoded] => set (aad := a) in * end.
    destruct (negb (fits16 (seal seq aad encoded))); [discriminate|].
    destruct (replace_first_same_shape exts _ (mkExt EXT_ECH (gen_outer_ech (c_id cfg) (c_kdf cfg) (c_aead cfg) encap
                (seal seq aad encoded))) _ R1) as (pre' & old' & post' & Hex' & _ & R2 & Hns').
    rewrite R2 in H.
    assert (pre' = pre /\ post' = post) as [-> ->].
    { rewrite Hex in Hex'. eapply ech_split_unique; eauto. }
    fold (ech_uext (c_id cfg) (c_kdf cfg) (c_aead cfg) encap (seal seq aad encoded)) in H.
    rewrite marshal_outer_frame in H.
    destruct (1 <? count_pad (pre ++ post))%nat; [cbn [bind] in H; discriminate|].
    cbv zeta in H. rewrite seal_len in H.
    match type of H with context [if ?c then Ok ?out else _] => destruct c; [|cbn [bind] in H; discriminate] end.
    cbn [bind] in H. apply ok_inj in H. subst o. cbn [o_encoded o_aad o_raw].
    exists pre, old, post. split; [exact Hex|]. split; [exact Hns|]. cbv zeta.
    split; [reflexivity|]. split; reflexivity.
  Qed.

  (* ech_noninterference: two inner hellos (e.g. two secret server names) whose padded encodings have the same
     length give outer hellos that agree byte for byte outside the HPKE ciphertext *)
  Theorem outer_noninterference h exts pad_on inner1 inner2 cfg enc useKey seq o1 o2 :
    compute_outer hostname_in_sni padf seal h exts pad_on inner1 cfg enc useKey seq = Ok o1 ->
    compute_outer hostname_in_sni padf seal h exts pad_on inner2 cfg enc useKey seq = Ok o2 ->
    len (o_encoded o1) = len (o_encoded o2) ->
    exists F G ct1 ct2, o_raw o1 = F ++ ct1 ++ G /\ o_raw o2 = F ++ ct2 ++ G /\ len ct1 = len ct2 /\
                        ct1 = seal seq (o_aad o1) (o_encoded o1) /\ ct2 = seal seq (o_aad o2) (o_encoded o2) /\
                        o_aad o1 = o_aad o2.
  Proof.
    intros H1 H2 Hl.
    destruct (compute_outer_frame _ _ _ _ _ _ _ _ _ H1) as (pre & old & post & Hex & Hn1 & _ & Ha1 & Hr1).
    destruct (compute_outer_frame _ _ _ _ _ _ _ _ _ H2) as (pre' & old' & post' & Hex' & Hn2 & _ & Ha2 & Hr2).
    assert (pre' = pre /\ post' = post) as [-> ->].
    { rewrite Hex in Hex'. eapply ech_split_unique; eauto. }
    cbv zeta in Ha1, Hr1, Ha2, Hr2. rewrite <- Hl in Ha2, Hr2.
    exists (frame_pre h pre post (c_id cfg) (c_kdf cfg) (c_aead cfg) (if useKey then enc else []) (len (o_encoded o1) + 16)),
           (frame_post h pre post (c_id cfg) (c_kdf cfg) (c_aead cfg) (if useKey then enc else []) (len (o_encoded o1) + 16)),
           (seal seq (o_aad o1) (o_encoded o1)), (seal seq (o_aad o2) (o_encoded o2)).
    split; [exact Hr1|]. split; [exact Hr2|]. split; [rewrite !seal_len; lia|].
    split; [reflexivity|]. split; [reflexivity|]. congruence.
  Qed.
End OuterProofs.

(* ------------------------------------------------------------------ *)
(* outer SNI                                                            *)
(* ------------------------------------------------------------------ *)
Lemma apply_preset_sni_public pn sn e n : apply_preset_sni (Some pn) sn e = USni n -> n = pn.
Proof. destruct e; cbn [apply_preset_sni]; intros H; try discriminate. injection H. auto. Qed.

Theorem outer_sni_public hostname pn sn spec n :
  In (USni n) (map (apply_preset_sni (Some pn) sn) spec) ->
  n = pn /\ usni_exts hostname n = (if len (hostname pn) =? 0 then [] else [sni_ext (hostname pn)]).
Proof.
  rewrite in_map_iff. intros (e & He & _). apply apply_preset_sni_public in He. subst n. split; reflexivity.
Qed.

(* the extension list handed to the marshaller does not depend on Config.ServerName once ECH is configured *)
Theorem preset_sni_independent pn sn1 sn2 spec :
  map (apply_preset_sni (Some pn) sn1) spec = map (apply_preset_sni (Some pn) sn2) spec.
Proof. apply map_ext. intros e. destruct e; reflexivity. Qed.

(* ------------------------------------------------------------------ *)
(* HelloRetryRequest                                                    *)
(* ------------------------------------------------------------------ *)
Lemma set_item_find e k items : eid e = EXT_KEY_SHARE ->
  find_ext EXT_KEY_SHARE (map it_ext (set_item e k items)) = Some e.
Proof.
  intros He. induction items as [|it r IH]; cbn [set_item map find_ext it_ext].
  - rewrite He, N.eqb_refl. reflexivity.
  - destruct (eid (it_ext it) =? eid e) eqn:E1.
    + cbn [map find_ext it_ext]. rewrite He, N.eqb_refl. reflexivity.
    + destruct (eid (it_ext it) =? 45) eqn:E2.
      * cbn [map find_ext it_ext]. rewrite He, N.eqb_refl. reflexivity.
      * cbn [map find_ext it_ext]. rewrite He in E1. rewrite E1. exact IH.
Qed.

Lemma set_keyshare_exts_all ks exts ks' : In (UKeyShare ks') (set_keyshare_exts ks exts) -> ks' = ks.
Proof.
  unfold set_keyshare_exts. rewrite in_map_iff. intros (x & Hx & _).
  destruct x; try discriminate. injection Hx. auto.
Qed.

Lemma set_keyshare_exts_some ks exts : has_keyshare_ext exts = true -> In (UKeyShare ks) (set_keyshare_exts ks exts).
Proof.
  unfold has_keyshare_ext, set_keyshare_exts. rewrite existsb_exists. intros (x & Hx & Hk).
  destruct x; try discriminate. apply in_map_iff. eexists. split; [|exact Hx]. reflexivity.
Qed.

(* ech_hrr: after a HelloRetryRequest selecting `group`, the inner hello and every KeyShareExtension of the
   outer hello carry exactly the one fresh share for that group *)
Theorem hrr_one_share group pub st st' :
  hrr_update group pub st = Ok st' ->
  hs_outer_ks st' = [(group, pub)] /\
  find_ext EXT_KEY_SHARE (map it_ext (ch_items (hs_inner st'))) = Some (ks_ext [(group, pub)]) /\
  In (UKeyShare [(group, pub)]) (hs_exts st') /\
  (forall ks, In (UKeyShare ks) (hs_exts st') -> ks = [(group, pub)]).
Proof.
  unfold hrr_update. destruct (has_keyshare_ext (hs_exts st)) eqn:E; cbn [negb]; [|discriminate].
  intros H. apply ok_inj in H. subst st'. cbn [hs_outer_ks hs_inner hs_exts set_inner_keyshares ch_items].
  repeat split.
  - apply set_item_find. reflexivity.
  - apply set_keyshare_exts_some. exact E.
  - intros ks. apply set_keyshare_exts_all.
Qed.

(* ... so the compressed key_share of the inner hello expands to its own value: the outer agrees with the inner *)
Corollary hrr_outer_agrees hostname padf group pub st st' U x :
  hrr_update group pub st = Ok st' ->
  (exists ks, In (UKeyShare ks) (hs_exts st') /\ In x (wire_one hostname padf U (UKeyShare ks))) ->
  x = ks_ext [(group, pub)].
Proof.
  intros H (ks & Hk & Hx). destruct (hrr_one_share _ _ _ _ H) as (_ & _ & _ & Hall).
  rewrite (Hall ks Hk) in Hx. cbn [wire_one In] in Hx. destruct Hx as [<- | []]. reflexivity.
Qed.

(* regression: the unfixed uTLS section (stale outer shares) violates the statement — F-15 *)
Definition f15_witness : hrr_state :=
  mkHrr [(29, [1]); (23, [2])]
        (mkHello 771 (zeros 32) [] [4865] [0] [115] [mkItem (ks_ext [(29, [1]); (23, [2])]) KComp] None)
        [UExt (mkExt 10 [0; 2; 0; 24]); UKeyShare [(29, [1]); (23, [2])]].

Lemma hrr_prefix_refuted :
  exists st', hrr_update_prefix 24 [7] f15_witness = Ok st' /\
              ~ (forall ks, In (UKeyShare ks) (hs_exts st') -> ks = [(24, [7])]).
Proof.
  eexists. split; [reflexivity|]. intros H.
  specialize (H [(29, [1]); (23, [2])]). cbn in H. assert (E : [(29, [1]); (23, [2])] = [(24, [7])]) by (apply H; auto).
  discriminate.
Qed.

(* ------------------------------------------------------------------ *)
(* acceptance / rejection outcome                                       *)
(* ------------------------------------------------------------------ *)
Definition retry_of (v : client_view) : bytes := match v_ee_retry_configs v with Some r => r | None => [] end.

Theorem reject_yields_rejection x509 v :
  v_confirmation_ok v = false -> v_rejection_verify v = None ->
  x509 (v_outer_server_name v) = true -> v_server_flight_ok v = true ->
  client_finish x509 v = HsECHRejection (retry_of v).
Proof.
  intros Hc Hr Hx Hf. unfold client_finish, retry_of. rewrite Hc, Hr, Hx, Hf. cbn [negb andb]. reflexivity.
Qed.

Theorem reject_never_completes x509 v :
  v_confirmation_ok v = false -> forall a n, client_finish x509 v <> HsComplete a n.
Proof.
  intros Hc a n. unfold client_finish. rewrite Hc. cbn [negb andb].
  destruct (v_rejection_verify v) as [b|]; [destruct b | destruct (x509 (v_outer_server_name v))]; cbn [negb];
    try discriminate; destruct (v_server_flight_ok v); discriminate.
Qed.

Theorem accept_completes x509 v :
  v_confirmation_ok v = true -> v_ee_retry_configs v = None ->
  x509 (v_config_server_name v) = true -> v_server_flight_ok v = true ->
  client_finish x509 v = HsComplete true (v_config_server_name v).
Proof.
  intros Hc Hr Hx Hf. unfold client_finish. rewrite Hc, Hr, Hx, Hf. reflexivity.
Qed.

(* ------------------------------------------------------------------ *)
(* the padding rule                                                     *)
(* ------------------------------------------------------------------ *)
(* ech.go:226-231 as written: the result is in [0,31] and (hlen + p + result) is a multiple of 32, where p is the
   name padding that is computed but NOT appended; so the encoded length is hlen + result. *)
Lemma padding_len_range hlen name_len maxn :
  (0 < hlen)%Z -> (0 <= name_len)%Z -> (0 <= maxn)%Z ->
  (0 <= padding_len hlen name_len maxn <= 31)%Z.
Proof.
  intros H1 H2 H3. unfold padding_len.
  set (p := if (name_len =? 0)%Z then (maxn + 9)%Z else Z.max 0 (maxn - name_len)).
  assert (0 <= p)%Z by (unfold p; destruct (name_len =? 0)%Z; lia).
  rewrite Z.rem_mod_nonneg by lia. pose proof (Z.mod_pos_bound (hlen + p - 1) 32). lia.
Qed.

Lemma padding_len_multiple hlen name_len maxn :
  (0 < hlen)%Z -> (0 <= name_len)%Z -> (0 <= maxn)%Z ->
  let p := if (name_len =? 0)%Z then (maxn + 9)%Z else Z.max 0 (maxn - name_len) in
  ((hlen + p + padding_len hlen name_len maxn) mod 32 = 0)%Z.
Proof.
  intros H1 H2 H3 p. unfold padding_len. fold p.
  assert (0 <= p)%Z by (unfold p; destruct (name_len =? 0)%Z; lia).
  rewrite Z.rem_mod_nonneg by lia.
  pose proof (Z.div_mod (hlen + p - 1) 32 ltac:(lia)) as D.
  replace (hlen + p + (31 - (hlen + p - 1) mod 32))%Z with (32 * ((hlen + p - 1) / 32 + 1))%Z by lia.
  rewrite Z.mul_comm. apply Z.mod_mul. lia.
Qed.

(* ------------------------------------------------------------------ *)
(* the server's key list over a history of connections                  *)
(* ------------------------------------------------------------------ *)
Definition server_answer (keys : list ech_key) (c : bytes) : bool * option bytes :=
  (server_accepts keys c, if server_accepts keys c then None else retry_list keys).

(* every connection of a history is answered from the CONFIGURED key list *)
Theorem server_history_configured keys cfgs : server_history keys cfgs = map (server_answer keys) cfgs.
Proof. induction cfgs as [|c r IH]; cbn [server_history server_step map]; [reflexivity|]. rewrite IH. reflexivity. Qed.

Theorem server_accepts_configured keys k : In k keys -> server_accepts keys (fst k) = true.
Proof.
  intros H. unfold server_accepts. apply existsb_exists. exists k. split; [exact H|]. apply bytes_eqb_eq. reflexivity.
Qed.

Theorem server_rejects_unknown keys c : (forall k, In k keys -> fst k <> c) -> server_accepts keys c = false.
Proof.
  intros H. unfold server_accepts.
  destruct (existsb (fun k => bytes_eqb (fst k) c) keys) eqn:E; [|reflexivity].
  apply existsb_exists in E. destruct E as (k & Hk & E). apply bytes_eqb_eq in E. exfalso. exact (H k Hk E).
Qed.

(* the retry list is exactly the SendAsRetry configs, in configuration order *)
Theorem retry_list_exact keys :
  retry_list keys = match filter snd keys with [] => None | _ => Some (p16lp (flat_map fst (filter snd keys))) end.
Proof. unfold retry_list. destruct (filter snd keys); reflexivity. Qed.

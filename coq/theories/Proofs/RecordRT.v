(* One record: what halfConn.encrypt produces, a halfConn holding the matching read state decrypts
   to the same payload and content type, and the two states stay matched. *)
From UV Require Import Base.Common Model.Record Proofs.RecordP.
From Coq Require Import ZifyBool ZifyNat ZifyN.
Open Scope N_scope.

(* the writer's cipher state [tx] and the reader's [rx] describe the same key stream *)
Definition cipher_match (tx rx : cipher) : Prop :=
  c_kind tx = c_kind rx /\ c_alg tx = c_alg rx /\ c_key tx = c_key rx /\ c_iv tx = c_iv rx /\
  c_pos tx = c_pos rx /\ c_bs tx = c_bs rx /\
  (c_kind tx = KCbc -> c_read tx = false /\ c_read rx = true /\ (c_bs tx = 8 \/ c_bs tx = 16)%nat).

(* which MAC state accompanies which cipher (what establishKeys / setTrafficSecret produce) *)
Definition half_wf (h : half) : Prop :=
  match h_cipher h with
  | None => False
  | Some c =>
    match c_kind c with
    | KStream | KCbc => (exists m, h_mac h = Some m) /\ h_vers h <> V13
    | KAeadPrefix => h_mac h = None /\ h_vers h <> V13
    | KAeadXor => h_mac h = None
    end
  end.

Definition synced (tx rx : half) : Prop :=
  h_vers tx = h_vers rx /\ h_mac tx = h_mac rx /\ h_seq tx = h_seq rx /\ h_secret tx = h_secret rx /\
  half_wf tx /\
  match h_cipher tx, h_cipher rx with Some a, Some b => cipher_match a b | _, _ => False end.

Definition outer_typ (v typ : N) : N := if v =? V13 then rtAppData else typ.
Definition body_slack (v : N) : N := if v =? V13 then 17 else 560.

Lemma inc_seq_ok h : h_seq h + 1 < 18446744073709551616 -> inc_seq h = Ok (set_seq h (h_seq h + 1)).
Proof. intros H. unfold inc_seq. destruct (h_seq h + 1 =? 18446744073709551616) eqn:E; [lia|reflexivity]. Qed.

Lemma mac_len_le a : (mac_len a <= 48)%nat.
Proof. unfold mac_len. repeat destruct (_ =? _); lia. Qed.

Lemma set_len_hdr t v1 v2 n body m :
  set_len (([t; v1; v2] ++ be16 n) ++ body) m = [t; v1; v2] ++ be16 m ++ body.
Proof. reflexivity. Qed.

Lemma len_nat (b : bytes) : N.to_nat (len b) = length b.
Proof. unfold len. lia. Qed.

Lemma be16_sub16 (n : nat) : be16 (N.of_nat (n + 16 - aead_overhead)) = be16 (N.of_nat n).
Proof. unfold aead_overhead. f_equal. lia. Qed.

Section RT.
Variable P : prims.
Hypothesis HP : prims_ok P.

Lemma seal_length a k n ad p : length (aead_seal P a k n ad p) = (length p + 16)%nat.
Proof.
  rewrite (aead_stream P HP), app_length, bxor_length, (aead_ks_len P HP), (aead_tag_len P HP).
  unfold aead_overhead. lia.
Qed.

Lemma seq8_nonempty s : exists x r, seq8 s = x :: r.
Proof.
  pose proof (seq8_length s) as H. destruct (seq8 s) as [|x r]; [discriminate|eauto].
Qed.

(* the record header [typ; v1; v2; len] as the explicit five-element list *)
Definition hdr5 (typ v1 v2 n : N) : bytes := [typ; v1; v2; (n / 256) mod 256; n mod 256].

Lemma set_len5 t v1 v2 h3 h4 body n :
  set_len (t :: v1 :: v2 :: h3 :: h4 :: body) n = hdr5 t v1 v2 n ++ body.
Proof. reflexivity. Qed.

Lemma len5 t v1 v2 n body : len (hdr5 t v1 v2 n ++ body) - N.of_nat recordHeaderLen = len body.
Proof. unfold len, hdr5, recordHeaderLen. cbn [length app]. lia. Qed.

(* ---- RC4 + HMAC ---- *)
Lemma rt_stream tv a key iv rd rd' pos bs m ts nc nm nc' nm' sec typ v1 v2 payload rnd :
  tv <> V13 -> len payload < 65536 -> ts + 1 < 18446744073709551616 ->
  let tx := mkHalf tv (Some (mkCipher KStream a key iv rd pos bs)) (Some m) ts nc nm sec in
  let rx := mkHalf tv (Some (mkCipher KStream a key iv rd' pos bs)) (Some m) ts nc' nm' sec in
  exists body pos2,
    encrypt P tx (hdr5 typ v1 v2 (len payload)) payload rnd
      = Ok (hdr5 typ v1 v2 (len body) ++ body,
            mkHalf tv (Some (mkCipher KStream a key iv rd pos2 bs)) (Some m) (ts + 1) nc nm sec) /\
    decrypt P rx (hdr5 typ v1 v2 (len body) ++ body)
      = Ok (payload, typ, mkHalf tv (Some (mkCipher KStream a key iv rd' pos2 bs)) (Some m) (ts + 1) nc' nm' sec) /\
    length body = (length payload + mac_len (m_alg m))%nat.
Proof.
  intros Hv Hpl Hseq tx rx. subst tx rx.
  set (hdr := hdr5 typ v1 v2 (len payload)).
  set (mac := hmac P (m_alg m) (m_key m) (seq8 ts ++ hdr ++ payload)).
  set (d1 := bxor payload (stream_ks P a key pos (length payload))).
  set (d2 := bxor mac (stream_ks P a key (pos + len payload) (length mac))).
  assert (Lmac : length mac = mac_len (m_alg m)) by apply (hmac_len P HP).
  assert (Ld1 : length d1 = length payload) by (unfold d1; rewrite bxor_length, (stream_len P HP); lia).
  assert (Ld2 : length d2 = length mac) by (unfold d2; rewrite bxor_length, (stream_len P HP); lia).
  assert (Hv' : (tv =? V13) = false) by lia.
  exists (d1 ++ d2), (pos + len (d1 ++ d2)).
  split; [|split].
  - replace (pos + len (d1 ++ d2)) with (pos + len payload + len mac)
      by (rewrite len_app; unfold len; rewrite Ld1, Ld2; lia).
    unfold encrypt. cbn [h_cipher].
    match goal with |- context [enc_explicit ?h ?c ?r] => change (enc_explicit h c r) with (@Ok bytes []) end. cbn [bind].
    match goal with |- context [enc_cipher P ?h ?c ?r ?e ?p] => change (enc_cipher P h c r e p)
      with (@Ok (bytes * cipher) (hdr ++ d1 ++ d2, mkCipher KStream a key iv rd (pos + len payload + len mac) bs)) end.
    cbn [bind fst snd]. rewrite inc_seq_ok by exact Hseq.
    unfold hdr, hdr5 at 1. cbn [app]. rewrite set_len5. do 2 f_equal.
    fold (hdr5 typ v1 v2 (len payload)). rewrite len5. reflexivity.
  - unfold decrypt. cbn [h_vers]. rewrite Hv'. cbn [andb h_cipher].
    change (length (hdr5 typ v1 v2 (len (d1 ++ d2)) ++ d1 ++ d2) <? recordHeaderLen)%nat with false.
    cbv iota.
    match goal with |- context [dec_cipher P ?h ?c ?r] => change (dec_cipher P h c r)
      with (@Ok (bytes * bytes * nat * bool * cipher)
              ([], bxor (d1 ++ d2) (stream_ks P a key pos (length (d1 ++ d2))), 0%nat, true,
               mkCipher KStream a key iv rd' (pos + len (d1 ++ d2)) bs)) end.
    cbn [bind]. unfold dec_inner13. cbn [h_vers]. rewrite Hv'. cbn [bind fst snd].
    (* the keystream covers payload then mac *)
    assert (Hx : bxor (d1 ++ d2) (stream_ks P a key pos (length (d1 ++ d2))) = payload ++ mac).
    { rewrite app_length, Ld1, Ld2, (stream_split P HP).
      rewrite bxor_app by (rewrite (stream_len P HP); exact Ld1).
      unfold d1, d2. rewrite !bxor_invol by (rewrite (stream_len P HP); reflexivity).
      unfold len. reflexivity. }
    rewrite Hx. unfold dec_mac. cbn [h_mac h_seq].
    unfold m_size. rewrite app_length, Lmac.
    replace (length payload + mac_len (m_alg m) <? mac_len (m_alg m))%nat with false
      by (symmetry; apply Nat.ltb_ge; lia).
    replace (length payload + mac_len (m_alg m) - mac_len (m_alg m) - 0)%nat with (length payload) by lia.
    change (firstn 3 (hdr5 typ v1 v2 (len (d1 ++ d2)) ++ d1 ++ d2) ++ be16 (N.of_nat (length payload))) with hdr.
    rewrite firstn_app_exact by reflexivity.
    unfold slice. rewrite skipn_app_exact by reflexivity.
    replace (length payload + mac_len (m_alg m) - length payload)%nat with (length mac) by lia.
    rewrite firstn_all.
    unfold tls10mac. fold mac.
    replace (bytes_eqb mac mac) with true by (symmetry; apply bytes_eqb_eq; reflexivity).
    cbn [andb bind]. rewrite inc_seq_ok by exact Hseq. reflexivity.
  - rewrite app_length. lia.
Qed.


(* ---- TLS 1.2 AES-GCM: explicit nonce = sequence number ---- *)
Lemma rt_prefix tv a key iv rd rd' pos bs ts nc nm nc' nm' sec typ v1 v2 payload rnd :
  tv <> V13 -> len payload < 65536 -> ts + 1 < 18446744073709551616 ->
  let c := mkCipher KAeadPrefix a key iv rd pos bs in
  let c' := mkCipher KAeadPrefix a key iv rd' pos bs in
  let tx := mkHalf tv (Some c) None ts nc nm sec in
  let rx := mkHalf tv (Some c') None ts nc' nm' sec in
  exists body,
    encrypt P tx (hdr5 typ v1 v2 (len payload)) payload rnd
      = Ok (hdr5 typ v1 v2 (len body) ++ body, mkHalf tv (Some c) None (ts + 1) nc nm sec) /\
    decrypt P rx (hdr5 typ v1 v2 (len body) ++ body)
      = Ok (payload, typ, mkHalf tv (Some c') None (ts + 1) nc' nm' sec) /\
    length body = (length payload + 24)%nat /\
    firstn 8 body = seq8 ts /\
    exists ad, body = seq8 ts ++ aead_seal P a key (aead_nonce c (seq8 ts)) ad payload.
Proof.
  intros Hv Hpl Hseq c c' tx rx. subst tx rx c c'.
  set (hdr := hdr5 typ v1 v2 (len payload)).
  set (ct := aead_seal P a key (firstn 4 iv ++ seq8 ts) (seq8 ts ++ hdr) payload).
  assert (Lct : length ct = (length payload + 16)%nat) by apply seal_length.
  assert (Hv' : (tv =? V13) = false) by lia.
  exists (seq8 ts ++ ct).
  split; [|split; [|split; [|split]]].
  - unfold encrypt. cbn [h_cipher].
    match goal with |- context [enc_explicit ?h ?c ?r] => change (enc_explicit h c r) with (@Ok bytes (seq8 ts)) end.
    cbn [bind]. unfold enc_cipher. cbn [c_kind h_vers]. rewrite Hv'.
    match goal with |- context [bind (Ok (?r, ?c)) _] =>
      change r with (hdr ++ seq8 ts ++ ct) end.
    cbn [bind fst snd]. rewrite inc_seq_ok by exact Hseq.
    unfold hdr, hdr5 at 1. cbn [app]. rewrite set_len5. do 2 f_equal.
    fold (hdr5 typ v1 v2 (len payload)). rewrite len5. reflexivity.
  - unfold decrypt. cbn [h_vers]. rewrite Hv'. cbn [andb h_cipher].
    change (length (hdr5 typ v1 v2 (len (seq8 ts ++ ct)) ++ seq8 ts ++ ct) <? recordHeaderLen)%nat with false.
    cbv iota.
    unfold dec_cipher. cbn [c_kind h_vers]. rewrite Hv'.
    match goal with |- context [bind (if ?b then _ else _) _] => change b with false end. cbv iota.
    match goal with |- context [aead_open P ?a0 ?k0 ?n0 ?ad0 ?c0] =>
      change (aead_open P a0 k0 n0 ad0 c0)
        with (aead_open P a key (firstn 4 iv ++ seq8 ts)
                (seq8 ts ++ [typ; v1; v2] ++ be16 (N.of_nat (length ct - aead_overhead))) ct) end.
    replace (N.of_nat (length ct - aead_overhead)) with (len payload)
      by (rewrite Lct; unfold len, aead_overhead; lia).
    change (seq8 ts ++ [typ; v1; v2] ++ be16 (len payload)) with (seq8 ts ++ hdr).
    unfold ct at 1. rewrite (aead_rt P HP). cbn [bind].
    unfold dec_inner13. cbn [h_vers]. rewrite Hv'. cbn [bind fst snd].
    unfold dec_mac. cbn [h_mac bind]. rewrite inc_seq_ok by exact Hseq. reflexivity.
  - rewrite app_length, seq8_length. lia.
  - apply firstn_app_exact. rewrite seq8_length. reflexivity.
  - eexists. reflexivity.
Qed.

(* ---- TLS 1.2 ChaCha20-Poly1305: no explicit nonce, nonce = iv xor seq ---- *)
Lemma rt_xor12 tv a key iv rd rd' pos bs ts nc nm nc' nm' sec typ v1 v2 payload rnd :
  tv <> V13 -> len payload < 65536 -> ts + 1 < 18446744073709551616 ->
  let c := mkCipher KAeadXor a key iv rd pos bs in
  let c' := mkCipher KAeadXor a key iv rd' pos bs in
  let tx := mkHalf tv (Some c) None ts nc nm sec in
  let rx := mkHalf tv (Some c') None ts nc' nm' sec in
  exists body,
    encrypt P tx (hdr5 typ v1 v2 (len payload)) payload rnd
      = Ok (hdr5 typ v1 v2 (len body) ++ body, mkHalf tv (Some c) None (ts + 1) nc nm sec) /\
    decrypt P rx (hdr5 typ v1 v2 (len body) ++ body)
      = Ok (payload, typ, mkHalf tv (Some c') None (ts + 1) nc' nm' sec) /\
    length body = (length payload + 16)%nat /\
    exists ad, body = aead_seal P a key (aead_nonce c (seq8 ts)) ad payload.
Proof.
  intros Hv Hpl Hseq c c' tx rx. subst tx rx c c'.
  set (hdr := hdr5 typ v1 v2 (len payload)).
  set (ct := aead_seal P a key (firstn 4 iv ++ bxor (skipn 4 iv) (seq8 ts)) (seq8 ts ++ hdr) payload).
  assert (Lct : length ct = (length payload + 16)%nat) by apply seal_length.
  assert (Hv' : (tv =? V13) = false) by lia.
  exists ct.
  split; [|split; [|split]].
  - unfold encrypt. cbn [h_cipher].
    match goal with |- context [enc_explicit ?h ?c ?r] => change (enc_explicit h c r) with (@Ok bytes []) end.
    cbn [bind]. unfold enc_cipher. cbn [c_kind h_vers]. rewrite Hv'.
    match goal with |- context [bind (Ok (?r, ?c)) _] => change r with (hdr ++ ct) end.
    cbn [bind fst snd]. rewrite inc_seq_ok by exact Hseq.
    unfold hdr, hdr5 at 1. cbn [app]. rewrite set_len5. do 2 f_equal.
    fold (hdr5 typ v1 v2 (len payload)). rewrite len5. reflexivity.
  - unfold decrypt. cbn [h_vers]. rewrite Hv'. cbn [andb h_cipher].
    change (length (hdr5 typ v1 v2 (len ct) ++ ct) <? recordHeaderLen)%nat with false.
    cbv iota.
    unfold dec_cipher. cbn [c_kind h_vers]. rewrite Hv'.
    match goal with |- context [bind (if ?b then _ else _) _] => change b with false end. cbv iota.
    match goal with |- context [aead_open P ?a0 ?k0 ?n0 ?ad0 ?c0] =>
      change (aead_open P a0 k0 n0 ad0 c0)
        with (aead_open P a key (firstn 4 iv ++ bxor (skipn 4 iv) (seq8 ts))
                (seq8 ts ++ [typ; v1; v2] ++ be16 (N.of_nat (length ct - aead_overhead))) ct) end.
    replace (N.of_nat (length ct - aead_overhead)) with (len payload)
      by (rewrite Lct; unfold len, aead_overhead; lia).
    change (seq8 ts ++ [typ; v1; v2] ++ be16 (len payload)) with (seq8 ts ++ hdr).
    unfold ct at 1. rewrite (aead_rt P HP). cbn [bind].
    unfold dec_inner13. cbn [h_vers]. rewrite Hv'. cbn [bind fst snd].
    unfold dec_mac. cbn [h_mac bind]. rewrite inc_seq_ok by exact Hseq. reflexivity.
  - exact Lct.
  - eexists. reflexivity.
Qed.

(* ---- TLS 1.3: inner content type, header as additional data ---- *)
Lemma rt_tls13 a key iv rd rd' pos bs ts nc nm nc' nm' sec typ v1 v2 payload rnd :
  typ <> 0 -> len payload <= maxPlaintext -> ts + 1 < 18446744073709551616 ->
  let c := mkCipher KAeadXor a key iv rd pos bs in
  let c' := mkCipher KAeadXor a key iv rd' pos bs in
  let tx := mkHalf V13 (Some c) None ts nc nm sec in
  let rx := mkHalf V13 (Some c') None ts nc' nm' sec in
  exists body,
    encrypt P tx (hdr5 typ v1 v2 (len payload)) payload rnd
      = Ok (hdr5 rtAppData v1 v2 (len body) ++ body, mkHalf V13 (Some c) None (ts + 1) nc nm sec) /\
    decrypt P rx (hdr5 rtAppData v1 v2 (len body) ++ body)
      = Ok (payload, typ, mkHalf V13 (Some c') None (ts + 1) nc' nm' sec) /\
    length body = (length payload + 17)%nat /\
    exists ad, body = aead_seal P a key (aead_nonce c (seq8 ts)) ad (payload ++ [typ]).
Proof.
  intros Htyp Hpl Hseq c c' tx rx. subst tx rx c c'.
  set (n13 := len payload + 1 + N.of_nat aead_overhead).
  set (hdr13 := hdr5 rtAppData v1 v2 n13).
  set (ct := aead_seal P a key (firstn 4 iv ++ bxor (skipn 4 iv) (seq8 ts)) hdr13 (payload ++ [typ])).
  assert (Lct : length ct = (length payload + 17)%nat).
  { unfold ct. rewrite seal_length, app_length. cbn [length]. lia. }
  assert (Ln : len ct = n13) by (unfold len, n13, aead_overhead; rewrite Lct; unfold len; lia).
  exists ct.
  split; [|split; [|split]].
  - unfold encrypt. cbn [h_cipher].
    match goal with |- context [enc_explicit ?h ?c ?r] => change (enc_explicit h c r) with (@Ok bytes []) end.
    cbn [bind].
    match goal with |- context [enc_cipher P ?h ?c ?r ?e ?p] =>
      change (enc_cipher P h c r e p) with (@Ok (bytes * cipher) (hdr13 ++ ct, c)) end.
    cbn [bind fst snd]. rewrite inc_seq_ok by exact Hseq.
    unfold hdr13, hdr5 at 1. cbn [app]. rewrite set_len5. do 2 f_equal.
    fold (hdr5 rtAppData v1 v2 n13). rewrite len5. reflexivity.
  - rewrite Ln. fold hdr13. unfold decrypt.
    change (length (hdr13 ++ ct) <? recordHeaderLen)%nat with false.
    change ((h_vers (mkHalf V13 (Some (mkCipher KAeadXor a key iv rd' pos bs)) None ts nc' nm' sec) =? V13)
             && (nth 0 (hdr13 ++ ct) 0 =? rtCCS)) with false.
    cbv iota. cbn [h_cipher].
    match goal with |- context [dec_cipher P ?h ?c ?r] =>
      change (dec_cipher P h c r)
        with (match aead_open P a key (firstn 4 iv ++ bxor (skipn 4 iv) (seq8 ts)) hdr13 ct with
              | None => Err a_bad_record_mac
              | Some pt => Ok (pt, ct, 0%nat, true, mkCipher KAeadXor a key iv rd' pos bs)
              end) end.
    unfold ct at 1. rewrite (aead_rt P HP). cbn [bind].
    unfold dec_inner13.
    change (h_vers (mkHalf V13 (Some (mkCipher KAeadXor a key iv rd' pos bs)) None ts nc' nm' sec) =? V13) with true.
    change (negb (nth 0 (hdr13 ++ ct) 0 =? rtAppData)) with false.
    cbv iota.
    replace (maxPlaintext + 1 <? len (payload ++ [typ])) with false
      by (symmetry; rewrite len_app; unfold len at 2; cbn [length]; unfold maxPlaintext in *; lia).
    rewrite strip13_ok by exact Htyp. cbn [bind fst snd].
    unfold dec_mac. cbn [h_mac bind]. rewrite inc_seq_ok by exact Hseq. reflexivity.
  - exact Lct.
  - eexists. reflexivity.
Qed.

(* ---- CBC + HMAC (TLS 1.0 implicit chained IV; TLS 1.1+ explicit random IV) ---- *)
Lemma rt_cbc tv a key iv pos bs m ts nc nm nc' nm' sec typ v1 v2 payload rnd :
  tv <> V13 -> len payload < 65536 -> ts + 1 < 18446744073709551616 ->
  (1 <= bs <= 256)%nat -> (bs <= length rnd)%nat ->
  let tx := mkHalf tv (Some (mkCipher KCbc a key iv false pos bs)) (Some m) ts nc nm sec in
  let rx := mkHalf tv (Some (mkCipher KCbc a key iv true pos bs)) (Some m) ts nc' nm' sec in
  exists body iv2,
    encrypt P tx (hdr5 typ v1 v2 (len payload)) payload rnd
      = Ok (hdr5 typ v1 v2 (len body) ++ body,
            mkHalf tv (Some (mkCipher KCbc a key iv2 false pos bs)) (Some m) (ts + 1) nc nm sec) /\
    decrypt P rx (hdr5 typ v1 v2 (len body) ++ body)
      = Ok (payload, typ, mkHalf tv (Some (mkCipher KCbc a key iv2 true pos bs)) (Some m) (ts + 1) nc' nm' sec) /\
    (length payload <= length body <= length payload + mac_len (m_alg m) + 2 * bs)%nat /\
    firstn (explicit_nonce_len tx) body = firstn (explicit_nonce_len tx) rnd.
Proof.
  intros Hv Hpl Hseq Hbs Hrnd tx rx. subst tx rx.
  set (hdr := hdr5 typ v1 v2 (len payload)).
  set (mac := hmac P (m_alg m) (m_key m) (seq8 ts ++ hdr ++ payload)).
  assert (Lmac : length mac = mac_len (m_alg m)) by apply (hmac_len P HP).
  set (ptl := (length payload + length mac)%nat).
  set (pl := (bs - ptl mod bs)%nat).
  set (dst := payload ++ mac ++ repeat ((N.of_nat pl - 1) mod 256) pl).
  assert (Hmodlt : (ptl mod bs < bs)%nat) by (apply Nat.mod_upper_bound; lia).
  assert (Hpl1 : (1 <= pl <= bs)%nat) by (unfold pl; lia).
  assert (Ldst : length dst = (ptl + pl)%nat).
  { unfold dst, ptl. rewrite !app_length, repeat_length. lia. }
  assert (Hdmod : (length dst mod bs = 0)%nat) by (rewrite Ldst; unfold pl; apply pad_multiple; lia).
  assert (Hv' : (tv =? V13) = false) by lia.
  assert (Hbs0 : (bs =? 0)%nat = false) by (apply Nat.eqb_neq; lia).
  (* the IV used for this record, and the explicit part of the record *)
  set (ex := if (V11 <=? tv)%N then firstn bs rnd else []).
  set (ivu := if (V11 <=? tv)%N then firstn bs rnd else iv).
  assert (Lex : length ex = if (V11 <=? tv)%N then bs else 0%nat).
  { unfold ex. destruct (V11 <=? tv)%N; [apply firstn_length_le; lia|reflexivity]. }
  set (ct := cbc_enc P a key ivu dst).
  assert (Lct : length ct = length dst) by apply (cbc_enc_len P HP).
  set (iv2 := last_block bs ivu ct).
  assert (Enl : forall rd x y, explicit_nonce_len (mkHalf tv (Some (mkCipher KCbc a key iv rd pos bs)) (Some m) ts x y sec)
                 = if (V11 <=? tv)%N then bs else 0%nat) by reflexivity.
  exists (ex ++ ct), iv2.
  split; [|split; [|split]].
  - unfold encrypt. cbn [h_cipher].
    assert (E1 : enc_explicit (mkHalf tv (Some (mkCipher KCbc a key iv false pos bs)) (Some m) ts nc nm sec)
                   (mkCipher KCbc a key iv false pos bs) rnd = Ok ex).
    { unfold enc_explicit. rewrite Enl. unfold ex. cbn [is_cbc c_kind negb andb].
      destruct (V11 <=? tv)%N; [|reflexivity].
      replace (0 <? bs)%nat with true by (symmetry; apply Nat.ltb_lt; lia).
      replace (length rnd <? bs)%nat with false by (symmetry; apply Nat.ltb_ge; lia). reflexivity. }
    rewrite E1. cbn [bind].
    assert (E2 : enc_cipher P (mkHalf tv (Some (mkCipher KCbc a key iv false pos bs)) (Some m) ts nc nm sec)
                   (mkCipher KCbc a key iv false pos bs) (hdr ++ ex) ex payload
                 = Ok ((hdr ++ ex) ++ ct, mkCipher KCbc a key iv2 false pos bs)).
    { unfold enc_cipher. cbn [c_kind h_mac h_seq c_bs]. rewrite Hbs0.
      change (firstn recordHeaderLen (hdr ++ ex)) with hdr.
      unfold tls10mac. fold mac. fold ptl. fold pl. fold dst.
      assert (Ec1 : match ex with [] => mkCipher KCbc a key iv false pos bs
                    | _ :: _ => set_iv (mkCipher KCbc a key iv false pos bs) ex end
                    = mkCipher KCbc a key ivu false pos bs).
      { unfold ex, ivu. destruct (V11 <=? tv)%N; [|reflexivity].
        destruct (firstn bs rnd) eqn:Ef; [|reflexivity].
        apply (f_equal (@length N)) in Ef. rewrite firstn_length_le in Ef by lia. cbn in Ef. lia. }
      rewrite Ec1. unfold crypt_blocks. cbn [c_bs c_read c_alg c_key c_iv c_kind c_pos].
      rewrite Hdmod. cbn [Nat.eqb negb bind fst snd]. reflexivity. }
    rewrite E2. cbn [bind fst snd]. rewrite inc_seq_ok by exact Hseq.
    unfold hdr, hdr5 at 1. cbn [app]. rewrite set_len5. do 2 f_equal.
    fold (hdr5 typ v1 v2 (len payload)). rewrite <- app_assoc. rewrite len5. reflexivity.
  - unfold decrypt. cbn [h_vers]. rewrite Hv'. cbn [andb h_cipher].
    change (length (hdr5 typ v1 v2 (len (ex ++ ct)) ++ ex ++ ct) <? recordHeaderLen)%nat with false.
    cbv iota.
    assert (D1 : dec_cipher P (mkHalf tv (Some (mkCipher KCbc a key iv true pos bs)) (Some m) ts nc' nm' sec)
                   (mkCipher KCbc a key iv true pos bs) (hdr5 typ v1 v2 (len (ex ++ ct)) ++ ex ++ ct)
                 = Ok ([], dst, pl, true, mkCipher KCbc a key iv2 true pos bs)).
    { unfold dec_cipher. rewrite Enl. cbn [c_kind h_mac c_bs]. rewrite Hbs0.
      change (skipn recordHeaderLen (hdr5 typ v1 v2 (len (ex ++ ct)) ++ ex ++ ct)) with (ex ++ ct).
      assert (Lb : length (ex ++ ct) = ((if (V11 <=? tv)%N then bs else 0) + length dst)%nat)
        by (rewrite app_length, Lex, Lct; reflexivity).
      assert (Hm1 : (length (ex ++ ct) mod bs = 0)%nat).
      { rewrite Lb. destruct (V11 <=? tv)%N; [|exact Hdmod].
        rewrite <- Nat.add_mod_idemp_l, Nat.mod_same by lia. exact Hdmod. }
      rewrite Hm1. cbn [Nat.eqb negb orb].
      assert (Hmin : (round_up (m_size m + 1) bs <= length dst)%nat).
      { apply round_up_le; [lia|exact Hdmod|]. rewrite Ldst. unfold ptl, m_size. lia. }
      replace (length (ex ++ ct) <? (if (V11 <=? tv)%N then bs else 0%nat) + round_up (m_size m + 1) bs)%nat
        with false by (symmetry; apply Nat.ltb_ge; rewrite Lb; lia).
      assert (Ec1 : (if (0 <? (if (V11 <=? tv)%N then bs else 0%nat))%nat
                     then set_iv (mkCipher KCbc a key iv true pos bs) (firstn (if (V11 <=? tv)%N then bs else 0%nat) (ex ++ ct))
                     else mkCipher KCbc a key iv true pos bs) = mkCipher KCbc a key ivu true pos bs).
      { unfold ivu. destruct (V11 <=? tv)%N eqn:E11.
        - replace (0 <? bs)%nat with true by (symmetry; apply Nat.ltb_lt; lia).
          rewrite firstn_app_exact by (rewrite Lex; reflexivity). unfold ex. rewrite ?E11. reflexivity.
        - reflexivity. }
      assert (Eb : (if (0 <? (if (V11 <=? tv)%N then bs else 0%nat))%nat
                    then skipn (if (V11 <=? tv)%N then bs else 0%nat) (ex ++ ct) else ex ++ ct) = ct).
      { destruct (V11 <=? tv)%N eqn:E11.
        - replace (0 <? bs)%nat with true by (symmetry; apply Nat.ltb_lt; lia).
          apply skipn_app_exact. rewrite Lex. reflexivity.
        - cbn. unfold ex. rewrite ?E11. reflexivity. }
      rewrite Ec1, Eb. unfold crypt_blocks. cbn [c_bs c_read c_alg c_key c_iv c_kind c_pos].
      rewrite Lct, Hdmod. cbn [Nat.eqb negb bind fst snd].
      assert (Hdec : cbc_dec P a key ivu ct = dst) by (unfold ct; apply (cbc_rt P HP)).
      rewrite Hdec.
      unfold dst at 1. rewrite app_assoc. rewrite extract_padding_ok by lia. reflexivity. }
    rewrite D1. cbn [bind]. unfold dec_inner13. cbn [h_vers]. rewrite Hv'. cbn [bind fst snd].
    unfold dec_mac. cbn [h_mac h_seq]. unfold m_size. rewrite Ldst.
    replace (ptl + pl <? mac_len (m_alg m))%nat with false by (symmetry; apply Nat.ltb_ge; unfold ptl; lia).
    replace (ptl + pl - mac_len (m_alg m) - pl)%nat with (length payload) by (unfold ptl; lia).
    change (firstn 3 (hdr5 typ v1 v2 (len (ex ++ ct)) ++ ex ++ ct) ++ be16 (N.of_nat (length payload))) with hdr.
    unfold dst. rewrite firstn_app_exact by reflexivity.
    unfold slice. rewrite skipn_app_exact by reflexivity.
    replace (length payload + mac_len (m_alg m) - length payload)%nat with (length mac) by lia.
    rewrite firstn_app_exact by reflexivity.
    unfold tls10mac. fold mac.
    replace (bytes_eqb mac mac) with true by (symmetry; apply bytes_eqb_eq; reflexivity).
    cbn [andb bind]. rewrite inc_seq_ok by exact Hseq. reflexivity.
  - rewrite app_length, Lex, Lct, Ldst. unfold ptl. destruct (V11 <=? tv)%N; lia.
  - rewrite Enl. unfold ex. destruct (V11 <=? tv)%N; [|reflexivity].
    rewrite firstn_app_exact by (rewrite firstn_length_le; lia). reflexivity.
Qed.


(* ---- all cipher kinds ---- *)
Theorem encrypt_decrypt (tx rx : half) (typ v1 v2 : N) (payload rnd : bytes) :
  synced tx rx ->
  typ <> 0 ->
  len payload <= maxPlaintext ->
  h_seq tx + 1 < 18446744073709551616 ->
  (explicit_nonce_len tx <= length rnd)%nat ->
  exists body tx' rx',
    encrypt P tx (hdr5 typ v1 v2 (len payload)) payload rnd
      = Ok (hdr5 (outer_typ (h_vers tx) typ) v1 v2 (len body) ++ body, tx') /\
    decrypt P rx (hdr5 (outer_typ (h_vers tx) typ) v1 v2 (len body) ++ body) = Ok (payload, typ, rx') /\
    synced tx' rx' /\
    len payload <= len body <= len payload + body_slack (h_vers tx) /\
    h_seq tx' = h_seq tx + 1 /\ h_vers tx' = h_vers tx /\ h_secret tx' = h_secret tx /\
    h_mac tx' = h_mac tx /\
    (forall c, h_cipher tx = Some c -> exists c', h_cipher tx' = Some c' /\ c_kind c' = c_kind c /\ c_bs c' = c_bs c).
Proof.
  intros Hs Htyp Hlen Hseq Hrnd.
  destruct tx as [tv tc tm ts tnc tnm tsec], rx as [rv rc rm rs rnc rnm rsec].
  unfold synced, half_wf in Hs. cbn [h_vers h_mac h_seq h_secret h_cipher] in *.
  destruct Hs as (<- & <- & <- & <- & Hwf & Hm).
  destruct tc as [[k a key iv rd pos bs]|]; [|contradiction].
  destruct rc as [[k' a' key' iv' rd' pos' bs']|]; [|contradiction].
  destruct Hm as (Hk & Ha & Hkey & Hiv & Hpos & Hbs & Hcbc). cbn [c_kind c_alg c_key c_iv c_pos c_bs c_read] in *.
  subst k' a' key' iv' pos' bs'.
  assert (Hpl : len payload < 65536) by (unfold maxPlaintext in Hlen; lia).
  destruct k.
  - (* RC4 *)
    destruct Hwf as ([m ->] & Hv).
    destruct (rt_stream tv a key iv rd rd' pos bs m ts tnc tnm rnc rnm tsec typ v1 v2 payload rnd Hv Hpl Hseq)
      as (body & pos2 & He & Hd & Hl).
    assert (Hv' : (tv =? V13) = false) by lia.
    unfold outer_typ, body_slack. rewrite Hv'.
    exists body. eexists. eexists. split; [exact He|]. split; [exact Hd|].
    pose proof (mac_len_le (m_alg m)).
    unfold synced, half_wf, cipher_match, len; cbn [h_vers h_mac h_seq h_secret h_cipher c_kind c_alg c_key c_iv c_pos c_bs].
    repeat split; eauto; try lia; try discriminate;
    try (intros c0 Hc0; inversion Hc0; subst c0; eexists; cbn; auto).
  - (* GCM, TLS 1.2 *)
    destruct Hwf as (-> & Hv).
    destruct (rt_prefix tv a key iv rd rd' pos bs ts tnc tnm rnc rnm tsec typ v1 v2 payload rnd Hv Hpl Hseq)
      as (body & He & Hd & Hl & _).
    assert (Hv' : (tv =? V13) = false) by lia.
    unfold outer_typ, body_slack. rewrite Hv'.
    exists body. eexists. eexists. split; [exact He|]. split; [exact Hd|].
    unfold synced, half_wf, cipher_match, len; cbn [h_vers h_mac h_seq h_secret h_cipher c_kind c_alg c_key c_iv c_pos c_bs].
    repeat split; eauto; try lia; try discriminate;
    try (intros c0 Hc0; inversion Hc0; subst c0; eexists; cbn; auto).
  - (* xor nonce: ChaCha20 in TLS 1.2, everything in TLS 1.3 *)
    subst tm.
    destruct (N.eq_dec tv V13) as [->|Hv].
    + destruct (rt_tls13 a key iv rd rd' pos bs ts tnc tnm rnc rnm tsec typ v1 v2 payload rnd Htyp Hlen Hseq)
        as (body & He & Hd & Hl & _).
      change (outer_typ V13 typ) with rtAppData. change (body_slack V13) with 17.
      exists body. eexists. eexists. split; [exact He|]. split; [exact Hd|].
      unfold synced, half_wf, cipher_match, len; cbn [h_vers h_mac h_seq h_secret h_cipher c_kind c_alg c_key c_iv c_pos c_bs].
      repeat split; eauto; try lia; try discriminate;
      try (intros c0 Hc0; inversion Hc0; subst c0; eexists; cbn; auto).
    + destruct (rt_xor12 tv a key iv rd rd' pos bs ts tnc tnm rnc rnm tsec typ v1 v2 payload rnd Hv Hpl Hseq)
        as (body & He & Hd & Hl & _).
      assert (Hv' : (tv =? V13) = false) by lia.
      unfold outer_typ, body_slack. rewrite Hv'.
      exists body. eexists. eexists. split; [exact He|]. split; [exact Hd|].
      unfold synced, half_wf, cipher_match, len; cbn [h_vers h_mac h_seq h_secret h_cipher c_kind c_alg c_key c_iv c_pos c_bs].
      repeat split; eauto; try lia; try discriminate;
      try (intros c0 Hc0; inversion Hc0; subst c0; eexists; cbn; auto).
  - (* CBC *)
    destruct Hwf as ([m ->] & Hv).
    destruct (Hcbc eq_refl) as (-> & -> & Hbs8).
    assert (Hbs1 : (1 <= bs <= 256)%nat) by lia.
    assert (Hr : (bs <= length rnd)%nat \/ (explicit_nonce_len
              (mkHalf tv (Some (mkCipher KCbc a key iv false pos bs)) (Some m) ts tnc tnm tsec) = 0)%nat).
    { cbn [explicit_nonce_len h_cipher c_kind h_vers c_bs] in *. destruct (V11 <=? tv); [left; exact Hrnd|right; reflexivity]. }
    (* when no explicit IV is used the random source is irrelevant: pad it *)
    set (rnd' := rnd ++ repeat 0 bs).
    assert (Hrnd' : (bs <= length rnd')%nat) by (unfold rnd'; rewrite app_length, repeat_length; lia).
    destruct (rt_cbc tv a key iv pos bs m ts tnc tnm rnc rnm tsec typ v1 v2 payload rnd' Hv Hpl Hseq Hbs1 Hrnd')
      as (body & iv2 & He & Hd & Hl & _).
    assert (He' : encrypt P (mkHalf tv (Some (mkCipher KCbc a key iv false pos bs)) (Some m) ts tnc tnm tsec)
                    (hdr5 typ v1 v2 (len payload)) payload rnd
                  = encrypt P (mkHalf tv (Some (mkCipher KCbc a key iv false pos bs)) (Some m) ts tnc tnm tsec)
                    (hdr5 typ v1 v2 (len payload)) payload rnd').
    { unfold encrypt. cbn [h_cipher]. f_equal. unfold enc_explicit.
      cbn [explicit_nonce_len h_cipher c_kind h_vers c_bs is_cbc negb andb] in *.
      destruct (V11 <=? tv).
      - replace (length rnd <? bs)%nat with false by (symmetry; apply Nat.ltb_ge; lia).
        replace (length rnd' <? bs)%nat with false by (symmetry; apply Nat.ltb_ge; lia).
        unfold rnd'. rewrite firstn_app. replace (bs - length rnd)%nat with 0%nat by lia.
        cbn [firstn]. rewrite app_nil_r. reflexivity.
      - reflexivity. }
    assert (Hv' : (tv =? V13) = false) by lia.
    unfold outer_typ, body_slack. rewrite Hv'. rewrite He'.
    exists body. eexists. eexists. split; [exact He|]. split; [exact Hd|].
    pose proof (mac_len_le (m_alg m)).
    unfold synced, half_wf, cipher_match, len; cbn [h_vers h_mac h_seq h_secret h_cipher c_kind c_alg c_key c_iv c_pos c_bs c_read].
    repeat split; eauto; try lia; try discriminate;
    try (intros c0 Hc0; inversion Hc0; subst c0; eexists; cbn; auto).
Qed.


(* the shape of an AEAD record: header, explicit nonce (= sequence number, TLS 1.2 GCM only), then
   Seal under the nonce derived from the sequence number *)
Lemma encrypt_aead_form (tx rx : half) (typ v1 v2 : N) (payload rnd : bytes) (ci : cipher) :
  synced tx rx -> h_cipher tx = Some ci -> c_kind ci = KAeadPrefix \/ c_kind ci = KAeadXor ->
  typ <> 0 -> len payload <= maxPlaintext -> h_seq tx + 1 < 18446744073709551616 ->
  exists tx' ad L,
    encrypt P tx (hdr5 typ v1 v2 (len payload)) payload rnd
      = Ok (hdr5 (outer_typ (h_vers tx) typ) v1 v2 L
              ++ firstn (explicit_nonce_len tx) (seq8 (h_seq tx))
              ++ aead_seal P (c_alg ci) (c_key ci) (aead_nonce ci (seq8 (h_seq tx))) ad
                   (if h_vers tx =? V13 then payload ++ [typ] else payload), tx').
Proof.
  intros Hs Hci Hk Htyp Hlen Hseq.
  destruct tx as [tv tc tm ts tnc tnm tsec], rx as [rv rc rm rs rnc rnm rsec].
  unfold synced, half_wf in Hs. cbn [h_vers h_mac h_seq h_secret h_cipher] in *.
  destruct Hs as (<- & <- & <- & <- & Hwf & Hm). subst tc.
  destruct rc as [ci'|]; [|contradiction].
  destruct ci as [k a key iv rd pos bs]. cbn [c_kind c_alg c_key] in *.
  assert (Hpl : len payload < 65536) by (unfold maxPlaintext in Hlen; lia).
  destruct Hk as [-> | ->].
  - destruct Hwf as (-> & Hv).
    destruct (rt_prefix tv a key iv rd rd pos bs ts tnc tnm tnc tnm tsec typ v1 v2 payload rnd Hv Hpl Hseq)
      as (body & He & _ & _ & _ & ad & Hb).
    assert (Hv' : (tv =? V13) = false) by lia.
    unfold outer_typ. rewrite Hv'. eexists. exists ad. eexists. rewrite He, Hb. reflexivity.
  - cbn in Hwf. subst tm. destruct (N.eq_dec tv V13) as [-> | Hv].
    + destruct (rt_tls13 a key iv rd rd pos bs ts tnc tnm tnc tnm tsec typ v1 v2 payload rnd Htyp Hlen Hseq)
        as (body & He & _ & _ & ad & Hb).
      eexists. exists ad. eexists. rewrite He, Hb. reflexivity.
    + destruct (rt_xor12 tv a key iv rd rd pos bs ts tnc tnm tnc tnm tsec typ v1 v2 payload rnd Hv Hpl Hseq)
        as (body & He & _ & _ & ad & Hb).
      assert (Hv' : (tv =? V13) = false) by lia.
      unfold outer_typ. rewrite Hv'. eexists. exists ad. eexists. rewrite He, Hb. reflexivity.
Qed.

End RT.

(* One record: what halfConn.encrypt produces, a halfConn holding the matching read state decrypts
   to the same payload and content type, and the two states stay matched. *)
From UV Require Import Base.Common Model.Record Proofs.RecordP.
From Coq Require Import ZifyBool ZifyNat ZifyN.
Open Scope N_scope.

(* the writer's cipher state [tx] and the reader's [rx] describe the same key stream *)
Definition cipher_match (tx rx : cipher) : Prop :=
  c_kind tx = c_kind rx /\ c_alg tx = c_alg rx /\ c_key tx = c_key rx /\ c_iv tx = c_iv rx /\
  c_pos tx = c_pos rx /\ c_bs tx = c_bs rx /\
  (c_kind tx = KCbc -> c_read tx = false /\ c_read rx = true /\ (1 <= c_bs tx <= 256)%nat).

(* which MAC state accompanies which cipher (what establishKeys / setTrafficSecret produce) *)
Definition half_wf (h : half) : Prop :=
  match h_cipher h with
  | None => False
  | Some c =>
    match c_kind c with
    | KStream | KCbc => (exists m, h_mac h = Some m) /\ h_vers h <> V13
    | KAeadPrefix => h_mac h = None /\ h_vers h <> V13
    | KAeadXor => h_mac h = None
    end
  end.

Definition synced (tx rx : half) : Prop :=
  h_vers tx = h_vers rx /\ h_mac tx = h_mac rx /\ h_seq tx = h_seq rx /\ h_secret tx = h_secret rx /\
  half_wf tx /\
  match h_cipher tx, h_cipher rx with Some a, Some b => cipher_match a b | _, _ => False end.

Definition outer_typ (v typ : N) : N := if v =? V13 then rtAppData else typ.
Definition body_slack (v : N) : N := if v =? V13 then 17 else 560.

Lemma inc_seq_ok h : h_seq h + 1 < 18446744073709551616 -> inc_seq h = Ok (set_seq h (h_seq h + 1)).
Proof. intros H. unfold inc_seq. destruct (h_seq h + 1 =? 18446744073709551616) eqn:E; [lia|reflexivity]. Qed.

Lemma mac_len_le a : (mac_len a <= 48)%nat.
Proof. unfold mac_len. repeat destruct (_ =? _); lia. Qed.

Lemma set_len_hdr t v1 v2 n body m :
  set_len (([t; v1; v2] ++ be16 n) ++ body) m = [t; v1; v2] ++ be16 m ++ body.
Proof. reflexivity. Qed.

Lemma len_nat (b : bytes) : N.to_nat (len b) = length b.
Proof. unfold len. lia. Qed.

Lemma be16_sub16 (n : nat) : be16 (N.of_nat (n + 16 - aead_overhead)) = be16 (N.of_nat n).
Proof. unfold aead_overhead. f_equal. lia. Qed.

Section RT.
Variable P : prims.
Hypothesis HP : prims_ok P.

Lemma seal_length a k n ad p : length (aead_seal P a k n ad p) = (length p + 16)%nat.
Proof.
  rewrite (aead_stream P HP), app_length, bxor_length, (aead_ks_len P HP), (aead_tag_len P HP).
  unfold aead_overhead. lia.
Qed.

Lemma seq8_nonempty s : exists x r, seq8 s = x :: r.
Proof.
  pose proof (seq8_length s) as H. destruct (seq8 s) as [|x r]; [discriminate|eauto].
Qed.

(* the record header [typ; v1; v2; len] as the explicit five-element list *)
Definition hdr5 (typ v1 v2 n : N) : bytes := [typ; v1; v2; (n / 256) mod 256; n mod 256].

Lemma set_len5 t v1 v2 h3 h4 body n :
  set_len (t :: v1 :: v2 :: h3 :: h4 :: body) n = hdr5 t v1 v2 n ++ body.
Proof. reflexivity. Qed.

Lemma len5 t v1 v2 n body : len (hdr5 t v1 v2 n ++ body) - N.of_nat recordHeaderLen = len body.
Proof. unfold len, hdr5, recordHeaderLen. cbn [length app]. lia. Qed.

(* ---- RC4 + HMAC ---- *)
Lemma rt_stream tv a key iv rd rd' pos bs m ts nc nm nc' nm' sec typ v1 v2 payload rnd :
  tv <> V13 -> len payload < 65536 -> ts + 1 < 18446744073709551616 ->
  let tx := mkHalf tv (Some (mkCipher KStream a key iv rd pos bs)) (Some m) ts nc nm sec in
  let rx := mkHalf tv (Some (mkCipher KStream a key iv rd' pos bs)) (Some m) ts nc' nm' sec in
  exists body c2 c2',
    encrypt P tx (hdr5 typ v1 v2 (len payload)) payload rnd
      = Ok (hdr5 typ v1 v2 (len body) ++ body, mkHalf tv (Some c2) (Some m) (ts + 1) nc nm sec) /\
    decrypt P rx (hdr5 typ v1 v2 (len body) ++ body)
      = Ok (payload, typ, mkHalf tv (Some c2') (Some m) (ts + 1) nc' nm' sec) /\
    cipher_match c2 c2' /\ length body = (length payload + mac_len (m_alg m))%nat.
Proof.
  intros Hv Hpl Hseq tx rx. subst tx rx.
  set (hdr := hdr5 typ v1 v2 (len payload)).
  set (mac := hmac P (m_alg m) (m_key m) (seq8 ts ++ hdr ++ payload)).
  set (d1 := bxor payload (stream_ks P a key pos (length payload))).
  set (d2 := bxor mac (stream_ks P a key (pos + len payload) (length mac))).
  assert (Lmac : length mac = mac_len (m_alg m)) by apply (hmac_len P HP).
  assert (Ld1 : length d1 = length payload) by (unfold d1; rewrite bxor_length, (stream_len P HP); lia).
  assert (Ld2 : length d2 = length mac) by (unfold d2; rewrite bxor_length, (stream_len P HP); lia).
  assert (Hv' : (tv =? V13) = false) by lia.
  exists (d1 ++ d2), (mkCipher KStream a key iv rd (pos + len payload + len mac) bs),
         (mkCipher KStream a key iv rd' (pos + len (d1 ++ d2)) bs).
  split; [|split; [|split]].
  - unfold encrypt. cbn [h_cipher].
    match goal with |- context [enc_explicit ?h ?c ?r] => change (enc_explicit h c r) with (@Ok bytes []) end. cbn [bind].
    match goal with |- context [enc_cipher P ?h ?c ?r ?e ?p] => change (enc_cipher P h c r e p)
      with (@Ok (bytes * cipher) (hdr ++ d1 ++ d2, mkCipher KStream a key iv rd (pos + len payload + len mac) bs)) end.
    cbn [bind fst snd]. rewrite inc_seq_ok by exact Hseq.
    unfold hdr, hdr5 at 1. cbn [app]. rewrite set_len5. do 2 f_equal.
    fold (hdr5 typ v1 v2 (len payload)). rewrite len5. reflexivity.
  - unfold decrypt. cbn [h_vers]. rewrite Hv'. cbn [andb h_cipher].
    change (length (hdr5 typ v1 v2 (len (d1 ++ d2)) ++ d1 ++ d2) <? recordHeaderLen)%nat with false.
    cbv iota.
    match goal with |- context [dec_cipher P ?h ?c ?r] => change (dec_cipher P h c r)
      with (@Ok (bytes * bytes * nat * bool * cipher)
              ([], bxor (d1 ++ d2) (stream_ks P a key pos (length (d1 ++ d2))), 0%nat, true,
               mkCipher KStream a key iv rd' (pos + len (d1 ++ d2)) bs)) end.
    cbn [bind]. unfold dec_inner13. cbn [h_vers]. rewrite Hv'. cbn [bind fst snd].
    (* the keystream covers payload then mac *)
    assert (Hx : bxor (d1 ++ d2) (stream_ks P a key pos (length (d1 ++ d2))) = payload ++ mac).
    { rewrite app_length, Ld1, Ld2, (stream_split P HP).
      rewrite bxor_app by (rewrite (stream_len P HP); exact Ld1).
      unfold d1, d2. rewrite !bxor_invol by (rewrite (stream_len P HP); reflexivity).
      unfold len. reflexivity. }
    rewrite Hx. unfold dec_mac. cbn [h_mac h_seq].
    unfold m_size. rewrite app_length, Lmac.
    replace (length payload + mac_len (m_alg m) <? mac_len (m_alg m))%nat with false
      by (symmetry; apply Nat.ltb_ge; lia).
    replace (length payload + mac_len (m_alg m) - mac_len (m_alg m) - 0)%nat with (length payload) by lia.
    rewrite firstn_app_exact by reflexivity.
    unfold slice. rewrite skipn_app_exact by reflexivity.
    replace (length payload + mac_len (m_alg m) - length payload)%nat with (length mac) by lia.
    rewrite firstn_all.
    change (firstn 3 (hdr5 typ v1 v2 (len (d1 ++ d2)) ++ d1 ++ d2) ++ be16 (N.of_nat (length payload))) with hdr.
    unfold tls10mac. fold mac.
    replace (bytes_eqb mac mac) with true by (symmetry; apply bytes_eqb_eq; reflexivity).
    cbn [andb bind]. rewrite inc_seq_ok by exact Hseq. reflexivity.
  - unfold cipher_match. cbn [c_kind c_alg c_key c_iv c_pos c_bs]. rewrite len_app. unfold len.
    repeat split; try lia; try discriminate. rewrite Ld1, Ld2. lia.
  - rewrite app_length. lia.
Qed.

End RT.

(* Proofs for Model/GoCH.v, part 2: projection of the emitted extensions and the marshal -> parse theorem. *)
From Coq Require Import ZifyBool ZifyNat ZifyN.
From UV Require Import Base.Common Model.Public Model.GoCH Proofs.GoCHP.
Open Scope N_scope.

(* ---------- the projection of [present m] is m ---------- *)
Lemma fm_nil {B} (f : ext -> option B) : find_map f (map snd (filter fst (@nil (bool * ext)))) = None.
Proof. reflexivity. Qed.
Lemma fm_skip {B} (f : ext -> option B) c x l : f x = None ->
  find_map f (map snd (filter fst ((c, x) :: l))) = find_map f (map snd (filter fst l)).
Proof. intros H. destruct c; cbn; [rewrite H|]; reflexivity. Qed.
Lemma fm_hit {B} (f : ext -> option B) c x l b : f x = Some b ->
  find_map f (map snd (filter fst ((c, x) :: l))) = if c then Some b else find_map f (map snd (filter fst l)).
Proof. intros H. destruct c; cbn; [rewrite H|]; reflexivity. Qed.

(* the field values compared by the property (everything but original and the extension-id list) *)
Definition ch_fields (m : clientHelloMsg) :=
  (ch_vers m, ch_random m, ch_sessionId m, ch_cipherSuites m, ch_compressionMethods m, ch_serverName m,
   ch_ocspStapling m, ch_supportedCurves m, ch_supportedPoints m, ch_ticketSupported m, ch_sessionTicket m,
   ch_supportedSignatureAlgorithms m, ch_supportedSignatureAlgorithmsCert m, ch_secureRenegotiationSupported m,
   ch_secureRenegotiation m, ch_extendedMasterSecret m, ch_alpnProtocols m, ch_scts m, ch_supportedVersions m, ch_cookie m,
   ch_keyShares m, ch_earlyData m, ch_pskModes m, ch_pskIdentities m, ch_pskBinders m,
   ch_quicTransportParameters m, ch_encryptedClientHello m, ch_nextProtoNeg m).

(* the shape unmarshal leaves the "absent" fields in *)
Definition canon (m : clientHelloMsg) : Prop :=
  (ch_ticketSupported m = false -> ch_sessionTicket m = []) /\
  (ch_secureRenegotiationSupported m = false -> ch_secureRenegotiation m = []) /\
  (existsb (N.eqb scsv) (ch_cipherSuites m) = true -> ch_secureRenegotiationSupported m = true) /\
  (elems (ch_pskIdentities m) = [] -> ch_pskBinders m = []) /\
  ch_keyShares m <> Some [] /\ ch_pskIdentities m <> Some [] /\ ch_nextProtoNeg m = false.

Ltac fm := repeat first [rewrite fm_skip by reflexivity | erewrite fm_hit by reflexivity | rewrite fm_nil].

Lemma project_present m data : canon m ->
  ch_fields (project data (ch_vers m) (ch_random m) (ch_sessionId m) (ch_cipherSuites m) (ch_compressionMethods m) (present m))
  = ch_fields m.
Proof.
  intros (C1 & C2 & C3 & C4 & C5 & C6 & C7).
  destruct m as [orig vers random sid suites comp sni ocsp curves points tsup ticket sigs sigsc rsup reneg ems alpn scts
                 versions cookie shares early modes ids binders quic ech extl npn].
  cbn [ch_ticketSupported ch_sessionTicket ch_secureRenegotiationSupported ch_secureRenegotiation ch_cipherSuites
       ch_pskIdentities ch_pskBinders ch_keyShares ch_nextProtoNeg] in *.
  subst npn.
  unfold ch_fields, project, present, slots, g_sni, g_status, g_curves, g_points, g_ticket, g_sigalgs, g_sigalgscert, g_reneg,
    g_ems, g_alpn, g_sct, g_versions, g_cookie, g_shares, g_early, g_pskmodes, g_quic, g_psk, g_ech.
  cbn [ch_vers ch_random ch_sessionId ch_cipherSuites ch_compressionMethods ch_serverName ch_ocspStapling ch_supportedCurves
       ch_supportedPoints ch_ticketSupported ch_sessionTicket ch_supportedSignatureAlgorithms ch_supportedSignatureAlgorithmsCert
       ch_secureRenegotiationSupported ch_secureRenegotiation ch_extendedMasterSecret ch_alpnProtocols ch_scts
       ch_supportedVersions ch_cookie ch_keyShares ch_earlyData ch_pskModes ch_pskIdentities ch_pskBinders
       ch_quicTransportParameters ch_encryptedClientHello ch_nextProtoNeg ch_original ch_extensions].
  fm.
  (* each component is now  match (if present then Some v else None) with ... end  *)
  destruct tsup; [|rewrite (C1 eq_refl)].
  all: destruct rsup; [|rewrite (C2 eq_refl)].
  all: try (destruct (existsb (N.eqb scsv) suites) eqn:Es; [discriminate (C3 Es)|]).
  all: destruct shares as [[|k shares]|]; [congruence| |].
  all: destruct ids as [[|i ids]|]; [congruence| |]; try rewrite (C4 eq_refl).
  all: cbn [elems is_nil negb fst snd slice_of orb]; repeat f_equal.
  all: repeat match goal with
       | |- context [is_nil ?v] => is_var v; destruct v
       | |- context [if ?b then _ else _] => is_var b; destruct b
       | |- context [match ?v with _ => _ end] => is_var v; destruct v
       end; cbn; try rewrite orb_true_r; try reflexivity.
  all: rewrite orb_false_r; destruct (existsb (N.eqb scsv) suites) eqn:Es; [|reflexivity];
    first [discriminate (C3 Es) | discriminate (C3 eq_refl)].
Qed.


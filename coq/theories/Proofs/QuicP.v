From UV Require Import Base.Common Model.Quic.
From Coq Require Import ZifyBool ZifyNat ZifyN.

(* ---- reachability ---- *)
Inductive reach (s0 : state) : state -> Prop :=
| reach_init : reach s0 s0
| reach_step s l s' r : reach s0 s -> step s l = Some (s', r) -> reach s0 s'.

Lemma run_reach s0 ls s rs : run s0 ls = Some (s, rs) -> reach s0 s.
Proof.
  assert (G : forall a, reach s0 a -> forall ls s rs, run a ls = Some (s, rs) -> reach s0 s).
  { intros a Ha ls0. revert a Ha. induction ls0 as [|l r IH]; intros a Ha s1 rs1 H; cbn [run] in H.
    - inversion H; subst; exact Ha.
    - destruct (step a l) as [[a' o]|] eqn:E; [|discriminate].
      destruct (run a' r) as [[a'' rs']|] eqn:E2; [|discriminate]. inversion H; subst.
      eapply IH; [|exact E2]. eapply reach_step; eauto. }
  intros H. eapply G; [apply reach_init|exact H].
Qed.

(* ---- the control invariant ---- *)
Definition is_nil {A} (l : list A) : bool := match l with [] => true | _ => false end.
Definition c_running (x : cpc) : bool := match x with CStartRecv | CHdBlk | CTpBlk => true | _ => false end.
Definition c_parked (x : cpc) : bool := match x with CIdle | CHdSig | CTpSig | CCloseLoop => true | _ => false end.
Definition is_closeloop (x : cpc) : bool := match x with CCloseLoop => true | _ => false end.
Definition is_hdlock (x : cpc) : bool := match x with CHdLock => true | _ => false end.
Definition is_idle (x : cpc) : bool := match x with CIdle => true | _ => false end.
Definition opn (s : state) : bool := negb (blk_closed s) && negb (sig_closed s).

(* holds for the code as found and for the repaired code *)
Definition invb (s : state) : bool :=
  match g s with
  | GNone => is_idle (c s) && opn s && negb (cancel_set s)
  | GInit => (match c s with CStartRecv => true | _ => false end) && opn s && started s
  | GBuild | GHs | GWaitBlk _ => c_running (c s) && opn s && cancel_set s && started s
  | GWaitSig _ => c_parked (c s) && (negb (is_closeloop (c s)) || cancelled s) && opn s && cancel_set s && started s
  | GFail | GClose1 | GEarly => negb (is_hdlock (c s)) && opn s && cancel_set s && started s
  | GClose2 => blk_closed s && negb (sig_closed s) && cancel_set s && started s
  | GRet | GDone => cancel_set s && started s
                    && (blk_closed s && sig_closed s || negb (early_closes s) && opn s && negb (is_hdlock (c s)))
  end.

(* the early return is harmless: either it closes the channels (repaired code) or it is never taken
   (BuildHandshakeState reports success and never waits, so cancellation cannot fail it either) *)
Definition inv2 (s : state) : bool :=
  early_closes s
  || (build_ok s && is_nil (build s)
      && match g s with
         | GWaitBlk true | GWaitSig true | GEarly => false
         | GRet | GDone => blk_closed s && sig_closed s
         | _ => true
         end).

Lemma invb_init ec mv tp b bok h hok : invb (init ec mv tp b bok h hok) = true.
Proof. reflexivity. Qed.

Ltac bsplit :=
  repeat match goal with
  | H : _ && _ = true |- _ => apply andb_true_iff in H; destruct H
  | H : negb _ = true |- _ => apply negb_true_iff in H
  end.

Ltac dif :=
  repeat (match goal with
          | H : context [if ?b then _ else _] |- _ => destruct b eqn:?
          | H : context [match ?b with _ => _ end] |- _ => destruct b eqn:?
          end; cbn in *; try discriminate).

Lemma emit_ctrl s e :
  g (emit s e) = g s /\ c (emit s e) = c s /\ blk_closed (emit s e) = blk_closed s /\ sig_closed (emit s e) = sig_closed s
  /\ cancel_set (emit s e) = cancel_set s /\ started (emit s e) = started s /\ cancelled (emit s e) = cancelled s
  /\ early_closes (emit s e) = early_closes s /\ build (emit s e) = build s /\ build_ok (emit s e) = build_ok s
  /\ hs (emit s e) = hs s /\ hs_ok (emit s e) = hs_ok s /\ complete (emit s e) = complete s /\ hs_err (emit s e) = hs_err s.
Proof. unfold emit. destruct (coalesces (queue s) e); cbn; repeat split; reflexivity. Qed.

Lemma invb_emit s e : invb (emit s e) = invb s.
Proof.
  destruct (emit_ctrl s e) as (A & B & C & D & E & F & G & H & I & J & K & L & M & N).
  unfold invb, opn. rewrite A, B, C, D, E, F, G, H. reflexivity.
Qed.

Ltac db x := try (is_var x; destruct x).

Lemma inv_step s l s' r : invb s = true -> step s l = Some (s', r) -> invb s' = true.
Proof.
  intros I S. destruct l; unfold step in S.
  all: destruct s as [ec mv st cs ca tp bc sc he co g0 b bok h hok c0 q hi]; cbn in *;
       destruct g0 as [| | | |[|]|[|]| | | | | |]; destruct c0; cbn in *; try discriminate.
  all: dif; inversion S; subst; clear S; rewrite ?invb_emit; cbn in *; unfold invb, opn in *; cbn in *.
  all: db ec; db st; db cs; db ca; db bc; db sc; cbn in *; try discriminate; try reflexivity.
Qed.


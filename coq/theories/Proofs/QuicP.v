From UV Require Import Base.Common Model.Quic.
From Coq Require Import ZifyBool ZifyNat ZifyN.

(* ---- reachability ---- *)
Inductive reach (s0 : state) : state -> Prop :=
| reach_init : reach s0 s0
| reach_step s l s' r : reach s0 s -> step s l = Some (s', r) -> reach s0 s'.

Lemma run_reach s0 ls s rs : run s0 ls = Some (s, rs) -> reach s0 s.
Proof.
  assert (G : forall a, reach s0 a -> forall ls s rs, run a ls = Some (s, rs) -> reach s0 s).
  { intros a Ha ls0. revert a Ha. induction ls0 as [|l r IH]; intros a Ha s1 rs1 H; cbn [run] in H.
    - inversion H; subst; exact Ha.
    - destruct (step a l) as [[a' o]|] eqn:E; [|discriminate].
      destruct (run a' r) as [[a'' rs']|] eqn:E2; [|discriminate]. inversion H; subst.
      eapply IH; [|exact E2]. eapply reach_step; eauto. }
  intros H. eapply G; [apply reach_init|exact H].
Qed.

(* ---- the control invariant ---- *)
Definition is_nil {A} (l : list A) : bool := match l with [] => true | _ => false end.
Definition c_running (x : cpc) : bool := match x with CStartRecv | CHdBlk | CTpBlk => true | _ => false end.
Definition c_parked (x : cpc) : bool := match x with CIdle | CHdSig | CTpSig | CCloseLoop => true | _ => false end.
Definition is_closeloop (x : cpc) : bool := match x with CCloseLoop => true | _ => false end.
Definition is_hdlock (x : cpc) : bool := match x with CHdLock => true | _ => false end.
Definition is_idle (x : cpc) : bool := match x with CIdle => true | _ => false end.
Definition opn (s : state) : bool := negb (blk_closed s) && negb (sig_closed s).

(* holds for the code as found and for the repaired code *)
Definition invb (s : state) : bool :=
  match g s with
  | GNone => is_idle (c s) && opn s && negb (cancel_set s)
  | GInit => (match c s with CStartRecv => true | _ => false end) && opn s && started s
  | GBuild | GHs | GWaitBlk _ => c_running (c s) && opn s && cancel_set s && started s
  | GWaitSig _ => c_parked (c s) && (negb (is_closeloop (c s)) || cancelled s) && opn s && cancel_set s && started s
  | GFail | GClose1 | GEarly => negb (is_hdlock (c s)) && opn s && cancel_set s && started s
  | GClose2 => blk_closed s && negb (sig_closed s) && cancel_set s && started s
  | GRet | GDone => cancel_set s && started s
                    && (blk_closed s && sig_closed s || negb (early_closes s) && opn s && negb (is_hdlock (c s)))
  end.

(* the early return is harmless: either it closes the channels (repaired code) or it is never taken
   (BuildHandshakeState reports success and never waits, so cancellation cannot fail it either) *)
Definition inv2 (s : state) : bool :=
  early_closes s
  || (build_ok s && is_nil (build s)
      && match g s with
         | GWaitBlk true | GWaitSig true | GEarly => false
         | GRet | GDone => blk_closed s && sig_closed s
         | _ => true
         end).

Lemma invb_init ec mv tp b bok h hok : invb (init ec mv tp b bok h hok) = true.
Proof. reflexivity. Qed.

Ltac bsplit :=
  repeat match goal with
  | H : _ && _ = true |- _ => apply andb_true_iff in H; destruct H
  | H : negb _ = true |- _ => apply negb_true_iff in H
  end.

Ltac dif :=
  repeat (match goal with
          | H : context [if ?b then _ else _] |- _ => destruct b eqn:?
          | H : context [match ?b with _ => _ end] |- _ => destruct b eqn:?
          end; cbn in *; try discriminate).

Lemma emit_ctrl s e :
  g (emit s e) = g s /\ c (emit s e) = c s /\ blk_closed (emit s e) = blk_closed s /\ sig_closed (emit s e) = sig_closed s
  /\ cancel_set (emit s e) = cancel_set s /\ started (emit s e) = started s /\ cancelled (emit s e) = cancelled s
  /\ early_closes (emit s e) = early_closes s /\ build (emit s e) = build s /\ build_ok (emit s e) = build_ok s
  /\ hs (emit s e) = hs s /\ hs_ok (emit s e) = hs_ok s /\ complete (emit s e) = complete s /\ hs_err (emit s e) = hs_err s.
Proof. unfold emit. destruct (coalesces (queue s) e); cbn; repeat split; reflexivity. Qed.

Lemma invb_emit s e : invb (emit s e) = invb s.
Proof.
  destruct (emit_ctrl s e) as (A & B & C & D & E & F & G & H & I & J & K & L & M & N).
  unfold invb, opn. rewrite A, B, C, D, E, F, G, H. reflexivity.
Qed.

Ltac db x := try (is_var x; destruct x).

Lemma inv_step s l s' r : invb s = true -> step s l = Some (s', r) -> invb s' = true.
Proof.
  intros I S. destruct l; unfold step in S.
  all: destruct s as [ec mv st cs ca tp bc sc he co g0 b bok h hok c0 q hi]; cbn in *;
       destruct g0 as [| | | |[|]|[|]| | | | | |]; destruct c0; cbn in *; try discriminate.
  all: dif; inversion S; subst; clear S; rewrite ?invb_emit; cbn in *; unfold invb, opn in *; cbn in *.
  all: db ec; db st; db cs; db ca; db bc; db sc; cbn in *; try discriminate; try reflexivity.
Qed.


Lemma inv2_emit s e : inv2 (emit s e) = inv2 s.
Proof.
  destruct (emit_ctrl s e) as (A & B & C & D & E & F & G & H & I & J & K & L & M & N).
  unfold inv2. rewrite A, C, D, H, I, J. reflexivity.
Qed.

Lemma inv2_step s l s' r : invb s = true -> inv2 s = true -> step s l = Some (s', r) -> inv2 s' = true.
Proof.
  intros I I2 S. destruct l; unfold step in S.
  all: destruct s as [ec mv st cs ca tp bc sc he co g0 b bok h hok c0 q hi]; cbn in *;
       destruct g0 as [| | | |[|]|[|]| | | | | |]; destruct c0; cbn in *; try discriminate.
  all: dif; inversion S; subst; clear S; rewrite ?inv2_emit; cbn in *; unfold invb, inv2, opn in *; cbn in *.
  all: db ec; db bok; db bc; db sc; cbn in *; try discriminate; try reflexivity.
  all: try assumption.
  all: try (match goal with H : context [is_nil ?b] |- _ => destruct b end; cbn in *; try discriminate; try reflexivity).
Qed.

Definition Inv (s : state) : Prop := invb s = true /\ inv2 s = true.

Lemma Inv_reach s0 s : Inv s0 -> reach s0 s -> Inv s.
Proof.
  intros H0 R. induction R as [|s l s' r R IH S]; [exact H0|].
  destruct IH as [A B]. split; [eapply inv_step; eauto | eapply inv2_step; eauto].
Qed.


(* ---- progress: inside an API call some internal step is always enabled ---- *)
Lemma witness_not_stuck s l : internal l = true -> enabledb s l = true -> stuck s = false.
Proof.
  intros A B. unfold stuck. destruct (internal_enabled s) eqn:E; [|apply andb_false_r].
  exfalso. assert (H : In l (internal_enabled s)).
  { unfold internal_enabled, enabled. apply filter_In. split; [apply filter_In; split; [|exact B]|exact A].
    destruct l; cbn; tauto. }
  rewrite E in H. exact H.
Qed.

Definition pick (s : state) : label :=
  match g s with
  | GInit => LGInit
  | GBuild => if is_nil (build s) then LGEnd else LGAct
  | GHs => if is_nil (hs s) then LGEnd else LGAct
  | GFail => LGErrTail | GEarly => LGEarly | GClose1 => LGClose1 | GClose2 => LGClose2 | GRet => LGRet
  | GWaitBlk _ => LSyncBlk
  | GWaitSig _ => match c s with CCloseLoop => LGCancelSeen | _ => LSyncSig end
  | GDone | GNone => match c s with CHdLock => LLock | _ => LRecvClosed end
  end.

Lemma not_stuck_inv s : Inv s -> stuck s = false.
Proof.
  intros [I I2]. destruct (in_call s) eqn:IC; [|unfold stuck; rewrite IC; reflexivity].
  apply (witness_not_stuck s (pick s)).
  - unfold pick. destruct (g s); try reflexivity; try (destruct (is_nil _); reflexivity); destruct (c s); reflexivity.
  - unfold enabledb, pick, in_call in *.
    destruct s as [ec mv st cs ca tp bc sc he co g0 b bok h hok c0 q hi]; cbn [g c build hs] in *.
    unfold invb, inv2, opn in *; cbn [g c build hs early_closes build_ok blk_closed sig_closed cancel_set started cancelled] in *.
    destruct g0 as [| | | |[|]|[|]| | | | | |]; destruct c0; try discriminate; cbn in I, I2 |- *; try discriminate; try reflexivity.
    all: try (destruct b as [|[?|] ?]; cbn; reflexivity).
    all: try (destruct h as [|[?|] ?]; cbn; try reflexivity; destruct hok; reflexivity).
    all: db ec; db bok; db bc; db sc; db cs; db st; db ca; cbn in *; try discriminate; try reflexivity.
    all: destruct b; discriminate.
Qed.

Lemma measure_emit s e : measure (emit s e) = measure s.
Proof.
  destruct (emit_ctrl s e) as (A & B & C & D & E & F & G & H & I & J & K & L & M & N).
  unfold measure. rewrite A, B, I, K. reflexivity.
Qed.

Lemma measure_step s l s' r : internal l = true -> step s l = Some (s', r) -> (measure s' < measure s)%nat.
Proof.
  intros IL S. destruct l; try discriminate IL; clear IL; unfold step in S.
  all: destruct s as [ec mv st cs ca tp bc sc he co g0 b bok h hok c0 q hi]; cbn in S;
       destruct g0 as [| | | |[|]|[|]| | | | | |]; destruct c0; cbn in S; try discriminate.
  all: repeat (match goal with
          | H : context [if ?b then _ else _] |- _ => destruct b eqn:?
          | H : context [match ?b with _ => _ end] |- _ => destruct b eqn:?
          end; cbn in S; try discriminate).
  all: inversion S; subst; clear S; rewrite ?measure_emit; unfold measure; cbn; try lia.
Qed.

(* Composition, part 2 (see Proofs/ComposeP.v): when Hello.PskIdentities agrees with the wire, and the input on which
   ApplyConfig as it was before fixes/C13-no-supported-versions-extension.diff let the client complete at a version
   the hello did not advertise. *)
From UV Require Import Base.Common Model.Wire Model.Varint Model.Ext Model.ExtSpec Model.Strict.
From UV Require Import Model.Padding Model.Marshal Model.ChMarshal.
From UV Require Import Model.WriteToUConn Proofs.ComposeP.
From UV Require Model.Negotiate Proofs.NegotiateP.

(* ------------------------------------------------------------------ *)
(* 7. when Hello.PskIdentities agrees with the wire (psk_agree), and when it does not *)

(* no session in play: the field starts empty (ApplyPreset makes a fresh hello), the cache holds no session, and the
   pre_shared_key extension - if any - writes nothing (UtlsPreSharedKeyExtension without session + OmitEmptyPsk) *)
Lemma psk_agree_no_session env marsh s es s' :
  apply_config env marsh s es = Ok s' -> we_cache_session env = false -> us_psk_ids s = [] -> psk_sent es = 0 ->
  psk_agree (finish false es s') es = true.
Proof.
  intros H Hc H0 Hs. destruct (apply_config_fields _ _ _ _ _ H) as (_ & _ & _ & _ & _ & _ & Hp).
  unfold psk_agree, finish. rewrite (Hp Hc), H0, Hs. reflexivity.
Qed.

(* a session was loaded (setPskToUConn ran) and the extension serialises its identities: both sides are its Identities *)
Lemma psk_agree_loaded es s e : find is_psk_ext es = Some e -> ext_absent e = false -> psk_agree (finish true es s) es = true.
Proof.
  intros Hf Ha. unfold psk_agree, finish, set_psk_to_uconn, psk_sent. rewrite Hf.
  destruct e; try (apply find_some in Hf; destruct Hf as [_ Hf]; discriminate); rewrite Ha; cbn; apply N.eqb_refl.
Qed.

(* FakePreSharedKeyExtension without a cached session: its Read sends the identities, its writeToUConn does not record
   them. The view then holds FEWER identities than the wire - the direction in which the client can only refuse more. *)
Example psk_disagree_fake :
  let es := [EFakePreSharedKey true [([1; 2; 3], 7)] [repeat 0 32]] in
  let h := {| h_vers := 771; h_random := repeat 1 32; h_sid := []; h_suites := [4865]; h_comp := [0] |} in
  let s := mkUS h [] false [] [] false [] false false [] false [771] [] [] [] [] false [] false [] [] 0 771 771 false in
  match apply_config (mkEnvW false) (Ok []) s es with
  | Ok s' => psk_agree s' es = false /\ us_psk_ids s' = [] /\ psk_sent es = 1
  | _ => False
  end.
Proof. vm_compute. repeat split; reflexivity. Qed.

(* ------------------------------------------------------------------ *)
(* 8. the defect: ApplyConfig before fixes/C13-no-supported-versions-extension.diff *)

(* C13 for the function as it was: same statement as compose_version_advertised *)
Definition version_statement_before : Prop :=
  forall env bbs padto s es raw s' ecdhe mlkem sess specmin fl st,
    wf_specb (us_hdr s) es = true -> forallb typed_ext es = true ->
    marshal_hello bbs padto (us_hdr s) es = Ok raw ->
    apply_config_before env (marshal_hello bbs padto (us_hdr s) es) s es = Ok s' ->
    specmin <= (if us_cfg_min s =? 0 then 771 else us_cfg_min s) ->
    Negotiate.client_run (view_of s' es ecdhe mlkem sess) fl = Negotiate.Complete st ->
    exists w, wire_of raw = Some w /\ In (Negotiate.cs_vers st) (Negotiate.advertised specmin w).

(* spec with TLSVersMin 1.2 / TLSVersMax 1.3 and no SupportedVersionsExtension: SetTLSVers leaves Config 1.2..1.3 and
   Hello.SupportedVersions [1.3; 1.2]; the hello goes out with legacy_version 1.2 only *)
Definition w13_hdr : hello_hdr :=
  {| h_vers := 771; h_random := repeat 7 32; h_sid := repeat 9 32; h_suites := [4865; 49199]; h_comp := [0] |}.
Definition w13_exts : list ext := [ESupportedCurves [29; 23]; EKeyShare [(29, repeat 5 32)]; ESignatureAlgorithms [1027; 2052]].
Definition w13_state : uconn_state :=
  mkUS w13_hdr [] false [] [] false [] false false [] false [772; 771] [] [] [] [] false [] false [] [] 0 771 772 false.
Definition w13_flight : Negotiate.flight :=
  Negotiate.mkFlight None (Negotiate.mkHello 771 772 0 (repeat 9 32) 4865 0 29 0 false None []) [] None None true.

Definition w13_raw : bytes :=
  match marshal_hello (fun _ => 512) 0%Z w13_hdr w13_exts with Ok raw => raw | _ => [] end.
Definition w13_after : uconn_state :=
  match apply_config_before (mkEnvW false) (Ok w13_raw) w13_state w13_exts with Ok s' => s' | _ => w13_state end.

Lemma w13_marshal : marshal_hello (fun _ => 512) 0%Z (us_hdr w13_state) w13_exts = Ok w13_raw.
Proof. vm_compute. reflexivity. Qed.
Lemma w13_apply : apply_config_before (mkEnvW false) (marshal_hello (fun _ => 512) 0%Z (us_hdr w13_state) w13_exts) w13_state w13_exts = Ok w13_after.
Proof. vm_compute. reflexivity. Qed.
Lemma w13_wf : wf_specb (us_hdr w13_state) w13_exts = true. Proof. vm_compute. reflexivity. Qed.
Lemma w13_typed : forallb typed_ext w13_exts = true. Proof. vm_compute. reflexivity. Qed.
Lemma w13_run : Negotiate.client_run (view_of w13_after w13_exts 29 false 0) w13_flight
                = Negotiate.Complete (Negotiate.mkState 772 4865 29 [] false false).
Proof. vm_compute. reflexivity. Qed.
Lemma w13_wire : option_map (Negotiate.advertised 771) (wire_of w13_raw) = Some [771].
Proof. vm_compute. reflexivity. Qed.

Theorem version_before_refuted : ~ version_statement_before.
Proof.
  intros H.
  assert (Hmin : 771 <= (if us_cfg_min w13_state =? 0 then 771 else us_cfg_min w13_state)) by (vm_compute; discriminate).
  destruct (H (mkEnvW false) (fun _ => 512) 0%Z w13_state w13_exts w13_raw w13_after 29 false 0 771 w13_flight _
              w13_wf w13_typed w13_marshal w13_apply Hmin w13_run) as (w & Hw & Hin).
  pose proof w13_wire as Hx. rewrite Hw in Hx. cbn [option_map] in Hx. inversion Hx as [Hy]. rewrite Hy in Hin.
  cbn [Negotiate.cs_vers] in Hin. destruct Hin as [Hin|[]]. discriminate.
Qed.

(* the fixed function refuses the same handshake *)
Example version_after_fix :
  match marshal_hello (fun _ => 512) 0%Z w13_hdr w13_exts with
  | Ok raw =>
    match apply_config (mkEnvW false) (Ok raw) w13_state w13_exts with
    | Ok s' => us_versions s' = [771]
               /\ Negotiate.client_run (view_of s' w13_exts 29 false 0) w13_flight = Negotiate.Abort Negotiate.a_protocol_version
    | _ => False
    end
  | _ => False
  end.
Proof. vm_compute. split; reflexivity. Qed.

(* ------------------------------------------------------------------ *)
(* 9. starting from a ClientHelloSpec: ApplyPreset (Model/Preset.v), then the above *)
From UV Require Model.Preset Proofs.PresetP Gen.Parrots.

(* SetTLSVers u_conn.go:800: Hello.SupportedVersions = makeSupportedVersions(min, max) = [max .. min] *)
Definition make_versions (mn mx : N) : list N := filter (fun x => (mn <=? x) && (x <=? mx)) [772; 771; 770; 769].

(* The UConn after ApplyPreset, as far as ApplyConfig and the handshake's checks can tell: the header fields and
   Config.MinVersion/MaxVersion written by SetTLSVers, Hello.SupportedVersions likewise, no PSK identities (fresh hello),
   no ECH configuration. The fields ApplyConfig clears or the extensions overwrite are irrelevant (the theorems above
   hold for EVERY state); they are given as empty here. *)
Definition preset_state (h : hello_hdr) (mn mx : N) : uconn_state :=
  mkUS h [] false [] [] false [] false false [] false (make_versions mn mx) [] [] [] [] false [] false [] [] 0 mn mx false.

Lemma set_tls_vers_range sp mn mx : Preset.set_tls_vers sp = Ok (mn, mx) -> 769 <= mn /\ mn <= 772.
Proof.
  unfold Preset.set_tls_vers. match goal with |- bind ?r _ = _ -> _ => destruct r as [[a b]|c|c] end; cbn [bind]; try discriminate.
  unfold Preset.VersionTLS10, Preset.VersionTLS13.
  destruct ((a <? 769) || (772 <? a)) eqn:E1; [discriminate|].
  destruct ((b <? 769) || (772 <? b)) eqn:E2; [discriminate|].
  intros H; inversion H; subst. apply orb_false_iff in E1. lia.
Qed.

(* C13 for a spec: [mn] = the spec's minimum as SetTLSVers determines it (TLSVersMin; with both bounds 0 the lowest
   non-GREASE entry of its supported_versions extension, TLS 1.0 without one) *)
Theorem version_advertised_preset sp c fr h es mn mx env bbs padto raw s' load ecdhe mlkem sess fl st :
  Preset.apply_preset sp c fr = Ok (h, es) -> Preset.set_tls_vers sp = Ok (mn, mx) ->
  wf_specb h es = true -> forallb typed_ext es = true ->
  marshal_hello bbs padto h es = Ok raw ->
  apply_config env (marshal_hello bbs padto h es) (preset_state h mn mx) es = Ok s' ->
  Negotiate.client_run (view_of (finish load es s') es ecdhe mlkem sess) fl = Negotiate.Complete st ->
  exists w, wire_of raw = Some w /\ In (Negotiate.cs_vers st) (Negotiate.advertised mn w).
Proof.
  intros _ Hv Hwf Hty Hm Ha Hrun. destruct (set_tls_vers_range sp mn mx Hv) as [H1 H2].
  apply (compose_version_advertised env bbs padto (preset_state h mn mx) es raw s' load ecdhe mlkem sess Hwf Hty Hm Ha mn fl st); [|exact Hrun].
  cbn [preset_state us_cfg_min]. destruct (mn =? 0) eqn:E; lia.
Qed.

(* C12 for a spec: compression [0] is what ApplyPreset always writes (PresetP.compression_not_copied), the hello is fresh *)
Theorem synced_preset sp c fr h es mn mx env bbs padto raw s' load ecdhe mlkem sess :
  Preset.apply_preset sp c fr = Ok (h, es) ->
  wf_specb h es = true -> forallb typed_ext es = true ->
  marshal_hello bbs padto h es = Ok raw ->
  apply_config env (marshal_hello bbs padto h es) (preset_state h mn mx) es = Ok s' ->
  psk_agree (finish load es s') es = true ->
  exists w, wire_of raw = Some w /\ Negotiate.synced (view_of (finish load es s') es ecdhe mlkem sess) w = true.
Proof.
  intros Hp Hwf Hty Hm Ha Hpsk.
  apply (compose_synced env bbs padto (preset_state h mn mx) es raw s' load ecdhe mlkem sess Hwf Hty Hm Ha); [|exact Hpsk].
  cbn [preset_state us_hdr]. rewrite (PresetP.compression_not_copied sp c fr h es Hp). reflexivity.
Qed.

(* ---- a shipped parrot through the whole chain, inside Coq ---- *)
Definition ex_cfg : Preset.cfg :=
  {| Preset.c_sni := [97; 46; 105; 111]; Preset.c_omit_psk := true;
     Preset.c_min_version := 0; Preset.c_max_version := 0; Preset.c_next_protos := [] |}.
Definition ex_ech : Preset.ech_draw :=
  {| Preset.ed_cfg_idx := 0; Preset.ed_cfg_byte := 7; Preset.ed_suite_idx := 1; Preset.ed_enc := repeat 9 32;
     Preset.ed_plen_idx := 2; Preset.ed_payload := repeat 5 208 |}.
Definition ex_fresh : Preset.fresh :=
  {| Preset.f_random := repeat 1 32; Preset.f_grease := [16; 0; 32; 0; 48; 0; 48; 0; 64; 0]; Preset.f_sid := repeat 2 32;
     Preset.f_keys := [repeat 3 1216; repeat 4 32]; Preset.f_ech := [ex_ech] |}.

(* TLS 1.3 on X25519 with h2, certificate compressed with brotli; session id echoed *)
Definition ex_flight : Negotiate.flight :=
  Negotiate.mkFlight None (Negotiate.mkHello 771 772 0 (repeat 2 32) 4865 0 29 0 false None []) [104; 50] (Some 2) None true.

(* every premise of compose_synced / compose_version_advertised holds for Chrome_133 with these bytes, the conclusions hold
   by computation as well, and the client completes against ex_flight *)
Definition ex_chrome133 : bool :=
  match Preset.apply_preset (Preset.p_spec Parrots.p_Chrome_133) ex_cfg ex_fresh,
        Preset.set_tls_vers (Preset.p_spec Parrots.p_Chrome_133) with
  | Ok (h, es), Ok (mn, mx) =>
    wf_specb h es && forallb typed_ext es &&
    match marshal_hello (fun _ => 512) 0%Z h es with
    | Ok raw =>
      match apply_config (mkEnvW false) (Ok raw) (preset_state h mn mx) es, wire_of raw with
      | Ok s', Some w =>
        let v := view_of (finish false es s') es 29 true 0 in
        psk_agree (finish false es s') es && Negotiate.synced v w && Negotiate.versions_synced v mn w
        && Negotiate.offers13 w
        && match Negotiate.client_run v ex_flight with
           | Negotiate.Complete st => (Negotiate.cs_vers st =? 772) && (Negotiate.cs_suite st =? 4865) && (Negotiate.cs_group st =? 29)
           | _ => false
           end
      | _, _ => false
      end
    | _ => false
    end
  | _, _ => false
  end.

Lemma ex_chrome133_ok : ex_chrome133 = true.
Proof. vm_compute. reflexivity. Qed.

(* imported last, for the driver's closure scan only (see the end of Props/C12.v) *)
From UV Require Import Model.Preset Proofs.PresetP Gen.Parrots.

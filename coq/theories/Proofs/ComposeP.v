(* Composition of the marshal side and the negotiation side (gap between C02/C08 and C12/C13):
   the client's view after UConn.ApplyConfig equals the offered sets parsed from the ClientHello that
   MarshalClientHelloNoECH emits for the same header fields and extension list.

     marshal_shape        what marshal_hello emits, with the extension block characterised in BOTH directions
     wire_of_marshal      wire_of raw = Some (wire_of_ast ..) for those bytes (strict parser completeness)
     field_sync           for one extension type: last-writer-wins fold over the list = decoder of its body on the wire
     compose_synced       Negotiate.synced (view_of (apply_config ..)) (wire_of raw)
     compose_versions     Negotiate.versions_synced when supported_versions is sent; without it the field holds
                          the accepted versions up to legacy_version (fixed ApplyConfig)
     c12_* / c13_*        the C12 / C13 conclusions without the synced premise
   No axioms. *)
From UV Require Import Base.Common Model.Wire Model.Varint Model.Ext Model.ExtSpec Model.Strict.
From UV Require Import Proofs.WireP Proofs.ExtP Proofs.StrictP.
From UV Require Import Model.Padding Model.Marshal Model.ChMarshal Proofs.MarshalP Proofs.ChMarshalP.
From UV Require Import Model.WriteToUConn.
From UV Require Model.Negotiate Proofs.NegotiateP.
From Coq Require Import ZifyBool ZifyNat ZifyN.

(* ------------------------------------------------------------------ *)
(* 1. the extension block, both directions (ChMarshalP.block_of_outs plus the converse) *)

Definition from_spec (es : list ext) (x : N * bytes) : Prop :=
  exists e, In e es /\ ext_id e = fst x /\ (is_padding e = false -> ext_absent e = false /\ snd x = ext_body e).

Lemma from_spec_cons e es x : from_spec es x -> from_spec (e :: es) x.
Proof. intros (e' & Hin & H). exists e'. split; [right; exact Hin | exact H]. Qed.

Lemma block_of_outs2 padto es : forall xs outs,
  Forall (fun e => wf_ext e = true /\ rfc_ok e = true) es ->
  Forall2 (rel padto) es xs -> Forall2 emits xs outs -> len (concat outs) < 65536 ->
  exists present, concat outs = flat_map enc_ext present
    /\ subseq (map fst present) (map ext_id es)
    /\ Forall present_ok present
    /\ forallb (fun x => body_okb (fst x) (snd x)) present = true
    /\ (forall e, In e es -> is_padding e = false -> ext_absent e = false -> In (ext_id e, ext_body e) present)
    /\ Forall (from_spec es) present.
Proof.
  induction es as [|e es IH]; intros xs outs Hwf Hrel Hem Hlen.
  - inversion Hrel; subst. inversion Hem; subst. exists []. repeat split; try constructor. intros e [].
  - inversion Hrel as [|? x ? xs' Hr Hrel']; subst. inversion Hem as [|? o ? outs' Ho Hem']; subst.
    inversion Hwf as [|? ? [Hw Hrfc] Hwf']; subst.
    cbn [concat] in Hlen. rewrite len_app in Hlen.
    destruct (IH xs' outs' Hwf' Hrel' Hem') as (present & Hcat & Hsub & Hok & Hbody & Hin & Hfrom); [lia|].
    assert (Hcase : (o = [] /\ (is_padding e = false -> ext_absent e = true))
                    \/ exists b, o = enc_ext (ext_id e, b) /\ present_ok (ext_id e, b) /\ body_okb (ext_id e) b = true
                                 /\ (is_padding e = false -> ext_absent e = false /\ b = ext_body e)).
    { unfold rel in Hr. destruct (is_padding e) eqn:Hp.
      - destruct Hr as (pol & st & ->). cbn [emits] in Ho. subst o.
        destruct e; try discriminate. cbn [ext_id].
        assert (Hpl : pad_len st < 65536) by (rewrite <- len_pad_emit; lia).
        rewrite (pad_emit_wire st Hpl). destruct (p_will st) eqn:Hw'; [right | left; split; [reflexivity | discriminate]].
        exists (zbytes (N.to_nat (p_len st))). split; [reflexivity|]. split; [|split; [|discriminate]].
        + unfold present_ok, pad_len in *. cbn [fst snd]. rewrite Hw' in Hpl. rewrite blen_zbytes, N2Nat.id.
          unfold ID_PADDING. lia.
        + rewrite bo_padding. apply all_zero_zbytes.
      - subst x. pose proof (emits_wire padto e Hw Hp) as Hw2. rewrite (to_aext_nonpad padto e Hp) in Ho, Hw2.
        cbn [emits] in Ho, Hw2. destruct Ho as [_ Hrd]. destruct Hw2 as [_ Hrd2].
        assert (Heq : o = ChMarshalP.wire_of e).
        { specialize (Hrd (zeros (ext_len e))). specialize (Hrd2 (zeros (ext_len e))).
          rewrite len_zeros in Hrd, Hrd2. specialize (Hrd (N.le_refl _)). specialize (Hrd2 (N.le_refl _)).
          rewrite Hrd in Hrd2. inversion Hrd2. reflexivity. }
        subst o. unfold ChMarshalP.wire_of. destruct (ext_absent e) eqn:Habs; [left; split; reflexivity | right].
        exists (ext_body e). split; [reflexivity|]. destruct (wf_parts e Hw) as (_ & Hf & Hl). split; [|split; [|split; reflexivity]].
        + unfold present_ok. cbn [fst snd]. split; [apply ext_id_u16; exact Hf|].
          pose proof (body_len e Hw Habs). lia.
        + apply body_ok_ext; assumption. }
    assert (Hfrom' : Forall (from_spec (e :: es)) present).
    { eapply Forall_impl; [|exact Hfrom]. intros a Ha. apply from_spec_cons. exact Ha. }
    destruct Hcase as [[-> Habs']|(b & -> & Hpo & Hbo & Hb)].
    + exists present. cbn [concat app map]. split; [exact Hcat|]. split; [constructor; exact Hsub|].
      split; [assumption|]. split; [assumption|]. split; [|exact Hfrom'].
      intros e' [<-|He'] Hp' Ha'; [rewrite (Habs' Hp') in Ha'; discriminate | apply Hin; assumption].
    + exists ((ext_id e, b) :: present). cbn [concat flat_map map forallb fst snd]. rewrite Hcat, Hbo, Hbody.
      split; [reflexivity|]. split; [constructor; exact Hsub|]. split; [constructor; assumption|]. split; [reflexivity|].
      split.
      * intros e' [<-|He'] Hp' Ha'; [left; destruct (Hb Hp') as [_ ->]; reflexivity | right; apply Hin; assumption].
      * constructor; [|exact Hfrom']. exists e. split; [left; reflexivity|]. split; [reflexivity|]. cbn [snd]. exact Hb.
Qed.

(* ---- the extension block, exactly: the (type, body) pairs of the list in order, the padding extension in the state
        Update left it in ---- *)
Definition wpair (e : ext) : option (N * bytes) := if ext_absent e then None else Some (ext_id e, ext_body e).
Definition wlist (es : list ext) : list (N * bytes) :=
  flat_map (fun e => match wpair e with Some w => [w] | None => [] end) es.
Definition setpad (l : N) (w : bool) (e : ext) : ext := match e with EPadding _ _ pol => EPadding l w pol | _ => e end.

Definition padded (e e' : ext) : Prop := if is_padding e then exists pl pw, e' = setpad pl pw e else e' = e.

Lemma wlist_cons e es : wlist (e :: es) = wlist [e] ++ wlist es.
Proof. unfold wlist. cbn [flat_map]. rewrite app_nil_r. reflexivity. Qed.

Lemma elem_out padto e x o : wf_ext e = true -> rel padto e x -> emits x o -> len o < 65536 ->
  exists e', padded e e' /\ o = flat_map enc_ext (wlist [e']) /\ Forall present_ok (wlist [e']).
Proof.
  intros Hw Hr Ho Hlen. unfold rel, padded in *. destruct (is_padding e) eqn:Hp.
  - destruct Hr as (pol & st & ->). cbn [emits] in Ho. subst o. destruct e; try discriminate.
    exists (EPadding (p_len st) (p_will st) policy). split; [exists (p_len st), (p_will st); reflexivity|].
    assert (Hpl : pad_len st < 65536) by (rewrite <- len_pad_emit; lia).
    rewrite (pad_emit_wire st Hpl). unfold wlist, wpair. cbn [flat_map ext_absent ext_id ext_body app].
    destruct (p_will st) eqn:Hw'; cbn [negb flat_map app]; [|split; [reflexivity|constructor]].
    rewrite app_nil_r. split; [reflexivity|]. constructor; [|constructor].
    unfold present_ok, pad_len in *. cbn [fst snd]. rewrite Hw' in Hpl. rewrite blen_zbytes, N2Nat.id. unfold ID_PADDING. lia.
  - subst x. exists e. split; [reflexivity|].
    pose proof (emits_wire padto e Hw Hp) as Hw2. rewrite (to_aext_nonpad padto e Hp) in Ho, Hw2.
    cbn [emits] in Ho, Hw2. destruct Ho as [_ Hrd]. destruct Hw2 as [_ Hrd2].
    assert (Heq : o = ChMarshalP.wire_of e).
    { specialize (Hrd (zeros (ext_len e))). specialize (Hrd2 (zeros (ext_len e))).
      rewrite len_zeros in Hrd, Hrd2. specialize (Hrd (N.le_refl _)). specialize (Hrd2 (N.le_refl _)).
      rewrite Hrd in Hrd2. inversion Hrd2. reflexivity. }
    subst o. unfold ChMarshalP.wire_of, wlist, wpair. cbn [flat_map]. destruct (ext_absent e) eqn:Habs; cbn [app flat_map].
    + split; [reflexivity|constructor].
    + rewrite app_nil_r. split; [reflexivity|]. constructor; [|constructor].
      destruct (wf_parts e Hw) as (_ & Hf & Hl). unfold present_ok. cbn [fst snd]. split; [apply ext_id_u16; exact Hf|].
      pose proof (body_len e Hw Habs). lia.
Qed.

Lemma block_exact padto es : forall xs outs,
  Forall (fun e => wf_ext e = true /\ rfc_ok e = true) es ->
  Forall2 (rel padto) es xs -> Forall2 emits xs outs -> len (concat outs) < 65536 ->
  exists es', Forall2 padded es es' /\ concat outs = flat_map enc_ext (wlist es') /\ Forall present_ok (wlist es').
Proof.
  induction es as [|e es IH]; intros xs outs Hwf Hrel Hem Hlen.
  - inversion Hrel; subst. inversion Hem; subst. exists []. repeat split; constructor.
  - inversion Hrel as [|? x ? xs' Hr Hrel']; subst. inversion Hem as [|? o ? outs' Ho Hem']; subst.
    inversion Hwf as [|? ? [Hw Hrfc] Hwf']; subst.
    cbn [concat] in Hlen. rewrite len_app in Hlen.
    destruct (IH xs' outs' Hwf' Hrel' Hem') as (es' & Hp & Hcat & Hok); [lia|].
    destruct (elem_out padto e x o Hw Hr Ho) as (e' & Hpe & Ho' & Hoke); [lia|].
    exists (e' :: es'). split; [constructor; assumption|]. rewrite wlist_cons. cbn [concat]. rewrite flat_map_app, Hcat, Ho'.
    split; [reflexivity|]. apply Forall_app. split; assumption.
Qed.

Lemma setpad_nopad l w e : is_padding e = false -> setpad l w e = e.
Proof. destruct e; try reflexivity. discriminate. Qed.

(* at most one padding extension (extension types pairwise distinct): one padding state describes the whole list *)
Lemma padded_map es : forall es', NoDup (map ext_id es) -> Forall2 padded es es' -> exists pl pw, es' = map (setpad pl pw) es.
Proof.
  induction es as [|e es IH]; intros es' Hnd H; inversion H as [|? e' ? es'' He Hes]; subst.
  - exists 0, false. reflexivity.
  - cbn [map] in Hnd. inversion Hnd as [|? ? Hn Hnd']; subst. unfold padded in He. destruct (is_padding e) eqn:Hp.
    + destruct He as (pl & pw & ->). exists pl, pw. cbn [map]. f_equal.
      assert (Hnp : Forall (fun x => is_padding x = false) es).
      { apply Forall_forall. intros x Hx. destruct (is_padding x) eqn:Hpx; [|reflexivity]. exfalso. apply Hn.
        destruct e; try discriminate. destruct x; try discriminate. cbn [ext_id]. apply in_map_iff. eexists; split; [|exact Hx]. reflexivity. }
      clear - Hes Hnp. revert es'' Hes. induction es as [|x es IH]; intros es'' Hes; inversion Hes as [|? x' ? es3 Hx Hr]; subst; [reflexivity|].
      inversion Hnp as [|? ? Hx0 Hnp']; subst. unfold padded in Hx. rewrite Hx0 in Hx. subst x'. cbn [map].
      rewrite (setpad_nopad pl pw x Hx0). f_equal. apply IH; assumption.
    + subst e'. destruct (IH es'' Hnd' Hes) as (pl & pw & ->). exists pl, pw. cbn [map]. rewrite (setpad_nopad pl pw e Hp). reflexivity.
Qed.

(* the encoding of an extension block determines the (type, body) list *)
Lemma enc_ext_inj p1 p2 : Forall present_ok p1 -> Forall present_ok p2 -> flat_map enc_ext p1 = flat_map enc_ext p2 -> p1 = p2.
Proof.
  intros H1 H2 He.
  assert (Hp : forall p, Forall present_ok p -> items ext_item (length (flat_map enc_ext p)) (flat_map enc_ext p) = Some p).
  { intros p Hp. rewrite (items_flat enc_ext ext_item (fun x => x) present_ok ext_item_enc); [rewrite map_id; reflexivity| |exact Hp|apply le_n].
    intros x _. unfold enc_ext, enc_u16. discriminate. }
  pose proof (Hp p1 H1) as A. pose proof (Hp p2 H2) as B. rewrite He in A. rewrite A in B. inversion B. reflexivity.
Qed.

Definition mk_ast (h : hello_hdr) (es : list ext) (present : list (N * bytes)) : ch_ast :=
  {| c_vers := h_vers h; c_random := h_random h; c_sid := h_sid h; c_suites := h_suites h;
     c_comp := h_comp h; c_has_exts := nonempty es; c_exts := present |}.

(* ChMarshalP.marshal_hello_ok with the converse direction and starting from the Ok result *)
Lemma marshal_shape bbs padto h es raw : wf_specb h es = true -> marshal_hello bbs padto h es = Ok raw ->
  exists present,
    raw = hello_layout (mk_ast h es present) /\ ast_ok (mk_ast h es present)
    /\ NoDup (map fst present)
    /\ (forall e, In e es -> is_padding e = false -> ext_absent e = false -> In (ext_id e, ext_body e) present)
    /\ Forall (from_spec es) present
    /\ (exists pl pw, present = wlist (map (setpad pl pw) es)).
Proof.
  intros Hwf Hraw. destruct (ok_has_length bbs padto h es raw Hraw) as (p & Hp & Hfit & _).
  destruct (wf_spec_parts h es Hwf) as (Hv & Hr & Hsid & Hsne & Hsu & Hcne & Hall & Hnd & Hpsk).
  pose proof Hfit as Hfit0. unfold fits in Hfit. rewrite !andb_true_iff in Hfit. destruct Hfit as [[[F1 F2] F3] F4].
  set (aes := map (to_aext padto) es) in *.
  assert (Hok : Forall aext_ok aes).
  { unfold aes. apply Forall_forall. intros x Hx. apply in_map_iff in Hx. destruct Hx as (e & <- & He).
    rewrite Forall_forall in Hall. apply aext_ok_of_wf, (Hall e He). }
  destruct (marshal_framing bbs h aes p Hr Hok Hp) as (body & eb & outs & Hm & Hbody & Heb & Hem & Hlen).
  destruct (prepare_ok h aes p Hok Hp) as (Htot & _ & Hnil & _).
  pose proof (emits_total _ _ Hem) as Hcat. rewrite Htot in Hcat.
  assert (Heblen : len eb < 65536) by (rewrite Heb, Hcat; lia).
  destruct (block_of_outs2 padto es (pr_exts p) outs Hall (prepare_rel padto h es p Hp) Hem) as (present & Hpres & Hsub & Hpok & Hbok & Hin & Hfrom).
  { rewrite <- Heb. exact Heblen. }
  exists present.
  assert (Hs2 : 2 * blen (h_suites h) < 65536) by (rewrite <- len_is_blen; lia).
  assert (Hhas : match aes with [] => [] | _ :: _ => u16be (u16 (len eb)) ++ eb end
                 = if nonempty es then u16be (u16 (len eb)) ++ eb else []).
  { unfold aes. destruct es; reflexivity. }
  assert (Hexact : exists pl pw, present = wlist (map (setpad pl pw) es)).
  { destruct (block_exact padto es (pr_exts p) outs Hall (prepare_rel padto h es p Hp) Hem) as (es' & Hpad & Hcat' & Hok');
      [rewrite <- Heb; exact Heblen|].
    destruct (padded_map es es' Hnd Hpad) as (pl & pw & ->). exists pl, pw.
    apply enc_ext_inj; [exact Hpok | exact Hok' | rewrite <- Hpres, <- Hcat'; reflexivity]. }
  split; [|split; [|split; [|split; [exact Hin | split; [exact Hfrom | exact Hexact]]]]].
  - unfold marshal_hello in Hraw. fold aes in Hraw. rewrite Hp in Hraw. cbn [bind] in Hraw. rewrite Hfit0 in Hraw. cbn [negb] in Hraw.
    rewrite Hm in Hraw. inversion Hraw as [Hr']. rewrite Hhas in Hbody. rewrite Hbody.
    apply (layout_eq h (nonempty es) present eb); [rewrite Heb; exact Hpres | exact Heblen | exact Hs2].
  - unfold ast_ok, mk_ast. cbn [c_vers c_random c_sid c_suites c_comp c_has_exts c_exts].
    rewrite <- !len_is_blen.
    split; [exact Hv|]. split; [exact Hr|]. split; [exact Hsid|]. split; [exact Hsne|]. split; [exact Hsu|].
    split; [exact Hs2|]. split; [exact Hcne|]. split; [unfold blen, len in *; lia|].
    destruct (nonempty es) eqn:Hne.
    + split; [exact Hpok|]. split; [exact Hbok|]. rewrite <- Hpres, <- Heb, <- len_is_blen. exact Heblen.
    + destruct es; [|discriminate]. specialize (Hnil eq_refl). rewrite Hnil in Hem. inversion Hem; subst outs.
      cbn [concat] in Hpres. destruct present as [|x pr]; [reflexivity|].
      exfalso. cbn [flat_map] in Hpres. unfold enc_ext, enc_u16 in Hpres. discriminate.
  - eapply subseq_NoDup; eassumption.
Qed.

(* 2. the strict parser reads those bytes back *)
Lemma wire_of_marshal bbs padto h es raw : wf_specb h es = true -> marshal_hello bbs padto h es = Ok raw ->
  exists present,
    strict_parse raw = Some (mk_ast h es present)
    /\ wire_of raw = Some (wire_of_ast (mk_ast h es present))
    /\ NoDup (map fst present)
    /\ (forall e, In e es -> is_padding e = false -> ext_absent e = false -> In (ext_id e, ext_body e) present)
    /\ Forall (from_spec es) present
    /\ (exists pl pw, present = wlist (map (setpad pl pw) es)).
Proof.
  intros Hwf Hraw. destruct (marshal_shape bbs padto h es raw Hwf Hraw) as (present & -> & Hok & Hnd & Hin & Hfrom & Hex).
  exists present. pose proof (strict_parse_layout _ Hok) as Hsp.
  split; [exact Hsp|]. split; [unfold wire_of; rewrite Hsp; reflexivity|]. auto.
Qed.

(* ------------------------------------------------------------------ *)
(* 3. one extension type: last writer in the list = decoder of the body on the wire *)

Lemma lookup_In id (l : list (N * bytes)) b : NoDup (map fst l) -> In (id, b) l -> lookup id l = Some b.
Proof.
  unfold lookup. induction l as [|[i c] l IH]; intros Hnd Hin; [destruct Hin|].
  cbn [find fst]. inversion Hnd as [|? ? Hn Hnd']; subst. destruct Hin as [Heq|Hin].
  - inversion Heq; subst. rewrite N.eqb_refl. reflexivity.
  - destruct (i =? id) eqn:E.
    + apply N.eqb_eq in E. subst i. exfalso. apply Hn. cbn [map fst]. apply in_map_iff. exists (id, b). auto.
    + apply IH; assumption.
Qed.

Lemma lookup_None id (l : list (N * bytes)) : (forall b, ~ In (id, b) l) -> lookup id l = None.
Proof.
  unfold lookup. induction l as [|[i c] l IH]; intros H; [reflexivity|]. cbn [find fst].
  destruct (i =? id) eqn:E.
  - apply N.eqb_eq in E. subst i. exfalso. apply (H c). left. reflexivity.
  - apply IH. intros b Hb. apply (H b). right. exact Hb.
Qed.

Lemma NoDup_map_inj {A B} (f : A -> B) (l : list A) a b : NoDup (map f l) -> In a l -> In b l -> f a = f b -> a = b.
Proof.
  induction l as [|x l IH]; intros Hnd Ha Hb Hf; [destruct Ha|].
  cbn [map] in Hnd. inversion Hnd as [|? ? Hn Hnd']; subst.
  destruct Ha as [->|Ha], Hb as [->|Hb]; [reflexivity | | | apply IH; assumption].
  - exfalso. apply Hn. rewrite Hf. apply in_map. exact Hb.
  - exfalso. apply Hn. rewrite <- Hf. apply in_map. exact Ha.
Qed.

Section Field.
  Context {A : Type} (X : N) (get : ext -> option A).
  Definition last_of (es : list ext) (init : A) : A :=
    fold_left (fun acc e => match get e with Some a => a | None => acc end) es init.
  Hypothesis get_id : forall e a, get e = Some a -> ext_id e = X.

  Lemma last_of_none es init : (forall e, In e es -> get e = None) -> last_of es init = init.
  Proof.
    unfold last_of. revert init. induction es as [|e es IH]; intros init H; [reflexivity|].
    cbn [fold_left]. rewrite (H e (or_introl eq_refl)). apply IH. intros e' He'. apply H. right. exact He'.
  Qed.

  Lemma last_of_unique es init e a : NoDup (map ext_id es) -> In e es -> get e = Some a -> last_of es init = a.
  Proof.
    unfold last_of. revert init. induction es as [|x es IH]; intros init Hnd Hin Hg; [destruct Hin|].
    cbn [map] in Hnd. inversion Hnd as [|? ? Hn Hnd']; subst. cbn [fold_left].
    destruct Hin as [->|Hin].
    - rewrite Hg. apply last_of_none. intros e' He'. destruct (get e') as [a'|] eqn:E; [|reflexivity].
      exfalso. apply Hn. rewrite (get_id _ _ Hg), <- (get_id _ _ E). apply in_map. exact He'.
    - apply IH; assumption.
  Qed.

  Variables (dec : bytes -> A) (dflt : A) (es : list ext) (present : list (N * bytes)).
  Hypothesis Hnd : NoDup (map ext_id es).
  Hypothesis Hndp : NoDup (map fst present).
  Hypothesis Hfwd : forall e, In e es -> is_padding e = false -> ext_absent e = false -> In (ext_id e, ext_body e) present.
  Hypothesis Hrev : Forall (from_spec es) present.
  Hypothesis get_total : forall e, In e es -> ext_id e = X -> exists a, get e = Some a.
  Hypothesis get_present : forall e a, get e = Some a -> is_padding e = false /\ ext_absent e = false.
  Hypothesis get_dec : forall e a, In e es -> get e = Some a -> dec (ext_body e) = a.

  Lemma field_sync : last_of es dflt = via X present dec dflt.
  Proof.
    unfold via. destruct (find (fun e => ext_id e =? X) es) as [e|] eqn:Ef.
    - apply find_some in Ef. destruct Ef as [Hin Hid]. apply N.eqb_eq in Hid.
      destruct (get_total e Hin Hid) as (a & Hg). destruct (get_present e a Hg) as [Hp Ha].
      rewrite (last_of_unique es dflt e a Hnd Hin Hg).
      pose proof (Hfwd e Hin Hp Ha) as Hpr. rewrite Hid in Hpr. rewrite (lookup_In X present _ Hndp Hpr).
      symmetry. apply get_dec; assumption.
    - rewrite last_of_none.
      + rewrite lookup_None; [reflexivity|]. intros b Hb. rewrite Forall_forall in Hrev.
        destruct (Hrev _ Hb) as (e & Hin & Hid & _). cbn [fst] in Hid.
        pose proof (find_none _ _ Ef e Hin) as Hne. cbv beta in Hne. rewrite Hid, N.eqb_refl in Hne. discriminate.
      + intros e Hin. destruct (get e) as [a|] eqn:E; [|reflexivity]. exfalso.
        pose proof (find_none _ _ Ef e Hin) as Hne. cbv beta in Hne. rewrite (get_id _ _ E), N.eqb_refl in Hne. discriminate.
  Qed.
End Field.

(* ------------------------------------------------------------------ *)
(* 4. the decoders invert the reference layouts *)

Lemma all_lt_u16 l : all_lt 65536 l = all_u16 l. Proof. reflexivity. Qed.

Lemma dec_u16lp l : all_lt 65536 l = true -> 2 * blen l < 65536 -> u16s_of_u16lp (u16s_body l) = l.
Proof.
  intros Ha Hl. unfold u16s_of_u16lp, u16s_body. rewrite read_enc_u16lp_nil by (rewrite blen_flat_u16; exact Hl).
  cbn [exact obind]. rewrite read_u16s_flat by exact Ha. reflexivity.
Qed.

Lemma dec_u8lp l : all_lt 65536 l = true -> 2 * blen l < 256 -> u16s_of_u8lp (enc_u8lp (flat_map enc_u16 l)) = l.
Proof.
  intros Ha Hl. unfold u16s_of_u8lp. rewrite read_enc_u8lp_nil by (rewrite blen_flat_u16; exact Hl).
  cbn [exact obind]. rewrite read_u16s_flat by exact Ha. reflexivity.
Qed.

Lemma dec_protos ps : forallb (fun p => blen p <? 256) ps = true -> protos_len ps < 65536 -> protos_of (protos_body ps) = ps.
Proof.
  intros Ha Hl. unfold protos_of, protos_body. rewrite read_enc_u16lp_nil by (rewrite blen_protos_spec; exact Hl).
  cbn [exact obind]. rewrite read_u8lps_flat; [reflexivity| |apply le_n].
  unfold all_u8lp. rewrite forallb_forall in *. intros p Hp. rewrite (Ha p Hp). reflexivity.
Qed.

Definition share_enc (k : N * bytes) : bytes := enc_u16 (fst k) ++ enc_u16lp (snd k).

Lemma share_item_enc (k : N * bytes) r : fst k < 65536 /\ blen (snd k) < 65536 -> share_item (share_enc k ++ r) = Some (fst k, r).
Proof.
  intros [Hg Hd]. unfold share_item, share_enc. rewrite <- app_assoc, read_enc_u16 by exact Hg. cbn [obind].
  rewrite read_enc_u16lp by exact Hd. reflexivity.
Qed.

Lemma dec_shares (ks : list (N * bytes)) : forallb (fun k => fst k <? 65536) ks = true -> key_shares_len ks < 65536 ->
  share_groups_of (enc_u16lp (flat_map share_enc ks)) = map fst ks.
Proof.
  intros Hg Hl. unfold share_groups_of.
  assert (Hb : blen (flat_map share_enc ks) = key_shares_len ks).
  { rewrite blen_flat_map. unfold key_shares_len. apply sum_map_ext. intros k. unfold share_enc.
    rewrite blen_app, blen_enc_u16, blen_enc_u16lp. lia. }
  rewrite read_enc_u16lp_nil by (rewrite Hb; exact Hl). cbn [exact obind].
  rewrite (items_flat share_enc share_item fst (fun k => fst k < 65536 /\ blen (snd k) < 65536) share_item_enc);
    [reflexivity | | | apply le_n].
  - intros k _. unfold share_enc, enc_u16. discriminate.
  - apply Forall_forall. intros k Hk. rewrite forallb_forall in Hg. specialize (Hg k Hk). split; [lia|].
    pose proof (sum_map_ge (fun k => 4 + blen (snd k)) ks k Hk) as Hs. unfold key_shares_len in Hl. cbv beta in Hs. lia.
Qed.

Definition psk_id_enc (i : psk_identity) : bytes := enc_u16lp (fst i) ++ enc_u32 (snd i).

Lemma psk_id_item_enc2 (i : psk_identity) r : blen (fst i) < 65536 /\ snd i < 4294967296 ->
  WriteToUConn.psk_id_item (psk_id_enc i ++ r) = Some (tt, r).
Proof.
  intros [Hl Ha]. unfold WriteToUConn.psk_id_item, psk_id_enc. rewrite <- app_assoc, read_enc_u16lp by exact Hl. cbn [obind].
  rewrite read_enc_u32 by exact Ha. reflexivity.
Qed.

Lemma dec_psk (ids : list psk_identity) (bs : list bytes) :
  forallb (fun i => snd i <? 4294967296) ids = true -> blen (psk_body ids bs) < 65536 ->
  psk_count_of (psk_body ids bs) = N.of_nat (length ids).
Proof.
  intros Ha Hl. unfold psk_count_of, psk_body in *. fold psk_id_enc in *.
  change (fun i : psk_identity => enc_u16lp (fst i) ++ enc_u32 (snd i)) with psk_id_enc in *.
  rewrite blen_app, !blen_enc_u16lp in Hl.
  rewrite read_enc_u16lp by lia.
  rewrite (items_flat psk_id_enc WriteToUConn.psk_id_item (fun _ => tt)
             (fun i => blen (fst i) < 65536 /\ snd i < 4294967296) psk_id_item_enc2); [| | |apply le_n].
  - cbn [or_nil]. rewrite map_length. reflexivity.
  - intros i _. unfold psk_id_enc, enc_u16lp, enc_u16. discriminate.
  - apply Forall_forall. intros i Hi. rewrite forallb_forall in Ha. specialize (Ha i Hi). split; [|lia].
    rewrite blen_flat_map in Hl.
    pose proof (sum_map_ge (fun x : bytes * N => blen (enc_u16lp (fst x) ++ enc_u32 (snd x))) ids i Hi) as Hs. cbv beta in Hs.
    rewrite blen_app, blen_enc_u16lp, blen_enc_u32 in Hs. lia.
Qed.

(* ------------------------------------------------------------------ *)
(* 5. what ApplyConfig leaves in the fields the handshake consults *)

Definition get_curves (e : ext) : option (list N) := match e with ESupportedCurves l => Some l | _ => None end.
Definition get_shares (e : ext) : option (list (N * bytes)) := match e with EKeyShare ks => Some ks | _ => None end.
Definition get_alpn (e : ext) : option (list bytes) := match e with EALPN ps => Some ps | _ => None end.
Definition get_ccalgs (e : ext) : option (list N) := match e with ECompressCert l => Some l | _ => None end.
Definition get_versions (e : ext) : option (list N) := match e with ESupportedVersions l => Some l | _ => None end.

Definition upd {A} (get : ext -> option A) (e : ext) (acc : A) : A := match get e with Some a => a | None => acc end.

Record same_cfg (s s1 : uconn_state) : Prop := {
  sc_hdr : us_hdr s1 = us_hdr s;
  sc_min : us_cfg_min s1 = us_cfg_min s;
  sc_max : us_cfg_max s1 = us_cfg_max s;
  sc_ech : us_cfg_ech s1 = us_cfg_ech s
}.

Lemma write_step env marsh e s s1 : write_to_uconn env marsh e s = Ok s1 ->
  same_cfg s s1
  /\ us_curves s1 = upd get_curves e (us_curves s)
  /\ us_shares s1 = upd get_shares e (us_shares s)
  /\ us_alpn s1 = upd get_alpn e (us_alpn s)
  /\ us_ccalgs s1 = upd get_ccalgs e (us_ccalgs s)
  /\ us_versions s1 = upd get_versions e (us_versions s)
  /\ (we_cache_session env = false -> us_psk_ids s1 = us_psk_ids s).
Proof.
  intros H. destruct e; cbn [write_to_uconn] in H;
  try (inversion H; subst s1; repeat split; reflexivity).
  - (* renegotiation_info *) inversion H; subst s1. destruct ((renegotiation =? 1) || (renegotiation =? 2)); repeat split; reflexivity.
  - (* fake psk *) destruct (we_cache_session env) eqn:E; inversion H; subst s1; repeat split; try reflexivity; discriminate.
  - (* GREASE ECH *) destruct marsh as [b|c|c]; cbn [bind] in H; try discriminate. inversion H; subst s1. repeat split; reflexivity.
Qed.

Lemma same_cfg_trans a b c : same_cfg a b -> same_cfg b c -> same_cfg a c.
Proof. intros [] []. split; congruence. Qed.

Lemma write_all_proj env marsh es : forall s s', write_all env marsh es s = Ok s' ->
  same_cfg s s'
  /\ us_curves s' = last_of get_curves es (us_curves s)
  /\ us_shares s' = last_of get_shares es (us_shares s)
  /\ us_alpn s' = last_of get_alpn es (us_alpn s)
  /\ us_ccalgs s' = last_of get_ccalgs es (us_ccalgs s)
  /\ us_versions s' = last_of get_versions es (us_versions s)
  /\ (we_cache_session env = false -> us_psk_ids s' = us_psk_ids s).
Proof.
  induction es as [|e es IH]; intros s s' H; cbn [write_all] in H.
  - inversion H; subst s'. repeat split; reflexivity.
  - destruct (write_to_uconn env marsh e s) as [s1|c|c] eqn:E; cbn [bind] in H; try discriminate.
    destruct (write_step env marsh e s s1 E) as (C1 & A1 & A2 & A3 & A4 & A5 & A6).
    destruct (IH s1 s' H) as (C2 & B1 & B2 & B3 & B4 & B5 & B6).
    unfold last_of in *. cbn [fold_left]. fold (upd get_curves e (us_curves s)) (upd get_shares e (us_shares s))
      (upd get_alpn e (us_alpn s)) (upd get_ccalgs e (us_ccalgs s)) (upd get_versions e (us_versions s)).
    rewrite <- A1, <- A2, <- A3, <- A4, <- A5.
    split; [eapply same_cfg_trans; eassumption|]. repeat split; try assumption.
    intros Hc. rewrite (B6 Hc), (A6 Hc). reflexivity.
Qed.

(* an extension of a tracked type is the typed extension *)
Ltac typed_tac e :=
  destruct e; cbn [ext_id typed_ext]; intros Ht Hid; try discriminate; try (eexists; reflexivity);
  try (subst; cbn in Ht; discriminate);
  try (match goal with b : bool |- _ => destruct b; discriminate end).

Lemma typed_curves e : typed_ext e = true -> ext_id e = ID_CURVES -> exists l, e = ESupportedCurves l.
Proof. typed_tac e. Qed.
Lemma typed_shares e : typed_ext e = true -> ext_id e = ID_KEY_SHARE -> exists l, e = EKeyShare l.
Proof. typed_tac e. Qed.
Lemma typed_alpn e : typed_ext e = true -> ext_id e = ID_ALPN -> exists l, e = EALPN l.
Proof. typed_tac e. Qed.
Lemma typed_ccalgs e : typed_ext e = true -> ext_id e = ID_COMPRESS_CERT -> exists l, e = ECompressCert l.
Proof. typed_tac e. Qed.
Lemma typed_versions e : typed_ext e = true -> ext_id e = ID_VERSIONS -> exists l, e = ESupportedVersions l.
Proof. typed_tac e. Qed.
Lemma typed_psk e : typed_ext e = true -> ext_id e = ID_PSK -> is_psk_ext e = true.
Proof. destruct e; cbn [ext_id typed_ext is_psk_ext]; intros Ht Hid; try discriminate; try reflexivity;
  try (subst; cbn in Ht; discriminate); try (match goal with b : bool |- _ => destruct b; discriminate end). Qed.

(* ------------------------------------------------------------------ *)
(* 6. view = wire *)

Lemma list_eqN_refl l : Negotiate.list_eqN l l = true.
Proof. apply bytes_eqb_eq. reflexivity. Qed.
Lemma list_eqB_refl l : Negotiate.list_eqB l l = true.
Proof. unfold Negotiate.list_eqB. induction l as [|x l IH]; [reflexivity|]. cbn [list_eqb]. rewrite IH, andb_true_r. apply bytes_eqb_eq. reflexivity. Qed.

Lemma last_of_map {A B} (f : A -> B) (get : ext -> option A) es init :
  last_of (fun e => option_map f (get e)) es (f init) = f (last_of get es init).
Proof.
  unfold last_of. revert init. induction es as [|e es IH]; intros init; [reflexivity|]. cbn [fold_left].
  destruct (get e) as [a|]; cbn [option_map]; apply IH.
Qed.

Lemma cfg_versions_view s es ecdhe mlkem sess :
  cfg_versions (us_cfg_min s) (us_cfg_max s) (us_cfg_ech s) = Negotiate.client_versions (view_of s es ecdhe mlkem sess).
Proof. reflexivity. Qed.

Lemma apply_config_fields env marsh s es s' : apply_config env marsh s es = Ok s' ->
  same_cfg s s'
  /\ us_curves s' = last_of get_curves es []
  /\ us_shares s' = last_of get_shares es []
  /\ us_alpn s' = last_of get_alpn es []
  /\ us_ccalgs s' = last_of get_ccalgs es []
  /\ (if existsb is_versions_ext es then us_versions s' = last_of get_versions es (us_versions s)
      else us_versions s' = filter (fun v => v <=? h_vers (us_hdr s)) (cfg_versions (us_cfg_min s) (us_cfg_max s) (us_cfg_ech s))
           /\ us_versions s' <> [])
  /\ (we_cache_session env = false -> us_psk_ids s' = us_psk_ids s).
Proof.
  unfold apply_config. destruct (write_all env marsh es (clear_offers s)) as [s1|c|c] eqn:E; cbn [bind]; try discriminate.
  destruct (write_all_proj env marsh es _ _ E) as (C & A1 & A2 & A3 & A4 & A5 & A6).
  assert (C0 : same_cfg s s1) by (destruct C; split; assumption).
  cbn in A1, A2, A3, A4, A5, A6.
  destruct (existsb is_versions_ext es).
  - intros H; inversion H; subst s'. repeat split; try assumption. apply C0. apply C0. apply C0. apply C0.
  - destruct C0 as [Ch Cmin Cmax Cech]. rewrite Ch, Cmin, Cmax, Cech.
    destruct (filter _ _) as [|v0 vs] eqn:Ef; [discriminate|]. intros H; inversion H; subst s'.
    split; [split; assumption|]. cbn. repeat split; try assumption. discriminate.
Qed.

Lemma finish_same load es s :
  us_hdr (finish load es s) = us_hdr s /\ us_curves (finish load es s) = us_curves s
  /\ us_shares (finish load es s) = us_shares s /\ us_alpn (finish load es s) = us_alpn s
  /\ us_ccalgs (finish load es s) = us_ccalgs s /\ us_versions (finish load es s) = us_versions s
  /\ us_cfg_min (finish load es s) = us_cfg_min s /\ us_cfg_max (finish load es s) = us_cfg_max s
  /\ us_cfg_ech (finish load es s) = us_cfg_ech s.
Proof.
  unfold finish, set_psk_to_uconn. destruct load; [|repeat split; reflexivity].
  destruct (find is_psk_ext es) as [e|]; [|repeat split; reflexivity]. destruct e; repeat split; reflexivity.
Qed.

Section Compose.
  Variables (env : wenv) (bbs : N -> N) (padto : Z) (s : uconn_state) (es : list ext) (raw : bytes) (s' : uconn_state).
  Variables (load : bool) (ecdhe : N) (mlkem : bool) (sess : N).
  Hypothesis Hwf : wf_specb (us_hdr s) es = true.
  Hypothesis Hty : forallb typed_ext es = true.
  Hypothesis Hraw : marshal_hello bbs padto (us_hdr s) es = Ok raw.
  Hypothesis Hcfg : apply_config env (marshal_hello bbs padto (us_hdr s) es) s es = Ok s'.

  Let sf := finish load es s'.
  Let v := view_of sf es ecdhe mlkem sess.

  Lemma compose_fields : exists present,
    wire_of raw = Some (wire_of_ast (mk_ast (us_hdr s) es present))
    /\ us_hdr sf = us_hdr s
    /\ us_curves sf = via ID_CURVES present u16s_of_u16lp []
    /\ map fst (us_shares sf) = via ID_KEY_SHARE present share_groups_of []
    /\ us_alpn sf = via ID_ALPN present protos_of []
    /\ us_ccalgs sf = via ID_COMPRESS_CERT present u16s_of_u8lp []
    /\ (existsb is_ccert_ext es = true -> us_ccalgs sf <> [])
    /\ psk_sent es = via ID_PSK present psk_count_of 0
    /\ (if existsb is_versions_ext es
        then exists b, lookup ID_VERSIONS present = Some b /\ us_versions sf = u16s_of_u8lp b /\ us_versions sf <> []
        else lookup ID_VERSIONS present = None
             /\ us_versions sf = filter (fun x => x <=? h_vers (us_hdr s)) (Negotiate.client_versions v)
             /\ us_versions sf <> []).
  Proof.
    destruct (wire_of_marshal bbs padto (us_hdr s) es raw Hwf Hraw) as (present & _ & Hw & Hndp & Hfwd & Hrev & _).
    destruct (wf_spec_parts _ _ Hwf) as (_ & _ & _ & _ & _ & _ & Hall & Hnd & _).
    destruct (apply_config_fields _ _ _ _ _ Hcfg) as (C & A1 & A2 & A3 & A4 & A5 & _).
    destruct (finish_same load es s') as (F0 & F1 & F2 & F3 & F4 & F5 & F6 & F7 & F8). fold sf in F0, F1, F2, F3, F4, F5, F6, F7, F8.
    rewrite Forall_forall in Hall. rewrite forallb_forall in Hty.
    exists present. split; [exact Hw|]. split; [rewrite F0; apply C|].
    split; [|split; [|split; [|split; [|split; [|split]]]]].
    - (* supported_groups *) rewrite F1, A1. apply (field_sync ID_CURVES get_curves); try assumption.
      + intros e a H. destruct e; try discriminate. reflexivity.
      + intros e Hin Hid. destruct (typed_curves e (Hty e Hin) Hid) as (l & ->). eexists; reflexivity.
      + intros e a H. destruct e; try discriminate. split; reflexivity.
      + intros e a Hin H. destruct e; try discriminate. inversion H; subst a.
        destruct (Hall _ Hin) as [Hw1 _]. destruct (wf_parts _ Hw1) as (_ & Hf & Hl). cbn [fields_ok ext_len ext_body] in *.
        apply dec_u16lp; [exact Hf | lia].
    - (* key_share *) rewrite F2, A2. rewrite <- (last_of_map (map fst) get_shares es []).
      apply (field_sync ID_KEY_SHARE (fun e => option_map (map fst) (get_shares e))); try assumption.
      + intros e a H. destruct e; try discriminate. reflexivity.
      + intros e Hin Hid. destruct (typed_shares e (Hty e Hin) Hid) as (l & ->). eexists; reflexivity.
      + intros e a H. destruct e; try discriminate. split; reflexivity.
      + intros e a Hin H. destruct e; try discriminate. cbn [get_shares option_map] in H. inversion H; subst a.
        destruct (Hall _ Hin) as [Hw1 _]. destruct (wf_parts _ Hw1) as (_ & Hf & Hl). cbn [fields_ok ext_len ext_body] in *.
        apply dec_shares; [exact Hf | lia].
    - (* ALPN *) rewrite F3, A3. apply (field_sync ID_ALPN get_alpn); try assumption.
      + intros e a H. destruct e; try discriminate. reflexivity.
      + intros e Hin Hid. destruct (typed_alpn e (Hty e Hin) Hid) as (l & ->). eexists; reflexivity.
      + intros e a H. destruct e; try discriminate. split; reflexivity.
      + intros e a Hin H. destruct e; try discriminate. inversion H; subst a.
        destruct (Hall _ Hin) as [Hw1 _]. destruct (wf_parts _ Hw1) as (_ & Hf & Hl). cbn [fields_ok ext_len ext_body] in *.
        apply dec_protos; [exact Hf | lia].
    - (* compress_certificate *) rewrite F4, A4. apply (field_sync ID_COMPRESS_CERT get_ccalgs); try assumption.
      + intros e a H. destruct e; try discriminate. reflexivity.
      + intros e Hin Hid. destruct (typed_ccalgs e (Hty e Hin) Hid) as (l & ->). eexists; reflexivity.
      + intros e a H. destruct e; try discriminate. split; reflexivity.
      + intros e a Hin H. destruct e; try discriminate. inversion H; subst a.
        destruct (Hall _ Hin) as [Hw1 _]. destruct (wf_parts _ Hw1) as (_ & Hf & Hl). cbn [fields_ok ext_len ext_body] in *.
        apply andb_true_iff in Hf. destruct Hf as [Hf1 Hf2]. apply dec_u8lp; [exact Hf1 | lia].
    - (* the compress_certificate extension is present: its list is not empty *)
      intros Hex. apply existsb_exists in Hex. destruct Hex as (e & Hin & He). destruct e; try discriminate.
      rewrite F4, A4. rewrite (last_of_unique ID_COMPRESS_CERT get_ccalgs) with (e := ECompressCert algs) (a := algs); try assumption; try reflexivity.
      + destruct (Hall _ Hin) as [_ Hr]. cbn [rfc_ok ext_absent orb] in Hr. destruct algs; [discriminate|discriminate].
      + intros e a H. destruct e; try discriminate. reflexivity.
    - (* pre_shared_key *) unfold psk_sent, via. destruct (find is_psk_ext es) as [e|] eqn:Ef.
      + apply find_some in Ef. destruct Ef as [Hin Hp].
        assert (Hid : ext_id e = ID_PSK) by (destruct e; try discriminate; reflexivity).
        assert (Hnp : is_padding e = false) by (destruct e; try discriminate; reflexivity).
        assert (Hgoal : (if ext_absent e then 0 else
                           match e with EUtlsPreSharedKey _ _ _ ids _ | EFakePreSharedKey _ ids _ => N.of_nat (length ids) | _ => 0 end)
                        = match lookup ID_PSK present with Some b => psk_count_of b | None => 0 end).
        { destruct (ext_absent e) eqn:Ha.
          - rewrite lookup_None; [reflexivity|]. intros b Hb. rewrite Forall_forall in Hrev.
            destruct (Hrev _ Hb) as (e' & Hin' & Hid' & Hx). cbn [fst] in Hid'.
            assert (e' = e) by (apply (NoDup_map_inj ext_id es); [exact Hnd|exact Hin'|exact Hin|congruence]). subst e'.
            destruct (Hx Hnp) as [Hx1 _]. congruence.
          - pose proof (Hfwd e Hin Hnp Ha) as Hpr. rewrite Hid in Hpr. rewrite (lookup_In _ _ _ Hndp Hpr).
            destruct (Hall _ Hin) as [Hw1 _]. pose proof (body_len e Hw1 Ha) as Hbl.
            destruct (wf_parts _ Hw1) as (_ & Hf & Hl).
            destruct e; try discriminate; cbn [fields_ok ext_body] in *;
              rewrite !andb_true_iff in Hf; destruct Hf as [[Hf1 _] _]; symmetry; apply dec_psk; try exact Hf1; lia. }
        destruct e; try discriminate; exact Hgoal.
      + rewrite lookup_None; [reflexivity|]. intros b Hb. rewrite Forall_forall in Hrev.
        destruct (Hrev _ Hb) as (e' & Hin' & Hid' & _). cbn [fst] in Hid'.
        pose proof (find_none _ _ Ef e' Hin') as Hne. rewrite (typed_psk e' (Hty e' Hin') Hid') in Hne. discriminate.
    - (* supported_versions *) rewrite F5. destruct (existsb is_versions_ext es) eqn:Ex.
      + apply existsb_exists in Ex. destruct Ex as (e & Hin & He). destruct e; try discriminate.
        pose proof (Hfwd _ Hin eq_refl eq_refl) as Hpr. cbn [ext_id ext_body] in Hpr.
        exists (enc_u8lp (flat_map enc_u16 versions)). split; [apply (lookup_In _ _ _ Hndp Hpr)|].
        rewrite A5. rewrite (last_of_unique ID_VERSIONS get_versions) with (e := ESupportedVersions versions) (a := versions); try assumption; try reflexivity.
        * destruct (Hall _ Hin) as [Hw1 Hr]. destruct (wf_parts _ Hw1) as (_ & Hf & Hl). cbn [fields_ok ext_len] in *.
          apply andb_true_iff in Hf. destruct Hf as [Hf1 Hf2]. split; [symmetry; apply dec_u8lp; [exact Hf1 | lia]|].
          cbn [rfc_ok ext_absent orb] in Hr. destruct versions; discriminate.
        * intros e a H. destruct e; try discriminate. reflexivity.
      + destruct A5 as [A5 A5ne]. split; [|split; [|exact A5ne]].
        * apply lookup_None. intros b Hb. rewrite Forall_forall in Hrev.
          destruct (Hrev _ Hb) as (e' & Hin' & Hid' & _). cbn [fst] in Hid'.
          destruct (typed_versions e' (Hty e' Hin') Hid') as (l & ->).
          assert (Hc : existsb is_versions_ext es = true) by (apply existsb_exists; eexists; split; [exact Hin'|reflexivity]).
          congruence.
        * rewrite A5. unfold v. rewrite <- (cfg_versions_view sf es ecdhe mlkem sess), F6, F7, F8.
          destruct C as [_ Cmin Cmax Cech]. rewrite Cmin, Cmax, Cech. reflexivity.
  Qed.

  (* MAIN 1: the view the handshake consults is the wire, for every header and extension list inside the C02 precondition *)
  Theorem compose_synced :
    Negotiate.memN 0 (h_comp (us_hdr s)) = true -> psk_agree sf es = true ->
    exists w, wire_of raw = Some w /\ Negotiate.synced v w = true.
  Proof.
    intros Hc0 Hpsk. destruct compose_fields as (present & Hw & E0 & E1 & E2 & E3 & E4 & E4ne & E5 & _).
    eexists; split; [exact Hw|].
    unfold Negotiate.synced, v, view_of, wire_of_ast, mk_ast.
    cbn [Negotiate.cv_suites Negotiate.cv_curves Negotiate.cv_shares Negotiate.cv_alpn Negotiate.cv_sid Negotiate.cv_psk
         Negotiate.cv_ccalgs Negotiate.cv_ccext Negotiate.w_suites Negotiate.w_groups Negotiate.w_shares Negotiate.w_alpn
         Negotiate.w_sid Negotiate.w_psk Negotiate.w_ccalgs Negotiate.w_comps c_vers c_suites c_comp c_sid c_exts].
    rewrite E0, E1, E2, E3, E4, <- E5, !list_eqN_refl, list_eqB_refl. cbn [andb].
    unfold psk_agree in Hpsk. rewrite Hpsk, Hc0. cbn [andb]. rewrite andb_true_r.
    destruct (existsb is_ccert_ext es) eqn:Ex; [|reflexivity]. cbn [implb].
    rewrite <- E4. specialize (E4ne eq_refl). destruct (us_ccalgs sf); [congruence|reflexivity].
  Qed.

  (* MAIN 2: supported_versions. With the extension: Hello.SupportedVersions is the list on the wire. Without it
     (fixed ApplyConfig): the accepted versions up to legacy_version, not empty. *)
  Theorem compose_versions :
    exists w, wire_of raw = Some w /\ Negotiate.w_legacy w = h_vers (us_hdr s) /\
      if existsb is_versions_ext es
      then Negotiate.w_has_sv w = true /\ forall specmin, Negotiate.versions_synced v specmin w = true
      else Negotiate.w_has_sv w = false
           /\ Negotiate.cv_sv v = filter (fun x => x <=? h_vers (us_hdr s)) (Negotiate.client_versions v)
           /\ Negotiate.cv_sv v <> [].
  Proof.
    destruct compose_fields as (present & Hw & _ & _ & _ & _ & _ & _ & _ & E6).
    eexists; split; [exact Hw|]. split; [reflexivity|].
    destruct (existsb is_versions_ext es).
    - destruct E6 as (b & Hl & Hv & Hne). unfold Negotiate.versions_synced, wire_of_ast, via, mk_ast.
      cbn [Negotiate.w_has_sv Negotiate.w_sv c_exts]. rewrite Hl. split; [reflexivity|]. intros _.
      unfold v, view_of. cbn [Negotiate.cv_sv]. rewrite Hv, list_eqN_refl. cbn [andb].
      rewrite Hv in Hne. destruct (u16s_of_u8lp b); [congruence|reflexivity].
    - destruct E6 as (Hl & Hv & Hne). unfold wire_of_ast, mk_ast. cbn [Negotiate.w_has_sv c_exts]. rewrite Hl.
      split; [reflexivity|]. split; [exact Hv | exact Hne].
  Qed.

  (* C13 without the versions_synced premise: a completed handshake is at an advertised version *)
  Theorem compose_version_advertised specmin fl st :
    specmin <= (if us_cfg_min s =? 0 then 771 else us_cfg_min s) ->
    Negotiate.client_run v fl = Negotiate.Complete st ->
    exists w, wire_of raw = Some w /\ In (Negotiate.cs_vers st) (Negotiate.advertised specmin w).
  Proof.
    intros Hmin Hrun. destruct compose_versions as (w & Hw & Hleg & Hv). exists w. split; [exact Hw|].
    destruct (existsb is_versions_ext es).
    - destruct Hv as [_ Hs]. apply (NegotiateP.version_fixed v specmin w fl st (Hs specmin) Hrun).
    - destruct Hv as (Hno & Hsv & Hne).
      destruct (NegotiateP.completed_version _ _ _ _ Hrun) as [Hin Hoff].
      unfold Negotiate.version_offered in Hoff. cbn [Negotiate.e_fix_version Negotiate.env_fixed] in Hoff.
      destruct (Negotiate.cv_sv v) as [|x0 xs] eqn:Esv; [congruence|].
      apply NegotiateP.memN_In in Hoff. rewrite Hsv in Hoff. apply filter_In in Hoff. destruct Hoff as [_ Hle].
      unfold Negotiate.advertised. rewrite Hno, Hleg. apply filter_In. split; [apply (NegotiateP.client_versions_sub v); exact Hin|].
      unfold Negotiate.client_versions in Hin. apply filter_In in Hin. destruct Hin as [_ Hf].
      assert (Hvm : Negotiate.cv_vmin v = us_cfg_min s).
      { unfold v, view_of. cbn [Negotiate.cv_vmin]. destruct (finish_same load es s') as (_ & _ & _ & _ & _ & _ & F6 & _). fold sf in F6.
        rewrite F6. destruct (apply_config_fields _ _ _ _ _ Hcfg) as (C & _). apply C. }
      rewrite Hvm in Hf. unfold Negotiate.V12 in Hf. destruct (us_cfg_min s =? 0) eqn:E0; lia.
  Qed.

  (* C13, downgrade sentinel, without the premise *)
  Theorem compose_canary fl st :
    (exists w, wire_of raw = Some w /\ Negotiate.offers13 w = true) ->
    Negotiate.h_tail (NegotiateP.first_hello fl) = 1 \/ Negotiate.h_tail (NegotiateP.first_hello fl) = 2 ->
    Negotiate.client_run v fl = Negotiate.Complete st -> Negotiate.cs_vers st = Negotiate.V13.
  Proof.
    intros (w0 & Hw0 & Hoff) Htail Hrun. destruct compose_versions as (w & Hw & _ & Hv).
    rewrite Hw0 in Hw. inversion Hw; subst w0.
    destruct (existsb is_versions_ext es).
    - destruct Hv as [_ Hs]. exact (NegotiateP.canary_fixed v 0 w fl st (Hs 0) Hoff Htail Hrun).
    - destruct Hv as (Hno & _). unfold Negotiate.offers13 in Hoff. rewrite Hno in Hoff. discriminate.
  Qed.

  (* ---- C12: the conclusions of Props/C12.v with the synced premise discharged ---- *)
  Hypothesis Hc0 : Negotiate.memN 0 (h_comp (us_hdr s)) = true.
  Hypothesis Hpsk : psk_agree sf es = true.

  Ltac via_synced lem :=
    destruct (compose_synced Hc0 Hpsk) as (w & Hw & Hs); exists w; split; [exact Hw | eapply lem; eassumption].

  Theorem c12_suite13 e fl st :
    Negotiate.client_run_gen e v fl = Negotiate.Complete st -> Negotiate.cs_vers st = Negotiate.V13 ->
    exists w, wire_of raw = Some w /\
      (Negotiate.cs_suite st = Negotiate.h_suite (Negotiate.f_sh fl) /\ In (Negotiate.cs_suite st) (Negotiate.w_suites w)
       /\ In (Negotiate.cs_suite st) Negotiate.tls13_suites
       /\ (forall h, Negotiate.f_hrr fl = Some h -> Negotiate.h_suite h = Negotiate.cs_suite st)).
  Proof. intros Hrun Hv13. via_synced NegotiateP.wire_suite13. Qed.

  Theorem c12_suite12 e fl st :
    Negotiate.client_run_gen e v fl = Negotiate.Complete st -> Negotiate.cs_vers st <> Negotiate.V13 ->
    exists w, wire_of raw = Some w /\
      (Negotiate.cs_suite st = Negotiate.h_suite (NegotiateP.first_hello fl) /\ In (Negotiate.cs_suite st) (Negotiate.w_suites w)
       /\ In (Negotiate.cs_suite st) (Negotiate.e_impl12 e)).
  Proof. intros Hrun Hv13. via_synced NegotiateP.wire_suite12. Qed.

  Theorem c12_group13 e fl st :
    Negotiate.client_run_gen e v fl = Negotiate.Complete st -> Negotiate.cs_vers st = Negotiate.V13 ->
    exists w, wire_of raw = Some w /\
      (Negotiate.cs_group st = Negotiate.h_share (Negotiate.f_sh fl)
       /\ match Negotiate.f_hrr fl with
          | None => In (Negotiate.cs_group st) (Negotiate.w_shares w)
          | Some h => (Negotiate.h_selgroup h = 0 /\ In (Negotiate.cs_group st) (Negotiate.w_shares w))
                      \/ (Negotiate.h_selgroup h <> 0 /\ Negotiate.cs_group st = Negotiate.h_selgroup h
                          /\ In (Negotiate.cs_group st) (Negotiate.w_groups w) /\ ~ In (Negotiate.cs_group st) (Negotiate.w_shares w))
          end).
  Proof. intros Hrun Hv13. via_synced NegotiateP.wire_group13. Qed.

  Theorem c12_alpn e fl st :
    Negotiate.client_run_gen e v fl = Negotiate.Complete st ->
    exists w, wire_of raw = Some w /\ (Negotiate.cs_alpn st = [] \/ In (Negotiate.cs_alpn st) (Negotiate.w_alpn w)).
  Proof. intros Hrun. via_synced NegotiateP.wire_alpn. Qed.

  Theorem c12_psk e fl st :
    Negotiate.client_run_gen e v fl = Negotiate.Complete st -> Negotiate.cs_vers st = Negotiate.V13 ->
    exists w, wire_of raw = Some w /\ (forall i, Negotiate.h_psk (Negotiate.f_sh fl) = Some i -> i < Negotiate.w_psk w).
  Proof. intros Hrun Hv13. via_synced NegotiateP.wire_psk. Qed.

  Theorem c12_certcomp e fl st :
    Negotiate.client_run_gen e v fl = Negotiate.Complete st -> Negotiate.cs_vers st = Negotiate.V13 -> Negotiate.cs_psk st = false ->
    exists w, wire_of raw = Some w /\ (forall a, Negotiate.f_ccert fl = Some a -> In a (Negotiate.w_ccalgs w)).
  Proof. intros Hrun Hv13 Hp. via_synced NegotiateP.wire_certcomp. Qed.

  Theorem c12_sessionid e fl st :
    Negotiate.client_run_gen e v fl = Negotiate.Complete st -> Negotiate.cs_vers st = Negotiate.V13 ->
    exists w, wire_of raw = Some w /\
      (Negotiate.h_sid (Negotiate.f_sh fl) = Negotiate.w_sid w /\ (forall h, Negotiate.f_hrr fl = Some h -> Negotiate.h_sid h = Negotiate.w_sid w)).
  Proof. intros Hrun Hv13. via_synced NegotiateP.wire_sessionid. Qed.

  Theorem c12_curve12 fl st c :
    Negotiate.client_run v fl = Negotiate.Complete st -> Negotiate.cs_vers st <> Negotiate.V13 -> Negotiate.f_skx fl = Some c ->
    exists w, wire_of raw = Some w /\ In c (Negotiate.w_groups w).
  Proof. intros Hrun Hv13 Hc. via_synced NegotiateP.curve12_fixed. Qed.
End Compose.

(* SetTLSVers / makeSupportedVersions never panic, for every (min, max) and extension list. *)
From UV Require Import Base.Common Model.Wire Model.Varint Model.Ext Model.FromRaw Model.SetVers Proofs.FromRawP.
From Coq Require Import ZifyBool ZifyNat ZifyN.

Lemma go_make_np_nonneg n : (0 <= n)%Z -> np (go_make n).
Proof. intros H. unfold go_make. destruct (Z.ltb_spec n 0); [lia | reflexivity]. Qed.

Lemma make_supported_versions_np mn mx : np (make_supported_versions mn mx).
Proof.
  unfold make_supported_versions. apply np_bind; [|intros; reflexivity].
  apply go_make_np_nonneg. lia.
Qed.

Lemma msv_fill_length len : forall i mx, length (msv_fill len i mx) = len.
Proof. induction len as [|k IH]; intros i mx; cbn [msv_fill length]; [reflexivity | rewrite IH; reflexivity]. Qed.

(* for an ordered range the list is max, max-1, ..., min *)
Lemma make_supported_versions_len mn mx l : 769 <= mn <= 772 -> 769 <= mx <= 772 -> mn <= mx ->
  make_supported_versions mn mx = Ok l -> N.of_nat (length l) = mx - mn + 1.
Proof.
  intros Hn Hx Hle. unfold make_supported_versions, go_make.
  destruct (Z.ltb_spec (Z.of_N ((mx + 65536 - mn + 1) mod 65536)) 0); [lia|]. cbn [bind]. intros Hok. inversion Hok; subst.
  rewrite msv_fill_length.
  replace (mx + 65536 - mn + 1) with ((mx - mn + 1) + 1 * 65536) by lia. rewrite N.mod_add by lia.
  rewrite N.mod_small by lia. lia.
Qed.

Lemma scan_sv_np es : forall c mm, np (scan_sv es c mm).
Proof.
  induction es as [|e r IH]; intros c mm; cbn [scan_sv]; [reflexivity|].
  destruct e; try apply IH.
  destruct ((fst (find_versions versions 0 0) =? 0) && (snd (find_versions versions 0 0) =? 0)); [reflexivity | apply IH].
Qed.

Lemma set_tls_vers_np mn mx es : np (set_tls_vers mn mx es).
Proof.
  unfold set_tls_vers.
  repeat match goal with
  | |- np (scan_sv _ _ _) => apply scan_sv_np
  | |- np (make_supported_versions _ _) => apply make_supported_versions_np
  | _ => np_step
  end.
Qed.

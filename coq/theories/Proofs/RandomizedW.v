(* Weight corners of generateRandomizedSpec: weight <= 0 => optional feature absent (unless a
   TLS 1.3 rule forces it), weight >= 1 => present (no zero draw). Uses the inversion tactic of
   Proofs/RandomizedP.v. *)
From UV Require Import Base.Common Model.Prng Proofs.PrngP Model.Randomized Proofs.RandomizedP.
From Coq Require Import QArith Permutation ZifyBool ZifyNat ZifyN.
Open Scope N_scope.

Ltac kill2 H :=
  split_or H;
  first [ discriminate H | (exfalso; exact H)
        | (let H1 := fresh in let H2 := fresh in destruct H as [H1 H2]; first [discriminate H1 | discriminate H2]) ].
Ltac absent L := let Hin := fresh "Hin" in intros Hin; use_le0 L; to_base Hin; kill2 Hin.
Ltac present L := use_ge1 L; goal_base; find_in.

Section W.
  Variable rnd : Q -> Q.
  Hypothesis L : ieee_laws rnd.
  Variables (fuel : nat) (tb : table) (v : variant) (w : weights) (sn : bytes) (np : list bytes) (s salted : stream) (p : spec).
  Hypothesis G : generate rnd fuel tb v w sn np s salted = Ok p.

  Lemma w0_tls13 : w_le0 (w_tls13 w) -> sp_max p = VersionTLS12.
  Proof. intros Hw. pose proof G as H. gen_inv H; use_le0 L; reflexivity. Qed.
  Lemma w0_alpn : w_le0 (w_alpn w) -> v = VRandomized -> forall q, ~ In (EALPN q) (sp_exts p).
  Proof. intros Hw Hv q. pose proof G as H. gen_inv H; try discriminate Hv; norm_b; absent L. Qed.
  Lemma w0_padding : w_le0 (w_padding w) -> sp_max p <> VersionTLS13 -> ~ In EPadding (sp_exts p).
  Proof.
    intros Hw Hne. pose proof G as H. gen_inv H; norm_b; cbn [sp_max] in Hne;
    try (exfalso; apply Hne; reflexivity); absent L.
  Qed.
  Lemma w0_status : w_le0 (w_status w) -> ~ In EStatus (sp_exts p).
  Proof. intros Hw. pose proof G as H. gen_inv H; norm_b; absent L. Qed.
  Lemma w0_sct : w_le0 (w_sct w) -> ~ In ESCT (sp_exts p).
  Proof. intros Hw. pose proof G as H. gen_inv H; norm_b; absent L. Qed.
  Lemma w0_reneg : w_le0 (w_reneg w) -> forall m, ~ In (EReneg m) (sp_exts p).
  Proof. intros Hw m. pose proof G as H. gen_inv H; norm_b; absent L. Qed.
  Lemma w0_ems : w_le0 (w_ems w) -> ~ In EEMS (sp_exts p).
  Proof. intros Hw. pose proof G as H. gen_inv H; norm_b; absent L. Qed.
  Lemma w0_alps : w_le0 (w_alps w) -> forall q, ~ In (EALPS q) (sp_exts p).
  Proof. intros Hw q. pose proof G as H. gen_inv H; norm_b; absent L. Qed.

  Hypothesis Z1 : nz s.
  Hypothesis Z2 : nz salted.
  Lemma w1_tls13 : w_ge1 (w_tls13 w) -> sp_max p = VersionTLS13.
  Proof. intros Hw. pose proof G as H. pose proof Z1 as Hz. gen_inv H; use_ge1 L; reflexivity. Qed.
  Lemma w1_alpn : w_ge1 (w_alpn w) -> v = VRandomized -> exists q, In (EALPN q) (sp_exts p).
  Proof.
    intros Hw Hv. pose proof G as H. pose proof Z1 as Hz. gen_inv H; try discriminate Hv; norm_b; use_ge1 L;
    eexists; goal_base; find_in.
  Qed.
  Lemma w1_padding : w_ge1 (w_padding w) -> In EPadding (sp_exts p).
  Proof. intros Hw. pose proof G as H. pose proof Z1 as Hz. gen_inv H; norm_b; present L. Qed.
  Lemma w1_status : w_ge1 (w_status w) -> In EStatus (sp_exts p).
  Proof. intros Hw. pose proof G as H. pose proof Z1 as Hz. gen_inv H; norm_b; present L. Qed.
  Lemma w1_sct : w_ge1 (w_sct w) -> In ESCT (sp_exts p).
  Proof. intros Hw. pose proof G as H. pose proof Z1 as Hz. gen_inv H; norm_b; present L. Qed.
  Lemma w1_reneg : w_ge1 (w_reneg w) -> In (EReneg RenegotiateOnceAsClient) (sp_exts p).
  Proof. intros Hw. pose proof G as H. pose proof Z1 as Hz. gen_inv H; norm_b; present L. Qed.
  Lemma w1_ems : w_ge1 (w_ems w) -> In EEMS (sp_exts p).
  Proof. intros Hw. pose proof G as H. pose proof Z1 as Hz. gen_inv H; norm_b; present L. Qed.
  Lemma w1_alps : w_ge1 (w_alps w) -> sp_max p = VersionTLS13 -> (exists q, In (EALPN q) (sp_exts p)) ->
    In (EALPS [proto_h2]) (sp_exts p).
  Proof.
    intros Hw Hmax [q Hq]. pose proof G as H. pose proof Z1 as Hz.
    gen_inv H; cbn [sp_max] in Hmax; try discriminate Hmax; norm_b;
    try (to_base Hq; kill2 Hq); present L.
  Qed.
End W.

Lemma weight0_absent rnd : ieee_laws rnd -> forall fuel tb v w sn np s salted p,
  generate rnd fuel tb v w sn np s salted = Ok p ->
  (w_le0 (w_tls13 w) -> sp_max p = VersionTLS12) /\
  (w_le0 (w_alpn w) -> v = VRandomized -> forall q, ~ In (EALPN q) (sp_exts p)) /\
  (w_le0 (w_padding w) -> sp_max p <> VersionTLS13 -> ~ In EPadding (sp_exts p)) /\
  (w_le0 (w_status w) -> ~ In EStatus (sp_exts p)) /\
  (w_le0 (w_sct w) -> ~ In ESCT (sp_exts p)) /\
  (w_le0 (w_reneg w) -> forall m, ~ In (EReneg m) (sp_exts p)) /\
  (w_le0 (w_ems w) -> ~ In EEMS (sp_exts p)) /\
  (w_le0 (w_alps w) -> forall q, ~ In (EALPS q) (sp_exts p)).
Proof.
  intros L fuel tb v w sn np s salted p G.
  split; [eapply w0_tls13; eauto|]. split; [eapply w0_alpn; eauto|]. split; [eapply w0_padding; eauto|].
  split; [eapply w0_status; eauto|]. split; [eapply w0_sct; eauto|]. split; [eapply w0_reneg; eauto|].
  split; [eapply w0_ems; eauto|eapply w0_alps; eauto].
Qed.

Lemma weight1_present rnd : ieee_laws rnd -> forall fuel tb v w sn np s salted p,
  generate rnd fuel tb v w sn np s salted = Ok p -> nz s -> nz salted ->
  (w_ge1 (w_tls13 w) -> sp_max p = VersionTLS13) /\
  (w_ge1 (w_alpn w) -> v = VRandomized -> exists q, In (EALPN q) (sp_exts p)) /\
  (w_ge1 (w_padding w) -> In EPadding (sp_exts p)) /\
  (w_ge1 (w_status w) -> In EStatus (sp_exts p)) /\
  (w_ge1 (w_sct w) -> In ESCT (sp_exts p)) /\
  (w_ge1 (w_reneg w) -> In (EReneg RenegotiateOnceAsClient) (sp_exts p)) /\
  (w_ge1 (w_ems w) -> In EEMS (sp_exts p)) /\
  (w_ge1 (w_alps w) -> sp_max p = VersionTLS13 -> (exists q, In (EALPN q) (sp_exts p)) -> In (EALPS [proto_h2]) (sp_exts p)).
Proof.
  intros L fuel tb v w sn np s salted p G Z1 Z2.
  split; [eapply w1_tls13; eauto|]. split; [eapply w1_alpn; eauto|]. split; [eapply w1_padding; eauto|].
  split; [eapply w1_status; eauto|]. split; [eapply w1_sct; eauto|]. split; [eapply w1_reneg; eauto|].
  split; [eapply w1_ems; eauto|eapply w1_alps; eauto].
Qed.

From UV Require Import Base.Common Model.Roller.
From Coq Require Import Permutation ZifyBool ZifyNat ZifyN.

Lemma existsb_eqb_In w l : existsb (N.eqb w) l = true <-> In w l.
Proof.
  rewrite existsb_exists. split.
  - intros (x & Hin & E). apply N.eqb_eq in E. subst. exact Hin.
  - intros H. exists w. split; [exact H|apply N.eqb_refl].
Qed.

Lemma index_of_None w l : index_of w l = None -> ~ In w l.
Proof.
  induction l as [|x r IH]; cbn [index_of In]; [tauto|].
  destruct (x =? w) eqn:E; [discriminate|]. destruct (index_of w r); [discriminate|].
  intros _ [H|H]; [apply N.eqb_neq in E; congruence|tauto].
Qed.

Lemma index_of_Some_In w l i : index_of w l = Some i -> In w l.
Proof.
  revert i; induction l as [|x r IH]; intros i; cbn [index_of In]; [discriminate|].
  destruct (x =? w) eqn:E; [apply N.eqb_eq in E; auto|].
  destruct (index_of w r) as [j|]; [|discriminate]. intros _. right. eapply IH; eauto.
Qed.

(* swapping the found element with the head is a permutation that puts w first *)
Lemma swap_perm w h t k : index_of w t = Some k -> Permutation (h :: t) (w :: Roller.set_nth k h t).
Proof.
  revert k; induction t as [|x r IH]; intros k; cbn [index_of]; [discriminate|].
  destruct (x =? w) eqn:E.
  - intros [= <-]. apply N.eqb_eq in E. subst x. cbn [Roller.set_nth]. apply perm_swap.
  - destruct (index_of w r) as [j|] eqn:I; [|discriminate]. intros [= <-]. cbn [Roller.set_nth].
    specialize (IH j eq_refl).
    eapply perm_trans; [apply perm_swap|]. eapply perm_trans; [apply perm_skip; exact IH|]. apply perm_swap.
Qed.

Lemma prioritise_spec sh w :
  Permutation (prioritise sh (Some w)) (if existsb (N.eqb w) sh then sh else w :: sh) /\
  hd_error (prioritise sh (Some w)) = Some w.
Proof.
  unfold prioritise. destruct (index_of w sh) as [i|] eqn:I.
  - assert (Hin : In w sh) by (eapply index_of_Some_In; eauto).
    replace (existsb (N.eqb w) sh) with true by (symmetry; apply existsb_eqb_In; exact Hin).
    destruct sh as [|h t]; [destruct Hin|]. cbn [index_of] in I. cbn [hd].
    destruct (h =? w) eqn:E.
    + apply N.eqb_eq in E. subst h. injection I as <-. cbn [Roller.set_nth]. split; [apply Permutation_refl|reflexivity].
    + destruct (index_of w t) as [j|] eqn:J; [|discriminate]. injection I as <-. cbn [Roller.set_nth].
      split; [|reflexivity]. apply Permutation_sym. apply swap_perm. exact J.
  - apply index_of_None in I.
    replace (existsb (N.eqb w) sh) with false; [split; [apply Permutation_refl|reflexivity]|].
    symmetry. apply not_true_is_false. intros H. apply existsb_eqb_In in H. contradiction.
Qed.

Lemma existsb_perm w a b : Permutation a b -> existsb (N.eqb w) a = existsb (N.eqb w) b.
Proof.
  intros P. destruct (existsb (N.eqb w) b) eqn:E.
  - apply existsb_eqb_In. apply existsb_eqb_In in E. eapply Permutation_in; [apply Permutation_sym; exact P|exact E].
  - apply not_true_is_false. intros H. apply existsb_eqb_In in H.
    assert (In w b) by (eapply Permutation_in; eauto). apply existsb_eqb_In in H0. congruence.
Qed.

Lemma prioritise_pool ids sh working : Permutation ids sh ->
  Permutation (prioritise sh working) (pool ids working).
Proof.
  intros P. destruct working as [w|]; [|cbn; apply Permutation_sym; exact P].
  destruct (prioritise_spec sh w) as [A _]. unfold pool.
  rewrite (existsb_perm w ids sh P). eapply perm_trans; [exact A|].
  destruct (existsb (N.eqb w) sh); [apply Permutation_sym; exact P|apply perm_skip; apply Permutation_sym; exact P].
Qed.

Lemma pool_nodup ids working : NoDup ids -> NoDup (pool ids working).
Proof.
  intros H. destruct working as [w|]; [|exact H]. unfold pool.
  destruct (existsb (N.eqb w) ids) eqn:E; [exact H|]. constructor; [|exact H].
  intros Hin. apply existsb_eqb_In in Hin. congruence.
Qed.

(* the attempt loop *)
Lemma loop_spec tcp acc order : forall k tr o, attempt_loop order k tcp acc = (tr, o) ->
  match o with
  | Connected i => exists before rest, tr = before ++ [i] /\ order = before ++ i :: rest /\
                   acc i = true /\ Forall (fun x => acc x = false) before /\
                   (forall j, (k <= j < k + length tr)%nat -> tcp j = true)
  | TcpError j => exists rest, order = tr ++ rest /\ rest <> [] /\ Forall (fun x => acc x = false) tr /\
                  j = (k + length tr)%nat /\ tcp j = false
  | AllFailed | NoIds => order = tr /\ Forall (fun x => acc x = false) tr
  end.
Proof.
  induction order as [|x r IH]; intros k tr o; cbn [attempt_loop].
  - intros [= <- <-]. destruct (k =? 0)%nat; split; constructor.
  - destruct (tcp k) eqn:T; cbn [negb].
    + destruct (acc x) eqn:A.
      * intros [= <- <-]. exists [], r. cbn [app length]. repeat split; auto.
        intros j Hj. cbn in Hj. clear IH. destruct Hj as [H1 H2]. assert (j = k) as -> by (apply Nat.le_antisymm; [apply Nat.lt_succ_r; rewrite <- Nat.add_1_r; exact H2 | exact H1]). exact T.
      * destruct (attempt_loop r (S k) tcp acc) as [tr' o'] eqn:L. intros [= <- <-].
        specialize (IH (S k) tr' o' L). destruct o' as [i|j| |].
        -- destruct IH as (b & rest & -> & -> & Hi & Hb & Ht). exists (x :: b), rest.
           repeat split; auto. intros j Hj. cbn [length app] in Hj.
           destruct (Nat.eq_dec j k) as [->|]; [exact T|]. apply Ht. rewrite app_length in *. cbn [length] in *. lia.
        -- destruct IH as (rest & -> & Hne & Hb & -> & Hf). exists rest. cbn [length app].
           assert (E : (S k + length tr' = k + S (length tr'))%nat) by lia.
           repeat split; auto; rewrite <- E; exact Hf.
        -- destruct IH as [-> Hb]. split; [reflexivity|constructor; auto].
        -- destruct IH as [-> Hb]. split; [reflexivity|constructor; auto].
    + intros [= <- <-]. exists (x :: r). cbn [app length]. rewrite Nat.add_0_r. repeat split; auto; discriminate.
Qed.

Lemma nodupb_spec l : NoDup l -> nodupb l = true.
Proof.
  induction 1 as [|x l Hn Hl IH]; cbn [nodupb]; [reflexivity|]. rewrite IH, andb_true_r.
  apply negb_true_iff. apply not_true_is_false. intros H. apply existsb_eqb_In in H. contradiction.
Qed.
Lemma subsetb_spec a b : incl a b -> subsetb a b = true.
Proof.
  intros H. unfold subsetb. apply forallb_forall. intros x Hx. apply existsb_eqb_In. apply H. exact Hx.
Qed.
Lemma forallb_negb (acc : id -> bool) l : Forall (fun x => acc x = false) l -> forallb (fun x => negb (acc x)) l = true.
Proof. intros H. apply forallb_forall. rewrite Forall_forall in H. intros x Hx. rewrite (H x Hx). reflexivity. Qed.

Lemma NoDup_app_l {A} (a b : list A) : NoDup (a ++ b) -> NoDup a.
Proof.
  induction a as [|x a IH]; cbn [app]; intros H; [constructor|]. inversion H as [|? ? Hn Hr]; subst.
  constructor; [intros Hin; apply Hn; apply in_or_app; left; exact Hin|apply IH; exact Hr].
Qed.

Section Dial.
  Variables (ids sh : list id) (working : option id) (tcp : nat -> bool) (acc : id -> bool).
  Hypothesis ids_nodup : NoDup ids.
  Hypothesis sh_perm : Permutation ids sh.

  Notation r := (dial sh working tcp acc).
  Notation order := (prioritise sh working).

  Lemma order_perm : Permutation order (pool ids working).
  Proof. apply prioritise_pool. exact sh_perm. Qed.
  Lemma order_nodup : NoDup order.
  Proof. eapply Permutation_NoDup; [apply Permutation_sym; apply order_perm|apply pool_nodup; exact ids_nodup]. Qed.

  Lemma dial_unfold : exists tr o, attempt_loop order 0 tcp acc = (tr, o) /\
    attempts r = tr /\ result r = o /\ working' r = match o with Connected i => Some i | _ => working end.
  Proof.
    unfold dial. destruct (attempt_loop _ _ _ _) as [tr o] eqn:L.
    exists tr, o. cbn. auto.
  Qed.

  Lemma attempts_prefix : exists rest, order = attempts r ++ rest.
  Proof.
    destruct dial_unfold as (tr & o & L & -> & _ & _). apply loop_spec in L. destruct o as [i|j| |].
    - destruct L as (b & rest & -> & -> & _). exists rest. rewrite <- app_assoc. reflexivity.
    - destruct L as (rest & -> & _). exists rest. reflexivity.
    - destruct L as [-> _]. exists []. rewrite app_nil_r. reflexivity.
    - destruct L as [-> _]. exists []. rewrite app_nil_r. reflexivity.
  Qed.

  (* tries each id at most once, and only configured ids or the working one *)
  Lemma dial_once : NoDup (attempts r) /\ incl (attempts r) (pool ids working).
  Proof.
    destruct attempts_prefix as (rest & E). pose proof order_nodup as N. rewrite E in N. split.
    - eapply NoDup_app_l; eauto.
    - intros x Hx. eapply Permutation_in; [apply order_perm|]. rewrite E. apply in_or_app. left. exact Hx.
  Qed.

  (* starts with the most recently working id *)
  Lemma dial_first w : working = Some w -> attempts r = [] \/ hd_error (attempts r) = Some w.
  Proof.
    intros Hw. destruct attempts_prefix as (rest & E).
    destruct (prioritise_spec sh w) as [_ H]. rewrite Hw in E. rewrite Hw. rewrite E in H.
    destruct (attempts (dial sh (Some w) tcp acc)) as [|x t]; [left; reflexivity|right; exact H].
  Qed.

  (* returns the first connection whose handshake succeeds and records that id *)
  Lemma dial_connected i : result r = Connected i ->
    exists before, attempts r = before ++ [i] /\ acc i = true /\ Forall (fun x => acc x = false) before /\
                   working' r = Some i.
  Proof.
    destruct dial_unfold as (tr & o & L & -> & -> & W). intros ->. apply loop_spec in L.
    destruct L as (b & rest & -> & _ & Hi & Hb & _). exists b. auto.
  Qed.

  (* a TCP dial error ends the call at once; the working id is unchanged *)
  Lemma dial_tcp_error j : result r = TcpError j ->
    tcp j = false /\ length (attempts r) = j /\ Forall (fun x => acc x = false) (attempts r) /\ working' r = working.
  Proof.
    destruct dial_unfold as (tr & o & L & -> & -> & W). intros ->. apply loop_spec in L.
    destruct L as (rest & _ & _ & Hb & -> & Hf). auto.
  Qed.

  (* when nothing is accepted every id of the pool was tried exactly once *)
  Lemma dial_exhausted : result r = AllFailed \/ result r = NoIds ->
    Permutation (attempts r) (pool ids working) /\ Forall (fun x => acc x = false) (attempts r) /\ working' r = working.
  Proof.
    destruct dial_unfold as (tr & o & L & -> & -> & W). apply loop_spec in L.
    intros [->| ->]; destruct L as [E Hb]; (split; [rewrite <- E; apply order_perm|auto]).
  Qed.

  Lemma rev_snoc {A} (b : list A) i : rev (b ++ [i]) = i :: rev b.
  Proof. rewrite rev_app_distr. reflexivity. Qed.

  (* every Dial of the model passes the observer's check *)
  Lemma dial_trace_ok : trace_ok ids working acc (attempts r) (conn_of (result r)) (is_tcp_err (result r)) = true.
  Proof.
    destruct dial_once as [N I]. unfold trace_ok.
    rewrite (nodupb_spec _ N), (subsetb_spec _ _ I). cbn [andb].
    assert (F : match working with Some w => match attempts r with x :: _ => x =? w | [] => true end | None => true end = true).
    { pose proof dial_first as DF. destruct working as [w|]; [|reflexivity]. destruct (DF w eq_refl) as [->|H]; [reflexivity|].
      destruct (attempts (dial sh (Some w) tcp acc)); [reflexivity|]. cbn in H. injection H as ->. apply N.eqb_refl. }
    replace (match working with Some w => match attempts r with [] => true | x :: _ => x =? w end | None => true end) with true
      by (symmetry; destruct working; [exact F|reflexivity]).
    cbn [andb].
    destruct (result r) as [i|j| |] eqn:R; cbn [conn_of is_tcp_err negb andb orb].
    - destruct (dial_connected i R) as (b & -> & Hi & Hb & _). rewrite rev_snoc, N.eqb_refl, Hi. cbn [andb].
      apply forallb_negb. apply Forall_rev. exact Hb.
    - destruct (dial_tcp_error j R) as (_ & _ & Hb & _). rewrite (forallb_negb _ _ Hb). reflexivity.
    - destruct (dial_exhausted (or_introl R)) as (P & Hb & _). rewrite (forallb_negb _ _ Hb). cbn [andb].
      rewrite (Permutation_length P). apply Nat.eqb_refl.
    - destruct (dial_exhausted (or_intror R)) as (P & Hb & _). rewrite (forallb_negb _ _ Hb). cbn [andb].
      rewrite (Permutation_length P). apply Nat.eqb_refl.
  Qed.
End Dial.

From UV Require Import Base.Common Model.Roller.
From Coq Require Import Permutation ZifyBool ZifyNat ZifyN.

(* ---- ids ---- *)
Lemma oN_eqb_eq a b : oN_eqb a b = true <-> a = b.
Proof.
  destruct a as [x|], b as [y|]; cbn [oN_eqb]; try (split; congruence).
  rewrite N.eqb_eq. split; congruence.
Qed.

Lemma hid_eqb_eq a b : hid_eqb a b = true <-> a = b.
Proof.
  destruct a as [ra ba sa], b as [rb bb sb]. unfold hid_eqb. cbn [rnd base seed].
  rewrite !andb_true_iff, eqb_true_iff, N.eqb_eq, oN_eqb_eq. split.
  - intros [[-> ->] ->]. reflexivity.
  - intros [= -> -> ->]. auto.
Qed.
Lemma hid_eqb_refl a : hid_eqb a a = true.
Proof. apply hid_eqb_eq. reflexivity. Qed.
Lemma hid_eqb_neq a b : hid_eqb a b = false <-> a <> b.
Proof.
  split.
  - intros E H. apply hid_eqb_eq in H. congruence.
  - intros H. apply not_true_is_false. intros E. apply hid_eqb_eq in E. contradiction.
Qed.

Lemma memb_In w l : memb w l = true <-> In w l.
Proof.
  unfold memb. rewrite existsb_exists. split.
  - intros (x & Hin & E). apply hid_eqb_eq in E. subst. exact Hin.
  - intros H. exists w. split; [exact H|apply hid_eqb_refl].
Qed.

(* the id a connection ends up with always has its seed (if randomized), and
   an id that has its seed is kept as it is *)
Lemma conn_id_fixed gen k x : unseeded (conn_id gen k x) = false.
Proof.
  unfold conn_id. destruct (unseeded x) eqn:U; [|exact U].
  unfold unseeded. cbn [rnd seed]. reflexivity.
Qed.
Lemma conn_id_idem gen k x : unseeded x = false -> conn_id gen k x = x.
Proof. intros U. unfold conn_id. rewrite U. reflexivity. Qed.

(* ---- prioritise ---- *)
Lemma index_of_None w l : index_of w l = None -> ~ In w l.
Proof.
  induction l as [|x r IH]; cbn [index_of In]; [tauto|].
  destruct (hid_eqb x w) eqn:E; [discriminate|]. destruct (index_of w r); [discriminate|].
  intros _ [H|H]; [apply hid_eqb_neq in E; congruence|tauto].
Qed.

Lemma index_of_Some_In w l i : index_of w l = Some i -> In w l.
Proof.
  revert i; induction l as [|x r IH]; intros i; cbn [index_of In]; [discriminate|].
  destruct (hid_eqb x w) eqn:E; [apply hid_eqb_eq in E; auto|].
  destruct (index_of w r) as [j|]; [|discriminate]. intros _. right. eapply IH; eauto.
Qed.

(* swapping the found element with the head is a permutation that puts w first *)
Lemma swap_perm w h t k : index_of w t = Some k -> Permutation (h :: t) (w :: Roller.set_nth k h t).
Proof.
  revert k; induction t as [|x r IH]; intros k; cbn [index_of]; [discriminate|].
  destruct (hid_eqb x w) eqn:E.
  - intros [= <-]. apply hid_eqb_eq in E. subst x. cbn [Roller.set_nth]. apply perm_swap.
  - destruct (index_of w r) as [j|] eqn:I; [|discriminate]. intros [= <-]. cbn [Roller.set_nth].
    specialize (IH j eq_refl).
    eapply perm_trans; [apply perm_swap|]. eapply perm_trans; [apply perm_skip; exact IH|]. apply perm_swap.
Qed.

Lemma prioritise_spec sh w :
  Permutation (prioritise sh (Some w)) (if memb w sh then sh else w :: sh) /\
  hd_error (prioritise sh (Some w)) = Some w.
Proof.
  unfold prioritise. destruct (index_of w sh) as [i|] eqn:I.
  - assert (Hin : In w sh) by (eapply index_of_Some_In; eauto).
    replace (memb w sh) with true by (symmetry; apply memb_In; exact Hin).
    destruct sh as [|h t]; [destruct Hin|]. cbn [index_of] in I. cbn [hd].
    destruct (hid_eqb h w) eqn:E.
    + apply hid_eqb_eq in E. subst h. injection I as <-. cbn [Roller.set_nth]. split; [apply Permutation_refl|reflexivity].
    + destruct (index_of w t) as [j|] eqn:J; [|discriminate]. injection I as <-. cbn [Roller.set_nth].
      split; [|reflexivity]. apply Permutation_sym. apply swap_perm. exact J.
  - apply index_of_None in I.
    replace (memb w sh) with false; [split; [apply Permutation_refl|reflexivity]|].
    symmetry. apply not_true_is_false. intros H. apply memb_In in H. contradiction.
Qed.

Lemma memb_perm w a b : Permutation a b -> memb w a = memb w b.
Proof.
  intros P. destruct (memb w b) eqn:E.
  - apply memb_In. apply memb_In in E. eapply Permutation_in; [apply Permutation_sym; exact P|exact E].
  - apply not_true_is_false. intros H. apply memb_In in H.
    assert (H0 : In w b) by (eapply Permutation_in; eauto). apply memb_In in H0. congruence.
Qed.

Lemma prioritise_pool ids sh working : Permutation ids sh ->
  Permutation (prioritise sh working) (pool ids working).
Proof.
  intros P. destruct working as [w|]; [|cbn; apply Permutation_sym; exact P].
  destruct (prioritise_spec sh w) as [A _]. unfold pool.
  rewrite (memb_perm w ids sh P). eapply perm_trans; [exact A|].
  destruct (memb w sh); [apply Permutation_sym; exact P|apply perm_skip; apply Permutation_sym; exact P].
Qed.

Lemma pool_nodup ids working : NoDup ids -> NoDup (pool ids working).
Proof.
  intros H. destruct working as [w|]; [|exact H]. unfold pool.
  destruct (memb w ids) eqn:E; [exact H|]. constructor; [|exact H].
  intros Hin. apply memb_In in Hin. congruence.
Qed.

(* ---- one handshake: the deadline is relative to the attempt's own start ---- *)
Lemma handshake_outcome now T b : fst (handshake now T b) = hs_outcome T b.
Proof.
  unfold handshake, hs_outcome. destruct b as [d|d|]; [| |reflexivity].
  - destruct (N.ltb_spec (now + d) (now + T)) as [H|H], (N.ltb_spec d T) as [H'|H']; try reflexivity; lia.
  - destruct (N.ltb_spec (now + d) (now + T)) as [H|H], (N.ltb_spec d T) as [H'|H']; try reflexivity; lia.
Qed.

Definition failed (a : hid * hsres) : Prop := snd a <> HsOk.

(* ---- one TCP dial: the timeout is relative to the dial's own start ---- *)
Lemma tcp_dial_outcome now Dt b : fst (tcp_dial now Dt b) = tcp_connects Dt b.
Proof.
  unfold tcp_dial, tcp_connects. destruct b as [d|]; [|reflexivity].
  destruct (N.ltb_spec (now + d) (now + Dt)) as [H|H], (N.ltb_spec d Dt) as [H'|H']; try reflexivity; lia.
Qed.

Definition tcp_wait (Dt : N) (b : tcp_beh) : N := match b with Connects _ => Dt | Refused => 0 end.

Lemma tcp_dial_time now Dt b ok t1 : tcp_dial now Dt b = (ok, t1) ->
  now <= t1 /\ (ok = false -> now + tcp_wait Dt b <= t1).
Proof.
  unfold tcp_dial, tcp_wait. destruct b as [d|].
  - destruct (N.ltb_spec (now + d) (now + Dt)) as [H|H]; intros [= <- <-]; split; try lia; discriminate.
  - intros [= <- <-]. split; lia.
Qed.

Lemma handshake_time now T b o t2 : handshake now T b = (o, t2) ->
  now <= t2 /\ (o = HsTimeout -> now + T <= t2).
Proof.
  unfold handshake. destruct b as [d|d|].
  - destruct (N.ltb_spec (now + d) (now + T)) as [H|H]; intros [= <- <-]; split; try lia; discriminate.
  - destruct (N.ltb_spec (now + d) (now + T)) as [H|H]; intros [= <- <-]; split; try lia; discriminate.
  - intros [= <- <-]. split; lia.
Qed.

(* ---- the attempt loop ---- *)
Section LoopP.
  Variables (tcpd : nat -> tcp_beh) (Dt : N) (gen : nat -> N) (T : N) (peer : hid -> peer_beh).
  Notation loop := (attempt_loop tcpd Dt gen T peer).
  Notation tcp := (fun k => tcp_connects Dt (tcpd k)).

  Definition loop_post (order : list hid) (k : nat) (now : N) (tr : list hid) (wi : list (hid * hsres))
             (o : outcome) (te : N) : Prop :=
    map fst wi = fps gen k tr /\
    Forall (fun a => snd a = hs_outcome T (peer (fst a))) wi /\
    match o with
    | Connected f => exists before rest x wb, tr = before ++ [x] /\ order = before ++ x :: rest /\
                     wi = wb ++ [(f, HsOk)] /\ Forall failed wb /\ unseeded f = false
    | TcpError j => exists rest, order = tr ++ rest /\ rest <> [] /\ Forall failed wi /\
                    j = (k + length tr)%nat /\ tcp j = false
    | AllFailed | NoIds => order = tr /\ Forall failed wi
    end /\
    now + T * n_timeouts wi + match o with TcpError j => tcp_wait Dt (tcpd j) | _ => 0 end <= te.

  Lemma loop_spec order : forall k now tr wi o te, loop order k now = (tr, wi, o, te) ->
    loop_post order k now tr wi o te.
  Proof.
    unfold loop_post.
    induction order as [|x r IH]; intros k now tr wi o te; cbn [attempt_loop].
    - intros [= <- <- <- <-]. cbn [map fps n_timeouts]. split; [reflexivity|]. split; [constructor|].
      split; [destruct (k =? 0)%nat; split; constructor|]. destruct (k =? 0)%nat; lia.
    - pose proof (tcp_dial_outcome now Dt (tcpd k)) as Tk.
      destruct (tcp_dial now Dt (tcpd k)) as [ok t1] eqn:TD. cbn [fst] in Tk.
      destruct (tcp_dial_time _ _ _ _ _ TD) as [Ht1 Ht1f].
      destruct ok.
      + pose proof (handshake_outcome t1 T (peer (conn_id gen k x))) as HO.
        destruct (handshake t1 T (peer (conn_id gen k x))) as [ho t2] eqn:HS. cbn [fst] in HO.
        destruct (handshake_time _ _ _ _ _ HS) as [Ht2 Ht2t].
        assert (REC : ho <> HsOk -> forall tr' wi' o' te', loop r (S k) t2 = (tr', wi', o', te') ->
                  (x :: tr', (conn_id gen k x, ho) :: wi', o', te') = (tr, wi, o, te) ->
                  map fst wi = fps gen k tr /\
                  Forall (fun a => snd a = hs_outcome T (peer (fst a))) wi /\
                  match o with
                  | Connected f => exists before rest x0 wb, tr = before ++ [x0] /\ x :: r = before ++ x0 :: rest /\
                                   wi = wb ++ [(f, HsOk)] /\ Forall failed wb /\ unseeded f = false
                  | TcpError j => exists rest, x :: r = tr ++ rest /\ rest <> [] /\ Forall failed wi /\
                                  j = (k + length tr)%nat /\ tcp j = false
                  | AllFailed | NoIds => x :: r = tr /\ Forall failed wi
                  end /\
                  now + T * n_timeouts wi + match o with TcpError j => tcp_wait Dt (tcpd j) | _ => 0 end <= te).
        { intros Hne tr' wi' o' te' L [= <- <- <- <-]. specialize (IH (S k) t2 tr' wi' o' te' L).
          destruct IH as (A & B & C & D). cbn [map fps fst]. split; [rewrite A; reflexivity|].
          split; [constructor; [cbn [fst snd]; exact HO|exact B]|].
          assert (Hf : failed (conn_id gen k x, ho)) by exact Hne.
          split.
          - destruct o' as [f|j| |].
            + destruct C as (b & rest & x0 & wb & -> & -> & -> & Hwb & Hu).
              exists (x :: b), rest, x0, ((conn_id gen k x, ho) :: wb). repeat split; auto.
            + destruct C as (rest & -> & Hne' & Hb & -> & Hfalse). exists rest. cbn [length app].
              assert (E : (S k + length tr' = k + S (length tr'))%nat) by lia.
              repeat split; auto; rewrite <- E; exact Hfalse.
            + destruct C as [-> Hb]. split; [reflexivity|constructor; auto].
            + destruct C as [-> Hb]. split; [reflexivity|constructor; auto].
          - cbn [n_timeouts snd]. rewrite N.mul_add_distr_l.
            destruct ho; [congruence| |specialize (Ht2t eq_refl)]; lia. }
        destruct ho.
        * intros [= <- <- <- <-]. cbn [map fps fst]. split; [reflexivity|].
          split; [constructor; [cbn [fst snd]; exact HO|constructor]|].
          split.
          -- exists [], r, x, []. cbn [app]. split; [reflexivity|]. split; [reflexivity|]. split; [reflexivity|].
             split; [constructor|apply conn_id_fixed].
          -- cbn [n_timeouts snd]. lia.
        * destruct (loop r (S k) t2) as [[[tr' wi'] o'] te'] eqn:L. intros E.
          eapply REC; [discriminate|reflexivity|exact E].
        * destruct (loop r (S k) t2) as [[[tr' wi'] o'] te'] eqn:L. intros E.
          eapply REC; [discriminate|reflexivity|exact E].
      + intros [= <- <- <- <-]. cbn [map fps n_timeouts]. split; [reflexivity|]. split; [constructor|].
        split.
        * exists (x :: r). cbn [app length]. rewrite Nat.add_0_r.
          split; [reflexivity|]. split; [discriminate|]. split; [constructor|]. split; [reflexivity|symmetry; exact Tk].
        * specialize (Ht1f eq_refl). lia.
  Qed.
End LoopP.

Lemma nodupb_spec l : NoDup l -> nodupb l = true.
Proof.
  induction 1 as [|x l Hn Hl IH]; cbn [nodupb]; [reflexivity|]. rewrite IH, andb_true_r.
  apply negb_true_iff. apply not_true_is_false. intros H. apply memb_In in H. contradiction.
Qed.
Lemma subsetb_spec a b : incl a b -> subsetb a b = true.
Proof.
  intros H. unfold subsetb. apply forallb_forall. intros x Hx. apply memb_In. apply H. exact Hx.
Qed.

Lemma NoDup_app_l {A} (a b : list A) : NoDup (a ++ b) -> NoDup a.
Proof.
  induction a as [|x a IH]; cbn [app]; intros H; [constructor|]. inversion H as [|? ? Hn Hr]; subst.
  constructor; [intros Hin; apply Hn; apply in_or_app; left; exact Hin|apply IH; exact Hr].
Qed.

Lemma failed_not_succeed T (peer : hid -> peer_beh) wi :
  Forall (fun a => snd a = hs_outcome T (peer (fst a))) wi -> Forall failed wi ->
  Forall (fun a => would_succeed T (peer (fst a)) = false) wi.
Proof.
  intros B F. rewrite Forall_forall in *. intros a Ha. specialize (B a Ha). specialize (F a Ha).
  unfold failed in F. unfold would_succeed. rewrite <- B. destruct (snd a); [congruence|reflexivity|reflexivity].
Qed.

Section Dial.
  Variables (ids sh : list hid) (working : option hid) (tcpd : nat -> tcp_beh) (Dt : N) (gen : nat -> N)
            (T : N) (peer : hid -> peer_beh) (now : N).
  Hypothesis ids_nodup : NoDup ids.
  Hypothesis sh_perm : Permutation ids sh.

  Notation r := (dial sh working tcpd Dt gen T peer now).
  Notation tcp := (fun k => tcp_connects Dt (tcpd k)).
  Notation order := (prioritise sh working).

  Lemma order_perm : Permutation order (pool ids working).
  Proof. apply prioritise_pool. exact sh_perm. Qed.
  Lemma order_nodup : NoDup order.
  Proof. eapply Permutation_NoDup; [apply Permutation_sym; apply order_perm|apply pool_nodup; exact ids_nodup]. Qed.

  Lemma dial_unfold : exists tr wi o te, attempt_loop tcpd Dt gen T peer order 0 now = (tr, wi, o, te) /\
    tried r = tr /\ wire r = wi /\ result r = o /\
    working' r = match o with Connected i => Some i | _ => working end /\ t_end r = te.
  Proof.
    unfold dial. destruct (attempt_loop _ _ _ _ _ _ _ _) as [[[tr wi] o] te] eqn:L.
    exists tr, wi, o, te. cbn. auto 10.
  Qed.

  Lemma tried_prefix : exists rest, order = tried r ++ rest.
  Proof.
    destruct dial_unfold as (tr & wi & o & te & L & -> & _ & _ & _ & _). apply loop_spec in L.
    destruct L as (_ & _ & C & _). destruct o as [i|j| |].
    - destruct C as (b & rest & x & wb & -> & -> & _). exists rest. rewrite <- app_assoc. reflexivity.
    - destruct C as (rest & -> & _). exists rest. reflexivity.
    - destruct C as [-> _]. exists []. rewrite app_nil_r. reflexivity.
    - destruct C as [-> _]. exists []. rewrite app_nil_r. reflexivity.
  Qed.

  (* the fingerprints on the wire are those of the configured ids tried, in order *)
  Lemma dial_wire : map fst (wire r) = fps gen 0 (tried r).
  Proof.
    destruct dial_unfold as (tr & wi & o & te & L & -> & -> & _ & _ & _). apply loop_spec in L. unfold loop_post in L. tauto.
  Qed.

  (* every attempt ends the way its own fingerprint's handshake ends within the timeout:
     time spent in earlier attempts does not count against later ones *)
  Lemma dial_outcomes : Forall (fun a => snd a = hs_outcome T (peer (fst a))) (wire r).
  Proof.
    destruct dial_unfold as (tr & wi & o & te & L & _ & -> & _ & _ & _). apply loop_spec in L. unfold loop_post in L. tauto.
  Qed.

  (* tries each id at most once, and only configured ids or the working one *)
  Lemma dial_once : NoDup (tried r) /\ incl (tried r) (pool ids working) /\
                    map fst (wire r) = fps gen 0 (tried r).
  Proof.
    destruct tried_prefix as (rest & E). pose proof order_nodup as N. rewrite E in N. split; [|split].
    - eapply NoDup_app_l; eauto.
    - intros x Hx. eapply Permutation_in; [apply order_perm|]. rewrite E. apply in_or_app. left. exact Hx.
    - apply dial_wire.
  Qed.

  (* starts with the most recently working id *)
  Lemma dial_first w : working = Some w ->
    tried r = [] \/ (hd_error (tried r) = Some w /\ hd_error (map fst (wire r)) = Some (conn_id gen 0 w)).
  Proof.
    intros Hw. destruct tried_prefix as (rest & E). pose proof dial_wire as W.
    destruct (prioritise_spec sh w) as [_ H]. rewrite Hw in E, W. rewrite Hw. rewrite E in H.
    destruct (tried (dial sh (Some w) tcpd Dt gen T peer now)) as [|x t]; [left; reflexivity|right].
    cbn [app hd_error] in H. injection H as ->. split; [reflexivity|]. rewrite W. reflexivity.
  Qed.

  (* returns the first connection whose handshake succeeds and records that connection's id *)
  Lemma dial_connected f : result r = Connected f ->
    exists before, wire r = before ++ [(f, HsOk)] /\ would_succeed T (peer f) = true /\
                   Forall (fun a => would_succeed T (peer (fst a)) = false) before /\
                   working' r = Some f /\ unseeded f = false.
  Proof.
    destruct dial_unfold as (tr & wi & o & te & L & _ & -> & -> & W & _). intros ->. apply loop_spec in L.
    destruct L as (_ & B & (b & rest & x & wb & _ & _ & -> & Hwb & Hu) & _). exists wb.
    apply Forall_app in B. destruct B as [B1 B2]. inversion B2 as [|? ? Hl _]; subst. cbn [fst snd] in Hl.
    repeat split; auto.
    - unfold would_succeed. rewrite <- Hl. reflexivity.
    - eapply failed_not_succeed; eauto.
  Qed.

  (* a TCP dial error ends the call at once; the working id is unchanged *)
  Lemma dial_tcp_error j : result r = TcpError j ->
    tcp j = false /\ length (tried r) = j /\
    Forall (fun a => would_succeed T (peer (fst a)) = false) (wire r) /\ working' r = working.
  Proof.
    destruct dial_unfold as (tr & wi & o & te & L & -> & -> & -> & W & _). intros ->. apply loop_spec in L.
    destruct L as (_ & B & (rest & _ & _ & Hb & -> & Hf) & _). repeat split; auto.
    eapply failed_not_succeed; eauto.
  Qed.

  (* when no handshake succeeds every id of the pool was tried exactly once *)
  Lemma dial_exhausted : result r = AllFailed \/ result r = NoIds ->
    Permutation (tried r) (pool ids working) /\
    Forall (fun a => would_succeed T (peer (fst a)) = false) (wire r) /\ working' r = working.
  Proof.
    destruct dial_unfold as (tr & wi & o & te & L & -> & -> & -> & W & _). apply loop_spec in L.
    destruct L as (_ & B & C & _).
    intros [->| ->]; destruct C as [E Hb]; (split; [rewrite <- E; apply order_perm|]);
      (split; [eapply failed_not_succeed; eauto|exact W]).
  Qed.

  (* a TCP dial error against a peer that is listening means: that dial waited its whole TcpDialTimeout,
     after every timed-out handshake waited its whole TlsHandshakeTimeout *)
  Lemma dial_tcp_error_time j : result r = TcpError j ->
    now + T * n_timeouts (wire r) + tcp_wait Dt (tcpd j) <= t_end r.
  Proof.
    destruct dial_unfold as (tr & wi & o & te & L & _ & -> & -> & _ & ->). intros ->. apply loop_spec in L.
    destruct L as (_ & _ & _ & D). exact D.
  Qed.

  Lemma n_timeouts_obs (wi : list (hid * hsres)) :
    Forall (fun a => snd a = hs_outcome T (peer (fst a))) wi ->
    N.of_nat (length (filter (fun a : hid * peer_beh => timed_out T (snd a))
                             (map (fun a : hid * hsres => (fst a, peer (fst a))) wi))) = n_timeouts wi.
  Proof.
    induction 1 as [|a wi Ha Hwi IH]; [reflexivity|]. cbn [map filter n_timeouts snd fst].
    unfold timed_out at 1. rewrite <- Ha. destruct (snd a); cbn [length]; lia.
  Qed.

  (* ... and passes the observer's duration check when the peer is listening all the time *)
  Lemma dial_time_ok : (forall k, tcpd k <> Refused) ->
    time_ok T Dt (map (fun a : hid * hsres => (fst a, peer (fst a))) (wire r)) (is_tcp_err (result r)) true (t_end r - now) = true.
  Proof.
    intros Hl. unfold time_ok. destruct (result r) as [i|j| |] eqn:R; cbn [is_tcp_err andb]; try reflexivity.
    pose proof (dial_tcp_error_time j R) as D. rewrite (n_timeouts_obs _ dial_outcomes).
    specialize (Hl j). unfold tcp_wait in D. destruct (tcpd j); [|congruence]. apply N.leb_le. lia.
  Qed.
  Lemma rev_snoc {A} (b : list A) i : rev (b ++ [i]) = i :: rev b.
  Proof. rewrite rev_app_distr. reflexivity. Qed.

  (* ---- the observer's check ---- *)
  (* generated seeds do not collide with a seed that is already configured/remembered *)
  Hypothesis gen_fresh : forall k y, In y (pool ids working) -> seed y <> Some (gen k).

  Lemma attr_conn_id k x : In x (pool ids working) -> attr (pool ids working) (conn_id gen k x) = x.
  Proof.
    intros Hin. unfold conn_id, attr. destruct (unseeded x) eqn:U.
    - destruct (memb _ _) eqn:M.
      + apply memb_In in M. exfalso. eapply gen_fresh; [exact M|]. reflexivity.
      + unfold unseed. cbn [rnd base]. destruct x as [rx bx sx]. unfold unseeded in U. cbn [rnd seed base] in *.
        destruct rx; [|discriminate]. destruct sx; [discriminate|]. reflexivity.
    - replace (memb x (pool ids working)) with true; [reflexivity|]. symmetry. apply memb_In. exact Hin.
  Qed.

  Lemma attr_fps l : forall k, incl l (pool ids working) -> map (attr (pool ids working)) (fps gen k l) = l.
  Proof.
    induction l as [|x l IH]; intros k I; cbn [fps map]; [reflexivity|].
    rewrite attr_conn_id by (apply I; left; reflexivity). rewrite IH; [reflexivity|].
    intros y Hy. apply I. right. exact Hy.
  Qed.

  Lemma fps_fixed l : forall k, forallb (fun f => negb (unseeded f)) (fps gen k l) = true.
  Proof.
    induction l as [|x l IH]; intros k; cbn [fps forallb]; [reflexivity|]. rewrite conn_id_fixed, IH. reflexivity.
  Qed.

  Notation obs := (map (fun a : hid * hsres => (fst a, peer (fst a))) (wire r)).

  Lemma forallb_obs (l : list (hid * hsres)) :
    Forall (fun a => would_succeed T (peer (fst a)) = false) l ->
    forallb (fun a : hid * peer_beh => negb (would_succeed T (snd a)))
            (map (fun a : hid * hsres => (fst a, peer (fst a))) l) = true.
  Proof.
    intros H. apply forallb_forall. intros a Ha. apply in_map_iff in Ha. destruct Ha as (a0 & <- & Ha0).
    rewrite Forall_forall in H. cbn [snd]. rewrite (H a0 Ha0). reflexivity.
  Qed.

  (* every Dial of the model passes the observer's check *)
  Lemma dial_trace_ok : trace_ok ids working T obs (conn_of (result r)) (is_tcp_err (result r)) = true.
  Proof.
    destruct dial_once as (N & I & W). unfold trace_ok.
    assert (CFG : map (fun a : hid * peer_beh => attr (pool ids working) (fst a)) obs = tried r).
    { rewrite map_map. cbn [fst]. rewrite <- (map_map fst (attr (pool ids working))). rewrite W. apply attr_fps. exact I. }
    rewrite CFG.
    assert (FX : forallb (fun a : hid * peer_beh => negb (unseeded (fst a))) obs = true).
    { rewrite forallb_forall. intros a Ha. apply in_map_iff in Ha. destruct Ha as (a0 & <- & Ha0). cbn [fst].
      pose proof (fps_fixed (tried r) 0) as F. rewrite <- W in F. rewrite forallb_forall in F.
      apply F. apply in_map. exact Ha0. }
    rewrite FX, (nodupb_spec _ N), (subsetb_spec _ _ I). cbn [andb].
    assert (F : match working with Some w => match tried r with x :: _ => hid_eqb x w | [] => true end | None => true end = true).
    { pose proof dial_first as DF. destruct working as [w|]; [|reflexivity]. destruct (DF w eq_refl) as [->|[H _]]; [reflexivity|].
      destruct (tried (dial sh (Some w) tcpd Dt gen T peer now)); [reflexivity|]. cbn in H. injection H as ->. apply hid_eqb_refl. }
    replace (match working with Some w => match tried r with [] => true | x :: _ => hid_eqb x w end | None => true end) with true
      by (symmetry; destruct working; [exact F|reflexivity]).
    cbn [andb].
    destruct (result r) as [i|j| |] eqn:R; cbn [conn_of is_tcp_err negb andb orb].
    - destruct (dial_connected i R) as (b & -> & Hi & Hb & _). rewrite map_app. cbn [map fst]. rewrite rev_snoc.
      cbn [fst snd]. rewrite hid_eqb_refl, Hi. cbn [andb]. rewrite <- map_rev.
      apply forallb_obs. apply Forall_rev. exact Hb.
    - destruct (dial_tcp_error j R) as (_ & _ & Hb & _). rewrite (forallb_obs _ Hb). reflexivity.
    - destruct (dial_exhausted (or_introl R)) as (P & Hb & _). rewrite (forallb_obs _ Hb). cbn [andb].
      rewrite map_length. rewrite <- (map_length fst (wire r)), W.
      assert (L : forall l k, length (fps gen k l) = length l) by (induction l; intros; cbn [fps length]; auto).
      rewrite L, (Permutation_length P). apply Nat.eqb_refl.
    - destruct (dial_exhausted (or_intror R)) as (P & Hb & _). rewrite (forallb_obs _ Hb). cbn [andb].
      rewrite map_length. rewrite <- (map_length fst (wire r)), W.
      assert (L : forall l k, length (fps gen k l) = length l) by (induction l; intros; cbn [fps length]; auto).
      rewrite L, (Permutation_length P). apply Nat.eqb_refl.
  Qed.

End Dial.


(* The next Dial starts with the fingerprint that worked in this one: the recorded id is the
   connection's (seed included), and an id that has its seed shows the same fingerprint again. *)
Lemma dial_next_first sh working tcpd Dt gen T peer now f sh2 tcpd2 Dt2 gen2 T2 peer2 now2 :
  result (dial sh working tcpd Dt gen T peer now) = Connected f ->
  let r2 := dial sh2 (working' (dial sh working tcpd Dt gen T peer now)) tcpd2 Dt2 gen2 T2 peer2 now2 in
  tried r2 = [] \/ hd_error (map fst (wire r2)) = Some f.
Proof.
  intros R. destruct (dial_connected sh working tcpd Dt gen T peer now f R) as (_ & _ & _ & _ & W & U).
  rewrite W. cbn zeta. destruct (dial_first sh2 (Some f) tcpd2 Dt2 gen2 T2 peer2 now2 f eq_refl) as [H|[_ H]]; [left; exact H|right].
  rewrite H. rewrite conn_id_idem by exact U. reflexivity.
Qed.

(* C15: the server's extractRawExtensions reads back what MarshalClientHelloNoECH wrote. *)
From UV Require Import Base.Common Model.Ech Proofs.EchP Proofs.EchOuterP.
From Coq Require Import ZifyBool ZifyNat ZifyN.

(* ------------------------------------------------------------------ *)
(* the server's extractRawExtensions reads back what                    *)
(* MarshalClientHelloNoECH wrote                                        *)
(* ------------------------------------------------------------------ *)
Section ExtractProofs.
  Variable hostname_in_sni : bytes -> bytes.
  Variable padf : N -> N * bool.

  Definition uext_fits (U : N) (e : uext) : Prop :=
    match e with
    | UExt x => ext_ok x
    | UEch x => ext_ok x
    | USni n => len (hostname_in_sni n) + 5 < 65536
    | UKeyShare ks => fits16 (ks_body ks) = true
    | UPad => fst (padf U) < 65536
    end.

  Lemma gext_wire_ok x : ext_ok x -> gext_wire x = ext_wire x.
  Proof.
    intros [_ Hb]. unfold gext_wire, ext_wire, p16lp, u16, fits16 in *. rewrite N.mod_small by lia. reflexivity.
  Qed.

  Lemma one_wire U e : uext_fits U e ->
    (if is_pad e then pad_wire padf U else uext_wire hostname_in_sni e) =
      exts_wire (wire_one hostname_in_sni padf U e) /\
    Forall ext_ok (wire_one hostname_in_sni padf U e).
  Proof.
    destruct e as [x | n | x | | ks]; cbn [uext_fits is_pad uext_wire wire_one]; intros Hf.
    - split; [|constructor; [exact Hf | constructor]]. cbn [exts_wire flat_map]. rewrite app_nil_r. apply gext_wire_ok, Hf.
    - unfold usni_wire, usni_exts. destruct (len (hostname_in_sni n) =? 0) eqn:E; [split; [reflexivity|constructor]|].
      set (hn := hostname_in_sni n) in *.
      assert (L1 : len (0 :: p16lp hn) = len hn + 3) by (unfold p16lp; rewrite len_cons, len_app, len_be16; lia).
      assert (L2 : len (sni_body hn) = len hn + 5) by (unfold sni_body, p16lp at 1; rewrite len_app, len_be16, L1; lia).
      split.
      + cbn [exts_wire flat_map]. rewrite app_nil_r. unfold ext_wire, sni_ext. cbn [eid ebody].
        unfold p16lp at 1. rewrite L2. unfold sni_body, p16lp at 1. rewrite L1.
        unfold u16. rewrite !N.mod_small by lia. unfold p16lp. cbn [app]. rewrite <- ?app_assoc. cbn [app]. reflexivity.
      + constructor; [|constructor]. split; cbn [eid ebody sni_ext]; [unfold EXT_SNI; lia | unfold fits16; rewrite L2; lia].
    - split; [|constructor; [exact Hf | constructor]]. cbn [exts_wire flat_map]. rewrite app_nil_r. apply gext_wire_ok, Hf.
    - unfold pad_wire, pad_exts. destruct (padf U) as [pl will]. cbn [fst] in Hf. destruct will; [|split; [reflexivity|constructor]].
      assert (Lz : len (zeros (N.to_nat pl)) = pl) by (rewrite len_zeros; lia).
      split.
      + cbn [exts_wire flat_map]. rewrite app_nil_r. unfold ext_wire, p16lp. cbn [eid ebody]. rewrite Lz.
        unfold u16. rewrite N.mod_small by lia. reflexivity.
      + constructor; [|constructor]. split; cbn [eid ebody]; [unfold EXT_PADDING; lia | unfold fits16; rewrite Lz; lia].
    - assert (Hk : ext_ok (ks_ext ks)) by (split; [cbn [eid ks_ext]; unfold EXT_KEY_SHARE; lia | exact Hf]).
      split; [|constructor; [exact Hk | constructor]]. cbn [exts_wire flat_map]. rewrite app_nil_r. apply gext_wire_ok, Hk.
  Qed.

  Lemma all_wire U l : Forall (uext_fits U) l ->
    flat_map (fun e => if is_pad e then pad_wire padf U else uext_wire hostname_in_sni e) l =
      exts_wire (flat_map (wire_one hostname_in_sni padf U) l) /\
    Forall ext_ok (flat_map (wire_one hostname_in_sni padf U) l).
  Proof.
    induction 1 as [|e l He Hl [IH1 IH2]]; [split; [reflexivity|constructor]|].
    destruct (one_wire U e He) as [E1 E2]. cbn [flat_map]. split.
    - rewrite exts_wire_app, <- E1, <- IH1. reflexivity.
    - apply Forall_app. split; assumption.
  Qed.

  Theorem extract_marshal_outer h exts out :
    marshal_outer hostname_in_sni padf h exts = Ok out ->
    len (uh_random h) = 32 -> len (uh_sid h) < 256 -> 2 * N.of_nat (length (uh_suites h)) < 65536 ->
    len (uh_comp h) < 256 -> exts <> [] ->
    Forall (uext_fits (unpadded_len hostname_in_sni h exts)) exts ->
    len (exts_bytes hostname_in_sni padf h exts) < 65536 ->
    extract_raw_extensions out = Ok (wire_exts hostname_in_sni padf h exts).
  Proof.
    intros H Hr Hs Hsu Hc Hne Hfit Hel. unfold marshal_outer in H.
    destruct (1 <? count_pad exts)%nat; [discriminate|].
    assert (Hl : (0 <? length exts)%nat = true) by (destruct exts; [contradiction | reflexivity]).
    rewrite Hl in H. cbv zeta in H.
    match type of H with (if ?c then _ else _) = _ => destruct c; [|discriminate] end.
    apply ok_inj in H. subst out.
    destruct (all_wire _ _ Hfit) as [Ew Eok]. fold (exts_bytes hostname_in_sni padf h exts) in Ew.
    set (eb := exts_bytes hostname_in_sni padf h exts) in *.
    set (HL := header_length h + (2 + len eb)).
    unfold extract_raw_extensions.
    (* header, version, random *)
    replace ([1] ++ be24 HL ++ be16 (uh_vers h) ++ uh_random h ++ [u8 (len (uh_sid h))] ++ uh_sid h ++
             be16 (u16 (2 * N.of_nat (length (uh_suites h)))) ++ suites_bytes (uh_suites h) ++
             [u8 (len (uh_comp h))] ++ uh_comp h ++ be16 (u16 (len eb)) ++ eb)
      with (([1] ++ be24 HL ++ be16 (uh_vers h) ++ uh_random h) ++ [u8 (len (uh_sid h))] ++ uh_sid h ++
             be16 (u16 (2 * N.of_nat (length (uh_suites h)))) ++ suites_bytes (uh_suites h) ++
             [u8 (len (uh_comp h))] ++ uh_comp h ++ be16 (u16 (len eb)) ++ eb)
      by (rewrite <- !app_assoc; reflexivity).
    unfold skip_n. rewrite rd_bytes_app_n.
    2:{ rewrite !len_app, len_be16, Hr. reflexivity. }
    (* session id *)
    unfold skip_u8lp, rd_u8lp. cbn [app rd_u8]. unfold u8. rewrite (N.mod_small (len (uh_sid h))) by lia.
    rewrite rd_bytes_app.
    (* cipher suites *)
    unfold skip_u16lp, rd_u16lp. unfold u16. rewrite (N.mod_small (2 * N.of_nat (length (uh_suites h)))) by lia.
    rewrite rd_u16_be16 by lia. rewrite rd_bytes_app_n by (unfold suites_bytes; rewrite len_flat_be16; reflexivity).
    (* compression methods *)
    cbn [app rd_u8]. rewrite (N.mod_small (len (uh_comp h))) by lia. rewrite rd_bytes_app.
    (* extensions *)
    rewrite (N.mod_small (len eb)) by lia. rewrite rd_u16_be16 by lia.
    rewrite <- (app_nil_r eb) at 2. rewrite rd_bytes_app.
    rewrite Ew. rewrite parse_ext_list_wire; [reflexivity | exact Eok | lia].
  Qed.
End ExtractProofs.

(* Proofs for Model/GoCH.v (C31, codec half): marshalMsg followed by unmarshal gives the field values back. *)
From Coq Require Import ZifyBool ZifyNat ZifyN.
From UV Require Import Base.Common Model.Public Model.GoCH.
Open Scope N_scope.

(* ---------- readers against builders ---------- *)
Lemma rd_bytes_app d r : rd_bytes (length d) (d ++ r) = Some (d, r).
Proof.
  unfold rd_bytes. rewrite app_length.
  destruct (Nat.ltb_spec (length d + length r) (length d)) as [H|H]; [lia|].
  rewrite firstn_app, skipn_app, firstn_all, skipn_all, Nat.sub_diag. cbn. now rewrite app_nil_r.
Qed.

Lemma u16_split x : x < 65536 -> (x / 256) mod 256 * 256 + x mod 256 = x.
Proof.
  intros H. assert (H1 : x / 256 < 256) by (apply N.div_lt_upper_bound; lia).
  rewrite (N.mod_small _ _ H1). pose proof (N.div_mod x 256 ltac:(lia)) as E. lia.
Qed.

Lemma rd_u16_enc x r : x < 65536 -> rd_u16 (enc_u16 x ++ r) = Some (x, r).
Proof. intros H. unfold enc_u16, rd_u16. cbn [app]. now rewrite u16_split. Qed.

Lemma u32_split x : x < 4294967296 ->
  (((x / 16777216) mod 256 * 256 + (x / 65536) mod 256) * 256 + (x / 256) mod 256) * 256 + x mod 256 = x.
Proof.
  intros H.
  pose proof (N.div_mod x 256 ltac:(lia)) as E0. pose proof (N.mod_lt x 256 ltac:(lia)) as L0.
  set (a := x / 256) in *.
  pose proof (N.div_mod a 256 ltac:(lia)) as E1. pose proof (N.mod_lt a 256 ltac:(lia)) as L1.
  assert (Ea : x / 65536 = a / 256) by (unfold a; rewrite N.div_div by lia; reflexivity).
  set (b := a / 256) in *.
  pose proof (N.div_mod b 256 ltac:(lia)) as E2. pose proof (N.mod_lt b 256 ltac:(lia)) as L2.
  assert (Eb : x / 16777216 = b / 256).
  { unfold b, a. rewrite !N.div_div by lia. reflexivity. }
  assert (Hc : b / 256 < 256).
  { rewrite <- Eb. apply N.div_lt_upper_bound; lia. }
  rewrite Eb, Ea. rewrite (N.mod_small (b / 256)) by lia. lia.
Qed.

Lemma rd_u32_enc x r : x < 4294967296 -> rd_u32 (enc_u32 x ++ r) = Some (x, r).
Proof. intros H. unfold enc_u32, rd_u32. cbn [app]. now rewrite u32_split. Qed.

Lemma len_to_nat d : N.to_nat (len d) = length d.
Proof. unfold len. apply Nat2N.id. Qed.

Lemma rd_u16lp_enc d b r : enc_u16lp d = Some b -> rd_u16lp (b ++ r) = Some (d, r).
Proof.
  unfold enc_u16lp. destruct (N.ltb_spec (len d) 65536) as [H|H]; [|discriminate].
  intros E. assert (b = enc_u16 (len d) ++ d) as -> by congruence. unfold rd_u16lp.
  rewrite <- app_assoc, (rd_u16_enc _ _ H). cbn [obind]. rewrite len_to_nat. apply rd_bytes_app.
Qed.
Lemma rd_u16lp_enc0 d b : enc_u16lp d = Some b -> rd_u16lp b = Some (d, []).
Proof. intros E. rewrite <- (app_nil_r b). now apply rd_u16lp_enc. Qed.
Lemma is_nil_enc_u16 x r : is_nil (enc_u16 x ++ r) = false. Proof. reflexivity. Qed.

Lemma rd_u8lp_enc d b r : enc_u8lp d = Some b -> rd_u8lp (b ++ r) = Some (d, r).
Proof.
  unfold enc_u8lp. destruct (N.ltb_spec (len d) 256) as [H|H]; [|discriminate].
  intros E. assert (b = len d :: d) as -> by congruence. unfold rd_u8lp. cbn [app rd_u8 obind]. rewrite len_to_nat. apply rd_bytes_app.
Qed.
Lemma rd_u8lp_enc0 d b : enc_u8lp d = Some b -> rd_u8lp b = Some (d, []).
Proof. intros E. rewrite <- (app_nil_r b). now apply rd_u8lp_enc. Qed.

Lemma enc_u16lp_cons d b : enc_u16lp d = Some b -> exists x y, b = x :: y :: d.
Proof. unfold enc_u16lp, enc_u16. destruct (len d <? 65536); [|discriminate]. intros E; injection E as <-. eauto. Qed.
Lemma enc_u8lp_cons d b : enc_u8lp d = Some b -> exists x, b = x :: d.
Proof. unfold enc_u8lp. destruct (len d <? 256); [|discriminate]. intros E; injection E as <-. eauto. Qed.

Definition u16_ok (x : N) : Prop := x < 65536.
Lemma rd_u16s_enc l : Forall u16_ok l -> rd_u16s (enc_u16s l) = Some l.
Proof.
  induction 1 as [|x l Hx _ IH]; [reflexivity|].
  unfold enc_u16s in *. cbn [flat_map]. unfold enc_u16 at 1. cbn [app rd_u16s]. rewrite IH. cbn [obind].
  now rewrite u16_split.
Qed.
Lemma enc_u16s_nonnil l : l <> [] -> is_nil (enc_u16s l) = false.
Proof. destruct l; [congruence|reflexivity]. Qed.

Lemma nonempty_u16s_enc l b r : l <> [] -> Forall u16_ok l -> enc_u16lp (enc_u16s l) = Some b ->
  nonempty_u16s (b ++ r) = Some (l, r).
Proof.
  intros Hn Hl E. unfold nonempty_u16s. rewrite (rd_u16lp_enc _ _ _ E). cbn [obind].
  rewrite (enc_u16s_nonnil _ Hn), (rd_u16s_enc _ Hl). reflexivity.
Qed.
Lemma nonempty_u16s_enc0 l b : l <> [] -> Forall u16_ok l -> enc_u16lp (enc_u16s l) = Some b ->
  nonempty_u16s b = Some (l, []).
Proof. intros Hn Hl E. rewrite <- (app_nil_r b). now apply nonempty_u16s_enc. Qed.

(* ---------- item loops ---------- *)
Lemma dec_alpn_nil fuel : dec_alpn fuel [] = Some []. Proof. destruct fuel; reflexivity. Qed.
Lemma dec_binders_nil fuel : dec_binders fuel [] = Some []. Proof. destruct fuel; reflexivity. Qed.
Lemma dec_shares_nil fuel : dec_shares fuel [] = Some []. Proof. destruct fuel; reflexivity. Qed.
Lemma dec_ids_nil fuel : dec_ids fuel [] = Some []. Proof. destruct fuel; reflexivity. Qed.
Lemma dec_sni_nil fuel cur : dec_sni_names fuel [] cur = Some cur. Proof. destruct fuel; reflexivity. Qed.

Lemma cat_opt_cons (x : option bytes) l bs : cat_opt (x :: l) = Some bs ->
  exists a b, x = Some a /\ cat_opt l = Some b /\ bs = a ++ b.
Proof.
  cbn [cat_opt]. destruct x as [a|]; [|discriminate]. cbn [obind]. destruct (cat_opt l) as [b|]; [|discriminate].
  cbn [obind]. intros E; injection E as <-. eauto.
Qed.

Definition nonnil {A} (l : list A) : Prop := l <> [].
Lemma is_nil_false {A} (l : list A) : l <> [] -> is_nil l = false.
Proof. destruct l; [congruence|reflexivity]. Qed.

Lemma dec_alpn_enc l : forall bs fuel, cat_opt (map enc_u8lp l) = Some bs -> Forall nonnil l ->
  (length bs <= fuel)%nat -> dec_alpn fuel bs = Some l.
Proof.
  induction l as [|p l IH]; intros bs fuel E Hl Hf.
  - cbn in E. injection E as <-. apply dec_alpn_nil.
  - cbn [map] in E. apply cat_opt_cons in E as (a & b & Ea & Eb & ->).
    inversion Hl as [|? ? Hp Hl']; subst.
    destruct (enc_u8lp_cons _ _ Ea) as (x & ->).
    destruct fuel as [|fuel]; [cbn in Hf; lia|].
    cbn [dec_alpn]. cbn [app is_nil]. change (x :: p ++ b) with ((x :: p) ++ b).
    rewrite (rd_u8lp_enc _ _ _ Ea). cbn [obind]. rewrite (is_nil_false _ Hp).
    rewrite (IH b fuel Eb Hl'); [reflexivity|]. cbn [length app] in Hf. rewrite app_length in Hf. lia.
Qed.

Lemma dec_binders_enc l : forall bs fuel, cat_opt (map enc_u8lp l) = Some bs -> Forall nonnil l ->
  (length bs <= fuel)%nat -> dec_binders fuel bs = Some l.
Proof.
  induction l as [|p l IH]; intros bs fuel E Hl Hf.
  - cbn in E. injection E as <-. apply dec_binders_nil.
  - cbn [map] in E. apply cat_opt_cons in E as (a & b & Ea & Eb & ->).
    inversion Hl as [|? ? Hp Hl']; subst.
    destruct (enc_u8lp_cons _ _ Ea) as (x & ->).
    destruct fuel as [|fuel]; [cbn in Hf; lia|].
    cbn [dec_binders]. cbn [app is_nil]. change (x :: p ++ b) with ((x :: p) ++ b).
    rewrite (rd_u8lp_enc _ _ _ Ea). cbn [obind]. rewrite (is_nil_false _ Hp).
    rewrite (IH b fuel Eb Hl'); [reflexivity|]. cbn [length app] in Hf. rewrite app_length in Hf. lia.
Qed.

Definition share_ok (k : keyShare) : Prop := ks_group k < 65536 /\ ks_data k <> [].
Lemma dec_shares_enc l : forall bs fuel, cat_opt (map enc_share l) = Some bs -> Forall share_ok l ->
  (length bs <= fuel)%nat -> dec_shares fuel bs = Some l.
Proof.
  induction l as [|k l IH]; intros bs fuel E Hl Hf.
  - cbn in E. injection E as <-. apply dec_shares_nil.
  - cbn [map] in E. apply cat_opt_cons in E as (a & b & Ea & Eb & ->).
    inversion Hl as [|? ? [Hg Hd] Hl']; subst.
    unfold enc_share in Ea. destruct (enc_u16lp (ks_data k)) as [d|] eqn:Ed; [|discriminate].
    cbn [obind] in Ea. assert (a = enc_u16 (ks_group k) ++ d) as -> by congruence.
    rewrite !app_length in Hf. unfold enc_u16 in Hf. cbn [length] in Hf.
    destruct fuel as [|fuel]; [lia|].
    cbn [dec_shares]. rewrite <- app_assoc, is_nil_enc_u16.
    rewrite (rd_u16_enc _ _ Hg). cbn [obind]. rewrite (rd_u16lp_enc _ _ _ Ed). cbn [obind].
    rewrite (is_nil_false _ Hd). rewrite (IH b fuel Eb Hl').
    + cbn [obind]. destruct k; reflexivity.
    + lia.
Qed.

Definition id_ok (p : pskIdentity) : Prop := pi_obfuscatedTicketAge p < 4294967296 /\ pi_label p <> [].
Lemma dec_ids_enc l : forall bs fuel, cat_opt (map enc_id l) = Some bs -> Forall id_ok l ->
  (length bs <= fuel)%nat -> dec_ids fuel bs = Some l.
Proof.
  induction l as [|k l IH]; intros bs fuel E Hl Hf.
  - cbn in E. injection E as <-. apply dec_ids_nil.
  - cbn [map] in E. apply cat_opt_cons in E as (a & b & Ea & Eb & ->).
    inversion Hl as [|? ? [Hg Hd] Hl']; subst.
    unfold enc_id in Ea. destruct (enc_u16lp (pi_label k)) as [d|] eqn:Ed; [|discriminate].
    cbn [obind] in Ea. assert (a = d ++ enc_u32 (pi_obfuscatedTicketAge k)) as -> by congruence.
    destruct (enc_u16lp_cons _ _ Ed) as (x & y & Exy).
    assert (Hn : is_nil ((d ++ enc_u32 (pi_obfuscatedTicketAge k)) ++ b) = false) by (rewrite Exy; reflexivity).
    rewrite !app_length in Hf. unfold enc_u32 in Hf. cbn [length] in Hf.
    destruct fuel as [|fuel]; [lia|].
    cbn [dec_ids]. rewrite Hn. rewrite <- !app_assoc. rewrite (rd_u16lp_enc _ _ _ Ed). cbn [obind].
    rewrite (rd_u32_enc _ _ Hg). cbn [obind]. rewrite (is_nil_false _ Hd). rewrite (IH b fuel Eb Hl').
    + cbn [obind]. destruct k; reflexivity.
    + lia.
Qed.

(* ---------- one extension: decode (encode x) = x ---------- *)
Definition wf_ext (x : ext) : Prop :=
  match x with
  | XSni n => n <> [] /\ last n 0 <> 46
  | XStatus b => b = true
  | XCurves l | XSigAlgs l | XSigAlgsCert l | XVersions l => l <> [] /\ Forall u16_ok l
  | XPoints p => p <> []
  | XCookie c => c <> []
  | XAlpn l => l <> [] /\ Forall nonnil l
  | XKeyShares l => Forall share_ok l
  | XPsk ids bs => ids <> [] /\ Forall id_ok ids /\ bs <> [] /\ Forall nonnil bs
  | XUnknown _ => False
  | _ => True
  end.

Lemma hdr_inv id body bs : hdr id body = Some bs ->
  exists b, body = Some b /\ len b < 65536 /\ bs = enc_u16 id ++ enc_u16 (len b) ++ b.
Proof.
  unfold hdr. destruct body as [b|]; [|discriminate]. cbn [obind]. unfold enc_u16lp.
  destruct (N.ltb_spec (len b) 65536) as [H|H]; [|discriminate]. cbn [obind].
  intros E; injection E as <-. eauto.
Qed.

Lemma ext_id_lt x : wf_ext x -> ext_id x < 65536.
Proof. destruct x; cbn; intros H; first [lia | contradiction]. Qed.

Lemma cat_opt_nonnil l bs : l <> [] -> Forall nonnil l -> cat_opt (map enc_u8lp l) = Some bs -> bs <> [].
Proof.
  destruct l as [|p l]; [congruence|]. intros _ _ E. cbn [map] in E.
  apply cat_opt_cons in E as (a & b & Ea & _ & ->). destruct (enc_u8lp_cons _ _ Ea) as (x & ->). discriminate.
Qed.
Lemma cat_ids_nonnil l bs : l <> [] -> cat_opt (map enc_id l) = Some bs -> bs <> [].
Proof.
  destruct l as [|p l]; [congruence|]. intros _ E. cbn [map] in E.
  apply cat_opt_cons in E as (a & b & Ea & _ & ->). unfold enc_id in Ea.
  destruct (enc_u16lp (pi_label p)) as [d|] eqn:Ed; [|discriminate]. cbn [obind] in Ea. injection Ea as <-.
  destruct (enc_u16lp_cons _ _ Ed) as (x & y & ->). discriminate.
Qed.

Lemma dec_enc x bs : wf_ext x -> enc_ext x = Some bs ->
  exists body, bs = enc_u16 (ext_id x) ++ enc_u16 (len body) ++ body /\ len body < 65536 /\ dec_ext (ext_id x) body = Some x.
Proof.
  intros W E. destruct x; cbn [enc_ext] in E; try discriminate;
    apply hdr_inv in E as (body & Eb & Hlen & ->); exists body; (split; [reflexivity|split; [exact Hlen|]]);
    cbn [ext_id]; cbn [wf_ext] in W.
  - (* XSni *)
    destruct (enc_u16lp name) as [a|] eqn:Ea; [|discriminate]. cbn [obind] in Eb. destruct W as [Wn Wd].
    unfold dec_ext. change (dec_body 0 body) with
      (let? (nl, r) := rd_u16lp body in if is_nil nl then None else let? n := dec_sni_names (length nl) nl [] in Some (XSni n, r)).
    rewrite (rd_u16lp_enc0 _ _ Eb). cbn [obind is_nil length dec_sni_names rd_u8].
    rewrite (rd_u16lp_enc0 _ _ Ea). cbn [obind]. rewrite (is_nil_false _ Wn).
    cbn [N.eqb negb is_nil]. destruct (N.eqb_spec (last name 0) 46) as [H|H]; [contradiction|].
    rewrite dec_sni_nil. reflexivity.
  - (* XStatus *) subst ocsp. injection Eb as <-. reflexivity.
  - (* XCurves *) destruct W as [Wn Wl]. unfold dec_ext.
    change (dec_body 10 body) with (let? (xs, r) := nonempty_u16s body in Some (XCurves xs, r)).
    rewrite (nonempty_u16s_enc0 _ _ Wn Wl Eb). reflexivity.
  - (* XPoints *) unfold dec_ext.
    change (dec_body 11 body) with (let? (p, r) := rd_u8lp body in if is_nil p then None else Some (XPoints p, r)).
    rewrite (rd_u8lp_enc0 _ _ Eb). cbn [obind]. rewrite (is_nil_false _ W). reflexivity.
  - (* XTicket *) injection Eb as <-. reflexivity.
  - (* XSigAlgs *) destruct W as [Wn Wl]. unfold dec_ext.
    change (dec_body 13 body) with (let? (xs, r) := nonempty_u16s body in Some (XSigAlgs xs, r)).
    rewrite (nonempty_u16s_enc0 _ _ Wn Wl Eb). reflexivity.
  - (* XSigAlgsCert *) destruct W as [Wn Wl]. unfold dec_ext.
    change (dec_body 50 body) with (let? (xs, r) := nonempty_u16s body in Some (XSigAlgsCert xs, r)).
    rewrite (nonempty_u16s_enc0 _ _ Wn Wl Eb). reflexivity.
  - (* XReneg *) unfold dec_ext.
    change (dec_body 65281 body) with (let? (x, r) := rd_u8lp body in Some (XReneg x, r)).
    rewrite (rd_u8lp_enc0 _ _ Eb). reflexivity.
  - (* XEms *) injection Eb as <-. reflexivity.
  - (* XAlpn *) destruct W as [Wn Wl].
    destruct (cat_opt (map enc_u8lp l)) as [a|] eqn:Ea; [|discriminate]. cbn [obind] in Eb. unfold dec_ext.
    change (dec_body 16 body) with
      (let? (pl, r) := rd_u16lp body in if is_nil pl then None else let? l := dec_alpn (length pl) pl in Some (XAlpn l, r)).
    rewrite (rd_u16lp_enc0 _ _ Eb). cbn [obind].
    rewrite (is_nil_false _ (cat_opt_nonnil _ _ Wn Wl Ea)). rewrite (dec_alpn_enc _ _ _ Ea Wl (le_n _)). reflexivity.
  - (* XSct *) injection Eb as <-. reflexivity.
  - (* XVersions *) destruct W as [Wn Wl]. unfold dec_ext.
    change (dec_body 43 body) with
      (let? (vl, r) := rd_u8lp body in if is_nil vl then None else let? xs := rd_u16s vl in Some (XVersions xs, r)).
    rewrite (rd_u8lp_enc0 _ _ Eb). cbn [obind].
    rewrite (enc_u16s_nonnil _ Wn), (rd_u16s_enc _ Wl). reflexivity.
  - (* XCookie *) unfold dec_ext.
    change (dec_body 44 body) with (let? (c, r) := rd_u16lp body in if is_nil c then None else Some (XCookie c, r)).
    rewrite (rd_u16lp_enc0 _ _ Eb). cbn [obind]. rewrite (is_nil_false _ W). reflexivity.
  - (* XKeyShares *)
    destruct (cat_opt (map enc_share l)) as [a|] eqn:Ea; [|discriminate]. cbn [obind] in Eb. unfold dec_ext.
    change (dec_body 51 body) with
      (let? (cs, r) := rd_u16lp body in let? l := dec_shares (length cs) cs in Some (XKeyShares l, r)).
    rewrite (rd_u16lp_enc0 _ _ Eb). cbn [obind].
    rewrite (dec_shares_enc _ _ _ Ea W (le_n _)). reflexivity.
  - (* XEarly *) injection Eb as <-. reflexivity.
  - (* XPskModes *) unfold dec_ext.
    change (dec_body 45 body) with (let? (x, r) := rd_u8lp body in Some (XPskModes x, r)).
    rewrite (rd_u8lp_enc0 _ _ Eb). reflexivity.
  - (* XQuic *) injection Eb as <-. reflexivity.
  - (* XPsk *) destruct W as (Wi & Wil & Wb & Wbl).
    destruct (cat_opt (map enc_id ids)) as [a|] eqn:Ea; [|discriminate]. cbn [obind] in Eb.
    destruct (enc_u16lp a) as [a'|] eqn:Ea'; [|discriminate]. cbn [obind] in Eb.
    destruct (cat_opt (map enc_u8lp binders)) as [b|] eqn:Ebn; [|discriminate]. cbn [obind] in Eb.
    destruct (enc_u16lp b) as [b'|] eqn:Eb'; [|discriminate]. cbn [obind] in Eb. injection Eb as <-.
    unfold dec_ext.
    change (dec_body 41 (a' ++ b')) with
      (let? (il, r) := rd_u16lp (a' ++ b') in if is_nil il then None else
       let? ids := dec_ids (length il) il in
       let? (bl, r) := rd_u16lp r in if is_nil bl then None else
       let? bs := dec_binders (length bl) bl in Some (XPsk ids bs, r)).
    rewrite (rd_u16lp_enc _ _ _ Ea'). cbn [obind]. rewrite (is_nil_false _ (cat_ids_nonnil _ _ Wi Ea)).
    rewrite (dec_ids_enc _ _ _ Ea Wil (le_n _)). cbn [obind].
    rewrite (rd_u16lp_enc0 _ _ Eb'). cbn [obind].
    rewrite (is_nil_false _ (cat_opt_nonnil _ _ Wb Wbl Ebn)). rewrite (dec_binders_enc _ _ _ Ebn Wbl (le_n _)). reflexivity.
  - (* XEch *) injection Eb as <-. reflexivity.
Qed.

(* ---------- the extensions loop over a concatenation of encodings ---------- *)
Fixpoint psk_lastb (l : list ext) : bool :=
  match l with [] => true | x :: r => (negb (ext_id x =? 41) || is_nil r) && psk_lastb r end.

Lemma parse_exts_nil fuel seen : parse_exts fuel [] seen = Some []. Proof. destruct fuel; reflexivity. Qed.

Lemma parse_exts_encs l : forall bs seen fuel,
  cat_opt (map enc_ext l) = Some bs -> Forall wf_ext l -> NoDup (map ext_id l) ->
  (forall x, In x l -> ~ In (ext_id x) seen) -> psk_lastb l = true -> (length bs <= fuel)%nat ->
  parse_exts fuel bs seen = Some l.
Proof.
  induction l as [|x l IH]; intros bs seen fuel E W ND Hs Hp Hf.
  - cbn in E. injection E as <-. apply parse_exts_nil.
  - cbn [map] in E. apply cat_opt_cons in E as (a & b & Ea & Eb & ->).
    inversion W as [|? ? Wx Wl]; subst. inversion ND as [|? ? Hni ND']; subst.
    destruct (dec_enc _ _ Wx Ea) as (body & -> & Hlen & Hdec).
    rewrite !app_length in Hf. unfold enc_u16 in Hf. cbn [length] in Hf.
    destruct fuel as [|fuel]; [lia|].
    cbn [parse_exts]. rewrite <- !app_assoc, is_nil_enc_u16.
    rewrite (rd_u16_enc _ _ (ext_id_lt _ Wx)). cbn [obind].
    assert (Elp : enc_u16lp body = Some (enc_u16 (len body) ++ body)).
    { unfold enc_u16lp. destruct (N.ltb_spec (len body) 65536); [reflexivity|lia]. }
    rewrite (app_assoc (enc_u16 (len body)) body b), (rd_u16lp_enc _ _ _ Elp). cbn [obind].
    assert (Hseen : existsb (N.eqb (ext_id x)) seen = false).
    { destruct (existsb (N.eqb (ext_id x)) seen) eqn:Ex; [|reflexivity]. apply existsb_exists in Ex as (y & Hy & Hxy).
      apply N.eqb_eq in Hxy. subst y. exfalso. apply (Hs x (or_introl eq_refl)). exact Hy. }
    rewrite Hseen. cbn [psk_lastb] in Hp. apply andb_true_iff in Hp as [Hp1 Hp2].
    assert (Hpsk : (ext_id x =? 41) && negb (is_nil b) = false).
    { destruct (ext_id x =? 41); [|reflexivity]. cbn in Hp1. destruct l; [|discriminate]. cbn in Eb. injection Eb as <-. reflexivity. }
    rewrite Hpsk, Hdec. cbn [obind].
    rewrite (IH b (ext_id x :: seen) fuel Eb Wl ND'); [reflexivity| |exact Hp2|].
    + intros y Hy [Hin|Hin]; [apply Hni; rewrite Hin; now apply in_map|apply (Hs y (or_intror Hy) Hin)].
    + lia.
Qed.


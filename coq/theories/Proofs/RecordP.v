(* Proofs about Model/Record.v. The primitives' laws are Section hypotheses
   (bundled as [prims_ok]); closing the Section turns them into premises. *)
From UV Require Import Base.Common Model.Record.
From Coq Require Import ZifyBool ZifyNat ZifyN.
Open Scope N_scope.

(* ---------- byte-string lemmas ---------- *)
Lemma len_app a b : len (a ++ b) = len a + len b.
Proof. unfold len. rewrite app_length. lia. Qed.

Lemma be_length k n : length (be k n) = k.
Proof. revert n; induction k as [|k IH]; intros n; cbn [be]; [reflexivity|]. rewrite app_length, IH. cbn. lia. Qed.

Lemma seq8_length s : length (seq8 s) = 8%nat.
Proof. apply be_length. Qed.

Lemma be16_length n : length (be16 n) = 2%nat.
Proof. reflexivity. Qed.

Lemma de_app a b acc : de (a ++ b) acc = de b (de a acc).
Proof. revert acc; induction a as [|x a IH]; intros acc; cbn [de app]; auto. Qed.

Lemma de_be k : forall n acc, de (be k n) acc = acc * 256 ^ N.of_nat k + n mod 256 ^ N.of_nat k.
Proof.
  induction k as [|k IH]; intros n acc.
  - cbn. rewrite N.mod_1_r. lia.
  - cbn [be]. rewrite de_app, IH. cbn [de].
    replace (N.of_nat (S k)) with (N.succ (N.of_nat k)) by lia. rewrite N.pow_succ_r'.
    assert (Hp : 256 ^ N.of_nat k <> 0) by (apply N.pow_nonzero; lia).
    rewrite (N.mod_mul_r n 256 (256 ^ N.of_nat k)) by lia. nia.
Qed.

Lemma be_inj k a b : a < 256 ^ N.of_nat k -> b < 256 ^ N.of_nat k -> be k a = be k b -> a = b.
Proof.
  intros Ha Hb H. apply (f_equal (fun l => de l 0)) in H. rewrite !de_be in H.
  rewrite !N.mod_small in H by assumption. lia.
Qed.

Lemma seq8_inj a b : a < 18446744073709551616 -> b < 18446744073709551616 -> seq8 a = seq8 b -> a = b.
Proof. intros Ha Hb. apply be_inj; exact Ha || exact Hb. Qed.

Lemma bxor_length a b : length (bxor a b) = Nat.min (length a) (length b).
Proof. revert b; induction a as [|x a IH]; intros [|y b]; cbn; auto. Qed.

Lemma bxor_app a1 a2 b1 b2 : length a1 = length b1 -> bxor (a1 ++ a2) (b1 ++ b2) = bxor a1 b1 ++ bxor a2 b2.
Proof.
  revert b1; induction a1 as [|x a IH]; intros [|y b] H; cbn in *; try discriminate; auto.
  f_equal. apply IH. lia.
Qed.

Lemma bxor_invol a k : length a = length k -> bxor (bxor a k) k = a.
Proof.
  revert k; induction a as [|x a IH]; intros [|y k] H; cbn in *; try discriminate; auto.
  rewrite IH by lia. f_equal. rewrite N.lxor_assoc, N.lxor_nilpotent, N.lxor_0_r. reflexivity.
Qed.

Lemma firstn_app_exact {A} (a b : list A) n : n = length a -> firstn n (a ++ b) = a.
Proof. intros ->. rewrite firstn_app, Nat.sub_diag, firstn_all. cbn. apply app_nil_r. Qed.

Lemma skipn_app_exact {A} (a b : list A) n : n = length a -> skipn n (a ++ b) = b.
Proof. intros ->. rewrite skipn_app, Nat.sub_diag, skipn_all. reflexivity. Qed.

Lemma rev_repeat {A} (x : A) n : rev (repeat x n) = repeat x n.
Proof.
  induction n as [|n IH]; cbn; auto. rewrite IH. clear IH.
  induction n as [|n IH]; cbn; auto. f_equal. exact IH.
Qed.

Lemma forallb_repeat (x : N) n : forallb (N.eqb x) (repeat x n) = true.
Proof. induction n; cbn; auto. rewrite N.eqb_refl. auto. Qed.

Lemma be16_eq n : n < 65536 -> de (be16 n) 0 = n.
Proof. intros H. unfold be16. cbn [de]. pose proof (N.div_mod n 256). rewrite (N.mod_small (n / 256)); [lia|].
  apply N.div_lt_upper_bound; lia. Qed.

Lemma be16_bytes n : Forall (fun b => b < 256) (be16 n).
Proof. unfold be16. repeat constructor; apply N.mod_lt; lia. Qed.

(* extract_padding on a correctly padded block *)
Lemma extract_padding_ok (x : bytes) (pl : nat) :
  (1 <= pl <= 256)%nat ->
  extract_padding (x ++ repeat ((N.of_nat pl - 1) mod 256) pl) = (pl, true).
Proof.
  intros Hpl. unfold extract_padding.
  rewrite N.mod_small by lia.
  destruct pl as [|p]; [lia|].
  set (v := N.of_nat (S p) - 1).
  assert (Hlast : last (x ++ repeat v (S p)) 0 = v).
  { change (repeat v (S p)) with (v :: repeat v p). rewrite repeat_cons, app_assoc. apply last_last. }
  rewrite Hlast, rev_app_distr, rev_repeat, app_length, repeat_length.
  replace (length x + S p <? 1)%nat with false by (symmetry; apply Nat.ltb_ge; lia).
  replace (S (N.to_nat v)) with (S p) by lia.
  rewrite firstn_app_exact by (rewrite repeat_length; reflexivity).
  rewrite forallb_repeat.
  replace (S p <=? length x + S p)%nat with true by (symmetry; apply Nat.leb_le; lia).
  reflexivity.
Qed.

Lemma round_up_le a b m : (0 < b)%nat -> (m mod b = 0)%nat -> (a <= m)%nat -> (round_up a b <= m)%nat.
Proof.
  intros Hb Hm Ha. unfold round_up.
  pose proof (Nat.div_mod a b ltac:(lia)) as Da. pose proof (Nat.mod_upper_bound a b ltac:(lia)) as Ua.
  apply Nat.mod_divides in Hm; [|lia]. destruct Hm as [q Hq].
  destruct (Nat.eq_dec (a mod b) 0) as [E|E].
  - rewrite E, Nat.sub_0_r, Nat.mod_same by lia. lia.
  - rewrite (Nat.mod_small (b - a mod b)) by lia.
    (* a + b - a mod b = b * (a/b + 1) <= b * q *)
    assert (a / b < q)%nat by nia. nia.
Qed.

Lemma pad_multiple n b : (0 < b)%nat -> ((n + (b - n mod b)) mod b = 0)%nat.
Proof.
  intros Hb. pose proof (Nat.div_mod n b ltac:(lia)) as D. pose proof (Nat.mod_upper_bound n b ltac:(lia)) as U.
  replace (n + (b - n mod b))%nat with ((n / b + 1) * b)%nat by nia. apply Nat.mod_mul. lia.
Qed.

Lemma strip13_ok p t : t <> 0 -> strip13 (rev (p ++ [t])) = Some (t, p).
Proof.
  intros Ht. rewrite rev_app_distr. cbn [rev app strip13].
  destruct (t =? 0) eqn:E; [lia|]. rewrite rev_involutive. reflexivity.
Qed.

(* ---------- laws of the primitives ---------- *)
Record prims_ok (P : prims) : Prop := mkPrimsOk {
  (* AEAD (AES-GCM, ChaCha20-Poly1305): round trip *)
  aead_rt : forall a k n ad p, aead_open P a k n ad (aead_seal P a k n ad p) = Some p;
  (* stream form: ciphertext = plaintext xor keystream(key, nonce), followed by a 16-byte tag *)
  aead_stream : forall a k n ad p,
      aead_seal P a k n ad p = bxor p (aead_ks P a k n (length p)) ++ aead_tag P a k n ad p;
  aead_ks_len : forall a k n l, length (aead_ks P a k n l) = l;
  (* the keystream for (key, nonce) does not depend on how much of it is requested *)
  aead_ks_prefix : forall a k n l1 l2, (l1 <= l2)%nat -> firstn l1 (aead_ks P a k n l2) = aead_ks P a k n l1;
  aead_tag_len : forall a k n ad p, length (aead_tag P a k n ad p) = aead_overhead;
  (* CBC over whole blocks (the model panics before calling these on partial blocks) *)
  cbc_rt : forall a k iv p, cbc_dec P a k iv (cbc_enc P a k iv p) = p;
  cbc_enc_len : forall a k iv p, length (cbc_enc P a k iv p) = length p;
  (* RC4: a keystream indexed by position *)
  stream_len : forall a k pos l, length (stream_ks P a k pos l) = l;
  stream_split : forall a k pos n m,
      stream_ks P a k pos (n + m) = stream_ks P a k pos n ++ stream_ks P a k (pos + N.of_nat n) m;
  hmac_len : forall a k m, length (hmac P a k m) = mac_len a;
  prf_len : forall v s sec seed n, length (prf P v s sec seed n) = n
}.

(* Event order of the QUIC client (C23): what the handshake goroutine has created so far, followed by
   what its script will still create, is always (a coalescing of a prefix of) the script's emission
   sequence; for the client's script that sequence obeys RFC 9001's ordering rules. *)
From UV Require Import Base.Common Model.Quic Proofs.QuicP.
From Coq Require Import ZifyBool ZifyNat ZifyN.

(* ---- closure properties of the order predicate ---- *)
Lemma order_scan_prefix a : forall seen b, order_scan seen (a ++ b) = true -> order_scan seen a = true.
Proof.
  induction a as [|e a IH]; intros seen b H; [reflexivity|].
  cbn [app order_scan] in *. apply andb_true_iff in H. destruct H as [H1 H2].
  rewrite H1. cbn [andb]. eapply IH. exact H2.
Qed.

Lemma order_scan_drop_wd a : forall seen l b,
  order_scan seen (a ++ EWriteData l :: b) = true -> order_scan seen (a ++ b) = true.
Proof.
  induction a as [|e a IH]; intros seen l b H.
  - cbn [app order_scan] in H. apply andb_true_iff in H. tauto.
  - cbn [app order_scan] in *. apply andb_true_iff in H. destruct H as [H1 H2].
    rewrite H1. cbn [andb]. eapply IH. exact H2.
Qed.

Lemma count_ev_app e a b : count_ev e (a ++ b) = (count_ev e a + count_ev e b)%nat.
Proof. induction a as [|x a IH]; cbn [app count_ev]; [reflexivity|]. rewrite IH. lia. Qed.

Lemma mem_ev_app e a b : mem_ev e (a ++ b) = mem_ev e a || mem_ev e b.
Proof. unfold mem_ev. apply existsb_app. Qed.

Definition not_wd (e : event) : bool := match e with EWriteData _ => false | _ => true end.

Lemma count_drop_wd e a l b : not_wd e = true -> count_ev e (a ++ EWriteData l :: b) = count_ev e (a ++ b).
Proof. intros H. rewrite !count_ev_app. cbn [count_ev]. destruct e; try discriminate; reflexivity. Qed.
Lemma mem_drop_wd e a l b : not_wd e = true -> mem_ev e (a ++ EWriteData l :: b) = mem_ev e (a ++ b).
Proof. intros H. rewrite !mem_ev_app. unfold mem_ev. cbn [existsb]. destruct e; try discriminate; reflexivity. Qed.

Lemma complete_ok_drop_wd a l b :
  complete_ok (a ++ EWriteData l :: b) = true -> complete_ok (a ++ b) = true.
Proof.
  unfold complete_ok, order_ok. intros H.
  rewrite !count_drop_wd, !mem_drop_wd in H by reflexivity.
  apply andb_true_iff in H; destruct H as [H H5]. apply andb_true_iff in H; destruct H as [H H4].
  apply andb_true_iff in H; destruct H as [H H3]. apply andb_true_iff in H; destruct H as [H H2].
  rewrite (order_scan_drop_wd a [] l b H), H2, H3, H4, H5. reflexivity.
Qed.

(* ---- what the goroutine will still create ---- *)
Definition tailev (s : state) : list event := if hs_ok s then [EHandshakeDone; EReadSecret LvApp] else [].
Definition pending (s : state) : list event :=
  match g s with
  | GNone | GInit | GBuild | GWaitBlk true | GWaitSig true =>
      emits (build s) ++ (if build_ok s then emits (hs s) ++ tailev s else [])
  | GHs | GWaitBlk false | GWaitSig false => emits (hs s) ++ tailev s
  | _ => []
  end.
Definition may_complete (s : state) : bool :=
  match g s with
  | GNone | GInit | GBuild | GWaitBlk true | GWaitSig true => build_ok s && hs_ok s
  | GHs | GWaitBlk false | GWaitSig false => hs_ok s
  | _ => false
  end.
Definition post (x : gpc) : bool := match x with GClose1 | GClose2 | GRet | GDone => true | _ => false end.
Definition timeline (s : state) : list event := rev (hist s) ++ pending s.

Lemma coalesces_wd q e : coalesces q e = true -> exists l, e = EWriteData l.
Proof. unfold coalesces. destruct e; try discriminate. eauto. Qed.

(* effect of one step on the timeline *)
Definition same_tl (s s' : state) : Prop :=
  timeline s' = timeline s /\ (may_complete s' = true -> may_complete s = true) /\
  (complete s' = true -> complete s = true \/ may_complete s = true) /\
  (complete s' = true -> post (g s') = true).
Definition coal_tl (s s' : state) : Prop :=
  exists l b, pending s = EWriteData l :: b /\ pending s' = b /\ hist s' = hist s /\
  (may_complete s' = true -> may_complete s = true) /\ complete s' = complete s /\ complete s = false.
Definition cut_tl (s s' : state) : Prop :=
  pending s' = [] /\ hist s' = hist s /\ may_complete s' = false /\ complete s' = complete s /\ complete s = false.

Lemma emit_tl s0 s1 e :
  complete s0 = false -> complete s1 = false -> hist s1 = hist s0 ->
  pending s0 = e :: pending s1 -> (may_complete s1 = true -> may_complete s0 = true) ->
  same_tl s0 (emit s1 e) \/ coal_tl s0 (emit s1 e).
Proof.
  intros C0 C1 H P M. unfold emit. destruct (coalesces (queue s1) e) eqn:E.
  - right. destruct (coalesces_wd _ _ E) as [l ->]. exists l, (pending s1). repeat split; auto. congruence.
  - left. unfold same_tl, timeline.
    replace (pending (set_events s1 (queue s1 ++ [e]) (e :: hist s1))) with (pending s1) by reflexivity.
    replace (may_complete (set_events s1 (queue s1 ++ [e]) (e :: hist s1))) with (may_complete s1) by reflexivity.
    cbn [hist set_events rev complete g]. rewrite P, H, <- app_assoc. cbn [app].
    repeat split; auto; intros; congruence.
Qed.

Definition inv3 (s : state) : bool := negb (complete s) || post (g s).

Lemma inv3_step s l s' r : invb s = true -> inv3 s = true -> step s l = Some (s', r) -> inv3 s' = true.
Proof.
  intros I0 I S. destruct l; unfold step in S.
  all: destruct s as [ec mv st cs ca tp bc sc he co g0 b bok h hok c0 q hi]; cbn in S;
       destruct g0 as [| | | |[|]|[|]| | | | | |]; destruct c0; cbn in S; try discriminate.
  all: repeat (match goal with
          | H : context [if ?b then _ else _] |- _ => destruct b eqn:?
          | H : context [match ?b with _ => _ end] |- _ => destruct b eqn:?
          end; cbn in S; try discriminate).
  all: inversion S; subst; clear S; unfold inv3, emit in *;
       repeat match goal with |- context [coalesces ?q ?e] => destruct (coalesces q e) end; cbn in *;
       try assumption; try reflexivity.
  all: try (match goal with |- context [negb ?x] => is_var x; destruct x end; cbn in *; first [reflexivity | assumption | discriminate]).
  all: unfold invb, opn in I0; cbn in I0; repeat (rewrite ?andb_false_r in I0; cbn in I0); discriminate.
Qed.

Lemma tl_step s l s' r : invb s = true -> inv3 s = true -> step s l = Some (s', r) -> same_tl s s' \/ coal_tl s s' \/ cut_tl s s'.
Proof.
  intros I0 I3 S. destruct l; unfold step in S.
  all: destruct s as [ec mv st cs ca tp bc sc he co g0 b bok h hok c0 q hi]; cbn in S;
       destruct g0 as [| | | |[|]|[|]| | | | | |]; destruct c0; cbn in S; try discriminate.
  all: repeat (match goal with
          | H : context [if ?b then _ else _] |- _ => destruct b eqn:?
          | H : context [match ?b with _ => _ end] |- _ => destruct b eqn:?
          end; cbn in S; try discriminate).
  all: inversion S; subst; clear S.
  all: unfold inv3 in I3; cbn in I3; try rewrite orb_false_r in I3; try apply negb_true_iff in I3; subst.
  all: try (left; unfold same_tl, timeline; cbn; repeat split; intros; auto; try discriminate; try congruence; fail).
  all: try (right; right; unfold cut_tl; cbn; repeat split; auto; fail).
  all: try (match goal with |- same_tl ?s0 (emit ?s1 ?e0) \/ _ =>
        destruct (emit_tl s0 s1 e0) as [X|X]; [reflexivity|reflexivity|reflexivity|reflexivity|cbn; auto|left; exact X|right; left; exact X]
      end).
  all: try (left; unfold emit; cbn; unfold same_tl, timeline; cbn; rewrite <- ?app_assoc; cbn;
            repeat split; intros; auto; try discriminate; fail).
  all: try (exfalso; unfold invb, opn in I0; cbn in I0; repeat (rewrite ?andb_false_r in I0; cbn in I0); discriminate).
Qed.

Definition EvInv (s : state) : Prop :=
  inv3 s = true /\ order_scan [] (timeline s) = true /\
  ((may_complete s = true \/ complete s = true) -> complete_ok (timeline s) = true).

Lemma EvInv_step s l s' r : invb s = true -> EvInv s -> step s l = Some (s', r) -> EvInv s'.
Proof.
  intros I0 (I3 & O & C) S. split; [eapply inv3_step; eauto|].
  destruct (tl_step _ _ _ _ I0 I3 S) as [X | [X | X]].
  - destruct X as (T & M & C1 & _). rewrite T. split; [exact O|].
    intros [H|H]; apply C; [left; auto|]. destruct (C1 H) as [A|A]; [right|left]; exact A.
  - destruct X as (l0 & b & P & P' & H & M & C1 & C2). unfold timeline in *. rewrite P', H. rewrite P in O, C.
    split; [eapply order_scan_drop_wd; exact O|]. intros [Hm|Hc]; [|congruence].
    eapply complete_ok_drop_wd. apply C. left; auto.
  - destruct X as (P' & H & M & C1 & C2). unfold timeline in *. rewrite P', H, app_nil_r.
    split; [eapply order_scan_prefix; exact O|]. intros [Hm|Hc]; congruence.
Qed.

Lemma EvInv_reach s0 s : invb s0 = true -> EvInv s0 -> reach s0 s -> invb s = true /\ EvInv s.
Proof.
  intros I0 E0 R. induction R as [|s l s' r R IH S]; [auto|].
  destruct IH as [A B]. split; [eapply inv_step; eauto | eapply EvInv_step; eauto].
Qed.

(* what has been created so far obeys the order, in every state *)
Lemma EvInv_hist s : EvInv s -> order_ok (rev (hist s)) = true /\ (complete s = true -> complete_ok (rev (hist s)) = true).
Proof.
  intros (I3 & O & C). split.
  - unfold order_ok. eapply order_scan_prefix. exact O.
  - intros H. specialize (C (or_intror H)). unfold inv3 in I3. rewrite H in I3. cbn in I3.
    unfold timeline, pending in C. destruct (g s); try discriminate; rewrite app_nil_r in C; exact C.
Qed.

(* ---- the client's scripts ---- *)
Lemma emits_app a b : emits (a ++ b) = emits a ++ emits b.
Proof. induction a as [|[e|] a IH]; cbn [app emits]; [reflexivity| |exact IH]. rewrite IH. reflexivity. Qed.
Lemma emits_waits n : emits (waits n) = [].
Proof. unfold waits. induction n; cbn [repeat emits]; auto. Qed.
Lemma emits_repeat e n : emits (repeat (AEmit e) n) = repeat e n.
Proof. induction n; cbn [repeat emits]; [reflexivity|]. rewrite IHn. reflexivity. Qed.
Lemma emits_firstn k : forall l, exists r, emits l = emits (firstn k l) ++ r.
Proof.
  induction k as [|k IH]; intros l; [exists (emits l); reflexivity|].
  destruct l as [|[e|] l]; cbn [firstn emits].
  - exists []; reflexivity.
  - destruct (IH l) as [r Hr]. exists r. rewrite Hr at 1. reflexivity.
  - exact (IH l).
Qed.

Definition seen_after (seen : list event) (a : list event) : list event :=
  fold_left (fun s e => match e with EWriteData _ => s | _ => e :: s end) a seen.
Lemma order_scan_app a : forall seen b,
  order_scan seen (a ++ b) = order_scan seen a && order_scan (seen_after seen a) b.
Proof.
  induction a as [|e a IH]; intros seen b; [reflexivity|].
  cbn [app order_scan seen_after fold_left]. rewrite IH. unfold seen_after. rewrite andb_assoc. reflexivity.
Qed.
Lemma order_scan_repeat_wdh seen k rest :
  mem_ev (EWriteSecret LvHandshake) seen = true ->
  order_scan seen (repeat (EWriteData LvHandshake) k ++ rest) = order_scan seen rest.
Proof. intros H. induction k; cbn [repeat app order_scan]; [reflexivity|]. rewrite H, IHk. reflexivity. Qed.
Lemma count_repeat_wd e l k : not_wd e = true -> count_ev e (repeat (EWriteData l) k) = 0%nat.
Proof. intros H. induction k; cbn [repeat count_ev]; [reflexivity|]. rewrite IHk. destruct e; try discriminate; reflexivity. Qed.
Lemma mem_repeat_wd e l k : not_wd e = true -> mem_ev e (repeat (EWriteData l) k) = false.
Proof. intros H. unfold mem_ev. induction k; cbn [repeat existsb]; [reflexivity|]. rewrite IHk. destruct e; try discriminate; reflexivity. Qed.

Definition pre_full (tpb hrr : bool) : list event :=
  (if tpb then [] else [ETPRequired]) ++ [EWriteData LvInitial] ++ (if hrr then [EWriteData LvInitial] else []) ++
  [EWriteSecret LvHandshake; EReadSecret LvHandshake; ETransportParams].
Definition post_full : list event := [EWriteSecret LvApp; EHandshakeDone; EReadSecret LvApp].

Lemma emits_golang tpb w : emits (golang_build tpb w) = if tpb then [] else [ETPRequired].
Proof. unfold golang_build. destruct tpb; [reflexivity|]. cbn [emits]. rewrite emits_waits. reflexivity. Qed.

Lemma emits_client_full hrr w0 w1 w2 w3 n :
  emits (client_full hrr w0 w1 w2 w3 n) =
  [EWriteData LvInitial] ++ (if hrr then [EWriteData LvInitial] else []) ++
  [EWriteSecret LvHandshake; EReadSecret LvHandshake; ETransportParams] ++
  repeat (EWriteData LvHandshake) (S n) ++ [EWriteSecret LvApp].
Proof.
  unfold client_full. rewrite !emits_app, !emits_waits, emits_repeat. destruct hrr; cbn [emits app]; rewrite ?emits_waits; reflexivity.
Qed.

Lemma full_timeline tpb hrr w w0 w1 w2 w3 n :
  emits (golang_build tpb w) ++ emits (client_full hrr w0 w1 w2 w3 n) ++ [EHandshakeDone; EReadSecret LvApp]
  = pre_full tpb hrr ++ repeat (EWriteData LvHandshake) (S n) ++ post_full.
Proof.
  rewrite emits_golang, emits_client_full. unfold pre_full, post_full. destruct tpb, hrr; cbn [app]; rewrite <- ?app_assoc; reflexivity.
Qed.

Lemma full_order tpb hrr n : order_scan [] (pre_full tpb hrr ++ repeat (EWriteData LvHandshake) (S n) ++ post_full) = true.
Proof.
  rewrite order_scan_app. destruct tpb, hrr; cbn [pre_full app seen_after fold_left];
  (rewrite order_scan_repeat_wdh by reflexivity); reflexivity.
Qed.

Lemma full_complete tpb hrr n : complete_ok (pre_full tpb hrr ++ repeat (EWriteData LvHandshake) (S n) ++ post_full) = true.
Proof.
  unfold complete_ok, order_ok. rewrite full_order.
  rewrite !count_ev_app, !mem_ev_app, !count_repeat_wd, !mem_repeat_wd by reflexivity.
  destruct tpb, hrr; reflexivity.
Qed.

(* every client script starts in EvInv, whatever the number of waits, with or without HelloRetryRequest,
   with or without a failure after any number of actions, whether or not the hello can be built *)
Lemma client_EvInv ec mv tp0 tpb w bok hrr w0 w1 w2 w3 n cut :
  EvInv (init ec mv tp0 (golang_build tpb w) bok
              (fst (client_hs hrr w0 w1 w2 w3 n cut)) (snd (client_hs hrr w0 w1 w2 w3 n cut))).
Proof.
  pose proof (full_order tpb hrr n) as FO. pose proof (full_complete tpb hrr n) as FC.
  rewrite <- (full_timeline tpb hrr w w0 w1 w2 w3 n) in FO, FC.
  unfold EvInv. split; [reflexivity|].
  unfold timeline, pending, may_complete, tailev. cbn [init g hist build build_ok hs hs_ok complete rev app].
  destruct cut as [k|]; cbn [client_hs fst snd].
  - split.
    + destruct bok; [|rewrite app_nil_r; eapply order_scan_prefix; exact FO].
      rewrite app_nil_r. destruct (emits_firstn k (client_full hrr w0 w1 w2 w3 n)) as [r Hr].
      rewrite Hr, <- !app_assoc, app_assoc in FO. eapply order_scan_prefix. exact FO.
    + rewrite andb_false_r. intros [H|H]; discriminate.
  - destruct bok.
    + split; [exact FO|]. intros _. exact FC.
    + rewrite app_nil_r. split; [eapply order_scan_prefix; exact FO|]. intros [H|H]; discriminate.
Qed.

(* ---- the goroutine touches the event queue only while the caller is blocked inside a call ---- *)
Lemma idle_no_emit s l s' r :
  invb s = true -> c s = CIdle -> is_call l = false -> step s l = Some (s', r) ->
  queue s' = queue s /\ hist s' = hist s.
Proof.
  intros I0 CI NC S. destruct l; try discriminate NC; unfold step in S.
  all: destruct s as [ec mv st cs ca tp bc sc he co g0 b bok h hok c0 q hi]; cbn in CI; subst c0; cbn in S;
       destruct g0 as [| | | |[|]|[|]| | | | | |]; cbn in S; try discriminate.
  all: try (unfold invb in I0; cbn in I0; discriminate).
  all: repeat (match goal with
          | H : context [if ?b then _ else _] |- _ => destruct b eqn:?
          | H : context [match ?b with _ => _ end] |- _ => destruct b eqn:?
          end; cbn in S; try discriminate).
  all: inversion S; subst; cbn; auto.
Qed.

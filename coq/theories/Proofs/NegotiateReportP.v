(* "The client never reports an unoffered value in ConnectionState" - also after an aborted handshake: every value the
   Conn holds when the handshake stops passed the offered-set check first. *)
From UV Require Import Base.Common Model.Negotiate Model.NegotiateReport Proofs.NegotiateP.

Definition reported_offered (v : client_view) (fl : flight) (r : conn_state) : Prop :=
  (cs_suite r = 0 \/ In (cs_suite r) (cv_suites v))
  /\ (cs_group r = 0 \/ In (cs_group r) (cv_shares v) \/ In (cs_group r) (cv_curves v))
  /\ (cs_alpn r = [] \/ In (cs_alpn r) (cv_alpn v)).

Lemma rep_empty v fl : reported_offered v fl (rep 0 0 []).
Proof. unfold reported_offered, rep; cbn. auto. Qed.

Lemma report13_offered v fl : reported_offered v fl (report13 v fl).
Proof.
  unfold report13.
  destruct ((cv_ecdhe v =? 0) || _); [apply rep_empty|].
  destruct (f_hrr fl) as [hrr|] eqn:Ehrr.
  - destruct (check_hello13 v None hrr) as [a|suite0] eqn:E1; [apply rep_empty|].
    apply check_hello13_inv in E1. destruct E1 as (_ & A2 & _).
    destruct (process_hrr v hrr) as [a|[shares ecdhe]] eqn:E2.
    { unfold reported_offered, rep; cbn. auto. }
    destruct (check_hello13 v (Some suite0) (f_sh fl)) as [a|suite] eqn:E3.
    { unfold reported_offered, rep; cbn. auto. }
    apply check_hello13_inv in E3. destruct E3 as (_ & B2 & _).
    destruct (process_sh13 v shares suite (f_sh fl)) as [a|psk] eqn:E4.
    { unfold reported_offered, rep; cbn. auto. }
    apply process_sh13_inv in E4. destruct E4 as (C1 & _).
    assert (G : In (h_share (f_sh fl)) (cv_shares v) \/ In (h_share (f_sh fl)) (cv_curves v)).
    { apply process_hrr_inv in E2. destruct E2 as [(_ & D2 & _) | (_ & D2 & _ & D4 & _)].
      - left. rewrite <- D2. exact C1.
      - right. rewrite D2 in C1. destruct C1 as [C1|[]]. rewrite <- C1. exact D4. }
    destruct (establish_keys _ _ _).
    { unfold reported_offered, rep; cbn. auto. }
    destruct (f_crypto_ok fl); cbn [negb].
    + destruct (check_alpn (cv_alpn v) (f_ee_alpn fl)) eqn:E5; cbn [negb].
      * apply check_alpn_inv in E5. unfold reported_offered, rep; cbn. auto.
      * unfold reported_offered, rep; cbn. auto.
    + unfold reported_offered, rep; cbn. auto.
  - destruct (check_hello13 v None (f_sh fl)) as [a|suite] eqn:E1; [apply rep_empty|].
    apply check_hello13_inv in E1. destruct E1 as (_ & A2 & _).
    destruct (process_sh13 v (cv_shares v) suite (f_sh fl)) as [a|psk] eqn:E4.
    { unfold reported_offered, rep; cbn. auto. }
    apply process_sh13_inv in E4. destruct E4 as (C1 & _).
    destruct (establish_keys _ _ _).
    { unfold reported_offered, rep; cbn. auto. }
    destruct (f_crypto_ok fl); cbn [negb].
    + destruct (check_alpn (cv_alpn v) (f_ee_alpn fl)) eqn:E5; cbn [negb].
      * apply check_alpn_inv in E5. unfold reported_offered, rep; cbn. auto.
      * unfold reported_offered, rep; cbn. auto.
    + unfold reported_offered, rep; cbn. auto.
Qed.

(* TLS <= 1.2: the ECDHE curve is an offered one once the curve check (fixes/C12-tls12-unoffered-curve) is in the tree *)
Lemma report12_offered e v h fl :
  e_fix_curve12 e = true -> reported_offered v fl (report12 e v h fl).
Proof.
  intros Hf. unfold report12.
  destruct (memN (h_suite h) (cv_suites v) && memN (h_suite h) (e_impl12 e)) eqn:E1; cbn [negb]; [|apply rep_empty].
  apply andb_true_iff in E1. destruct E1 as [E1 _]. apply memN_In in E1.
  destruct (h_comp h =? 0); cbn [negb]; [|unfold reported_offered, rep; cbn; auto].
  destruct (check_alpn (cv_alpn v) (h_alpn h)) eqn:E3; cbn [negb]; [|unfold reported_offered, rep; cbn; auto].
  apply check_alpn_inv in E3.
  destruct (process_skx e v (h_suite h) (f_skx fl)) eqn:E4; [unfold reported_offered, rep; cbn; auto|].
  destruct (f_skx fl) as [c|] eqn:Ec; [|unfold reported_offered, rep; cbn; auto].
  unfold process_skx in E4. destruct (memN (h_suite h) (e_ecdhe12 e)); [|discriminate].
  destruct (classical_impl c); [|discriminate]. cbn [negb] in E4. rewrite Hf in E4. cbn [andb] in E4.
  destruct (memN c (cv_curves v)) eqn:E6; [|discriminate]. apply memN_In in E6.
  unfold reported_offered, rep; cbn. auto.
Qed.

Lemma report_offered e v fl : e_fix_curve12 e = true -> reported_offered v fl (report_gen e v fl).
Proof.
  intros Hf. unfold report_gen.
  destruct (pick_version v _); [|apply rep_empty].
  destruct (version_offered e v n); cbn [negb]; [|apply rep_empty].
  destruct (canary_abort e v n _); [apply rep_empty|].
  destruct (n =? V13); [apply report13_offered | apply report12_offered; exact Hf].
Qed.

(* on the wire *)
Lemma report_offered_wire e v w fl :
  e_fix_curve12 e = true -> synced v w = true ->
  let r := report_gen e v fl in
  (cs_suite r = 0 \/ In (cs_suite r) (w_suites w))
  /\ (cs_group r = 0 \/ In (cs_group r) (w_shares w) \/ In (cs_group r) (w_groups w))
  /\ (cs_alpn r = [] \/ In (cs_alpn r) (w_alpn w)).
Proof.
  intros Hf Hs. destruct (synced_inv _ _ Hs) as (S1 & S2 & S3 & S4 & _).
  rewrite <- S1, <- S2, <- S3, <- S4. exact (report_offered e v fl Hf).
Qed.

(* a completed handshake reports exactly the state it completed with *)
Lemma report_of_complete e v fl st :
  client_run_gen e v fl = Complete st ->
  cs_suite (report_gen e v fl) = cs_suite st /\ cs_group (report_gen e v fl) = cs_group st
  /\ cs_alpn (report_gen e v fl) = cs_alpn st.
Proof.
  unfold client_run_gen, report_gen.
  destruct (pick_version v _) as [vers|]; [|discriminate].
  destruct (version_offered e v vers); cbn [negb]; [|discriminate].
  destruct (canary_abort e v vers _); [discriminate|].
  destruct (vers =? V13).
  - unfold run13, report13.
    destruct ((cv_ecdhe v =? 0) || _); [discriminate|].
    destruct (f_hrr fl) as [hrr|].
    + destruct (check_hello13 v None hrr) as [a|suite0]; [discriminate|].
      destruct (process_hrr v hrr) as [a|[shares ecdhe]]; [discriminate|].
      destruct (check_hello13 v (Some suite0) (f_sh fl)) as [a|suite]; [discriminate|].
      destruct (process_sh13 v shares suite (f_sh fl)) as [a|psk]; [discriminate|].
      destruct (establish_keys _ _ _); [discriminate|].
      destruct (f_crypto_ok fl); cbn [negb]; [|discriminate].
      destruct (check_alpn _ _); cbn [negb]; [|discriminate].
      destruct (if psk then None else check_ccert v (f_ccert fl)); [discriminate|].
      intros H; inversion H; subst st; cbn. auto.
    + destruct (check_hello13 v None (f_sh fl)) as [a|suite]; [discriminate|].
      destruct (process_sh13 v (cv_shares v) suite (f_sh fl)) as [a|psk]; [discriminate|].
      destruct (establish_keys _ _ _); [discriminate|].
      destruct (f_crypto_ok fl); cbn [negb]; [|discriminate].
      destruct (check_alpn _ _); cbn [negb]; [|discriminate].
      destruct (if psk then None else check_ccert v (f_ccert fl)); [discriminate|].
      intros H; inversion H; subst st; cbn. auto.
  - unfold run12, report12.
    destruct (memN _ _ && memN _ _); cbn [negb]; [|discriminate].
    destruct (h_comp _ =? 0); cbn [negb]; [|discriminate].
    destruct (check_alpn _ _); cbn [negb]; [|discriminate].
    destruct (process_skx _ _ _ _); [discriminate|].
    destruct (f_crypto_ok fl); cbn [negb]; [|discriminate].
    intros H; inversion H; subst st; cbn. auto.
Qed.

From UV Require Import Base.Common Model.Lru.
From Coq Require Import ZifyBool ZifyNat ZifyN.

Definition keys (l : list entry) : list N := map fst l.
Definition val (e : entry) : N := match snd e with Some x => x | None => 0 end.
Definition abs (l : list entry) : spec := map (fun e => (fst e, val e)) l.

Record Inv (c : lru) : Prop := {
  inv_nodup : NoDup (keys (q c));
  inv_len : (length (q c) <= cap c)%nat;
  inv_cap : (1 <= cap c)%nat;
  inv_some : forall e, In e (q c) -> snd e <> None
}.

(* ---- list facts ---- *)
Lemma keys_remove k l : keys (remove k l) = filter (fun x => negb (x =? k)) (keys l).
Proof.
  unfold keys, remove. induction l as [|e l IH]; cbn [filter map]; [reflexivity|].
  destruct (negb (fst e =? k)); cbn [map]; rewrite IH; reflexivity.
Qed.

Lemma abs_remove k l : abs (remove k l) = s_remove k (abs l).
Proof.
  unfold abs, remove, s_remove. induction l as [|e l IH]; cbn [filter map fst]; [reflexivity|].
  destruct (negb (fst e =? k)); cbn [map]; rewrite IH; reflexivity.
Qed.

Lemma abs_length l : length (abs l) = length l.
Proof. apply map_length. Qed.

Lemma s_lookup_abs k l : s_lookup k (abs l) = option_map val (lookup k l).
Proof.
  unfold lookup, s_lookup, abs. induction l as [|e l IH]; cbn [find map fst]; [reflexivity|].
  destruct (fst e =? k); [reflexivity|]. exact IH.
Qed.

Lemma lookup_abs k l :
  match lookup k l with
  | Some e => s_lookup k (abs l) = Some (val e) /\ fst e = k /\ In e l
  | None => s_lookup k (abs l) = None /\ ~ In k (keys l)
  end.
Proof.
  rewrite s_lookup_abs. unfold lookup. destruct (find (fun e => fst e =? k) l) as [e|] eqn:F; cbn [option_map].
  - apply find_some in F. destruct F as [Hin Hk]. apply N.eqb_eq in Hk. auto.
  - split; [reflexivity|]. unfold keys. intros H. apply in_map_iff in H. destruct H as (e & Hk & Hin).
    pose proof (find_none _ _ F e Hin) as Hn. cbn beta in Hn. rewrite Hk, N.eqb_refl in Hn. discriminate.
Qed.

Lemma remove_absent k l : ~ In k (keys l) -> remove k l = l.
Proof.
  unfold remove, keys. induction l as [|e l IH]; cbn [filter map In]; intros H; [reflexivity|].
  destruct (fst e =? k) eqn:E; [apply N.eqb_eq in E; tauto|].
  cbn [negb]. rewrite IH by tauto. reflexivity.
Qed.

Lemma remove_length_le k l : (length (remove k l) <= length l)%nat.
Proof.
  unfold remove. induction l as [|e l IH]; cbn [filter length]; [lia|].
  destruct (negb _); cbn [length]; lia.
Qed.

Lemma remove_length_lt k l e : In e l -> fst e = k -> (length (remove k l) < length l)%nat.
Proof.
  unfold remove. induction l as [|a l IH]; cbn [filter length In]; [intros []|].
  intros [->|Hin] Hk.
  - rewrite Hk, N.eqb_refl. cbn [negb]. pose proof (remove_length_le k l) as R. unfold remove in R. apply Nat.lt_succ_r. exact R.
  - specialize (IH Hin Hk). destruct (negb _); cbn [length]; lia.
Qed.

Lemma not_in_keys_remove k l : ~ In k (keys (remove k l)).
Proof.
  rewrite keys_remove. intros H. apply filter_In in H. destruct H as [_ H].
  rewrite N.eqb_refl in H. discriminate.
Qed.

Lemma in_remove e k l : In e (remove k l) -> In e l.
Proof. unfold remove. intros H. apply filter_In in H. tauto. Qed.

Lemma NoDup_firstn {A} n (l : list A) : NoDup l -> NoDup (firstn n l).
Proof.
  revert n. induction l as [|a l IH]; intros n H; [rewrite firstn_nil; constructor|].
  destruct n as [|n]; [constructor|]. cbn [firstn]. inversion H as [|? ? Hn Hl]; subst.
  constructor; [|apply IH; exact Hl].
  intros Hin. apply Hn. rewrite <- (firstn_skipn n l). apply in_or_app. left. exact Hin.
Qed.

Lemma keys_firstn n l : keys (firstn n l) = firstn n (keys l).
Proof. unfold keys. symmetry. apply firstn_map. Qed.

Lemma in_firstn {A} n (l : list A) x : In x (firstn n l) -> In x l.
Proof. intros H. rewrite <- (firstn_skipn n l). apply in_or_app. left. exact H. Qed.

(* ---- Put ---- *)
Lemma put_inv c k v : Inv c -> Inv (put c k v).
Proof.
  intros [Hnd Hlen Hcap Hsome]. unfold put.
  pose proof (lookup_abs k (q c)) as L.
  destruct (lookup k (q c)) as [e|].
  - destruct L as (_ & Hk & Hin). destruct v as [x|].
    + constructor; cbn [q cap].
      * cbn [keys map fst]. fold (keys (remove k (q c))). constructor; [apply not_in_keys_remove|].
        rewrite keys_remove. apply NoDup_filter. exact Hnd.
      * cbn [length]. pose proof (remove_length_lt k (q c) e Hin Hk). lia.
      * exact Hcap.
      * intros e' [<-|H]; [discriminate|]. apply Hsome. eapply in_remove; eauto.
    + constructor; cbn [q cap].
      * rewrite keys_remove. apply NoDup_filter. exact Hnd.
      * pose proof (remove_length_le k (q c)). lia.
      * exact Hcap.
      * intros e' H. apply Hsome. eapply in_remove; eauto.
  - destruct L as (_ & Habs). destruct v as [x|]; [|constructor; assumption].
    destruct (length (q c) <? cap c)%nat eqn:E.
    + constructor; cbn [q cap].
      * cbn [keys map fst]. constructor; assumption.
      * cbn [length]. lia.
      * exact Hcap.
      * intros e' [<-|H]; [discriminate|]. apply Hsome; assumption.
    + rewrite removelast_firstn_len. constructor; cbn [q cap].
      * cbn [keys map fst]. fold (keys (firstn (Nat.pred (length (q c))) (q c))). constructor.
        -- rewrite keys_firstn. intros H. apply in_firstn in H. contradiction.
        -- rewrite keys_firstn. apply NoDup_firstn. exact Hnd.
      * cbn [length]. rewrite firstn_length. lia.
      * exact Hcap.
      * intros e' [<-|H]; [discriminate|]. apply Hsome. eapply in_firstn; eauto.
Qed.

Lemma put_abs c k v : Inv c -> abs (q (put c k v)) = s_put (cap c) (abs (q c)) k v.
Proof.
  intros [Hnd Hlen Hcap Hsome]. unfold put, s_put.
  pose proof (lookup_abs k (q c)) as L.
  destruct (lookup k (q c)) as [e|].
  - destruct L as (_ & Hk & Hin). destruct v as [x|]; cbn [q].
    + cbn [abs map fst]. fold (abs (remove k (q c))). unfold val at 1. cbn [snd].
      rewrite abs_remove. rewrite firstn_all2; [reflexivity|].
      cbn [length]. rewrite <- abs_remove, abs_length.
      pose proof (remove_length_lt k (q c) e Hin Hk). lia.
    + apply abs_remove.
  - destruct L as (_ & Habs). destruct v as [x|].
    + assert (R : s_remove k (abs (q c)) = abs (q c)) by (rewrite <- abs_remove, remove_absent by assumption; reflexivity).
      rewrite R. destruct (length (q c) <? cap c)%nat eqn:E; cbn [q].
      * cbn [abs map fst]. fold (abs (q c)). unfold val at 1. cbn [snd].
        rewrite firstn_all2; [reflexivity|]. cbn [length]. rewrite abs_length. lia.
      * cbn [abs map fst]. unfold val at 1. cbn [snd].
        destruct (cap c) as [|n] eqn:Ec; [lia|]. cbn [firstn]. f_equal.
        rewrite removelast_firstn_len. fold (abs (firstn (Nat.pred (length (q c))) (q c))).
        unfold abs. rewrite firstn_map. replace (Nat.pred (length (q c))) with n by lia. reflexivity.
    + cbn [q]. rewrite <- abs_remove, remove_absent by assumption. reflexivity.
Qed.

(* ---- Get ---- *)
Lemma get_inv c k : Inv c -> Inv (fst (get c k)).
Proof.
  intros [Hnd Hlen Hcap Hsome]. unfold get.
  pose proof (lookup_abs k (q c)) as L.
  destruct (lookup k (q c)) as [e|]; cbn [fst]; [|constructor; assumption].
  destruct L as (_ & Hk & Hin). constructor; cbn [q cap].
  - cbn [keys map]. fold (keys (remove k (q c))). rewrite Hk. constructor; [apply not_in_keys_remove|].
    rewrite keys_remove. apply NoDup_filter. exact Hnd.
  - cbn [length]. pose proof (remove_length_lt k (q c) e Hin Hk). lia.
  - exact Hcap.
  - intros e' [<-|H]; [apply Hsome; assumption|]. apply Hsome. eapply in_remove; eauto.
Qed.

Lemma get_abs c k : Inv c ->
  abs (q (fst (get c k))) = fst (s_get (abs (q c)) k) /\
  snd (get c k) = obs_of_spec (snd (s_get (abs (q c)) k)).
Proof.
  intros [Hnd Hlen Hcap Hsome]. unfold get, s_get.
  pose proof (lookup_abs k (q c)) as L.
  destruct (lookup k (q c)) as [e|].
  - destruct L as (Hs & Hk & Hin). rewrite Hs. cbn [fst snd q]. split.
    + cbn [abs map]. fold (abs (remove k (q c))). rewrite abs_remove, Hk. reflexivity.
    + unfold val, obs_of_spec. specialize (Hsome e Hin). destruct (snd e); [reflexivity|congruence].
  - destruct L as (Hs & _). rewrite Hs. cbn [fst snd]. split; reflexivity.
Qed.

(* ---- whole histories ---- *)
Lemma run_refines ops : forall c, Inv c ->
  run c ops = map obs_of_spec (s_run (cap c) (abs (q c)) ops).
Proof.
  induction ops as [|o ops IH]; intros c Hc; [reflexivity|].
  destruct o as [k v|k]; cbn [run s_run].
  - rewrite (IH (put c k v) (put_inv c k v Hc)), (put_abs c k v Hc).
    replace (cap (put c k v)) with (cap c); [reflexivity|].
    unfold put. destruct (lookup k (q c)); destruct v; try reflexivity. destruct (_ <? _)%nat; reflexivity.
  - pose proof (get_abs c k Hc) as [A B]. pose proof (get_inv c k Hc) as I.
    destruct (get c k) as [c' o] eqn:G. destruct (s_get (abs (q c)) k) as [s' o'] eqn:SG.
    cbn [fst snd] in *. cbn [map]. rewrite B. f_equal.
    rewrite (IH c' I), A.
    replace (cap c') with (cap c); [reflexivity|].
    unfold get in G. destruct (lookup k (q c)); inversion G; reflexivity.
Qed.

Lemma final_inv ops : forall c, Inv c -> Inv (final c ops).
Proof.
  induction ops as [|o ops IH]; intros c Hc; [exact Hc|].
  destruct o as [k v|k]; cbn [final]; apply IH; [apply put_inv | apply get_inv]; exact Hc.
Qed.

Lemma new_inv n : Inv (new_lru n).
Proof.
  unfold new_lru. constructor; cbn [q cap keys map length].
  - constructor.
  - lia.
  - destruct (n <? 1)%Z eqn:E; lia.
  - intros e [].
Qed.

Lemma filter_len_le {A} (f : A -> bool) l : (length (filter f l) <= length l)%nat.
Proof. induction l as [|a l IH]; cbn [filter length]; [auto|]. destruct (f a); cbn [length]; auto with arith. Qed.

Lemma s_put_bounded n s k v : (length s <= n)%nat -> (length (s_put n s k v) <= n)%nat.
Proof.
  intros H. unfold s_put. destruct v as [x|].
  - rewrite firstn_length. apply Nat.le_min_l.
  - unfold s_remove. eapply Nat.le_trans; [apply filter_len_le | exact H].
Qed.

(* Preservation of the C20 invariant by Handshake (split from SessionP.v for build time). *)
From UV Require Import Base.Common Model.Session Proofs.SessionP.
From Coq Require Import ZifyBool ZifyNat ZifyN.

Lemma ok_Handshake : forall w l i s l', world_ok w = true -> w_golang w = false -> invb w l i s = true ->
  legal_step w l Handshake = Some l' -> ok_after w l i s Handshake l'.
Proof. start. all: solve_op. Qed.

